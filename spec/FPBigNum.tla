------------------------------ MODULE FPBigNum ------------------------------
(***************************************************************************)
(* Exact arithmetic for the specification.  TLC integers are 32-bit and    *)
(* overflow is a run-time error, so naturals are little-endian sequences   *)
(* of base-10^4 limbs (every intermediate value stays below 2*10^8).       *)
(*                                                                         *)
(*   Nat values   : sequences of 0..9999 without a trailing (most          *)
(*                  significant) zero limb; zero is <<>>.                  *)
(*   Signed       : [neg |-> BOOLEAN, m |-> Nat value]  (zero has neg =    *)
(*                  FALSE)                                                 *)
(*   Decimal      : [neg, m, e]  =  (-1)^neg * m * 10^e ; the canonical    *)
(*                  form has m not divisible by 10 (zero: m = <<>>, e = 0) *)
(***************************************************************************)
EXTENDS Naturals, Integers, Sequences

Base == 10000

RECURSIVE NTrim(_)
NTrim(a) == IF Len(a) > 0 /\ a[Len(a)] = 0 THEN NTrim(SubSeq(a, 1, Len(a) - 1)) ELSE a

NZero == <<>>
NIsZero(a) == Len(a) = 0

(* a small non-negative TLC integer (< 2^31) as a Nat value *)
RECURSIVE NFromInt(_)
NFromInt(n) == IF n = 0 THEN <<>> ELSE <<n % Base>> \o NFromInt(n \div Base)

Limb(a, k) == IF k <= Len(a) THEN a[k] ELSE 0
Max(x, y) == IF x >= y THEN x ELSE y

(* comparison: -1, 0, 1 *)
RECURSIVE NCmpFrom(_, _, _)
NCmpFrom(a, b, k) ==
  IF k = 0 THEN 0
  ELSE IF a[k] < b[k] THEN -1 ELSE IF a[k] > b[k] THEN 1 ELSE NCmpFrom(a, b, k - 1)
NCmp(a, b) ==
  IF Len(a) < Len(b) THEN -1 ELSE IF Len(a) > Len(b) THEN 1 ELSE NCmpFrom(a, b, Len(a))

RECURSIVE NAddFrom(_, _, _, _)
NAddFrom(a, b, k, carry) ==
  IF k > Max(Len(a), Len(b)) THEN (IF carry = 0 THEN <<>> ELSE <<carry>>)
  ELSE LET s == Limb(a, k) + Limb(b, k) + carry
       IN <<s % Base>> \o NAddFrom(a, b, k + 1, s \div Base)
NAdd(a, b) == NAddFrom(a, b, 1, 0)

(* a - b for a >= b *)
RECURSIVE NSubFrom(_, _, _, _)
NSubFrom(a, b, k, borrow) ==
  IF k > Len(a) THEN <<>>
  ELSE LET s == a[k] - Limb(b, k) - borrow
       IN IF s < 0 THEN <<s + Base>> \o NSubFrom(a, b, k + 1, 1)
                   ELSE <<s>> \o NSubFrom(a, b, k + 1, 0)
NSub(a, b) == NTrim(NSubFrom(a, b, 1, 0))

(* a * d for one limb d (0..9999), then shifted by `sh` limbs *)
RECURSIVE NMulLimbFrom(_, _, _, _)
NMulLimbFrom(a, d, k, carry) ==
  IF k > Len(a) THEN (IF carry = 0 THEN <<>> ELSE <<carry>>)
  ELSE LET p == a[k] * d + carry
       IN <<p % Base>> \o NMulLimbFrom(a, d, k + 1, p \div Base)
Zeros(n) == [j \in 1..n |-> 0]
NShift(a, sh) == IF NIsZero(a) THEN a ELSE Zeros(sh) \o a
NMulLimb(a, d) == NTrim(NMulLimbFrom(a, d, 1, 0))

RECURSIVE NMulFrom(_, _, _)
NMulFrom(a, b, k) ==
  IF k > Len(b) THEN <<>>
  ELSE NAdd(NShift(NMulLimb(a, b[k]), k - 1), NMulFrom(a, b, k + 1))
NMul(a, b) == IF NIsZero(a) \/ NIsZero(b) THEN <<>> ELSE NMulFrom(a, b, 1)

Pow10Small(k) == CASE k = 0 -> 1 [] k = 1 -> 10 [] k = 2 -> 100 [] k = 3 -> 1000
(* a * 10^k *)
NMulPow10(a, k) == NShift(NMulLimb(a, Pow10Small(k % 4)), k \div 4)

(* divisible by 10 / divide by 10 exactly (used for canonical decimals) *)
NLowDigitZero(a) == ~NIsZero(a) /\ a[1] % 10 = 0
RECURSIVE NDiv10From(_, _)
NDiv10From(a, k) ==  \* limbs k..Len(a) of floor(a / 10)
  IF k > Len(a) THEN <<>>
  ELSE <<(a[k] \div 10) + (Limb(a, k + 1) % 10) * 1000>> \o NDiv10From(a, k + 1)
NDiv10(a) == NTrim(NDiv10From(a, 1))

(* number of decimal digits *)
DigitsOfLimb(x) == IF x >= 1000 THEN 4 ELSE IF x >= 100 THEN 3 ELSE IF x >= 10 THEN 2 ELSE 1
NDigits(a) == IF NIsZero(a) THEN 0 ELSE 4 * (Len(a) - 1) + DigitsOfLimb(a[Len(a)])

(* does the Nat value fit a TLC int, and its value (only call when it fits: < 2*10^9) *)
NFitsInt(a) == Len(a) <= 2 \/ (Len(a) = 3 /\ a[3] <= 20)
NToInt(a) == Limb(a, 1) + Limb(a, 2) * Base + Limb(a, 3) * Base * Base

(******************************* signed **********************************)
SMake(neg, m) == [neg |-> neg /\ ~NIsZero(m), m |-> m]
SFromInt(n) ==
  IF n = -2147483647 - 1 THEN [neg |-> TRUE, m |-> <<3648, 4748, 21>>]
  ELSE IF n < 0 THEN [neg |-> TRUE, m |-> NFromInt(0 - n)] ELSE [neg |-> FALSE, m |-> NFromInt(n)]
SNeg(a) == SMake(~a.neg, a.m)
SCmp(a, b) ==
  IF a.neg /\ ~b.neg THEN -1 ELSE IF ~a.neg /\ b.neg THEN 1
  ELSE IF a.neg THEN NCmp(b.m, a.m) ELSE NCmp(a.m, b.m)
SAdd(a, b) ==
  IF a.neg = b.neg THEN SMake(a.neg, NAdd(a.m, b.m))
  ELSE IF NCmp(a.m, b.m) >= 0 THEN SMake(a.neg, NSub(a.m, b.m)) ELSE SMake(b.neg, NSub(b.m, a.m))
SSub(a, b) == SAdd(a, SNeg(b))
SMul(a, b) == SMake(a.neg # b.neg, NMul(a.m, b.m))
SAbs(a) == SMake(FALSE, a.m)
SIsZero(a) == NIsZero(a.m)
SSign(a) == IF NIsZero(a.m) THEN 0 ELSE IF a.neg THEN -1 ELSE 1

Int32MaxS == [neg |-> FALSE, m |-> <<3647, 4748, 21>>]
Int32MinS == [neg |-> TRUE,  m |-> <<3648, 4748, 21>>]
SFitsInt32(a) == SCmp(a, Int32MinS) >= 0 /\ SCmp(a, Int32MaxS) <= 0
(* value of a signed number known to fit int32 *)
SToInt(a) == IF a.neg THEN (IF a.m = <<3648, 4748, 21>> THEN -2147483647 - 1 ELSE 0 - NToInt(a.m)) ELSE NToInt(a.m)

(******************************* decimals ********************************)
RECURSIVE DCanonM(_, _, _)
DCanonM(neg, m, e) ==
  IF NIsZero(m) THEN [neg |-> FALSE, m |-> <<>>, e |-> 0]
  ELSE IF NLowDigitZero(m) THEN DCanonM(neg, NDiv10(m), e + 1)
  ELSE [neg |-> neg, m |-> m, e |-> e]
DMake(neg, m, e) == DCanonM(neg, m, e)
DZero == [neg |-> FALSE, m |-> <<>>, e |-> 0]
DFromInt(n) == LET s == SFromInt(n) IN DMake(s.neg, s.m, 0)
DIsZero(a) == NIsZero(a.m)
DSign(a) == IF NIsZero(a.m) THEN 0 ELSE IF a.neg THEN -1 ELSE 1
DNeg(a) == IF DIsZero(a) THEN a ELSE [a EXCEPT !.neg = ~a.neg]
DAbs(a) == [a EXCEPT !.neg = FALSE]

Min(x, y) == IF x <= y THEN x ELSE y
(* coefficient of a at exponent e0 <= a.e (exact) *)
DCoefAt(a, e0) == NMulPow10(a.m, a.e - e0)
DAsSigned(a, e0) == SMake(a.neg, DCoefAt(a, e0))

DCmp(a, b) == LET e0 == Min(a.e, b.e) IN SCmp(DAsSigned(a, e0), DAsSigned(b, e0))
DEq(a, b) == DCmp(a, b) = 0
DLt(a, b) == DCmp(a, b) < 0
DLe(a, b) == DCmp(a, b) <= 0
DAdd(a, b) == LET e0 == Min(a.e, b.e)
                  s == SAdd(DAsSigned(a, e0), DAsSigned(b, e0))
              IN DMake(s.neg, s.m, e0)
DSub(a, b) == DAdd(a, DNeg(b))
DMul(a, b) == DMake(a.neg # b.neg, NMul(a.m, b.m), a.e + b.e)
(* 10^k as a decimal (k any integer) *)
DPow10(k) == [neg |-> FALSE, m |-> <<1>>, e |-> k]
DIsInteger(a) == a.e >= 0
(* integer-valued decimal as signed integer *)
DToSigned(a) == DAsSigned(a, 0)

(* the abstract Decimal item <-> decimal record *)
DOfItem(x) == [neg |-> x.neg, m |-> x.m, e |-> x.e]
DItem(a) == [t |-> "d", neg |-> a.neg, m |-> a.m, e |-> a.e]
=============================================================================
