------------------------------ MODULE FPArith ------------------------------
(***************************************************************************)
(* Reference semantics of FHIRPath Integer / Decimal arithmetic            *)
(* (property C08, DESIGN.md Appendix F "Arithmetic").                      *)
(*                                                                         *)
(* A NUMBER is [int |-> BOOLEAN, d |-> decimal record of FPBigNum]; int    *)
(* says the value has type Integer (then d is integer-valued and fits      *)
(* int32).  Mixed Integer/Decimal operands promote the Integer.            *)
(*                                                                         *)
(* The module has two halves that are deliberately independent:            *)
(*                                                                         *)
(*  (R) RELATIONS  - what the property permits, stated with BigNum add /   *)
(*      multiply / compare only (no division):                             *)
(*        q permitted for a / b    iff |q*b - a| <= |b| * 10^-16           *)
(*        q = a div b              iff q integer, |q|*|b| <= |a|,          *)
(*                                     |a| - |q|*|b| < |b|, sign right     *)
(*        r = a mod b              iff a = (a div b)*b + r                 *)
(*        n = floor(x)             iff n <= x < n+1          (and so on)   *)
(*      The judge uses only these.                                         *)
(*                                                                         *)
(*  (W) WITNESSES - constructive results (long division by binary search   *)
(*      of each quotient limb).  They are what the specification proposes  *)
(*      as the expected value, and TLC checks on the boundary pools that   *)
(*      every witness satisfies its relation, that the relation is         *)
(*      functional (neighbours of the witness are refused) and the ring    *)
(*      laws.  The CONSTANT Mutant corrupts a witness; every mutant must   *)
(*      be refused by those laws.                                          *)
(*                                                                         *)
(* A result descriptor says which outcomes are permitted:                  *)
(*   [k |-> "val", int, d, orEmpty, orErr]   this value (compared by value *)
(*                                           and type), optionally also    *)
(*                                           empty / an error              *)
(*   [k |-> "none", orEmpty, orErr]          no value is permitted         *)
(***************************************************************************)
EXTENDS FPBigNum

CONSTANT Mutant

BinOps  == {"+", "-", "*", "/", "div", "mod"}
UnOps   == {"neg", "abs", "floor", "ceiling", "truncate", "round", "roundp"}
IntFns  == {"floor", "ceiling", "truncate"}

(******************************* numbers **********************************)
NumI(n)      == [int |-> TRUE,  d |-> DFromInt(n)]            \* n a native int32
NumD(dec)    == [int |-> FALSE, d |-> dec]
NumOfItem(x) == IF x.t = "i" THEN NumI(x.i) ELSE NumD(DMake(x.neg, x.m, x.e))

DOne      == DFromInt(1)
DHalfAt(p) == [neg |-> FALSE, m |-> <<5>>, e |-> 0 - p - 1]     \* 0.5 * 10^-p
DInt32Min == DFromInt(-2147483647 - 1)
DInt32Max == DFromInt(2147483647)
DTwo31    == DAdd(DInt32Max, DOne)                              \* 2^31
DFitsInt32(x) == DIsInteger(x) /\ DLe(DInt32Min, x) /\ DLe(x, DInt32Max)
DIsIntegral(x) == x.e >= 0                                      \* canonical form
(* x has at most p fractional digits (x canonical) *)
DHasScaleAtMost(x, p) == DIsZero(x) \/ x.e >= 0 - p

NPow10(k) == NMulPow10(<<1>>, k)

(***************************************************************************)
(* (R)  RELATIONS                                                          *)
(***************************************************************************)

(* q is an acceptable quotient a / b (b # 0): within |b| * 10^-16 *)
QuotRel(a, b, q) ==
  DLe(DAbs(DSub(DMul(q, b), a)), DMul(DAbs(b), DPow10(-16)))

(* q is THE truncated quotient of a by b (b # 0) *)
DivRel(a, b, q) ==
  /\ DIsIntegral(q)
  /\ DLe(DMul(DAbs(q), DAbs(b)), DAbs(a))
  /\ DLt(DSub(DAbs(a), DMul(DAbs(q), DAbs(b))), DAbs(b))
  /\ (DIsZero(q) \/ q.neg = (a.neg # b.neg))

(* the truncated quotient of a by b (b # 0) lies outside int32 *)
DivOverflows(a, b) ==
  IF a.neg = b.neg \/ DIsZero(a)
    THEN DLe(DMul(DTwo31, DAbs(b)), DAbs(a))                     \*  q >=  2^31
    ELSE DLe(DMul(DAdd(DTwo31, DOne), DAbs(b)), DAbs(a))         \*  q <= -2^31 - 1

(* r is the remainder that matches quotient q *)
ModRel(a, b, q, r) == DivRel(a, b, q) /\ DEq(a, DAdd(DMul(q, b), r))
(* consequences used as laws: |r| < |b| and r has the dividend's sign *)
ModShape(a, b, r) == DLt(DAbs(r), DAbs(b)) /\ (DIsZero(r) \/ r.neg = a.neg)

FloorRel(x, n) == DIsIntegral(n) /\ DLe(n, x) /\ DLt(x, DAdd(n, DOne))
CeilRel(x, n)  == DIsIntegral(n) /\ DLt(DSub(n, DOne), x) /\ DLe(x, n)
TruncRel(x, n) == IF x.neg THEN CeilRel(x, n) ELSE FloorRel(x, n)

FloorFits(x) == DLe(DInt32Min, x) /\ DLt(x, DTwo31)
CeilFits(x)  == DLt(DSub(DInt32Min, DOne), x) /\ DLe(x, DInt32Max)
TruncFits(x) == DLt(DSub(DInt32Min, DOne), x) /\ DLt(x, DTwo31)

(* r is x rounded to p >= 0 fractional digits.  A tie goes away from zero; *)
(* for a negative tie "half up" is accepted as well (DESIGN.md 7.1).       *)
RoundRel(x, p, r) ==
  /\ DHasScaleAtMost(r, p)
  /\ LET diff == DAbs(DSub(r, x))
     IN \/ DLt(diff, DHalfAt(p))
        \/ DEq(diff, DHalfAt(p)) /\ (x.neg \/ DLt(x, r))

(***************************************************************************)
(* Long division of naturals (only the witnesses and the quotient needed   *)
(* by `mod` use it; every use is re-checked by a relation above).          *)
(***************************************************************************)
(* largest d in lo..hi with d*b <= r, given lo*b <= r *)
RECURSIVE NQDigit(_, _, _, _)
NQDigit(r, b, lo, hi) ==
  IF lo = hi THEN lo
  ELSE LET mid == (lo + hi + 1) \div 2
       IN IF NCmp(NMulLimb(b, mid), r) <= 0 THEN NQDigit(r, b, mid, hi) ELSE NQDigit(r, b, lo, mid - 1)

RECURSIVE NDivModFrom(_, _, _, _)
NDivModFrom(a, b, k, rem) ==       \* limbs k..1 of a still to bring down
  IF k = 0 THEN [q |-> <<>>, r |-> rem]
  ELSE LET cur  == NTrim(<<a[k]>> \o rem)                \* rem * Base + a[k]
           dg   == NQDigit(cur, b, 0, Base - 1)
           rest == NDivModFrom(a, b, k - 1, NSub(cur, NMulLimb(b, dg)))
       IN [q |-> rest.q \o <<dg>>, r |-> rest.r]
(* b # 0:  a = q*b + r, 0 <= r < b *)
NDivMod(a, b) == LET x == NDivModFrom(a, b, Len(a), <<>>) IN [q |-> NTrim(x.q), r |-> x.r]

(* |a| / |b| as a pair of naturals over the common exponent *)
CommonNat(a, b) == LET e0 == Min(a.e, b.e) IN [na |-> DCoefAt(a, e0), nb |-> DCoefAt(b, e0)]

(* the truncated quotient as a decimal (unbounded, exact), b # 0 *)
TruncQuot(a, b) ==
  LET c == CommonNat(a, b) IN DMake(a.neg # b.neg, NDivMod(c.na, c.nb).q, 0)

(***************************************************************************)
(* (W)  WITNESSES  (Mutant corrupts them)                                  *)
(***************************************************************************)
Val(int, d)   == [k |-> "val", int |-> int, d |-> d, orEmpty |-> FALSE, orErr |-> FALSE]
Empty         == [k |-> "none", orEmpty |-> TRUE, orErr |-> FALSE]
EmptyOrErr    == [k |-> "none", orEmpty |-> TRUE, orErr |-> TRUE]

(* an Integer-typed result: the value when it fits int32, otherwise empty *)
IntResult(d) == IF DFitsInt32(d) \/ Mutant = "noOverflowCheck" THEN Val(TRUE, d) ELSE Empty
(* an Integer-typed result of a rounding function: empty or an error when it does not fit *)
IntResultLenient(d) == IF DFitsInt32(d) \/ Mutant = "noOverflowCheck" THEN Val(TRUE, d) ELSE EmptyOrErr

WDivQ(a, b) ==
  LET c  == CommonNat(a, b)
      qr == NDivMod(c.na, c.nb)
      down == Mutant = "divRoundsDown" /\ (a.neg # b.neg) /\ ~NIsZero(qr.r)
  IN DMake(a.neg # b.neg, IF down THEN NAdd(qr.q, <<1>>) ELSE qr.q, 0)

WModR(a, b) ==
  LET c  == CommonNat(a, b)
      e0 == Min(a.e, b.e)
      qr == NDivMod(c.na, c.nb)
  IN IF Mutant = "modSignOfDivisor" /\ (a.neg # b.neg) /\ ~NIsZero(qr.r)
       THEN DMake(b.neg, NSub(c.nb, qr.r), e0)
       ELSE DMake(a.neg, qr.r, e0)

(* a / b rounded half away from zero at 16 fractional digits *)
WQuot(a, b) ==
  LET digits == IF Mutant = "quotient15" THEN 15 ELSE 16
      k  == digits + a.e - b.e
      n  == IF k >= 0 THEN NMulPow10(a.m, k) ELSE a.m
      dv == IF k >= 0 THEN b.m ELSE NMulPow10(b.m, 0 - k)
      qr == NDivMod(n, dv)
      up == NCmp(NAdd(qr.r, qr.r), dv) >= 0
  IN DMake(a.neg # b.neg, IF up THEN NAdd(qr.q, <<1>>) ELSE qr.q, 0 - digits)

(* x split at 10^-p: |x| = (q + f) * 10^-p with q natural, 0 <= f < 1; f given as remainder r over 10^k *)
SplitAt(x, p) ==
  LET k == 0 - p - x.e        \* number of digits to drop (> 0 when there is something to drop)
  IN IF k <= 0 THEN [q |-> NMulPow10(x.m, 0 - k), r |-> <<>>, den |-> <<1>>]
     ELSE LET qr == NDivMod(x.m, NPow10(k)) IN [q |-> qr.q, r |-> qr.r, den |-> NPow10(k)]

WFloorD(x) ==
  LET s == SplitAt(x, 0)
      bump == x.neg /\ ~NIsZero(s.r)
  IN DMake(x.neg, IF bump THEN NAdd(s.q, <<1>>) ELSE s.q, 0)
WCeilD(x) ==
  LET s == SplitAt(x, 0)
      bump == IF Mutant = "ceilIsFloorPlusOne" THEN ~x.neg ELSE (~x.neg /\ ~NIsZero(s.r))
  IN DMake(x.neg, IF bump THEN NAdd(s.q, <<1>>) ELSE s.q, 0)
WTruncD(x) == DMake(x.neg, SplitAt(x, 0).q, 0)
WRoundD(x, p) ==
  LET s  == SplitAt(x, p)
      up == IF Mutant = "roundTruncates" THEN FALSE
            ELSE IF Mutant = "roundHalfDown" THEN NCmp(NAdd(s.r, s.r), s.den) > 0
            ELSE NCmp(NAdd(s.r, s.r), s.den) >= 0
  IN DMake(x.neg, IF up THEN NAdd(s.q, <<1>>) ELSE s.q, 0 - p)

(* Binary operators.  a, b numbers. *)
WBin(op, a, b) ==
  LET bothInt == a.int /\ b.int
      A == a.d
      B == b.d
  IN CASE op \in {"+", "-", "*"} ->
            (LET r == CASE op = "+" -> DAdd(A, B) [] op = "-" -> DSub(A, B) [] op = "*" -> DMul(A, B)
             IN IF bothInt THEN IntResult(r) ELSE Val(FALSE, r))
       [] op = "/" -> IF DIsZero(B) THEN Empty ELSE Val(FALSE, WQuot(A, B))
       [] op = "div" -> IF DIsZero(B) THEN Empty ELSE IntResult(WDivQ(A, B))
       [] op = "mod" ->
            IF DIsZero(B) THEN Empty
            ELSE [Val(bothInt, WModR(A, B)) EXCEPT !.orEmpty = DivOverflows(A, B)]

(* Unary minus, abs and the rounding functions.  p is the precision of roundp. *)
WUn(op, a, p) ==
  LET X == a.d
      big == ~TruncFits(X)          \* the rounded value does not fit an Integer
  IN CASE op = "neg" ->
            IF a.int THEN (IF Mutant = "negMinInt" /\ DEq(X, DInt32Min) THEN Val(TRUE, X) ELSE IntResult(DNeg(X)))
            ELSE Val(FALSE, DNeg(X))
       [] op = "abs" ->
            IF a.int THEN (IF Mutant = "negMinInt" /\ DEq(X, DInt32Min) THEN Val(TRUE, X) ELSE IntResult(DAbs(X)))
            ELSE Val(FALSE, DAbs(X))
       [] op = "floor"    -> IntResultLenient(WFloorD(X))
       [] op = "ceiling"  -> IntResultLenient(WCeilD(X))
       [] op = "truncate" -> IntResultLenient(WTruncD(X))
       [] op = "round"    -> [Val(FALSE, WRoundD(X, 0)) EXCEPT !.orEmpty = big, !.orErr = big]
       [] op = "roundp"   ->
            IF p < 0 THEN EmptyOrErr
            ELSE [Val(FALSE, WRoundD(X, p)) EXCEPT !.orEmpty = big, !.orErr = big]

(***************************************************************************)
(* Acceptance of an observed number / of emptiness / of an error, stated   *)
(* with the relations.  v is a number (observed).                          *)
(***************************************************************************)
AcceptsValBin(op, a, b, v) ==
  LET bothInt == a.int /\ b.int
      A == a.d
      B == b.d
      V == v.d
  IN CASE op \in {"+", "-", "*"} ->
            (LET r == CASE op = "+" -> DAdd(A, B) [] op = "-" -> DSub(A, B) [] op = "*" -> DMul(A, B)
             IN v.int = bothInt /\ DEq(V, r))          \* an Integer item always fits int32
       [] op = "/" -> ~DIsZero(B) /\ ~v.int /\ QuotRel(A, B, V)
       [] op = "div" -> ~DIsZero(B) /\ (bothInt => v.int) /\ DivRel(A, B, V) /\ DFitsInt32(V)
       [] op = "mod" -> ~DIsZero(B) /\ v.int = bothInt /\ ModRel(A, B, TruncQuot(A, B), V)

MayBeEmptyBin(op, a, b) ==
  LET bothInt == a.int /\ b.int
      A == a.d
      B == b.d
  IN CASE op \in {"+", "-", "*"} ->
            (LET r == CASE op = "+" -> DAdd(A, B) [] op = "-" -> DSub(A, B) [] op = "*" -> DMul(A, B)
             IN bothInt /\ ~DFitsInt32(r))
       [] op = "/" -> DIsZero(B)
       [] op \in {"div", "mod"} -> DIsZero(B) \/ DivOverflows(A, B)

MayBeErrBin(op, a, b) == FALSE

AcceptsValUn(op, a, p, v) ==
  LET X == a.d
      V == v.d
  IN CASE op = "neg" -> v.int = a.int /\ DEq(V, DNeg(X))
       [] op = "abs" -> v.int = a.int /\ DEq(V, DAbs(X))
       [] op = "floor"    -> v.int /\ FloorRel(X, V)
       [] op = "ceiling"  -> v.int /\ CeilRel(X, V)
       [] op = "truncate" -> v.int /\ TruncRel(X, V)
       [] op = "round"    -> RoundRel(X, 0, V)
       [] op = "roundp"   -> p >= 0 /\ RoundRel(X, p, V)

NotFitsUn(op, a, p) ==
  LET X == a.d
  IN CASE op \in {"neg", "abs"} -> a.int /\ DEq(X, DInt32Min)
       [] op = "floor"    -> ~FloorFits(X)
       [] op = "ceiling"  -> ~CeilFits(X)
       [] op = "truncate" -> ~TruncFits(X)
       [] op \in {"round", "roundp"} -> ~TruncFits(X) \/ (op = "roundp" /\ p < 0)

MayBeEmptyUn(op, a, p) == NotFitsUn(op, a, p)
MayBeErrUn(op, a, p)   == op \notin {"neg", "abs"} /\ NotFitsUn(op, a, p)

(***************************************************************************)
(* Does a result descriptor (witness) pass the relations?  This is the law *)
(* "every witness is permitted" checked by TLC on the pools, and the       *)
(* self-check the judge applies before it proposes a witness.              *)
(***************************************************************************)
(* w is the witness WBin(op, a, b) / WUn(op, a, p) (passed in so that callers that hold it do not recompute it) *)
WitnessOkBinW(op, a, b, w) ==
  /\ w.k = "val" => AcceptsValBin(op, a, b, [int |-> w.int, d |-> w.d])
  /\ w.orEmpty = MayBeEmptyBin(op, a, b)
  /\ w.orErr = MayBeErrBin(op, a, b)
  /\ w.k = "none" => w.orEmpty
WitnessOkBin(op, a, b) == WitnessOkBinW(op, a, b, WBin(op, a, b))

WitnessOkUnW(op, a, p, w) ==
  /\ w.k = "val" => AcceptsValUn(op, a, p, [int |-> w.int, d |-> w.d])
  /\ w.orEmpty = MayBeEmptyUn(op, a, p)
  /\ w.orErr = MayBeErrUn(op, a, p)
  /\ w.k = "none" => w.orEmpty
WitnessOkUn(op, a, p) == WitnessOkUnW(op, a, p, WUn(op, a, p))

(* An Integer-typed witness fits int32 ("results in range"). *)
InRange(w) == (w.k = "val" /\ w.int) => DFitsInt32(w.d)

(* The relations are functional where the property demands one value: the  *)
(* neighbours of the witness (one unit away for an integral value, one     *)
(* unit in the last decimal place otherwise) are refused.  `/` is exempt:  *)
(* the property permits every decimal within |b| * 10^-16 of the quotient. *)
(* C08_Laws additionally tries EVERY candidate of a small range.           *)
Neighbours(w) ==
  IF w.int \/ DIsIntegral(w.d) THEN {DAdd(w.d, DOne), DSub(w.d, DOne)}
  ELSE {DAdd(w.d, DPow10(w.d.e)), DSub(w.d, DPow10(w.d.e))}

FunctionalBinW(op, a, b, w) ==
  (w.k = "val" /\ op # "/") =>
       \A n \in Neighbours(w) : ~AcceptsValBin(op, a, b, [int |-> w.int, d |-> n])
FunctionalBin(op, a, b) == FunctionalBinW(op, a, b, WBin(op, a, b))
FunctionalUnW(op, a, p, w) ==
  LET tie == op \in {"round", "roundp"} /\ a.d.neg /\ DEq(DAbs(DSub(w.d, a.d)), DHalfAt(IF op = "round" THEN 0 ELSE p))
  IN (w.k = "val" /\ ~tie) =>
       \A n \in (IF op = "roundp" THEN {DAdd(w.d, DPow10(0 - p)), DSub(w.d, DPow10(0 - p))} ELSE Neighbours(w)) :
          ~AcceptsValUn(op, a, p, [int |-> w.int, d |-> n])
FunctionalUn(op, a, p) == FunctionalUnW(op, a, p, WUn(op, a, p))

(***************************************************************************)
(* Algebraic laws over witnesses (checked on the pools by C08_MC).         *)
(***************************************************************************)
SameW(w1, w2) ==
  /\ w1.k = w2.k /\ w1.orEmpty = w2.orEmpty /\ w1.orErr = w2.orErr
  /\ (w1.k = "val" => w1.int = w2.int /\ DEq(w1.d, w2.d))

LawCommutes(a, b) == SameW(WBin("+", a, b), WBin("+", b, a)) /\ SameW(WBin("*", a, b), WBin("*", b, a))
(* the same for one operator, given its witness w = WBin(op, a, b) *)
LawCommutesW(op, a, b, w) == SameW(w, WBin(op, b, a))

(* a - b = -(b - a) whenever both are values *)
LawAntiCommutes(a, b) ==
  LET x == WBin("-", a, b)
      y == WBin("-", b, a)
  IN (x.k = "val" /\ y.k = "val") => DEq(x.d, DNeg(y.d))

(* a = (a div b)*b + a mod b, |a mod b| < |b|, sign of the dividend *)
LawDivMod(a, b) ==
  DIsZero(b.d) \/
  LET q == WDivQ(a.d, b.d)
      r == WModR(a.d, b.d)
  IN DEq(a.d, DAdd(DMul(q, b.d), r)) /\ ModShape(a.d, b.d, r)

(* (a / b) * b is within |b| * 10^-16 of a; x + (-x) = 0; |x| >= 0; -(-x) = x *)
LawQuotient(a, b) == DIsZero(b.d) \/ QuotRel(a.d, b.d, WQuot(a.d, b.d))
(* the quotient is odd in the dividend: (-a) / b = -(a / b) *)
LawQuotientOdd(a, b) == DIsZero(b.d) \/ DEq(WQuot(DNeg(a.d), b.d), DNeg(WQuot(a.d, b.d)))
LawNeg(a) ==
  LET n == WUn("neg", a, 0)
  IN n.k = "val" => /\ DIsZero(DAdd(n.d, a.d))
                    /\ SameW(WUn("neg", [int |-> n.int, d |-> n.d], 0), Val(a.int, a.d))
LawAbs(a) ==
  LET n == WUn("abs", a, 0)
  IN n.k = "val" => ~n.d.neg /\ (DEq(n.d, a.d) \/ DEq(n.d, DNeg(a.d)))

(* floor <= x <= ceiling, ceiling - floor in {0, 1}, truncate is the one nearer zero, round within 1/2 *)
LawRounding(a) ==
  LET x == a.d
      f == WFloorD(x)
      c == WCeilD(x)
      t == WTruncD(x)
      r == WRoundD(x, 0)
  IN /\ DLe(f, x) /\ DLe(x, c)
     /\ (DEq(c, f) \/ DEq(c, DAdd(f, DOne)))
     /\ (DEq(c, f) <=> DIsIntegral(x))
     /\ DEq(t, IF x.neg THEN c ELSE f)
     /\ (DEq(r, f) \/ DEq(r, c))
     /\ DLe(DAbs(DSub(r, x)), DHalfAt(0))

(* distributivity on decimals: a*(b+c) = a*b + a*c *)
LawDistributes(a, b, c) == DEq(DMul(a.d, DAdd(b.d, c.d)), DAdd(DMul(a.d, b.d), DMul(a.d, c.d)))
=============================================================================
