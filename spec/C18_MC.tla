------------------------------- MODULE C18_MC -------------------------------
(***************************************************************************)
(* Roles 1 and 2 for property C18.  The state is a resource as an          *)
(* annotated JSON tree (the small model resource M0: scalar, repeated,     *)
(* choice, code, reference, contained; three levels) and the behaviour so  *)
(* far; an action applies one patch operation of the model's case space.   *)
(* Up to depth WideDepth the full cross (all path forms x operations x     *)
(* value classes x indexes in [-1, len+1]) is explored, beyond it the core *)
(* alphabet, to MaxDepth.  A behaviour ends at its first failing operation *)
(* unless KeepGoing (simulation).  Every explored transition is emitted as *)
(* the behaviour that reaches it (role 2); the invariants below are the    *)
(* property on the specification itself (role 1) and must fail for every   *)
(* mutant twin.                                                            *)
(***************************************************************************)
EXTENDS C18

CONSTANTS MaxDepth, WideDepth, InvDepth, KeepGoing, EmitAll

VARIABLES tree, prev, hist, out
vars == <<tree, prev, hist, out>>

M0 == TreeOf("M0")
DonorRes == "M1"

Sem(o) == [op |-> o.op, path |-> o.path, name |-> o.name, index |-> o.index, nilres |-> o.nilres, val |-> ModelVal(o.val)]
DN(o)  == ValTree(o.val, ModelVal(o.val))

Init == /\ tree = M0 /\ prev = M0 /\ hist = <<>> /\ out = [k |-> "init", why |-> ""]

Next ==
  /\ Len(hist) < MaxDepth
  /\ KeepGoing \/ out.k = "init" \/ (out.k = "ok" /\ tree # prev)
  /\ \E o \in OpsOn(tree, DonorRes, Len(hist) < WideDepth) :
       LET r == Run(tree, Schema, Sem(o), DN(o)) IN
       /\ tree' = r.tree
       /\ prev' = tree
       /\ hist' = Append(hist, o)
       /\ out'  = [k |-> r.k, why |-> r.why]
       /\ IF EmitAll \/ Len(hist) + 1 = MaxDepth
          THEN PrintT(ToJson([res |-> "M0", steps |-> hist'])) ELSE TRUE

Spec == Init /\ [][Next]_vars

----------------------------------------------------------------------------
LastO == hist[Len(hist)]
Stepped == Len(hist) > 0

TypeOK == out.k \in {"init", "ok", "err"}

(* a successful operation leaves exactly what the operation produces on the *)
(* JSON tree: nothing outside the target's parent field changed, and that   *)
(* field gained / lost / substituted the one element                        *)
PatchFrame == (Stepped /\ out.k = "ok") => FrameOK(prev, Schema, Sem(LastO), DN(LastO), tree)

(* an operation that returns an error leaves the resource as it was *)
PatchAtomic == (Stepped /\ out.k = "err") => tree = prev

DeleteAbsentIsNoop ==
  (Stepped /\ LastO.op = "delete" /\ LET l == Nav(prev, Schema, LastO.path) IN l.k = "nodes" /\ Len(l.a) = 0) => (out.k = "ok" /\ tree = prev)

MoveNotImplemented == (Stepped /\ LastO.op = "move") => (out.k = "err" /\ out.why = "move" /\ tree = prev)

(* only well-formed requests succeed: a located singleton (a whole list for *)
(* insert), a value of the declared or a convertible sibling type, an index *)
(* in range                                                                 *)
OnlyPermittedSucceeds ==
  (Stepped /\ out.k = "ok") =>
     LET o == LastO
         loc == Nav(prev, Schema, o.path)
     IN /\ loc.k = "nodes"
        /\ o.op = "delete" \/ ~ModelVal(o.val).nil
        /\ o.op \in {"delete", "replace", "add"} => Len(loc.a) <= 1
        /\ o.op = "insert" => (o.index >= 0 /\ Len(loc.a) > 0)

(* inverse pairs, at every reachable tree: add then delete of the added     *)
(* element, replace then replace-back, restore the tree                     *)
InvOps(op) == IF Len(hist) > InvDepth THEN {}
              ELSE {o \in UNION {OpsAt(tree, a, DonorRes, FALSE) : a \in Range(AddrSeq(tree))} :
                       o.op = op /\ o.form = "indexed" /\ o.vlabel = "right"}
DeleteAdded(o) ==
  LET x   == NodeAt(tree, Nav(tree, Schema, o.path).a[1])
      fld == GetField(Schema, x.pn, o.name)
      p   == o.path \o <<FieldS(o.name)>> \o (IF fld.list THEN <<PS("last", "", "", 0)>> ELSE <<>>)
  IN [op |-> "delete", path |-> p, name |-> "", index |-> 0, nilres |-> FALSE, val |-> ModelVal(NilSpec)]

InverseAddDelete ==
  out.k # "err" =>
    \A o \in InvOps("add") :
       LET r == Run(tree, Schema, Sem(o), DN(o)) IN
       (r.k = "ok" /\ ~Match(r.tree, tree)) =>
          LET r2 == Run(r.tree, Schema, DeleteAdded(o), DN(o)) IN r2.k = "ok" /\ Match(r2.tree, tree)

ReplaceBack(o) ==
  LET x == NodeAt(tree, Nav(tree, Schema, o.path).a[1])
  IN [op |-> "replace", path |-> o.path, name |-> "", index |-> 0, nilres |-> FALSE,
      val |-> [nil |-> FALSE, pn |-> x.pn, ty |-> x.ty, k |-> x.k, h |-> x.h, v |-> x.v]]

InverseReplace ==
  out.k # "err" =>
    \A o \in InvOps("replace") :
       LET r == Run(tree, Schema, Sem(o), DN(o)) IN
       r.k = "ok" =>
          LET x  == NodeAt(tree, Nav(tree, Schema, o.path).a[1])
              r2 == Run(r.tree, Schema, ReplaceBack(o), x)
          IN r2.k = "ok" /\ Match(r2.tree, tree)
=============================================================================
