------------------------------- MODULE FPEval -------------------------------
(***************************************************************************)
(* The abstract machine of the interpreter: a big-step evaluator           *)
(*      Eval(e, env, focus)                                                *)
(* of expression trees over a focus collection, mirroring the              *)
(* implementation's node kinds (DESIGN.md Appendix D): every expression    *)
(* maps an input collection to an output collection or an error; `a.b`     *)
(* feeds the output of a into b; function arguments that are criteria or   *)
(* projections are evaluated once per item on the singleton <<item>>;      *)
(* value arguments are evaluated on the function's whole input collection. *)
(*                                                                         *)
(* Expressions (records, field k is the kind):                             *)
(*   [k |-> "this"]                          $this / the focus              *)
(*   [k |-> "root",  name]                   root type filter               *)
(*   [k |-> "field", in, name]               element navigation             *)
(*   [k |-> "idx",   in, i]                  indexer with a literal         *)
(*   [k |-> "lit",   items]                  literal collection ({} = <<>>) *)
(*   [k |-> "var",   name]                   %name                          *)
(*   [k |-> "call",  in, f, args]            function invocation            *)
(*   [k |-> "bin",   op, l, r]               binary operator                *)
(*   [k |-> "neg",   in]                     unary minus                    *)
(*   [k |-> "typeop", op, in, ns, name]      in is T | in as T | in.ofType(T) *)
(* env = [forest, sch, vars] (+ kinds: FHIR type name -> kind, for typeop). *)
(*                                                                         *)
(* Arithmetic, the string functions, the conversions and the type          *)
(* operators are not restated here: Eval dispatches to the reference       *)
(* modules FPArith (C08), FPStrings (C14), FPConvert (C13) and FPTypes     *)
(* (C12) on the part of their domain where those modules fix one answer,   *)
(* and answers "any" elsewhere.                                            *)
(*                                                                         *)
(* Results: [k |-> "ok", items] | [k |-> "err"] (an error is required)     *)
(*          | [k |-> "any"] (the properties leave the outcome open)        *)
(*          | [k |-> "eoe"] (empty or an error, never a value).            *)
(***************************************************************************)
EXTENDS FPNav, FPLogic, FPCompare

Ar == INSTANCE FPArith
St == INSTANCE FPStrings
Cv == INSTANCE FPConvert
Ty == INSTANCE FPTypes
Tm == INSTANCE FPTemporal

EOk(items) == [k |-> "ok", items |-> items]
EErr == [k |-> "err"]
EAny == [k |-> "any"]
EEoE == [k |-> "eoe"]       \* empty or an error, never a value (C07: an empty argument where a single value is required)

This == [k |-> "this"]

(* FHIRPath equality of two items, when it is definite *)
ItemsEqual(x, y) == EqSet(x, y) = {"T"}
MayEqual(x, y)   == "T" \in EqSet(x, y)

Member(x, c)    == \E j \in 1..Len(c) : ItemsEqual(x, c[j])
MayMember(x, c) == \E j \in 1..Len(c) : MayEqual(x, c[j])

(* value of a singleton Integer argument; "none" when it is not one *)
IntArg(r) ==
  IF r.k = "ok" /\ Len(r.items) = 1 /\ Val(r.items[1]).t = "i" THEN [ok |-> TRUE, i |-> Val(r.items[1]).i]
  ELSE [ok |-> FALSE, i |-> 0]

StrArg(r) ==
  IF r.k = "ok" /\ Len(r.items) = 1 /\ Val(r.items[1]).t = "s" THEN [ok |-> TRUE, cp |-> Val(r.items[1]).cp]
  ELSE [ok |-> FALSE, cp |-> <<>>]

(* a result that is a required error / open, propagated *)
Bad(r) == r.k # "ok"
(* what a sub-expression's problem means for the expression around it: a required error and an open outcome carry over;  *)
(* "empty or an error" does not fix what an enclosing aggregate answers, so the enclosing expression is left open         *)
Down(r) == IF r.k = "eoe" THEN EAny ELSE r

(* fold results of per-item evaluations: first problem wins *)
FirstBad(rs) == LET j == CHOOSE j \in 1..Len(rs) : Bad(rs[j]) /\ \A q \in 1..(j - 1) : ~Bad(rs[q]) IN rs[j]
AnyBad(rs) == \E j \in 1..Len(rs) : Bad(rs[j])

SubsetOrdered(items, keep) == \* keep: sequence of BOOLEAN
  LET idx == SelectSeq([j \in 1..Len(items) |-> j], LAMBDA j : keep[j]) IN [q \in 1..Len(idx) |-> items[idx[q]]]

(* extension children of an element with a given url *)
ExtensionsOf(env, it, urlcp) ==
  IF it.t # "el" \/ it.r = 0 THEN <<>>
  ELSE LET exts == Kids(env.forest, it, "extension")
       IN SelectSeq(exts, LAMBDA x :
            LET u == Kids(env.forest, x, "url") IN Len(u) = 1 /\ u[1].v.t = "s" /\ u[1].v.cp = urlcp)

AllKids(env, it) ==
  IF it.t # "el" \/ it.r = 0 THEN <<>>
  ELSE LET node == NodeAt(env.forest[it.r], it.addr)
       IN [j \in 1..Len(node.ch) |-> RefOf(env.forest, it.r, Append(it.addr, j))]

RECURSIVE DescendantsOf(_, _)
DescendantsOf(env, items) ==
  IF Len(items) = 0 THEN <<>>
  ELSE LET kids == FlattenSeq([j \in 1..Len(items) |-> AllKids(env, items[j])])
       IN kids \o DescendantsOf(env, kids)

TruthOf(r) == IF r.k = "ok" THEN Singleton3(r.items) ELSE "X"


(************************* dispatch to the value modules *******************)
ArithOps == {"+", "-", "*", "/", "div", "mod"}
MathFns  == {"abs", "ceiling", "floor", "truncate", "round"}
StrFns0  == {"length", "upper", "lower", "toChars"}
StrFns1  == {"startsWith", "endsWith", "contains", "indexOf"}
StrFns   == StrFns0 \cup StrFns1 \cup {"substring", "replace"}
ConvTarget(f) ==
  CASE f \in {"toBoolean", "convertsToBoolean"} -> "Boolean" [] f \in {"toInteger", "convertsToInteger"} -> "Integer"
    [] f \in {"toDecimal", "convertsToDecimal"} -> "Decimal" [] f \in {"toString", "convertsToString"} -> "String"
    [] f \in {"toDate", "convertsToDate"} -> "Date"          [] f \in {"toDateTime", "convertsToDateTime"} -> "DateTime"
    [] f \in {"toTime", "convertsToTime"} -> "Time"          [] OTHER -> "Quantity"
ToFns   == {"toBoolean", "toInteger", "toDecimal", "toString", "toDate", "toDateTime", "toTime", "toQuantity"}
ConvFns == {"convertsToBoolean", "convertsToInteger", "convertsToDecimal", "convertsToString", "convertsToDate",
            "convertsToDateTime", "convertsToTime", "convertsToQuantity"}


(* the result descriptor of FPArith as a machine result: one answer, or open *)
ItemOfW(w) == IF w.int /\ Ar!DFitsInt32(w.d) THEN I(SToInt(DToSigned(w.d))) ELSE DItem(w.d)
OfWitness(w) ==
  IF w.k = "val" THEN (IF w.orEmpty \/ w.orErr THEN EAny ELSE EOk(<<ItemOfW(w)>>))
  ELSE IF w.orErr THEN EAny ELSE EOk(<<>>)

(* Date/DateTime/Time plus or minus a quantity (C09).  The quantity item must carry its unit as a TLA+ string  *)
(* (field u) and its amount in thousandths (th): literals of the machine do.  One answer where FPTemporal gives   *)
(* one: a calendar keyword unit that applies to the value, no overflow of the year range.  Left open: UCUM units  *)
(* (an error is permitted), calendar units on a Time, and a Date with an amount below a day (a recorded finding). *)
IsTemporal(v) == v.t \in {"date", "dt", "time"}
TemporalArith(op, a, b) ==
  IF ~Has(b, "u") THEN EAny
  ELSE IF ~Tm!IsTemporalUnit(b.u) THEN EErr
  ELSE LET rank == Tm!RankOf(b.u) IN
       IF Tm!ClsOf(b.u) = "ucum" \/ Tm!TimeHasNoUnit(a, rank) \/ (a.t = "date" /\ rank \in {"hour", "minute", "second", "ms"}) THEN EAny
       ELSE LET R == Tm!Results(a, op, rank, b.th) IN
            IF \E r \in R : r.oob THEN EAny
            ELSE LET its == {r.v : r \in R} IN IF Cardinality(its) = 1 THEN EOk(<<CHOOSE v \in its : TRUE>>) ELSE EAny

(* binary arithmetic on evaluated operands (item sequences) *)
ArithBin(op, l, r) ==
  IF Len(l) = 0 \/ Len(r) = 0 THEN EOk(<<>>)        \* an empty operand gives empty, whatever the other operand is (C07)
  ELSE IF Len(l) > 1 \/ Len(r) > 1 THEN EAny
  ELSE LET a == Val(l[1])
           b == Val(r[1])
       IN IF IsNum(a) /\ IsNum(b) THEN (IF op = "/" THEN EAny        \* any decimal within the 16-place tolerance is permitted
                                          ELSE OfWitness(Ar!WBin(op, Ar!NumOfItem(a), Ar!NumOfItem(b))))
          ELSE IF op = "+" /\ a.t = "s" /\ b.t = "s" THEN EOk(<<S(a.cp \o b.cp)>>)
          ELSE IF op \in {"+", "-"} /\ IsTemporal(a) /\ b.t = "q" THEN TemporalArith(op, a, b)
          ELSE EAny

(* `&`: empty counts as the empty string *)
AmpBin(l, r) ==
  LET strOrEmpty(c) == Len(c) = 0 \/ (Len(c) = 1 /\ Val(c[1]).t = "s")
      cpOf(c) == IF Len(c) = 0 THEN <<>> ELSE Val(c[1]).cp
  IN IF strOrEmpty(l) /\ strOrEmpty(r) THEN EOk(<<S(cpOf(l) \o cpOf(r))>>) ELSE EAny

EmptyArg(args) == \E j \in 1..Len(args) : args[j].k = "ok" /\ Len(args[j].items) = 0
MathFn(f, args, input) ==       \* args: evaluated argument results
  IF Len(input) = 0 THEN (IF \A j \in 1..Len(args) : IntArg(args[j]).ok THEN EOk(<<>>) ELSE IF EmptyArg(args) THEN EEoE ELSE EAny)
  ELSE IF Len(input) > 1 \/ ~IsNum(Val(input[1])) THEN EAny
  ELSE IF EmptyArg(args) /\ f = "round" /\ Len(args) = 1 THEN EEoE
  ELSE LET a == Ar!NumOfItem(Val(input[1])) IN
       IF Len(args) = 0 THEN OfWitness(Ar!WUn(f, a, 0))
       ELSE IF f = "round" /\ Len(args) = 1 /\ IntArg(args[1]).ok THEN OfWitness(Ar!WUn("roundp", a, IntArg(args[1]).i))
       ELSE EAny

StrItems(coll) == [j \in 1..Len(coll) |-> S(coll[j])]
StrFn(f, args, input) ==        \* args: evaluated argument results
  LET wantInt(j) == f = "substring"
      good == \A j \in 1..Len(args) : IF wantInt(j) THEN IntArg(args[j]).ok ELSE StrArg(args[j]).ok
      arity == CASE f \in StrFns0 -> {0} [] f \in StrFns1 -> {1} [] f = "substring" -> {1, 2} [] OTHER -> {2}
  IN IF Len(args) \notin arity THEN EAny
     ELSE IF Len(input) = 0 THEN (IF good THEN EOk(<<>>) ELSE IF EmptyArg(args) THEN EEoE ELSE EAny)
     ELSE IF Len(input) > 1 \/ Val(input[1]).t # "s" THEN EAny
     ELSE IF EmptyArg(args) THEN EEoE
     ELSE IF ~good THEN EAny
     ELSE LET s == Val(input[1]).cp
              scp(j) == StrArg(args[j]).cp
              n(j) == IntArg(args[j]).i
          IN CASE f = "length"     -> EOk(<<I(St!StrLength(s))>>)
               [] f = "toChars"    -> EOk(StrItems(St!StrToChars(s)))
               [] f = "upper"      -> IF \A j \in 1..Len(s) : St!CaseKnown(s[j]) THEN EOk(<<S(St!StrUpper(s))>>) ELSE EAny
               [] f = "lower"      -> IF \A j \in 1..Len(s) : St!CaseKnown(s[j]) THEN EOk(<<S(St!StrLower(s))>>) ELSE EAny
               [] f = "startsWith" -> EOk(<<B(St!StrStartsWith(s, scp(1)))>>)
               [] f = "endsWith"   -> EOk(<<B(St!StrEndsWith(s, scp(1)))>>)
               [] f = "contains"   -> EOk(<<B(St!StrContains(s, scp(1)))>>)
               [] f = "indexOf"    -> EOk(<<I(St!StrIndexOf(s, scp(1)))>>)
               [] f = "replace"    -> EOk(<<S(St!StrReplace(s, scp(1), scp(2)))>>)
               [] f = "substring"  ->
                    IF Len(args) = 1 THEN EOk(StrItems(St!StrSubstring1(s, n(1))))
                    ELSE IF St!StrSubstring2(s, n(1), n(2)) = St!StrSubstring2Alt(s, n(1), n(2))
                         THEN EOk(StrItems(St!StrSubstring2(s, n(1), n(2)))) ELSE EAny     \* two permitted readings

(* conversions of one item.  Left open: Quantity as a target or a source, complex elements, the spelling of     *)
(* toString() for Decimals and date/time values (any string that converts back is permitted), FPConvert's own   *)
(* ambiguous readings, and toInteger() of a string that is not an integer (a recorded finding: an error).       *)
ConvFn(f, input) ==
  IF Len(input) = 0 THEN EOk(<<>>)
  ELSE IF Len(input) > 1 THEN EAny
  ELSE LET v == Val(input[1])
           T == ConvTarget(f)
       IN IF v.t \notin (Cv!SystemTags \ {"q"}) \/ T = "Quantity" THEN EAny
          ELSE IF Cv!Amb(T, v) THEN EAny
          ELSE IF f \in ConvFns THEN EOk(<<B(Cv!Convertible(T, v))>>)
          ELSE IF T = "String" THEN (IF v.t \in {"s", "i", "b"} THEN EOk(<<S(Cv!ToStr(v))>>) ELSE EAny)
          ELSE IF T = "Integer" /\ v.t = "s" /\ Cv!To(T, v) = <<>> THEN EAny
          ELSE EOk(Cv!To(T, v))

(* the type of an item as C12 reads it: [ns, name, kind]; ns = "none" when the machine does not know it *)
TypeOfItem(env, x) ==
  IF x.t = "el" THEN
     (IF x.r = 0 THEN [ns |-> "none", name |-> "", kind |-> ""]
      ELSE LET nd == NodeAt(env.forest[x.r], x.addr) IN [ns |-> "FHIR", name |-> nd.ty, kind |-> nd.k])
  ELSE IF x.t \in Cv!SystemTags THEN [ns |-> "System", name |-> Ty!SystemNameOf(x), kind |-> "system"]
  ELSE [ns |-> "none", name |-> "", kind |-> ""]

(* "T"/"F" when `x is spec` is fixed, "X" when the property leaves it open *)
IsA(env, x, spec) ==
  LET ty == TypeOfItem(env, x) IN
  IF ty.ns = "none" \/ ty.name = "xhtml" \/ (spec.name = "BackboneElement" /\ ty.kind = "complex") THEN "X"
  ELSE IF Ty!IsSubtype(ty.ns, ty.name, spec.ns, spec.name, env.kinds) THEN "T" ELSE "F"

TypeOp(op, env, input, ns, name) ==
  LET spec == Ty!Resolve(ns, name, env.kinds) IN
  IF name \in {"Any", "any"} THEN EAny
  ELSE IF spec.ns = "invalid" THEN EErr
  ELSE IF Len(input) = 0 THEN EOk(<<>>)
  ELSE IF \E j \in 1..Len(input) : IsA(env, input[j], spec) = "X" THEN EAny
  ELSE IF op = "ofType" THEN EOk(SubsetOrdered(input, [j \in 1..Len(input) |-> IsA(env, input[j], spec) = "T"]))
  ELSE IF Len(input) > 1 THEN EAny
  ELSE IF op = "is" THEN EOk(<<B(IsA(env, input[1], spec) = "T")>>)
  ELSE EOk(IF IsA(env, input[1], spec) = "T" THEN input ELSE <<>>)

RECURSIVE Eval(_, _, _)
RECURSIVE CallFn(_, _, _, _)

(* criteria evaluated per item; returns sequence of "T","F","E","ERR","X"(bad) *)
Truths(p, env, items) == [j \in 1..Len(items) |-> TruthOf(Eval(p, env, <<items[j]>>))]

CallFn(f, args, env, input) ==
  CASE f = "where" ->
         LET ts == Truths(args[1], env, input) IN
         IF \E j \in 1..Len(ts) : ts[j] \in {"ERR", "X"}
         THEN (IF \E j \in 1..Len(ts) : Eval(args[1], env, <<input[j]>>).k \in {"any", "eoe"} THEN EAny ELSE EErr)
         ELSE EOk(SubsetOrdered(input, [j \in 1..Len(ts) |-> ts[j] = "T" \/ (Mutant = "whereKeepsEmpty" /\ ts[j] = "E")]))
    [] f = "select" ->
         LET rs == [j \in 1..Len(input) |-> Eval(args[1], env, <<input[j]>>)] IN
         IF AnyBad(rs) THEN EAny      \* the implementation tolerates some per-item errors: left open
         ELSE EOk(FlattenSeq([j \in 1..Len(rs) |-> rs[j].items]))
    [] f = "exists" ->
         IF Len(args) = 0 THEN EOk(<<B(Len(input) > 0)>>)
         ELSE LET w == CallFn("where", args, env, input) IN IF Bad(w) THEN Down(w) ELSE EOk(<<B(Len(w.items) > 0)>>)
    [] f = "all" ->
         LET ts == Truths(args[1], env, input) IN
         IF \E j \in 1..Len(ts) : ts[j] \in {"ERR", "X"}
         THEN (IF \E j \in 1..Len(ts) : Eval(args[1], env, <<input[j]>>).k \in {"any", "eoe"} THEN EAny
               \* the criterion fails on some item and is not true on another: "not true for every item" - false, or the error
               \* (an evaluation that stops at the first item that is not true never meets the failing one)
               ELSE IF \E j \in 1..Len(ts) : ts[j] \in {"F", "E"} THEN EAny
               ELSE EErr)
         ELSE EOk(<<B(\A j \in 1..Len(ts) : ts[j] = "T" \/ (Mutant = "allIgnoresEmpty" /\ ts[j] = "E"))>>)
    [] f = "empty"  -> EOk(<<B(Len(input) = 0)>>)
    [] f = "count"  -> EOk(<<I(Len(input))>>)
    [] f = "first"  -> EOk(IF Len(input) = 0 THEN (IF Mutant = "firstOfEmptyFabricates" THEN <<B(FALSE)>> ELSE <<>>) ELSE <<input[1]>>)
    [] f = "last"   -> EOk(IF Len(input) = 0 THEN <<>> ELSE <<input[Len(input)]>>)
    [] f = "tail"   -> EOk(IF Len(input) = 0 THEN <<>> ELSE SubSeq(input, 2, Len(input)))
    [] f \in {"skip", "take"} ->
         IF Len(input) = 0 THEN EOk(<<>>)
         ELSE LET a == Eval(args[1], env, input)
                  n == IntArg(a)
              IN IF a.k = "ok" /\ Len(a.items) = 0 THEN EAny       \* empty argument: empty or an error (C07)
                 ELSE IF ~n.ok THEN EAny
                 ELSE IF f = "skip" THEN EOk(IF n.i <= 0 THEN input ELSE IF n.i >= Len(input) THEN <<>> ELSE SubSeq(input, n.i + 1, Len(input)))
                 ELSE EOk(IF n.i <= 0 THEN <<>> ELSE IF n.i >= Len(input) THEN input
                          ELSE SubSeq(input, 1, IF Mutant = "takeOffByOne" THEN n.i + 1 ELSE n.i))
    [] f = "not" ->
         LET v == Not3E(Singleton3(input)) IN IF v = "ERR" THEN EErr ELSE EOk(IF v = "E" THEN <<>> ELSE <<B(v = "T")>>)
    [] f = "iif" ->
         LET c == TruthOf(Eval(args[1], env, input)) IN
         IF c \in {"ERR", "X"} THEN EAny
         ELSE IF c = "T" THEN Eval(args[2], env, input)
         ELSE IF Len(args) = 3 THEN Eval(args[3], env, input) ELSE EOk(<<>>)
    [] f \in {"allTrue", "anyTrue", "allFalse", "anyFalse"} ->
         LET isB(x) == IsBoolItem(x)
             bs == [j \in 1..Len(input) |-> IF isB(input[j]) THEN (IF BoolOfItem(input[j]) THEN "T" ELSE "F") ELSE "N"]
         IN IF \E j \in 1..Len(bs) : bs[j] = "N" THEN EAny
            ELSE EOk(<<B(CASE f = "allTrue"  -> \A j \in 1..Len(bs) : bs[j] = "T"
                           [] f = "anyTrue"  -> \E j \in 1..Len(bs) : bs[j] = "T"
                           [] f = "allFalse" -> \A j \in 1..Len(bs) : bs[j] = "F"
                           [] f = "anyFalse" -> \E j \in 1..Len(bs) : bs[j] = "F")>>)
    [] f = "extension" ->
         LET a == Eval(args[1], env, input)
             u == StrArg(a)
         IN IF Len(input) = 0 THEN EAny
            ELSE IF ~u.ok THEN EAny
            ELSE EOk(FlattenSeq([j \in 1..Len(input) |-> ExtensionsOf(env, input[j], u.cp)]))
    [] f = "children" ->
         IF \E j \in 1..Len(input) : input[j].t # "el" \/ NodeAt(env.forest[input[j].r], input[j].addr).k = "prim" THEN EAny
         ELSE EOk(FlattenSeq([j \in 1..Len(input) |-> AllKids(env, input[j])]))
    [] f = "descendants" -> EAny
    [] f = "exclude" ->
         LET a == Eval(args[1], env, input) IN
         IF Len(input) = 0 THEN EOk(<<>>)
         ELSE IF Bad(a) THEN Down(a)
         ELSE IF \E j \in 1..Len(input) : MayMember(input[j], a.items) # Member(input[j], a.items) THEN EAny
         ELSE EOk(SubsetOrdered(input, [j \in 1..Len(input) |-> ~Member(input[j], a.items)])
                   \o (IF Mutant = "excludeSymmetric"
                       THEN SubsetOrdered(a.items, [j \in 1..Len(a.items) |-> ~Member(a.items[j], input)]) ELSE <<>>))
    [] f \in {"distinct", "isDistinct"} ->
         IF \E j, q \in 1..Len(input) : MayEqual(input[j], input[q]) # ItemsEqual(input[j], input[q]) THEN EAny
         ELSE LET d == SubsetOrdered(input, [j \in 1..Len(input) |-> ~\E q \in 1..(j - 1) : ItemsEqual(input[q], input[j])])
              IN IF f = "distinct" THEN EOk(d) ELSE EOk(<<B(Len(d) = Len(input))>>)
    [] f \in StrFns  -> LET as == [j \in 1..Len(args) |-> Eval(args[j], env, input)] IN StrFn(f, as, input)
    [] f \in MathFns -> LET as == [j \in 1..Len(args) |-> Eval(args[j], env, input)] IN MathFn(f, as, input)
    [] f \in ToFns \cup ConvFns -> (IF Len(args) = 0 THEN ConvFn(f, input) ELSE EAny)
    [] OTHER -> EAny          \* functions this module does not model (yet): outcome kind only

Eval(e, env, focus) ==
  CASE e.k = "this"  -> EOk(focus)
    [] e.k = "root"  ->     \* a type name at the start of a path selects the input resources of that type; on a focus that
                            \* is not made of resources (inside a function argument) the reading is left open
         IF \A j \in 1..Len(focus) : focus[j].t = "el" /\ focus[j].r # 0 /\ NodeAt(env.forest[focus[j].r], focus[j].addr).k = "resource"
         THEN (LET r == RootStep(env.forest, focus, e.name) IN EOk(r.items)) ELSE EAny
    [] e.k = "field" ->
         LET i == Eval(e.in, env, focus) IN
         IF Bad(i) THEN Down(i)
         ELSE IF e.name = "value" /\ \E j \in 1..Len(i.items) : i.items[j].t = "el" /\ i.items[j].r # 0 /\ IsTemporalValue(i.items[j].v)
              THEN EAny     \* .value of a date/time primitive: the System value or its string rendering (C02 latitude)
         ELSE LET r == FieldStep(env.forest, env.sch, i.items, e.name)
              IN IF r.k = "ok" THEN EOk(r.items) ELSE IF r.k = "err" THEN EErr ELSE EAny
    [] e.k = "idx" ->
         LET i == Eval(e.in, env, focus) IN IF Bad(i) THEN Down(i) ELSE EOk(IndexStep(i.items, e.i).items)
    [] e.k = "lit" -> EOk(e.items)
    [] e.k = "var" -> IF e.name \in DOMAIN env.vars THEN EOk(env.vars[e.name]) ELSE EErr
    [] e.k = "call" ->
         LET i == Eval(e.in, env, focus) IN IF Bad(i) THEN Down(i) ELSE CallFn(e.f, e.args, env, i.items)
    [] e.k = "bin" ->
         LET l == Eval(e.l, env, focus)
             r == Eval(e.r, env, focus)
         IN IF Bad(l) THEN Down(l) ELSE IF Bad(r) THEN Down(r)
            ELSE IF e.op \in BoolOps THEN
               (LET v == BinOp3E(e.op, Singleton3(l.items), Singleton3(r.items))
                IN IF v = "ERR" THEN EErr ELSE EOk(IF v = "E" THEN <<>> ELSE <<B(v = "T")>>))
            ELSE IF e.op \in {"=", "!=", "<", "<=", ">", ">="} THEN
               (LET perm == PermittedCmp(e.op, l.items, r.items)
                IN IF Cardinality(perm) = 1 THEN
                      (LET o == CHOOSE o \in perm : TRUE IN IF o.k = "ok" THEN EOk(o.items) ELSE EErr)
                   ELSE EAny)
            ELSE IF e.op \in ArithOps THEN ArithBin(e.op, l.items, r.items)
            ELSE IF e.op = "&" THEN AmpBin(l.items, r.items)
            ELSE EAny
    [] e.k = "neg" ->
         LET i == Eval(e.in, env, focus) IN
         IF Bad(i) THEN Down(i)
         ELSE IF Len(i.items) = 0 THEN EOk(<<>>)
         ELSE IF Len(i.items) > 1 \/ ~IsNum(Val(i.items[1])) THEN EAny
         ELSE OfWitness(Ar!WUn("neg", Ar!NumOfItem(Val(i.items[1])), 0))
    [] e.k = "typeop" ->
         LET i == Eval(e.in, env, focus) IN IF Bad(i) THEN Down(i) ELSE TypeOp(e.op, env, i.items, e.ns, e.name)

(***************************************************************************)
(* Acceptance predicates for the set functions, whose result the property  *)
(* fixes only up to order and choice of representative.                    *)
(***************************************************************************)
NoNull(items) == \A j \in 1..Len(items) : items[j].t \notin {"nil", "unk"}

(* R is a valid distinct() of c: one representative of every class of equal items, no two equal *)
DistinctOk(c, R) ==
  /\ NoNull(R)
  /\ \A j \in 1..Len(R) : \E q \in 1..Len(c) : MayEqual(R[j], c[q])
  /\ \A j, q \in 1..Len(R) : j # q => ~ItemsEqual(R[j], R[q])
  /\ \A q \in 1..Len(c) : \E j \in 1..Len(R) : MayEqual(c[q], R[j])

(* R is a valid c.intersect(d) *)
IntersectOk(c, d, R) ==
  /\ NoNull(R)
  /\ \A j \in 1..Len(R) : (\E q \in 1..Len(c) : MayEqual(R[j], c[q])) /\ (\E q \in 1..Len(d) : MayEqual(R[j], d[q]))
  /\ \A j, q \in 1..Len(R) : j # q => ~ItemsEqual(R[j], R[q])
  /\ \A q \in 1..Len(c) : Member(c[q], d) => \E j \in 1..Len(R) : MayEqual(c[q], R[j])
=============================================================================
