---- MODULE FPBigNum_Test ----
EXTENDS FPBigNum, TLC
Ints == {0, 1, -1, 2, 9999, 10000, 10001, 46340, 46341, -46341, 65536, 99999999, 100000000, 2147483647, -2147483647, -2147483647 - 1, 123456789}
Small == {0, 1, -1, 7, -13, 9999, 10000, 30000, -46340}
ASSUME \A a \in Ints : SFitsInt32(SFromInt(a)) /\ SToInt(SFromInt(a)) = a
ASSUME \A a, b \in Small : SToInt(SAdd(SFromInt(a), SFromInt(b))) = a + b
ASSUME \A a, b \in Small : SToInt(SSub(SFromInt(a), SFromInt(b))) = a - b
ASSUME \A a, b \in Small : SToInt(SMul(SFromInt(a), SFromInt(b))) = a * b
ASSUME \A a, b \in Ints : (SCmp(SFromInt(a), SFromInt(b)) < 0) = (a < b)
ASSUME \A a, b, c \in Ints : SMul(SFromInt(a), SAdd(SFromInt(b), SFromInt(c))) = SAdd(SMul(SFromInt(a), SFromInt(b)), SMul(SFromInt(a), SFromInt(c)))
ASSUME \A a, b \in Ints : SSub(SAdd(SFromInt(a), SFromInt(b)), SFromInt(b)) = SFromInt(a)
ASSUME SMul(SFromInt(2147483647), SFromInt(2147483647)) = [neg |-> FALSE, m |-> <<609, 3242, 141, 1686, 461>>]
ASSUME ~SFitsInt32(SAdd(SFromInt(2147483647), SFromInt(1)))
ASSUME ~SFitsInt32(SSub(SFromInt(-2147483647 - 1), SFromInt(1)))
D(n, e) == LET s == SFromInt(n) IN DMake(s.neg, s.m, e)
ASSUME D(100, -2) = D(1, 0) /\ D(10, 0) = D(1, 1) /\ D(0, 5) = DZero
ASSUME DAdd(D(15, -1), D(25, -2)) = D(175, -2)
ASSUME DMul(D(15, -1), D(-2, 0)) = D(-3, 0)
ASSUME DCmp(D(1, -30), DZero) = 1 /\ DCmp(D(-1, -30), D(1, -40)) = -1
ASSUME DCmp(D(1, 30), D(999999999, 20)) = 1
ASSUME DSub(D(1, 30), D(1, -30)) = DMake(FALSE, NSub(NMulPow10(<<1>>, 60), <<1>>), -30)
ASSUME NDigits(NMulPow10(<<1>>, 60)) = 61
ASSUME NDiv10(<<0, 1>>) = <<1000>> /\ NDiv10(<<5, 0, 1>>) = <<0, 1000>>
ASSUME PrintT("bignum self-test passed")
VARIABLE x
Init == x = 0
Next == UNCHANGED x
====
