------------------------------ MODULE C14_Judge ------------------------------
(***************************************************************************)
(* Role 3: judge observations of the real code for property C14.           *)
(* An observation is [id, cs, src, res, out]: the case, a readable form of *)
(* the source compiled, how the Patient was built and the projected        *)
(* outcome.  The verdict is  out \in Permitted(cs)  (for the regular-      *)
(* expression functions: any outcome that is not a crash).  A string that  *)
(* is not valid UTF-8 arrives with negative markers among its code points  *)
(* and so can never equal a permitted string.                              *)
(*                                                                         *)
(* The signature of a rejected record names the function, the receiver     *)
(* kind, the classes of the operands and WHAT was observed; in particular  *)
(* it recognises the answers a byte-offset implementation would give       *)
(* (FPStrings' byte view), so that those are told apart from any other     *)
(* wrong answer.                                                           *)
(***************************************************************************)
EXTENDS C14, Json, Params

Obs == ndJsonDeserialize(ObsFile)
N == Len(Obs)
W == 16

IsAscii(s) == \A j \in 1..Len(s) : s[j] < 128
StrClass(s) == IF IsAscii(s) THEN "ascii" ELSE "multibyte"

ArgClass(c) ==
  IF ~GoodArgs(c) THEN
    "args:" \o (IF Len(c.a) >= 1 THEN c.a[1].k ELSE "") \o (IF Len(c.a) >= 2 THEN c.a[2].k ELSE "")
  ELSE IF c.fn = "substring" THEN
    LET st == c.a[1].i
        sc == IF st < 0 THEN "start<0" ELSE IF st >= Len(c.s) THEN "start>=len" ELSE "start-in"
    IN IF Len(c.a) = 1 THEN sc
       ELSE LET n == c.a[2].i IN
         sc \o "," \o (IF n < 0 THEN "n<0" ELSE IF n = 0 THEN "n=0"
                       ELSE IF st > 0 /\ n > MaxInt32 - st THEN "n-overflow"
                       ELSE IF st < 0 \/ st >= Len(c.s) THEN "n>0"
                       ELSE IF n < Len(c.s) - st THEN "n-in" ELSE "n-beyond")
  ELSE IF c.fn \in PatternFns \cup {"replace", "law3", "law4"} \cup RegexFns THEN
    (IF c.a[1].cp = <<>> THEN "pat-empty" ELSE IF Find(c.s, c.a[1].cp) >= 0 THEN "pat-present" ELSE "pat-absent")
  ELSE "-"

BadUtf8(out) == \E j \in 1..Len(out.items) :
                   out.items[j].t = "s" /\ \E q \in 1..Len(out.items[j].cp) : out.items[j].cp[q] < 0

ByteIndexOf(s, t) == LET i == Find(s, t) IN IF i <= 0 THEN i ELSE ByteLen(SubSeq(s, 1, i))

(* What was observed, in words. *)
ObsClass(c, out) ==
  IF out.k = "panic" THEN "got-panic@" \o out.site
  ELSE IF out.k # "ok" THEN "got-" \o out.k
  ELSE IF RecvClass(c.rk) # "str" \/ ~GoodArgs(c) THEN "got-value-" \o KindOf(out)
  ELSE IF c.fn = "length" /\ SeqSame(out.items, <<I(ByteLen(c.s))>>) THEN "got-byte-count"
  ELSE IF c.fn = "indexOf" /\ SeqSame(out.items, <<I(ByteIndexOf(c.s, c.a[1].cp))>>) THEN "got-byte-offset"
  ELSE IF c.fn = "substring" THEN
    LET st == c.a[1].i
        hasN == Len(c.a) = 2
        n == IF hasN THEN c.a[2].i ELSE 0
    IN IF hasN /\ n < 0 /\ SeqSame(out.items, StrItems(CpSlice(c.s, st, 0, FALSE))) THEN "got-rest"
       ELSE IF hasN /\ n < 0 /\ SeqSame(out.items, StrItems(ByteSlice(c.s, st, 0, FALSE)))
         THEN "got-byte-rest" \o (IF BadUtf8(out) THEN "-badutf8" ELSE "")
       ELSE IF SeqSame(out.items, StrItems(ByteSlice(c.s, st, n, hasN))) \/
               (hasN /\ n = 0 /\ st >= 0 /\ st < ByteLen(c.s) /\ SeqSame(out.items, <<S(<<>>)>>))
         THEN "got-byte-slice" \o (IF BadUtf8(out) THEN "-badutf8" ELSE "")
       ELSE "got-" \o KindOf(out) \o (IF BadUtf8(out) THEN "-badutf8" ELSE "")
  ELSE IF c.fn \in LawFns /\ SeqSame(out.items, <<B(FALSE)>>) THEN "got-false"
  ELSE "got-" \o KindOf(out) \o (IF BadUtf8(out) THEN "-badutf8" ELSE "")

WellFormedObs(o) ==
  /\ WellFormed(o.cs)
  /\ o.out.k \in {"ok", "err", "cerr", "panic", "timeout"}
  /\ o.out.k = "panic" => Has(o.out, "site")
  /\ o.out.k = "ok" => \A j \in 1..Len(o.out.items) :
        /\ o.out.items[j].t \in {"b", "i", "s", "d", "q", "date", "time", "dt", "el", "nil", "unk", "enum", "none"}
        /\ o.out.items[j].t = "s" => \A q \in 1..Len(o.out.items[j].cp) : o.out.items[j].cp[q] \in -256..1114111

Verdict(o) ==
  IF ~WellFormedObs(o) THEN [id |-> o.id, ok |-> FALSE, sig |-> "malformed|observation", want |-> [k |-> "none"]]
  ELSE
  LET c == o.cs
      good == /\ ~IsFailure(o.out)
              /\ o.out.k # "cerr"
              /\ IF Unconstrained(c) THEN o.out.k \in {"ok", "err"} ELSE OutcomeIn(o.out, Permitted(c))
      sig == c.fn \o "|" \o c.rk \o "|" \o StrClass(c.s) \o "|" \o ArgClass(c) \o "|" \o ObsClass(c, o.out)
  IN [id |-> o.id, ok |-> good, sig |-> IF good THEN "" ELSE sig, want |-> Witness(c)]

VARIABLE i
Init == i \in 1..(IF N < W THEN N ELSE W) /\ PrintT(ToJson(Verdict(Obs[i])))
Next == i + W <= N /\ i' = i + W /\ PrintT(ToJson(Verdict(Obs[i'])))
Spec == Init /\ [][Next]_i
=============================================================================
