-------------------------------- MODULE C06 --------------------------------
(***************************************************************************)
(* Property C06: Boolean operators follow three-valued logic for every     *)
(* operand form.  This module is the case space and the oracle; C06_MC     *)
(* explores it and emits cases, C06_Judge judges observations.             *)
(*                                                                         *)
(* An operand FORM is (value class) x (source kind).  The specification    *)
(* names the source text of every form (absolute, for use at the root of   *)
(* an expression evaluated on model resource MR1, and relative, for use    *)
(* inside a criterion whose $this is that Patient) and its denotation.     *)
(***************************************************************************)
EXTENDS FPValues, FPLogic

Vals == {"true", "false", "empty", "nonbool", "multi", "multibool"}
Srcs == {"lit", "elem", "comp", "env", "fn"}
(* a multi-item literal cannot be written without the unsupported `|` *)
Forms == {f \in [val : Vals, src : Srcs] : ~(f.val \in {"multi", "multibool"} /\ f.src = "lit")}

Den(f) == CASE f.val = "true"    -> "T"
            [] f.val = "false"   -> "F"
            [] f.val = "empty"   -> "E"
            [] f.val = "nonbool" -> "T"
            [] f.val = "multi"   -> "ERR"
            [] f.val = "multibool" -> "ERR"     \* several Booleans: still an error, never the first item

AbsText ==
  [true    |-> [lit |-> "true",  elem |-> "Patient.active", comp |-> "(1 = 1)", env |-> "%vt", fn |-> "Patient.name.exists()"],
   false   |-> [lit |-> "false", elem |-> "Patient.communication.first().preferred", comp |-> "(1 = 2)", env |-> "%vf", fn |-> "Patient.name.empty()"],
   empty   |-> [lit |-> "{}",    elem |-> "Patient.photo", comp |-> "(1 = {})", env |-> "%ve", fn |-> "Patient.photo.first()"],
   nonbool |-> [lit |-> "'x'",   elem |-> "Patient.gender", comp |-> "(1 + 1)", env |-> "%vs", fn |-> "Patient.name.first()"],
   multi   |-> [lit |-> "",      elem |-> "Patient.name", comp |-> "Patient.name.select(given)", env |-> "%vm", fn |-> "Patient.name.take(2)"],
   multibool |-> [lit |-> "",    elem |-> "Patient.communication.preferred", comp |-> "Patient.name.select(given.exists())", env |-> "%vmb", fn |-> "Patient.communication.preferred.take(2)"]]

RelText ==
  [true    |-> [lit |-> "true",  elem |-> "active", comp |-> "(1 = 1)", env |-> "%vt", fn |-> "name.exists()"],
   false   |-> [lit |-> "false", elem |-> "communication.first().preferred", comp |-> "(1 = 2)", env |-> "%vf", fn |-> "name.empty()"],
   empty   |-> [lit |-> "{}",    elem |-> "photo", comp |-> "(1 = {})", env |-> "%ve", fn |-> "photo.first()"],
   nonbool |-> [lit |-> "'x'",   elem |-> "gender", comp |-> "(1 + 1)", env |-> "%vs", fn |-> "name.first()"],
   multi   |-> [lit |-> "",      elem |-> "name", comp |-> "name.select(given)", env |-> "%vm", fn |-> "name.take(2)"],
   multibool |-> [lit |-> "",    elem |-> "communication.preferred", comp |-> "name.select(given.exists())", env |-> "%vmb", fn |-> "communication.preferred.take(2)"]]

Abs(f) == AbsText[f.val][f.src]
Rel(f) == RelText[f.val][f.src]

(* Contexts in which the singleton rule applies. *)
UnaryCtx == {"not", "where", "exists", "all", "iif", "asbool"}

(* Criteria over a focus of SEVERAL items: the focus is %vmb = (true, false) and the criterion iif($this, L, R) is form L *)
(* on the first item and form R on the second.  Only forms whose text means the same on any focus can stand there    *)
(* (literals, variables, computed values that do not start at the resource).  What the rule says per item holds for  *)
(* every item, whatever the items before it gave: a criterion result of several items is an error, also behind an    *)
(* item that already decides exists() - `exists(p)` is `where(p).exists()`.                                          *)
PairCtx == {"where2", "exists2", "all2"}
PairForms == {f \in Forms : f.src \in {"lit", "env"} \/ (f.src = "comp" /\ f.val \notin {"multi", "multibool"})}

Cases ==
  {[ctx |-> "binop", op |-> o, l |-> a, r |-> b] : o \in BoolOps, a \in Forms, b \in Forms}
  \cup {[ctx |-> c, op |-> "-", l |-> a, r |-> a] : c \in UnaryCtx, a \in Forms}
  \cup {[ctx |-> c, op |-> "-", l |-> a, r |-> b] : c \in PairCtx, a \in PairForms, b \in PairForms}

Text(c) ==
  CASE c.ctx = "binop"  -> Abs(c.l) \o " " \o c.op \o " " \o Abs(c.r)
    [] c.ctx = "not"    -> "(" \o Abs(c.l) \o ").not()"
    [] c.ctx = "where"  -> "Patient.where(" \o Rel(c.l) \o ")"
    [] c.ctx = "exists" -> "Patient.exists(" \o Rel(c.l) \o ")"
    [] c.ctx = "all"    -> "Patient.all(" \o Rel(c.l) \o ")"
    [] c.ctx = "iif"    -> "iif(" \o Abs(c.l) \o ", 1, 2)"
    [] c.ctx = "asbool" -> Abs(c.l)
    [] c.ctx \in PairCtx -> "%vmb." \o (CASE c.ctx = "where2" -> "where" [] c.ctx = "exists2" -> "exists" [] OTHER -> "all")
                              \o "(iif($this, " \o Abs(c.l) \o ", " \o Abs(c.r) \o "))"

(* The Patient itself, as an input node (resource 1, root address). *)
RootNode == [t |-> "el", r |-> 1, addr |-> <<>>, h |-> ""]

K3Items(v) == IF v = "E" THEN <<>> ELSE <<B(v = "T")>>

(* Expected outcome from truth values a, b of the operands.  For asbool the *)
(* outcome is that of EvaluateAsBool (a Go bool, logged as one Boolean).    *)
ExpectedFrom(c, a, b) ==
  CASE c.ctx = "binop" -> (LET v == BinOp3E(c.op, a, b) IN IF v = "ERR" THEN ErrAny ELSE Ok(K3Items(v)))
    [] c.ctx = "not"   -> (LET v == Not3E(a) IN IF v = "ERR" THEN ErrAny ELSE Ok(K3Items(v)))
    [] c.ctx = "where" -> IF a = "ERR" THEN ErrAny ELSE Ok(IF a = "T" THEN <<RootNode>> ELSE <<>>)
    [] c.ctx = "exists" -> IF a = "ERR" THEN ErrAny ELSE Ok(<<B(a = "T")>>)
    [] c.ctx = "all"   -> IF a = "ERR" THEN ErrAny ELSE Ok(<<B(a = "T")>>)
    [] c.ctx = "iif"   -> IF a = "ERR" THEN ErrAny ELSE Ok(<<I(IF a = "T" THEN 1 ELSE 2)>>)
    [] c.ctx = "asbool" -> IF a = "ERR" THEN ErrAny ELSE Ok(<<B(a = "T")>>)
    [] c.ctx = "where2" -> IF "ERR" \in {a, b} THEN ErrAny
                           ELSE Ok((IF a = "T" THEN <<B(TRUE)>> ELSE <<>>) \o (IF b = "T" THEN <<B(FALSE)>> ELSE <<>>))
    [] c.ctx = "exists2" -> IF "ERR" \in {a, b} /\ ~(Mutant = "existsStopsAtFirstTrue" /\ a = "T") THEN ErrAny
                            ELSE Ok(<<B(a = "T" \/ b = "T")>>)
    [] c.ctx = "all2" -> IF "ERR" \in {a, b} THEN ErrAny ELSE Ok(<<B(a = "T" /\ b = "T")>>)

(* all(p) "is true iff p is true for every item": when the criterion fails on one item and is not true on the other,  *)
(* false is permitted next to the error (an evaluation that stops at the first item that is not true never meets the *)
(* failing one) - the reading recorded in DESIGN.md 13.5.                                                            *)
AllMayBeFalse(c) == c.ctx = "all2" /\ "ERR" \in {Den(c.l), Den(c.r)} /\ ({Den(c.l), Den(c.r)} \cap {"F", "E"}) # {}

CaseId(c) == c.ctx \o "/" \o c.op \o "/" \o c.l.val \o "." \o c.l.src \o "/" \o c.r.val \o "." \o c.r.src

Expected(c) == ExpectedFrom(c, Den(c.l), Den(c.r))
=============================================================================
