------------------------------ MODULE C05_Judge ------------------------------
(***************************************************************************)
(* Judge for C05.  Observation: [id, cs, src, out, lout, rout, litems,     *)
(* ritems, skip].  For pair cases the operands are the pool values the     *)
(* specification declares; each operand evaluated alone (lout/rout) must   *)
(* denote that value.  For coll cases the operands are the collections the *)
(* harness built (litems/ritems, projected inputs), which must agree with  *)
(* the token declarations (equal classes <=> equal content).               *)
(***************************************************************************)
EXTENDS C05, Json, Params

Obs == ndJsonDeserialize(ObsFile)
N == Len(Obs)
W == 16

(* does an operand evaluated alone denote value v ? *)
ValueSame(x, v) ==
  LET y == Val(x) IN
  /\ y.t = v.t \/ (y.t \in {"i", "d"} /\ v.t \in {"i", "d"} /\ y.t = v.t)
  /\ ItemSame(y, v)
DenotesOk(out, o) ==
  IF o.k = 0 THEN out.k = "ok" /\ Len(out.items) = 0
  ELSE out.k = "ok" /\ Len(out.items) = 1 /\ ValueSame(out.items[1], PoolV(o.k))

(* token declarations vs the items actually built *)
ConsistentTok(tok, it) ==
  LET d == TokItem[tok] IN
  IF d.t = "el" THEN it.t = "el" /\ Val(it).t = "el" ELSE ItemSame(Val(it), d)
ConsistentSeq(toks, items) ==
  /\ Len(toks) = Len(items)
  /\ \A j \in DOMAIN toks : ConsistentTok(toks[j], items[j])
  /\ \A j, k \in DOMAIN toks : TokItem[toks[j]].t = "el" /\ TokItem[toks[k]].t = "el"
        => ((TokItem[toks[j]].h = TokItem[toks[k]].h) <=> (items[j].h = items[k].h))
ConsistentAcross(lt, li, rt, ri) ==
  \A j \in DOMAIN lt, k \in DOMAIN rt : TokItem[lt[j]].t = "el" /\ TokItem[rt[k]].t = "el"
        => ((TokItem[lt[j]].h = TokItem[rt[k]].h) <=> (li[j].h = ri[k].h))

OpClass(o) == IF o.k = 0 THEN "empty" ELSE Class(PoolV(o.k)) \o "/" \o o.f

Verdict(o) ==
  LET c == o.cs IN
  IF o.skip THEN [id |-> o.id, ok |-> TRUE, sig |-> "", skipped |-> TRUE]
  ELSE IF c.kind = "pair" THEN
    LET perm == Permitted(c)
        opsOk == DenotesOk(o.lout, c.l) /\ DenotesOk(o.rout, c.r)
        good == ~IsFailure(o.out) /\ opsOk /\ OutcomeIn(o.out, perm)
        sig == IF IsFailure(o.out) THEN "cmp|" \o o.out.k \o "|" \o c.op \o "|" \o OpClass(c.l) \o "|" \o OpClass(c.r)
               ELSE IF ~opsOk THEN "cmp|operand-denotation|" \o (IF DenotesOk(o.lout, c.l) THEN OpClass(c.r) ELSE OpClass(c.l))
               ELSE "cmp|" \o c.op \o "|" \o OpClass(c.l) \o "|" \o OpClass(c.r) \o "|got-" \o KindOf(o.out)
    IN [id |-> o.id, ok |-> good, sig |-> IF good THEN "" ELSE sig, skipped |-> FALSE, want |-> perm]
  ELSE
    LET cons == ConsistentSeq(c.l, o.litems) /\ ConsistentSeq(c.r, o.ritems) /\ ConsistentAcross(c.l, o.litems, c.r, o.ritems)
        perm == PermittedCmp(c.op, o.litems, o.ritems)
        good == cons /\ ~IsFailure(o.out) /\ OutcomeIn(o.out, perm)
        sig == IF ~cons THEN "malformed|coll-tokens-inconsistent"
               ELSE "cmp|coll|" \o c.op \o "|len" \o ToString(Len(c.l)) \o "," \o ToString(Len(c.r)) \o "|got-" \o KindOf(o.out)
                     \o "|want-" \o (IF Ok(<<B(TRUE)>>) \in perm THEN "T" ELSE "") \o (IF Ok(<<B(FALSE)>>) \in perm THEN "F" ELSE "")
                     \o (IF Ok(<<>>) \in perm THEN "E" ELSE "") \o (IF ErrAny \in perm THEN "X" ELSE "")
    IN [id |-> o.id, ok |-> good, sig |-> IF good THEN "" ELSE sig, skipped |-> FALSE, want |-> perm]

VARIABLE i
Init == i \in 1..(IF N < W THEN N ELSE W) /\ PrintT(ToJson(Verdict(Obs[i])))
Next == i + W <= N /\ i' = i + W /\ PrintT(ToJson(Verdict(Obs[i'])))
Spec == Init /\ [][Next]_i
=============================================================================
