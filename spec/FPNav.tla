-------------------------------- MODULE FPNav --------------------------------
(***************************************************************************)
(* Path navigation over the annotated FHIR JSON tree (property C02 and the *)
(* navigation core of the interpreter's abstract machine).                 *)
(*                                                                         *)
(* A tree node is [n, jn, ty, k, pn, li, cx, v, h, ch]:                    *)
(*   n  FHIRPath name (choice suffix stripped)   jn JSON name              *)
(*   ty FHIR type   k kind in {prim, complex, backbone, resource}          *)
(*   pn proto message name (keys the schema)     v  primitive value        *)
(*   ch children in document order (repeated elements are consecutive      *)
(*      children with the same name)                                       *)
(* An address is the sequence of child positions from the root.  The focus *)
(* of a navigation is a sequence of items: element references              *)
(* [t |-> "el", r, addr] into the input forest, or System values.          *)
(*                                                                         *)
(* Mutant: "firstChildOnly", "reverseOrder", "noFlatten" give deliberately *)
(* wrong step rules; C02_MC's laws must reject each.                       *)
(***************************************************************************)
EXTENDS FPValues, SequencesExt, FPMutant

RECURSIVE NodeAtFrom(_, _, _)
NodeAtFrom(node, addr, k) == IF k > Len(addr) THEN node ELSE NodeAtFrom(node.ch[addr[k]], addr, k + 1)
NodeAt(tree, addr) == NodeAtFrom(tree, addr, 1)

Ref(r, addr) == [t |-> "el", r |-> r, addr |-> addr]
(* a reference that also carries the node's primitive value and content hash *)
RefOf(forest, r, addr) ==
  LET nd == NodeAt(forest[r], addr) IN [t |-> "el", r |-> r, addr |-> addr, v |-> nd.v, h |-> nd.h]

(* positions of the children called name, in document order *)
ChildPositions(node, name) ==
  LET all == SelectSeq([j \in 1..Len(node.ch) |-> j], LAMBDA j : node.ch[j].n = name)
  IN CASE Mutant = "firstChildOnly" /\ Len(all) > 1 -> <<all[1]>>
       [] Mutant = "reverseOrder" -> Reverse(all)
       [] OTHER -> all

Kids(forest, it, name) ==
  LET node == NodeAt(forest[it.r], it.addr)
      pos == ChildPositions(node, name)
  IN [q \in 1..Len(pos) |-> RefOf(forest, it.r, Append(it.addr, pos[q]))]

(* names the schema allows on a node *)
PrimNames == {"id", "extension", "value"}
ValidNames(sch, node) ==
  IF node.k = "prim" THEN PrimNames
  ELSE IF node.pn \in DOMAIN sch THEN Range(sch[node.pn]) ELSE {}

(* Is the String rendering of a temporal primitive value (latitude for .value) *)
IsTemporalValue(v) == v.t \in {"date", "dt", "time"}

(***************************************************************************)
(* One navigation step.  Results:                                          *)
(*   [k |-> "ok", items]           the collection                          *)
(*   [k |-> "err"]                 ErrInvalidField is required             *)
(*   [k |-> "any"]                 the property leaves the outcome open    *)
(***************************************************************************)
NavOk(items) == [k |-> "ok", items |-> items]
NavErr == [k |-> "err"]
NavAny == [k |-> "any"]

RootStep(forest, focus, ty) ==
  NavOk(SelectSeq(focus, LAMBDA it : it.t = "el" /\ NodeAt(forest[it.r], it.addr).k = "resource"
                                        /\ NodeAt(forest[it.r], it.addr).ty = ty))

ValueOfPrim(node) == IF node.v.t = "none" THEN <<>> ELSE <<node.v>>

FieldStep(forest, sch, focus, name) ==
  IF Len(focus) = 0 THEN NavOk(<<>>)
  ELSE IF \E j \in 1..Len(focus) : focus[j].t # "el" THEN NavAny       \* navigating into a System value
  ELSE
    LET nodes == [j \in 1..Len(focus) |-> NodeAt(forest[focus[j].r], focus[j].addr)]
        valid == [j \in 1..Len(focus) |-> name \in ValidNames(sch, nodes[j])]
    IN IF \E j \in 1..Len(focus) : ~valid[j] THEN NavErr      \* not an element of the type of SOME item (a focus of several types): an error
       ELSE
         LET per == [j \in 1..Len(focus) |->
                       IF nodes[j].k = "prim" /\ name = "value" THEN ValueOfPrim(nodes[j])
                       ELSE Kids(forest, focus[j], name)]
         IN NavOk(IF Mutant = "noFlatten" /\ Len(per) > 1 THEN per[1] ELSE FlattenSeq(per))

IndexStep(focus, i) ==
  NavOk(IF i >= 0 /\ i < Len(focus) THEN <<focus[i + 1]>> ELSE <<>>)

(* steps: [k |-> "root", name] | [k |-> "field", name] | [k |-> "idx", i] *)
ApplyStep(forest, sch, focus, s) ==
  CASE s.k = "root"  -> RootStep(forest, focus, s.name)
    [] s.k = "field" -> FieldStep(forest, sch, focus, s.name)
    [] s.k = "idx"   -> IndexStep(focus, s.i)

RECURSIVE NavFrom(_, _, _, _, _)
NavFrom(forest, sch, focus, steps, k) ==
  IF k > Len(steps) THEN NavOk(focus)
  ELSE LET r == ApplyStep(forest, sch, focus, steps[k])
       IN IF r.k # "ok" THEN r ELSE NavFrom(forest, sch, r.items, steps, k + 1)

InputFocus(forest) == [r \in 1..Len(forest) |-> RefOf(forest, r, <<>>)]
Nav(forest, sch, steps) == NavFrom(forest, sch, InputFocus(forest), steps, 1)

(***************************************************************************)
(* Independent characterisation used by the laws: the nodes of a tree in   *)
(* document (pre-)order, and the name path of an address.                  *)
(***************************************************************************)
RECURSIVE Preorder(_, _)
Preorder(node, addr) ==
  <<addr>> \o FlattenSeq([j \in 1..Len(node.ch) |-> Preorder(node.ch[j], Append(addr, j))])

RECURSIVE NamePathFrom(_, _, _)
NamePathFrom(node, addr, k) ==
  IF k > Len(addr) THEN <<>> ELSE <<node.ch[addr[k]].n>> \o NamePathFrom(node.ch[addr[k]], addr, k + 1)
NamePath(tree, addr) == NamePathFrom(tree, addr, 1)

(* position of the node among its same-name siblings (0-based) *)
SiblingIndex(tree, addr) ==
  LET parent == NodeAt(tree, SubSeq(addr, 1, Len(addr) - 1))
      me == addr[Len(addr)]
  IN Cardinality({j \in 1..(me - 1) : parent.ch[j].n = parent.ch[me].n})

(*************************** rendering as source ***************************)
(* names that are FHIRPath keywords must be written as delimited identifiers *)
Keywords == {"div", "mod", "and", "or", "xor", "implies", "true", "false",
             "year", "month", "week", "day", "hour", "minute", "second", "millisecond",
             "years", "months", "weeks", "days", "hours", "minutes", "seconds", "milliseconds"}
Ident(name) == IF name \in Keywords THEN "`" \o name \o "`" ELSE name

RECURSIVE TextFrom(_, _)
TextFrom(steps, k) ==
  IF k > Len(steps) THEN ""
  ELSE LET s == steps[k]
           me == CASE s.k = "root"  -> Ident(s.name)
                   [] s.k = "field" -> (IF k = 1 THEN "" ELSE ".") \o Ident(s.name)
                   [] s.k = "idx"   -> "[" \o ToString(s.i) \o "]"
       IN me \o TextFrom(steps, k + 1)
PathText(steps) == TextFrom(steps, 1)
=============================================================================
