------------------------------ MODULE FPLogic ------------------------------
(***************************************************************************)
(* FHIRPath three-valued (Kleene) logic and the singleton-to-Boolean rule. *)
(* Truth values are "T", "F" and "E" (empty = unknown); "ERR" is the       *)
(* outcome of reducing a collection with more than one item.               *)
(*                                                                         *)
(* Mutant selects a deliberately wrong table; the laws below must FAIL for *)
(* every mutant (a twin that passes means the laws are vacuous).           *)
(***************************************************************************)
EXTENDS Naturals, Sequences, FPMutant

K3 == {"T", "F", "E"}

Not3(a) == CASE a = "T" -> "F" [] a = "F" -> "T" [] OTHER -> "E"

And3(a, b) ==
  IF a = "F" \/ b = "F" THEN (IF Mutant = "andFalseNeedsBoth" /\ (a = "E" \/ b = "E") THEN "E" ELSE "F")
  ELSE IF a = "T" /\ b = "T" THEN "T" ELSE "E"

Or3(a, b) ==
  IF a = "T" \/ b = "T" THEN (IF Mutant = "orTrueNeedsBoth" /\ (a = "E" \/ b = "E") THEN "E" ELSE "T")
  ELSE IF a = "F" /\ b = "F" THEN "F" ELSE "E"

Xor3(a, b) ==
  IF a = "E" \/ b = "E" THEN (IF Mutant = "xorEmptyIsFalse" THEN "F" ELSE "E")
  ELSE IF a # b THEN "T" ELSE "F"

Imp3(a, b) ==
  IF a = "F" \/ b = "T" THEN "T"
  ELSE IF a = "T" /\ b = "F" THEN "F"
  ELSE IF Mutant = "impliesEmptyIsTrue" THEN "T" ELSE "E"

BinOp3(op, a, b) ==
  CASE op = "and" -> And3(a, b) [] op = "or" -> Or3(a, b)
    [] op = "xor" -> Xor3(a, b) [] op = "implies" -> Imp3(a, b)

BoolOps == {"and", "or", "xor", "implies"}

(* With an operand that cannot be reduced the whole expression is an error. *)
BinOp3E(op, a, b) == IF a = "ERR" \/ b = "ERR" THEN "ERR" ELSE BinOp3(op, a, b)
Not3E(a) == IF a = "ERR" THEN "ERR" ELSE Not3(a)

(* The algebraic laws named by property C06. *)
LawCommutative == \A a, b \in K3 : /\ And3(a, b) = And3(b, a)
                                   /\ Or3(a, b)  = Or3(b, a)
                                   /\ Xor3(a, b) = Xor3(b, a)
LawDeMorgan    == \A a, b \in K3 : /\ Not3(And3(a, b)) = Or3(Not3(a), Not3(b))
                                   /\ Not3(Or3(a, b))  = And3(Not3(a), Not3(b))
LawImplies     == \A a, b \in K3 : Imp3(a, b) = Or3(Not3(a), b)
LawXor         == \A a, b \in K3 : Xor3(a, b) = And3(Or3(a, b), Not3(And3(a, b)))
LawClassical   == \A a, b \in {"T", "F"} :
                     /\ And3(a, b) = (IF a = "T" /\ b = "T" THEN "T" ELSE "F")
                     /\ Or3(a, b)  = (IF a = "T" \/ b = "T" THEN "T" ELSE "F")
                     /\ Imp3(a, b) = (IF a = "F" \/ b = "T" THEN "T" ELSE "F")
LawMonotone    == \* replacing "unknown" by a definite value never flips a definite result
  \A op \in BoolOps : \A a, b \in K3 : \A a2, b2 \in {"T", "F"} :
     (a = "E" \/ a = a2) /\ (b = "E" \/ b = b2) /\ BinOp3(op, a, b) # "E"
        => BinOp3(op, a2, b2) = BinOp3(op, a, b)

(* The singleton rule: how a collection of abstract items counts as a truth  *)
(* value.  A Boolean is a System Boolean or a FHIR boolean element.          *)
IsBoolItem(x) == \/ x.t = "b"
                 \/ (x.t = "el" /\ x.v.t = "b")
BoolOfItem(x) == IF x.t = "b" THEN x.b ELSE x.v.b

Singleton3(c) ==
  IF Len(c) = 0 THEN "E"
  ELSE IF Len(c) > 1 THEN "ERR"
  ELSE IF IsBoolItem(c[1]) THEN (IF BoolOfItem(c[1]) THEN "T" ELSE "F")
  ELSE "T"
=============================================================================
