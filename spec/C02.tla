-------------------------------- MODULE C02 --------------------------------
(***************************************************************************)
(* Property C02: path navigation returns exactly the elements of the       *)
(* resource's FHIR JSON tree.  Cases are paths over generated, populated   *)
(* resources whose annotated trees (built from google/fhir's JSON          *)
(* rendering and proto descriptors only) are read from TreeFile.           *)
(*                                                                         *)
(* A case is [ti, kind, steps]: tree number, what it exercises, the path.  *)
(***************************************************************************)
EXTENDS FPNav, Json, Params

Trees == ndJsonDeserialize(TreeFile)     \* [id, tree, sch]
NT == Len(Trees)
TreeOf(ti) == Trees[ti].tree
SchOf(ti) == Trees[ti].sch
ForestOf(ti) == <<TreeOf(ti)>>

Field(n) == [k |-> "field", name |-> n, i |-> 0]
Root(n)  == [k |-> "root",  name |-> n, i |-> 0]
Idx(i)   == [k |-> "idx",   name |-> "", i |-> i]

PathSteps(ti, path) == <<Root(TreeOf(ti).ty)>> \o [j \in 1..Len(path) |-> Field(path[j])]

(* the fully indexed path that denotes exactly one node *)
RECURSIVE NodeStepsFrom(_, _, _)
NodeStepsFrom(tree, addr, k) ==
  IF k > Len(addr) THEN <<>>
  ELSE LET pre == SubSeq(addr, 1, k)
           nd == NodeAt(tree, pre)
       IN <<Field(nd.n)>> \o (IF nd.li THEN <<Idx(SiblingIndex(tree, pre))>> ELSE <<>>) \o NodeStepsFrom(tree, addr, k + 1)
NodeSteps(ti, addr) == <<Root(TreeOf(ti).ty)>> \o NodeStepsFrom(TreeOf(ti), addr, 1)

Expected(c) == Nav(ForestOf(c.ti), SchOf(c.ti), c.steps)

RECURSIVE JoinNames(_)
JoinNames(p) == IF Len(p) = 0 THEN "" ELSE p[1] \o (IF Len(p) > 1 THEN "." ELSE "") \o JoinNames(Tail(p))
StepNames(steps) == SelectSeq(steps, LAMBDA s : s.k = "field")
PathName(c) == TreeOf(c.ti).ty \o "." \o JoinNames([j \in 1..Len(StepNames(c.steps)) |-> StepNames(c.steps)[j].name])
=============================================================================
