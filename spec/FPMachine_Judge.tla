--------------------------- MODULE FPMachine_Judge ---------------------------
(* Judge for the programs of FPMachine_Sim: observation [id, ast, src, out, parent, prop].  Source text and tree are tied by re-rendering. *)
EXTENDS FPMachine

Obs == ndJsonDeserialize(ObsFile)

(* both sides hold the same environment collections: the harness evaluated %name for every name and recorded the outcome *)
VarsObs == ndJsonDeserialize(VarsObsFile)[1].vars
VarsTie == \A n \in DOMAIN Vars : VarsObs[n].k = "ok" /\ SeqSame(VarsObs[n].items, Vars[n])
ASSUME VarsTie
NObs == Len(Obs)
W == 16

Outer(e) == IF e.k = "call" THEN e.f ELSE IF e.k = "bin" THEN e.op ELSE IF e.k = "typeop" THEN e.op ELSE e.k

Verdict(o) ==
  LET r == Eval(o.ast, Env, Input)
      textOk == Render(o.ast) = o.src
      good == /\ ~IsFailure(o.out)
              /\ CASE r.k = "any" -> TRUE
                   [] r.k = "eoe" -> o.out.k \in {"err", "cerr"} \/ (o.out.k = "ok" /\ Len(o.out.items) = 0)
                   [] r.k = "err" -> o.out.k \in {"err", "cerr"}
                   [] r.k = "ok"  -> o.out.k = "ok" /\ SeqSame(o.out.items, r.items)
  IN [id |-> o.id, ok |-> good /\ textOk, open |-> r.k = "any",
      sig |-> IF good /\ textOk THEN "" ELSE IF ~textOk THEN "malformed|rendering-differs"
              ELSE "machine|" \o o.prop \o "|" \o Outer(o.ast) \o "|got-" \o KindOf(o.out) \o "|want-" \o (IF r.k = "ok" THEN "ok" \o ToString(Len(r.items)) ELSE r.k),
      want |-> IF r.k = "ok" THEN r.items ELSE <<>>]

VARIABLE i
JInit == i \in 1..(IF NObs < W THEN NObs ELSE W) /\ PrintT(ToJson(Verdict(Obs[i])))
JNext == i + W <= NObs /\ i' = i + W /\ PrintT(ToJson(Verdict(Obs[i'])))
JSpec == JInit /\ [][JNext]_i
=============================================================================
