--------------------------- MODULE FPMachine_Judge ---------------------------
(* Judge for the programs of FPMachine_Sim: observation [id, ast, src, out, parent, prop].  Source text and tree are tied by re-rendering. *)
EXTENDS FPMachine

Obs == ndJsonDeserialize(ObsFile)

(* both sides hold the same environment collections: the harness evaluated %name for every name and recorded the outcome *)
VarsObs == ndJsonDeserialize(VarsObsFile)[1].vars
VarsTie == \A n \in DOMAIN Vars : VarsObs[n].k = "ok" /\ SeqSame(VarsObs[n].items, Vars[n])
ASSUME VarsTie
VarsObsB == ndJsonDeserialize(VarsObsFile)[1].varsB
VarsTieB == \A n \in DOMAIN VarsB : VarsObsB[n].k = "ok" /\ SeqSame(VarsObsB[n].items, VarsB[n])
ASSUME VarsTieB
NObs == Len(Obs)
W == 16

Outer(e) == IF e.k = "call" THEN e.f ELSE IF e.k = "bin" THEN e.op ELSE IF e.k = "typeop" THEN e.op ELSE e.k

Agrees(out, r) ==
  /\ ~IsFailure(out)
  /\ CASE r.k = "any" -> TRUE
       [] r.k = "eoe" -> out.k \in {"err", "cerr"} \/ (out.k = "ok" /\ Len(out.items) = 0)
       [] r.k = "err" -> out.k \in {"err", "cerr"}
       [] r.k = "ok"  -> out.k = "ok" /\ SeqSame(out.items, r.items)
WantKind(r) == IF r.k = "ok" THEN "ok" \o ToString(Len(r.items)) ELSE r.k

(* o.out: the first evaluation, on the inputs; o.outB: the SAME compiled expression evaluated again on the other inputs *)
(* (FPMachine!InputB, VarsB): it must be what the machine computes for those, whatever was evaluated before            *)
Verdict(o) ==
  LET r == Eval(o.ast, Env, Input)
      rB == Eval(o.ast, EnvB, InputB)
      textOk == Render(o.ast) = o.src
      good == Agrees(o.out, r)
      goodB == o.out.k = "cerr" \/ Agrees(o.outB, rB)
  IN [id |-> o.id, ok |-> good /\ goodB /\ textOk, open |-> r.k = "any",
      sig |-> IF good /\ goodB /\ textOk THEN "" ELSE IF ~textOk THEN "malformed|rendering-differs"
              ELSE IF ~good THEN "machine|" \o o.prop \o "|" \o Outer(o.ast) \o "|got-" \o KindOf(o.out) \o "|want-" \o WantKind(r)
              ELSE "machine|" \o o.prop \o "|" \o Outer(o.ast) \o "|reused-on-other-inputs|got-" \o KindOf(o.outB) \o "|want-" \o WantKind(rB),
      want |-> IF ~good THEN (IF r.k = "ok" THEN r.items ELSE <<>>) ELSE IF rB.k = "ok" THEN rB.items ELSE <<>>]

VARIABLE i
JInit == i \in 1..(IF NObs < W THEN NObs ELSE W) /\ PrintT(ToJson(Verdict(Obs[i])))
JNext == i + W <= NObs /\ i' = i + W /\ PrintT(ToJson(Verdict(Obs[i'])))
JSpec == JInit /\ [][JNext]_i
=============================================================================
