------------------------------- MODULE C11_MC -------------------------------
(***************************************************************************)
(* Three machines over the C11 case space (one per configuration):         *)
(*                                                                         *)
(*  SpecLaws  role 1: every tree to depth 3 over one operator per level    *)
(*            (two leaves) is a state; the round-trip laws of FPSyntax are *)
(*            invariants.  Seeds are the depth <= 2 trees, one step builds *)
(*            every depth-3 tree on top of a seed, so the workers share    *)
(*            the enumeration.  Mutant twins must violate LawsHold.        *)
(*  SpecGen   role 2: one behaviour per SHAPE; the step chooses the        *)
(*            distinguishing leaf assignments and emits the cases.  The    *)
(*            laws are invariants over everything emitted.                 *)
(*  SpecSim   role 2 beyond the exhaustive bound (tlc -simulate): a random *)
(*            walk wraps the current tree into a deeper one; trees of      *)
(*            depth MinEmitDepth..MaxSimDepth are emitted.                 *)
(***************************************************************************)
EXTENDS C11, Json, Params, Randomization, SequencesExt

VARIABLES t,     \* SpecLaws, SpecSim: the current tree.  SpecGen: the shape
          ph,    \* phase
          em     \* SpecGen: the trees emitted by the step

vars == <<t, ph, em>>

(* ----------------------------------------------------------------- laws *)
LawLeaves == {Lit("1"), Id("x")}
LawBinOps == {"*", "-", "|", "<", "=", "in", "and", "or", "implies"}    \* one per binary level
Parents(Sub, c) ==     \* every node with c as its first child and the other children from S
  {Bin(op, c, r) : op \in LawBinOps, r \in Sub}
  \cup {Pol("-", c), Ty("is", c, <<"Integer">>), Inv(c, Id("name")), Inv(c, Fn("first", <<>>))}
  \cup {Idx(c, i) : i \in Sub}
  \cup {Inv(c, Fn("select", <<a>>)) : a \in Sub}
Grow(Sub) == Sub \cup UNION {Parents(Sub, c) : c \in Sub}
LawTrees2 == Grow(LawLeaves)

LawsInit == t \in LawTrees2 /\ ph = "seed" /\ em = {}
LawsNext == /\ ph = "seed"
            /\ t' \in Parents(LawTrees2, t)
            /\ ph' = "tree" /\ em' = em
SpecLaws == LawsInit /\ [][LawsNext]_vars

IsTree(x) == ph \in {"seed", "tree"}
LawsHold ==
  IsTree(t) => LawMin(t) /\ LawFull(t) /\ LawMinimal(t) /\ LawVocab(t)
(* the table itself: 13 levels, type operators between additive and union *)
TableShape ==
  /\ {BinLevel(op) : op \in BinOps} \cup {LevelInvocation, LevelIndexer, LevelPolarity, LevelType} = 1..13
  /\ \A a \in AddOps, u \in UnionOps, e \in EqOps : BinLevel(a) < LevelType /\ LevelType < BinLevel(u) /\ LevelType < BinLevel(e)
  /\ \A a \in AndOps, o \in OrOps, i \in ImpOps : BinLevel(a) < BinLevel(o) /\ BinLevel(o) < BinLevel(i)

(* ------------------------------------------------------------ generator *)
GenInit == t \in Shapes /\ ph = "todo" /\ em = {}
GenNext ==
  /\ ph = "todo"
  /\ LET cs == CasesOfShape(t, PerShape, Seed)
     IN /\ em' = {c.ast : c \in cs}
        /\ \A c \in cs : PrintT(ToJson(c))
  /\ ph' = "done" /\ t' = t
SpecGen == GenInit /\ [][GenNext]_vars

EmittedLaws == \A x \in em : (HasKeywordStep(x) \/ (LawMin(x) /\ LawFull(x))) /\ LawVocab(x) /\ ~DividesByZero(x)
(* the choice is sound: a case flagged as distinguishing has an evaluable value or an unsupported operator *)
EmittedWithinDepth == \A x \in em : Depth(x) <= 6

(* ------------------------------------------------------------ simulation *)
SimOps == {"*", "div", "mod", "+", "-", "&", "<", "<=", ">", ">=", "=", "!=", "and", "or", "xor", "implies", "/", "|"}
SimSibs == {LeafPool[j] : j \in 1..NLeaf} \cup {RootPool[j] : j \in 1..NRoot}
             \cup {Lit("{}"), Lit("0"), Lit("3"), Bin("+", Lit("1"), Lit("2")), Bin("=", Lit("1"), Lit("1")),
                   Bin("and", Lit("true"), Lit("false")), Pol("-", Lit("2")), Bin("&", Lit("'a'"), Lit("'b'"))}
SibSeq == SetToSeq(SimSibs)
OpSeq == SetToSeq(SimOps)
(* one random wrapper: the form and its parameters are drawn independently.  *)
(* Draw takes the state's tree as a (useless) argument so that TLC does not *)
(* evaluate it once as a constant.                                          *)
Draw(c) == LET z == 0 * Depth(c)
           IN [f  |-> RandomElement(1..(10 + z)),
               op |-> OpSeq[RandomElement(1..(Len(OpSeq) + z))],
               s  |-> SibSeq[RandomElement(1..(Len(SibSeq) + z))],
               u  |-> RandomElement(1..(NUn + z)),
               n  |-> RandomElement(1..(NArgCtx + z))]
Build(c, d) ==
  CASE d.f \in {1, 2, 3} -> Bin(d.op, c, d.s)
    [] d.f \in {4, 5, 6} -> Bin(d.op, d.s, c)
    [] d.f \in {7, 8}    -> ApplyU(Unaries[d.u], c)
    [] d.f = 9           -> ArgCtx(d.n, c)
    [] d.f = 10          -> IF d.u % 2 = 0 THEN Idx(c, IF d.n % 2 = 0 THEN Lit("0") ELSE Bin("-", Lit("1"), Lit("1")))
                            ELSE Fn("iif", <<IF d.n % 2 = 0 THEN Bin("=", Lit("1"), Lit("1")) ELSE PActive, c, d.s>>)

SimInit == t \in SimSibs /\ ph = "grow" /\ em = {}
SimGrow ==
  /\ ph = "grow" /\ Depth(t) < MaxSimDepth
  /\ \E draws \in {<<Draw(t), Draw(t), Draw(t), Draw(t), Draw(t), Draw(t)>>} :      \* bound once: a LET would re-draw at every use
       LET good == {x \in {Build(t, draws[j]) : j \in 1..6} : Expected(x).k # "na" /\ ~DividesByZero(x)}
       IN /\ good # {}
          /\ \E x \in {RandomElement(good)} : t' = x
  /\ ph' = "emit" /\ em' = em
SimEmit ==
  /\ ph = "emit"
  /\ Depth(t) >= MinEmitDepth => PrintT(ToJson(CaseOf(t, "sim", FALSE)))
  /\ ph' = "grow" /\ t' = t /\ em' = em
SimNext == SimGrow \/ SimEmit
SpecSim == SimInit /\ [][SimNext]_vars

SimLaws == ph = "emit" => LawMin(t) /\ LawFull(t) /\ LawVocab(t)
=============================================================================
