------------------------------- MODULE FPTypes -------------------------------
(***************************************************************************)
(* The FHIR R4 and System type hierarchies as far as property C12 speaks   *)
(* of them.  A type is [ns, name] with ns in {"FHIR", "System"}.  The set  *)
(* of FHIR type names and their kinds comes from the google/fhir proto     *)
(* descriptors (TypeTable: name -> kind in {resource, complex, prim}).     *)
(***************************************************************************)
EXTENDS FPValues, FPMutant

T(ns, name) == [ns |-> ns, name |-> name]

SystemNames == {"Boolean", "String", "Integer", "Decimal", "Date", "DateTime", "Time", "Quantity"}
AbstractFHIR == {"Element", "BackboneElement", "Resource", "DomainResource"}

StringLike  == {"code", "id", "markdown"}
IntegerLike == {"positiveInt", "unsignedInt"}
UriLike     == {"url", "canonical", "uuid", "oid"}
QuantityLike == {"Age", "Count", "Distance", "Duration", "MoneyQuantity", "SimpleQuantity"}
NonDomainResources == {"Bundle", "Binary", "Parameters"}

(* direct parent of a FHIR type name; kindOf: name -> "resource" | "complex" | "prim" | "abstract" *)
ParentName(name, kind) ==
  CASE name = "Element" -> "Element"
    [] name = "Resource" -> "Resource"
    [] name = "BackboneElement" -> "Element"
    [] name = "DomainResource" -> "Resource"
    [] name \in StringLike  -> (IF Mutant = "primitiveNoSpecialise" THEN "Element" ELSE "string")
    [] name \in IntegerLike -> "integer"
    [] name \in UriLike     -> "uri"
    [] name \in QuantityLike -> "Quantity"
    [] kind = "resource" -> (IF name \in NonDomainResources THEN "Resource" ELSE "DomainResource")
    [] OTHER -> "Element"

(* The type of an item.  Elements carry ft (FHIR type name from the        *)
(* descriptor annotations: a nested component is "BackboneElement" under a *)
(* resource and "Element" under a datatype) and fk (kind).                 *)
SystemNameOf(x) == CASE x.t = "b" -> "Boolean" [] x.t = "s" -> "String" [] x.t = "i" -> "Integer" [] x.t = "d" -> "Decimal"
                     [] x.t = "date" -> "Date" [] x.t = "dt" -> "DateTime" [] x.t = "time" -> "Time" [] x.t = "q" -> "Quantity"

RECURSIVE ChainFrom(_, _, _)
ChainFrom(name, kindOf, fuel) ==   \* the ancestor chain of a FHIR type name, itself first
  LET k == IF name \in DOMAIN kindOf THEN kindOf[name] ELSE "abstract"
      p == ParentName(name, k)
  IN IF p = name \/ fuel = 0 THEN <<name>> ELSE <<name>> \o ChainFrom(p, kindOf, fuel - 1)

Ancestors(name, kindOf) == Range(ChainFrom(name, kindOf, 8))

(* is item-type (ns1, n1) a subtype of specifier (ns2, n2)? *)
IsSubtype(ns1, n1, ns2, n2, kindOf) ==
  IF Mutant = "isIgnoresNamespace" THEN n1 = n2 \/ (ns1 = "FHIR" /\ n2 \in Ancestors(n1, kindOf))
  ELSE /\ ns1 = ns2
       /\ IF ns1 = "System" THEN n1 = n2 ELSE n2 \in Ancestors(n1, kindOf)

(* Name resolution for a type specifier: FHIR first, then System; case-sensitive. *)
ValidFHIR(name, kindOf) == name \in DOMAIN kindOf \/ name \in AbstractFHIR \/ name \in QuantityLike   \* the Quantity profiles are R4 types even where no resource uses them
Resolve(ns, name, kindOf) ==    \* ns = "" for an unqualified name; result ns = "invalid" when Compile must reject it
  CASE ns = "FHIR"   -> IF ValidFHIR(name, kindOf) THEN T("FHIR", name) ELSE T("invalid", name)
    [] ns = "System" -> IF name \in SystemNames THEN T("System", name) ELSE T("invalid", name)
    [] ns = ""       -> IF ValidFHIR(name, kindOf) THEN T("FHIR", name)
                        ELSE IF name \in SystemNames THEN T("System", name) ELSE T("invalid", name)
    [] OTHER         -> T("invalid", name)
=============================================================================
