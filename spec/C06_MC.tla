------------------------------- MODULE C06_MC -------------------------------
(***************************************************************************)
(* Exploration of the C06 case space.  One behaviour per case: the initial *)
(* state is a case awaiting evaluation, the single step evaluates it in    *)
(* the specification and emits it (role 2, generator).  The K3 laws and    *)
(* the per-case consequences are invariants (role 1).                      *)
(***************************************************************************)
EXTENDS C06, Json

VARIABLES cs, res

Init == cs \in Cases /\ res = [k |-> "pending"]

Evaluate ==
  /\ res.k = "pending"
  /\ res' = Expected(cs)
  /\ cs' = cs
  /\ PrintT(ToJson([id |-> CaseId(cs), cs |-> cs, text |-> Text(cs)]))

Next == Evaluate
Spec == Init /\ [][Next]_<<cs, res>>

Laws == LawCommutative /\ LawDeMorgan /\ LawImplies /\ LawXor /\ LawClassical /\ LawMonotone

(* Consequences at the level of cases: a multi-item operand always gives an *)
(* error; commuting the operands of and/or/xor gives the same outcome.      *)
MultiIsError ==
  res.k # "pending" /\ (cs.l.val \in {"multi", "multibool"} \/ (cs.ctx \in {"binop"} \cup PairCtx /\ cs.r.val \in {"multi", "multibool"})) => res.k = "err"
CommutesOnForms ==
  res.k # "pending" /\ cs.ctx = "binop" /\ cs.op \in {"and", "or", "xor"}
     => res = Expected([cs EXCEPT !.l = cs.r, !.r = cs.l])
NonBoolCountsAsTrue ==
  res.k # "pending" /\ cs.ctx = "binop" /\ cs.l.val = "nonbool"
     => res = Expected([cs EXCEPT !.l = [val |-> "true", src |-> cs.l.src]])
=============================================================================
