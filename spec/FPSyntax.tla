------------------------------ MODULE FPSyntax ------------------------------
(***************************************************************************)
(* Syntax of FHIRPath expressions: abstract syntax trees, the operator     *)
(* precedence / associativity table of the FHIRPath specification (13      *)
(* levels), two renderers from trees to TOKEN SEQUENCES (minimal and full  *)
(* parenthesisation), the token-boundary rule NeedsGap, and a              *)
(* specification-level precedence-climbing parser Reparse.                 *)
(*                                                                         *)
(* The table is written from the FHIRPath N1 specification, section        *)
(* "Operator precedence" (tightest first):                                 *)
(*    #01 . (path/function invocation)   #02 [] (indexer)                  *)
(*    #03 unary + and -                  #04 * / div mod                   *)
(*    #05 + - &                          #06 is as                         *)
(*    #07 |                              #08 > < >= <=                     *)
(*    #09 = ~ != !~                      #10 in contains                   *)
(*    #11 and                            #12 xor or                        *)
(*    #13 implies                                                          *)
(* All binary operators are left-associative.                              *)
(*                                                                         *)
(* Trees are records tagged by k; every field name has one type in all     *)
(* kinds (TLC compares records field by field):                            *)
(*   [k |-> "lit", v]            literal, v = its token ("7", "true",      *)
(*                               "'a'"); v = "{}" is the null literal,     *)
(*                               which is the TWO tokens { and }           *)
(*   [k |-> "id", name]          identifier (member invocation)            *)
(*   [k |-> "dollar", name]      $this, $index, $total                     *)
(*   [k |-> "var", name]         %name (the two tokens % and name)         *)
(*   [k |-> "fn", name, args]    function call name(args...)               *)
(*   [k |-> "inv", e, m]         e.m  with m an id, fn or dollar node      *)
(*   [k |-> "idx", e, i]         e[i]                                      *)
(*   [k |-> "pol", op, e]        +e, -e                                    *)
(*   [k |-> "bin", op, l, r]     l op r                                    *)
(*   [k |-> "type", op, e, ty]   e is T, e as T;  ty = <<"Integer">> or    *)
(*                               <<"System", "Integer">>                   *)
(* Parentheses are not part of a tree: they belong to a rendering.         *)
(*                                                                         *)
(* Mutant makes the RENDERER believe a wrong table (the parser keeps the   *)
(* right one), so the round-trip laws below must fail for every mutant.    *)
(***************************************************************************)
EXTENDS Naturals, Integers, Sequences, FiniteSets, TLC

CONSTANT Mutant

Lit(v)        == [k |-> "lit", v |-> v]
Id(n)         == [k |-> "id", name |-> n]
Dollar(n)     == [k |-> "dollar", name |-> n]
Var(n)        == [k |-> "var", name |-> n]
Fn(n, args)   == [k |-> "fn", name |-> n, args |-> args]
Inv(e, m)     == [k |-> "inv", e |-> e, m |-> m]
Idx(e, i)     == [k |-> "idx", e |-> e, i |-> i]
Pol(op, e)    == [k |-> "pol", op |-> op, e |-> e]
Bin(op, l, r) == [k |-> "bin", op |-> op, l |-> l, r |-> r]
Ty(op, e, ty) == [k |-> "type", op |-> op, e |-> e, ty |-> ty]

(* ------------------------------------------------------------------ table *)
MulOps   == {"*", "/", "div", "mod"}
AddOps   == {"+", "-", "&"}
UnionOps == {"|"}
IneqOps  == {"<", "<=", ">", ">="}
EqOps    == {"=", "!=", "~", "!~"}
MembOps  == {"in", "contains"}
AndOps   == {"and"}
OrOps    == {"or", "xor"}
ImpOps   == {"implies"}
BinOps   == MulOps \cup AddOps \cup UnionOps \cup IneqOps \cup EqOps \cup MembOps \cup AndOps \cup OrOps \cup ImpOps
PolOps   == {"+", "-"}
TypeOps  == {"is", "as"}

LevelInvocation == 1
LevelIndexer    == 2
LevelPolarity   == 3
(* `.` and `[ ]` are both postfix: written after their left operand they  *)
(* apply in textual order, so `a[0].b` and `a.b[0]` need no parentheses;  *)
(* their relative rank never decides a parse.  A left operand needs       *)
(* parentheses under either exactly when it is looser than both.          *)
LevelPostfix    == 2
LevelType       == 6
LevelLoosest    == 13

BinLevel(op) ==
  CASE op \in MulOps   -> 4
    [] op \in AddOps   -> 5
    [] op \in UnionOps -> 7
    [] op \in IneqOps  -> 8
    [] op \in EqOps    -> 9
    [] op \in MembOps  -> 10
    [] op \in AndOps   -> 11
    [] op \in OrOps    -> 12
    [] op \in ImpOps   -> 13

(* level of the operator at the top of a tree; 0 = a term *)
Level(t) ==
  CASE t.k = "inv"  -> LevelInvocation
    [] t.k = "idx"  -> LevelIndexer
    [] t.k = "pol"  -> LevelPolarity
    [] t.k = "bin"  -> BinLevel(t.op)
    [] t.k = "type" -> LevelType
    [] OTHER        -> 0

(* Operators of the grammar that fhirpath-go deliberately does not         *)
(* implement (DESIGN.md 2.1): a tree containing one must not compile.      *)
UnsupportedBinOps == {"|", "in", "contains", "~", "!~"}
UnsupportedDollars == {"$index", "$total"}

(* --------------------------------------------- the renderer's view (mutants) *)
RBinLevel(op) ==
  IF Mutant = "andBindsLooserThanOr" /\ op \in AndOps THEN 12
  ELSE IF Mutant = "andBindsLooserThanOr" /\ op \in OrOps THEN 11
  ELSE BinLevel(op)
RTypeLevel == IF Mutant = "typeOpBelowEquality" THEN 10 ELSE LevelType
RLevel(t) ==
  CASE t.k = "bin"  -> RBinLevel(t.op)
    [] t.k = "type" -> RTypeLevel
    [] OTHER        -> Level(t)

(* left-associativity: an operand of the same level needs parentheses on   *)
(* the right, not on the left                                              *)
LeftNeedsParens(c, op) ==
  IF Mutant = "additiveRightAssoc" /\ op \in AddOps THEN RLevel(c) >= RBinLevel(op)
  ELSE IF Mutant = "redundantParens" THEN RLevel(c) >= RBinLevel(op)
  ELSE RLevel(c) > RBinLevel(op)
RightNeedsParens(c, op) ==
  IF Mutant = "noParensForRightChild" THEN FALSE
  ELSE IF Mutant = "additiveRightAssoc" /\ op \in AddOps THEN RLevel(c) > RBinLevel(op)
  ELSE RLevel(c) >= RBinLevel(op)

(* ------------------------------------------------------------- renderers *)
Paren(ts) == <<"(">> \o ts \o <<")">>

RECURSIVE JoinDots(_, _)
JoinDots(ty, j) == IF j > Len(ty) THEN <<>>
                   ELSE (IF j = 1 THEN <<>> ELSE <<".">>) \o <<ty[j]>> \o JoinDots(ty, j + 1)
TypeToks(ty) == JoinDots(ty, 1)

(* mode "min": parenthesise a child iff the table requires it;             *)
(* mode "full": parenthesise every sub-term; mode "flat": never.           *)
(* drop names one child slot ("e", "l", "r") of THIS node whose required   *)
(* parentheses are omitted (used by the minimality law only).              *)
RECURSIVE Render(_, _, _), RenderArgs(_, _, _)

Wrap(c, need, mode, dropped) ==
  IF mode = "full" \/ (mode = "min" /\ need /\ ~dropped)
  THEN Paren(Render(c, mode, "")) ELSE Render(c, mode, "")

(* a delimited position (function argument, index): no precedence issue *)
Delim(c, mode) == IF mode = "full" THEN Paren(Render(c, mode, "")) ELSE Render(c, mode, "")

RenderArgs(args, j, mode) ==
  IF j > Len(args) THEN <<>>
  ELSE (IF j = 1 THEN <<>> ELSE <<",">>) \o Delim(args[j], mode) \o RenderArgs(args, j + 1, mode)

Render(t, mode, drop) ==
  CASE t.k = "lit"    -> IF t.v = "{}" THEN <<"{", "}">> ELSE <<t.v>>
    [] t.k = "id"     -> <<t.name>>
    [] t.k = "dollar" -> <<t.name>>
    [] t.k = "var"    -> <<"%", t.name>>
    [] t.k = "fn"     -> <<t.name, "(">> \o RenderArgs(t.args, 1, mode) \o <<")">>
    [] t.k = "inv"    -> Wrap(t.e, RLevel(t.e) > LevelPostfix, mode, drop = "e") \o <<".">> \o Render(t.m, mode, "")
    [] t.k = "idx"    -> Wrap(t.e, RLevel(t.e) > LevelPostfix, mode, drop = "e") \o <<"[">> \o Delim(t.i, mode) \o <<"]">>
    [] t.k = "pol"    -> <<t.op>> \o Wrap(t.e, RLevel(t.e) > LevelPolarity, mode, drop = "e")
    [] t.k = "type"   -> Wrap(t.e, RLevel(t.e) > RTypeLevel, mode, drop = "e") \o <<t.op>> \o TypeToks(t.ty)
    [] t.k = "bin"    -> Wrap(t.l, LeftNeedsParens(t.l, t.op), mode, drop = "l") \o <<t.op>>
                           \o Wrap(t.r, RightNeedsParens(t.r, t.op), mode, drop = "r")

RenderMin(t)  == Render(t, "min", "")
RenderFull(t) == Render(t, "full", "")
RenderFlat(t) == Render(t, "flat", "")

(* child slots of the top node in which RenderMin inserts parentheses *)
ParenSlots(t) ==
  CASE t.k = "inv"  -> IF RLevel(t.e) > LevelPostfix THEN {"e"} ELSE {}
    [] t.k = "idx"  -> IF RLevel(t.e) > LevelPostfix THEN {"e"} ELSE {}
    [] t.k = "pol"  -> IF RLevel(t.e) > LevelPolarity THEN {"e"} ELSE {}
    [] t.k = "type" -> IF RLevel(t.e) > RTypeLevel THEN {"e"} ELSE {}
    [] t.k = "bin"  -> (IF LeftNeedsParens(t.l, t.op) THEN {"l"} ELSE {})
                         \cup (IF RightNeedsParens(t.r, t.op) THEN {"r"} ELSE {})
    [] OTHER        -> {}

(* ------------------------------------------------------------ vocabulary *)
(* TLC cannot look inside a string, so the lexical class of a token is     *)
(* given by finite vocabularies: every token a renderer may produce is in  *)
(* exactly one of them.                                                    *)
Keywords   == {"div", "mod", "is", "as", "in", "contains", "and", "or", "xor", "implies", "true", "false"}
(* keywords the grammar also accepts as identifiers *)
KeywordIdents == {"as", "contains", "in", "is"}
IdentVocab == {"Patient", "Observation", "active", "name", "given", "family", "gender", "deceased", "telecom", "rank",
               "count", "first", "last", "not", "empty", "exists", "all", "select", "where", "iif", "abs",
               "toString", "intersect", "tail", "take", "single",
               "Integer", "Boolean", "String", "Decimal", "System", "FHIR", "boolean", "string",
               "vt", "vi", "x", "y"}
(* delimited identifiers: the backticks are part of the token *)
DelimVocab == {"`active`", "`name`", "`Patient`", "`given`"}
NumberVocab == {"0", "1", "2", "3", "4", "5", "6", "7", "8", "9", "10", "12", "42"}
(* number tokens whose value the small evaluator of C11 does not give: only consistency of the renderings is demanded *)
WideNumberVocab == {"2147483647", "2147483648", "99999999999", "0.5"}
(* the last four carry inside the quotes what is white space or a comment OUTSIDE them: two blanks, the line-comment and *)
(* block-comment markers, a blank before the closing quote - a string token is opaque to the gap rules                  *)
StringVocab == {"'a'", "'b'", "'c'", "'ab'", "'male'", "'a  b'", "'x // y'", "'/* z */'", "' b '", "'a b'"}
Dollars    == {"$this", "$index", "$total"}
Puncts     == {"(", ")", "[", "]", "{", "}", ".", ",", "%", "+", "-", "*", "/", "&", "|",
               "<", "<=", ">", ">=", "=", "!=", "~", "!~"}

TokClass(tok) ==
  CASE tok \in Keywords    -> "word"
    [] tok \in IdentVocab  -> "word"
    [] tok \in DelimVocab  -> "delim"
    [] tok \in NumberVocab \cup WideNumberVocab -> "num"
    [] tok \in StringVocab -> "str"
    [] tok \in Dollars     -> "dollar"
    [] tok \in Puncts      -> "punct"
    [] OTHER               -> "unknown"

IsName(tok) == tok \in IdentVocab \/ tok \in KeywordIdents \/ tok \in DelimVocab

(***************************************************************************)
(* NeedsGap(a, b): must tokens a, b (adjacent, in this order) be separated *)
(* by white space or a comment?  Exactly when the lexer (maximal munch     *)
(* over the FHIRPath lexical grammar) would not split the glued text a b   *)
(* into a followed by b:                                                   *)
(*   - an identifier/keyword absorbs a following letter or digit;          *)
(*   - a number absorbs following digits (but NOT a following word: the    *)
(*     NUMBER rule stops at a letter, so `7div 2` is `7 div 2`);           *)
(*   - `.` glued between two numbers would make a decimal (conservative:   *)
(*     `.` before a number);                                               *)
(*   - `/` followed by `/` or `*` opens a comment;                         *)
(*   - `<` or `>` followed by `=` is another operator;                     *)
(*   - $this/$index/$total followed by a letter or digit: kept apart       *)
(*     (conservative).                                                     *)
(* `-` after `-`, `(` after a name, `'a'` after `'b'`, `%` before a name,  *)
(* `{` before `}` need no gap; a delimited identifier carries its own      *)
(* delimiters and never needs one.                                         *)
(***************************************************************************)
NeedsGap(a, b) ==
  LET ca == TokClass(a)
      cb == TokClass(b)
  IN \/ ca = "word" /\ cb \in {"word", "num"}
     \/ ca = "num" /\ cb = "num"
     \/ a = "." /\ cb = "num"
     \/ a = "/" /\ b \in {"/", "*"}
     \/ a \in {"<", ">"} /\ b = "="
     \/ ca = "dollar" /\ cb \in {"word", "num"}

(* What may be written between adjacent tokens a and b:                    *)
(*   "ws"     something must be: white space or a comment;                 *)
(*   "slash"  nothing is needed, but a comment may not follow a directly:  *)
(*            a is `/`, and `/` glued to `/* c */` or `// c` is the start  *)
(*            of a line comment - a blank goes before such a comment;      *)
(*   "free"   anything from the decoration set, including nothing.         *)
GapClass(a, b) == IF NeedsGap(a, b) THEN "ws" ELSE IF a = "/" THEN "slash" ELSE "free"
Gaps(ts) == [j \in 1..(Len(ts) - 1) |-> GapClass(ts[j], ts[j + 1])]

(* ---------------------------------------------------------------- parser *)
(* Precedence climbing over a token sequence with the (unmutated) table.   *)
(* A result is [ok |-> TRUE, t, p] (tree and next position) or Fail.       *)
Fail == [ok |-> FALSE]
Got(t, p) == [ok |-> TRUE, t |-> t, p |-> p]
Tok(ts, p) == IF p >= 1 /\ p <= Len(ts) THEN ts[p] ELSE "<eof>"

RECURSIVE PExpr(_, _, _), PLoop(_, _, _, _), PPrimary(_, _), PArgs(_, _, _), PTypeSpec(_, _, _)

(* arguments after "(": position p is the first token after "(" *)
PArgs(ts, p, acc) ==
  IF Tok(ts, p) = ")" /\ acc = <<>> THEN [ok |-> TRUE, args |-> acc, p |-> p + 1]
  ELSE LET a == PExpr(ts, p, LevelLoosest)
       IN IF ~a.ok THEN Fail
          ELSE IF Tok(ts, a.p) = "," THEN PArgs(ts, a.p + 1, Append(acc, a.t))
          ELSE IF Tok(ts, a.p) = ")" THEN [ok |-> TRUE, args |-> Append(acc, a.t), p |-> a.p + 1]
          ELSE Fail

(* qualified identifier after is/as, first name at p.  Like the ALL(STAR)   *)
(* parser, a further `.name` is taken as a qualifier unless it is followed *)
(* by "(" (then it is a function invocation on the type expression).       *)
PTypeSpec(ts, p, acc) ==
  IF ~IsName(Tok(ts, p)) THEN Fail
  ELSE LET acc2 == Append(acc, Tok(ts, p))
       IN IF Tok(ts, p + 1) = "." /\ IsName(Tok(ts, p + 2)) /\ Tok(ts, p + 3) # "("
          THEN PTypeSpec(ts, p + 2, acc2)
          ELSE [ok |-> TRUE, ty |-> acc2, p |-> p + 1]

(* an invocation (after "." or at the start of a term) at p *)
PInvocation(ts, p) ==
  LET tok == Tok(ts, p)
  IN IF tok \in Dollars THEN Got(Dollar(tok), p + 1)
     ELSE IF ~IsName(tok) THEN Fail
     ELSE IF Tok(ts, p + 1) = "("
          THEN LET a == PArgs(ts, p + 2, <<>>)
               IN IF a.ok THEN Got(Fn(tok, a.args), a.p) ELSE Fail
          ELSE Got(Id(tok), p + 1)

PPrimary(ts, p) ==
  LET tok == Tok(ts, p)
  IN CASE tok \in PolOps ->
            (LET r == PExpr(ts, p + 1, LevelPolarity)
             IN IF r.ok THEN Got(Pol(tok, r.t), r.p) ELSE Fail)
       [] tok = "(" ->
            (LET r == PExpr(ts, p + 1, LevelLoosest)
             IN IF r.ok /\ Tok(ts, r.p) = ")" THEN Got(r.t, r.p + 1) ELSE Fail)
       [] tok = "{" -> IF Tok(ts, p + 1) = "}" THEN Got(Lit("{}"), p + 2) ELSE Fail
       [] tok = "%" -> IF IsName(Tok(ts, p + 1)) THEN Got(Var(Tok(ts, p + 1)), p + 2) ELSE Fail
       [] tok \in {"true", "false"} -> Got(Lit(tok), p + 1)
       [] TokClass(tok) \in {"num", "str"} -> Got(Lit(tok), p + 1)
       [] OTHER -> PInvocation(ts, p)

(* maxL: the loosest operator level this call may consume *)
PExpr(ts, p, maxL) ==
  LET a == PPrimary(ts, p)
  IN IF a.ok THEN PLoop(ts, a.t, a.p, maxL) ELSE Fail

PLoop(ts, left, p, maxL) ==
  LET tok == Tok(ts, p)
  IN CASE tok = "." /\ LevelInvocation <= maxL ->
            (LET m == PInvocation(ts, p + 1)
             IN IF m.ok THEN PLoop(ts, Inv(left, m.t), m.p, maxL) ELSE Fail)
       [] tok = "[" /\ LevelIndexer <= maxL ->
            (LET r == PExpr(ts, p + 1, LevelLoosest)
             IN IF r.ok /\ Tok(ts, r.p) = "]" THEN PLoop(ts, Idx(left, r.t), r.p + 1, maxL) ELSE Fail)
       [] tok \in TypeOps /\ LevelType <= maxL ->
            (LET s == PTypeSpec(ts, p + 1, <<>>)
             IN IF s.ok THEN PLoop(ts, Ty(tok, left, s.ty), s.p, maxL) ELSE Fail)
       [] tok \in BinOps /\ tok \notin TypeOps /\ BinLevel(tok) <= maxL ->
            (* left-associative: the right operand takes strictly tighter operators only *)
            (LET r == PExpr(ts, p + 1, BinLevel(tok) - 1)
             IN IF r.ok THEN PLoop(ts, Bin(tok, left, r.t), r.p, maxL) ELSE Fail)
       [] OTHER -> Got(left, p)

NoParse == [k |-> "noparse"]
Reparse(ts) ==
  LET r == PExpr(ts, 1, LevelLoosest)
  IN IF r.ok /\ r.p = Len(ts) + 1 THEN r.t ELSE NoParse

(* ------------------------------------------------------------------ laws *)
LawMin(t)  == Reparse(RenderMin(t)) = t
LawFull(t) == Reparse(RenderFull(t)) = t
(* Every parenthesis pair RenderMin inserts is necessary: without it the   *)
(* text is another tree (or no expression).  One exemption, a quirk of the *)
(* grammar rather than of the table: the right-hand side of is/as is a     *)
(* type specifier, not an expression, so a tighter operator written        *)
(* directly after it (an indexer, a function invocation, `*` ...) can only *)
(* apply to the whole type expression: `1 is Integer[0]` is                *)
(* `(1 is Integer)[0]` and `1 is Integer * 2` is `(1 is Integer) * 2`.     *)
(* (`.name` is different: it extends the qualified type name.)  The        *)
(* renderer follows the table and parenthesises there all the same.        *)
TypeSpecQuirk(t, s) ==
  \/ s = "e" /\ t.e.k = "type" /\ (t.k = "idx" \/ (t.k = "inv" /\ t.m.k = "fn"))
  \/ s = "l" /\ t.k = "bin" /\ t.l.k = "type"
LawMinimal(t) == \A s \in ParenSlots(t) : TypeSpecQuirk(t, s) \/ Reparse(Render(t, "min", s)) # t
(* every rendered token has a lexical class *)
LawVocab(t) == \A j \in 1..Len(RenderFull(t)) : TokClass(RenderFull(t)[j]) # "unknown"

(* ------------------------------------------------------- tree inspection *)
RECURSIVE Depth(_), DepthArgs(_, _), HasUnsupported(_), AnyArg(_, _)
Max2(a, b) == IF a >= b THEN a ELSE b
DepthArgs(args, j) == IF j > Len(args) THEN 0 ELSE Max2(Depth(args[j]), DepthArgs(args, j + 1))
Depth(t) ==
  CASE t.k \in {"lit", "id", "dollar", "var"} -> 1
    [] t.k = "fn"   -> 1 + DepthArgs(t.args, 1)
    [] t.k = "inv"  -> 1 + Max2(Depth(t.e), IF t.m.k = "fn" THEN DepthArgs(t.m.args, 1) ELSE 0)
    [] t.k = "idx"  -> 1 + Max2(Depth(t.e), Depth(t.i))
    [] t.k = "pol"  -> 1 + Depth(t.e)
    [] t.k = "type" -> 1 + Depth(t.e)
    [] t.k = "bin"  -> 1 + Max2(Depth(t.l), Depth(t.r))

AnyArg(args, j) == j <= Len(args) /\ (HasUnsupported(args[j]) \/ AnyArg(args, j + 1))
HasUnsupported(t) ==
  CASE t.k \in {"lit", "id", "var"} -> FALSE
    [] t.k = "dollar" -> t.name \in UnsupportedDollars
    [] t.k = "fn"   -> AnyArg(t.args, 1)
    [] t.k = "inv"  -> HasUnsupported(t.e) \/ HasUnsupported(t.m)
    [] t.k = "idx"  -> HasUnsupported(t.e) \/ HasUnsupported(t.i)
    [] t.k = "pol"  -> HasUnsupported(t.e)
    [] t.k = "type" -> HasUnsupported(t.e)
    [] t.k = "bin"  -> t.op \in UnsupportedBinOps \/ HasUnsupported(t.l) \/ HasUnsupported(t.r)

(* the first unsupported construct, for signatures *)
RECURSIVE FirstUnsupported(_), FirstArg(_, _)
FirstArg(args, j) == IF j > Len(args) THEN "" ELSE
                       (IF HasUnsupported(args[j]) THEN FirstUnsupported(args[j]) ELSE FirstArg(args, j + 1))
FirstUnsupported(t) ==
  CASE t.k \in {"lit", "id", "var"} -> ""
    [] t.k = "dollar" -> IF t.name \in UnsupportedDollars THEN t.name ELSE ""
    [] t.k = "fn"   -> FirstArg(t.args, 1)
    [] t.k = "inv"  -> IF HasUnsupported(t.e) THEN FirstUnsupported(t.e) ELSE FirstUnsupported(t.m)
    [] t.k = "idx"  -> IF HasUnsupported(t.e) THEN FirstUnsupported(t.e) ELSE FirstUnsupported(t.i)
    [] t.k = "pol"  -> FirstUnsupported(t.e)
    [] t.k = "type" -> FirstUnsupported(t.e)
    [] t.k = "bin"  -> IF HasUnsupported(t.l) THEN FirstUnsupported(t.l)
                       ELSE IF t.op \in UnsupportedBinOps THEN t.op
                       ELSE FirstUnsupported(t.r)
=============================================================================
