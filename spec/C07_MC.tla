------------------------------- MODULE C07_MC -------------------------------
(***************************************************************************)
(* Role 1: EmptyPropagates on the abstract machine (FPEval): every          *)
(* non-aggregate function the machine models maps the empty focus to the    *)
(* empty result, comparison and equality with an empty operand are empty;   *)
(* the classification tables are well formed.  Role 2: the case generator.  *)
(***************************************************************************)
EXTENDS C07, FPEval

VARIABLES g, done       \* g: index into the implementation's function list, 0 = the operators
vars == <<g, done>>

Emit(c) == PrintT(ToJson([id |-> CaseId(c), cs |-> c, text |-> Text(c)]))

Init == g \in 0..Len(Funcs) /\ done = FALSE
Step ==
  /\ ~done /\ done' = TRUE /\ g' = g
  /\ IF g = 0 THEN \A c \in OpCases : Emit(c)
     ELSE \A c \in {x \in FnCasesOf(Funcs[g]) : ValidFnCase(x)} : Emit(c)
Next == Step
Spec == Init /\ [][Next]_vars

(* functions of the abstract machine (FPEval.CallFn) *)
MachineFns == {"where", "select", "exists", "all", "empty", "count", "first", "last", "tail", "skip", "take", "not", "iif",
               "allTrue", "anyTrue", "allFalse", "anyFalse", "extension", "children", "exclude", "distinct", "isDistinct"}
              \cup StrFns \cup MathFns \cup ToFns \cup ConvFns       \* dispatched to FPStrings, FPArith, FPConvert
EnvM == [forest |-> <<>>, sch |-> <<>>, vars |-> [none |-> <<>>]]
ArgsM(f) == CASE f \in {"where", "select", "all", "exists"} -> <<[k |-> "lit", items |-> <<B(TRUE)>>]>>
              [] f \in {"skip", "take", "exclude"} -> <<[k |-> "lit", items |-> <<I(1)>>]>>
              [] f \in {"extension"} \cup StrFns1 -> <<[k |-> "lit", items |-> <<S(<<117>>)>>]>>
              [] f = "substring" -> <<[k |-> "lit", items |-> <<I(1)>>]>>
              [] f = "replace" -> <<[k |-> "lit", items |-> <<S(<<117>>)>>], [k |-> "lit", items |-> <<S(<<118>>)>>]>>
              [] f = "iif" -> <<[k |-> "lit", items |-> <<B(TRUE)>>], [k |-> "lit", items |-> <<I(1)>>]>>
              [] OTHER -> <<>>

EmptyPropagates ==
  \A f \in MachineFns \ Aggregates :
     LET r == CallFn(f, ArgsM(f), EnvM, <<>>) IN r.k = "any" \/ (r.k = "ok" /\ r.items = <<>>)
AggregatesAnswer ==
  \A f \in (MachineFns \cap Aggregates) \ {"iif"} :
     LET r == CallFn(f, ArgsM(f), EnvM, <<>>) IN r.k = "ok" /\ Len(r.items) = 1
ComparisonPropagates ==
  \A op \in {"=", "!=", "<", "<=", ">", ">="} :
     /\ PermittedCmp(op, <<>>, <<I(1)>>) = {Ok(<<>>)}
     /\ PermittedCmp(op, <<I(1)>>, <<>>) = {Ok(<<>>)}
     /\ PermittedCmp(op, <<>>, <<>>) = {Ok(<<>>)}
TablesWellFormed ==
  /\ Aggregates \cap NotImplementedFns = {}
  /\ DOMAIN SingleValueArgs \subseteq DOMAIN Receiver
  /\ \A f \in DOMAIN Receiver : Len(Receiver[f]) >= 1
  /\ \A f \in DOMAIN SingleValueArgs : \A k \in SingleValueArgs[f] : k <= Len(Filler[f])
  /\ \A j \in 1..Len(Funcs) : Funcs[j].min <= Funcs[j].max
=============================================================================
