------------------------------ MODULE C09_Judge ------------------------------
(***************************************************************************)
(* Role 3: judge observations of the real code for property C09.           *)
(* An observation is [id, cs, src, outs, chk]: the case, the source text   *)
(* the harness compiled for the literal channel, the outcome of every      *)
(* channel (lit, env, fhir, direct, eq; [k |-> "na"] when a channel does   *)
(* not apply) and the harness's operand self-checks.                       *)
(*                                                                         *)
(* One verdict per observation.  The signature of a rejected observation   *)
(* names the operation, the operand classes (type, precision, operator,    *)
(* unit, unit class, relation of the unit to the precision, amount class), *)
(* what the specification expected (same / moved / err) and, per rejected  *)
(* channel, what was observed instead, classified against a few named      *)
(* readings (unchanged, instant-floor, minus-one) - so that each defect    *)
(* family of the code has one narrow signature and anything else is new.   *)
(***************************************************************************)
EXTENDS C09, Json, Params

CONSTANT Chunk   \* suffix of the observation file judged by this run ("" = ObsFile itself)
Obs == ndJsonDeserialize(ObsFile \o Chunk)
N == Len(Obs)
W == 16

RECURSIVE JoinNE(_)
JoinNE(s) ==   \* the non-empty strings of s, comma separated
  IF Len(s) = 0 THEN ""
  ELSE LET rest == JoinNE(Tail(s)) IN
       IF s[1] = "" THEN rest ELSE IF rest = "" THEN s[1] ELSE s[1] \o "," \o rest

Ch(name, out, ok, cls) == IF out.k = "na" \/ ok THEN "" ELSE name \o ":" \o cls

Head1(c) == c.x.t \o "|p" \o ToString(c.x.p) \o "|" \o c.op \o "|" \o c.q.unit \o "|" \o ClsOf(c.q.unit) \o "|"
            \o (IF IsTemporalUnit(c.q.unit) THEN RelOf(RankOf(c.q.unit), c.x.p) ELSE "none")
            \o (IF c.x.t # "time" THEN "" ELSE IF Wraps(c.x, c.op, c.q) \/ (c.kind = "cmp" /\ Wraps(c.x, c.op, c.q2)) THEN "|wrap" ELSE "|nowrap")

VerdictAr(o) ==
  LET c == o.cs
      P == PermittedAr(c.x, c.op, c.q)
      got == JoinNE(<<Ch("direct", o.outs.direct, AcceptValue(o.outs.direct, P), ObsClassAr(o.outs.direct, c)),
                      Ch("lit",    o.outs.lit,    AcceptValue(o.outs.lit, P),    ObsClassAr(o.outs.lit, c)),
                      Ch("env",    o.outs.env,    AcceptValue(o.outs.env, P),    ObsClassAr(o.outs.env, c)),
                      Ch("fhir",   o.outs.fhir,   AcceptValue(o.outs.fhir, P),   ObsClassAr(o.outs.fhir, c)),
                      Ch("eqr",    o.outs.eqr,    AcceptBool(o.outs.eqr, P),     ObsClassBool(o.outs.eqr))>>)
  IN [id |-> o.id, ok |-> got = "",
      sig |-> IF got = "" THEN "" ELSE "temporal|ar|" \o Head1(c) \o "|" \o AmtClass(c.q.th) \o "|exp=" \o ExpClass(P, c.x) \o "|got=" \o got,
      want |-> P]

VerdictInv(o) ==
  LET c == o.cs
      P == PermittedInv(c.x, c.op, c.q)
      got == JoinNE(<<Ch("direct", o.outs.direct, AcceptValue(o.outs.direct, P), ObsClassInv(o.outs.direct, c)),
                      Ch("lit",    o.outs.lit,    AcceptValue(o.outs.lit, P),    ObsClassInv(o.outs.lit, c)),
                      Ch("env",    o.outs.env,    AcceptValue(o.outs.env, P),    ObsClassInv(o.outs.env, c)),
                      Ch("eq",     o.outs.eq,     AcceptBool(o.outs.eq, P),      ObsClassBool(o.outs.eq))>>)
  IN [id |-> o.id, ok |-> got = "",
      sig |-> IF got = "" THEN "" ELSE "temporal|inv|" \o Head1(c) \o "|" \o AmtClass(c.q.th) \o "|exp=" \o ExpClass(P, c.x) \o "|got=" \o got,
      want |-> P]

VerdictCmp(o) ==
  LET c == o.cs
      P == PermittedCmp(c.x, c.op, c.q, c.q2)
      got == JoinNE(<<Ch("lit", o.outs.lit, AcceptBool(o.outs.lit, P), ObsClassBool(o.outs.lit)),
                      Ch("env", o.outs.env, AcceptBool(o.outs.env, P), ObsClassBool(o.outs.env))>>)
  IN [id |-> o.id, ok |-> got = "",
      sig |-> IF got = "" THEN "" ELSE "temporal|cmp|" \o Head1(c) \o "|" \o AmtClass(c.q.th) \o "<=" \o AmtClass(c.q2.th) \o "|got=" \o got,
      want |-> P]

VerdictQQ(o) ==
  LET c == o.cs
      R == QQRef(c.op, c.q, c.q2)
      got == JoinNE(<<Ch("direct", o.outs.direct, AcceptQQ(o.outs.direct, R), ObsClassQQ(o.outs.direct)),
                      Ch("lit",    o.outs.lit,    AcceptQQ(o.outs.lit, R),    ObsClassQQ(o.outs.lit)),
                      Ch("env",    o.outs.env,    AcceptQQ(o.outs.env, R),    ObsClassQQ(o.outs.env))>>)
  IN [id |-> o.id, ok |-> got = "",
      sig |-> IF got = "" THEN "" ELSE "quantity|" \o c.op \o "|" \o (IF R.same THEN "same-unit" ELSE IF R.plural THEN "plural" ELSE "other-unit")
                                       \o "|" \o ClsOf(c.q.unit) \o "," \o ClsOf(c.q2.unit) \o "|got=" \o got,
      want |-> [same |-> R.same, plural |-> R.plural, r |-> R.r]]

Verdict(o) ==
  IF ~(o.chk.x /\ o.chk.q) THEN [id |-> o.id, ok |-> FALSE, sig |-> "malformed|operand-projection", want |-> [k |-> "malformed"]]
  ELSE IF o.cs.kind \notin {"ar", "inv", "cmp", "qq"} \/ ~(o.cs.q.unit \in AllUnits /\ o.cs.q2.unit \in AllUnits)
       THEN [id |-> o.id, ok |-> FALSE, sig |-> "malformed|case", want |-> [k |-> "malformed"]]
  ELSE IF o.src # Text(o.cs) THEN [id |-> o.id, ok |-> FALSE, sig |-> "malformed|source-text", want |-> [k |-> "malformed"]]
  ELSE CASE o.cs.kind = "ar"  -> VerdictAr(o)
         [] o.cs.kind = "inv" -> VerdictInv(o)
         [] o.cs.kind = "cmp" -> VerdictCmp(o)
         [] o.cs.kind = "qq"  -> VerdictQQ(o)

VARIABLE i
Init == i \in 1..(IF N < W THEN N ELSE W) /\ PrintT(ToJson(Verdict(Obs[i])))
Next == i + W <= N /\ i' = i + W /\ PrintT(ToJson(Verdict(Obs[i'])))
Spec == Init /\ [][Next]_i
=============================================================================
