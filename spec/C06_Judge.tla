------------------------------ MODULE C06_Judge ------------------------------
(***************************************************************************)
(* Role 3: judge observations of the real code for property C06.           *)
(* An observation is [id, cs, src, out, lout, rout]: the case, the source  *)
(* compiled, the outcome of the whole expression and of each operand       *)
(* evaluated alone.  The verdict requires                                  *)
(*   (a) each operand alone denotes what the specification says the form   *)
(*       denotes (through the singleton rule), and                         *)
(*   (b) the outcome equals the K3 table applied to those denotations.     *)
(***************************************************************************)
EXTENDS C06, Json, Params

Obs == ndJsonDeserialize(ObsFile)
N == Len(Obs)
W == 16

OperandDen(out) == IF out.k = "ok" THEN Singleton3(out.items) ELSE "X"

Verdict(o) ==
  LET c == o.cs
      exp == Expected(c)
      ld == OperandDen(o.lout)
      rd == OperandDen(o.rout)
      operandsOk == ld = Den(c.l) /\ (c.ctx \notin ({"binop"} \cup PairCtx) \/ rd = Den(c.r))
      good == ~IsFailure(o.out) /\ operandsOk /\ (OutcomeIs(o.out, exp) \/ (AllMayBeFalse(c) /\ OutcomeIs(o.out, Ok(<<B(FALSE)>>))))
      sig == IF IsFailure(o.out) THEN "logic|" \o o.out.k \o "|" \o c.ctx
             ELSE IF ~operandsOk THEN "logic|operand-denotation|" \o c.l.val \o "/" \o c.l.src \o "|" \o c.r.val \o "/" \o c.r.src
             ELSE "logic|" \o c.ctx \o "|" \o c.op \o "|" \o Den(c.l) \o "," \o Den(c.r) \o "|got-" \o KindOf(o.out)
  IN [id |-> o.id, ok |-> good, sig |-> IF good THEN "" ELSE sig, want |-> exp]

VARIABLE i
Init == i \in 1..(IF N < W THEN N ELSE W) /\ PrintT(ToJson(Verdict(Obs[i])))
Next == i + W <= N /\ i' = i + W /\ PrintT(ToJson(Verdict(Obs[i'])))
Spec == Init /\ [][Next]_i
=============================================================================
