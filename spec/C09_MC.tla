------------------------------- MODULE C09_MC -------------------------------
(***************************************************************************)
(* Exploration of the C09 case space.  One behaviour per case: the initial *)
(* state is a case awaiting evaluation, the single step evaluates it in    *)
(* the specification and emits it (role 2, generator).  The laws of        *)
(* FPTemporal are invariants (role 1); every Mutant of FPTemporal must     *)
(* violate one of them.                                                    *)
(*                                                                         *)
(* Tier "model":    a bounded pool (every type x precision x offset, month *)
(*                  ends, leap day, midnight) x units x the 17 amounts     *)
(*      "quick":    month ends + 1st/15th of the 4-year cycle and the      *)
(*                  0001/9999 edges for the calendar units, the pool above *)
(*                  for the unit x precision x amount cross, the inverse   *)
(*                  and monotonicity programs, quantity op quantity        *)
(*      "thorough": + every day of the cycle for Date, a 60-day window x 6 *)
(*                  times of day for DateTime (the rest is sampled by      *)
(*                  C09_Sim)                                               *)
(***************************************************************************)
EXTENDS C09, Json

CONSTANT Tier

VARIABLES cs, res

Ar(x, op, q)       == [kind |-> "ar",  x |-> x, op |-> op, q |-> q, q2 |-> q]
Inv(x, op, q)      == [kind |-> "inv", x |-> x, op |-> op, q |-> q, q2 |-> q]
Cmp(x, op, q, q2)  == [kind |-> "cmp", x |-> x, op |-> op, q |-> q, q2 |-> q2]
QQ(op, q, q2)      == [kind |-> "qq",  x |-> MkDate(1, 2000, 1, 1), op |-> op, q |-> q, q2 |-> q2]
Ops == {"+", "-"}

(************************* the bounded pool of values *********************)
BDates   == {<<2020, 1, 31>>, <<2020, 2, 29>>, <<2019, 12, 31>>, <<2021, 3, 1>>}
BDtDates == {<<2020, 2, 29>>, <<2019, 12, 31>>}
DateForms == {MkDate(p, c[1], c[2], c[3]) : p \in 1..3, c \in BDates}
DtForms   == {MkDT(w[1], w[2][1], w[2][2], w[2][3], w[3], w[4]) :
                w \in {v \in (1..7) \X BDtDates \X {T0, TEnd, TMid} \X Offsets :
                          /\ (v[4] # NoOff => v[3] = TMid /\ v[2] = <<2020, 2, 29>>)
                          /\ (v[3] = T0 => v[2] = <<2020, 2, 29>>) /\ (v[3] = TEnd => v[2] = <<2019, 12, 31>>)}}
TimeForms == {MkTime(p, ms) : p \in 4..7, ms \in {T0, TEnd, TMid, T8}}
BForms == DateForms \cup DtForms \cup TimeForms

ModelUnits == Kw1Units \cup {"months", "mo", "milliseconds", "mg"}
ModelCases(z) == {Ar(x, op, Qty(a, u)) : x \in BForms, op \in Ops, u \in ModelUnits, a \in Amounts}

(***************************** the quick tier *****************************)
UnitAmounts ==
  {<<u, a>> : u \in Kw1Units, a \in Amounts} \cup {<<u, a>> : u \in KwNUnits, a \in {1000, 25000, 1500, -13000}}
  \cup {<<u, a>> : u \in UcumUnits, a \in {1000, -1000}} \cup {<<"mg", 1000>>, <<"kg", 0>>, <<"cm", -1000>>}
CrossCases(z) == {Ar(x, op, Qty(ua[2], ua[1])) : x \in BForms, op \in Ops, ua \in UnitAmounts}

(* calendar sweep: Date at day precision over the marked days of the cycle and the edges *)
DateUnitAmounts ==
  {<<u, a>> : u \in {v \in Kw1Units : RankOf(v) \in DateRanks}, a \in {1000, 12000, 13000, 365000, 366000, 1500, -1000, -13000}}
  \cup {<<u, a>> : u \in {v \in KwNUnits : RankOf(v) \in DateRanks}, a \in {1000, -1000}}
SweepDays == CycleDays \cup EdgeDays
DateSweep(z) == {Ar(MkDate(3, c[1], c[2], c[3]), op, Qty(ua[2], ua[1])) : c \in SweepDays, op \in Ops, ua \in DateUnitAmounts}
MonthSweep(z) == {Ar(MkDate(2, ym[1], ym[2], 1), op, Qty(a, u)) : ym \in CycleMonths, op \in Ops, u \in {"month", "days"}, a \in Amounts}
DtSweep(z) == {Ar(MkDT(6, c[1], c[2], c[3], TMid, [tz |-> TRUE, off |-> 330]), op, Qty(a, u)) :
              c \in SweepDays, op \in Ops, u \in {"year", "months", "day"}, a \in {1000, 12000, 13000, 365000, -1000}}

(* the conversion boundaries that need amounts beyond 1000: 30 days and 365 days in hours and minutes *)
BoundaryUnitAmounts ==
  {<<"hours", 719000>>, <<"hours", 720000>>, <<"hour", 8759000>>, <<"hours", 8760000>>, <<"hours", 8784000>>,
   <<"minutes", 43199000>>, <<"minutes", 43200000>>, <<"minute", 525599000>>, <<"minutes", 525600000>>,
   <<"days", 29000>>, <<"days", 30000>>, <<"days", 364000>>, <<"weeks", 52000>>, <<"weeks", 53000>>,
   <<"seconds", 86399000>>, <<"seconds", 86400000>>, <<"milliseconds", 1000000>>, <<"millisecond", 999000>>}
BoundaryCases(z) == {Ar(x, op, Qty(ua[2], ua[1])) : x \in {f \in DateForms \cup DtForms : f.p <= 3 \/ f.p = 6}, op \in Ops, ua \in BoundaryUnitAmounts}

InvCases(z) == {Inv(x, op, Qty(a, u)) : x \in BForms, op \in Ops, u \in Kw1Units, a \in {1000, 25000, 1500, -1000}}
CmpPairs == {<<0, 1000>>, <<23000, 24000>>, <<59000, 60000>>, <<365000, 366000>>, <<-1000, 0>>, <<-13000, -1000>>}
CmpOpPairs == {<<"+", pr>> : pr \in CmpPairs} \cup {<<"-", pr>> : pr \in {<<0, 1000>>, <<24000, 25000>>}}
CmpCases(z) == {Cmp(x, op[1], Qty(op[2][1], u), Qty(op[2][2], u)) : x \in BForms, u \in Kw1Units, op \in CmpOpPairs}

QQUnitPairs ==
  {<<u, u>> : u \in AllUnits}
  \cup {uv \in Kw1Units \X KwNUnits : RankOf(uv[1]) = RankOf(uv[2])}
  \cup {uv \in KwNUnits \X Kw1Units : RankOf(uv[1]) = RankOf(uv[2])}
  \cup {<<"year", "month">>, <<"days", "hours">>, <<"mg", "kg">>, <<"a", "mo">>, <<"d", "h">>, <<"cm", "mg">>,
        <<"s", "ms">>, <<"week", "days">>, <<"mg", "year">>, <<"second", "milliseconds">>}
QQAmountPairs == {<<1000, 1000>>, <<1000, 2500>>, <<2500, 1000>>, <<-1000, 1000>>, <<0, 0>>, <<1500, 1500>>, <<100, 200>>}
QQOps == {"+", "-", "=", "!=", "<", "<=", ">", ">="}
QQCases(z) == {QQ(op, Qty(ap[1], up[1]), Qty(ap[2], up[2])) : op \in QQOps, up \in QQUnitPairs, ap \in QQAmountPairs}


(**************************** the thorough tier ****************************)
FullDateSweep(z) == {Ar(MkDate(3, c[1], c[2], c[3]), op, Qty(a, u)) :
                    c \in AllCycleDays, op \in Ops, u \in {"year", "months", "week", "days"}, a \in Amounts}
(* 60-day window around the leap day x 6 times of day *)
WindowDays == {c \in AllCycleDays : DayNum(c[1], c[2], c[3]) \in DayNum(2020, 1, 15)..(DayNum(2020, 1, 15) + 59)}
WindowCases(z) == {Ar(MkDT(7, c[1], c[2], c[3], ms, [tz |-> TRUE, off |-> -660]), op, Qty(a, u)) :
                  c \in WindowDays, ms \in DayTimes, op \in Ops, u \in {"month", "days", "hours", "minute", "seconds"},
                  a \in {1000, 24000, 25000, 61000, 1500, -13000}}
TimeWindow(z) == {Ar(MkTime(p, ms), op, Qty(a, u)) : p \in 4..7, ms \in DayTimes, op \in Ops,
                  u \in {"hour", "minutes", "second", "millisecond"}, a \in Amounts}

(* big sets take a dummy parameter: TLC evaluates zero-arity constant definitions eagerly at *)
(* start-up, and the union of big sets is quadratic; Init enumerates each family separately  *)
InCases(c) ==
  \/ Tier = "model" /\ c \in ModelCases(0)
  \/ Tier \in {"quick", "thorough"} /\ (\/ c \in CrossCases(0) \/ c \in DateSweep(0) \/ c \in MonthSweep(0) \/ c \in DtSweep(0)
                                        \/ c \in InvCases(0) \/ c \in CmpCases(0) \/ c \in QQCases(0) \/ c \in BoundaryCases(0))
  \/ Tier = "thorough" /\ (c \in FullDateSweep(0) \/ c \in WindowCases(0) \/ c \in TimeWindow(0))

(******************************* the machine *******************************)
Init == InCases(cs) /\ res = [k |-> "pending"]

Expected(c) ==
  CASE c.kind = "ar"  -> PermittedAr(c.x, c.op, c.q)
    [] c.kind = "inv" -> PermittedInv(c.x, c.op, c.q)
    [] c.kind = "cmp" -> PermittedCmp(c.x, c.op, c.q, c.q2)
    [] c.kind = "qq"  -> LET R == QQRef(c.op, c.q, c.q2) IN Perm(FALSE, ~R.same, ~R.same, {}, {})

Evaluate ==
  /\ res.k = "pending"
  /\ res' = [k |-> "done", p |-> Expected(cs)]
  /\ cs' = cs
  /\ PrintT(ToJson(Emit(cs)))

Next == Evaluate
Spec == Init /\ [][Next]_<<cs, res>>

(********************************* laws ************************************)
x == cs.x
rank == RankOf(cs.q.unit)
th == cs.q.th
sg == SignOf(cs.op)
Applies == res.k = "done" /\ cs.kind = "ar" /\ IsTemporalUnit(cs.q.unit) /\ ~TimeHasNoUnit(x, rank)
R == Results(x, cs.op, rank, th)
InR == {r.v : r \in {rr \in R : ~rr.oob}}

(* the result has x's type, precision and offset, and is a well-formed value *)
TypePreserved ==
  /\ (res.k = "done" /\ cs.kind # "qq" => WellFormed(x))
  /\ (Applies => \A v \in InR : /\ WellFormed(v) /\ v.t = x.t /\ v.p = x.p
                               /\ (x.t = "dt" => v.tz = x.tz /\ v.off = x.off))

(* a week is seven days *)
WeekIsSevenDays ==
  Applies /\ rank = "week" => R = Results(x, cs.op, "day", 7 * WholeAmt(th) * 1000)

(* years and months: the result lies in the target month, on x's day or on  *)
(* the last day of that month, at x's time of day                           *)
ClampToMonthEnd ==
  Applies /\ x.t # "time" /\ x.p >= 3 /\ rank \in {"year", "month"} =>
    \A v \in InR : /\ MonthIndex(v.y, v.mo) = MonthIndex(x.y, x.mo) + sg * (IF rank = "year" THEN 12 ELSE 1) * WholeAmt(th)
                   /\ v.d = (IF x.d <= MonthLen(v.y, v.mo) THEN x.d ELSE MonthLen(v.y, v.mo))
                   /\ XMs(v) = XMs(x)

(* a whole amount of a unit that is not finer than the precision moves the   *)
(* value by exactly that many units (Time: modulo 24 h)                      *)
RankMs(r) == CASE r = "hour" -> 3600000 [] r = "minute" -> 60000 [] r = "second" -> 1000 [] r = "ms" -> 1
ExactUnits ==
  Applies /\ RelOf(rank, x.p) # "finer" /\ th % 1000 = 0 /\ ~Primary(x, cs.op, rank, th).oob =>
    LET v == Primary(x, cs.op, rank, th).v
        a == WholeAmt(th)
    IN CASE rank \in {"year", "month"} ->
              MonthIndex(v.y, v.mo) - MonthIndex(x.y, x.mo) = sg * a * (IF rank = "year" THEN 12 ELSE 1)
         [] rank \in {"week", "day"} -> XDay(v) - XDay(x) = sg * a * (IF rank = "week" THEN 7 ELSE 1) /\ XMs(v) = XMs(x)
         [] OTHER ->
              LET u == UnitMs(x.p)
                  perDay == DayMs \div u
                  want == sg * a * (RankMs(rank) \div u)
                  got == (XDay(v) - XDay(x)) * perDay + (XMs(v) - XMs(x)) \div u
              IN AbsInt(a) > 2000000000 \div (RankMs(rank) \div u)   \* beyond 32 bits: not checked
                 \/ /\ (XMs(v) - XMs(x)) % u = 0
                    /\ (IF x.t = "time" THEN (got - want) % perDay = 0 ELSE got = want)

(* monotone in the amount (Date and DateTime; a Time wraps) *)
Monotone ==
  Applies /\ x.t # "time" =>
    \A th2 \in {t2 \in Amounts : t2 >= th} : \A mode \in {"trunc", "floor"} :
       LET r1 == Shift(x, sg, Delta(mode, x.p, rank, th))
           r2 == Shift(x, sg, Delta(mode, x.p, rank, th2))
       IN ~r1.oob /\ ~r2.oob => IF cs.op = "+" THEN LeItem(r1.v, r2.v) ELSE LeItem(r2.v, r1.v)

(* Time wraps around midnight: 24 hours more change nothing *)
DayOfRank(r) == CASE r = "hour" -> 24000 [] r = "minute" -> 1440000 [] r = "second" -> 86400000
TimeWraps ==
  Applies /\ x.t = "time" =>
    /\ \A r \in R : ~r.oob /\ XMs(r.v) \in 0..(DayMs - 1)
    /\ (rank \in {"hour", "minute", "second"} /\ th >= 0 => R = Results(x, cs.op, rank, th + DayOfRank(rank)))

(* (x + q) - q = x whenever no month-end clamping or truncation occurs *)
Inverse ==
  Applies /\ Exact(x, rank, th) =>
    LET P == PermittedInv(x, cs.op, cs.q) IN ~P.any => P.items = {x} /\ P.bools = {TRUE}

(* finer units convert to whole units of the precision: unchanged below one unit *)
FinerBelowOneUnit ==
  Applies /\ RelOf(rank, x.p) = "finer" /\ th = 1000 /\ ~(rank = "month" /\ x.p = 1) =>
    (rank \in {"week", "day", "hour", "minute", "second", "ms"} => R = {InRange(x)})

(* the worked examples of the property text and of Appendix F *)
D3(y, m, d) == MkDate(3, y, m, d)
One1(xx, op, u, a) == Results(xx, op, RankOf(u), a)
Examples ==
  /\ One1(D3(2020, 1, 1), "+", "hours", 25000) = {InRange(D3(2020, 1, 2))}
  /\ One1(D3(2020, 1, 31), "+", "month", 1000) = {InRange(D3(2020, 2, 29))}
  /\ One1(D3(2020, 2, 29), "+", "year", 1000) = {InRange(D3(2021, 2, 28))}
  /\ One1(D3(2020, 3, 31), "-", "month", 1000) = {InRange(D3(2020, 2, 29))}
  /\ One1(D3(2020, 1, 31), "+", "week", 1000) = {InRange(D3(2020, 2, 7))}
  /\ One1(MkTime(4, T8), "+", "hours", 2000) = {InRange(MkTime(4, 36000000))}
  /\ One1(MkTime(5, T2330), "+", "hour", 1000) = {InRange(MkTime(5, 1800000))}
  /\ One1(MkTime(5, 30600000), "+", "seconds", 90000) = {InRange(MkTime(5, 30660000))}
  /\ One1(MkDT(4, 2020, 1, 1, 36000000, NoOff), "-", "hours", 2000) = {InRange(MkDT(4, 2020, 1, 1, T8, NoOff))}
  /\ One1(MkDate(1, 2020, 1, 1), "+", "days", 365000) = {InRange(MkDate(1, 2021, 1, 1))}
  /\ One1(MkDate(1, 2020, 1, 1), "+", "days", 364000) = {InRange(MkDate(1, 2020, 1, 1))}
  /\ One1(MkDate(2, 2020, 1, 1), "+", "days", 30000) = {InRange(MkDate(2, 2020, 2, 1))}
  /\ One1(MkDate(2, 2020, 1, 1), "-", "days", 29000) = {InRange(MkDate(2, 2020, 1, 1))}
  /\ One1(MkDate(1, 1997, 1, 1), "+", "months", 23000) = {InRange(MkDate(1, 1998, 1, 1))}
  /\ One1(D3(2002, 4, 19), "+", "months", 2500) = {InRange(D3(2002, 6, 19))}
  /\ One1(D3(9999, 12, 31), "+", "day", 1000) = {OutOfRange(D3(9999, 12, 31))}
  /\ One1(D3(1, 1, 1), "-", "day", 1000) = {OutOfRange(D3(1, 1, 1))}
  /\ One1(MkDT(3, 2020, 1, 31, 0, NoOff), "+", "hours", -25000)
        = {InRange(MkDT(3, 2020, 1, 30, 0, NoOff)), InRange(MkDT(3, 2020, 1, 29, 0, NoOff))}
  /\ One1(MkDT(7, 2019, 12, 31, TEnd, [tz |-> TRUE, off |-> 330]), "+", "millisecond", 1000)
        = {InRange(MkDT(7, 2020, 1, 1, 0, [tz |-> TRUE, off |-> 330]))}
  /\ QArith("+", 1000, "year", 1500, "year") = [k |-> "q", val |-> DMake(FALSE, <<25>>, -1), unit |-> "year"]
  /\ QArith("+", 1000, "year", 1000, "years").k = "none"
  /\ QCompare("<", 1000, "mg", 2500, "mg") = [k |-> "b", b |-> TRUE]
=============================================================================
