------------------------------ MODULE C08_Judge ------------------------------
(***************************************************************************)
(* Role 3: judge observations of the real code for property C08.           *)
(* An observation is [id, cs, text, ltext, rtext, out, lout, rout]: the    *)
(* case, the source texts compiled, the outcome of the whole expression    *)
(* and of each operand evaluated alone.  The verdict requires              *)
(*   (m) the record is well formed and its texts are the specification's   *)
(*       rendering of the case (otherwise "malformed|..." : machinery),    *)
(*   (a) each operand alone denotes the number the case says it is         *)
(*       (value and Integer/Decimal kind; FHIR sources yield the element), *)
(*   (b) the outcome is permitted by the relational definitions of         *)
(*       FPArith (C08!Permitted).                                          *)
(* A case whose function is rejected by Compile for its arity (round(p) on *)
(* the unchanged tree; that is property C16) is skipped: ok, why = "skip". *)
(* `want` is the constructive witness, self-checked against the relations  *)
(* before it is proposed.                                                  *)
(***************************************************************************)
EXTENDS C08, Json, Params

Obs == ndJsonDeserialize(ObsFile)
N == Len(Obs)
W == 16

NoWant == [k |-> "none"]

OperandDenotes(o, out) ==
  /\ out.k = "ok"
  /\ Len(out.items) = 1
  /\ LET x == out.items[1]
         y == IF x.t = "el" THEN x.v ELSE x
     IN /\ y.t \in {"i", "d"}
        /\ (y.t = "i") = (o.t = "i")
        /\ DEq(NumOfItem(y).d, NumOf(o).d)
        /\ (o.src \in {"pb", "res"}) = (x.t = "el")
        /\ x.t = "el" => x.ft = o.ft

(* operand classes of a signature: Integer (MinInt32 apart), Decimal with at *)
(* most / more than 15 significant digits (what a float64 holds exactly),   *)
(* and whether the operand is a FHIR element rather than a System value     *)
Cls(o) ==
  (IF o.t = "i" THEN (IF o.i = MinInt32 THEN "minint" ELSE "int")
   ELSE IF NDigits(DecOf(o).m) > 15 THEN "dec>15" ELSE "dec")
    \o (IF o.src \in {"pb", "res"} THEN "/fhir" ELSE "")
OpCls(c) == IF c.op \in BinOps THEN Cls(c.l) \o "," \o Cls(c.r) ELSE Cls(c.l)

DTwo63 == DMake(FALSE, NFromDigits(<<9,2,2,3,3,7,2,0,3,6,8,5,4,7,7,5,8,0,8>>), 0)     \* 2^63

(* what the property demands for the case: a value, empty for a zero divisor, *)
(* empty for a result that does not fit (for `div` apart: a quotient that     *)
(* does not even fit 64 bits), an error/empty for a negative precision        *)
Situation(c, w) ==
  IF c.op \in {"/", "div", "mod"} /\ DIsZero(NumOf(c.r).d) THEN "zero-divisor"
  ELSE IF c.op = "roundp" /\ c.p < 0 THEN "negative-precision"
  ELSE IF c.op = "div" /\ w.k = "none" /\ DLe(DMul(DTwo63, DAbs(NumOf(c.r).d)), DAbs(NumOf(c.l).d)) THEN "overflow-int64"
  ELSE IF w.k = "none" THEN "overflow"
  ELSE "value"

(* |v - x| <= |x| * 10^-9 *)
Near(v, x) == DLe(DAbs(DSub(v, x)), DMul(DAbs(x), DPow10(-9)))

Got(c, out, w) ==
  IF out.k # "ok" THEN "got-" \o out.k
  ELSE IF Len(out.items) = 0 THEN "got-empty"
  ELSE IF Len(out.items) > 1 THEN "got-multi"
  ELSE LET x == out.items[1]
       IN IF ~IsNumberItem(x) THEN "got-" \o x.t
          ELSE LET v == NumOfItem(x)
                   isMin == v.int /\ DEq(v.d, DInt32Min)
               IN IF w.k = "none" THEN (IF isMin THEN "got-minint" ELSE IF DIsZero(v.d) THEN "got-zero" ELSE "got-value")
                  ELSE IF DEq(v.d, w.d) THEN (IF v.int THEN "got-integer-type" ELSE "got-decimal-type")
                  ELSE IF isMin THEN "got-minint"
                  ELSE IF DIsIntegral(w.d) /\ DEq(DAbs(DSub(v.d, w.d)), DOne) THEN "got-off-by-one"
                  ELSE IF Near(v.d, w.d) THEN "got-near"
                  ELSE IF DIsZero(v.d) THEN "got-zero"
                  ELSE "got-far"

Verdict(o) ==
  LET c == o.cs
      bin == c.op \in BinOps
  IN IF ~CaseOk(c) THEN [id |-> o.id, ok |-> FALSE, sig |-> "malformed|case", why |-> "malformed", want |-> NoWant]
     ELSE IF o.text # Text(c) \/ o.ltext # OperandText(c.l, 1) \/ o.rtext # OperandText(c.r, 2)
       THEN [id |-> o.id, ok |-> FALSE, sig |-> "malformed|text", why |-> "malformed", want |-> NoWant]
     ELSE IF c.op = "roundp" /\ o.out.k = "cerr"
       THEN [id |-> o.id, ok |-> TRUE, sig |-> "", why |-> "skip", want |-> NoWant]
     ELSE IF ~OperandDenotes(c.l, o.lout) \/ (bin /\ ~OperandDenotes(c.r, o.rout))
       THEN [id |-> o.id, ok |-> FALSE, why |-> "operand", want |-> NoWant,
             sig |-> "arith|operand-denotation|" \o (IF ~OperandDenotes(c.l, o.lout) THEN Cls(c.l) \o "/" \o c.l.src ELSE Cls(c.r) \o "/" \o c.r.src)]
     ELSE IF Permitted(c, o.out)
       THEN [id |-> o.id, ok |-> TRUE, sig |-> "", why |-> "outcome", want |-> NoWant]
     ELSE LET w == Witness(c)
          IN IF ~WitnessOkW(c, w)
               THEN [id |-> o.id, ok |-> FALSE, sig |-> "malformed|witness-self-check", why |-> "malformed", want |-> NoWant]
               ELSE [id |-> o.id, ok |-> FALSE, why |-> "outcome", want |-> WitnessOutcome(w),
                     sig |-> "arith|" \o c.op \o "|" \o OpCls(c) \o "|" \o Situation(c, w) \o "|" \o Got(c, o.out, w)]

VARIABLE i
Init == i \in 1..(IF N < W THEN N ELSE W) /\ PrintT(ToJson(Verdict(Obs[i])))
Next == i + W <= N /\ i' = i + W /\ PrintT(ToJson(Verdict(Obs[i'])))
Spec == Init /\ [][Next]_i
=============================================================================
