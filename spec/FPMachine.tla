------------------------------ MODULE FPMachine ------------------------------
(***************************************************************************)
(* The whole abstract machine, run on programs that mix every modelled     *)
(* part of the language: navigation (FPNav), collection functions and      *)
(* Boolean logic (FPEval, FPLogic), equality and ordering (FPCompare),     *)
(* arithmetic (FPArith), string functions (FPStrings), conversions         *)
(* (FPConvert) and the type operators (FPTypes).                           *)
(*                                                                         *)
(* A PROGRAM is grown step by step from a start expression; every step     *)
(* wraps the expression built so far in ONE more operation and is tagged   *)
(* with the property that states the semantics of that operation.  The     *)
(* steps offered depend on the value the machine itself computes for the   *)
(* expression so far (type-directed growth), so that most programs stay    *)
(* inside the part of the language where the reference modules fix one     *)
(* answer.  The real interpreter evaluates the rendering of every          *)
(* expression of the chain; FPMachine_Judge compares with Eval of the very *)
(* same tree.  A disagreement is charged to the property of the first step *)
(* of the chain at which the implementation and the machine part company.  *)
(***************************************************************************)
EXTENDS FPEval, Json, Params

MR == JsonDeserialize(ModelFile)            \* annotated trees of MR1..MR4
Sch == JsonDeserialize(ModelSchemaFile)
Kinds == JsonDeserialize(TypesFile)         \* FHIR type name -> "resource" | "complex" | "prim"
Forest == <<MR.MR1, MR.MR4, MR.MR2>>
(* every program is evaluated on TWO input resources, the Patient MR1 and the Observation MR2 (choice-typed values of  *)
(* several types, a Quantity, an instant, a bound code); a path starts with the type name that selects one of them     *)
Input == <<RefOf(Forest, 1, <<>>), RefOf(Forest, 3, <<>>)>>

Dec(neg, coef, e) == DItem(DMake(neg, NFromInt(coef), e))      \* small coefficients only
Cp(str) == str                                                  \* code points are written out below

Smith == <<83, 109, 105, 116, 104>>
John == <<74, 111, 104, 110>>
Official == <<111, 102, 102, 105, 99, 105, 97, 108>>

(* environment collections (the harness receives them from the generator, so both sides hold the same values) *)
Vars == [ints  |-> <<I(1), I(2), I(2), I(3)>>,
         mixed |-> <<I(1), S(<<97>>), Dec(FALSE, 1, 0), I(2), S(<<97>>)>>,
         none  |-> <<>>,
         decs  |-> <<Dec(FALSE, 15, -1), Dec(TRUE, 5, -1), Dec(FALSE, 225, -2), Dec(FALSE, 2, 0)>>,
         strs  |-> <<S(Smith), S(<<115, 109, 105, 116, 104>>), S(<<>>), S(<<74, 111>>), S(<<49, 50>>), S(<<116, 114, 117, 101>>)>>,
         \* non-ASCII text: e-acute (2 bytes), euro sign (3 bytes), an emoji (4 bytes), a combining accent
         uni   |-> <<S(<<233>>), S(<<233, 8364>>), S(<<97, 128512, 98>>), S(<<101, 769>>), S(<<8364, 233, 8364>>)>>,
         uni1  |-> <<S(<<97, 233, 8364, 128512>>)>>,
         pat   |-> <<S(<<233, 8364>>)>>,
         digits |-> <<S(<<57, 57, 57, 57, 57, 57, 57, 57, 57, 57, 57>>)>>,      \* '99999999999'
         looks |-> <<I(1), S(<<49>>), B(TRUE), S(<<116, 114, 117, 101>>), Dec(FALSE, 1, 0), S(<<49, 46, 48>>), I(1)>>,
         seven |-> <<I(7)>>,
         big   |-> <<I(2147483647)>>,
         min   |-> <<I(-2147483647 - 1)>>,
         half  |-> <<DItem(DMake(FALSE, <<6475, 7483, 214>>, -1))>>,       \* 2147483647.5
         neg   |-> <<I(-4)>>,
         \* Booleans (the other inputs flip a single Boolean: a compiled `%tt and x` reused with the opposite binding)
         alt   |-> <<I(1), Dec(FALSE, 25, -1), I(3), Dec(FALSE, 5, -1), I(2)>>,      \* Integer and Decimal items alternating
         tt    |-> <<B(TRUE)>>,
         ff    |-> <<B(FALSE)>>,
         tf    |-> <<B(TRUE), B(FALSE)>>,
         \* the replacement character itself (a genuine code point, 3 bytes; decoders return it for invalid input too)
         repl  |-> <<S(<<65533>>), S(<<97, 65533, 98>>), S(<<65533, 65533>>), S(<<65532, 65533, 65534>>)>>]
Env == [forest |-> Forest, sch |-> Sch, vars |-> Vars, kinds |-> Kinds]

(* The OTHER inputs: every compiled program is evaluated a second time, reused, on the twin patient MR4 alone and with  *)
(* every environment collection changed - several items: reversed and the last one dropped; one Integer: a number on    *)
(* the other side of zero (7: the Decimal 2.5); one String: a letter appended; anything else: the Integer 5; none: the Integer 1.            *)
OtherOf(c) ==
  IF Len(c) > 1 THEN [j \in 1..(Len(c) - 1) |-> c[Len(c) - j]]
  ELSE IF Len(c) = 0 THEN <<I(1)>>
  ELSE CASE c[1].t = "i" /\ c[1].i = 7 -> <<Dec(FALSE, 25, -1)>>       \* another TYPE, not only another value
         [] c[1].t = "i" -> <<I(IF c[1].i > 0 THEN 0 - (c[1].i \div 2) - 1 ELSE 0 - (c[1].i \div 2) + 11)>>
         [] c[1].t = "s" -> <<S(c[1].cp \o <<122>>)>>
         [] c[1].t = "b" -> <<B(~c[1].b)>>
         [] OTHER -> <<I(5)>>
VarsB == [n \in DOMAIN Vars |-> OtherOf(Vars[n])]
EnvB == [forest |-> Forest, sch |-> Sch, vars |-> VarsB, kinds |-> Kinds]
InputB == <<RefOf(Forest, 2, <<>>)>>

(****************************** constructors *******************************)
RootE(n) == [k |-> "root", name |-> n]
Fld(in, n) == [k |-> "field", in |-> in, name |-> n]
Ix(in, i) == [k |-> "idx", in |-> in, i |-> i]
Lit(txt, x) == [k |-> "lit", items |-> <<x>>, txt |-> txt]
LitE == [k |-> "lit", items |-> <<>>, txt |-> "{}"]
Var(n) == [k |-> "var", name |-> n]
Call(in, f, args) == [k |-> "call", in |-> in, f |-> f, args |-> args]
Bin(op, l, r) == [k |-> "bin", op |-> op, l |-> l, r |-> r]
Neg(in) == [k |-> "neg", in |-> in]
TypeOpE(op, in, ns, name) == [k |-> "typeop", op |-> op, in |-> in, ns |-> ns, name |-> name]
Pat == RootE("Patient")
Obn == RootE("Observation")

(******************************** literals *********************************)
(* A literal node carries its source text; that the text denotes the item   *)
(* is itself checked: every literal is emitted as a program of its own.     *)
IntLits == {Lit("0", I(0)), Lit("1", I(1)), Lit("2", I(2)), Lit("3", I(3)), Lit("7", I(7)), Lit("10", I(10)),
            Lit("2147483647", I(2147483647)), Lit("65536", I(65536)), Lit("65535", I(65535)), Lit("46341", I(46341))}
DecLits == {Lit("0.5", Dec(FALSE, 5, -1)), Lit("1.0", Dec(FALSE, 1, 0)), Lit("2.5", Dec(FALSE, 25, -1)), Lit("0.0", Dec(FALSE, 0, 0)),
            Lit("2.0", Dec(FALSE, 2, 0)), Lit("7.00", Dec(FALSE, 7, 0)),
            Lit("2147483647.5", DItem(DMake(FALSE, <<6475, 7483, 214>>, -1))), Lit("0.25", Dec(FALSE, 25, -2))}
NumLits == IntLits \cup DecLits
StrLits == {Lit("'Smith'", S(Smith)), Lit("'S'", S(<<83>>)), Lit("'mi'", S(<<109, 105>>)), Lit("'th'", S(<<116, 104>>)),
            Lit("''", S(<<>>)), Lit("'x'", S(<<120>>)), Lit("'John'", S(John)), Lit("'Jo'", S(<<74, 111>>)),
            Lit("'official'", S(Official)), Lit("'o'", S(<<111>>)), Lit("'1'", S(<<49>>)), Lit("'true'", S(<<116, 114, 117, 101>>)),
            Lit("'12'", S(<<49, 50>>)), Lit("'1.5'", S(<<49, 46, 53>>)), Lit("'1980-02-29'", S(<<49, 57, 56, 48, 45, 48, 50, 45, 50, 57>>)),
            Lit("'99999999999'", S(<<57, 57, 57, 57, 57, 57, 57, 57, 57, 57, 57>>)), Lit("'1980-02-30'", S(<<49, 57, 56, 48, 45, 48, 50, 45, 51, 48>>)),
            Lit("'2020-13'", S(<<50, 48, 50, 48, 45, 49, 51>>)), Lit("'T'", S(<<84>>)), Lit("'-0'", S(<<45, 48>>)), Lit("'+1'", S(<<43, 49>>)),
            Lit("'1980-02-29T13:30:00+05:30'", S(<<49,57,56,48,45,48,50,45,50,57,84,49,51,58,51,48,58,48,48,43,48,53,58,51,48>>)),
            Lit("'25:00'", S(<<50, 53, 58, 48, 48>>)), Lit("'10:30'", S(<<49, 48, 58, 51, 48>>))}
(* arguments that are not literals: environment collections and negated literals *)
StrArgs == StrLits \cup {Var("pat"), Var("uni1"), Call(Var("uni"), "first", <<>>), Call(Var("uni"), "last", <<>>)}
IntArgs == {Lit(ToString(j), I(j)) : j \in 0..4} \cup {Lit("2147483647", I(2147483647)), Neg(Lit("1", I(1))), Neg(Lit("2147483647", I(2147483647))), Var("min"), Var("big")}
BoolLits == {Lit("true", B(TRUE)), Lit("false", B(FALSE))}
DateI(p, y, mo, d) == [t |-> "date", p |-> p, y |-> y, mo |-> mo, d |-> d]
DateLits == {Lit("@1980-02-29", DateI(3, 1980, 2, 29)), Lit("@1980-03", DateI(2, 1980, 3, 1)), Lit("@1980", DateI(1, 1980, 1, 1)),
             Lit("@2010-01", DateI(2, 2010, 1, 1))}
DtI(p, y, mo, d, h, mi, sec, ms, tz, off) ==
  [t |-> "dt", p |-> p, y |-> y, mo |-> mo, d |-> d, h |-> h, mi |-> mi, sec |-> sec, ms |-> ms, fd |-> IF p = 7 THEN 3 ELSE 0, tz |-> tz, off |-> off]
TimeI(p, h, mi, sec, ms) == [t |-> "time", p |-> p, h |-> h, mi |-> mi, sec |-> sec, ms |-> ms, fd |-> IF p = 7 THEN 3 ELSE 0]
DtLits == {Lit("@2015-02-04T14:34:28+09:00", DtI(6, 2015, 2, 4, 14, 34, 28, 0, TRUE, 540)),
           Lit("@2015-02-04T14:34:28.123Z", DtI(7, 2015, 2, 4, 14, 34, 28, 123, TRUE, 0)),
           Lit("@2015-02-04T05:34:28Z", DtI(6, 2015, 2, 4, 5, 34, 28, 0, TRUE, 0)),
           Lit("@2015-02-04T14:34", DtI(5, 2015, 2, 4, 14, 34, 0, 0, FALSE, 0)),
           Lit("@1980-02-29T13:30:00+05:30", DtI(6, 1980, 2, 29, 13, 30, 0, 0, TRUE, 330))}
TimeLits == {Lit("@T10:30", TimeI(5, 10, 30, 0, 0)), Lit("@T10:30:15.500", TimeI(7, 10, 30, 15, 500)), Lit("@T23:59:59", TimeI(6, 23, 59, 59, 0))}
(* quantity literals with calendar keyword units (th = the amount in thousandths, u = the unit as a string) *)
QLit(txt, th, coef, e, u, ucp) == Lit(txt, [t |-> "q", val |-> Dec(FALSE, coef, e), unit |-> ucp, u |-> u, th |-> th])
QLits == {QLit("1 year", 1000, 1, 0, "year", <<121, 101, 97, 114>>), QLit("2 months", 2000, 2, 0, "months", <<109, 111, 110, 116, 104, 115>>),
          QLit("13 months", 13000, 13, 0, "months", <<109, 111, 110, 116, 104, 115>>), QLit("10 days", 10000, 1, 1, "days", <<100, 97, 121, 115>>),
          QLit("4 weeks", 4000, 4, 0, "weeks", <<119, 101, 101, 107, 115>>), QLit("1.5 hours", 1500, 15, -1, "hours", <<104, 111, 117, 114, 115>>),
          QLit("25 hours", 25000, 25, 0, "hours", <<104, 111, 117, 114, 115>>), QLit("90 minutes", 90000, 9, 1, "minutes", <<109, 105, 110, 117, 116, 101, 115>>),
          QLit("1 day", 1000, 1, 0, "day", <<100, 97, 121>>), QLit("365 days", 365000, 365, 0, "days", <<100, 97, 121, 115>>),
          QLit("3 'mg'", 3000, 3, 0, "mg", <<109, 103>>)}
AllLits == QLits \cup NumLits \cup StrLits \cup BoolLits \cup DateLits \cup DtLits \cup TimeLits

(******************************** rendering ********************************)
TypeText(ns, name) == IF ns = "" THEN name ELSE ns \o "." \o name
RECURSIVE Render(_)
RenderArgs(args) ==
  CASE Len(args) = 0 -> ""
    [] Len(args) = 1 -> Render(args[1])
    [] Len(args) = 2 -> Render(args[1]) \o ", " \o Render(args[2])
    [] OTHER -> Render(args[1]) \o ", " \o Render(args[2]) \o ", " \o Render(args[3])
Render(e) ==
  CASE e.k = "this"  -> "$this"
    [] e.k = "root"  -> e.name
    [] e.k = "field" -> (IF e.in.k = "this" THEN e.name ELSE Render(e.in) \o "." \o e.name)
    [] e.k = "idx"   -> Render(e.in) \o "[" \o ToString(e.i) \o "]"
    [] e.k = "lit"   -> e.txt
    [] e.k = "var"   -> "%" \o e.name
    [] e.k = "call"  -> (IF e.in.k = "this" THEN "" ELSE Render(e.in) \o ".") \o e.f \o "(" \o RenderArgs(e.args) \o ")"
    [] e.k = "bin"   -> "(" \o Render(e.l) \o " " \o e.op \o " " \o Render(e.r) \o ")"
    [] e.k = "neg"   -> "(-" \o Render(e.in) \o ")"
    [] e.k = "typeop" -> (IF e.op = "ofType" THEN Render(e.in) \o ".ofType(" \o TypeText(e.ns, e.name) \o ")"
                          ELSE "(" \o Render(e.in) \o " " \o e.op \o " " \o TypeText(e.ns, e.name) \o ")")

(***************************** what the focus is ***************************)
ValueOf(x) == Eval(x, Env, Input)
Items(r) == IF r.k = "ok" THEN r.items ELSE <<>>
AllEl(c) == Len(c) > 0 /\ \A j \in 1..Len(c) : c[j].t = "el" /\ c[j].r # 0
AllVal(c, tags) == Len(c) > 0 /\ \A j \in 1..Len(c) : Val(c[j]).t \in tags
NamesOf(c) == IF AllEl(c) THEN ValidNames(Sch, NodeAt(Forest[c[1].r], c[1].addr)) ELSE {}
Interesting == {"name", "given", "family", "use", "telecom", "rank", "value", "system", "identifier", "extension", "url", "period", "start",
                "active", "contact", "relationship", "text", "gender", "birthDate", "communication", "preferred", "language", "address", "line",
                "city", "generalPractitioner", "reference", "display", "maritalStatus", "coding", "code", "id", "meta", "lastUpdated", "tag",
                "multipleBirth", "deceased", "versionId", "photo", "link", "type", "other", "managingOrganization",
                "component", "effective", "issued", "referenceRange", "low", "high", "unit", "status", "subject"}
FieldsFor(c) == LET ns == NamesOf(c) IN (ns \cap Interesting) \cup (IF ns = {} THEN {} ELSE {"zz"})

(* a tagged step *)
Step(e, p) == [e |-> e, p |-> p]
Tag(es, p) == {Step(e, p) : e \in es}
(* an operation that must propagate emptiness is charged to C07 when its input is empty *)
OrEmpty(c, p) == IF Len(c) = 0 THEN "C07" ELSE p

(* small criteria / projections over $this for items that have the element names fs *)
Lambda1(fs) ==
  {This} \cup BoolLits \cup {LitE} \cup {Fld(This, f) : f \in fs}
  \cup {Call(Fld(This, f), g, <<>>) : f \in fs, g \in {"exists", "empty", "count", "first"}}
  \cup {Call(Fld(This, f), "select", <<l>>) : f \in fs, l \in BoolLits}          \* several Booleans when f repeats: an error as a criterion
  \cup {Bin(op, Fld(This, f), l) : op \in {"=", "!="}, f \in fs \cap {"use", "family", "given", "value", "system", "url", "city", "text", "code", "display", "reference"},
                                   l \in {Lit("'official'", S(Official)), Lit("'Smith'", S(Smith)), Lit("'John'", S(John))}}

TypeNames == {"string", "String", "integer", "Integer", "decimal", "Decimal", "boolean", "Boolean", "date", "Date", "dateTime", "DateTime",
              "code", "uri", "id", "positiveInt", "unsignedInt", "HumanName", "ContactPoint", "Identifier", "Patient", "Observation",
              "Element", "BackboneElement", "Resource", "DomainResource", "Quantity", "Reference", "Extension", "zzNoType"}
TypeSpecs == {[ns |-> "", name |-> n] : n \in TypeNames}
             \cup {[ns |-> "FHIR", name |-> n] : n \in {"string", "HumanName", "Element", "Patient", "integer", "String"}}
             \cup {[ns |-> "System", name |-> n] : n \in {"String", "Integer", "Boolean", "Decimal", "string", "Date"}}

(* FHIR elements of MR1/MR2 by family, as the OTHER operand of a comparison (equal values in different representations: *)
(* decimal 50 and 50.0, integer 50, one instant written with two offsets, a bound code and a string 'final')            *)
NumPeers == {Ix(Fld(Fld(Fld(Obn, "referenceRange"), "low"), "value"), 0), Ix(Fld(Fld(Fld(Obn, "referenceRange"), "low"), "value"), 1),
             Ix(Fld(Fld(Fld(Obn, "referenceRange"), "high"), "value"), 0), Ix(Fld(Fld(Fld(Obn, "referenceRange"), "high"), "value"), 1),
             Ix(Fld(Fld(Obn, "component"), "value"), 7), Ix(Fld(Fld(Obn, "component"), "value"), 1), Fld(Pat, "multipleBirth"),
             Ix(Fld(Fld(Pat, "telecom"), "rank"), 1), Fld(Fld(Obn, "value"), "value")}
StrPeers == {Fld(Obn, "status"), Ix(Fld(Fld(Obn, "component"), "value"), 6), Ix(Fld(Fld(Fld(Obn, "component"), "code"), "text"), 6),
             Ix(Fld(Fld(Pat, "name"), "family"), 0), Ix(Fld(Fld(Pat, "name"), "family"), 1), Fld(Pat, "gender"), Fld(Fld(Obn, "value"), "unit"), Fld(Fld(Obn, "value"), "code")}
DtPeers  == {Fld(Obn, "issued"), Ix(Fld(Fld(Obn, "component"), "value"), 5), Ix(Fld(Fld(Obn, "component"), "value"), 4), Fld(Obn, "effective"),
             Fld(Fld(Pat, "meta"), "lastUpdated"), Fld(Fld(Fld(Pat, "birthDate"), "extension"), "value"), Fld(Pat, "birthDate")}
(* operands of the Boolean operators that are FHIR elements: a boolean, a choice-typed boolean, a code, several items *)
ElemOperands == {Fld(Pat, "active"), Fld(Pat, "deceased"), Fld(Pat, "gender"), Fld(Pat, "name"), Fld(Fld(Pat, "communication"), "preferred"),
                 Var("tt"), Var("ff"), Var("alt"), Var("tf"), Var("none")}
UrlBirth == <<104, 116, 116, 112, 58, 47, 47, 104, 108, 55, 46, 111, 114, 103, 47, 102, 104, 105, 114, 47, 83, 116, 114, 117, 99, 116, 117, 114, 101, 68, 101, 102, 105, 110, 105, 116, 105, 111, 110, 47, 112, 97, 116, 105, 101, 110, 116, 45, 98, 105, 114, 116, 104, 84, 105, 109, 101>>
UrlA == <<104, 116, 116, 112, 58, 47, 47, 101, 120, 97, 109, 112, 108, 101, 46, 111, 114, 103, 47, 101, 120, 116, 47, 97>>

OtherSign(op) == IF op = "+" THEN "-" ELSE "+"
(* empty collections that are COMPUTED (a filter that matched nothing, a subset beyond the end, distinct of nothing) *)
Empties == {LitE, Var("none"), Call(Var("none"), "distinct", <<>>), Call(Var("ints"), "skip", <<Lit("9", I(9))>>),
            Call(Var("ints"), "where", <<Lit("false", B(FALSE))>>), Call(Var("strs"), "take", <<Lit("0", I(0))>>)}
NCat == 15
(* the steps of category cat offered after expression x whose value is the collection c *)
StepCat(x, c, cat) ==
  LET fs == FieldsFor(c)
      n == Len(c)
      single == n = 1
      nums == AllVal(c, {"i", "d"})
      strs == AllVal(c, {"s"})
      bools == AllVal(c, {"b"})
      dates == AllVal(c, {"date"})
      dts == AllVal(c, {"dt"})
      times == AllVal(c, {"time"})
      sys == AllVal(c, {"i", "d", "s", "b", "date", "dt", "time"})
      oneOrNone == n <= 1
  IN CASE cat = 1 -> Tag({Fld(x, f) : f \in fs}, "C02") \cup Tag({Ix(x, j) : j \in 0..2}, OrEmpty(c, "C10"))
       [] cat = 2 -> Tag({Call(x, g, <<>>) : g \in {"count", "empty", "exists", "isDistinct"}}, "C10")        \* aggregates answer on the empty collection
                     \cup Tag({Call(x, g, <<>>) : g \in {"first", "last", "tail", "distinct"}}, OrEmpty(c, "C10"))
                     \cup Tag({Call(x, g, <<a>>) : g \in {"skip", "take"}, a \in IntArgs}, OrEmpty(c, "C10"))
                     \cup Tag({Call(x, "extension", <<l>>) : l \in {Lit("'http://example.org/ext/a'", S(UrlA)), Lit("'http://hl7.org/fhir/StructureDefinition/patient-birthTime'", S(UrlBirth)), Lit("'x'", S(<<120>>))}}, "C10")
       [] cat = 3 -> Tag({Call(x, g, <<p>>) : g \in {"exists", "all"}, p \in Lambda1(fs)}, "C10")
                     \cup Tag({Call(x, g, <<p>>) : g \in {"where", "select"}, p \in Lambda1(fs)}, OrEmpty(c, "C10"))
                     \* a projection or filter feeding a positional function directly (first item may project to nothing)
                     \cup Tag({Call(Call(x, g, <<p>>), h, <<>>) : g \in {"where", "select"}, h \in {"first", "last", "tail", "count"},
                                  p \in {Fld(This, f) : f \in fs} \cup {Call(Fld(This, f), "exists", <<>>) : f \in fs}}, OrEmpty(c, "C10"))
                     \cup Tag({Ix(Call(x, "select", <<Fld(This, f)>>), 0) : f \in fs} \cup {Call(Call(x, "select", <<Fld(This, f)>>), "take", <<Lit("1", I(1))>>) : f \in fs}, OrEmpty(c, "C10"))
       [] cat = 4 -> Tag({Call(x, g, <<>>) : g \in {"not", "allTrue", "anyTrue", "allFalse", "anyFalse"}}, "C06")
                     \cup Tag({Bin(op, x, l) : op \in {"and", "or", "xor", "implies"}, l \in BoolLits \cup {LitE} \cup ElemOperands}, "C06")
                     \cup Tag({Bin(op, l, x) : op \in {"and", "or", "xor", "implies"}, l \in BoolLits \cup {LitE} \cup ElemOperands}, "C06")
                     \cup Tag({Call(x, "iif", <<Call(This, "exists", <<>>), Lit("1", I(1)), Lit("2", I(2))>>)}, "C06")
       [] cat = 5 -> Tag({Bin(op, x, e) : op \in {"=", "!=", "<", "<=", ">", ">=", "+", "-", "*"}, e \in Empties}
                         \cup {Bin(op, e, x) : op \in {"=", "!=", "<", ">", "+", "-"}, e \in Empties}, "C07")
                     \cup Tag({Bin(op, x, l) : op \in {"=", "!=", "<", "<=", ">", ">="},
                            l \in (IF nums THEN NumLits \cup {Var("min"), Var("big"), Var("neg")} ELSE IF strs THEN StrLits ELSE IF bools THEN BoolLits ELSE IF dates THEN DateLits
                                    ELSE IF dts THEN DtLits \cup DateLits ELSE IF times THEN TimeLits ELSE {LitE})}, OrEmpty(c, "C05"))
                     \cup Tag({Bin(op, x, y) : op \in {"=", "!="}, y \in {x, Call(x, "tail", <<>>), Call(x, "take", <<Lit("2", I(2))>>), Call(x, "first", <<>>)}}, OrEmpty(c, "C05"))
                     \cup Tag({Bin(op, x, y) : op \in {"=", "!=", "<", "<=", ">", ">="},
                                 y \in (IF nums THEN NumPeers ELSE IF strs THEN StrPeers ELSE IF dts \/ dates THEN DtPeers ELSE {})}, "C05")
                     \cup (IF nums /\ single
                           THEN Tag({Bin(op, x, y) : op \in {"=", "!=", "<", "<=", ">", ">="},
                                       y \in {Call(x, "toDecimal", <<>>), Bin("+", x, Lit("1", I(1))), Bin("-", x, Lit("0.5", Dec(FALSE, 5, -1))), Bin("*", x, Lit("1.0", Dec(FALSE, 1, 0)))}}, "C05")
                           ELSE {})
       [] cat \in {6, 7} ->
            (IF (nums /\ single) \/ n = 0
             THEN Tag({Bin(op, x, l) : op \in {"+", "-", "*", "div", "mod"}, l \in NumLits \cup {Var("min"), Var("big"), Var("neg"), Var("half")}}
                      \cup {Bin(op, l, x) : op \in {"-", "div", "mod"}, l \in NumLits \cup {Var("min"), Var("big")}} \cup {Neg(x)}
                      \cup {Bin(op, x, x) : op \in {"+", "-", "*", "div", "mod"}}
                      \cup {Call(x, g, <<>>) : g \in MathFns} \cup {Call(x, "round", <<Lit("1", I(1))>>)}, OrEmpty(c, "C08"))
                  \cup Tag({Call(x, "round", <<e>>) : e \in Empties}, "C07")
                  \cup Tag({Bin(op, x, e) : op \in {"+", "-", "*", "div", "mod"}, e \in Empties} \cup {Bin(op, e, x) : op \in {"+", "-", "*", "div", "mod"}, e \in Empties}, "C07")
             ELSE IF AllVal(c, {"date", "dt", "time"}) /\ single
                  THEN Tag({Bin(op, x, q) : op \in {"+", "-"}, q \in QLits}
                           \cup {Bin(OtherSign(op), Bin(op, x, q), q) : op \in {"+", "-"}, q \in QLits}, "C09")
             ELSE IF nums THEN Tag({Call(x, "select", <<Bin(op, This, l)>>) : op \in {"+", "-", "*", "div", "mod"}, l \in NumLits}
                                   \cup {Call(x, "select", <<Call(This, g, <<>>)>>) : g \in MathFns}, "C08")
             ELSE {})
       [] cat = 8 ->       \* string functions whose arguments are pieces of the receiver itself (so that patterns do occur)
            (IF strs /\ single
             THEN LET \* (an argument is evaluated on the function's input, so $this is the receiver)
                      piece2(j, q) == Call(This, "substring", <<Lit(ToString(j), I(j)), Lit(ToString(q), I(q))>>)
                      piece1(j) == Call(This, "substring", <<Lit(ToString(j), I(j))>>)
                      pieces == {piece2(0, 1), piece2(0, 2), piece2(1, 1), piece2(1, 2), piece2(2, 1), piece2(0, 3), piece1(1), piece1(2), This}
                      whole2(j, q) == Call(x, "substring", <<Lit(ToString(j), I(j)), Lit(ToString(q), I(q))>>)
                      whole1(j) == Call(x, "substring", <<Lit(ToString(j), I(j))>>)
                  IN Tag({Call(x, g, <<>>) : g \in StrFns0} \cup {Call(x, g, <<a>>) : g \in StrFns1, a \in pieces}
                         \cup {Call(x, "replace", <<a, m>>) : a \in pieces, m \in {Lit("'x'", S(<<120>>)), Lit("''", S(<<>>)), Var("pat"), This}}
                         \cup {Bin("&", whole2(0, j), whole1(j)) : j \in 0..4}, "C14")
             ELSE IF strs THEN Tag({Call(x, "select", <<Call(This, g, <<>>)>>) : g \in StrFns0}
                                   \cup {Call(x, g, <<Call(This, h, <<Call(This, "substring", <<Lit(ToString(j), I(j)), Lit("1", I(1))>>)>>)>>) :
                                            g \in {"where", "select", "all"}, h \in StrFns1, j \in 0..2}
                                   \cup {Call(x, "select", <<Call(This, "replace", <<Call(This, "substring", <<Lit(ToString(j), I(j)), Lit("1", I(1))>>), Lit("'x'", S(<<120>>))>>)>>) : j \in 0..2}, "C14")
             ELSE {})
       [] cat = 9 ->
            (IF (strs /\ single) \/ n = 0
             THEN Tag({Call(x, g, <<l>>) : g \in StrFns1, l \in StrArgs}
                      \cup {Call(x, "substring", <<a>>) : a \in IntArgs}
                      \cup {Call(x, "substring", <<a, b>>) : a \in IntArgs, b \in IntArgs}
                      \cup {Call(x, "replace", <<l, m>>) : l \in StrArgs, m \in {Lit("'x'", S(<<120>>)), Lit("''", S(<<>>)), Var("pat")}}
                      \cup {Bin("&", x, l) : l \in StrLits} \cup {Bin("+", x, l) : l \in StrLits}
                      \cup {Bin("&", l, x) : l \in StrLits} \cup {Bin("+", l, x) : l \in StrLits}, OrEmpty(c, "C14"))
                  \cup Tag({Call(x, g, <<e>>) : g \in StrFns1 \cup {"substring"}, e \in Empties}
                         \cup {Call(x, "substring", <<Lit("0", I(0)), e>>) : e \in Empties}
                         \cup {Call(x, "replace", <<l, e>>) : l \in {Lit("'S'", S(<<83>>))}, e \in Empties}, "C07")
             ELSE IF strs THEN Tag({Call(x, g, <<Call(This, h, <<l>>)>>) : g \in {"where", "select", "all", "exists"}, h \in StrFns1, l \in StrLits}
                                   \cup {Call(x, "select", <<Call(This, "substring", <<a>>)>>) : a \in IntArgs}, "C14")
             ELSE {})
       [] cat \in {10, 11} ->
            (IF (sys /\ single) \/ n = 0
             THEN Tag({Call(x, g, <<>>) : g \in (ToFns \cup ConvFns) \ {"toQuantity", "convertsToQuantity"}}, OrEmpty(c, "C13"))
             ELSE IF sys THEN Tag({Call(x, g, <<Call(This, h, <<>>)>>) : g \in {"select", "where"}, h \in {"toString", "toInteger", "toDecimal", "toBoolean", "convertsToInteger", "convertsToBoolean", "convertsToDecimal", "convertsToDate"}}, "C13")
             ELSE {})
       [] cat = 12 ->      \* type specifiers near the type of the focus: its ancestors, its System counterpart, its siblings
            (LET ty == IF n > 0 THEN TypeOfItem(Env, c[1]) ELSE [ns |-> "none", name |-> "", kind |-> ""]
                 near == IF ty.ns = "FHIR" THEN Ty!Ancestors(ty.name, Kinds) \cup {"string", "code", "id", "uri", "integer", "positiveInt", "unsignedInt", "Element", "BackboneElement"}
                         ELSE IF ty.ns = "System" THEN {ty.name, "String", "Integer", "Decimal", "string", "integer", "decimal", "boolean", "Boolean"}
                         ELSE {"Element"}
                 specs == {[ns |-> "", name |-> nm] : nm \in near} \cup {[ns |-> "FHIR", name |-> nm] : nm \in near} \cup {[ns |-> "System", name |-> nm] : nm \in near \cap Ty!SystemNames}
             IN IF oneOrNone THEN Tag({TypeOpE(op, x, sp.ns, sp.name) : op \in {"is", "as"}, sp \in specs}, OrEmpty(c, "C12"))
                ELSE Tag({Call(x, g, <<TypeOpE(op, This, sp.ns, sp.name)>>) : g \in {"where", "select", "all"}, op \in {"is", "as"}, sp \in specs}, "C12"))
       [] cat = 13 ->
            \* (ofType() is in the function table as not implemented: the machine models it, the generator leaves it out)
            (IF oneOrNone THEN Tag({TypeOpE(op, x, s.ns, s.name) : op \in {"is", "as"}, s \in TypeSpecs}, OrEmpty(c, "C12"))
             ELSE Tag({Call(x, g, <<TypeOpE(op, This, s.ns, s.name)>>) : g \in {"where", "select", "all"}, op \in {"is", "as"}, s \in TypeSpecs}, "C12"))
       [] cat = 14 ->      \* operations whose operands or arguments are environment variables (their values differ in the cross evaluation)
            (IF nums THEN Tag({Bin(op, x, v) : op \in {"=", "<", ">", "<=", ">="}, v \in {Var("seven"), Var("neg"), Var("big"), Var("min")}}, "C05")
                          \cup Tag({Call(x, g, <<Bin(op, This, v)>>) : g \in {"where", "select", "all", "exists"}, op \in {"<", ">", "="}, v \in {Var("seven"), Var("neg")}}, "C05")
                          \* a variable on the LEFT of the expression so far (a literal, when the chain has just started: `%seven < 2` -
                          \* the reused evaluation binds %seven to a Decimal) and per-item comparisons against a literal over items of
                          \* alternating types
                          \cup Tag({Bin(op, v, x) : op \in {"=", "!=", "<", ">", "<=", ">="}, v \in {Var("seven"), Var("neg"), Var("big")}}, "C05")
                          \cup Tag({Call(Var("alt"), g, <<Bin(op, This, x)>>) : g \in {"where", "select"}, op \in {"<", ">", "<=", "=", "!="}}, "C05")
                          \cup Tag({Bin(op, v, x) : op \in {"+", "-", "*"}, v \in {Var("seven"), Var("neg")}}, "C08")
                          \cup Tag({Bin(op, x, v) : op \in {"+", "-", "*"}, v \in {Var("seven"), Var("neg")}}, "C08")
             ELSE IF bools THEN Tag({Bin(op, x, v) : op \in {"and", "or", "xor", "implies"}, v \in {Var("tt"), Var("ff")}}
                                    \cup {Bin(op, v, x) : op \in {"and", "or", "xor", "implies"}, v \in {Var("tt"), Var("ff")}}
                                    \cup {Call(x, g, <<Bin(op, This, v)>>) : g \in {"where", "select", "all"}, op \in {"and", "or", "implies"}, v \in {Var("tt"), Var("ff")}}, "C06")
             ELSE IF strs THEN Tag({Call(x, g, <<Call(This, h, <<Var("pat")>>)>>) : g \in {"where", "select", "all"}, h \in StrFns1}, "C14")
                               \cup Tag({Bin(op, x, Var("pat")) : op \in {"=", "<", ">"}}, "C05")
             ELSE Tag({Call(x, g, <<v>>) : g \in {"skip", "take"}, v \in {Var("seven"), Var("neg"), Call(Var("ints"), "first", <<>>), Call(Var("ints"), "last", <<>>)}}, OrEmpty(c, "C10")))
       [] OTHER -> Tag({Fld(x, f) : f \in fs}, "C02") \cup Tag({Call(x, "first", <<>>), Call(x, "last", <<>>)}, "C10")

Starts == {This, Call(This, "take", <<Lit("1", I(1))>>), Call(This, "take", <<Lit("2", I(2))>>), Call(This, "skip", <<Lit("0", I(0))>>), Call(This, "tail", <<>>),
           Var("tt"), Var("ff"), Var("alt"), Var("repl"), Call(Var("repl"), "first", <<>>), Call(Var("repl"), "last", <<>>), Ix(Var("repl"), 1), Var("uni"), Var("uni1"), Var("looks"), Var("digits"), Var("min"), Var("half"), Pat, Fld(Pat, "name"), Fld(Pat, "telecom"), Fld(Pat, "identifier"), Fld(Fld(Pat, "name"), "given"), Fld(Fld(Pat, "name"), "family"),
           Fld(Pat, "contact"), Fld(Pat, "extension"), Fld(Pat, "birthDate"), Fld(Pat, "active"), Fld(Pat, "multipleBirth"), Fld(Pat, "deceased"),
           Fld(Fld(Pat, "telecom"), "rank"), Fld(Fld(Pat, "extension"), "value"), Fld(Fld(Pat, "meta"), "lastUpdated"), Fld(Pat, "gender"),
           Fld(Pat, "id"), Fld(Fld(Pat, "address"), "line"), Fld(Fld(Pat, "name"), "suffix"),
           Obn, Fld(Obn, "value"), Fld(Obn, "component"), Fld(Fld(Obn, "component"), "value"), Fld(Obn, "effective"), Fld(Obn, "issued"),
           Fld(Obn, "status"), Fld(Fld(Fld(Obn, "referenceRange"), "low"), "value"), Fld(Fld(Fld(Obn, "component"), "code"), "text"),
           Fld(Fld(Obn, "value"), "value"), Fld(Fld(Obn, "value"), "unit"), Fld(Fld(Fld(Obn, "code"), "coding"), "display"),
           Var("ints"), Var("mixed"), Var("none"), Var("decs"), Var("strs"), Var("seven"), Var("big"), Var("neg")}
          \cup AllLits

(* the property that states the meaning of the outermost operation of a start expression *)
StartProp(e) == IF e.k = "lit" THEN "C15" ELSE IF e.k = "var" THEN "C17" ELSE "C02"
=============================================================================
