----------------------------- MODULE FPTemporal -----------------------------
(***************************************************************************)
(* Reference semantics of `x + q` and `x - q` for Date, DateTime and Time  *)
(* (DESIGN.md Appendix F, "Temporal arithmetic", rules 1-6) and of         *)
(* Quantity +/- Quantity and Quantity comparison within one unit.          *)
(*                                                                         *)
(* x is an abstract temporal item (FPValues):                              *)
(*   [t |-> "date", p, y, mo, d]              p in 1..3                    *)
(*   [t |-> "dt", p, y, mo, d, h, mi, sec, ms, fd, tz, off]   p in 1..7    *)
(*   [t |-> "time", p, h, mi, sec, ms, fd]    p in 4..7                    *)
(* with precision p: 1 year, 2 month, 3 day, 4 hour, 5 minute, 6 second,   *)
(* 7 millisecond; components finer than p do not exist and are written as  *)
(* their defaults (month 1, day 1, 0 for the time components).             *)
(*                                                                         *)
(* A quantity is (th, unit): th is the amount in THOUSANDTHS (n = th/1000, *)
(* so 1.5 is 1500; the case spaces use at most three decimals) and unit an *)
(* ASCII unit string.  Everything stays far below 2^31.                    *)
(*                                                                         *)
(* Mutant selects a deliberately wrong variant; the laws of C09_MC must    *)
(* fail for each of them:                                                  *)
(*   "noClamp"          month arithmetic overflows into the next month     *)
(*   "weekIs5Days"      a week is five days                                *)
(*   "countNotDuration" the rounding helper returns the COUNT of whole     *)
(*                      units instead of the duration (the unchanged       *)
(*                      tree's roundTo*Precision: `return d / unit`)       *)
(*   "dropOffset"       the result loses x's UTC offset                    *)
(***************************************************************************)
EXTENDS Integers, Sequences, FPCalendar, FPBigNum

CONSTANT Mutant

(******************************* units *************************************)
(* cls: kw1 calendar keyword singular, kwN plural, ucum UCUM-style code     *)
UnitTable ==
  [year        |-> [rank |-> "year",   cls |-> "kw1"],  years        |-> [rank |-> "year",   cls |-> "kwN"],
   month       |-> [rank |-> "month",  cls |-> "kw1"],  months       |-> [rank |-> "month",  cls |-> "kwN"],
   week        |-> [rank |-> "week",   cls |-> "kw1"],  weeks        |-> [rank |-> "week",   cls |-> "kwN"],
   day         |-> [rank |-> "day",    cls |-> "kw1"],  days         |-> [rank |-> "day",    cls |-> "kwN"],
   hour        |-> [rank |-> "hour",   cls |-> "kw1"],  hours        |-> [rank |-> "hour",   cls |-> "kwN"],
   minute      |-> [rank |-> "minute", cls |-> "kw1"],  minutes      |-> [rank |-> "minute", cls |-> "kwN"],
   second      |-> [rank |-> "second", cls |-> "kw1"],  seconds      |-> [rank |-> "second", cls |-> "kwN"],
   millisecond |-> [rank |-> "ms",     cls |-> "kw1"],  milliseconds |-> [rank |-> "ms",     cls |-> "kwN"],
   a   |-> [rank |-> "year",   cls |-> "ucum"],
   mo  |-> [rank |-> "month",  cls |-> "ucum"],
   wk  |-> [rank |-> "week",   cls |-> "ucum"],
   d   |-> [rank |-> "day",    cls |-> "ucum"],
   h   |-> [rank |-> "hour",   cls |-> "ucum"],
   min |-> [rank |-> "minute", cls |-> "ucum"],
   s   |-> [rank |-> "second", cls |-> "ucum"],
   ms  |-> [rank |-> "ms",     cls |-> "ucum"]]

TemporalUnits == DOMAIN UnitTable
IsTemporalUnit(u) == u \in TemporalUnits
KeywordUnits == {u \in TemporalUnits : UnitTable[u].cls # "ucum"}
UcumUnits    == {u \in TemporalUnits : UnitTable[u].cls = "ucum"}
RankOf(u) == UnitTable[u].rank
ClsOf(u)  == IF IsTemporalUnit(u) THEN UnitTable[u].cls ELSE "other"

RankNo(rank) == CASE rank = "year" -> 1 [] rank = "month" -> 2 [] rank = "week" -> 3 [] rank = "day" -> 3
                  [] rank = "hour" -> 4 [] rank = "minute" -> 5 [] rank = "second" -> 6 [] rank = "ms" -> 7

(* relation of the unit to the precision of the value (rule 2 / rule 3)     *)
RelOf(rank, p) ==
  IF rank = "week" THEN (IF p <= 2 THEN "finer" ELSE "coarser")
  ELSE IF RankNo(rank) > p THEN "finer" ELSE IF RankNo(rank) = p THEN "equal" ELSE "coarser"

UnitMs(p) == CASE p = 4 -> 3600000 [] p = 5 -> 60000 [] p = 6 -> 1000 [] p = 7 -> 1

(****************************** division ***********************************)
TruncDiv(a, b) == IF a >= 0 THEN a \div b ELSE 0 - ((0 - a) \div b)      \* b > 0, toward zero
QDiv(mode, a, b) == IF mode = "floor" THEN a \div b ELSE TruncDiv(a, b)
QRem(mode, a, b) == a - b * QDiv(mode, a, b)

(* rule 1: the amount of every unit coarser than a second is truncated      *)
WholeAmt(th) == TruncDiv(th, 1000)

(* rule 2 latitude: a quotient is truncated; for a negative amount flooring *)
(* is permitted as well                                                     *)
Modes(th) == IF th < 0 THEN {"trunc", "floor"} ELSE {"trunc"}

(**************************** value access *********************************)
XDay(x) == IF x.t = "time" THEN 0 ELSE DayNum(x.y, x.mo, x.d)
XMs(x)  == IF x.t = "date" THEN 0 ELSE ((x.h * 60 + x.mi) * 60 + x.sec) * 1000 + x.ms

WellFormed(x) ==
  /\ x.t \in {"date", "dt", "time"}
  /\ (x.t = "date" => x.p \in 1..3) /\ (x.t = "dt" => x.p \in 1..7) /\ (x.t = "time" => x.p \in 4..7)
  /\ (x.t # "time" => /\ ValidCivil(x.y, x.mo, x.d)
                      /\ (x.p < 2 => x.mo = 1) /\ (x.p < 3 => x.d = 1))
  /\ (x.t # "date" => /\ x.h \in 0..23 /\ x.mi \in 0..59 /\ x.sec \in 0..59 /\ x.ms \in 0..999
                      /\ (x.p < 4 => x.h = 0) /\ (x.p < 5 => x.mi = 0) /\ (x.p < 6 => x.sec = 0) /\ (x.p < 7 => x.ms = 0))
  /\ (x.t = "dt" => /\ x.off \in -840..840 /\ (~x.tz => x.off = 0)
                    /\ (x.p < 4 => ~x.tz))

(* A value of x's type, precision and offset at civil date c and ms-of-day   *)
(* ms, floored to the precision.                                             *)
Rebuild(x, c, ms) ==
  LET p  == x.p
      hh == ms \div 3600000
      mm == (ms \div 60000) % 60
      ss == (ms \div 1000) % 60
      ff == ms % 1000
      mo == IF p >= 2 THEN c.mo ELSE 1
      dd == IF p >= 3 THEN c.d ELSE 1
      h  == IF p >= 4 THEN hh ELSE 0
      mi == IF p >= 5 THEN mm ELSE 0
      se == IF p >= 6 THEN ss ELSE 0
      f  == IF p >= 7 THEN ff ELSE 0
  IN CASE x.t = "date" -> [x EXCEPT !.y = c.y, !.mo = mo, !.d = dd]
       [] x.t = "time" -> [x EXCEPT !.h = hh, !.mi = mi, !.sec = se, !.ms = f]
       [] x.t = "dt"   -> [x EXCEPT !.y = c.y, !.mo = mo, !.d = dd, !.h = h, !.mi = mi, !.sec = se, !.ms = f,
                                    !.tz = IF Mutant = "dropOffset" THEN FALSE ELSE x.tz,
                                    !.off = IF Mutant = "dropOffset" THEN 0 ELSE x.off]

(* results: [oob |-> TRUE, v |-> x] when outside 0001-01-01 .. 9999-12-31    *)
OutOfRange(x) == [oob |-> TRUE, v |-> x]
InRange(v)    == [oob |-> FALSE, v |-> v]

(**************************** calendar steps *******************************)
(* rule 3, years and months: the day is clamped to the end of the month      *)
AddMonths(x, k) ==
  LET idx == MonthIndex(x.y, x.mo) + k
      y2  == YearOfIndex(idx)
      m2  == MonthOfIndex(idx)
  IN IF idx < 0 \/ y2 > MaxYear THEN OutOfRange(x)
     ELSE IF Mutant = "noClamp"
          THEN LET n == DayNum(y2, m2, 1) + x.d - 1 IN
               IF n > MaxDay THEN OutOfRange(x) ELSE InRange(Rebuild(x, Civil(n), XMs(x)))
          ELSE InRange(Rebuild(x, [y |-> y2, mo |-> m2, d |-> ClampDay(y2, m2, x.d)], XMs(x)))

(* rule 3, days and the sub-day units: added to the instant in the value's   *)
(* own fixed offset (so the offset plays no part); Time wraps modulo 24 h    *)
AddDayMs(x, dd, ms) ==
  IF x.t = "time" THEN InRange(Rebuild(x, [y |-> 1, mo |-> 1, d |-> 1], (XMs(x) + ms) % DayMs))
  ELSE LET i == NormInstant(XDay(x) + dd, XMs(x) + ms) IN
       IF i.dn < MinDay \/ i.dn > MaxDay THEN OutOfRange(x) ELSE InRange(Rebuild(x, Civil(i.dn), i.ms))

(**************************** the quantity *********************************)
DaysPerWeek == IF Mutant = "weekIs5Days" THEN 5 ELSE 7
DaysOf(rank, a) == IF rank = "week" THEN DaysPerWeek * a ELSE a

(* a sub-day quantity as whole days plus a rest in ms (both carry the sign   *)
(* convention of the mode); seconds keep three decimals (th is then ms)      *)
SubDay(mode, rank, th) ==
  CASE rank = "hour"   -> LET a == WholeAmt(th) IN [d |-> QDiv(mode, a, 24),   ms |-> QRem(mode, a, 24) * 3600000]
    [] rank = "minute" -> LET a == WholeAmt(th) IN [d |-> QDiv(mode, a, 1440), ms |-> QRem(mode, a, 1440) * 60000]
    [] rank = "second" -> [d |-> QDiv(mode, th, DayMs), ms |-> QRem(mode, th, DayMs)]
    [] rank = "ms"     -> LET a == QDiv(mode, th, 1000) IN [d |-> QDiv(mode, a, DayMs), ms |-> QRem(mode, a, DayMs)]

(* whole units of the precision, as a duration (rule 2)                      *)
Quantize(mode, ms, u) ==
  IF Mutant = "countNotDuration" /\ u > 1000 THEN QDiv(mode, ms, u) ELSE QDiv(mode, ms, u) * u

(* The displacement asked for by (th, rank) on a value of precision p:       *)
(* either k months or dd days + ms milliseconds.                             *)
Months(k)    == [kind |-> "mo", k |-> k, dd |-> 0, ms |-> 0]
DayMsec(d, m) == [kind |-> "dm", k |-> 0, dd |-> d, ms |-> m]

Delta(mode, p, rank, th) ==
  LET a == WholeAmt(th) IN
  CASE rank = "year"  -> Months(12 * a)
    [] rank = "month" -> IF p = 1 THEN Months(12 * QDiv(mode, a, 12)) ELSE Months(a)
    [] rank \in {"week", "day"} ->
         LET n == DaysOf(rank, a) IN
         IF p = 1 THEN Months(12 * QDiv(mode, n, 365))
         ELSE IF p = 2 THEN Months(QDiv(mode, n, 30))
         ELSE DayMsec(n, 0)
    [] rank \in {"hour", "minute", "second", "ms"} ->
         LET s == SubDay(mode, rank, th) IN
         IF p = 1 THEN Months(12 * QDiv(mode, s.d, 365))
         ELSE IF p = 2 THEN Months(QDiv(mode, s.d, 30))
         ELSE IF p = 3 THEN DayMsec(s.d, 0)
         ELSE DayMsec(s.d, Quantize(mode, s.ms, UnitMs(p)))

Shift(x, sign, dl) ==
  IF dl.kind = "mo" THEN AddMonths(x, sign * dl.k) ELSE AddDayMs(x, sign * dl.dd, sign * dl.ms)

SignOf(op) == IF op = "+" THEN 1 ELSE -1

(* does the operation apply at all: a Time has no calendar part *)
TimeHasNoUnit(x, rank) == x.t = "time" /\ rank \in {"year", "month", "week", "day"}

(* The set of reference results of x op (th, unit) (one per permitted mode). *)
Results(x, op, rank, th) ==
  {Shift(x, SignOf(op), Delta(mode, x.p, rank, th)) : mode \in Modes(th)}

(* the primary reference result (everything truncated) *)
Primary(x, op, rank, th) == Shift(x, SignOf(op), Delta("trunc", x.p, rank, th))

(**************** alternative readings, used only to NAME a wrong result ***)
(* "instant-floor": treat x as the first instant of its period, add the      *)
(* real calendar duration, cut the result back to the precision.             *)
InstantFloor(x, op, rank, th) ==
  LET sg == SignOf(op)
      a  == WholeAmt(th)
      full == [x EXCEPT !.p = IF x.t = "date" THEN 3 ELSE 7]
      r == CASE rank = "year"  -> AddMonths(full, sg * 12 * a)
             [] rank = "month" -> AddMonths(full, sg * a)
             [] rank \in {"week", "day"} -> AddDayMs(full, sg * DaysOf(rank, a), 0)
             [] OTHER -> LET s == SubDay("trunc", rank, th) IN AddDayMs(full, sg * s.d, sg * s.ms)
  IN IF r.oob THEN OutOfRange(x)
     ELSE InRange(Rebuild(x, IF x.t = "time" THEN [y |-> 1, mo |-> 1, d |-> 1] ELSE [y |-> r.v.y, mo |-> r.v.mo, d |-> r.v.d], XMs(r.v)))

(* x moved back by one unit of its own precision *)
MinusOne(x) ==
  CASE x.p = 1 -> AddMonths(x, -12) [] x.p = 2 -> AddMonths(x, -1) [] x.p = 3 -> AddDayMs(x, -1, 0)
    [] OTHER -> AddDayMs(x, 0, 0 - UnitMs(x.p))

(****************************** ordering ***********************************)
(* same type, precision and offset assumed *)
LeItem(a, b) == XDay(a) < XDay(b) \/ (XDay(a) = XDay(b) /\ XMs(a) <= XMs(b))
SameTemporal(a, b) ==
  /\ a.t = b.t /\ a.p = b.p
  /\ CASE a.t = "date" -> a.y = b.y /\ a.mo = b.mo /\ a.d = b.d
       [] a.t = "time" -> a.h = b.h /\ a.mi = b.mi /\ a.sec = b.sec /\ a.ms = b.ms
       [] a.t = "dt"   -> /\ a.y = b.y /\ a.mo = b.mo /\ a.d = b.d /\ a.h = b.h /\ a.mi = b.mi
                          /\ a.sec = b.sec /\ a.ms = b.ms /\ a.tz = b.tz /\ a.off = b.off

(* no month-end clamping and no truncation: the premise of (x + q) - q = x   *)
Exact(x, rank, th) ==
  /\ th % 1000 = 0 \/ (rank = "second" /\ x.p = 7)
  /\ LET a == WholeAmt(th) IN
     CASE rank = "year"  -> x.t # "time" /\ (x.p < 3 \/ ~(x.mo = 2 /\ x.d = 29))
       [] rank = "month" -> x.t # "time" /\ (IF x.p = 1 THEN a % 12 = 0 ELSE (x.p = 2 \/ x.d <= 28))
       [] rank \in {"week", "day"} ->
            x.t # "time" /\ (IF x.p = 1 THEN DaysOf(rank, a) % 365 = 0 ELSE IF x.p = 2 THEN DaysOf(rank, a) % 30 = 0 ELSE TRUE)
       [] OTHER ->
            LET s == SubDay("floor", rank, th) IN
            IF x.p = 1 THEN s.ms = 0 /\ s.d % 365 = 0
            ELSE IF x.p = 2 THEN s.ms = 0 /\ s.d % 30 = 0
            ELSE IF x.p = 3 THEN s.ms = 0
            ELSE s.ms % UnitMs(x.p) = 0

(***************************** quantities **********************************)
(* th thousandths as an exact decimal *)
DecOfTh(th) == DMake(th < 0, NFromInt(IF th < 0 THEN 0 - th ELSE th), -3)

(* quantity op quantity: only within one unit string.  Result: a decimal     *)
(* and the unit, or "none" (empty or an error).                              *)
QArith(op, th1, u1, th2, u2) ==
  IF u1 # u2 THEN [k |-> "none"]
  ELSE [k |-> "q", val |-> DecOfTh(IF op = "+" THEN th1 + th2 ELSE th1 - th2), unit |-> u1]

QCompare(op, th1, u1, th2, u2) ==
  IF u1 # u2 THEN [k |-> "none"]
  ELSE [k |-> "b", b |-> CASE op = "="  -> th1 = th2  [] op = "!=" -> th1 # th2
                           [] op = "<"  -> th1 < th2  [] op = "<=" -> th1 <= th2
                           [] op = ">"  -> th1 > th2  [] op = ">=" -> th1 >= th2]

(* a keyword and its plural are one calendar unit spelt twice *)
SameCalendarUnit(u1, u2) ==
  /\ IsTemporalUnit(u1) /\ IsTemporalUnit(u2)
  /\ UnitTable[u1].cls # "ucum" /\ UnitTable[u2].cls # "ucum" /\ RankOf(u1) = RankOf(u2)
=============================================================================
