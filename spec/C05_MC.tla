------------------------------- MODULE C05_MC -------------------------------
(***************************************************************************)
(* Role 1: the relational laws of property C05 hold of the reference       *)
(* model on the whole pool (pairs and, per comparable family, triples).    *)
(* Role 2: one case per explored transition.                               *)
(*                                                                         *)
(* The machine walks the pool: state (a, b) is an ordered pair of pool     *)
(* indices (0 = empty operand); each step emits the cases of one pair.     *)
(***************************************************************************)
EXTENDS C05, Json

CONSTANTS Tier   \* "quick" | "thorough"

VARIABLES a, b, ph   \* ph: "pairs" while walking pairs, then "colls", then "done"
vars == <<a, b, ph>>

QuickOps == {"=", "<"}
OpsFor(x, y) == IF Tier = "thorough" THEN Ops ELSE Ops   \* lit/lit: always all six
ExtraOps == IF Tier = "thorough" THEN Ops ELSE QuickOps

EmitPair(x, y) ==
  /\ \A op \in Ops : PrintT(ToJson([id |-> CaseId(PairCase(op, x, "lit", y, "lit")), cs |-> PairCase(op, x, "lit", y, "lit")]))
  /\ IF x # 0 /\ y # 0
     THEN LET f == ExtraForms(x, y) IN
          /\ \A op \in ExtraOps : PrintT(ToJson([id |-> CaseId(PairCase(op, x, f[1], y, f[2])), cs |-> PairCase(op, x, f[1], y, f[2])]))
          \* both operands FHIR elements (values of one family: equal values in different representations meet here)
          /\ IF SameFamily(PoolV(x), PoolV(y)) /\ f # <<"elem", "elem">>
             THEN \A op \in {"=", "!=", "<="} : PrintT(ToJson([id |-> CaseId(PairCase(op, x, "elem", y, "elem")), cs |-> PairCase(op, x, "elem", y, "elem")]))
             ELSE TRUE
     ELSE TRUE

Init == a \in 0..NPool /\ b = 0 /\ ph = "pairs" /\ EmitPair(a, 0)

(* one chain per left operand, so that TLC's workers share the pool *)
NextPair ==
  /\ ph = "pairs" /\ b < NPool
  /\ a' = a /\ b' = b + 1 /\ ph' = "pairs"
  /\ EmitPair(a, b + 1)

ToColls ==
  /\ ph = "pairs" /\ a = NPool /\ b = NPool
  /\ ph' = "colls" /\ UNCHANGED <<a, b>>
  /\ \A c \in CollCases : PrintT(ToJson([id |-> CaseId(c), cs |-> c]))

Next == NextPair \/ ToColls
Spec == Init /\ [][Next]_vars

(****************************** laws (role 1) ******************************)
Idx == 1..NPool
Def(s) == s \ {"E", "X"}          \* definite answers
One(s) == CHOOSE v \in s : TRUE

(* evaluated once, at the current pair (a, b), over all partners c *)
HavePair == a # 0 /\ b # 0
X == PoolV(a)
Y == PoolV(b)

LawEqSymmetric   == HavePair => EqSet(X, Y) = EqSet(Y, X)
LawNeqIsNegation == HavePair => OpSet("!=", X, Y) = {Neg3(v) : v \in OpSet("=", X, Y)}
LawLtGtMirror    == HavePair => OpSet("<", X, Y) = OpSet(">", Y, X)
LawLeIsNotGt     == HavePair => OpSet("<=", X, Y) = {Neg3(v) : v \in OpSet(">", X, Y)}
LawTrichotomy    == HavePair =>
   \A e \in EqSet(X, Y), l \in LtSet(X, Y), g \in LtSet(Y, X) :
      Cardinality({z \in {<<"e", e>>, <<"l", l>>, <<"g", g>>} : z[2] = "T"}) <= 1
      \/ (Cardinality(EqSet(X, Y)) > 1)   \* latitude sets are not simultaneous answers
LawReflexive     == a # 0 => "T" \in EqSet(PoolV(a), PoolV(a)) /\ LtSet(PoolV(a), PoolV(a)) \subseteq {"F", "X", "E"}
LawTransitive    == HavePair /\ LtSet(X, Y) = {"T"} =>
   \A c \in Idx : LtSet(Y, PoolV(c)) = {"T"} /\ C05Pool[c].fam = C05Pool[a].fam /\ Cardinality(LtSet(X, PoolV(c))) = 1
                    => LtSet(X, PoolV(c)) \in {{"T"}, {"E"}}
LawEqCongruence  == HavePair /\ EqSet(X, Y) = {"T"} =>
   \A c \in Idx : Cardinality(LtSet(X, PoolV(c))) = 1 /\ Cardinality(LtSet(Y, PoolV(c))) = 1 /\ C05Pool[c].fam = C05Pool[a].fam
                    => (LtSet(X, PoolV(c)) = LtSet(Y, PoolV(c)) \/ "E" \in LtSet(X, PoolV(c)) \cup LtSet(Y, PoolV(c)))
LawEmptyOperand  == (a = 0 \/ b = 0) => \A op \in Ops : Permitted(PairCase(op, a, "lit", b, "lit")) = {Ok(<<>>)}

(* anchors that pin the semantics, stated independently of the definitions *)
LawOffsetSameDay ==   \* same calendar day, both with offsets, second precision: equal iff the UTC minute-of-day agrees
  HavePair /\ X.t = "dt" /\ Y.t = "dt" /\ X.tz /\ Y.tz /\ X.p >= 6 /\ Y.p >= 6
     /\ X.y = Y.y /\ X.mo = Y.mo /\ X.d = Y.d
     /\ X.h * 60 + X.mi - X.off \in 0..1439 /\ Y.h * 60 + Y.mi - Y.off \in 0..1439
  => EqSet(X, Y) = {IF X.h * 60 + X.mi - X.off = Y.h * 60 + Y.mi - Y.off /\ X.sec = Y.sec /\ X.ms = Y.ms THEN "T" ELSE "F"}
LawSecondMsOnePrecision ==
  HavePair /\ X.t = Y.t /\ X.t \in {"dt", "time"} /\ X.p >= 6 /\ Y.p >= 6 /\ ~MixedOffset(X, Y)
  => "E" \notin EqSet(X, Y) /\ "E" \notin LtSet(X, Y)
LawIntDecimalByValue ==
  HavePair /\ X.t = "i" /\ Y.t = "d" /\ Y.e >= 0 /\ NFitsInt(DCoefAt(DOfItem(Y), 0))
  => EqSet(X, Y) = {IF (IF Y.neg THEN 0 - NToInt(DCoefAt(DOfItem(Y), 0)) ELSE NToInt(DCoefAt(DOfItem(Y), 0))) = X.i THEN "T" ELSE "F"}
LawPartialIsEmpty ==  \* all shared components equal but precisions differ => empty (Dates)
  HavePair /\ X.t = "date" /\ Y.t = "date" /\ X.p < Y.p /\ X.y = Y.y /\ (X.p < 2 \/ X.mo = Y.mo)
  => EqSet(X, Y) = {"E"} /\ LtSet(X, Y) = {"E"}

(* collections: every pair matters, not only the first *)
LawCollEveryPair ==
  ph = "colls" =>
    \A c \in CollCases : c.op = "=" /\ Len(c.l) = Len(c.r) /\ Len(c.l) > 0 =>
       /\ ((\E j \in DOMAIN c.l : EqSet(TokItem[c.l[j]], TokItem[c.r[j]]) = {"F"}) => Ok(<<B(TRUE)>>) \notin Permitted(c))
       /\ ((\A j \in DOMAIN c.l : EqSet(TokItem[c.l[j]], TokItem[c.r[j]]) = {"T"}) => Permitted(c) = {Ok(<<B(TRUE)>>)})
=============================================================================
