-------------------------------- MODULE C16 --------------------------------
(***************************************************************************)
(* Property C16: every built-in function is callable under its             *)
(* specification name and arity.  Case space and oracle.                   *)
(*                                                                         *)
(* A case is (name, argument count 0..4, configuration).  For every case   *)
(* the harness records three kinds of observation:                         *)
(*   accept  the implementation's table entry for the name (read through   *)
(*           funcs.Clone / funcs.AddExperimentalFuncs) and whether Compile *)
(*           accepted the default call                                     *)
(*   eval    the outcome of evaluating the default call, when it compiled  *)
(*   probe   the outcome of each probe of (name, count)                    *)
(* Names that occur only in the implementation's tables get harness-made   *)
(* cases (origin "impl") judged by the same rules as far as they apply.    *)
(***************************************************************************)
EXTENDS FPFunctions, FPBigNum, Json

Counts == 0..4

CaseOf(f, c, cfg) ==
  LET ps == IF f.status = "notImplemented" THEN <<>> ELSE ProbesAt(f, c)
  IN [id     |-> f.name \o "/c" \o ToString(c) \o "/" \o cfg,
      name   |-> f.name, count |-> c, cfg |-> cfg, origin |-> "spec",
      text   |-> DefaultText(f, c),
      probes |-> [j \in 1..Len(ps) |-> ProbeText(f, ps[j])]]

(* ------------------------------------------------------------------------ *)
(* Matching an observed result with a probe's expectation                   *)
(* ------------------------------------------------------------------------ *)
CountSame(items, x) == Cardinality({j \in 1..Len(items) : ItemSame(items[j], x)})
Unordered(obs, exp) ==
  /\ Len(obs) = Len(exp)
  /\ \A j \in 1..Len(exp) : CountSame(obs, exp[j]) = CountSame(exp, exp[j])

Tolerance == [neg |-> FALSE, m |-> <<1>>, e |-> -8]
AsDec(it) == IF it.t = "i" THEN DFromInt(it.i) ELSE [neg |-> it.neg, m |-> it.m, e |-> it.e]
NumClose(it, exp) ==
  /\ it.t \in {"i", "d"}
  /\ DLe(DAbs(DAdd(AsDec(it), DNeg(AsDec(exp)))), Tolerance)

Matches(items, p) ==
  CASE p.mode = "exact"     -> SeqSame(items, p.exp)
    [] p.mode = "unordered" -> Unordered(items, p.exp)
    [] p.mode = "num"       -> Len(items) = 1 /\ NumClose(items[1], p.exp[1])
    [] p.mode = "type"      -> Len(items) = 1 /\ items[1].t = p.exp[1].t

(* short ASCII rendering of a result for signatures: type tags, with the value of Booleans and Integers *)
ItemStr(it) == CASE it.t = "b" -> (IF it.b THEN "true" ELSE "false")
                 [] it.t = "i" -> "i" \o ToString(it.i)
                 [] OTHER      -> it.t
RECURSIVE TypeStr(_, _)
TypeStr(items, j) == IF j > Len(items) \/ j > 6 THEN "" ELSE ItemStr(items[j]) \o (IF j < Len(items) THEN "," ELSE "") \o TypeStr(items, j + 1)
=============================================================================
