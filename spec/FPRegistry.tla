----------------------------- MODULE FPRegistry -----------------------------
(***************************************************************************)
(* Function tables, Compile calls, option folding, evaluation contexts,    *)
(* the clock and goroutines of fhirpath-go (DESIGN.md section 4, Appendix  *)
(* D "Compile / options / contexts").  One action per implementation       *)
(* critical section:                                                       *)
(*                                                                         *)
(*   funcs.Clone() in compile.PopulateConfig        CloneTable(c)          *)
(*   each opts.ApplyOptions iteration (Compile)     ApplyCompileOpt(c)     *)
(*   compile.Tree + visitor                         Parse(c)               *)
(*   expr.InitializeContext                         EvalInit(v)            *)
(*   each opts.ApplyOptions iteration (Evaluate)    ApplyEvalOpt(v)        *)
(*   one node evaluation                            NodeStep(v)            *)
(*   time.Now()                                     Tick                   *)
(*                                                                         *)
(* The specification has two layers.  The PURE layer (module               *)
(* FPRegistryCore: tables, FoldCompileOpt, FoldEvalOpt, NodeItem,          *)
(* CompileDen, EvalDen) is the reference semantics shared by this machine, *)
(* by the record judge (C04_Judge) and by the trace specification          *)
(* (C04_Trace).  This module is the MACHINE layer, the interleaving model: *)
(* c ranges over Compile slots, v over goroutines each making one Evaluate *)
(* call at a time on an expression of the shared store `exprs`.            *)
(*                                                                         *)
(* Mutant selects a deliberately wrong implementation design; each one     *)
(* must violate at least one of the properties at the end of the module.   *)
(*   sharedTable        Clone returns the base table itself                *)
(*   expMutatesBase     AddExperimentalFuncs writes into the base table    *)
(*   registerOverwrites Register replaces an existing entry                *)
(*   nodeCache          an expression node memoises its first result       *)
(*   clockPerCall       now()/today()/timeOfDay() read the clock           *)
(*   tzFromProcess      the default instant is rendered in the process TZ  *)
(*   sharedEnv          InitializeContext reuses one package-level env map *)
(*   firstErrorOnly     an option error does not stop Evaluate             *)
(***************************************************************************)
EXTENDS FPRegistryCore

CONSTANTS CSlots,       \* Compile slots (one Compile call in flight per slot)
          VSlots,       \* goroutines (one Evaluate call in flight per slot)
          MaxTicks,     \* bound on Tick
          TZs,          \* process time-zone offsets a behaviour may run under
          CompileMenu,  \* CompileMenu[c]: the Compile calls slot c may make
          EvalMenu,     \* EvalMenu[v]: the Evaluate calls goroutine v may make
          Sequential,   \* TRUE: a Compile call begins only when the lower slots are finished
          Grain,        \* "node": one step per node; "gate": one step runs up to the next gate
          KeepHist      \* TRUE: hist records every step (generators); FALSE: hist stays empty

----------------------------------------------------------------------------
(* MACHINE LAYER *)

VARIABLES base, exper,   \* the process-wide tables
          sharedEnv,     \* (mutant sharedEnv only) the package-level environment map
          tz, clock, ticks,
          cs,            \* cs[c]: state of the Compile call in slot c
          exprs,         \* the store of compiled expressions, by expression id
          es,            \* es[v]: state of the Evaluate call of goroutine v
          cache,         \* (mutant nodeCache only) memo of <<expression id, node>>
          last,          \* the step just taken (for action properties)
          hist           \* history of steps (hidden by VIEW)

vars == <<base, exper, sharedEnv, tz, clock, ticks, cs, exprs, es, cache, last, hist>>
View == <<base, exper, sharedEnv, tz, clock, ticks, cs, exprs, es, cache>>   \* last and hist are not part of the semantic state

NoCCall == [api |-> "", opts |-> <<>>, prog |-> <<>>, eid |-> 0]
IdleC == [pc |-> "idle", call |-> NoCCall, k |-> 0, shared |-> FALSE, cfg |-> Cfg0(EmptyTable), out |-> "none"]
NoECall == [eid |-> 0, r |-> 0, opts |-> <<>>]
NoCtx == Ctx0(EmptyTable, 0, 0)
IdleE == [pc |-> "idle", call |-> NoECall, k |-> 0, n |-> 0, ctx |-> NoCtx, acc |-> <<>>, res |-> NoRes, t1 |-> 0]

NoStep == [act |-> "init", id |-> 0, k |-> 0]
Step(a, id, k) == [act |-> a, id |-> id, k |-> k]

Init ==
  /\ base = BaseTable /\ exper = ExperTable /\ sharedEnv = EmptyTable
  /\ tz \in TZs /\ clock = 0 /\ ticks = 0
  /\ cs = [c \in CSlots |-> IdleC]
  /\ exprs = EmptyTable
  /\ es = [v \in VSlots |-> IdleE]
  /\ cache = EmptyTable
  /\ last = NoStep /\ hist = <<>>

(* the calls are fixed at the start (model checking: Begin is not a critical section) *)
InitChosen ==
  /\ base = BaseTable /\ exper = ExperTable /\ sharedEnv = EmptyTable
  /\ tz \in TZs /\ clock = 0 /\ ticks = 0
  /\ cs \in [CSlots -> {[IdleC EXCEPT !.pc = "begun", !.call = call] : call \in UNION {CompileMenu[c] : c \in CSlots}}]
  /\ \A c \in CSlots : cs[c].call \in CompileMenu[c]
  /\ exprs = EmptyTable
  /\ es \in [VSlots -> {[IdleE EXCEPT !.pc = "begun", !.call = call] : call \in UNION {EvalMenu[v] : v \in VSlots}}]
  /\ \A v \in VSlots : es[v].call \in EvalMenu[v]
  /\ cache = EmptyTable
  /\ last = NoStep /\ hist = <<>>

Took(s) == last' = s /\ hist' = IF KeepHist THEN Append(hist, s) ELSE hist

(* the table a Compile call works on: its own copy, or (mutant) the base *)
TblOf(c) == IF cs[c].shared THEN base ELSE cs[c].cfg.tbl
CfgView(c) == [cs[c].cfg EXCEPT !.tbl = TblOf(c)]

BeginCompileWith(c, call) ==
  /\ cs[c].pc = "idle"
  /\ Sequential => \A d \in CSlots : d < c => cs[d].pc \in {"done", "failed"}
  /\ cs' = [cs EXCEPT ![c] = [IdleC EXCEPT !.pc = "begun", !.call = call]]
  /\ Took(Step("BeginCompile", c, 0))
  /\ UNCHANGED <<base, exper, sharedEnv, tz, clock, ticks, exprs, es, cache>>
BeginCompile(c) == cs[c].pc = "idle" /\ \E call \in CompileMenu[c] : BeginCompileWith(c, call)

CloneTable(c) ==
  /\ cs[c].pc = "begun"
  /\ Sequential => \A d \in CSlots : d < c => cs[d].pc \in {"done", "failed"}
  /\ cs' = [cs EXCEPT ![c].pc = "cloned",
                      ![c].shared = (Mutant = "sharedTable"),
                      ![c].cfg = Cfg0(IF Mutant = "sharedTable" THEN EmptyTable ELSE base)]
  /\ Took(Step("CloneTable", c, 0))
  /\ UNCHANGED <<base, exper, sharedEnv, tz, clock, ticks, exprs, es, cache>>

ApplyCompileOpt(c) ==
  /\ cs[c].pc = "cloned" /\ cs[c].k < Len(EffOpts(cs[c].call))
  /\ LET k   == cs[c].k + 1
         opt == EffOpts(cs[c].call)[k]
         nc  == FoldCompileOpt(CfgView(c), opt, cs[c].call.eid, k, exper)
     IN /\ IF cs[c].shared
             THEN /\ base' = nc.tbl
                  /\ cs' = [cs EXCEPT ![c].k = k, ![c].cfg = [nc EXCEPT !.tbl = EmptyTable]]
             ELSE /\ base' = IF Mutant = "expMutatesBase" /\ opt.o = "exp" THEN base @@ exper ELSE base
                  /\ cs' = [cs EXCEPT ![c].k = k, ![c].cfg = nc]
        /\ Took(Step("ApplyCompileOpt", c, k))
  /\ UNCHANGED <<exper, sharedEnv, tz, clock, ticks, exprs, es, cache>>

Parse(c) ==
  /\ cs[c].pc = "cloned" /\ cs[c].k = Len(EffOpts(cs[c].call))
  /\ LET ex == ParseWith(cs[c].call, CfgView(c))
     IN /\ cs' = [cs EXCEPT ![c].pc = IF ex.ok THEN "done" ELSE "failed", ![c].out = IF ex.ok THEN "ok" ELSE "cerr"]
        /\ exprs' = IF ex.ok THEN (cs[c].call.eid :> ex) @@ exprs ELSE exprs
  /\ Took(Step("Parse", c, 0))
  /\ UNCHANGED <<base, exper, sharedEnv, tz, clock, ticks, es, cache>>

(* the slot is handed back (trace specification only) *)
ReturnCompile(c) ==
  /\ cs[c].pc \in {"done", "failed"}
  /\ cs' = [cs EXCEPT ![c] = IdleC]
  /\ Took(Step("ReturnCompile", c, 0))
  /\ UNCHANGED <<base, exper, sharedEnv, tz, clock, ticks, exprs, es, cache>>

BeginEvalWith(v, call) ==
  /\ es[v].pc = "idle"
  /\ es' = [es EXCEPT ![v] = [IdleE EXCEPT !.pc = "begun", !.call = call]]
  /\ Took(Step("BeginEval", v, 0))
  /\ UNCHANGED <<base, exper, sharedEnv, tz, clock, ticks, cs, exprs, cache>>
BeginEval(v) == es[v].pc = "idle" /\ \E call \in EvalMenu[v] : BeginEvalWith(v, call)

EnvOf(v) == IF Mutant = "sharedEnv" THEN sharedEnv ELSE es[v].ctx.env
CtxView(v) == [es[v].ctx EXCEPT !.env = EnvOf(v)]

EvalInit(v) ==
  /\ es[v].pc = "begun" /\ es[v].call.eid \in DOMAIN exprs
  /\ LET env0 == Env0(es[v].call.r)
     IN /\ es' = [es EXCEPT ![v].pc = "inited",
                            ![v].ctx = Ctx0(IF Mutant = "sharedEnv" THEN EmptyTable ELSE env0,
                                            clock, IF Mutant = "tzFromProcess" THEN tz ELSE 0)]
        /\ sharedEnv' = IF Mutant = "sharedEnv" THEN env0 @@ sharedEnv ELSE sharedEnv
  /\ Took(Step("EvalInit", v, 0))
  /\ UNCHANGED <<base, exper, tz, clock, ticks, cs, exprs, cache>>

ApplyEvalOpt(v) ==
  /\ es[v].pc = "inited" /\ es[v].k < Len(es[v].call.opts)
  /\ LET k  == es[v].k + 1
         nc == FoldEvalOpt(CtxView(v), es[v].call.opts[k])
     IN /\ IF Mutant = "sharedEnv"
             THEN sharedEnv' = nc.env /\ es' = [es EXCEPT ![v].k = k, ![v].ctx = [nc EXCEPT !.env = EmptyTable]]
             ELSE sharedEnv' = sharedEnv /\ es' = [es EXCEPT ![v].k = k, ![v].ctx = nc]
        /\ Took(Step("ApplyEvalOpt", v, k))
  /\ UNCHANGED <<base, exper, tz, clock, ticks, cs, exprs, cache>>

(* all options applied: the accumulated error ends the call before any node runs *)
OptsDone(v) == es[v].pc = "inited" /\ es[v].k = Len(es[v].call.opts)
FailOnOptionError(v) ==
  /\ OptsDone(v) /\ es[v].ctx.errs > 0 /\ Mutant # "firstErrorOnly"
  /\ es' = [es EXCEPT ![v].pc = "failed", ![v].res = ErrRes, ![v].t1 = clock]
  /\ Took(Step("FailOnOptionError", v, 0))
  /\ UNCHANGED <<base, exper, sharedEnv, tz, clock, ticks, cs, exprs, cache>>
Runnable(v) == es[v].pc = "running" \/ (OptsDone(v) /\ (es[v].ctx.errs = 0 \/ Mutant = "firstErrorOnly"))

(* One node.  st is the evaluation's state, ch the node cache; returns both. *)
NodeOnce(v, st, ch) ==
  LET ex   == exprs[st.call.eid]
      i    == st.n
      key  == <<st.call.eid, i>>
      now  == IF Mutant = "clockPerCall" THEN Instant(clock, 0) ELSE st.ctx.now
      own  == NodeItem(ex.prog[i], i, ex, [st.ctx EXCEPT !.env = EnvOf(v)], st.call.r, now)
      it   == IF Mutant = "nodeCache" /\ key \in DOMAIN ch THEN ch[key] ELSE own
      nch  == IF Mutant = "nodeCache" /\ key \notin DOMAIN ch THEN (key :> own) @@ ch ELSE ch
  IN IF it.t = "err"
       THEN [st |-> [st EXCEPT !.pc = "failed", !.res = ErrRes, !.t1 = clock], ch |-> nch]
       ELSE IF i = Len(ex.prog)
              THEN [st |-> [st EXCEPT !.pc = "done", !.acc = AddItem(@, it), !.n = i + 1,
                                      !.res = OkRes(AddItem(st.acc, it)), !.t1 = clock], ch |-> nch]
              ELSE [st |-> [st EXCEPT !.acc = AddItem(@, it), !.n = i + 1], ch |-> nch]

(* Grain = "gate": keep going until the node just evaluated was a gate or the call ended *)
RECURSIVE NodeRun(_, _, _)
NodeRun(v, st, ch) ==
  LET r == NodeOnce(v, st, ch)
      justDone == exprs[st.call.eid].prog[st.n]
  IN IF Grain = "node" \/ r.st.pc # "running" \/ justDone.n = "gate" THEN r
     ELSE NodeRun(v, r.st, r.ch)

NodeStep(v) ==
  /\ Runnable(v)
  /\ LET r == NodeRun(v, [es[v] EXCEPT !.pc = "running", !.n = IF es[v].pc = "running" THEN @ ELSE 1], cache)
     IN es' = [es EXCEPT ![v] = r.st] /\ cache' = r.ch
  /\ Took(Step("NodeStep", v, IF es[v].pc = "running" THEN es[v].n ELSE 1))
  /\ UNCHANGED <<base, exper, sharedEnv, tz, clock, ticks, cs, exprs>>

ReturnEval(v) ==
  /\ es[v].pc \in {"done", "failed"}
  /\ es' = [es EXCEPT ![v] = IdleE]
  /\ Took(Step("ReturnEval", v, 0))
  /\ UNCHANGED <<base, exper, sharedEnv, tz, clock, ticks, cs, exprs, cache>>

Tick ==
  /\ ticks < MaxTicks
  /\ clock' = clock + 1 /\ ticks' = ticks + 1
  /\ Took(Step("Tick", 0, 0))
  /\ UNCHANGED <<base, exper, sharedEnv, tz, cs, exprs, es, cache>>

CompileStep(c) == BeginCompile(c) \/ CloneTable(c) \/ ApplyCompileOpt(c) \/ Parse(c)
EvalStep(v) == BeginEval(v) \/ EvalInit(v) \/ ApplyEvalOpt(v) \/ FailOnOptionError(v) \/ NodeStep(v)
Next == (\E c \in CSlots : CompileStep(c)) \/ (\E v \in VSlots : EvalStep(v)) \/ Tick
Spec == Init /\ [][Next]_vars
SpecChosen == InitChosen /\ [][Next]_vars

----------------------------------------------------------------------------
(* PROPERTIES (C04) *)

(* The process-wide tables never change after initialisation. *)
BaseTableFrozen == [][base' = base /\ exper' = exper]_vars

(* A name registered in Compile call e is visible in exactly the expression *)
(* compiled by e: every custom entry of a call's table, and every custom    *)
(* binding of a stored expression, was put there by that very call.         *)
CompileIsolation ==
  /\ \A c \in CSlots : cs[c].pc \notin {"idle", "begun"} =>
        \A n \in DOMAIN TblOf(c) : TblOf(c)[n].src = "custom" => TblOf(c)[n].c = cs[c].call.eid
  /\ \A e \in DOMAIN exprs : \A i \in DOMAIN exprs[e].bind :
        exprs[e].bind[i].src = "custom" => exprs[e].bind[i].c = e
  /\ \A c \in CSlots : cs[c].pc \in {"done", "failed"} =>
        (cs[c].out = "ok") = CompileDen(cs[c].call, cs[c].call.eid).ok

(* Built-in functions can be neither replaced nor altered: every table a    *)
(* Compile call sees maps each built-in name to the built-in, and a Register *)
(* on an existing name fails and changes nothing.                           *)
BuiltinsProtected ==
  /\ \A n \in BuiltinNames : n \in DOMAIN base /\ base[n] = BaseTable[n]
  /\ \A c \in CSlots : cs[c].pc \notin {"idle", "begun"} =>
        \A n \in BuiltinNames : n \in DOMAIN TblOf(c) /\ TblOf(c)[n] = BaseTable[n]
  /\ \A e \in DOMAIN exprs : \A i \in DOMAIN exprs[e].bind :
        exprs[e].prog[i].name \in BuiltinNames => exprs[e].bind[i] = BaseTable[exprs[e].prog[i].name]
RegisterRefusesExisting ==
  [][\A c \in CSlots :
       (last'.act = "ApplyCompileOpt" /\ last'.id = c) =>
          LET opt == EffOpts(cs[c].call)[last'.k]
          IN (opt.o = "add" /\ opt.name \in DOMAIN TblOf(c)) =>
               /\ cs'[c].cfg.errs = cs[c].cfg.errs + 1
               /\ (IF cs'[c].shared THEN base' ELSE cs'[c].cfg.tbl) = TblOf(c)]_vars

(* Within one evaluation the three time functions denote one instant: the   *)
(* OverrideTime value when given, otherwise the clock at EvalInit in UTC.    *)
OneInstantPerEval ==
  \A v \in VSlots : es[v].pc \in {"running", "done", "failed"} =>
     LET want == InstantDen(es[v].call.opts, 1, Instant(es[v].ctx.t0, 0))
     IN /\ \A i \in 1..Len(es[v].acc) : IsTimeItem(es[v].acc[i]) =>
              es[v].acc[i].a = want.inst /\ es[v].acc[i].b = want.off
        /\ es[v].ctx.t0 <= clock

(* The result is a function of text, compile options, input and evaluate    *)
(* options (and the starting instant): independent of the interleaving, of   *)
(* other calls and of the process time zone.                                 *)
Determinism ==
  \A v \in VSlots : es[v].pc \in {"done", "failed"} =>
     es[v].res = EvalDen(exprs[es[v].call.eid], es[v].call, es[v].ctx.t0)
(* ... and an expression is a function of its Compile call *)
ExprIsFunctionOfCall ==
  \A c \in CSlots : cs[c].pc = "done" => exprs[cs[c].call.eid] = CompileDen(cs[c].call, cs[c].call.eid)

(* An option error ends Evaluate before any node runs. *)
OptionErrorBlocksEval ==
  \A v \in VSlots : (es[v].pc \in {"running", "done"} => es[v].ctx.errs = 0)
                    /\ (es[v].pc = "failed" /\ es[v].ctx.errs > 0 => es[v].acc = <<>>)

TypeOK ==
  /\ \A c \in CSlots : cs[c].pc \in {"idle", "begun", "cloned", "done", "failed"}
  /\ \A v \in VSlots : es[v].pc \in {"idle", "begun", "inited", "running", "done", "failed"}
  /\ \A v \in VSlots : es[v].pc = "running" => es[v].n \in 1..Len(exprs[es[v].call.eid].prog)
  /\ clock \in 0..MaxTicks
=============================================================================
