------------------------------ MODULE FPPatch ------------------------------
(***************************************************************************)
(* FHIRPatch on the annotated FHIR JSON tree (DESIGN.md 3.1, 4, 6/C18).     *)
(*                                                                         *)
(* A tree node is a record                                                 *)
(*   [n, jn, ty, k, pn, li, cx, v, h, ch]                                  *)
(* n  FHIRPath name (choice suffix stripped)   jn JSON name                *)
(* ty FHIR type   k prim|complex|backbone|resource   pn proto type name    *)
(* li element of a repeated field   cx reached through a choice            *)
(* v  abstract primitive value      ch children (a sequence)               *)
(* h  content hash of the subtree as rendered by the harness, or "" when   *)
(*    the node was (re)built by this specification ("dirty": compare       *)
(*    structurally).  JSON objects are unordered: the order of children    *)
(*    is significant only among children with the same name.               *)
(*                                                                         *)
(* An address is the sequence of child positions from the root.            *)
(*                                                                         *)
(* The module is pure: Nav (where a structured path points), Classify (is  *)
(* a value of the declared type, a sibling type, a wrong type), Expect     *)
(* (what the property permits for one operation on one tree) and Match     *)
(* (tree equality through hashes).  Mutant selects a deliberately wrong    *)
(* machine for the model-checking twins.                                   *)
(***************************************************************************)
EXTENDS FPValues

CONSTANT Mutant

----------------------------------------------------------------------------
(* Sequences and trees *)

Front(a)  == SubSeq(a, 1, Len(a) - 1)
LastOf(a) == a[Len(a)]
InsertAt(s, i, x) == SubSeq(s, 1, i) \o <<x>> \o SubSeq(s, i + 1, Len(s))   \* x becomes element i+1, 0 <= i <= Len(s)
RemoveAt(s, i)    == SubSeq(s, 1, i - 1) \o SubSeq(s, i + 1, Len(s))
IsPrefix(p, a)    == Len(p) <= Len(a) /\ SubSeq(a, 1, Len(p)) = p

RECURSIVE Flat(_)
Flat(ss) == IF Len(ss) = 0 THEN <<>> ELSE ss[1] \o Flat(Tail(ss))

RECURSIVE NodeAt(_, _)
NodeAt(t, a) == IF Len(a) = 0 THEN t ELSE NodeAt(t.ch[a[1]], Tail(a))

RECURSIVE ValidAddr(_, _)
ValidAddr(t, a) == Len(a) = 0 \/ (a[1] \in 1..Len(t.ch) /\ ValidAddr(t.ch[a[1]], Tail(a)))

(* positions of the children called name, ascending *)
Positions(ch, name) == SelectSeq([i \in 1..Len(ch) |-> i], LAMBDA i : ch[i].n = name)
Group(ch, name)     == SelectSeq(ch, LAMBDA c : c.n = name)
Kids(t, a, name)    == LET ps == Positions(NodeAt(t, a).ch, name) IN [j \in 1..Len(ps) |-> a \o <<ps[j]>>]

(* addresses in document order *)
RECURSIVE AddrSeq(_)
AddrSeq(t) == <<<<>>>> \o Flat([i \in 1..Len(t.ch) |-> LET s == AddrSeq(t.ch[i]) IN [j \in 1..Len(s) |-> <<i>> \o s[j]]])

(* rebuild the node at address a with new children; the spine becomes dirty *)
RECURSIVE SetKids(_, _, _)
SetKids(t, a, kids) ==
  IF Len(a) = 0 THEN [t EXCEPT !.ch = kids, !.h = ""]
  ELSE [t EXCEPT !.ch = [t.ch EXCEPT ![a[1]] = SetKids(t.ch[a[1]], Tail(a), kids)], !.h = ""]

----------------------------------------------------------------------------
(* ASCII: code points <-> TLA+ strings (TLC strings cannot be indexed) *)

Chr == << " ", "!", "\"", "#", "$", "%", "&", "'", "(", ")", "*", "+", ",", "-", ".", "/",
          "0", "1", "2", "3", "4", "5", "6", "7", "8", "9", ":", ";", "<", "=", ">", "?",
          "@", "A", "B", "C", "D", "E", "F", "G", "H", "I", "J", "K", "L", "M", "N", "O",
          "P", "Q", "R", "S", "T", "U", "V", "W", "X", "Y", "Z", "[", "\\", "]", "^", "_",
          "`", "a", "b", "c", "d", "e", "f", "g", "h", "i", "j", "k", "l", "m", "n", "o",
          "p", "q", "r", "s", "t", "u", "v", "w", "x", "y", "z", "{", "|", "}", "~" >>

RECURSIVE Str(_)
Str(cps) == IF Len(cps) = 0 THEN ""
            ELSE (IF cps[1] \in 32..126 THEN Chr[cps[1] - 31] ELSE "?") \o Str(Tail(cps))

(* the string of a primitive value: code points from the harness, or a     *)
(* symbolic string in the model ([t |-> "sym", s |-> "..."])                *)
ValStr(v) == IF v.t = "s" THEN Str(v.cp) ELSE IF v.t = "sym" THEN v.s ELSE ""

----------------------------------------------------------------------------
(* Structured paths.  A step is [k, s, x, i]:                              *)
(*   root s=type | field s=name | index i | where s=child x=literal        *)
(*   first | last | ext x=url | value | concat x | count | skip i | take i *)

RenderStep(st, isFirst) ==
  CASE st.k = "root"   -> st.s
    [] st.k = "field"  -> (IF isFirst THEN "" ELSE ".") \o st.s
    [] st.k = "index"  -> "[" \o ToString(st.i) \o "]"
    [] st.k = "where"  -> ".where(" \o st.s \o " = '" \o st.x \o "')"
    [] st.k = "first"  -> ".first()"
    [] st.k = "last"   -> ".last()"
    [] st.k = "ext"    -> ".extension('" \o st.x \o "')"
    [] st.k = "value"  -> ".value"
    [] st.k = "concat" -> " & '" \o st.x \o "'"
    [] st.k = "count"  -> ".count()"
    [] st.k = "skip"   -> ".skip(" \o ToString(st.i) \o ")"
    [] st.k = "take"   -> ".take(" \o ToString(st.i) \o ")"
    [] OTHER           -> "?"

RECURSIVE RenderFrom(_, _)
RenderFrom(p, j) == IF j > Len(p) THEN "" ELSE RenderStep(p[j], j = 1) \o RenderFrom(p, j + 1)
Render(p) == RenderFrom(p, 1)

PS(k, s, x, i) == [k |-> k, s |-> s, x |-> x, i |-> i]
RootS(ty)  == PS("root", ty, "", 0)
FieldS(n)  == PS("field", n, "", 0)
IndexS(i)  == PS("index", "", "", i)

----------------------------------------------------------------------------
(* The schema: sch[pn] is the sequence of element fields of proto type pn, *)
(* each [n, list, choice, anyres, alts], alts a sequence of                *)
(* [pn, jn, ty, k, codes] (read from the google/fhir descriptors).         *)

FieldOk(sch, pn, name)  == pn \in DOMAIN sch /\ \E i \in 1..Len(sch[pn]) : sch[pn][i].n = name
GetField(sch, pn, name) == sch[pn][CHOOSE i \in 1..Len(sch[pn]) : sch[pn][i].n = name]

----------------------------------------------------------------------------
(* Nav: where a path points.  The result is                                *)
(*   [k |-> "nodes", a |-> addresses in order]   elements of the tree      *)
(*   [k |-> "sys"]     a System value / computed result (not an element)   *)
(*   [k |-> "bad"]     a name that is no element of any focus item         *)

(* het: some step named an element that exists for some focus items only  *)
(* (a heterogeneous focus, e.g. Bundle entries): DESIGN.md 7.1 leaves the  *)
(* outcome open, so a must-succeed verdict is weakened to "either".        *)
NavH(k, a, het) == [k |-> k, a |-> a, het |-> het]
NavR(k, a) == NavH(k, a, FALSE)

HasUrl(node, url) == \E i \in 1..Len(node.ch) : node.ch[i].n = "url" /\ ValStr(node.ch[i].v) = url

StepNav(t, sch, cur, st) ==
  IF cur.k # "nodes" THEN cur
  ELSE LET f == cur.a
           NR(k, a) == NavH(k, a, cur.het)
       IN
    CASE st.k = "root"  -> NR("nodes", SelectSeq(f, LAMBDA a : NodeAt(t, a).ty = st.s))
      [] st.k = "field" ->
           IF Len(f) = 0 THEN cur
           ELSE IF st.s = "value" /\ \A j \in 1..Len(f) : NodeAt(t, f[j]).k = "prim" THEN NR("sys", <<>>)
           ELSE IF \A j \in 1..Len(f) : ~FieldOk(sch, NodeAt(t, f[j]).pn, st.s) THEN NR("bad", <<>>)
           ELSE NavH("nodes", Flat([j \in 1..Len(f) |-> Kids(t, f[j], st.s)]),
                     cur.het \/ \E j \in 1..Len(f) : ~FieldOk(sch, NodeAt(t, f[j]).pn, st.s))
      [] st.k = "index" -> IF st.i >= 0 /\ st.i < Len(f) THEN NR("nodes", <<f[st.i + 1]>>) ELSE NR("nodes", <<>>)
      [] st.k = "first" -> IF Len(f) > 0 THEN NR("nodes", <<f[1]>>) ELSE cur
      [] st.k = "last"  -> IF Len(f) > 0 THEN NR("nodes", <<f[Len(f)]>>) ELSE cur
      [] st.k = "skip"  -> IF st.i <= 0 THEN cur ELSE IF st.i >= Len(f) THEN NR("nodes", <<>>)
                           ELSE NR("nodes", SubSeq(f, st.i + 1, Len(f)))
      [] st.k = "take"  -> IF st.i <= 0 THEN NR("nodes", <<>>)
                           ELSE NR("nodes", SubSeq(f, 1, IF st.i < Len(f) THEN st.i ELSE Len(f)))
      [] st.k = "where" ->
           NR("nodes", SelectSeq(f, LAMBDA a :
              LET ks == Kids(t, a, st.s)
              IN Len(ks) = 1 /\ LET c == NodeAt(t, ks[1]) IN c.v.t \in {"s", "sym"} /\ ValStr(c.v) = st.x))
      [] st.k = "ext"   ->
           NR("nodes", Flat([j \in 1..Len(f) |->
              SelectSeq(Kids(t, f[j], "extension"), LAMBDA e : HasUrl(NodeAt(t, e), st.x))]))
      [] st.k = "value" -> IF Len(f) = 0 THEN cur ELSE NR("sys", <<>>)
      [] st.k \in {"concat", "count"} -> NR("sys", <<>>)
      [] OTHER -> NR("bad", <<>>)

RECURSIVE NavFrom(_, _, _, _, _)
NavFrom(t, sch, p, j, cur) == IF j > Len(p) THEN cur ELSE NavFrom(t, sch, p, j + 1, StepNav(t, sch, cur, p[j]))
Nav(t, sch, p) == NavFrom(t, sch, p, 1, NavR("nodes", <<<<>>>>))

----------------------------------------------------------------------------
(* Value classes (DESIGN.md 7.1, C18).  A value is                         *)
(*   [nil, pn, ty, k, h, v]   (what the harness built, or the model's)     *)

StrLike == {"string", "code", "id", "uri", "url", "canonical", "markdown", "oid", "uuid"}
IntLike == {"integer", "positiveInt", "unsignedInt"}
Family(ty) == IF ty \in StrLike THEN "str" ELSE IF ty \in IntLike THEN "int" ELSE "other"

RightAlts(fld, val) == {i \in 1..Len(fld.alts) : fld.alts[i].pn = val.pn}
SibAlts(fld, val)   == {i \in 1..Len(fld.alts) : Family(val.ty) # "other" /\ Family(fld.alts[i].ty) = Family(val.ty)}
SibBad(alt, val) ==
  \/ Len(alt.codes) > 0 /\ ValStr(val.v) \notin Range(alt.codes)
  \/ alt.ty \in {"positiveInt", "unsignedInt"} /\ val.v.t = "i" /\ val.v.i < 0
GoodSibAlts(fld, val) == {i \in SibAlts(fld, val) : ~SibBad(fld.alts[i], val)}

Classify(val, fld) ==
  IF val.nil THEN "nil"
  ELSE IF fld.anyres THEN (IF val.k = "resource" THEN "right" ELSE "wrong")
  ELSE IF RightAlts(fld, val) # {} THEN "right"
  ELSE IF val.k = "prim" /\ SibAlts(fld, val) # {} THEN (IF GoodSibAlts(fld, val) = {} THEN "sibbad" ELSE "sib")
  ELSE "wrong"

(* The node the value becomes at field fld.  dn is the value's own subtree  *)
(* (the donor's, with hashes); a converted sibling value is a fresh         *)
(* primitive of the declared type carrying the same value.                  *)
RightNode(fld, jn, dn) ==
  [n |-> fld.n, jn |-> jn, ty |-> dn.ty, k |-> dn.k, pn |-> dn.pn, li |-> fld.list, cx |-> fld.choice,
   v |-> dn.v, h |-> dn.h, ch |-> dn.ch]
ConvNode(fld, alt, val) ==
  [n |-> fld.n, jn |-> alt.jn, ty |-> alt.ty, k |-> alt.k, pn |-> alt.pn, li |-> fld.list, cx |-> fld.choice,
   v |-> val.v, h |-> "", ch |-> <<>>]

(* the set of nodes the value may become (one for a value of the declared   *)
(* type; one per admissible conversion for a sibling type)                  *)
ValueNodes(fld, val, dn) ==
  LET c == Classify(val, fld) IN
  IF c = "right" THEN
      IF fld.anyres THEN {RightNode(fld, fld.n, dn)}
      ELSE {RightNode(fld, fld.alts[i].jn, dn) : i \in RightAlts(fld, val)}
  ELSE IF c = "sib" THEN {ConvNode(fld, fld.alts[i], val) : i \in GoodSibAlts(fld, val)}
  ELSE {}

----------------------------------------------------------------------------
(* Tree equality through hashes.  o is a complete tree; e may contain      *)
(* dirty nodes (h = ""), which are compared structurally.                  *)

OwnEq(o, e) == /\ o.n = e.n /\ o.jn = e.jn /\ o.ty = e.ty /\ o.k = e.k /\ o.pn = e.pn
               /\ o.li = e.li /\ o.cx = e.cx /\ o.v = e.v

RECURSIVE Match(_, _)
KidsMatch(och, ech) ==
  /\ Len(och) = Len(ech)
  /\ \A name \in {och[i].n : i \in 1..Len(och)} \cup {ech[i].n : i \in 1..Len(ech)} :
        LET og == Group(och, name)
            eg == Group(ech, name)
        IN Len(og) = Len(eg) /\ \A i \in 1..Len(og) : Match(og[i], eg[i])
Match(o, e) ==
  \/ /\ e.h # "" /\ o.h = e.h
     /\ o.pn = e.pn /\ o.n = e.n /\ o.jn = e.jn /\ o.li = e.li /\ o.cx = e.cx
  \/ OwnEq(o, e) /\ KidsMatch(o.ch, e.ch)

----------------------------------------------------------------------------
(* The four edits on the JSON tree, at an address.  These are the           *)
(* operational definitions (rebuild the parent's children); PatchFrame      *)
(* below states independently what they must achieve.                       *)

GroupPos(ch, i) == Cardinality({j \in 1..(i - 1) : ch[j].n = ch[i].n})     \* 0-based index among same-named siblings

AddChild(t, a, vn) ==
  LET ch == NodeAt(t, a).ch
      ps == Positions(ch, vn.n)
      at == IF Len(ps) = 0 THEN Len(ch) ELSE ps[Len(ps)]
  IN SetKids(t, a, InsertAt(ch, at, vn))

InsertInGroup(t, pa, name, idx, vn) ==
  LET ch == NodeAt(t, pa).ch
      ps == Positions(ch, name)
      j  == IF Mutant = "insertOffByOne" /\ idx < Len(ps) THEN idx + 1 ELSE idx
      at == IF j < Len(ps) THEN ps[j + 1] - 1 ELSE ps[Len(ps)]
  IN SetKids(t, pa, InsertAt(ch, at, vn))

DeleteAt(t, a) ==
  LET pa == Front(a)
      ch == NodeAt(t, pa).ch
  IN IF Mutant = "deleteRemovesAllMatches"
     THEN SetKids(t, pa, SelectSeq(ch, LAMBDA c : c.n # ch[LastOf(a)].n))
     ELSE SetKids(t, pa, RemoveAt(ch, LastOf(a)))

ReplaceAt(t, a, vn) ==
  LET pa == Front(a)
      ch == NodeAt(t, pa).ch
      ps == Positions(ch, ch[LastOf(a)].n)
  IN IF Mutant = "replaceAppends"
     THEN SetKids(t, pa, InsertAt(ch, ps[Len(ps)], vn))
     ELSE SetKids(t, pa, [ch EXCEPT ![LastOf(a)] = vn])

----------------------------------------------------------------------------
(* Expect: what the property permits for operation o on tree t.            *)
(*   o  = [op, path, name, index, nilres, val]   val as above               *)
(*   dn = the value's own subtree                                           *)
(* Result [must, trees, why, tk]:                                           *)
(*   must = "ok"     the call must succeed and leave one of `trees`         *)
(*   must = "err"    the call must return an error and change nothing       *)
(*   must = "either" both are permitted (7.1 latitude)                      *)

Res(must, trees, why) == [must |-> must, trees |-> trees, why |-> why]

ClassRes(t, fld, o, dn, build(_), okMust) ==
  LET c == Classify(o.val, fld) IN
  IF c \in {"nil", "wrong", "sibbad"} THEN Res("err", {}, c)
  ELSE Res(IF c = "sib" THEN "either" ELSE okMust, {build(vn) : vn \in ValueNodes(fld, o.val, dn)}, c)

ExpDelete(t, sch, o, loc) ==
  IF Len(loc.a) = 0 THEN Res("ok", {t}, "absent")
  ELSE IF Len(loc.a) > 1 THEN Res("err", {}, "multi")
  ELSE IF Len(loc.a[1]) = 0 THEN Res("err", {}, "root")
  ELSE Res("ok", {DeleteAt(t, loc.a[1])}, "ok")

ExpReplace(t, sch, o, dn, loc) ==
  IF o.val.nil THEN Res("err", {}, "nil")
  ELSE IF Len(loc.a) = 0 THEN Res("either", {t}, "absent")
  ELSE IF Len(loc.a) > 1 THEN Res("err", {}, "multi")
  ELSE IF Len(loc.a[1]) = 0 THEN
       (* the resource itself: cannot be substituted in place, but an      *)
       (* implementation that copies a same-typed resource over it is fine *)
       IF o.val.k = "resource" /\ o.val.pn = t.pn
       THEN Res("either", {[dn EXCEPT !.n = t.n, !.jn = t.jn, !.li = t.li, !.cx = t.cx]}, "root")
       ELSE Res("err", {}, "root")
  ELSE LET a   == loc.a[1]
           x   == NodeAt(t, a)
           fld == GetField(sch, NodeAt(t, Front(a)).pn, x.n)
       IN ClassRes(t, fld, o, dn, LAMBDA vn : ReplaceAt(t, a, vn), "ok")

ExpAdd(t, sch, o, dn, loc) ==
  IF o.val.nil THEN Res("err", {}, "nil")
  ELSE IF Len(loc.a) = 0 THEN Res("either", {t}, "absent")
  ELSE IF Len(loc.a) > 1 THEN Res("err", {}, "multi")
  ELSE LET a == loc.a[1]
           x == NodeAt(t, a)
       IN IF ~FieldOk(sch, x.pn, o.name) THEN Res("err", {}, "badname")
          ELSE LET fld == GetField(sch, x.pn, o.name) IN
               IF ~fld.list /\ Len(Positions(x.ch, o.name)) > 0 THEN Res("err", {}, "populated")
               ELSE ClassRes(t, fld, o, dn, LAMBDA vn : AddChild(t, a, vn), "ok")

(* insert: the path denotes the list.  It must succeed when the path ends  *)
(* in an element name applied to one located parent and yields that        *)
(* parent's whole list; when the located elements are only part of one     *)
(* list (a filter), or the list is reached through several parents or a    *)
(* function, an implementation may refuse, or insert into that list at the *)
(* index; elements of different lists are not a list.                      *)
ExpInsert(t, sch, o, dn, loc) ==
  IF o.val.nil THEN Res("err", {}, "nil")
  ELSE IF Len(loc.a) = 0 THEN Res("either", {t}, "absent")
  ELSE IF \E j \in 1..Len(loc.a) : Len(loc.a[j]) = 0 THEN Res("err", {}, "root")
  ELSE LET L  == loc.a
           pa == Front(L[1])
           nm == NodeAt(t, L[1]).n
           oneList == \A j \in 1..Len(L) : Front(L[j]) = pa /\ NodeAt(t, L[j]).n = nm
           full  == Kids(t, pa, nm)
           whole == oneList /\ Len(L) = Len(full)
           pf    == Nav(t, sch, Front(o.path))
           plainList == /\ whole /\ o.path[Len(o.path)].k = "field"
                        /\ pf.k = "nodes" /\ Len(pf.a) = 1
       IN IF ~oneList THEN Res("err", {}, "notalist")
          ELSE LET fld == GetField(sch, NodeAt(t, pa).pn, nm) IN
               IF ~fld.list THEN Res("err", {}, "scalar")
               ELSE IF o.index < 0 \/ o.index > Len(full) THEN Res("err", {}, "range")
               ELSE IF ~whole /\ o.index > Len(L) THEN
                    (* in range for the whole list only: refusing is as good as inserting there *)
                    ClassRes(t, fld, o, dn, LAMBDA vn : InsertInGroup(t, pa, nm, o.index, vn), "either")
               ELSE ClassRes(t, fld, o, dn, LAMBDA vn : InsertInGroup(t, pa, nm, o.index, vn),
                             IF plainList THEN "ok" ELSE "either")

Weaken(r, loc) == IF loc.het /\ r.must = "ok" THEN [r EXCEPT !.must = "either"] ELSE r

Expect(t, sch, o, dn) ==
  LET loc == Nav(t, sch, o.path) IN
  Weaken(
  IF o.op = "move" THEN Res("err", {}, "move")
  ELSE IF o.nilres THEN Res("err", {}, "nilres")
  ELSE IF loc.k = "bad" THEN Res("err", {}, "badpath")
  ELSE IF loc.k = "sys" THEN Res("err", {}, "sys")
  ELSE CASE o.op = "delete"  -> ExpDelete(t, sch, o, loc)
         [] o.op = "replace" -> ExpReplace(t, sch, o, dn, loc)
         [] o.op = "add"     -> ExpAdd(t, sch, o, dn, loc)
         [] o.op = "insert"  -> ExpInsert(t, sch, o, dn, loc)
         [] OTHER            -> Res("err", {}, "unknown-op"), loc)

(* are all schema look-ups Expect makes defined? (a judge must be total)    *)
SchemaCovers(t, sch, o) ==
  LET loc == Nav(t, sch, o.path) IN
  loc.k = "nodes" => \A j \in 1..Len(loc.a) :
     LET a == loc.a[j] IN
       /\ NodeAt(t, a).pn \in DOMAIN sch
       /\ Len(a) > 0 => FieldOk(sch, NodeAt(t, Front(a)).pn, NodeAt(t, a).n)

----------------------------------------------------------------------------
(* The reference machine: a deterministic choice inside Expect (a sibling  *)
(* value is converted), with the mutants.  Result [k, tree, why].          *)

AnyOf(set) == CHOOSE x \in set : TRUE

Run(t, sch, o, dn) ==
  LET ex == Expect(t, sch, o, dn) IN
  IF ex.must = "err" \/ ex.trees = {}
  THEN IF Mutant = "errorStillMutates" /\ ex.why = "wrong" /\ o.op = "add"
       THEN (* validates after the mutating call: reports the error, keeps the change *)
            LET a == Nav(t, sch, o.path).a[1]
                fld == GetField(sch, NodeAt(t, a).pn, o.name)
            IN [k |-> "err", tree |-> AddChild(t, a, RightNode(fld, fld.n, dn)), why |-> ex.why]
       ELSE [k |-> "err", tree |-> t, why |-> ex.why]
  ELSE [k |-> "ok", tree |-> AnyOf(ex.trees), why |-> ex.why]

----------------------------------------------------------------------------
(* PatchFrame, stated independently of the edit operators: outside the     *)
(* footprint (the target's parent field) nothing changed, and the field's   *)
(* list relates to the old one as the operation says.                       *)

RECURSIVE OutsideSame(_, _, _, _)
OutsideSame(x, y, pa, nm) ==
  /\ OwnEq(x, y)
  /\ IF Len(pa) = 0
     THEN LET ox == SelectSeq(x.ch, LAMBDA c : c.n # nm)
              oy == SelectSeq(y.ch, LAMBDA c : c.n # nm)
          IN KidsMatch(oy, ox)
     ELSE /\ Len(x.ch) = Len(y.ch)
          /\ \A i \in 1..Len(x.ch) :
               IF i = pa[1] THEN OutsideSame(x.ch[i], y.ch[i], Tail(pa), nm) ELSE Match(y.ch[i], x.ch[i])

SeqMatch(obs, exp) == Len(obs) = Len(exp) /\ \A i \in 1..Len(obs) : Match(obs[i], exp[i])

FrameOK(pre, sch, o, dn, post) ==
  LET loc == Nav(pre, sch, o.path) IN
  IF loc.k # "nodes" \/ Len(loc.a) = 0 \/ o.op = "move" THEN Match(post, pre)
  ELSE LET a  == loc.a[1]
           pa == IF o.op = "add" THEN a ELSE Front(a)
           nm == IF o.op = "add" THEN o.name ELSE NodeAt(pre, a).n
           G  == Group(NodeAt(pre, pa).ch, nm)
           G2 == Group(NodeAt(post, pa).ch, nm)
           fld == GetField(sch, NodeAt(pre, pa).pn, nm)
           idx == IF o.op = "add" THEN 0 ELSE GroupPos(NodeAt(pre, pa).ch, LastOf(a))
       IN /\ OutsideSame(pre, post, pa, nm)
          /\ \E vn \in (IF o.op = "delete" THEN {pre} ELSE ValueNodes(fld, o.val, dn)) :
               CASE o.op = "add"     -> SeqMatch(G2, Append(G, vn))
                 [] o.op = "insert"  -> SeqMatch(G2, InsertAt(G, o.index, vn))
                 [] o.op = "delete"  -> SeqMatch(G2, RemoveAt(G, idx + 1))
                 [] o.op = "replace" -> SeqMatch(G2, [G EXCEPT ![idx + 1] = vn])
=============================================================================
