-------------------------------- MODULE C12 --------------------------------
(***************************************************************************)
(* Property C12: `is` and `as` agree with the FHIR and System type         *)
(* hierarchies.  Element cases reuse the generated resources of C02 (each  *)
(* tree record lists the selected nodes: the first node of every message   *)
(* type and some choice-typed ones); value cases use a pool of literals.   *)
(***************************************************************************)
EXTENDS C02, FPTypes

TyKind == JsonDeserialize(TypesFile)       \* FHIR type name -> "resource" | "complex" | "prim" (from the proto descriptors)
FHIRNames == DOMAIN TyKind

TypeText(ns, name) == IF ns = "" THEN name ELSE ns \o "." \o name

(* the System counterpart of a FHIR primitive type name *)
SystemOf(ty) ==
  CASE ty = "boolean" -> "Boolean"
    [] ty \in {"string", "code", "id", "markdown", "uri", "url", "canonical", "uuid", "oid", "base64Binary", "xhtml"} -> "String"
    [] ty \in {"integer", "positiveInt", "unsignedInt"} -> "Integer"
    [] ty = "decimal" -> "Decimal" [] ty = "date" -> "Date" [] ty \in {"dateTime", "instant"} -> "DateTime" [] ty = "time" -> "Time"
    [] OTHER -> "Quantity"

(* the same name in the other letter case (first letter) *)
Upper1 == [a |-> "A", b |-> "B", c |-> "C", d |-> "D", i |-> "I", m |-> "M", o |-> "O", p |-> "P", s |-> "S", t |-> "T", u |-> "U", x |-> "X"]
OtherCase(name) ==
  CASE name = "string" -> "String" [] name = "boolean" -> "Boolean" [] name = "integer" -> "Integer" [] name = "decimal" -> "Decimal"
    [] name = "date" -> "Date" [] name = "dateTime" -> "DateTime" [] name = "time" -> "Time" [] name = "code" -> "Code"
    [] name = "uri" -> "Uri" [] name = "id" -> "Id" [] name = "Quantity" -> "quantity" [] name = "Patient" -> "patient"
    [] name = "HumanName" -> "humanName" [] name = "Element" -> "element" [] name = "Resource" -> "resource"
    [] OTHER -> "zz" \o name

(* type names tried against a node of FHIR type ty *)
NamesFor(ty) ==
  Ancestors(ty, TyKind) \cup AbstractFHIR
  \cup {IF ty = "HumanName" THEN "Address" ELSE "HumanName", IF ty = "Patient" THEN "Observation" ELSE "Patient", "string", "Quantity"}
  \cup {OtherCase(ty), SystemOf(ty)}
  \cup (IF ty \in FHIRNames /\ TyKind[ty] = "prim" THEN {n \in FHIRNames : TyKind[n] = "prim"} ELSE {})     \* every sibling primitive
  \cup (IF ty \in QuantityLike \cup {"Quantity"} THEN QuantityLike ELSE {})

NsFor(name) == {""} \cup (IF name \in SystemNames THEN {"System"} ELSE {}) \cup (IF name \in FHIRNames \cup AbstractFHIR THEN {"FHIR"} ELSE {"FHIR", "Foo"})

(* element case: [kind "el", ti, addr, op, ns, name]; value case: [kind "val", lit, op, ns, name] *)
NodeOf(c) == NodeAt(TreeOf(c.ti), c.addr)

ValuePool == <<
  [txt |-> "true", v |-> B(TRUE)], [txt |-> "1", v |-> I(1)],
  [txt |-> "1.5", v |-> [t |-> "d", neg |-> FALSE, m |-> <<15>>, e |-> -1]],
  [txt |-> "'a'", v |-> S(<<97>>)],
  [txt |-> "@2020", v |-> [t |-> "date", p |-> 1, y |-> 2020, mo |-> 1, d |-> 1]],
  [txt |-> "@2020T", v |-> [t |-> "dt", p |-> 1, y |-> 2020, mo |-> 1, d |-> 1, h |-> 0, mi |-> 0, sec |-> 0, ms |-> 0, tz |-> FALSE, off |-> 0]],
  [txt |-> "@T10", v |-> [t |-> "time", p |-> 4, h |-> 10, mi |-> 0, sec |-> 0, ms |-> 0]],
  [txt |-> "1 'mg'", v |-> [t |-> "q", val |-> [t |-> "d", neg |-> FALSE, m |-> <<1>>, e |-> 0], unit |-> <<109, 103>>]],
  [txt |-> "(1 + 1)", v |-> I(2)],
  [txt |-> "('a' & 'b')", v |-> S(<<97, 98>>)] >>

SubjectText(c) == IF c.kind = "el" THEN PathText(NodeSteps(c.ti, c.addr)) ELSE ValuePool[c.lit].txt
Text(c) == SubjectText(c) \o " " \o c.op \o " " \o TypeText(c.ns, c.name)

(* Expected outcome: "cerr" (Compile must reject), "ok" with items, or "any" *)
Exp(c) ==
  LET r == Resolve(c.ns, c.name, TyKind) IN
  IF c.name \in {"Any", "any"} THEN [k |-> "any"]       \* System.Any: the root of the System types, not addressed by the property
  ELSE IF r.ns = "invalid" THEN [k |-> "cerr"]
  ELSE IF c.kind = "val" THEN
       (LET v == ValuePool[c.lit].v
            yes == IsSubtype("System", SystemNameOf(v), r.ns, r.name, TyKind)
        IN IF c.op = "is" THEN [k |-> "ok", items |-> <<B(yes)>>] ELSE [k |-> "ok", items |-> IF yes THEN <<v>> ELSE <<>>])
  ELSE LET nd == NodeOf(c)
           \* what the property leaves open: top-level datatypes against BackboneElement, xhtml's place
           open == (r.name = "BackboneElement" /\ nd.k = "complex") \/ nd.ty = "xhtml"
           yes == IsSubtype("FHIR", nd.ty, r.ns, r.name, TyKind)
       IN IF open THEN [k |-> "any"]
          ELSE IF c.op = "is" THEN [k |-> "ok", items |-> <<B(yes)>>]
          ELSE [k |-> "ok", items |-> IF yes THEN <<RefOf(ForestOf(c.ti), 1, c.addr)>> ELSE <<>>]

RECURSIVE AddrText(_)
AddrText(a) == IF Len(a) = 0 THEN "" ELSE ToString(a[1]) \o (IF Len(a) > 1 THEN "." ELSE "") \o AddrText(Tail(a))
CaseId(c) == c.kind \o "/" \o (IF c.kind = "el" THEN ToString(c.ti) \o "/" \o AddrText(c.addr) ELSE ToString(c.lit)) \o "/" \o c.op \o "/" \o TypeText(c.ns, c.name)
=============================================================================
