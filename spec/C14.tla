-------------------------------- MODULE C14 --------------------------------
(***************************************************************************)
(* Property C14: string functions operate on characters and are mutually   *)
(* consistent.  This module is the case space, the rendering of a case to  *)
(* source text and the oracle (Permitted); C14_MC explores it and emits    *)
(* cases, C14_Sim samples it beyond the exhaustive bound, C14_Judge judges *)
(* observations of the real code.                                          *)
(*                                                                         *)
(* A case is [fn, rk, s, a]:                                               *)
(*   fn  the function (or one of the four consequences, "law1".."law4")    *)
(*   rk  the receiver kind: where the receiver string s comes from         *)
(*   s   the receiver string (code points)                                 *)
(*   a   the arguments, each [k, src, cp, i]:                              *)
(*         k   "s" string | "i" integer | "e" empty collection             *)
(*             | "m" two-item collection | "x" a value of the wrong type   *)
(*         src "lit" written in the text | "env" a System value in an      *)
(*             environment variable | "fenv" a FHIR primitive in one       *)
(***************************************************************************)
EXTENDS FPValues, FPStrings

(* ------------------------------------------------------------- alphabet *)
(* a, b, U+00E9 (2 bytes), U+20AC (3 bytes), U+1F600 (4 bytes), U+0301     *)
(* (combining acute accent)                                                *)
Alphabet == {97, 98, 233, 8364, 128512, 769}
NextSym(c) == CASE c = 97 -> 98 [] c = 98 -> 233 [] c = 233 -> 8364 [] c = 8364 -> 128512
                [] c = 128512 -> 769 [] OTHER -> 97

StringsUpTo(n) == UNION {[1..k -> Alphabet] : k \in 0..n}
(* strings outside the alphabet: the replacement character U+FFFD itself (a genuine 3-byte code point that decoders also *)
(* return for invalid input) alone, repeated, between letters and next to its neighbours; the first and last code point  *)
(* of every UTF-8 length (U+007F/0080, 07FF/0800, FFFF/10000, 10FFFF) and the ones around the surrogate gap              *)
ExtraStrings == {<<65533>>, <<97, 65533, 98>>, <<65533, 65533>>, <<65532, 65533, 65534>>, <<233, 65533>>,
                 <<127, 128>>, <<2047, 2048>>, <<65535, 65536>>, <<1114111>>, <<55295, 57344>>, <<97, 1114111, 128>>}

Substrings(s) == {SubSeq(s, i, j) : i \in 1..(Len(s) + 1), j \in 0..Len(s)}
  \* SubSeq(s, i, j) with j < i is <<>>, so the empty pattern is included

(* near-misses of a pattern: one position changed, one symbol appended, or  *)
(* the same letters in the other case ('A' is not 'a')                      *)
NearMisses(t) == {[t EXCEPT ![j] = NextSym(t[j])] : j \in 1..Len(t)} \cup {t \o <<97>>, StrUpper(t)}

Patterns(s) == Substrings(s) \cup UNION {NearMisses(t) : t \in Substrings(s)}

Starts(s) == (-2..(Len(s) + 2)) \cup {MinInt32, MaxInt32}
Lens(s)   == (-1..(Len(s) + 2)) \cup {MinInt32, MaxInt32}

(* ----------------------------------------------------------- functions *)
NullaryFns == {"length", "toChars", "upper", "lower"}
PatternFns == {"indexOf", "startsWith", "endsWith", "contains"}
RegexFns   == {"matches", "replaceMatches"}         \* unmodelled: outcome kind only
LawFns     == {"law1", "law2", "law3", "law4"}
Fns == NullaryFns \cup PatternFns \cup RegexFns \cup LawFns \cup {"substring", "replace"}

(* type of parameter j of fn: "s" or "i" *)
ParamType(fn, j) == IF fn \in {"substring", "law2"} THEN "i" ELSE "s"
Arities(fn) == CASE fn \in NullaryFns \cup {"law1"} -> {0}
                 [] fn = "substring" -> {1, 2}
                 [] fn \in {"replace", "replaceMatches"} -> {2}
                 [] OTHER -> {1}

(* ------------------------------------------------------- receiver kinds *)
EnvStrKinds  == {"env", "fString", "fCode", "fId", "fMarkdown", "fUri", "fUrl", "fCanonical", "fOid", "fUuid"}
ElemStrKinds == {"elString", "elCode", "elId", "elMarkdown", "elUri"}
(* a code bound to a required value set is an enum in the Go model, not a   *)
(* string field: Patient.gender, which can only hold one of four codes      *)
Male         == <<109, 97, 108, 101>>
StrKinds     == {"lit", "elGender"} \cup EnvStrKinds \cup ElemStrKinds
EmptyKinds   == {"empty", "emptyEnv", "emptyEl"}
MultiKinds   == {"multi", "multiEl"}
NonStrKinds  == {"xInt", "xBool", "xDec", "xDate", "xQty", "xComplex", "xFhirBool", "xFhirInt"}
RecvKinds    == StrKinds \cup EmptyKinds \cup MultiKinds \cup NonStrKinds

RecvClass(rk) == IF rk \in StrKinds THEN "str" ELSE IF rk \in EmptyKinds THEN "empty"
                 ELSE IF rk \in MultiKinds THEN "multi" ELSE "nonstr"

(* ------------------------------------------------------------ arguments *)
SArg(src, cp) == [k |-> "s", src |-> src, cp |-> cp, i |-> 0]
IArg(src, i)  == [k |-> "i", src |-> IF i = MinInt32 /\ src = "lit" THEN "env" ELSE src, cp |-> <<>>, i |-> i]
  \* -2147483648 cannot be written as a literal (it is the negation of a number that does not fit)
EArg == [k |-> "e", src |-> "lit", cp |-> <<>>, i |-> 0]
MArg == [k |-> "m", src |-> "env", cp |-> <<>>, i |-> 0]
XArg == [k |-> "x", src |-> "lit", cp |-> <<>>, i |-> 0]

GoodArg(fn, j, arg) == arg.k = ParamType(fn, j)
GoodArgs(c) == \A j \in 1..Len(c.a) : GoodArg(c.fn, j, c.a[j])

Case(fn, rk, s, a) == [fn |-> fn, rk |-> rk, s |-> s, a |-> a]

WellFormed(c) ==
  /\ c.fn \in Fns /\ c.rk \in RecvKinds /\ Len(c.a) \in Arities(c.fn)
  /\ \A j \in 1..Len(c.s) : IsScalar(c.s[j])
  /\ \A j \in 1..Len(c.a) : /\ c.a[j].k \in {"s", "i", "e", "m", "x"}
                            /\ c.a[j].src \in {"lit", "env", "fenv"}
                            /\ \A q \in 1..Len(c.a[j].cp) : IsScalar(c.a[j].cp[q])
  /\ c.fn \in LawFns => c.rk \in StrKinds /\ GoodArgs(c)
  /\ c.rk = "elGender" => c.s = Male

(* ------------------------------------------------------------ rendering *)
(* A token is ASCII text followed by code points; the harness writes the   *)
(* text, then the code points as UTF-8, token after token.  Quote and      *)
(* backslash are not in any generated string, so a literal needs no        *)
(* escapes.                                                                *)
Tok(a, cp) == [a |-> a, cp |-> cp]
T1(a) == <<Tok(a, <<>>)>>
StrLit(cp) == <<Tok("'", cp), Tok("'", <<>>)>>

RecvToks(c) ==
  CASE c.rk = "lit"          -> StrLit(c.s)
    [] c.rk \in EnvStrKinds  -> T1("%r")
    [] c.rk = "elString"     -> T1("Patient.name.family")
    [] c.rk = "elCode"       -> T1("Patient.language")
    [] c.rk = "elId"         -> T1("Patient.id")
    [] c.rk = "elMarkdown"   -> T1("Patient.extension.value")
    [] c.rk = "elUri"        -> T1("Patient.implicitRules")
    [] c.rk = "elGender"     -> T1("Patient.gender")
    [] c.rk = "empty"        -> T1("{}")
    [] c.rk = "emptyEnv"     -> T1("%e")
    [] c.rk = "emptyEl"      -> T1("Patient.name.suffix")
    [] c.rk = "multi"        -> T1("%ms")
    [] c.rk = "multiEl"      -> T1("Patient.name.given")
    [] c.rk = "xInt"         -> T1("7")
    [] c.rk = "xBool"        -> T1("true")
    [] c.rk = "xDec"         -> T1("1.5")
    [] c.rk = "xDate"        -> T1("@2020-01-01")
    [] c.rk = "xQty"         -> T1("(5 'mg')")
    [] c.rk = "xComplex"     -> T1("Patient.name")
    [] c.rk = "xFhirBool"    -> T1("Patient.active")
    [] c.rk = "xFhirInt"     -> T1("%fi")

ArgToks(fn, j, arg) ==
  CASE arg.k = "s" /\ arg.src = "lit" -> StrLit(arg.cp)
    [] arg.k = "i" /\ arg.src = "lit" -> T1(ToString(arg.i))
    [] arg.k \in {"s", "i"}           -> T1("%p" \o ToString(j))
    [] arg.k = "e"                    -> T1("{}")
    [] arg.k = "m"                    -> T1(IF ParamType(fn, j) = "s" THEN "%ms" ELSE "%mi")
    [] arg.k = "x"                    -> T1(IF ParamType(fn, j) = "s" THEN "1" ELSE "'1'")

CallToks(recv, name, args) ==
  recv \o T1("." \o name \o "(")
       \o (IF Len(args) = 0 THEN <<>> ELSE IF Len(args) = 1 THEN args[1] ELSE args[1] \o T1(", ") \o args[2])
       \o T1(")")

Toks(c) ==
  LET R == RecvToks(c)
      A(j) == ArgToks(c.fn, j, c.a[j])
  IN CASE c.fn = "law1" -> CallToks(R, "toChars", <<>>) \o T1(".count() = ") \o CallToks(R, "length", <<>>)
       [] c.fn = "law2" -> CallToks(R, "substring", <<T1("0"), A(1)>>) \o T1(" & ")
                             \o CallToks(R, "substring", <<A(1)>>) \o T1(" = ") \o R
       [] c.fn = "law3" -> CallToks(R, "substring", <<CallToks(R, "indexOf", <<A(1)>>)>>)
                             \o T1(".startsWith(") \o A(1) \o T1(")")
       [] c.fn = "law4" -> CallToks(R, "contains", <<A(1)>>) \o T1(" = (")
                             \o CallToks(R, "indexOf", <<A(1)>>) \o T1(" >= 0)")
       [] OTHER -> CallToks(R, c.fn, [j \in 1..Len(c.a) |-> A(j)])

ArgId(arg) == arg.k \o arg.src \o ToString(arg.cp) \o ToString(arg.i)
CaseId(c) == c.fn \o "/" \o c.rk \o "/" \o ToString(c.s)
             \o (IF Len(c.a) >= 1 THEN "/" \o ArgId(c.a[1]) ELSE "")
             \o (IF Len(c.a) >= 2 THEN "/" \o ArgId(c.a[2]) ELSE "")

(* --------------------------------------------------------------- oracle *)
StrItems(coll) == [j \in 1..Len(coll) |-> S(coll[j])]

(* The value of a well-typed call on a string receiver. *)
ValueOf(c) ==
  LET s == c.s
      a1 == c.a[1]
      a2 == c.a[2]
  IN CASE c.fn = "length"     -> <<I(StrLength(s))>>
       [] c.fn = "toChars"    -> StrItems(StrToChars(s))
       [] c.fn = "upper"      -> <<S(StrUpper(s))>>
       [] c.fn = "lower"      -> <<S(StrLower(s))>>
       [] c.fn = "substring"  -> (IF Len(c.a) = 1 THEN StrItems(StrSubstring1(s, a1.i))
                                                  ELSE StrItems(StrSubstring2(s, a1.i, a2.i)))
       [] c.fn = "indexOf"    -> <<I(StrIndexOf(s, a1.cp))>>
       [] c.fn = "startsWith" -> <<B(StrStartsWith(s, a1.cp))>>
       [] c.fn = "endsWith"   -> <<B(StrEndsWith(s, a1.cp))>>
       [] c.fn = "contains"   -> <<B(StrContains(s, a1.cp))>>
       [] c.fn = "replace"    -> <<S(StrReplace(s, a1.cp, a2.cp))>>
       (* the consequences named in the property, evaluated in the model *)
       [] c.fn = "law1"       -> <<B(Len(StrToChars(s)) = StrLength(s))>>
       [] c.fn = "law2"       -> <<B(Amp(StrSubstring2(s, 0, a1.i), StrSubstring1(s, a1.i)) = s)>>
       [] c.fn = "law3"       -> (LET i == StrIndexOf(s, a1.cp)
                                      sub == StrSubstring1(s, i)
                                  IN IF sub = <<>> THEN <<>> ELSE <<B(StrStartsWith(sub[1], a1.cp))>>)
       [] c.fn = "law4"       -> <<B(StrContains(s, a1.cp) <=> (StrIndexOf(s, a1.cp) >= 0))>>

(* The second permitted reading (Appendix F): substring(start, n <= 0) with  *)
(* an in-range start may be the empty string.                                *)
AltValueOf(c) ==
  IF c.fn = "substring" /\ Len(c.a) = 2 THEN StrItems(StrSubstring2Alt(c.s, c.a[1].i, c.a[2].i))
  ELSE ValueOf(c)

(* Calls about which the specification only says "no crash". *)
Unconstrained(c) == c.fn \in RegexFns /\ RecvClass(c.rk) = "str" /\ GoodArgs(c)

(* Permitted outcomes (for constrained cases).                              *)
(*   empty receiver                -> empty (an empty/ill-typed argument    *)
(*                                    may also be reported as an error)     *)
(*   several items / not a string  -> an error, or empty                    *)
(*   empty, multi-item or ill-typed argument -> an error, or empty          *)
(*   otherwise                     -> the value                             *)
Permitted(c) ==
  LET rc == RecvClass(c.rk) IN
    IF rc = "empty" THEN (IF GoodArgs(c) THEN {Ok(<<>>)} ELSE {Ok(<<>>), ErrAny})
    ELSE IF rc \in {"multi", "nonstr"} THEN {ErrAny, Ok(<<>>)}
    ELSE IF ~GoodArgs(c) THEN {ErrAny, Ok(<<>>)}
    ELSE {Ok(ValueOf(c)), Ok(AltValueOf(c))}

Witness(c) == IF Unconstrained(c) THEN [k |-> "ok-or-err"]
              ELSE IF RecvClass(c.rk) = "str" /\ GoodArgs(c) THEN Ok(ValueOf(c))
              ELSE IF RecvClass(c.rk) = "empty" THEN Ok(<<>>) ELSE ErrAny

(* --------------------------------------------------------- the case space *)
(* Arguments are written as literals for literal receivers and passed in    *)
(* environment variables otherwise (System values; FHIR primitives for      *)
(* the fString receiver), so every argument source meets every function.    *)
ArgSrc(rk) == IF rk = "env" THEN "env" ELSE IF rk = "fString" THEN "fenv" ELSE "lit"

(* substitutions tried for the pattern t in s: deletion, a longer multi-byte *)
(* text, and on the shorter strings a one-symbol text and t itself          *)
(* and texts a regular-expression engine would expand instead of inserting: $1 $0 $$ ${a} $a (replace() substitutes    *)
(* literally; only replaceMatches() knows references)                                                                      *)
RefLike == {<<36, 49>>, <<36, 48>>, <<36, 36>>, <<36, 123, 97, 125>>, <<36, 97>>}
Replacements(s, t) == IF Len(s) <= 3 THEN {<<>>, <<98>>, <<233, 128512>>, t} \cup (IF Len(s) = 2 /\ Find(s, t) >= 0 THEN RefLike ELSE {})
                      ELSE {<<>>, <<233, 128512>>}

ValueCases(s, rk) ==
  LET src == ArgSrc(rk) IN
       {Case(f, rk, s, <<>>) : f \in NullaryFns}
  \cup {Case(f, rk, StrUpper(s), <<>>) : f \in {"upper", "lower"}}      \* upper-case receivers as well
  \cup {Case("substring", rk, s, <<IArg(src, st)>>) : st \in Starts(s)}
  \cup {Case("substring", rk, s, <<IArg(src, st), IArg(src, n)>>) : st \in Starts(s), n \in Lens(s)}
  \cup {Case(f, rk, s, <<SArg(src, t)>>) : f \in PatternFns, t \in Patterns(s)}
  \cup UNION {{Case("replace", rk, s, <<SArg(src, t), SArg(src, r)>>) :
                  r \in IF Len(s) > 3 /\ Find(s, t) < 0 THEN {<<233, 128512>>} ELSE Replacements(s, t)} : t \in Patterns(s)}
       \* (an absent pattern leaves a long string alone whatever the substitution: one is enough)

LawCases(s, rk) ==
  LET src == ArgSrc(rk) IN
       {Case("law1", rk, s, <<>>)}
  \cup {Case("law2", rk, s, <<IArg(src, k)>>) : k \in 0..Len(s)}
  \cup (IF Len(s) > 3 THEN {} ELSE      \* on longer strings these two repeat what indexOf / contains cases show
         {Case("law3", rk, s, <<SArg(src, t)>>) : t \in {p \in Patterns(s) : Find(s, p) >= 0}}
    \cup {Case("law4", rk, s, <<SArg(src, t)>>) : t \in Patterns(s)})

RegexPatterns(s) == Patterns(s) \cup {<<40>>, <<91>>, <<42, 97>>, <<46>>, <<97, 124, 233>>}
RegexCases(s, rk) ==
  LET src == ArgSrc(rk) IN
       {Case("matches", rk, s, <<SArg(src, t)>>) : t \in RegexPatterns(s)}
  \cup {Case("replaceMatches", rk, s, <<SArg(src, t), SArg(src, r)>>) : t \in RegexPatterns(s), r \in {<<>>, <<8364>>, <<36, 49>>}}

(* A typical well-typed argument list for fn (used where the receiver or    *)
(* one argument is the point of the case).                                  *)
TypicalArgs(fn) ==
  CASE fn \in NullaryFns -> {<<>>}
    [] fn = "substring"  -> {<<IArg("lit", 0)>>, <<IArg("lit", 0), IArg("lit", 1)>>}
    [] fn \in {"replace", "replaceMatches"} -> {<<SArg("lit", <<97>>), SArg("lit", <<98>>)>>}
    [] OTHER -> {<<SArg("lit", <<97>>)>>}

BadArgs == {EArg, MArg, XArg}

(* Receivers that are not one string; s only feeds the multi-item kinds. *)
OddReceiverCases(s) ==
  UNION {{Case(f, rk, s, a) : a \in TypicalArgs(f)} :
           f \in Fns \ LawFns, rk \in EmptyKinds \cup MultiKinds \cup NonStrKinds}

(* One argument replaced by an empty, multi-item or ill-typed one. *)
OddArgumentCases(s, rk) ==
  UNION {UNION {{Case(f, rk, s, [a EXCEPT ![j] = b]) : b \in BadArgs, j \in 1..Len(a)} : a \in TypicalArgs(f)} :
           f \in Fns \ LawFns}

(* an empty receiver with an odd argument *)
OddBothCases ==
  UNION {UNION {{Case(f, "empty", <<>>, [a EXCEPT ![j] = b]) : b \in BadArgs, j \in 1..Len(a)} : a \in TypicalArgs(f)} :
           f \in Fns \ LawFns}

(* FHIR string-like values hold non-empty strings. *)
KindAdmits(rk, s) == rk \in {"lit", "env"} \/ s # <<>>

(* Everything generated for the string s:                                   *)
(*   literal receivers for every s (Len <= MaxLen is the model's choice),   *)
(*   every other receiver kind when Len(s) <= kindLen,                      *)
(*   regular-expression functions when Len(s) <= regexLen,                  *)
(*   the odd receivers / arguments when Len(s) <= 1,                        *)
(*   and, once (with the empty string's cases), the enum-backed code        *)
(*   receiver Patient.gender = 'male'.                                      *)
CasesOf(s, kindLen, regexLen) ==
       ValueCases(s, "lit") \cup LawCases(s, "lit")
  \cup (IF Len(s) <= kindLen
          THEN UNION {ValueCases(s, rk) : rk \in {k \in StrKinds \ {"lit", "elGender"} : KindAdmits(k, s)}}
               \cup LawCases(s, "env")
          ELSE {})
  \cup (IF Len(s) <= regexLen THEN RegexCases(s, "lit") \cup RegexCases(s, "env") ELSE {})
  \cup (IF Len(s) <= 1 THEN OddReceiverCases(s) \cup OddArgumentCases(s, "lit") \cup OddArgumentCases(s, "env") ELSE {})
  \cup (IF s = <<>> THEN OddBothCases \cup {c \in ValueCases(Male, "elGender") : c.s = Male} ELSE {})

Emitted(c) == [id |-> CaseId(c), cs |-> c, toks |-> Toks(c)]

(* -------------------------------------------- per-string laws (role 1) *)
StringLaws(s) ==
  /\ LawCharsCount(s) /\ LawCharsJoin(s) /\ LawSplit(s) /\ LawSubLength(s)
  /\ LawOutOfRange(s) /\ LawValid(s) /\ LawCase(s) /\ LawUtf8(s)
  /\ \A t \in Patterns(s) :
        /\ LawIndexOf(s, t) /\ LawContains(s, t) /\ LawAffix(s, t)
        /\ \A r \in Replacements(<<>>, t) : LawReplace(s, t, r)

(* per-case consequences *)
CaseLaws(c) ==
  /\ WellFormed(c)
  /\ Unconstrained(c) \/ Permitted(c) # {}
  (* the four consequences evaluate to true (law3: or to empty for '' in '') *)
  /\ c.fn \in LawFns => /\ Permitted(c) \subseteq {Ok(<<B(TRUE)>>), Ok(<<>>)}
                        /\ Ok(<<>>) \in Permitted(c) => c.fn = "law3" /\ c.s = <<>>
  (* the source of the receiver and of the arguments does not matter *)
  /\ RecvClass(c.rk) = "str" /\ ~Unconstrained(c)
        => Permitted(c) = Permitted([c EXCEPT !.rk = "lit"])
  (* every string a call may return is well formed *)
  /\ RecvClass(c.rk) = "str" /\ GoodArgs(c) /\ ~Unconstrained(c)
        => \A o \in Permitted(c) : \A j \in 1..Len(o.items) : o.items[j].t = "s" => ValidString(o.items[j].cp)
=============================================================================
