------------------------------ MODULE FPCompare ------------------------------
(***************************************************************************)
(* Reference model of FHIRPath equality and ordering (property C05,        *)
(* DESIGN.md Appendix F "Comparison").  Results are three-valued:          *)
(*   "T", "F", "E" (empty), and for ordering also "X" (the operands are    *)
(*   not comparable: the property leaves "error or empty" open).           *)
(*                                                                         *)
(* Mutant selects deliberately wrong variants; the laws in C05_MC must     *)
(* fail for each of them.                                                  *)
(***************************************************************************)
EXTENDS FPValues, FPBigNum, FPMutant

(* A FHIR primitive element stands for its value; complex elements stay.   *)
Val(x) == IF x.t = "el" /\ x.v.t \notin {"none", "unk", "enum"} THEN x.v ELSE x

IsNum(x)  == x.t \in {"i", "d"}
IsTemporalDT(x) == x.t \in {"date", "dt"}
IsComplex(x) == x.t = "el"

NumD(x) == IF x.t = "i" THEN DFromInt(x.i) ELSE DOfItem(x)

(**************************** code-point order ****************************)
RECURSIVE CpCmpFrom(_, _, _)
CpCmpFrom(a, b, k) ==
  IF k > Len(a) /\ k > Len(b) THEN 0
  ELSE IF k > Len(a) THEN -1
  ELSE IF k > Len(b) THEN 1
  ELSE IF a[k] < b[k] THEN -1 ELSE IF a[k] > b[k] THEN 1 ELSE CpCmpFrom(a, b, k + 1)
CpCmp(a, b) == CpCmpFrom(a, b, 1)

(************************* calendar normalisation *************************)
IsLeap(y) == (y % 4 = 0 /\ y % 100 # 0) \/ y % 400 = 0
DaysIn(y, m) == CASE m \in {1, 3, 5, 7, 8, 10, 12} -> 31
                  [] m \in {4, 6, 9, 11} -> 30
                  [] OTHER -> IF IsLeap(y) THEN 29 ELSE 28

(* shift a calendar day by -1, 0 or +1 *)
DayShift(y, m, d, s) ==
  IF s = 0 THEN <<y, m, d>>
  ELSE IF s = 1 THEN
    (IF d < DaysIn(y, m) THEN <<y, m, d + 1>> ELSE IF m < 12 THEN <<y, m + 1, 1>> ELSE <<y + 1, 1, 1>>)
  ELSE
    (IF d > 1 THEN <<y, m, d - 1>> ELSE IF m > 1 THEN <<y, m - 1, DaysIn(y, m - 1)>> ELSE <<y - 1, 12, 31>>)

(* Components of a Date / DateTime as <<y, mo, d, h, mi, secms>> in UTC.    *)
(* Offsets are within +-14h so the day moves by at most one.               *)
UtcComponents(x) ==
  IF x.t = "date" THEN <<x.y, x.mo, x.d, 0, 0, 0>>
  ELSE IF ~x.tz \/ x.p < 4 \/ Mutant = "ignoreOffset" THEN <<x.y, x.mo, x.d, x.h, x.mi, x.sec * 1000 + x.ms>>
  ELSE LET mins == x.h * 60 + x.mi - x.off
           s == IF mins < 0 THEN -1 ELSE IF mins >= 1440 THEN 1 ELSE 0
           mm == mins - s * 1440
           day == DayShift(x.y, x.mo, x.d, s)
       IN <<day[1], day[2], day[3], mm \div 60, mm % 60, x.sec * 1000 + x.ms>>

TimeComponents(x) == <<x.h, x.mi, x.sec * 1000 + x.ms>>

(* precision level: second and millisecond are one level *)
LevelDT(x) == IF Mutant = "msIsPrecision" THEN x.p ELSE (IF x.p >= 6 THEN 6 ELSE x.p)
LevelT(x)  == (IF x.p >= 6 THEN 6 ELSE x.p) - 3        \* 1 hour, 2 minute, 3 second

(* first index in 1..n where the component tuples differ, 0 if none *)
RECURSIVE FirstDiff(_, _, _, _)
FirstDiff(a, b, k, n) == IF k > n THEN 0 ELSE IF a[k] # b[k] THEN k ELSE FirstDiff(a, b, k + 1, n)

(* -1 / 0 / 1 on the shared components, plus whether precisions differ *)
CmpComponents(a, b, la, lb) ==
  LET n == Min(Min(la, lb), Len(a))
      k == FirstDiff(a, b, 1, n)
  IN IF k # 0 THEN [c |-> IF a[k] < b[k] THEN -1 ELSE 1, partial |-> FALSE]
     ELSE [c |-> 0, partial |-> la # lb]

TemporalCmp(x, y) ==
  IF x.t = "time" THEN CmpComponents(TimeComponents(x), TimeComponents(y), LevelT(x), LevelT(y))
  ELSE CmpComponents(UtcComponents(x), UtcComponents(y), LevelDT(x), LevelDT(y))

(* one operand carries an offset, the other does not, and both have a time: *)
(* the property text allows "no offset = UTC" or empty                      *)
MixedOffset(x, y) ==
  /\ x.t = "dt" /\ y.t = "dt" /\ x.p >= 4 /\ y.p >= 4 /\ x.tz # y.tz

(************************** single-item equality **************************)
SameFamily(x, y) ==
  \/ (IsNum(x) /\ IsNum(y))
  \/ (IsTemporalDT(x) /\ IsTemporalDT(y))
  \/ (x.t = y.t /\ x.t \in {"b", "s", "time", "q"})

(* The set of permitted answers for `x = y` on single items. *)
EqSet(x0, y0) ==
  LET x == Val(x0)  y == Val(y0) IN
  IF IsComplex(x) \/ IsComplex(y) THEN
     (IF IsComplex(x) /\ IsComplex(y) THEN {IF x.h = y.h THEN "T" ELSE "F"} ELSE {"F"})
  ELSE IF (x.t = "q" /\ IsNum(y)) \/ (IsNum(x) /\ y.t = "q") THEN {"T", "F", "E"}   \* not addressed by the property
  ELSE IF ~SameFamily(x, y) THEN {"F"}
  ELSE CASE IsNum(x) -> {IF (IF Mutant = "intDecimalNoPromote" /\ x.t # y.t THEN FALSE ELSE DEq(NumD(x), NumD(y))) THEN "T" ELSE "F"}
         [] x.t = "b" -> {IF x.b = y.b THEN "T" ELSE "F"}
         [] x.t = "s" -> {IF x.cp = y.cp THEN "T" ELSE "F"}
         [] x.t = "q" -> (IF x.unit = y.unit THEN {IF DEq(DOfItem(x.val), DOfItem(y.val)) THEN "T" ELSE "F"} ELSE {"E"})
         [] OTHER ->  \* temporal
            LET r == TemporalCmp(x, y)
                base == IF r.c # 0 THEN "F" ELSE IF r.partial THEN "E" ELSE "T"
            IN IF MixedOffset(x, y) THEN {base, "E"} ELSE {base}

(* The set of permitted answers for `x < y`: "X" stands for "error or empty". *)
LtSet(x0, y0) ==
  LET x == Val(x0)  y == Val(y0) IN
  IF IsComplex(x) \/ IsComplex(y) THEN {"X"}
  ELSE IF (x.t = "q" /\ IsNum(y)) \/ (IsNum(x) /\ y.t = "q") THEN {"T", "F", "E", "X"}
  ELSE IF ~SameFamily(x, y) \/ x.t = "b" THEN {"X"}
  ELSE CASE IsNum(x) -> {IF DLt(NumD(x), NumD(y)) THEN "T" ELSE "F"}
         [] x.t = "s" -> {IF CpCmp(x.cp, y.cp) < 0 THEN "T" ELSE "F"}
         [] x.t = "q" -> (IF x.unit = y.unit THEN {IF DLt(DOfItem(x.val), DOfItem(y.val)) THEN "T" ELSE "F"} ELSE {"E"})
         [] OTHER ->
            LET r == TemporalCmp(x, y)
                base == IF r.c < 0 THEN "T" ELSE IF r.c > 0 THEN "F" ELSE IF r.partial THEN "E" ELSE "F"
            IN IF MixedOffset(x, y) THEN {base, "E"} ELSE {base}

Neg3(v) == CASE v = "T" -> "F" [] v = "F" -> "T" [] OTHER -> v

(* the six operators on single items, as permitted-answer sets *)
OpSet(op, x, y) ==
  CASE op = "="  -> EqSet(x, y)
    [] op = "!=" -> {Neg3(v) : v \in EqSet(x, y)}
    [] op = "<"  -> LtSet(x, y)
    [] op = ">"  -> LtSet(y, x)
    [] op = "<=" -> {Neg3(v) : v \in LtSet(y, x)}      \* a <= b  iff  not (a > b)
    [] op = ">=" -> {Neg3(v) : v \in LtSet(x, y)}

(*************************** collection equality ***************************)
(* Equal iff same length and every corresponding pair is equal: true only  *)
(* when every pair is equal, false when some pair is unequal, empty when    *)
(* some pair's comparison is empty (when one pair is unequal and another    *)
(* pair's comparison is empty, both false and empty are tolerated).         *)
CollEqSet(a, b) ==
  IF Len(a) = 0 \/ Len(b) = 0 THEN {"E"}
  ELSE IF Len(a) # Len(b) THEN {"F"}
  ELSE LET n == IF Mutant = "cmpFirstPairOnly" THEN 1 ELSE Len(a)
           sets == [j \in 1..n |-> EqSet(a[j], b[j])]
       IN (IF \A j \in 1..n : "T" \in sets[j] THEN {"T"} ELSE {})
          \cup (IF \E j \in 1..n : "F" \in sets[j] THEN {"F"} ELSE {})
          \cup (IF \E j \in 1..n : "E" \in sets[j] THEN {"E"} ELSE {})

(* Permitted outcomes of `l op r` on operand collections. *)
AsOutcome(v) == CASE v = "T" -> Ok(<<B(TRUE)>>) [] v = "F" -> Ok(<<B(FALSE)>>) [] v = "E" -> Ok(<<>>)

PermittedCmp(op, l, r) ==
  IF op \in {"=", "!="} THEN
     {AsOutcome(IF op = "=" THEN v ELSE Neg3(v)) : v \in CollEqSet(l, r)}
  ELSE IF Len(l) = 0 \/ Len(r) = 0 THEN {IF Mutant = "cmpEmptyIsFalse" THEN Ok(<<B(FALSE)>>) ELSE Ok(<<>>)}
  ELSE IF Len(l) > 1 \/ Len(r) > 1 THEN {ErrAny}
  ELSE UNION {IF v = "X" THEN {ErrAny, Ok(<<>>)} ELSE {AsOutcome(v)} : v \in OpSet(op, l[1], r[1])}
=============================================================================
