------------------------------- MODULE C03_MC -------------------------------
(***************************************************************************)
(* Explores FPSlices exhaustively (caller arrays of length 0..MaxLen with  *)
(* 0..MaxSpare spare cells, pipelines of up to MaxSteps steps), checks     *)
(* CallerArraysFrozen, and emits every behaviour as a case: the harness    *)
(* replays it with a real Go slice of that length and capacity whose spare *)
(* cells hold sentinel values.                                             *)
(***************************************************************************)
EXTENDS FPSlices, Json, TLC

StepText(s) == CASE s = "tail" -> ".tail()" [] s = "skip2" -> ".skip(2)" [] s = "take1" -> ".take(1)" [] s = "select" -> ".select($this)"
                 [] s = "excl" -> ".exclude(%two)" [] OTHER -> ""
RECURSIVE PipeText(_, _)
PipeText(o, k) ==   \* text of steps 1..k applied to %e; a concat wraps what precedes it
  IF k = 0 THEN "%e"
  ELSE IF o[k] = "concat" THEN "(" \o PipeText(o, k - 1) \o " & 'x')"
  ELSE IF o[k] = "proj" THEN "%two.select(" \o PipeText(o, k - 1) \o ")"
  ELSE PipeText(o, k - 1) \o StepText(o[k])

(* an always-true invariant whose evaluation emits the behaviour that reached the state *)
Emitting ==
  Len(ops) > 0 =>
    PrintT(ToJson([id |-> "slice/" \o ToString(shape.len) \o "/" \o ToString(shape.spare) \o "/" \o PipeText(ops, Len(ops)),
                   kind |-> "slice", len |-> shape.len, spare |-> shape.spare, text |-> PipeText(ops, Len(ops))]))
=============================================================================
