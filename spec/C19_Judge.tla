------------------------------ MODULE C19_Judge ------------------------------
(***************************************************************************)
(* Role 3: judge observations of the real code for property C19.  One      *)
(* observation = one aspect of one case: [id, aspect, cs, <probes>].  The   *)
(* verdict is the first failed check of the aspect (C19!ChecksOf); the      *)
(* signature names aspect, check, case class and what was wrong.            *)
(***************************************************************************)
EXTENDS C19, Json, Params

Obs   == ndJsonDeserialize(ObsFile)
Cases == ndJsonDeserialize(CasesFile)      \* C19_MC's own output: [id, ..., den]; o.ci indexes it (0 for "raw")
N == Len(Obs)
W == 16

CaseOfObs(o) == Case(o.cs.kind, o.cs.type, o.cs.rid, o.cs.ver, o.cs.base, o.cs.ridc, o.cs.verc, o.cs.basec, o.cs.x)

Verdict(o) ==
  LET cs == CaseOfObs(o)
      generated == o.ci >= 1 /\ o.ci <= Len(Cases)
      (* the harness echoes the case; it must be the case TLC generated *)
      (* ci = 0: a byte-mutated neighbour made by the harness; its denotation is computed here *)
      echoOk == IF o.ci = 0 THEN cs.kind = "raw"
                ELSE generated /\ Cases[o.ci].id = o.cs.id /\ CaseId(cs) = o.cs.id /\ Cases[o.ci].den.text = o.cs.text
      d == IF o.ci = 0 THEN Denote(cs) ELSE Cases[o.ci].den
      checks == IF ~echoOk THEN << Chk("case", "malformed") >>
                ELSE IF o.aspect \notin AspectsOf(cs.kind) THEN << Chk("aspect", "malformed") >>
                ELSE ChecksOf(o, cs, d)
      bad == {i \in 1..Len(checks) : checks[i].problem # ""}
      first == CHOOSE i \in bad : \A j \in bad : i <= j
      good == bad = {}
  IN [id |-> o.id, ok |-> good,
      sig |-> IF good THEN "" ELSE "ref|" \o o.aspect \o "|" \o checks[first].name \o "|" \o CaseClass(cs, d) \o "|" \o checks[first].problem,
      want |-> IF cs.kind = "raw" THEN CaseClass(cs, d) ELSE o.cs.id]

VARIABLE i
Init == i \in 1..(IF N < W THEN N ELSE W) /\ PrintT(ToJson(Verdict(Obs[i])))
Next == i + W <= N /\ i' = i + W /\ PrintT(ToJson(Verdict(Obs[i'])))
Spec == Init /\ [][Next]_i
=============================================================================
