--------------------------- MODULE C04_RepeatJudge ---------------------------
(***************************************************************************)
(* C04, "the result of Evaluate is a function of the expression text,      *)
(* compile options, input resources and evaluate options only: repeating   *)
(* it, interleaving it with other evaluations ... gives the same result",  *)
(* on the programs of the whole abstract machine (lib/machine.py).  The    *)
(* harness evaluates every compiled program on inputs A, then on OTHER     *)
(* inputs B (another resource, every environment collection changed), then *)
(* on A again, and a freshly compiled copy on B; it records                *)
(*   reeval_differs     the third evaluation (A again) differs from the first *)
(*   crosseval_differs  the reused expression differs on B from the fresh one *)
(* Either flag means the outcome depended on what was evaluated before.    *)
(***************************************************************************)
EXTENDS FPValues, Json, Params

Obs == ndJsonDeserialize(ObsFile)
NObs == Len(Obs)
W == 16

Verdict(o) ==
  LET re == o.mut.reeval_differs
      cr == o.mut.crosseval_differs
      kp == Has(o.mut, "kept_result_changed") /\ o.mut.kept_result_changed     \* the returned collection, kept by the caller, was overwritten by a later evaluation
      good == ~re /\ ~cr /\ ~kp /\ ~IsFailure(o.out)
  IN [id |-> o.id, ok |-> good,
      sig |-> IF good THEN "" ELSE IF IsFailure(o.out) THEN "repeat|" \o o.out.k
              ELSE IF kp /\ ~re /\ ~cr THEN "repeat|returned-collection-overwritten-by-a-later-evaluation"
              ELSE "repeat|compiled-expression-reused|" \o (IF re THEN "same-inputs-again-differs" ELSE "") \o (IF re /\ cr THEN "+" ELSE "") \o (IF cr THEN "other-inputs-differ-from-fresh-compile" ELSE ""),
      want |-> "the same outcome whatever was evaluated before"]

VARIABLE i
Init == i \in 1..(IF NObs < W THEN NObs ELSE W) /\ PrintT(ToJson(Verdict(Obs[i])))
Next == i + W <= NObs /\ i' = i + W /\ PrintT(ToJson(Verdict(Obs[i'])))
Spec == Init /\ [][Next]_i
=============================================================================
