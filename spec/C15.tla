-------------------------------- MODULE C15 --------------------------------
(***************************************************************************)
(* Property C15: literals and value representations round-trip losslessly. *)
(* This module is the case space (six families) and the oracle.  C15_MC    *)
(* explores it, checks the laws and emits the cases; C15_Judge judges the  *)
(* observations of the real code with the J* operators below.              *)
(*                                                                         *)
(* Families / case kinds / signature prefixes:                             *)
(*   lit-string       string literal bodies and the Encode direction       *)
(*   lit-decimal      Boolean, Integer, Decimal and Quantity literal texts *)
(*   lit-temporal     Date / DateTime / Time literal texts                 *)
(*   proto-precision  System value <-> FHIR primitive element              *)
(*   fhir-helpers     internal/fhir Parse* and fhirconv *ToString          *)
(*   narrow           integer narrowing                                    *)
(*                                                                         *)
(* Latitude (what Permitted deliberately leaves open), stated once:        *)
(*  L1 a string body with an unescaped quote is not one literal: any       *)
(*     outcome but a panic/timeout.                                        *)
(*  L2 a backslash that starts none of the listed escapes: the grammar's   *)
(*     ESC rule rejects it, ANTLR's `.` alternative accepts it.  Permitted *)
(*     = any error, the string with that backslash kept ("all other        *)
(*     characters intact") or dropped (N1: "it will be ignored and will    *)
(*     not appear").  Nothing else (e.g. eating the following character).  *)
(*  L3 more than three fraction digits: error, truncation or rounding to   *)
(*     milliseconds - but the value, its string form and its comparisons   *)
(*     must agree with each other.                                         *)
(*  L4 texts outside the grammar or outside the value ranges (month 13,    *)
(*     @2015T14, Integer above 2^31-1): any outcome but a panic/timeout.   *)
(*  L5 round trips are judged by value, never by the spelling of the       *)
(*     intermediate string.                                                *)
(*  L6 hour/minute precision has no FHIR precision enum; a System value    *)
(*     without offset has no FHIR spelling above DAY precision:            *)
(*     unconstrained except for panics.                                    *)
(***************************************************************************)
EXTENDS FPLiterals

CONSTANTS StrMaxLen,   \* bodies up to this length, exhaustively
          EncMaxLen,   \* value strings up to this length for the Encode direction
          NRandom,     \* seeded random cases per family
          Families,    \* which families this run generates
          NarrowWide   \* FALSE: exhaustive 8-bit values; TRUE: also exhaustive 16-bit values for 8/16-bit targets

(******************************* helpers ***********************************)
RECURSIVE CpsId(_)
CpsId(s) == IF s = <<>> THEN "" ELSE ToString(s[1]) \o (IF Len(s) > 1 THEN "." ELSE "") \o CpsId(Tail(s))

SeqsUpTo(A, n) == UNION {[1..k -> A] : k \in 0..n}

(* a small linear congruential generator (every product stays below 2^31) *)
Lcg(x) == (x * 75 + 74) % 65537
RECURSIVE Stream(_, _)
Stream(x, n) == IF n = 0 THEN <<>> ELSE <<Lcg(x)>> \o Stream(Lcg(x), n - 1)
SeedOf(seed, fam, k) == ((seed % 6000) * 11 + fam * 977 + k * 13 + 1) % 65537

IsOne(out) == out.k = "ok" /\ Len(out.items) = 1
IsTrue(out) == IsOne(out) /\ out.items[1].t = "b" /\ out.items[1].b
IsErr(out) == out.k \in {"cerr", "err"}
AnyFailure(outs) == \E x \in outs : IsFailure(x)
FailKind(outs) == IF \E x \in outs : x.k = "panic" THEN "panic" ELSE "timeout"

(***************************************************************************)
(* Family 1: lit-string                                                    *)
(***************************************************************************)
(* every escape letter, both quotes, backtick, backslash, slash, u, a hex   *)
(* digit (0; f is one too), a non-ASCII character, a plain letter           *)
BodyAlpha == {39, 34, 96, 92, 47, 102, 110, 114, 116, 117, 48, 233, 97}
(* value strings: the characters the escapes denote, the escapable ones,    *)
(* non-ASCII from two UTF-8 lengths                                         *)
ValAlpha == {39, 34, 96, 92, 47, 102, 117, 48, 233, 9, 10, 12, 13, 8364, 97}

UniHex == {<<48, 48, 101, 57>>, <<48, 48, 69, 57>>, <<48, 48, 52, 49>>, <<50, 48, 65, 67>>, <<50, 48, 97, 99>>,
           <<48, 48, 50, 55>>, <<48, 48, 53, 99>>, <<48, 48, 53, 67>>, <<48, 48, 48, 97>>, <<100, 55, 102, 102>>,
           <<70, 70, 70, 68>>, <<48, 48, 101>>, <<48, 48, 101, 103>>}
UniPrefix == {<<>>, <<97>>, <<92, 92>>, <<92>>, <<92, 110>>}
UniSuffix == {<<>>, <<97>>, <<48>>, <<110>>, <<92, 117, 48, 48, 52, 49>>}

StrCase(sub, body, val) == [kind |-> "lit-string", id |-> "S" \o sub \o ":" \o CpsId(body), sub |-> sub, body |-> body, val |-> val]

RandBody(seed, k) ==
  LET r == Stream(SeedOf(seed, 1, k), 11)
      n == 5 + (r[1] % 6)
      al == <<39, 34, 96, 92, 92, 92, 47, 102, 110, 114, 116, 117, 48, 233, 97, 8364>>
  IN [j \in 1..n |-> al[1 + (r[j + 1] % Len(al))]]

StringCases(seed) ==
  {StrCase("body", b, <<>>) : b \in SeqsUpTo(BodyAlpha, StrMaxLen)}
  \cup {StrCase("enc", Encode(v), v) : v \in SeqsUpTo(ValAlpha, EncMaxLen)}
  \cup {StrCase("encmax", EncodeMax(v), v) : v \in SeqsUpTo(ValAlpha, EncMaxLen)}
  \cup {StrCase("uni", p \o <<92, 117>> \o h \o s, <<>>) : p \in UniPrefix, h \in UniHex, s \in UniSuffix}
  \cup {StrCase("rand", RandBody(seed, k), <<>>) : k \in 1..NRandom}
  \* raw (unescaped) line breaks, tabs and blanks inside a literal are ordinary characters of the value: bodies that differ
  \* only in their white space denote different strings (all compiled in one process, in an order the seed fixes)
  \cup {StrCase("raw", b, <<>>) : b \in SeqsUpTo({10, 13, 32, 9, 97}, 3)}

(* what the specification permits for a body *)
StrValues(body) ==
  LET c == BodyClass(body)
  IN IF c = "valid" THEN {Decode(body)} ELSE IF c = "lone" THEN {DecodeKeep(body), DecodeDrop(body)} ELSE {}
IsStr(out, v) == IsOne(out) /\ out.items[1].t = "s" /\ out.items[1].cp = v

JoinKinds(ks) ==  \* fixed order
  LET part(k) == IF k \in ks THEN "+" \o k ELSE ""
  IN "kinds" \o part("ch") \o part("esc") \o part("uni") \o part("lone") \o part("quote")
RECURSIVE EscCodes(_)
EscCodes(ts) == IF ts = <<>> THEN {} ELSE (IF ts[1].k = "esc" THEN {ts[1].c} ELSE {}) \cup EscCodes(Tail(ts))
RECURSIVE SetSig(_)
SetSig(A) == IF A = {} THEN "" ELSE LET m == CHOOSE x \in A : \A y \in A : x <= y IN "." \o ToString(m) \o SetSig(A \ {m})

JString(o) ==
  LET body == o.cs.body
      cls == BodyClass(body)
      vals == StrValues(body)
      good == /\ ~IsFailure(o.out)
              /\ \/ cls = "quote"
                 \/ (cls = "lone" /\ IsErr(o.out))
                 \/ \E v \in vals : IsStr(o.out, v)
      sig == IF IsFailure(o.out) THEN "lit-string|" \o o.out.k
             ELSE IF "uni" \in TokKinds(body) /\ IsStr(o.out, NoUniDrop(body)) THEN "lit-string|unicode-escape-not-decoded"
             ELSE "lit-string|" \o cls \o "|" \o JoinKinds(TokKinds(body)) \o "|esc" \o SetSig(EscCodes(Tokens(body))) \o "|got-" \o KindOf(o.out)
      want == IF vals = {} THEN [k |-> "any"] ELSE Ok(<<S(CHOOSE v \in vals : TRUE)>>)
  IN [ok |-> good, sig |-> IF good THEN "" ELSE sig, want |-> want]

(***************************************************************************)
(* Family 2: lit-decimal (Boolean, Integer, Decimal, Quantity texts)       *)
(***************************************************************************)
(* integer parts, fraction parts (digit strings as code points) *)
D_(s) == [j \in 1..Len(s) |-> 48 + s[j]]
IntParts == {D_(<<0>>), D_(<<1>>), D_(<<9>>), D_(<<1, 0>>), D_(<<1, 2, 3>>), D_(<<4, 2, 9, 4, 9, 6, 7, 2, 9, 6>>),
             D_(<<9, 2, 2, 3, 3, 7, 2, 0, 3, 6, 8, 5, 4, 7, 7, 5, 8, 0, 7>>),
             D_(<<1, 2, 3, 4, 5, 6, 7, 8, 9, 0, 1, 2, 3, 4, 5, 6, 7, 8, 9, 0, 1, 2, 3, 4, 5, 6, 7>>)}
FracParts == {D_(<<0>>), D_(<<5>>), D_(<<1>>), D_(<<2, 5>>), D_(<<0, 0, 1>>), D_(<<1, 2, 5>>),
              D_(<<3, 3, 3, 3, 3, 3, 3, 3, 3, 3, 3, 3, 3, 3, 3, 3, 3, 3>>)}
ZeroRuns == {<<>>, <<48>>, <<48, 48>>}

(* The large pools take a dummy argument so that TLC does not evaluate them at start-up in runs (mutant twins, *)
(* judge) that never use them.                                                                              *)
(* at most 30 digits, leading and trailing zeros included *)
DecimalTexts(lazy) == {t \in {lz \o ip \o <<cDot>> \o fp \o tz : lz \in ZeroRuns, ip \in IntParts, fp \in FracParts, tz \in ZeroRuns} : Len(t) <= 31}
(* 30 digits: 15.15, 1.29, 29.1 *)
LongTexts == {D_(<<1, 2, 3, 4, 5, 6, 7, 8, 9, 0, 1, 2, 3, 4, 5>>) \o <<cDot>> \o D_(<<5, 4, 3, 2, 1, 0, 9, 8, 7, 6, 5, 4, 3, 2, 1>>),
              D_(<<7>>) \o <<cDot>> \o D_(<<0, 0, 0, 0, 0, 0, 0, 0, 0, 0, 0, 0, 0, 0, 0, 0, 0, 0, 0, 0, 0, 0, 0, 0, 0, 0, 0, 0, 1>>),
              D_(<<9, 9, 9, 9, 9, 9, 9, 9, 9, 9, 9, 9, 9, 9, 9, 9, 9, 9, 9, 9, 9, 9, 9, 9, 9, 9, 9, 9, 9>>) \o <<cDot>> \o D_(<<9>>)}
IntegerTexts == {lz \o ip : lz \in ZeroRuns, ip \in {D_(<<0>>), D_(<<1>>), D_(<<4, 2>>), D_(<<2, 1, 4, 7, 4, 8, 3, 6, 4, 7>>),
                                                       D_(<<2, 1, 4, 7, 4, 8, 3, 6, 4, 8>>), D_(<<4, 2, 9, 4, 9, 6, 7, 2, 9, 6>>),
                                                       D_(<<6, 5, 5, 3, 6>>), D_(<<1, 0, 0, 0, 0>>)}}

UnitMg == <<109, 103>>
UnitPool == {UnitMg, <<107, 103, 47, 109, 50>>, <<109, 109, 91, 72, 103, 93>>, <<37>>, <<49>>, <<123, 115, 99, 111, 114, 101, 125>>, <<119, 107>>}
QtyNums == {D_(<<5>>), D_(<<0>>), D_(<<1>>) \o <<cDot>> \o D_(<<5, 0>>), D_(<<0, 0, 7>>) \o <<cDot>> \o D_(<<2, 5>>),
            D_(<<1, 2, 3, 4, 5, 6, 7, 8, 9, 0, 1, 2, 3, 4, 5, 6, 7, 8, 9>>) \o <<cDot>> \o D_(<<1>>)}
(* units written with escapes: \u00b5g, a\'b, a\\b (the unit is a STRING token, so escapes are decoded) *)
EscapedUnits == {<<92, 117, 48, 48, 98, 53, 103>>, <<97, 92, 39, 98>>, <<97, 92, 92, 98>>}
QuantityTexts(lazy) == {n \o <<cSpace>> \o <<cSQ>> \o u \o <<cSQ>> : n \in QtyNums, u \in UnitPool}
                 \cup {D_(<<5>>) \o <<cSpace>> \o <<cSQ>> \o u \o <<cSQ>> : u \in EscapedUnits}
                 \cup {n \o <<cSQ>> \o UnitMg \o <<cSQ>> : n \in QtyNums}
                 \cup {n \o <<cSpace>> \o kw : n \in QtyNums, kw \in Keywords}

NumCase(sub, text) == [kind |-> "lit-decimal", id |-> "N" \o sub \o ":" \o CpsId(text), sub |-> sub, text |-> text,
                       conv |-> CASE sub = "boolean" -> "toBoolean" [] sub = "integer" -> "toInteger"
                                  [] sub = "decimal" -> "toDecimal" [] sub = "quantity" -> "toQuantity"]

RandDecimal(seed, k) ==
  LET r == Stream(SeedOf(seed, 2, k), 34)
      ni == 1 + (r[1] % 20)
      nf == 1 + (r[2] % (30 - ni))
  IN [j \in 1..ni |-> 48 + (r[2 + j] % 10)] \o <<cDot>> \o [j \in 1..nf |-> 48 + (r[2 + ni + j] % 10)]

NumberCases(seed) ==
  {NumCase("boolean", t) : t \in {cTrue, cFalse}}
  \cup {NumCase("integer", t) : t \in IntegerTexts}
  \cup {NumCase("decimal", t) : t \in DecimalTexts(0) \cup LongTexts}
  \cup {NumCase("decimal", RandDecimal(seed, k)) : k \in 1..NRandom}
  \cup {NumCase("quantity", t) : t \in QuantityTexts(0)}

(* o.lit, o.rt, o.rteq : literal, literal.toString().toX(), ( ... = literal) *)
JNumber(o) ==
  LET cs == o.cs
      p == ParseLit(cs.text)
      outs == {o.lit, o.rt, o.rteq}
      isV(out) == IsOne(out) /\ ValueSame(out.items[1], p.v)
      step == IF ~p.ok THEN "none"
              ELSE IF ~isV(o.lit) THEN "lit"
              ELSE IF ~isV(o.rt) THEN "canon-reparse"
              ELSE IF ~IsTrue(o.rteq) THEN "canon-reparse-eq"
              ELSE "none"
      bad == IF step = "lit" THEN o.lit ELSE IF step = "canon-reparse" THEN o.rt ELSE o.rteq
      unitClass == IF cs.sub # "quantity" THEN ""
                   ELSE IF \E j \in 1..Len(cs.text) : cs.text[j] = cBS THEN "|unit-escaped"
                   ELSE IF p.v.unit \in Keywords THEN "|unit-keyword"
                   ELSE IF \A j \in 1..Len(p.v.unit) : (p.v.unit[j] >= 65 /\ p.v.unit[j] <= 90) \/ (p.v.unit[j] >= 97 /\ p.v.unit[j] <= 122) THEN "|unit-letters"
                   ELSE "|unit-other"
      sig == IF AnyFailure(outs) THEN "lit-decimal|" \o cs.sub \o "|" \o FailKind(outs)
             ELSE "lit-decimal|" \o cs.sub \o "|" \o step \o unitClass \o "|got-" \o KindOf(bad)
      good == ~AnyFailure(outs) /\ step = "none"
  IN [ok |-> good, sig |-> IF good THEN "" ELSE sig,
      want |-> IF p.ok THEN Ok(<<p.v>>) ELSE [k |-> "any"]]

(***************************************************************************)
(* Family 3: lit-temporal                                                  *)
(***************************************************************************)
DatePool == {<<2020, 2, 29>>, <<1, 1, 1>>, <<9999, 12, 31>>, <<2015, 10, 5>>}
TimePool == {<<0, 0, 0>>, <<23, 59, 59>>, <<10, 30, 7>>}
FracPool == {<<>>, <<5>>, <<0>>, <<2, 5>>, <<1, 2, 5>>, <<0, 0, 0>>, <<9, 9, 9>>, <<1, 2, 3, 4>>, <<1, 2, 3, 5>>,
             <<1, 2, 3, 4, 5>>, <<1, 2, 3, 4, 5, 6>>, <<0, 0, 0, 0, 0, 1>>, <<5, 0, 0, 0, 0, 0>>}
(* offset forms: none, Z, +hh:mm, -hh:mm *)
Zone(form, off) == [form |-> form, off |-> off]
ZonePool == {Zone("none", 0), Zone("Z", 0), Zone("num", 0), Zone("num", 120), Zone("num", -480), Zone("num", 330),
             Zone("num", 840), Zone("num", -720)}
(* further offsets: negative with a minute part (-03:30, -09:30, -00:30), +00:30, quarter hours (+05:45, +12:45);  *)
(* crossed with a reduced date/time pool in the quick tier, with the full pools in the thorough tier                *)
ExtraOffsets == {-210, -570, -30, 30, 345, 765}
ZoneExtra == {Zone("num", o) : o \in ExtraOffsets}
XDates == IF NarrowWide THEN DatePool ELSE {<<2020, 2, 29>>, <<9999, 12, 31>>}
XTimes == IF NarrowWide THEN TimePool ELSE {<<0, 0, 0>>, <<23, 59, 59>>}
NumZoneText(off) ==
  LET a == IF off < 0 THEN 0 - off ELSE off
  IN <<IF off < 0 THEN cMinus ELSE cPlus>> \o D2(a \div 60) \o <<cColon>> \o D2(a % 60)
ZoneTextOf(z) == IF z.form = "none" THEN <<>> ELSE IF z.form = "Z" THEN <<cZ>> ELSE NumZoneText(z.off)

FracMsOf(f) == (IF Len(f) >= 1 THEN f[1] * 100 ELSE 0) + (IF Len(f) >= 2 THEN f[2] * 10 ELSE 0) + (IF Len(f) >= 3 THEN f[3] ELSE 0)
FracText(f) == IF f = <<>> THEN <<>> ELSE <<cDot>> \o [j \in 1..Len(f) |-> 48 + f[j]]
(* time-of-day text and precision for a time part tp in 4..6 with fraction f (f only when tp = 6) *)
TodText(tp, t, f) == D2(t[1]) \o (IF tp >= 5 THEN <<cColon>> \o D2(t[2]) ELSE <<>>)
                     \o (IF tp >= 6 THEN <<cColon>> \o D2(t[3]) \o FracText(f) ELSE <<>>)
TodPrec(tp, f) == IF tp = 6 /\ f # <<>> THEN 7 ELSE tp

(* structured descriptions; Den computes the value WITHOUT the parser *)
DescText(ds) ==
  CASE ds.k = "date" -> <<cAt>> \o DateText(ds.p, ds.dt[1], ds.dt[2], ds.dt[3])
    [] ds.k = "time" -> <<cAt, cT>> \o TodText(ds.tp, ds.tm, ds.f)
    [] ds.k = "dtp"  -> <<cAt>> \o DateText(ds.p, ds.dt[1], ds.dt[2], ds.dt[3]) \o <<cT>>
    [] ds.k = "dt"   -> <<cAt>> \o DateText(3, ds.dt[1], ds.dt[2], ds.dt[3]) \o <<cT>> \o TodText(ds.tp, ds.tm, ds.f) \o ZoneTextOf(ds.z)
DescDen(ds) ==
  CASE ds.k = "date" -> MkDate(ds.p, ds.dt[1], IF ds.p >= 2 THEN ds.dt[2] ELSE 1, IF ds.p >= 3 THEN ds.dt[3] ELSE 1)
    [] ds.k = "time" -> MkTime(TodPrec(ds.tp, ds.f), ds.tm[1], IF ds.tp >= 5 THEN ds.tm[2] ELSE 0,
                               IF ds.tp >= 6 THEN ds.tm[3] ELSE 0, IF ds.tp >= 6 THEN FracMsOf(ds.f) ELSE 0)
    [] ds.k = "dtp"  -> MkDT(ds.p, ds.dt[1], IF ds.p >= 2 THEN ds.dt[2] ELSE 1, IF ds.p >= 3 THEN ds.dt[3] ELSE 1, 0, 0, 0, 0, FALSE, 0)
    [] ds.k = "dt"   -> MkDT(TodPrec(ds.tp, ds.f), ds.dt[1], ds.dt[2], ds.dt[3], ds.tm[1], IF ds.tp >= 5 THEN ds.tm[2] ELSE 0,
                             IF ds.tp >= 6 THEN ds.tm[3] ELSE 0, IF ds.tp >= 6 THEN FracMsOf(ds.f) ELSE 0,
                             ds.z.form # "none", ds.z.off)
NoZone == Zone("none", 0)
TemporalDescs(lazy) ==
  {[k |-> "date", p |-> p, dt |-> d, tp |-> 0, tm |-> <<0, 0, 0>>, f |-> <<>>, z |-> NoZone] : p \in 1..3, d \in DatePool}
  \cup {[k |-> "dtp", p |-> p, dt |-> d, tp |-> 0, tm |-> <<0, 0, 0>>, f |-> <<>>, z |-> NoZone] : p \in 1..3, d \in DatePool}
  \cup {[k |-> "time", p |-> 0, dt |-> <<1, 1, 1>>, tp |-> tp, tm |-> t, f |-> <<>>, z |-> NoZone] : tp \in 4..5, t \in TimePool}
  \cup {[k |-> "time", p |-> 0, dt |-> <<1, 1, 1>>, tp |-> 6, tm |-> t, f |-> f, z |-> NoZone] : t \in TimePool, f \in FracPool}
  \cup {[k |-> "dt", p |-> 3, dt |-> d, tp |-> tp, tm |-> t, f |-> <<>>, z |-> z] : d \in DatePool, tp \in 4..5, t \in TimePool, z \in ZonePool}
  \cup {[k |-> "dt", p |-> 3, dt |-> d, tp |-> 6, tm |-> t, f |-> f, z |-> z] : d \in DatePool, t \in TimePool, f \in FracPool, z \in ZonePool}
  \cup {[k |-> "dt", p |-> 3, dt |-> d, tp |-> tp, tm |-> t, f |-> <<>>, z |-> z] : d \in XDates, tp \in 4..5, t \in XTimes, z \in ZoneExtra}
  \cup {[k |-> "dt", p |-> 3, dt |-> d, tp |-> 6, tm |-> t, f |-> f, z |-> z] : d \in XDates, t \in XTimes, f \in FracPool, z \in ZoneExtra}

RandTemporalDesc(seed, k) ==
  LET r == Stream(SeedOf(seed, 3, k), 20)
      kind == <<"date", "dtp", "time", "dt", "dt", "dt">>[1 + (r[1] % 6)]
      y == 1 + (r[2] % 9999)
      mo == 1 + (r[3] % 12)
      d == 1 + (r[4] % DaysIn(y, mo))
      tp == 4 + (r[5] % 3)
      nf == r[6] % 7
      f == IF tp = 6 THEN [j \in 1..nf |-> IF j = 4 /\ nf >= 4 THEN r[6 + j] % 5 ELSE r[6 + j] % 10] ELSE <<>>
      zf == <<"none", "Z", "num", "num">>[1 + (r[14] % 4)]
      off == (IF r[15] % 2 = 0 THEN 1 ELSE -1) * ((r[16] % 14) * 60 + <<0, 15, 30, 45, 59>>[1 + (r[17] % 5)])
  IN [k |-> kind, p |-> 1 + (r[18] % 3), dt |-> <<y, mo, d>>, tp |-> tp, tm |-> <<r[19] % 24, r[20] % 60, r[13] % 60>>, f |-> f,
      z |-> IF kind = "dt" THEN Zone(zf, IF zf = "num" THEN off ELSE 0) ELSE NoZone]

(* texts outside the valid literals (latitude L4): never a panic *)
InvalidTemporalTexts ==
  {<<cAt>> \o D4(2020) \o <<cMinus>> \o D2(13), <<cAt>> \o D4(2020) \o <<cMinus>> \o D2(2) \o <<cMinus>> \o D2(30),
   <<cAt>> \o D4(2019) \o <<cMinus>> \o D2(2) \o <<cMinus>> \o D2(29), <<cAt>> \o D4(0) \o <<cMinus>> \o D2(1),
   <<cAt, cT>> \o D2(24), <<cAt, cT>> \o D2(23) \o <<cColon>> \o D2(60), <<cAt, cT>> \o D2(23) \o <<cColon>> \o D2(59) \o <<cColon>> \o D2(60),
   <<cAt>> \o D4(2015) \o <<cT>> \o D2(14), <<cAt>> \o D4(2015) \o <<cMinus>> \o D2(2) \o <<cT>> \o D2(14),
   <<cAt>> \o D4(2015) \o <<cMinus>> \o D2(2) \o <<cMinus>> \o D2(4) \o <<cT>> \o D2(14) \o <<cPlus>> \o D2(15) \o <<cColon>> \o D2(0)}

ConvOf(v) == CASE v.t = "date" -> "toDate" [] v.t = "time" -> "toTime" [] v.t = "dt" -> "toDateTime"
TemporalCaseOfText(sub, text, den) ==
  LET p == ParseTemporalLit(text)
  IN [kind |-> "lit-temporal", id |-> "T" \o sub \o ":" \o CpsId(text), sub |-> sub, text |-> text, den |-> den,
      conv |-> IF p.ok THEN ConvOf(p.v) ELSE "toString",
      canonT |-> IF p.ok THEN TemporalLit(p.v) ELSE text,
      canonR |-> IF p.ok THEN TemporalLit(IF p.inexact /\ p.up THEN RoundedUp(p.v) ELSE p.v) ELSE text]

TemporalCases(seed) ==
  {TemporalCaseOfText("pool", DescText(ds), DescDen(ds)) : ds \in TemporalDescs(0)}
  \cup {TemporalCaseOfText("rand", DescText(RandTemporalDesc(seed, k)), DescDen(RandTemporalDesc(seed, k))) : k \in 1..NRandom}
  \cup {TemporalCaseOfText("invalid", t, [t |-> "none"]) : t \in InvalidTemporalTexts}

FdOf(text) == LET d == PosOf(text, cDot) IN IF d = 0 THEN 0 ELSE DigitRun(text, d + 1)

(* o.lit, o.rt (lit.toString().toX()), o.rteq (.. = lit), o.eqT (lit = canonT), o.eqR (lit = canonR) *)
JTemporal(o) ==
  LET cs == o.cs
      p == ParseTemporalLit(cs.text)
      outs == {o.lit, o.rt, o.rteq, o.eqT, o.eqR}
      vR == IF p.inexact /\ p.up THEN RoundedUp(p.v) ELSE p.v
      litIs(v) == IsOne(o.lit) /\ TemporalSame(o.lit.items[1], v)
      useR == ~litIs(p.v) /\ p.inexact /\ litIs(vR)
      v == IF useR THEN vR ELSE p.v
      isT(x) == x.t \in {"date", "time", "dt"}
      fractionLost == /\ IsOne(o.lit) /\ isT(o.lit.items[1]) /\ o.lit.items[1].t = p.v.t /\ p.v.t # "date" /\ p.v.p = 7
                      /\ p.v.ms # 0 /\ TemporalSame(o.lit.items[1], [p.v EXCEPT !.ms = 0])
      step == IF ~p.ok THEN "none"
              ELSE IF p.inexact /\ IsErr(o.lit) THEN "none"                       \* L3
              ELSE IF ~litIs(v) THEN "lit"
              ELSE IF ~(IsOne(o.rt) /\ isT(o.rt.items[1]) /\ TemporalSame(o.rt.items[1], v)) THEN "canon-reparse"
              ELSE IF ~IsTrue(o.rteq) THEN "canon-reparse-eq"
              ELSE IF ~IsTrue(IF useR THEN o.eqR ELSE o.eqT) THEN "eq-canonical-literal"
              ELSE "none"
      what == CASE step = "lit" -> (IF fractionLost THEN "fraction-lost" ELSE "got-" \o KindOf(o.lit))
                [] step = "canon-reparse" -> "got-" \o KindOf(o.rt)
                [] step = "canon-reparse-eq" -> (IF IsOne(o.rteq) /\ o.rteq.items[1].t = "b" THEN "false" ELSE "got-" \o KindOf(o.rteq))
                [] step = "eq-canonical-literal" -> (IF IsOne(o.eqT) /\ o.eqT.items[1].t = "b" THEN "false" ELSE "got-" \o KindOf(o.eqT))
                [] OTHER -> ""
      sig == IF AnyFailure(outs) THEN "lit-temporal|" \o FailKind(outs)
             ELSE "lit-temporal|" \o p.v.t \o "|p" \o ToString(p.v.p) \o "|fd" \o ToString(FdOf(cs.text)) \o "|" \o step \o "|" \o what
      good == ~AnyFailure(outs) /\ step = "none"
  IN [ok |-> good, sig |-> IF good THEN "" ELSE sig,
      want |-> IF p.ok THEN Ok(<<p.v>>) ELSE [k |-> "any"]]

(***************************************************************************)
(* Family 4: proto-precision (System value <-> FHIR primitive element)     *)
(***************************************************************************)
(* An element is described by its kind, precision enum, the components of   *)
(* its value IN ITS OWN TIMEZONE (components finer than the precision at    *)
(* their minimum), microseconds, and its timezone: tzs is the spelling      *)
(* ("Z", "UTC", "" or "num" = (+|-)hh:mm), off the offset in minutes.       *)
TzPool == {[tzs |-> "Z", off |-> 0], [tzs |-> "UTC", off |-> 0], [tzs |-> "", off |-> 0], [tzs |-> "num", off |-> 0],
           [tzs |-> "num", off |-> 120], [tzs |-> "num", off |-> -480], [tzs |-> "num", off |-> 330]}
TzExtra == {[tzs |-> "num", off |-> o] : o \in ExtraOffsets \cup {840, -720}}
UsFor(prec) == CASE prec = "MILLISECOND" -> {0, 500000, 123000} [] prec = "MICROSECOND" -> {0, 500000, 123000, 123456, 1}
                 [] OTHER -> {0}
El(ek, prec, d, t, us, z) ==
  LET p == SysPrecOfProto(prec)
  IN [ek |-> ek, prec |-> prec, y |-> d[1], mo |-> IF p >= 2 THEN d[2] ELSE 1, d |-> IF p >= 3 THEN d[3] ELSE 1,
      h |-> IF p >= 6 THEN t[1] ELSE 0, mi |-> IF p >= 6 THEN t[2] ELSE 0, sec |-> IF p >= 6 THEN t[3] ELSE 0,
      us |-> us, tzs |-> z.tzs, off |-> z.off]
NoTz == [tzs |-> "", off |-> 0]
Elements(lazy) ==
  {El("Date", pr, d, <<0, 0, 0>>, 0, z) : pr \in DateProtoPrecs, d \in DatePool, z \in TzPool}
  \cup {El("DateTime", pr, d, <<0, 0, 0>>, 0, z) : pr \in {"YEAR", "MONTH", "DAY"}, d \in DatePool, z \in TzPool}
  \cup UNION {{El(ek, pr, d, t, us, z) : d \in DatePool, t \in TimePool, us \in UsFor(pr), z \in TzPool}
               : ek \in {"DateTime", "Instant"}, pr \in {"SECOND", "MILLISECOND", "MICROSECOND"}}
  \cup UNION {{El("Time", pr, <<1970, 1, 1>>, t, us, NoTz) : t \in TimePool, us \in UsFor(pr)} : pr \in TimeProtoPrecs}
  \cup {El("Date", pr, d, <<0, 0, 0>>, 0, z) : pr \in DateProtoPrecs, d \in XDates, z \in TzExtra}
  \cup {El("DateTime", pr, d, <<0, 0, 0>>, 0, z) : pr \in {"YEAR", "MONTH", "DAY"}, d \in XDates, z \in TzExtra}
  \cup UNION {{El(ek, pr, d, t, us, z) : d \in XDates, t \in XTimes, us \in UsFor(pr), z \in TzExtra}
               : ek \in {"DateTime", "Instant"}, pr \in {"SECOND", "MILLISECOND", "MICROSECOND"}}

ElId(el) == el.ek \o "." \o el.prec \o "." \o ToString(el.y) \o "-" \o ToString(el.mo) \o "-" \o ToString(el.d) \o "T" \o ToString(el.h)
            \o "." \o ToString(el.mi) \o "." \o ToString(el.sec) \o "." \o ToString(el.us) \o el.tzs \o ToString(el.off)

(* the System value an element converts to *)
SysOfEl(el) ==
  LET p == SysPrecOfProto(el.prec)
  IN CASE el.ek = "Date" -> MkDate(p, el.y, el.mo, el.d)
       [] el.ek = "Time" -> MkTime(p, el.h, el.mi, el.sec, el.us \div 1000)
       [] OTHER -> IF p <= 3 THEN MkDT(p, el.y, el.mo, el.d, 0, 0, 0, 0, FALSE, 0)
                   ELSE MkDT(p, el.y, el.mo, el.d, el.h, el.mi, el.sec, el.us \div 1000, TRUE, el.off)

(* expressions whose value is converted to an element: literals, or -literal *)
ProtoToExprs(lazy) ==
  {[ek |-> "Date", expr |-> DescText(ds)] : ds \in {x \in TemporalDescs(0) : x.k = "date"}}
  \cup {[ek |-> "DateTime", expr |-> DescText(ds)] : ds \in {x \in TemporalDescs(0) : x.k = "dtp" \/ (x.k = "dt" /\ Len(x.f) \in {0, 3})}}
  \cup {[ek |-> "Time", expr |-> DescText(ds)] : ds \in {x \in TemporalDescs(0) : x.k = "time" /\ Len(x.f) \in {0, 3}}}
  \cup {[ek |-> "Decimal", expr |-> sg \o t] : sg \in {<<>>, <<cMinus>>},
          t \in LongTexts \cup {ip \o <<cDot>> \o fp : ip \in IntParts, fp \in FracParts}}
  \cup {[ek |-> "Integer", expr |-> sg \o t] : sg \in {<<>>, <<cMinus>>}, t \in {D_(<<0>>), D_(<<1>>), D_(<<4, 2>>), D_(<<2, 1, 4, 7, 4, 8, 3, 6, 4, 7>>)}}
  \cup {[ek |-> "Quantity", expr |-> t] : t \in QuantityTexts(0)}

(* scalar elements: kind, and the value as a Boolean b, an integer i, or a text s (Quantity: s = value, code = unit) *)
Scalar(ek, b, i, str, code) == [ek |-> ek, b |-> b, i |-> i, s |-> str, code |-> code]
StringLikeKinds == {"String", "Uri", "Url", "Code", "Oid", "Id", "Uuid", "Markdown", "Canonical"}
ScalarStrings == {<<>>, <<97, 98, 99>>, <<233, 39, 92, 34, 8364>>, <<32, 120, 32>>}
ScalarDecimals == {D_(<<0>>), D_(<<1>>) \o <<cDot>> \o D_(<<5, 0>>), <<cMinus>> \o D_(<<0>>) \o <<cDot>> \o D_(<<0, 0, 1>>),
                   D_(<<0, 0, 7>>), <<cMinus>> \o D_(<<4, 2>>)} \cup LongTexts \cup {<<cMinus>> \o t : t \in LongTexts}
ScalarElements(lazy) ==
  {Scalar("Boolean", b, 0, <<>>, <<>>) : b \in BOOLEAN}
  \cup {Scalar(k, FALSE, 0, str, <<>>) : k \in StringLikeKinds, str \in ScalarStrings}
  \cup {Scalar("Integer", FALSE, i, <<>>, <<>>) : i \in {0, 1, -1, 2147483647, -2147483647, MinInt32}}
  \cup {Scalar(k, FALSE, i, <<>>, <<>>) : k \in {"UnsignedInt", "PositiveInt"}, i \in {0, 1, 65536, 2147483647}}
  \cup {Scalar("Decimal", FALSE, 0, str, <<>>) : str \in ScalarDecimals}
  \cup {Scalar("Quantity", FALSE, 0, str, u) : str \in ScalarDecimals, u \in {UnitMg, <<>>, <<109, 109, 91, 72, 103, 93>>}}
DecOfText(t) ==   \* value of [-]digits[.digits] as a Decimal item
  LET neg == Len(t) > 0 /\ t[1] = cMinus
      p == ParseNumber(IF neg THEN Tail(t) ELSE t)
      d == NumAsDec(p.v)
  IN DItem(IF neg THEN DNeg(d) ELSE d)
SysOfScalar(el) ==
  CASE el.ek = "Boolean" -> B(el.b)
    [] el.ek \in StringLikeKinds -> S(el.s)
    [] el.ek \in {"Integer", "UnsignedInt", "PositiveInt"} -> I(el.i)
    [] el.ek = "Decimal" -> DecOfText(el.s)
    [] el.ek = "Quantity" -> [t |-> "q", val |-> DecOfText(el.s), unit |-> el.code]
ScalarId(el) == el.ek \o ":" \o (IF el.b THEN "t" ELSE "f") \o ToString(el.i) \o ":" \o CpsId(el.s) \o ":" \o CpsId(el.code)

(* seeded DateTime literals with an offset (any hour, minutes 0/15/30/45/59, both signs) and 0 or 3 fraction digits *)
RandZonedDescs(seed) == {ds \in {RandTemporalDesc(seed, k) : k \in 1..NRandom} : ds.k = "dt" /\ ds.z.form # "none"}
ProtoCases(seed) ==
  {[kind |-> "proto-precision", id |-> "Pto:DateTime:" \o CpsId(DescText(ds)), sub |-> "to", ek |-> "DateTime", expr |-> DescText(ds)]
     : ds \in {x \in RandZonedDescs(seed) : Len(x.f) \in {0, 3}}}
  \cup {[kind |-> "proto-precision", id |-> "Pscalar:" \o ScalarId(el), sub |-> "fromscalar", el |-> el] : el \in ScalarElements(0)}
  \cup {[kind |-> "proto-precision", id |-> "Pfrom:" \o ElId(el), sub |-> "from", el |-> el, canon |-> TemporalLit(SysOfEl(el))] : el \in Elements(0)}
  \cup {[kind |-> "proto-precision", id |-> "Pto:" \o x.ek \o ":" \o CpsId(x.expr), sub |-> "to", ek |-> x.ek, expr |-> x.expr] : x \in ProtoToExprs(0)}

(* value of `literal` or `-literal` *)
ValueOfExpr(e) ==
  IF Len(e) > 0 /\ e[1] = cMinus
    THEN LET p == ParseLit(Tail(e))
         IN IF ~p.ok THEN p
            ELSE IF p.v.t = "i" THEN [ok |-> TRUE, v |-> I(0 - p.v.i)]
            ELSE IF p.v.t = "d" THEN [ok |-> TRUE, v |-> DItem(DNeg(DOfItem(p.v)))]
            ELSE Bad("sign")
    ELSE ParseLit(e)

SigDigitsClass(d) == IF NDigits(d.m) <= 15 THEN "le15" ELSE "16plus"

(* components of an observed element agree with a System value down to the value's precision *)
ElMatches(el, v) ==
  LET p == v.p
  IN /\ (v.t # "time" => el.y = v.y /\ (p >= 2 => el.mo = v.mo) /\ (p >= 3 => el.d = v.d))
     /\ (v.t # "date" /\ p >= 4 => el.h = v.h)
     /\ (v.t # "date" /\ p >= 5 => el.mi = v.mi)
     /\ (v.t # "date" /\ p >= 6 => el.sec = v.sec)
     /\ (v.t # "date" /\ p >= 7 => el.us = v.ms * 1000)

(* o.sys: XFromProto(el); o.from: system.From(el); o.eq: %x = canon with x the converted value *)
JProtoFrom(o) ==
  LET cs == o.cs
      exp == SysOfEl(cs.el)
      outs == {o.sys, o.from, o.eq}
      isV(out) == IsOne(out) /\ TemporalSame(out.items[1], exp)
      step == IF ~isV(o.sys) THEN "from-proto" ELSE IF ~isV(o.from) THEN "system-from"
              ELSE IF ~IsTrue(o.eq) THEN "eq-canonical-literal" ELSE "none"
      bad == IF step = "from-proto" THEN o.sys ELSE IF step = "system-from" THEN o.from ELSE o.eq
      good == ~AnyFailure(outs) /\ step = "none"
      sig == "proto-precision|from|" \o cs.el.ek \o "|" \o cs.el.prec \o "|tz-" \o cs.el.tzs \o "|" \o
             (IF AnyFailure(outs) THEN FailKind(outs)
              ELSE step \o "|" \o (IF step = "eq-canonical-literal" /\ IsOne(o.eq) /\ o.eq.items[1].t = "b" THEN "false" ELSE "got-" \o KindOf(bad)))
  IN [ok |-> good, sig |-> IF good THEN "" ELSE sig, want |-> Ok(<<exp>>)]

(* o.val: the expression's value; o.el: the projected element ([ek |-> "none"] when the call failed);  *)
(* o.call: outcome kind of ToProtoX; o.back: system.From(element)                                     *)
JProtoTo(o) ==
  LET cs == o.cs
      pv == ValueOfExpr(cs.expr)
      v == pv.v
      el == o.el
      valOk == IsOne(o.val) /\ ValueSame(o.val.items[1], v)
      callFailed == o.call.k # "ok"
      temporal == v.t \in {"date", "time", "dt"}
      pp == IF temporal THEN ProtoPrecOfSys(v.t, v.p) ELSE "n/a"
      backSame == IsOne(o.back) /\
                  CASE v.t = "dt" /\ o.back.items[1].t = "dt" -> TemporalSame([o.back.items[1] EXCEPT !.tz = IF v.tz THEN @ ELSE FALSE, !.off = IF v.tz THEN @ ELSE 0], v)
                    [] OTHER -> ValueSame(o.back.items[1], v)
      step ==
        IF ~pv.ok \/ ~valOk THEN "none"      \* the literal itself is family 2/3's business
        ELSE IF callFailed THEN "call"
        ELSE IF temporal THEN
          IF pp = "none" THEN "none"                                                     \* L6
          ELSE IF el.prec # pp THEN "precision"
          ELSE IF v.t = "time" /\ ~el.inday THEN "value-us-outside-day"
          ELSE IF ~ElMatches(el, v) THEN "value"
          ELSE IF v.t = "dt" /\ v.p >= 4 /\ v.tz /\ ~(el.offok /\ el.off = v.off) THEN "offset"
          ELSE IF ~backSame THEN "back" ELSE "none"
        ELSE IF v.t = "d" THEN (IF el.dec.t = "d" /\ DEq(DOfItem(el.dec), DOfItem(v)) THEN (IF backSame THEN "none" ELSE "back") ELSE "value-differs")
        ELSE IF v.t = "i" THEN (IF el.i = v.i THEN (IF backSame THEN "none" ELSE "back") ELSE "value-differs")
        ELSE IF v.t = "q" THEN
          IF ~(el.dec.t = "d" /\ DEq(DOfItem(el.dec), DOfItem(v.val))) THEN "value-differs"
          ELSE IF ~(el.code = v.unit \/ el.unit = v.unit) THEN "unit-lost"
          ELSE IF ~backSame THEN "back" ELSE "none"
        ELSE "none"
      detail == CASE step = "value-differs" /\ v.t = "d" -> "|sig-digits-" \o SigDigitsClass(DOfItem(v))
                  [] step = "value-differs" /\ v.t = "q" -> "|sig-digits-" \o SigDigitsClass(DOfItem(v.val))
                  [] step = "precision" -> "|p" \o ToString(v.p) \o "-got-" \o el.prec
                  [] step = "back" /\ v.t = "q" /\ IsOne(o.back) /\ o.back.items[1].t = "q" /\ o.back.items[1].unit = <<>> /\ v.unit # <<>> -> "|unit-lost"
                  [] step = "back" /\ v.t = "q" /\ IsOne(o.back) /\ o.back.items[1].t = "q" -> "|sig-digits-" \o SigDigitsClass(DOfItem(v.val))
                  [] step = "back" /\ v.t = "d" -> "|sig-digits-" \o SigDigitsClass(DOfItem(v))
                  [] step = "back" -> "|p" \o ToString(v.p) \o "|got-" \o KindOf(o.back)
                  [] step = "call" -> "|" \o o.call.k
                  [] step = "value" -> "|p" \o ToString(v.p)
                  [] OTHER -> ""
      outs == {o.val, o.call, o.back}
      good == ~AnyFailure(outs) /\ step = "none"
      sig == "proto-precision|to|" \o cs.ek \o "|" \o (IF AnyFailure(outs) THEN FailKind(outs) ELSE step \o detail)
  IN [ok |-> good, sig |-> IF good THEN "" ELSE sig, want |-> IF pv.ok THEN Ok(<<v>>) ELSE [k |-> "any"]]

(* o.from: system.From(element) *)
JProtoScalar(o) ==
  LET exp == SysOfScalar(o.cs.el)
      good == ~IsFailure(o.from) /\ IsOne(o.from) /\ ValueSame(o.from.items[1], exp)
  IN [ok |-> good, sig |-> IF good THEN "" ELSE "proto-precision|fromscalar|" \o o.cs.el.ek \o "|got-" \o KindOf(o.from), want |-> Ok(<<exp>>)]

JProto(o) == IF o.cs.sub = "from" THEN JProtoFrom(o) ELSE IF o.cs.sub = "fromscalar" THEN JProtoScalar(o) ELSE JProtoTo(o)

(***************************************************************************)
(* Family 5: fhir-helpers (internal/fhir Parse*  and  fhirconv *ToString)  *)
(***************************************************************************)
(* The FHIR lexical forms: date YYYY[-MM[-DD]]; dateTime = date, or full    *)
(* date T hh:mm:ss[.f+] zone; instant = the latter; time hh:mm:ss[.f+].     *)
(* Rendering of an element by the specification: *)
FracUsText(prec, us) ==
  CASE prec = "MILLISECOND" -> <<cDot>> \o D3(us \div 1000)
    [] prec = "MICROSECOND" -> <<cDot>> \o D3(us \div 1000) \o D3(us % 1000)
    [] OTHER -> <<>>
ElText(el, zulu) ==
  LET p == SysPrecOfProto(el.prec)
  IN IF el.ek = "Time" THEN D2(el.h) \o <<cColon>> \o D2(el.mi) \o <<cColon>> \o D2(el.sec) \o FracUsText(el.prec, el.us)
     ELSE DateText(IF p > 3 THEN 3 ELSE p, el.y, el.mo, el.d) \o
          (IF p <= 3 THEN <<>>
           ELSE <<cT>> \o D2(el.h) \o <<cColon>> \o D2(el.mi) \o <<cColon>> \o D2(el.sec) \o FracUsText(el.prec, el.us)
                \o (IF zulu /\ el.off = 0 THEN <<cZ>> ELSE NumZoneText(el.off)))

(* Parsing a FHIR text of kind ek into element components: [ok, prec, y, .., us, off, fd] *)
FracUs(s, i, fd) ==
  LET dg(k) == IF k <= fd THEN s[i + k - 1] - 48 ELSE 0
  IN dg(1) * 100000 + dg(2) * 10000 + dg(3) * 1000 + dg(4) * 100 + dg(5) * 10 + dg(6)
ParseFhir(ek, s) ==
  IF ek = "Time" THEN
    LET t == ScanTime(s, 1)
    IN IF ~t.ok \/ t.p < 6 THEN Bad("syntax") ELSE IF t.next # Len(s) + 1 THEN Bad("syntax")
       ELSE LET dot == PosOf(s, cDot)
            IN [ok |-> TRUE, p |-> t.p, y |-> 1970, mo |-> 1, d |-> 1, h |-> t.h, mi |-> t.mi, sec |-> t.sec,
                us |-> IF t.fd = 0 THEN 0 ELSE FracUs(s, dot + 1, t.fd), fd |-> t.fd, off |-> 0]
  ELSE
    LET d == ScanDate(s)
    IN IF ~d.ok THEN d
       ELSE IF d.next = Len(s) + 1 THEN
         (IF ek = "Instant" THEN Bad("instant-needs-time")
          ELSE [ok |-> TRUE, p |-> d.p, y |-> d.y, mo |-> d.mo, d |-> d.d, h |-> 0, mi |-> 0, sec |-> 0, us |-> 0, fd |-> 0, off |-> 0])
       ELSE IF ek = "Date" \/ d.p # 3 \/ s[d.next] # cT THEN Bad("syntax")
       ELSE LET t == ScanTime(s, d.next + 1)
            IN IF ~t.ok \/ t.p < 6 THEN Bad("syntax")
               ELSE LET z == ScanZone(s, t.next)
                        dot == PosOf(s, cDot)
                    IN IF ~z.ok \/ ~z.tz THEN Bad("zone")
                       ELSE [ok |-> TRUE, p |-> t.p, y |-> d.y, mo |-> d.mo, d |-> d.d, h |-> t.h, mi |-> t.mi, sec |-> t.sec,
                             us |-> IF t.fd = 0 THEN 0 ELSE FracUs(s, dot + 1, t.fd), fd |-> t.fd, off |-> z.off]

(* precision enum a FHIR text denotes: by the number of fraction digits *)
PrecOfParsed(r) == CASE r.p = 1 -> "YEAR" [] r.p = 2 -> "MONTH" [] r.p = 3 -> "DAY" [] r.p = 6 -> "SECOND"
                     [] r.p = 7 /\ r.fd <= 3 -> "MILLISECOND" [] OTHER -> "MICROSECOND"

(* an observed/parsed component record denotes the element el (to el's precision) *)
SameAsEl(r, el) ==
  LET p == SysPrecOfProto(el.prec)
  IN /\ (el.ek # "Time" => r.y = el.y /\ (p >= 2 => r.mo = el.mo) /\ (p >= 3 => r.d = el.d))
     /\ (p >= 6 => r.h = el.h /\ r.mi = el.mi /\ r.sec = el.sec /\ r.off = el.off)
     /\ (el.prec = "MILLISECOND" => r.us \div 1000 = el.us \div 1000)
     /\ (el.prec = "MICROSECOND" => r.us = el.us)

FhirTexts(lazy) ==
  {[ek |-> el.ek, text |-> ElText(el, zulu)] : el \in {e \in Elements(0) : e.tzs \in {"num", "Z"}}, zulu \in BOOLEAN}
  \cup {[ek |-> "DateTime", text |-> DateText(3, 2020, 2, 29) \o <<cT>> \o TodText(6, <<10, 30, 7>>, f) \o z] :
          f \in {<<5>>, <<2, 5>>, <<1, 2, 3, 4>>, <<1, 2, 3, 4, 5>>}, z \in {<<cZ>>, NumZoneText(120)}}
  \cup {[ek |-> "Time", text |-> TodText(6, <<10, 30, 7>>, f)] : f \in {<<5>>, <<2, 5>>, <<1, 2, 3, 4>>, <<1, 2, 3, 4, 5>>}}

HelperCases(seed) ==
  {[kind |-> "fhir-helpers", id |-> "Hparse:" \o ek \o ":" \o CpsId(Tail(DescText(ds))), sub |-> "parse", ek |-> ek, text |-> Tail(DescText(ds))]
     : ek \in {"DateTime", "Instant"}, ds \in {x \in RandZonedDescs(seed) : x.tp = 6}}
  \cup {[kind |-> "fhir-helpers", id |-> "Hfmt:" \o ElId(el), sub |-> "fmt", ek |-> el.ek, el |-> el] : el \in Elements(0)}
  \cup {[kind |-> "fhir-helpers", id |-> "Hparse:" \o x.ek \o ":" \o CpsId(x.text), sub |-> "parse", ek |-> x.ek, text |-> x.text] : x \in FhirTexts(0)}

(* fmt:  o.s = XToString(el) (code points), o.gs = generic ToString(el), o.js = jsonformat's rendering,      *)
(*       o.el2 = Parse(o.s) projected ([k |-> "err"] when it fails)                                        *)
JHelpersFmt(o) ==
  LET cs == o.cs
      el == cs.el
      r == ParseFhir(el.ek, o.s)
      step == IF o.call.k # "ok" THEN "call"
              ELSE IF ~(r.ok /\ SameAsEl(r, el) /\ PrecOfParsed(r) = el.prec) THEN "format"
              ELSE IF o.gs # o.s THEN "generic-tostring-differs"
              ELSE IF o.js # o.s THEN "differs-from-jsonformat"
              ELSE IF o.el2.k # "ok" THEN "parse-of-format-fails"
              ELSE IF ~(o.el2.prec = el.prec /\ SameAsEl(o.el2, el)) THEN "parse-of-format-differs"
              ELSE "none"
      good == ~IsFailure(o.call) /\ step = "none"
      sig == "fhir-helpers|fmt|" \o el.ek \o "|" \o el.prec \o "|tz-" \o el.tzs \o "|" \o (IF IsFailure(o.call) THEN o.call.k ELSE step)
  IN [ok |-> good, sig |-> IF good THEN "" ELSE sig, want |-> [k |-> "text", cp |-> ElText(el, FALSE)]]

(* parse: o.el = Parse(text) projected, o.s2 = XToString(that element), o.js2 = jsonformat's rendering of it *)
JHelpersParse(o) ==
  LET cs == o.cs
      r == ParseFhir(cs.ek, cs.text)
      r2 == ParseFhir(cs.ek, o.s2)
      sameVal(a, b) == PClass(a.p) = PClass(b.p) /\ a.y = b.y /\ a.mo = b.mo /\ a.d = b.d /\ a.h = b.h /\ a.mi = b.mi /\ a.sec = b.sec /\ a.us = b.us /\ a.off = b.off
      elOk == /\ o.el.k = "ok" /\ o.el.y = r.y /\ o.el.mo = r.mo /\ o.el.d = r.d /\ o.el.h = r.h /\ o.el.mi = r.mi /\ o.el.sec = r.sec
              /\ (cs.ek # "Time" /\ r.p >= 6 => o.el.off = r.off)
      step == IF ~r.ok THEN "none"
              ELSE IF o.call.k # "ok" THEN "call"
              ELSE IF ~elOk THEN "parse-value"
              ELSE IF r.fd \in {0, 3, 6} /\ o.el.prec # PrecOfParsed(r) THEN "parse-precision"
              \* 1, 2, 4 or 5 digits: any precision that holds the fraction exactly (".0" is no fraction, ".9730" is ".973")
              ELSE IF ~(o.el.prec = "MICROSECOND" \/ (o.el.prec = "MILLISECOND" /\ r.us % 1000 = 0) \/ (o.el.prec = "SECOND" /\ r.us = 0) \/ (r.p < 6 /\ o.el.prec = PrecOfParsed(r)))
                THEN "parse-precision-odd-fraction"
              ELSE IF o.el.us # r.us THEN "parse-fraction"
              ELSE IF ~(r2.ok /\ sameVal(r2, r)) THEN "format-of-parse-differs"
              ELSE IF o.js2 # o.s2 THEN "differs-from-jsonformat"
              ELSE "none"
      good == ~IsFailure(o.call) /\ step = "none"
      sig == "fhir-helpers|parse|" \o cs.ek \o "|fd" \o ToString(IF r.ok THEN r.fd ELSE 0) \o "|" \o (IF IsFailure(o.call) THEN o.call.k ELSE step)
  IN [ok |-> good, sig |-> IF good THEN "" ELSE sig, want |-> [k |-> "any"]]

JHelpers(o) == IF o.cs.sub = "fmt" THEN JHelpersFmt(o) ELSE JHelpersParse(o)

(***************************************************************************)
(* Family 6: narrow                                                        *)
(***************************************************************************)

(* native bounds, clipped to what a TLC integer can hold (used for the exhaustive ranges) *)
ClipHi(T) == IF SCmp(HiOf(T), Int32MaxS) > 0 THEN MaxInt32 ELSE SToInt(HiOf(T))
ClipLo(T) == IF SCmp(LoOf(T), Int32MinS) < 0 THEN MinInt32 ELSE SToInt(LoOf(T))
RepresentableSmall(n, T) == n >= ClipLo(T) /\ n <= ClipHi(T)      \* n a TLC integer

FhirIntTypes == {"Integer", "UnsignedInt", "PositiveInt"}
BaseOf(F) == CASE F = "Integer" -> "int32" [] F \in {"UnsignedInt", "PositiveInt"} -> "uint32" [] OTHER -> F
Clip(lo, hi, F) == [lo |-> IF lo < ClipLo(BaseOf(F)) THEN ClipLo(BaseOf(F)) ELSE lo, hi |-> IF hi > ClipHi(BaseOf(F)) THEN ClipHi(BaseOf(F)) ELSE hi]

RangeCase(api, F, T, lo, hi) ==
  LET c == Clip(lo, hi, F)
  IN [kind |-> "narrow", id |-> "R" \o api \o ":" \o F \o ">" \o T \o ":" \o ToString(c.lo) \o ".." \o ToString(c.hi),
      sub |-> "range", api |-> api, from |-> F, to |-> T, lo |-> c.lo, hi |-> c.hi]

(* chunks of a 16-bit sweep *)
Chunks16 == {<<-32772 + 4096 * k, -32772 + 4096 * k + 4095>> : k \in 0..24}

(* boundary values: +-2 around every bound of every type, as signed BigNums *)
Around(b) == {SAdd(b, SFromInt(dx)) : dx \in -2..2}
BoundaryValues == UNION {Around(HiOf(T)) \cup Around(LoOf(T)) : T \in IntTypes}
PointCase(api, F, T, v) ==
  [kind |-> "narrow", id |-> "P" \o api \o ":" \o F \o ">" \o T \o ":" \o (IF v.neg THEN "-" ELSE "") \o CpsId(v.m),
   sub |-> "point", api |-> api, from |-> F, to |-> T, v |-> v]

NarrowCases(lazy) ==
  {RangeCase("narrow", F, T, -130, 258) : F \in IntTypes, T \in IntTypes}
  \cup {RangeCase("fhirconv", F, T, -130, 258) : F \in FhirIntTypes, T \in IntTypes}
  \cup UNION {{PointCase("narrow", F, T, v) : T \in IntTypes, v \in {x \in BoundaryValues : Representable(x, F)}} : F \in IntTypes}
  \cup UNION {{PointCase("fhirconv", F, T, v) : T \in IntTypes, v \in {x \in BoundaryValues : Representable(x, BaseOf(F))}} : F \in FhirIntTypes}
  \cup {RangeCase("fhirprim", F, "int32", -130, 258) : F \in {"int", "UnsignedInt", "PositiveInt"}}
  \cup UNION {{PointCase("fhirprim", F, "int32", v) : v \in {x \in BoundaryValues : Representable(x, BaseOf(F))}} : F \in {"int", "UnsignedInt", "PositiveInt"}}
  \cup (IF NarrowWide
        THEN {c \in {RangeCase("narrow", F, T, ch[1], ch[2]) : F \in IntTypes, T \in {"int16", "uint16"}, ch \in Chunks16} : c.lo <= c.hi}
             \cup {c \in {RangeCase("fhirconv", F, T, ch[1], ch[2]) : F \in FhirIntTypes, T \in {"int16", "uint16"}, ch \in Chunks16} : c.lo <= c.hi}
        ELSE {})

(* range: o.ok and o.res are sequences over lo..hi: 1/0 "converted", and the converted value (0 when not converted) *)
JNarrowRange(o) ==
  LET cs == o.cs
      n == cs.hi - cs.lo + 1
      wrong == IF Len(o.ok) # n \/ Len(o.res) # n THEN {-1}
               ELSE {j \in 1..n : LET x == cs.lo + j - 1
                                  IN (o.ok[j] = 1) # RepresentableSmall(x, cs.to) \/ (o.ok[j] = 1 /\ o.res[j] # x)}
      good == o.call.k = "ok" /\ wrong = {}
      j0 == CHOOSE j \in wrong : \A k \in wrong : j <= k
      x0 == cs.lo + j0 - 1
      sig == "narrow|" \o cs.api \o "|" \o cs.from \o ">" \o cs.to \o "|" \o
             (IF o.call.k # "ok" THEN o.call.k
              ELSE IF j0 = -1 THEN "malformed-lengths"
              ELSE IF o.ok[j0] = 1 /\ RepresentableSmall(x0, cs.to) THEN "value-changed"
              ELSE IF o.ok[j0] = 1 THEN "accepted-unrepresentable" ELSE "rejected-representable")
  IN [ok |-> good, sig |-> IF good THEN "" ELSE sig,
      want |-> [k |-> "range", first |-> IF good THEN 0 ELSE IF j0 = -1 THEN 0 ELSE x0]]

(* point: o.ok BOOLEAN, o.res signed BigNum (the converted value when ok) *)
JNarrowPoint(o) ==
  LET cs == o.cs
      rep == Representable(cs.v, cs.to)
      good == o.call.k = "ok" /\ o.ok = rep /\ (o.ok => o.res.neg = cs.v.neg /\ o.res.m = cs.v.m)
      sig == "narrow|" \o cs.api \o "|" \o cs.from \o ">" \o cs.to \o "|" \o
             (IF o.call.k # "ok" THEN o.call.k
              ELSE IF o.ok /\ rep THEN "value-changed"
              ELSE IF o.ok THEN "accepted-unrepresentable" ELSE "rejected-representable")
  IN [ok |-> good, sig |-> IF good THEN "" ELSE sig, want |-> [k |-> "point", ok |-> rep]]

JNarrow(o) == IF o.cs.sub = "range" THEN JNarrowRange(o) ELSE JNarrowPoint(o)

(***************************************************************************)
(* all cases of the selected families                                      *)
(***************************************************************************)
CasesOf(fam, seed) ==
  CASE fam = "lit-string" -> StringCases(seed)
    [] fam = "lit-decimal" -> NumberCases(seed)
    [] fam = "lit-temporal" -> TemporalCases(seed)
    [] fam = "proto-precision" -> ProtoCases(seed)
    [] fam = "fhir-helpers" -> HelperCases(seed)
    [] fam = "narrow" -> NarrowCases(0)

Judge(o) ==
  CASE o.kind = "lit-string" -> JString(o)
    [] o.kind = "lit-decimal" -> JNumber(o)
    [] o.kind = "lit-temporal" -> JTemporal(o)
    [] o.kind = "proto-precision" -> JProto(o)
    [] o.kind = "fhir-helpers" -> JHelpers(o)
    [] o.kind = "narrow" -> JNarrow(o)
    [] OTHER -> [ok |-> FALSE, sig |-> "malformed|unknown-kind", want |-> [k |-> "any"]]
=============================================================================
