-------------------------------- MODULE C15 --------------------------------
(***************************************************************************)
(* Property C15: literals and value representations round-trip losslessly. *)
(* This module is the case space (six families) and the oracle.  C15_MC    *)
(* explores it, checks the laws and emits the cases; C15_Judge judges the  *)
(* observations of the real code with the J* operators below.              *)
(*                                                                         *)
(* Families / case kinds / signature prefixes:                             *)
(*   lit-string       string literal bodies and the Encode direction       *)
(*   lit-decimal      Boolean, Integer, Decimal and Quantity literal texts *)
(*   lit-temporal     Date / DateTime / Time literal texts                 *)
(*   proto-precision  System value <-> FHIR primitive element              *)
(*   fhir-helpers     internal/fhir Parse* and fhirconv *ToString          *)
(*   narrow           integer narrowing                                    *)
(*                                                                         *)
(* Latitude (what Permitted deliberately leaves open), stated once:        *)
(*  L1 a string body with an unescaped quote is not one literal: any       *)
(*     outcome but a panic/timeout.                                        *)
(*  L2 a backslash that starts none of the listed escapes: the grammar's   *)
(*     ESC rule rejects it, ANTLR's `.` alternative accepts it.  Permitted *)
(*     = any error, the string with that backslash kept ("all other        *)
(*     characters intact") or dropped (N1: "it will be ignored and will    *)
(*     not appear").  Nothing else (e.g. eating the following character).  *)
(*  L3 more than three fraction digits: error, truncation or rounding to   *)
(*     milliseconds - but the value, its string form and its comparisons   *)
(*     must agree with each other.                                         *)
(*  L4 texts outside the grammar or outside the value ranges (month 13,    *)
(*     @2015T14, Integer above 2^31-1): any outcome but a panic/timeout.   *)
(*  L5 round trips are judged by value, never by the spelling of the       *)
(*     intermediate string.                                                *)
(*  L6 hour/minute precision has no FHIR precision enum; a System value    *)
(*     without offset has no FHIR spelling above DAY precision:            *)
(*     unconstrained except for panics.                                    *)
(***************************************************************************)
EXTENDS FPLiterals

CONSTANTS StrMaxLen,   \* bodies up to this length, exhaustively
          EncMaxLen,   \* value strings up to this length for the Encode direction
          NRandom,     \* seeded random cases per family
          Families     \* which families this run generates

(******************************* helpers ***********************************)
RECURSIVE CpsId(_)
CpsId(s) == IF s = <<>> THEN "" ELSE ToString(s[1]) \o (IF Len(s) > 1 THEN "." ELSE "") \o CpsId(Tail(s))

SeqsUpTo(A, n) == UNION {[1..k -> A] : k \in 0..n}

(* a small linear congruential generator (every product stays below 2^31) *)
Lcg(x) == (x * 75 + 74) % 65537
RECURSIVE Stream(_, _)
Stream(x, n) == IF n = 0 THEN <<>> ELSE <<Lcg(x)>> \o Stream(Lcg(x), n - 1)
SeedOf(seed, fam, k) == ((seed % 6000) * 11 + fam * 977 + k * 13 + 1) % 65537

IsOne(out) == out.k = "ok" /\ Len(out.items) = 1
IsTrue(out) == IsOne(out) /\ out.items[1].t = "b" /\ out.items[1].b
IsErr(out) == out.k \in {"cerr", "err"}
AnyFailure(outs) == \E x \in outs : IsFailure(x)
FailKind(outs) == IF \E x \in outs : x.k = "panic" THEN "panic" ELSE "timeout"

(***************************************************************************)
(* Family 1: lit-string                                                    *)
(***************************************************************************)
(* every escape letter, both quotes, backtick, backslash, slash, u, a hex   *)
(* digit (0; f is one too), a non-ASCII character, a plain letter           *)
BodyAlpha == {39, 34, 96, 92, 47, 102, 110, 114, 116, 117, 48, 233, 97}
(* value strings: the characters the escapes denote, the escapable ones,    *)
(* non-ASCII from two UTF-8 lengths                                         *)
ValAlpha == {39, 34, 96, 92, 47, 102, 117, 48, 233, 9, 10, 12, 13, 8364, 97}

UniHex == {<<48, 48, 101, 57>>, <<48, 48, 69, 57>>, <<48, 48, 52, 49>>, <<50, 48, 65, 67>>, <<50, 48, 97, 99>>,
           <<48, 48, 50, 55>>, <<48, 48, 53, 99>>, <<48, 48, 53, 67>>, <<48, 48, 48, 97>>, <<100, 55, 102, 102>>,
           <<70, 70, 70, 68>>, <<48, 48, 101>>, <<48, 48, 101, 103>>}
UniPrefix == {<<>>, <<97>>, <<92, 92>>, <<92>>, <<92, 110>>}
UniSuffix == {<<>>, <<97>>, <<48>>, <<110>>, <<92, 117, 48, 48, 52, 49>>}

StrCase(sub, body, val) == [kind |-> "lit-string", id |-> "S" \o sub \o ":" \o CpsId(body), sub |-> sub, body |-> body, val |-> val]

RandBody(seed, k) ==
  LET r == Stream(SeedOf(seed, 1, k), 11)
      n == 5 + (r[1] % 6)
      al == <<39, 34, 96, 92, 92, 92, 47, 102, 110, 114, 116, 117, 48, 233, 97, 8364>>
  IN [j \in 1..n |-> al[1 + (r[j + 1] % Len(al))]]

StringCases(seed) ==
  {StrCase("body", b, <<>>) : b \in SeqsUpTo(BodyAlpha, StrMaxLen)}
  \cup {StrCase("enc", Encode(v), v) : v \in SeqsUpTo(ValAlpha, EncMaxLen)}
  \cup {StrCase("encmax", EncodeMax(v), v) : v \in SeqsUpTo(ValAlpha, EncMaxLen)}
  \cup {StrCase("uni", p \o <<92, 117>> \o h \o s, <<>>) : p \in UniPrefix, h \in UniHex, s \in UniSuffix}
  \cup {StrCase("rand", RandBody(seed, k), <<>>) : k \in 1..NRandom}

(* what the specification permits for a body *)
StrValues(body) ==
  LET c == BodyClass(body)
  IN IF c = "valid" THEN {Decode(body)} ELSE IF c = "lone" THEN {DecodeKeep(body), DecodeDrop(body)} ELSE {}
IsStr(out, v) == IsOne(out) /\ out.items[1].t = "s" /\ out.items[1].cp = v

JoinKinds(ks) ==  \* fixed order
  (IF "ch" \in ks THEN "ch" ELSE "") \o (IF "esc" \in ks THEN "+esc" ELSE "") \o (IF "uni" \in ks THEN "+uni" ELSE "")
  \o (IF "lone" \in ks THEN "+lone" ELSE "") \o (IF "quote" \in ks THEN "+quote" ELSE "")
RECURSIVE EscCodes(_)
EscCodes(ts) == IF ts = <<>> THEN {} ELSE (IF ts[1].k = "esc" THEN {ts[1].c} ELSE {}) \cup EscCodes(Tail(ts))
RECURSIVE SetSig(_)
SetSig(A) == IF A = {} THEN "" ELSE LET m == CHOOSE x \in A : \A y \in A : x <= y IN "." \o ToString(m) \o SetSig(A \ {m})

JString(o) ==
  LET body == o.cs.body
      cls == BodyClass(body)
      vals == StrValues(body)
      good == /\ ~IsFailure(o.out)
              /\ \/ cls = "quote"
                 \/ (cls = "lone" /\ IsErr(o.out))
                 \/ \E v \in vals : IsStr(o.out, v)
      sig == IF IsFailure(o.out) THEN "lit-string|" \o o.out.k
             ELSE IF "uni" \in TokKinds(body) /\ IsStr(o.out, NoUniDrop(body)) THEN "lit-string|unicode-escape-not-decoded"
             ELSE "lit-string|" \o cls \o "|" \o JoinKinds(TokKinds(body)) \o "|esc" \o SetSig(EscCodes(Tokens(body))) \o "|got-" \o KindOf(o.out)
      want == IF vals = {} THEN [k |-> "any"] ELSE Ok(<<S(CHOOSE v \in vals : TRUE)>>)
  IN [ok |-> good, sig |-> IF good THEN "" ELSE sig, want |-> want]

(***************************************************************************)
(* Family 2: lit-decimal (Boolean, Integer, Decimal, Quantity texts)       *)
(***************************************************************************)
(* integer parts, fraction parts (digit strings as code points) *)
D_(s) == [j \in 1..Len(s) |-> 48 + s[j]]
IntParts == {D_(<<0>>), D_(<<1>>), D_(<<9>>), D_(<<1, 0>>), D_(<<1, 2, 3>>), D_(<<4, 2, 9, 4, 9, 6, 7, 2, 9, 6>>),
             D_(<<9, 2, 2, 3, 3, 7, 2, 0, 3, 6, 8, 5, 4, 7, 7, 5, 8, 0, 7>>),
             D_(<<1, 2, 3, 4, 5, 6, 7, 8, 9, 0, 1, 2, 3, 4, 5, 6, 7, 8, 9, 0, 1, 2, 3, 4, 5, 6, 7>>)}
FracParts == {D_(<<0>>), D_(<<5>>), D_(<<1>>), D_(<<2, 5>>), D_(<<0, 0, 1>>), D_(<<1, 2, 5>>),
              D_(<<3, 3, 3, 3, 3, 3, 3, 3, 3, 3, 3, 3, 3, 3, 3, 3, 3, 3>>)}
ZeroRuns == {<<>>, <<48>>, <<48, 48>>}

(* at most 30 digits, leading and trailing zeros included *)
DecimalTexts == {t \in {lz \o ip \o <<cDot>> \o fp \o tz : lz \in ZeroRuns, ip \in IntParts, fp \in FracParts, tz \in ZeroRuns} : Len(t) <= 31}
(* 30 digits: 15.15, 1.29, 29.1 *)
LongTexts == {D_(<<1, 2, 3, 4, 5, 6, 7, 8, 9, 0, 1, 2, 3, 4, 5>>) \o <<cDot>> \o D_(<<5, 4, 3, 2, 1, 0, 9, 8, 7, 6, 5, 4, 3, 2, 1>>),
              D_(<<7>>) \o <<cDot>> \o D_(<<0, 0, 0, 0, 0, 0, 0, 0, 0, 0, 0, 0, 0, 0, 0, 0, 0, 0, 0, 0, 0, 0, 0, 0, 0, 0, 0, 0, 1>>),
              D_(<<9, 9, 9, 9, 9, 9, 9, 9, 9, 9, 9, 9, 9, 9, 9, 9, 9, 9, 9, 9, 9, 9, 9, 9, 9, 9, 9, 9, 9>>) \o <<cDot>> \o D_(<<9>>)}
IntegerTexts == {lz \o ip : lz \in ZeroRuns, ip \in {D_(<<0>>), D_(<<1>>), D_(<<4, 2>>), D_(<<2, 1, 4, 7, 4, 8, 3, 6, 4, 7>>),
                                                       D_(<<2, 1, 4, 7, 4, 8, 3, 6, 4, 8>>), D_(<<4, 2, 9, 4, 9, 6, 7, 2, 9, 6>>),
                                                       D_(<<6, 5, 5, 3, 6>>), D_(<<1, 0, 0, 0, 0>>)}}

UnitMg == <<109, 103>>
UnitPool == {UnitMg, <<107, 103, 47, 109, 50>>, <<109, 109, 91, 72, 103, 93>>, <<37>>, <<49>>, <<123, 115, 99, 111, 114, 101, 125>>, <<119, 107>>}
QtyNums == {D_(<<5>>), D_(<<0>>), D_(<<1>>) \o <<cDot>> \o D_(<<5, 0>>), D_(<<0, 0, 7>>) \o <<cDot>> \o D_(<<2, 5>>),
            D_(<<1, 2, 3, 4, 5, 6, 7, 8, 9, 0, 1, 2, 3, 4, 5, 6, 7, 8, 9>>) \o <<cDot>> \o D_(<<1>>)}
QuantityTexts == {n \o <<cSpace>> \o <<cSQ>> \o u \o <<cSQ>> : n \in QtyNums, u \in UnitPool}
                 \cup {n \o <<cSQ>> \o UnitMg \o <<cSQ>> : n \in QtyNums}
                 \cup {n \o <<cSpace>> \o kw : n \in QtyNums, kw \in Keywords}

NumCase(sub, text) == [kind |-> "lit-decimal", id |-> "N" \o sub \o ":" \o CpsId(text), sub |-> sub, text |-> text,
                       conv |-> CASE sub = "boolean" -> "toBoolean" [] sub = "integer" -> "toInteger"
                                  [] sub = "decimal" -> "toDecimal" [] sub = "quantity" -> "toQuantity"]

RandDecimal(seed, k) ==
  LET r == Stream(SeedOf(seed, 2, k), 34)
      ni == 1 + (r[1] % 20)
      nf == 1 + (r[2] % (30 - ni))
  IN [j \in 1..ni |-> 48 + (r[2 + j] % 10)] \o <<cDot>> \o [j \in 1..nf |-> 48 + (r[2 + ni + j] % 10)]

NumberCases(seed) ==
  {NumCase("boolean", t) : t \in {cTrue, cFalse}}
  \cup {NumCase("integer", t) : t \in IntegerTexts}
  \cup {NumCase("decimal", t) : t \in DecimalTexts \cup LongTexts}
  \cup {NumCase("decimal", RandDecimal(seed, k)) : k \in 1..NRandom}
  \cup {NumCase("quantity", t) : t \in QuantityTexts}

(* o.lit, o.rt, o.rteq : literal, literal.toString().toX(), ( ... = literal) *)
JNumber(o) ==
  LET cs == o.cs
      p == ParseLit(cs.text)
      outs == {o.lit, o.rt, o.rteq}
      isV(out) == IsOne(out) /\ ValueSame(out.items[1], p.v)
      step == IF ~p.ok THEN "none"
              ELSE IF ~isV(o.lit) THEN "lit"
              ELSE IF ~isV(o.rt) THEN "canon-reparse"
              ELSE IF ~IsTrue(o.rteq) THEN "canon-reparse-eq"
              ELSE "none"
      bad == IF step = "lit" THEN o.lit ELSE IF step = "canon-reparse" THEN o.rt ELSE o.rteq
      sig == IF AnyFailure(outs) THEN "lit-decimal|" \o cs.sub \o "|" \o FailKind(outs)
             ELSE "lit-decimal|" \o cs.sub \o "|" \o step \o "|got-" \o KindOf(bad)
      good == ~AnyFailure(outs) /\ step = "none"
  IN [ok |-> good, sig |-> IF good THEN "" ELSE sig,
      want |-> IF p.ok THEN Ok(<<p.v>>) ELSE [k |-> "any"]]

(***************************************************************************)
(* Family 3: lit-temporal                                                  *)
(***************************************************************************)
DatePool == {<<2020, 2, 29>>, <<1, 1, 1>>, <<9999, 12, 31>>, <<2015, 10, 5>>}
TimePool == {<<0, 0, 0>>, <<23, 59, 59>>, <<10, 30, 7>>}
FracPool == {<<>>, <<5>>, <<0>>, <<2, 5>>, <<1, 2, 5>>, <<0, 0, 0>>, <<9, 9, 9>>, <<1, 2, 3, 4>>, <<1, 2, 3, 5>>,
             <<1, 2, 3, 4, 5>>, <<1, 2, 3, 4, 5, 6>>, <<0, 0, 0, 0, 0, 1>>, <<5, 0, 0, 0, 0, 0>>}
(* offset forms: none, Z, +hh:mm, -hh:mm *)
Zone(form, off) == [form |-> form, off |-> off]
ZonePool == {Zone("none", 0), Zone("Z", 0), Zone("num", 0), Zone("num", 120), Zone("num", -480), Zone("num", 330),
             Zone("num", 840), Zone("num", -720)}
NumZoneText(off) ==
  LET a == IF off < 0 THEN 0 - off ELSE off
  IN <<IF off < 0 THEN cMinus ELSE cPlus>> \o D2(a \div 60) \o <<cColon>> \o D2(a % 60)
ZoneTextOf(z) == IF z.form = "none" THEN <<>> ELSE IF z.form = "Z" THEN <<cZ>> ELSE NumZoneText(z.off)

FracMsOf(f) == (IF Len(f) >= 1 THEN f[1] * 100 ELSE 0) + (IF Len(f) >= 2 THEN f[2] * 10 ELSE 0) + (IF Len(f) >= 3 THEN f[3] ELSE 0)
FracText(f) == IF f = <<>> THEN <<>> ELSE <<cDot>> \o [j \in 1..Len(f) |-> 48 + f[j]]
(* time-of-day text and precision for a time part tp in 4..6 with fraction f (f only when tp = 6) *)
TodText(tp, t, f) == D2(t[1]) \o (IF tp >= 5 THEN <<cColon>> \o D2(t[2]) ELSE <<>>)
                     \o (IF tp >= 6 THEN <<cColon>> \o D2(t[3]) \o FracText(f) ELSE <<>>)
TodPrec(tp, f) == IF tp = 6 /\ f # <<>> THEN 7 ELSE tp

(* structured descriptions; Den computes the value WITHOUT the parser *)
DescText(ds) ==
  CASE ds.k = "date" -> <<cAt>> \o DateText(ds.p, ds.dt[1], ds.dt[2], ds.dt[3])
    [] ds.k = "time" -> <<cAt, cT>> \o TodText(ds.tp, ds.tm, ds.f)
    [] ds.k = "dtp"  -> <<cAt>> \o DateText(ds.p, ds.dt[1], ds.dt[2], ds.dt[3]) \o <<cT>>
    [] ds.k = "dt"   -> <<cAt>> \o DateText(3, ds.dt[1], ds.dt[2], ds.dt[3]) \o <<cT>> \o TodText(ds.tp, ds.tm, ds.f) \o ZoneTextOf(ds.z)
DescDen(ds) ==
  CASE ds.k = "date" -> MkDate(ds.p, ds.dt[1], IF ds.p >= 2 THEN ds.dt[2] ELSE 1, IF ds.p >= 3 THEN ds.dt[3] ELSE 1)
    [] ds.k = "time" -> MkTime(TodPrec(ds.tp, ds.f), ds.tm[1], IF ds.tp >= 5 THEN ds.tm[2] ELSE 0,
                               IF ds.tp >= 6 THEN ds.tm[3] ELSE 0, IF ds.tp >= 6 THEN FracMsOf(ds.f) ELSE 0)
    [] ds.k = "dtp"  -> MkDT(ds.p, ds.dt[1], IF ds.p >= 2 THEN ds.dt[2] ELSE 1, IF ds.p >= 3 THEN ds.dt[3] ELSE 1, 0, 0, 0, 0, FALSE, 0)
    [] ds.k = "dt"   -> MkDT(TodPrec(ds.tp, ds.f), ds.dt[1], ds.dt[2], ds.dt[3], ds.tm[1], IF ds.tp >= 5 THEN ds.tm[2] ELSE 0,
                             IF ds.tp >= 6 THEN ds.tm[3] ELSE 0, IF ds.tp >= 6 THEN FracMsOf(ds.f) ELSE 0,
                             ds.z.form # "none", ds.z.off)
NoZone == Zone("none", 0)
TemporalDescs ==
  {[k |-> "date", p |-> p, dt |-> d, tp |-> 0, tm |-> <<0, 0, 0>>, f |-> <<>>, z |-> NoZone] : p \in 1..3, d \in DatePool}
  \cup {[k |-> "dtp", p |-> p, dt |-> d, tp |-> 0, tm |-> <<0, 0, 0>>, f |-> <<>>, z |-> NoZone] : p \in 1..3, d \in DatePool}
  \cup {[k |-> "time", p |-> 0, dt |-> <<1, 1, 1>>, tp |-> tp, tm |-> t, f |-> <<>>, z |-> NoZone] : tp \in 4..5, t \in TimePool}
  \cup {[k |-> "time", p |-> 0, dt |-> <<1, 1, 1>>, tp |-> 6, tm |-> t, f |-> f, z |-> NoZone] : t \in TimePool, f \in FracPool}
  \cup {[k |-> "dt", p |-> 3, dt |-> d, tp |-> tp, tm |-> t, f |-> <<>>, z |-> z] : d \in DatePool, tp \in 4..5, t \in TimePool, z \in ZonePool}
  \cup {[k |-> "dt", p |-> 3, dt |-> d, tp |-> 6, tm |-> t, f |-> f, z |-> z] : d \in DatePool, t \in TimePool, f \in FracPool, z \in ZonePool}

RandTemporalDesc(seed, k) ==
  LET r == Stream(SeedOf(seed, 3, k), 20)
      kind == <<"date", "dtp", "time", "dt", "dt", "dt">>[1 + (r[1] % 6)]
      y == 1 + (r[2] % 9999)
      mo == 1 + (r[3] % 12)
      d == 1 + (r[4] % DaysIn(y, mo))
      tp == 4 + (r[5] % 3)
      nf == r[6] % 7
      f == IF tp = 6 THEN [j \in 1..nf |-> IF j = 4 /\ nf >= 4 THEN r[6 + j] % 5 ELSE r[6 + j] % 10] ELSE <<>>
      zf == <<"none", "Z", "num", "num">>[1 + (r[14] % 4)]
      off == (IF r[15] % 2 = 0 THEN 1 ELSE -1) * ((r[16] % 14) * 60 + <<0, 15, 30, 45, 59>>[1 + (r[17] % 5)])
  IN [k |-> kind, p |-> 1 + (r[18] % 3), dt |-> <<y, mo, d>>, tp |-> tp, tm |-> <<r[19] % 24, r[20] % 60, r[13] % 60>>, f |-> f,
      z |-> IF kind = "dt" THEN Zone(zf, IF zf = "num" THEN off ELSE 0) ELSE NoZone]

(* texts outside the valid literals (latitude L4): never a panic *)
InvalidTemporalTexts ==
  {<<cAt>> \o D4(2020) \o <<cMinus>> \o D2(13), <<cAt>> \o D4(2020) \o <<cMinus>> \o D2(2) \o <<cMinus>> \o D2(30),
   <<cAt>> \o D4(2019) \o <<cMinus>> \o D2(2) \o <<cMinus>> \o D2(29), <<cAt>> \o D4(0) \o <<cMinus>> \o D2(1),
   <<cAt, cT>> \o D2(24), <<cAt, cT>> \o D2(23) \o <<cColon>> \o D2(60), <<cAt, cT>> \o D2(23) \o <<cColon>> \o D2(59) \o <<cColon>> \o D2(60),
   <<cAt>> \o D4(2015) \o <<cT>> \o D2(14), <<cAt>> \o D4(2015) \o <<cMinus>> \o D2(2) \o <<cT>> \o D2(14),
   <<cAt>> \o D4(2015) \o <<cMinus>> \o D2(2) \o <<cMinus>> \o D2(4) \o <<cT>> \o D2(14) \o <<cPlus>> \o D2(15) \o <<cColon>> \o D2(0)}

ConvOf(v) == CASE v.t = "date" -> "toDate" [] v.t = "time" -> "toTime" [] v.t = "dt" -> "toDateTime"
TemporalCaseOfText(sub, text, den) ==
  LET p == ParseTemporalLit(text)
  IN [kind |-> "lit-temporal", id |-> "T" \o sub \o ":" \o CpsId(text), sub |-> sub, text |-> text, den |-> den,
      conv |-> IF p.ok THEN ConvOf(p.v) ELSE "toString",
      canonT |-> IF p.ok THEN TemporalLit(p.v) ELSE text,
      canonR |-> IF p.ok THEN TemporalLit(IF p.inexact /\ p.up THEN RoundedUp(p.v) ELSE p.v) ELSE text]

TemporalCases(seed) ==
  {TemporalCaseOfText("pool", DescText(ds), DescDen(ds)) : ds \in TemporalDescs}
  \cup {TemporalCaseOfText("rand", DescText(RandTemporalDesc(seed, k)), DescDen(RandTemporalDesc(seed, k))) : k \in 1..NRandom}
  \cup {TemporalCaseOfText("invalid", t, [t |-> "none"]) : t \in InvalidTemporalTexts}

FdOf(text) == LET d == PosOf(text, cDot) IN IF d = 0 THEN 0 ELSE DigitRun(text, d + 1)

(* o.lit, o.rt (lit.toString().toX()), o.rteq (.. = lit), o.eqT (lit = canonT), o.eqR (lit = canonR) *)
JTemporal(o) ==
  LET cs == o.cs
      p == ParseTemporalLit(cs.text)
      outs == {o.lit, o.rt, o.rteq, o.eqT, o.eqR}
      vR == IF p.inexact /\ p.up THEN RoundedUp(p.v) ELSE p.v
      litIs(v) == IsOne(o.lit) /\ TemporalSame(o.lit.items[1], v)
      useR == ~litIs(p.v) /\ p.inexact /\ litIs(vR)
      v == IF useR THEN vR ELSE p.v
      isT(x) == x.t \in {"date", "time", "dt"}
      fractionLost == /\ IsOne(o.lit) /\ isT(o.lit.items[1]) /\ o.lit.items[1].t = p.v.t /\ p.v.t # "date" /\ p.v.p = 7
                      /\ p.v.ms # 0 /\ TemporalSame(o.lit.items[1], [p.v EXCEPT !.ms = 0])
      step == IF ~p.ok THEN "none"
              ELSE IF p.inexact /\ IsErr(o.lit) THEN "none"                       \* L3
              ELSE IF ~litIs(v) THEN "lit"
              ELSE IF ~(IsOne(o.rt) /\ isT(o.rt.items[1]) /\ TemporalSame(o.rt.items[1], v)) THEN "canon-reparse"
              ELSE IF ~IsTrue(o.rteq) THEN "canon-reparse-eq"
              ELSE IF ~IsTrue(IF useR THEN o.eqR ELSE o.eqT) THEN "eq-canonical-literal"
              ELSE "none"
      what == CASE step = "lit" -> (IF fractionLost THEN "fraction-lost" ELSE "got-" \o KindOf(o.lit))
                [] step = "canon-reparse" -> "got-" \o KindOf(o.rt)
                [] step = "canon-reparse-eq" -> "got-" \o KindOf(o.rteq)
                [] step = "eq-canonical-literal" -> "not-true"
                [] OTHER -> ""
      sig == IF AnyFailure(outs) THEN "lit-temporal|" \o FailKind(outs)
             ELSE "lit-temporal|" \o p.v.t \o "|p" \o ToString(p.v.p) \o "|fd" \o ToString(FdOf(cs.text)) \o "|" \o step \o "|" \o what
      good == ~AnyFailure(outs) /\ step = "none"
  IN [ok |-> good, sig |-> IF good THEN "" ELSE sig,
      want |-> IF p.ok THEN Ok(<<p.v>>) ELSE [k |-> "any"]]

(***************************************************************************)
(* all cases of the selected families                                      *)
(***************************************************************************)
CasesOf(fam, seed) ==
  CASE fam = "lit-string" -> StringCases(seed)
    [] fam = "lit-decimal" -> NumberCases(seed)
    [] fam = "lit-temporal" -> TemporalCases(seed)

Judge(o) ==
  CASE o.kind = "lit-string" -> JString(o)
    [] o.kind = "lit-decimal" -> JNumber(o)
    [] o.kind = "lit-temporal" -> JTemporal(o)
    [] OTHER -> [ok |-> FALSE, sig |-> "malformed|unknown-kind", want |-> [k |-> "any"]]
=============================================================================
