------------------------------- MODULE C19_MC -------------------------------
(***************************************************************************)
(* Exploration of the C19 case space.  One behaviour per case: the initial *)
(* state is a case, the single step emits it for the harness (role 2).     *)
(* The laws of the property are state invariants over the case in the      *)
(* state (role 1), so they are checked on every generated case - all 146   *)
(* resource types included - and on the law instances of Scope "laws"      *)
(* (string neighbours of valid references, reference pools), where the     *)
(* mutant twins must fail.                                                 *)
(***************************************************************************)
EXTENDS C19, Json

CONSTANT Scope          \* "laws" | "quick" | "thorough"

(* ---- Scope "laws": a small exhaustive pool -------------------------------- *)
LawTypes == {"Medication", "MedicationRequest", "List"}
LawRest  == RestCases(LawTypes, IdsOf({"len1", "dot", "mixed", "onlydot", "len64", "len65", "len0", "badslash", "badunderscore"}),
                      VersOf({"none", "v1", "vbad"}), BasesOf({"none", "http", "port", "trailing"}))
(* string neighbours of every valid reference text: what a parser must not   *)
(* silently accept as the neighbouring valid reference                       *)
Neighbours(cs) ==
  LET c == CompsOf(cs)
      s == Format(c)
      lc == Format([c EXCEPT !.type = LowerFirst(c.type)])
  IN {s, lc, s \o "/", "/" \o s, s \o "#x", s \o "|1", "#" \o s, s \o "/_history", s \o "/_history/",
      Format([c EXCEPT !.base = IF c.base = "" THEN "" ELSE c.base \o "/"]),
      Format([c EXCEPT !.base = IF c.base = "" THEN "" ELSE c.base \o "//"]),
      Format([c EXCEPT !.type = c.type \o "x"])}
StrCase(s) == Case("str", "", s, "", "", "", "", "", "")
LawStrings == {StrCase(s) : s \in UNION {Neighbours(cs) : cs \in {r \in LawRest : ValidCase(r)}}}
                \cup {StrCase(s) : s \in {"", "#", "#a", "##a", "#a b", "urn:uuid:5a17b7c2-e01c-4bc7-b973-31d4156b11d7", "urn:uuid:xyz",
                                          "urn:oid:1.2.3", "urn:oid:1..2", "urn:", "http://example.org/", "bogus", "Patient", "/", "//"}}
LawCases ==
  LawRest \cup LawStrings
  \cup FragCases(LawTypes, IdsOf({"len1", "mixed", "len64", "len65", "badunderscore"}))
  \cup UrnCases({"List"})
  \cup CanonCases(RangeOf(CanonUrlPool), RangeOf(CanonVerPool), RangeOf(CanonFragPool)) \cup BadCanonCases
  \cup {EmptyCase} \cup PoolCases(LawTypes)

CaseSpace ==
  CASE Scope = "laws" -> LawCases
    [] Scope = "quick" -> QuickCases
    [] Scope = "thorough" -> ThoroughCases

VARIABLES cs, done

Init == cs \in CaseSpace /\ done = FALSE
Emit ==
  /\ ~done
  /\ done' = TRUE
  /\ cs' = cs
  /\ IF cs.kind # "str" THEN PrintT(ToJson(CaseJson(cs))) ELSE TRUE
Next == Emit
Spec == Init /\ [][Next]_<<cs, done>>

(* ------------------------------------------------------------------- laws *)
(* Parse(Format(c)) = c for valid components (the base URL in its canonical  *)
(* form), and Format(Parse(Format(c))) = Format(c).                          *)
InvRoundTrip ==
  cs.kind \in {"rest", "frag", "urn"} /\ ValidCase(cs) =>
     LET c == CompsOf(cs)
         p == Parse(Format(c))
     IN /\ p = OkC(Canon(c))
        /\ Format(p.c) = Format(Canon(c))
        /\ (~HasRedundantSlash(Format(c)) => Format(p.c) = Format(c))
        /\ Parse(Format(p.c)) = p

(* For every accepted string: formatting the parse gives the canonical form  *)
(* (the input itself when it has no redundant slashes), and parsing that     *)
(* again gives the same information.                                         *)
InvCanonicalForm ==
  cs.kind \in {"str", "rest", "frag", "urn", "canon", "empty"} =>
     LET s == TextOf(cs)
         p == Parse(s)
     IN p.k = "ok" =>
          /\ ValidComps(p.c)
          /\ TextAgrees(Format(p.c), s)
          /\ (~HasRedundantSlash(s) => Format(p.c) = s)
          /\ Parse(Format(p.c)) = p

(* Components outside the id alphabet / length never come back as a parse.   *)
InvInvalidRejected ==
  cs.kind \in {"rest", "frag"} /\ ~ValidCase(cs) => Parse(TextOf(cs)).k # "ok"

(* A typed reference and the URI reference naming the same resource carry    *)
(* equal information.                                                        *)
InvStrongWeak ==
  cs.kind = "rest" /\ ValidIdentity(cs) =>
     LET s == Strong(cs.type, cs.rid, cs.ver)
     IN /\ WeakInfo(RelText(StrongInfo(s))) = OkC(StrongInfo(s))
        /\ SameRef(PoolRef("strong", cs.type, cs.rid, cs.ver, ""), PoolRef("weak", cs.type, "", "", RelText(StrongInfo(s))))
        /\ SameRef(PoolRef("weaknt", "", "", "", RelText(StrongInfo(s))), PoolRef("strong", cs.type, cs.rid, cs.ver, ""))

(* Identity comparison is an equivalence relation on the twelve references   *)
(* of a pool, and agrees with what the property fixes.                       *)
InvSameRefEquivalence ==
  cs.kind = "pool" =>
     LET refs == PoolRefs(cs)
         D == 1..Len(refs)
         same == [i \in D |-> [j \in D |-> SameRef(refs[i], refs[j])]]
     IN /\ \A i \in D : same[i][i]
        /\ \A i, j \in D : same[i][j] = same[j][i]
        /\ \A i, j, l \in D : same[i][j] /\ same[j][l] => same[i][l]
        /\ \A i, j \in D : LET r == RequiredSame(refs[i], refs[j])
                           IN (r = "T" => same[i][j]) /\ (r = "F" => ~same[i][j])

(* Well-formed canonical URLs split into url|version#fragment and reassemble *)
(* unchanged; whatever is accepted reassembles unchanged.                    *)
InvCanonical ==
  cs.kind = "canon" =>
     LET text == TextOf(cs)
         p == CanonParse(text)
     IN /\ ValidCase(cs) => p = CanonOk(cs.base, cs.ver, cs.rid)
        /\ p.k = "ok" => CanonFormat(p.url, p.ver, p.frag) = text /\ WellFormedCanon(p.url, p.ver, p.frag)
=============================================================================
