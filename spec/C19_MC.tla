------------------------------- MODULE C19_MC -------------------------------
(***************************************************************************)
(* Exploration of the C19 case space.  One behaviour per case: the initial *)
(* state is a case, the single step emits it for the harness (role 2).     *)
(* The laws of the property are state invariants over the case in the      *)
(* state (role 1), so they are checked on every generated case - all 146   *)
(* resource types included - and on the law instances of Scope "laws"      *)
(* (string neighbours of valid references, reference pools), where the     *)
(* mutant twins must fail.                                                 *)
(***************************************************************************)
EXTENDS C19, Json

CONSTANT Scope          \* "laws" | "quick" | "thorough"

(* The case space is a family of PARTS indexed by (part number, resource     *)
(* type).  An initial state is a seed (part, type); its successors are the    *)
(* cases of that part, so TLC's workers enumerate, check and emit the parts   *)
(* in parallel.  (TLC evaluates zero-arity definitions eagerly and unions of  *)
(* big sets by linear search; the parts are therefore never united.)          *)
FragCases(types, ids) == {Case("frag", t, i.s, "", "", i.c, "", "", "") : t \in types, i \in ids}
BareFragCases(types)  == {Case("frag", t, "", "", "", "bare", "", "", "") : t \in types}
UrnCases(types) == {Case("urn", t, u.s, "", "", u.c, "", "", "") : t \in types, u \in RangeOf(UrnPool)}
CanonCases(urls, vers, frags) == {Case("canon", "", f.s, v.s, u.s, f.c, v.c, u.c, "") : u \in urls, v \in vers, f \in frags}
(* canonical URLs that embed each resource type *)
TypeCanonCases(types) ==
  {Case("canon", t, f.s, v.s, "http://example.org/fhir/" \o t \o "/c1", f.c, v.c, "typed", "")
     : t \in types, v \in {e \in RangeOf(CanonVerPool) : e.c \in {"none", "semver"}}, f \in {e \in RangeOf(CanonFragPool) : e.c \in {"none", "mixed"}}}
(* not well-formed canonicals: rejected with an error, or accepted consistently *)
BadCanonCases ==
  {Case("canon", "", f.s, v.s, u.s, f.c, v.c, u.c, "") :
     u \in {[c |-> "emptyurl", s |-> ""]} \cup {e \in RangeOf(CanonUrlPool) : e.c = "plain"},
     v \in {[c |-> "none", s |-> ""], [c |-> "semver", s |-> "1.0.0"], [c |-> "vspace", s |-> "1.0 beta"], [c |-> "vplus", s |-> "1.0.0+b7"]},
     f \in {[c |-> "none", s |-> ""], [c |-> "mixed", s |-> "A1-b.2"], [c |-> "len65", s |-> Id60 \o "x.8Zq"], [c |-> "badspace", s |-> "a b"]}}
EmptyCase == Case("empty", "Patient", "", "", "", "", "", "", "")
PoolCases(types) == {Case("pool", t, "A1-b.2", "1", "http://example.org/fhir", "mixed", "v1", "https", NextType(t)) : t \in types}

(* hand-picked edge strings around every grammar, judged like the byte-mutated *)
(* neighbours (kind "raw": rejected with an error, or accepted consistently;   *)
(* accepted as the specification's parse when that is defined)                 *)
EdgeStrings == <<
  "http:///Patient/1", "http:////Patient/1", "https://Patient/1", "http://Patient/1/Patient/1",
  "Patient/1/_history", "Patient/1/_history/", "Patient//1", "/Patient/1", "Patient/1/", "Patient/", "Patient", "/",
  "patient/1", "PATIENT/1", "Patient/1/_History/2", "Patient/1/_history/2/3", "Patient/1/_history/2/", "Patient/_history/1",
  "Patient/1?x=1", "Patient/1 ", " Patient/1", "Patient/ 1", "Patient/1/_history/ 2",
  "urn:uuid:", "urn:", "urn:oid:", "urn:uuid:5a17b7c2-e01c-4bc7-b973-31d4156b11d", "urn:uuid:5a17b7c2-e01c-4bc7-b973-31d4156b11d7/x",
  "URN:UUID:5a17b7c2-e01c-4bc7-b973-31d4156b11d7", "urn:oid:1.2.", "urn:oid:3.1", "urn:isbn:0451450523",
  "http://", "https://", "http:", "http:/", "http://example.org", "http://example.org/", "http://example.org//",
  "http://example.org/Patient", "http://example.org/Patient/", "http://example.org//Patient/1", "http://example.org/fhir///Patient/1",
  "http://example.org/a//b/Patient/1",
  "ftp://example.org/Patient/1", "HTTP://example.org/Patient/1", "http://example.org:80/Patient/1", "http://user@example.org/Patient/1",
  "http://example.org/fhir/../Patient/1", "http://exa mple.org/Patient/1", "http://example.org/Patient/1#", "http://example.org/Patient/1#frag",
  "http://example.org/my_store/Patient/1", "http://example.org/%41/Patient/1", "http://example.org/%zz/Patient/1", "http://example.org/a$b/Patient/1",
  "http://example.org/Patient/1/_history/2", "http://example.org/_history/Patient/1", "http://example.org/Patient/_history/Patient/1",
  "#", "##", "#a#b", "#a/b", "# ", "#a b",
  "|", "a|b", "Patient/1|2", "http://x|", "http://x#", "http://x|#", "http://x|1#", "http://x#f|1", "http://x|1|2", "http://x#a#b",
  "http://x|1.0#" , "http://x| 1", "http://x|1#a b", "x", "x|1", "x#f",
  "%", "%zz", ":", "a:", ":a", "1:a", "a:b", "mailto:someone@example.org", "data:text/plain,hi",
  "Binary/1", "Bundle/1", "Parameters/1", "DomainResource/1", "Resource/1", "MetadataResource/1", "Medication/1", "MedicationRequest/1", "MedicationX/1"
>>
EdgeCases == {Case("raw", "Patient", EdgeStrings[i], "", "", "e" \o ToString(i), "", "", "edge-" \o ToString(i)) : i \in 1..Len(EdgeStrings)}
NoType == {""}
(* parts 1..7 are common to every scope *)
CommonPart(k, t) ==
  CASE k = 1 -> UrnCases({t})
    [] k = 2 -> TypeCanonCases({t})
    [] k = 3 -> PoolCases({t})
    [] k = 4 -> BareFragCases({t})
    [] k = 5 -> CanonCases(RangeOf(CanonUrlPool), RangeOf(CanonVerPool), RangeOf(CanonFragPool))
    [] k = 6 -> BadCanonCases
    [] k = 7 -> {EmptyCase} \cup EdgeCases
NCommon == 7

(* quick: per type a covering selection (every id class; every base; every    *)
(* version class), the full product for Patient only                          *)
QuickIdLabels == {"len1", "len2", "len63", "len64", "len65", "len0", "upper", "lower", "digits", "hyphen", "dot", "onlydot",
                  "mixed", "badunderscore", "badslash"}
QuickPart(k, t) ==
  CASE k <= NCommon -> CommonPart(k, t)
    [] k = 8  -> RestCases({t}, IdsOf(QuickIdLabels), VersOf({"none"}), BasesOf({"none"}))
    [] k = 9  -> RestCases({t}, IdsOf({"len1", "len64"}), VersOf(AllVerLabels \ {"none"}), BasesOf({"none"}))
    [] k = 10 -> RestCases({t}, IdsOf({"mixed"}), VersOf({"none", "v1"}), BasesOf(AllBaseLabels \ {"none"}))
    [] k = 11 -> RestCases({t}, IdsOf({"len64", "len65", "onlydot"}), VersOf({"vmixed"}), BasesOf({"nested", "trailing"}))
    [] k = 12 -> FragCases({t}, IdsOf({"len1", "len64", "mixed", "len65", "badunderscore"}))
    [] k = 13 -> RestCases({t}, IdsOf(AllIdLabels), VersOf(AllVerLabels), BasesOf(AllBaseLabels))      \* Patient only
    [] k = 14 -> FragCases({t}, IdsOf(AllIdLabels))                                                    \* Patient only
ThoroughPart(k, t) ==
  CASE k <= NCommon -> CommonPart(k, t)
    [] k = 8  -> RestCases({t}, IdsOf(AllIdLabels), VersOf({"none", "v1", "vlen64"}), BasesOf({"none", "https", "nested", "trailing"}))
    [] k = 9  -> RestCases({t}, IdsOf({"len1", "len64", "mixed", "onlydot"}), VersOf(AllVerLabels), BasesOf(AllBaseLabels))
    [] k = 10 -> FragCases({t}, IdsOf(AllIdLabels))
    [] k = 11 -> RestCases({t}, IdsOf(AllIdLabels), VersOf(AllVerLabels), BasesOf(AllBaseLabels))      \* DeepTypes only

(* ---- Scope "laws": a small exhaustive pool -------------------------------- *)
LawTypes == {"Medication", "MedicationRequest", "List"}
LawRest  == RestCases(LawTypes, IdsOf({"len1", "dot", "mixed", "onlydot", "len64", "len65", "len0", "badslash", "badunderscore"}),
                      VersOf({"none", "v1", "vbad"}), BasesOf({"none", "http", "port", "trailing"}))
(* string neighbours of every valid reference text: what a parser must not   *)
(* silently accept as the neighbouring valid reference                       *)
Neighbours(c0) ==
  LET c == CompsOf(c0)
      s == Format(c)
      lc == Format([c EXCEPT !.type = LowerFirst(c.type)])
  IN {s, lc, s \o "/", "/" \o s, s \o "#x", s \o "|1", "#" \o s, s \o "/_history", s \o "/_history/",
      Format([c EXCEPT !.base = IF c.base = "" THEN "" ELSE c.base \o "/"]),
      Format([c EXCEPT !.base = IF c.base = "" THEN "" ELSE c.base \o "//"]),
      Format([c EXCEPT !.type = c.type \o "x"])}
StrCase(s) == Case("str", "", s, "", "", "", "", "", "")
LawPart(k, t) ==
  CASE k <= NCommon -> CommonPart(k, t)
    [] k = 8  -> {r \in LawRest : r.type = t}
    [] k = 9  -> {StrCase(s) : s \in UNION {Neighbours(r) : r \in {r \in LawRest : r.type = t /\ ValidCase(r)}}}
    [] k = 10 -> FragCases({t}, IdsOf({"len1", "mixed", "len64", "len65", "badunderscore"}))
    [] k = 11 -> {StrCase(s) : s \in {"", "#", "#a", "##a", "#a b", "urn:uuid:5a17b7c2-e01c-4bc7-b973-31d4156b11d7", "urn:uuid:xyz",
                                      "urn:oid:1.2.3", "urn:oid:1..2", "urn:", "http://example.org/", "bogus", "Patient", "/", "//"}}

NParts == CASE Scope = "laws" -> 11 [] Scope = "quick" -> 14 [] Scope = "thorough" -> 11
PartAt(k, t) ==
  CASE Scope = "laws" -> LawPart(k, t)
    [] Scope = "quick" -> QuickPart(k, t)
    [] Scope = "thorough" -> ThoroughPart(k, t)
(* the resource types a part ranges over *)
TypesOfPart(k) ==
  LET all == IF Scope = "laws" THEN LawTypes ELSE R4Types IN
  IF k \in {5, 6, 7} THEN NoType
  ELSE IF Scope = "laws" /\ k = 11 THEN NoType
  ELSE IF Scope = "quick" /\ k \in {13, 14} THEN {"Patient"}
  ELSE IF Scope = "thorough" /\ k = 11 THEN DeepTypes
  ELSE all
Seed(k, t) == Case("seed", t, "", "", "", "", "", "", ToString(k))
PartNo(seed) == CHOOSE k \in 1..NParts : ToString(k) = seed.x

VARIABLES cs,     \* the case (a seed in the initial states)
          den,    \* its denotation (C19!Denote), computed once when the case is generated
          re      \* Parse(Format(den.want.c)): the re-parse of the canonical form

NoDen == [text |-> ""]
NoRe  == Err("none")
Init == /\ \E k \in 1..NParts : \E t \in TypesOfPart(k) : cs = Seed(k, t)
        /\ den = NoDen /\ re = NoRe
Emit ==
  /\ cs.kind = "seed"
  /\ cs' \in PartAt(PartNo(cs), cs.type)
  /\ den' = Denote(cs')
  /\ re' = IF den'.want.k = "ok" THEN Parse(Format(den'.want.c)) ELSE NoRe
  /\ IF cs'.kind # "str" THEN PrintT(ToJson(CaseJson(cs', den'))) ELSE TRUE
Next == Emit
Spec == Init /\ [][Next]_<<cs, den, re>>

Generated == cs.kind # "seed"

(* ------------------------------------------------------------------- laws *)
(* Parse(Format(c)) = c for valid components (the base URL in its canonical  *)
(* form), and Format(Parse(Format(c))) = Format(c).                          *)
InvRoundTrip ==
  Generated /\ cs.kind \in {"rest", "frag", "urn"} /\ den.valid =>
     LET c == CompsOf(cs)
         p == den.want                     \* Parse(Format(c))
     IN /\ p = OkC(Canon(c))
        /\ Format(p.c) = Format(Canon(c))
        /\ (~den.red => Format(p.c) = den.text)
        /\ re = p

(* For every accepted string: formatting the parse gives the canonical form  *)
(* (the input itself when it has no redundant slashes), and parsing that     *)
(* again gives the same information.                                         *)
InvCanonicalForm ==
  Generated /\ cs.kind \in {"str", "raw", "rest", "frag", "urn", "canon", "empty"} =>
     LET s == den.text
         p == den.want
     IN p.k = "ok" =>
          /\ ValidComps(p.c)
          /\ TextAgrees(Format(p.c), s, den.red)
          /\ (~den.red => Format(p.c) = s)
          /\ re = p

(* Components outside the id alphabet / length never come back as a parse.   *)
InvInvalidRejected ==
  Generated /\ cs.kind \in {"rest", "frag"} /\ ~den.valid => den.want.k # "ok"

(* A typed reference and the URI reference naming the same resource carry    *)
(* equal information and compare as the same reference.                      *)
InvStrongWeak ==
  Generated /\ cs.kind = "rest" /\ den.idvalid =>
     LET s == Strong(cs.type, cs.rid, cs.ver)
         strong == PoolRef("strong", cs.type, cs.rid, cs.ver, "")
     IN /\ den.relwant = OkC(StrongInfo(s))                 \* WeakInfo(rel) = StrongInfo
        /\ den.rel = RelText(StrongInfo(s))
        /\ cs.base = "" => /\ SameRef(strong, PoolRef("weak", cs.type, "", "", den.rel))
                           /\ SameRef(PoolRef("weaknt", "", "", "", den.rel), strong)

(* Identity comparison is an equivalence relation on the twelve references   *)
(* of a pool, and agrees with what the property fixes.                       *)
InvSameRefEquivalence ==
  Generated /\ cs.kind = "pool" =>
     LET refs == den.refs
         D == 1..Len(refs)
         info == InfoSeq(refs)
         same == Tup([i \in D |-> Tup([j \in D |-> SameRefI(info[i], info[j])])])
     IN /\ \A i \in D : same[i][i]
        /\ \A i, j \in D : same[i][j] = same[j][i]
        /\ \A i, j, l \in D : same[i][j] /\ same[j][l] => same[i][l]
        /\ \A i, j \in D : (den.req[i][j] = "T" => same[i][j]) /\ (den.req[i][j] = "F" => ~same[i][j])

(* Well-formed canonical URLs split into url|version#fragment and reassemble *)
(* unchanged; whatever is accepted reassembles unchanged.                    *)
InvCanonical ==
  Generated /\ cs.kind = "canon" =>
     LET p == den.cwant
     IN /\ den.valid => p = CanonOk(cs.base, cs.ver, cs.rid)
        /\ p.k = "ok" => CanonFormat(p.url, p.ver, p.frag) = den.text /\ WellFormedCanon(p.url, p.ver, p.frag)
=============================================================================
