------------------------------ MODULE C20_ExtMC ------------------------------
(***************************************************************************)
(* Model-checking configurations of the extension-list machine (property   *)
(* C20): the initial lists of each tier and the once-only check that what  *)
(* the judge accepts (Permitted) always respects the frame the property    *)
(* states.                                                                 *)
(***************************************************************************)
EXTENDS FPExtensions

(* a list with a repeated URL (the case the property singles out), the     *)
(* empty list, and a list of one                                            *)
QuickInit == {<<>>,
              <<Ent("u1", "s1"), Ent("u2", "i2"), Ent("u1", "i2")>>}
ThoroughInit == QuickInit \cup
             {<<Ent("u2", "s1")>>,
              <<Ent("u3", "s1"), Ent("u1", "s1"), Ent("u3", "i2"), Ent("u1", "s1")>>}
ThoroughInit3 == {<<>>, <<Ent("u3", "s1"), Ent("u1", "i2"), Ent("u3", "i2")>>}

MutatorSteps ==
  {Step("Upsert", e.url, <<e>>, 0) : e \in Exts}
  \cup {Step("SetByURL", u, [j \in 1..Len(vs) |-> Ent(u, vs[j])], 0) : u \in Urls, vs \in SameKindSeqs}
  \cup {Step("Overwrite", "", es, 0) : es \in ArgSeqs}
  \cup {Step("AppendInto", "", es, 0) : es \in ArgSeqs}
  \cup {Step("Clear", "", <<>>, 0)}

SmallLists == SeqsUpTo({Ent(u, v) : u \in {"u1", "u2"}, v \in {"s1", "i2"}}, 3)
SmallSteps == {st \in MutatorSteps : st.url \in {"", "u1", "u2"} /\ \A j \in 1..Len(st.items) : st.items[j].url \in {"u1", "u2"}}

(* whatever the judge accepts respects the frame *)
PermittedImpliesFrame ==
  \A st \in SmallSteps : \A pre \in SmallLists : \A post \in SmallLists :
     Permitted(st, pre, post) => Frame(st, pre, post)
(* and the judge accepts exactly one result for the deterministic operations *)
PermittedIsFunctionalWhereSaid ==
  \A st \in {s \in SmallSteps : s.op \in {"Overwrite", "AppendInto", "Clear"}} : \A pre \in SmallLists :
     Cardinality({post \in SeqsUpTo({Ent(u, v) : u \in {"u1", "u2"}, v \in {"s1", "i2"}}, 4) : Permitted(st, pre, post)}) <= 1

ASSUME PermittedImpliesFrame
=============================================================================
