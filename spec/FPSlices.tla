------------------------------ MODULE FPSlices ------------------------------
(***************************************************************************)
(* Why "evaluation never mutates its inputs" is delicate in Go (property   *)
(* C03): collections are slices - views (array, offset, length, capacity)  *)
(* onto backing arrays.  A collection handed in through an environment     *)
(* variable shares its backing array with the caller; tail/skip/take       *)
(* return sub-slices of it; `append` on a slice with spare capacity writes *)
(* into the shared array.                                                  *)
(*                                                                         *)
(* The machine: the caller owns array 1 (its items followed by sentinel    *)
(* values in the spare capacity) and passes the slice to the evaluator,    *)
(* which applies a pipeline of steps.  The specification of the desired    *)
(* behaviour copies before it appends; Mutant = "appendInPlace" is Go's    *)
(* default behaviour and is what `%e & 'x'` did in the unchanged tree.     *)
(***************************************************************************)
EXTENDS Naturals, Sequences, FPMutant

CONSTANTS MaxLen, MaxSpare, MaxSteps

VARIABLES heap,    \* array id -> sequence of cells
          cur,     \* the evaluator's current slice: [a, off, len, cap]
          init,    \* the caller's array as it was handed over (history, for the invariant)
          ops,     \* the steps taken so far (history; this is the emitted behaviour)
          shape    \* [len, spare] of the caller's slice (constant along a behaviour)
vars == <<heap, cur, init, ops, shape>>

Sentinel == "S"
Item(j) == IF j = 1 THEN "a" ELSE "b"

CallerArray(len, spare) == [j \in 1..(len + spare) |-> IF j <= len THEN Item(j) ELSE Sentinel]

Init ==
  \E len \in 0..MaxLen, spare \in 0..MaxSpare :
     /\ heap = <<CallerArray(len, spare)>>
     /\ init = CallerArray(len, spare)
     /\ cur = [a |-> 1, off |-> 0, len |-> len, cap |-> len + spare]
     /\ ops = <<>>
     /\ shape = [len |-> len, spare |-> spare]

Min2(x, y) == IF x < y THEN x ELSE y

(* tail(), skip(n): a sub-slice from the front (capacity shrinks with the offset) *)
Skip(n) ==
  /\ Len(ops) < MaxSteps
  /\ LET k == Min2(n, cur.len) IN
       cur' = IF cur.len = 0 THEN cur ELSE [cur EXCEPT !.off = cur.off + k, !.len = cur.len - k, !.cap = cur.cap - k]
  /\ ops' = Append(ops, IF n = 1 THEN "tail" ELSE "skip2")
  /\ UNCHANGED <<heap, init, shape>>

(* take(n): a prefix view; the capacity is KEPT, so the cells behind it are the caller's items *)
Take(n) ==
  /\ Len(ops) < MaxSteps
  /\ cur' = IF cur.len = 0 \/ n >= cur.len THEN cur ELSE [cur EXCEPT !.len = n]
  /\ n >= 1      \* take(0) returns a fresh empty collection in the implementation: modelled by Fresh
  /\ ops' = Append(ops, "take1")
  /\ UNCHANGED <<heap, init, shape>>

(* a step that produces a new collection (where, select, take(0), distinct, ...) *)
Fresh ==
  /\ Len(ops) < MaxSteps
  /\ heap' = Append(heap, [j \in 1..cur.len |-> heap[cur.a][cur.off + j]])
  /\ cur' = [a |-> Len(heap) + 1, off |-> 0, len |-> cur.len, cap |-> cur.len]
  /\ ops' = Append(ops, "select")
  /\ UNCHANGED <<init, shape>>

(* `x & 'y'`: when x is empty the evaluator appends '' to it before concatenating *)
ConcatEmptyAppend ==
  /\ Len(ops) < MaxSteps
  /\ IF cur.len > 0 THEN UNCHANGED <<heap, cur>>
     ELSE IF Mutant = "appendInPlace" /\ cur.cap > 0
          THEN /\ heap' = [heap EXCEPT ![cur.a][cur.off + 1] = ""]      \* Go: room left, write in place
               /\ cur' = [cur EXCEPT !.len = 1]
          ELSE /\ heap' = Append(heap, <<"">>)                          \* copy before append
               /\ cur' = [a |-> Len(heap) + 1, off |-> 0, len |-> 1, cap |-> 1]
  /\ ops' = Append(ops, "concat")
  /\ UNCHANGED <<init, shape>>

(* `%two.select(x)`: the projection x is evaluated once per item of a two-item input and the outputs are  *)
(* concatenated.  The desired behaviour builds the result in a collection of its own; the mutant adopts the *)
(* first output - a view onto the caller's array - and appends the second one to it.                         *)
ProjSelect ==
  /\ Len(ops) < MaxSteps
  /\ LET items == [j \in 1..cur.len |-> heap[cur.a][cur.off + j]] IN
     IF Mutant = "selectAdoptsFirst" /\ cur.len > 0 /\ cur.cap >= 2 * cur.len
     THEN /\ heap' = [heap EXCEPT ![cur.a] = [c \in 1..Len(heap[cur.a]) |->
                         IF c > cur.off + cur.len /\ c <= cur.off + 2 * cur.len THEN items[c - cur.off - cur.len] ELSE heap[cur.a][c]]]
          /\ cur' = [cur EXCEPT !.len = 2 * cur.len]
     ELSE /\ heap' = Append(heap, items \o items)
          /\ cur' = [a |-> Len(heap) + 1, off |-> 0, len |-> 2 * cur.len, cap |-> 2 * cur.len]
  /\ ops' = Append(ops, "proj")
  /\ UNCHANGED <<init, shape>>

(* `x.exclude(%two)` where nothing of x is excluded: the result is a collection of its own.  (The implementation also   *)
(* appends the argument's items that are not in x - the recorded finding of C10 - so a result that ADOPTS the input    *)
(* slice writes them into the cells behind it: the mutant.)                                                            *)
ExcludeNothing ==
  /\ Len(ops) < MaxSteps
  /\ LET items == [j \in 1..cur.len |-> heap[cur.a][cur.off + j]] IN
     IF Mutant = "excludeAdoptsInput" /\ cur.cap > cur.len
     THEN /\ heap' = [heap EXCEPT ![cur.a][cur.off + cur.len + 1] = "arg"]
          /\ cur' = [cur EXCEPT !.len = cur.len + 1]
     ELSE /\ heap' = Append(heap, items)
          /\ cur' = [a |-> Len(heap) + 1, off |-> 0, len |-> cur.len, cap |-> cur.len]
  /\ ops' = Append(ops, "excl")
  /\ UNCHANGED <<init, shape>>

Next == Skip(1) \/ Skip(2) \/ Take(1) \/ Fresh \/ ConcatEmptyAppend \/ ProjSelect \/ ExcludeNothing
Spec == Init /\ [][Next]_vars

(* The property: the caller's array - items AND spare capacity - never changes. *)
CallerArraysFrozen == heap[1] = init
InputsFrozenStep == [][heap'[1] = heap[1]]_vars
SliceWellFormed == cur.off + cur.cap <= Len(heap[cur.a]) /\ cur.len <= cur.cap

View == <<heap, cur, init>>
=============================================================================
