-------------------------------- MODULE C04 --------------------------------
(***************************************************************************)
(* Property C04: compiled expressions are immutable, deterministic and     *)
(* goroutine-safe; one instant per evaluation; Compile calls are isolated. *)
(*                                                                         *)
(* This module binds the abstract world of FPRegistryCore to the concrete  *)
(* one: how a model program is written as FHIRPath source, which calendar  *)
(* instant an abstract instant stands for, which abstract item (FPValues)  *)
(* a model item is observed as, and - from these - what the specification  *)
(* permits for an observed Compile-call history, a gated schedule and a    *)
(* time program.  C04_MC emits cases, C04_Judge judges observations,       *)
(* C04_Trace validates stress traces; all three use these definitions.     *)
(***************************************************************************)
EXTENDS FPRegistryCore, FPValues

----------------------------------------------------------------------------
(* Source text.  "bare" is a one-node program written as is (histories);   *)
(* otherwise the nodes are the arguments of the harness function emitN,    *)
(* which returns its N singleton arguments as one collection, evaluated    *)
(* left to right.  gate(%id, k) blocks on a harness channel and yields k.  *)
RenderNode(nd) ==
  CASE nd.n = "gate"  -> "gate(%id, " \o ToString(nd.k) \o ")"
    [] nd.n = "env"   -> "%" \o nd.name
    [] nd.n = "now"   -> "now()"
    [] nd.n = "today" -> "today()"
    [] nd.n = "tod"   -> "timeOfDay()"
    [] nd.n = "fn"    -> nd.name \o "()"
    [] nd.n = "res"   -> "%context.id"
    [] nd.n = "bogus" -> "Patient.name.count().foo"
    [] nd.n = "pause" -> "pause()"

RECURSIVE RenderArgs(_, _)
RenderArgs(prog, i) ==
  IF i > Len(prog) THEN ""
  ELSE RenderNode(prog[i]) \o (IF i < Len(prog) THEN ", " ELSE "") \o RenderArgs(prog, i + 1)
RenderEmit(prog) == "emit" \o ToString(Len(prog)) \o "(" \o RenderArgs(prog, 1) \o ")"
RenderBare(prog) == RenderNode(prog[1])

(* names the harness registers in every Compile call of a schedule/time/   *)
(* stress program; they are scaffolding, not part of the modelled tables   *)
Scaffold == {"gate", "pause"} \cup {"emit" \o ToString(n) : n \in 1..12}

----------------------------------------------------------------------------
(* Instants.  Abstract instants 7, 8, 9 are OverrideTime values. *)
Cal(inst) ==
  CASE inst = 7 -> [y |-> 2024, mo |-> 2, d |-> 29, h |-> 23, mi |-> 59, sec |-> 58, ms |-> 123]
    [] inst = 8 -> [y |-> 1999, mo |-> 1, d |-> 1, h |-> 0, mi |-> 0, sec |-> 0, ms |-> 0]
    [] inst = 9 -> [y |-> 2025, mo |-> 12, d |-> 31, h |-> 12, mi |-> 30, sec |-> 7, ms |-> 500]
    [] OTHER    -> [y |-> 1, mo |-> 1, d |-> 1, h |-> 0, mi |-> 0, sec |-> 0, ms |-> 0]
OverrideInstants == {7, 8, 9}
Offsets == {0, 330, -210, 765}      \* UTC, +05:30, -03:30, +12:45

DTItem(c, off) == [t |-> "dt", p |-> 7, y |-> c.y, mo |-> c.mo, d |-> c.d, h |-> c.h, mi |-> c.mi,
                   sec |-> c.sec, ms |-> c.ms, fd |-> 3, tz |-> TRUE, off |-> off]
DateItem(c) == [t |-> "date", p |-> 3, y |-> c.y, mo |-> c.mo, d |-> c.d]
TimeItem(c) == [t |-> "time", p |-> 7, h |-> c.h, mi |-> c.mi, sec |-> c.sec, ms |-> c.ms, fd |-> 3]

(* the function registered by option k of Compile call c returns this Integer *)
Marker(c, k) == c * 100 + k

(* the resources of schedules and stress runs: Patient r has id "p<r>" *)
ResIdCp(r) == <<112, 48 + r>>

(* Concrete evaluate option: the model option plus the calendar fields of its instant *)
ConcEOpt(o) == [o |-> o.o, name |-> o.name, val |-> o.val, inst |-> o.inst, off |-> o.off, cal |-> Cal(o.inst)]
ConcECall(v, call) == [v |-> v, eid |-> call.eid, r |-> call.r, opts |-> [k \in 1..Len(call.opts) |-> ConcEOpt(call.opts[k])]]

----------------------------------------------------------------------------
(* Matching an observed item against a model item.  Observed items are the *)
(* abstract items of FPValues; every temporal item additionally carries    *)
(* eday/ems (its instant as epoch day and millisecond of the day, computed  *)
(* by the harness from the item's own fields).                              *)
HasOverride(opts) == \E k \in 1..Len(opts) : opts[k].o = "time"

MatchFixed(o, it) ==
  CASE it.t = "int"   -> o.t = "i" /\ o.i = it.a
    [] it.t = "now"   -> o.t = "dt" /\ ItemSame(o, DTItem(Cal(it.a), it.b))
    [] it.t = "today" -> o.t = "date" /\ ItemSame(o, DateItem(Cal(it.a)))
    [] it.t = "tod"   -> o.t = "time" /\ ItemSame(o, TimeItem(Cal(it.a)))
    [] it.t = "fn"    -> IF it.s = "custom" THEN o.t = "i" /\ o.i = Marker(it.a, it.b)
                         ELSE TRUE      \* a built-in: its behaviour is not C04's business
    [] it.t = "res"   -> o.t = "el" /\ o.v.t = "s" /\ o.v.cp = ResIdCp(it.a)
    [] OTHER -> FALSE

(* positions of time items in a model result *)
TimeIdx(items, f) == {i \in 1..Len(items) : items[i].t = f}

LeInst(a, b) == a.eday < b.eday \/ (a.eday = b.eday /\ a.ems <= b.ems)

(* Without OverrideTime: every now() of the evaluation is the same value, it *)
(* lies between the start and the end of the call (bracket measured by the   *)
(* calling goroutine itself), and today()/timeOfDay() are its date and time  *)
(* parts.                                                                    *)
FreeTimeOK(obsItems, modelItems, t0, t1) ==
  LET nows == TimeIdx(modelItems, "now")
  IN /\ \A i \in nows : /\ obsItems[i].t = "dt" /\ obsItems[i].p = 7 /\ obsItems[i].tz
                        /\ LeInst(t0, obsItems[i]) /\ LeInst(obsItems[i], t1)
     /\ \A i, j \in nows : ItemSame(obsItems[i], obsItems[j])
     /\ \A i \in TimeIdx(modelItems, "today") :
          /\ obsItems[i].t = "date" /\ obsItems[i].p = 3
          /\ \A j \in nows : obsItems[i].y = obsItems[j].y /\ obsItems[i].mo = obsItems[j].mo /\ obsItems[i].d = obsItems[j].d
     /\ \A i \in TimeIdx(modelItems, "tod") :
          /\ obsItems[i].t = "time"
          /\ \A j \in nows : /\ obsItems[i].h = obsItems[j].h /\ obsItems[i].mi = obsItems[j].mi
                             /\ obsItems[i].sec = obsItems[j].sec /\ obsItems[i].ms = obsItems[j].ms

(* Does an observed outcome agree with the denotation `den` (OkRes/ErrRes)  *)
(* of an evaluation whose options are `opts`?                               *)
EvalMatches(out, den, opts, t0, t1) ==
  IF den.k = "err" THEN out.k = "err"
  ELSE /\ out.k = "ok" /\ Len(out.items) = Len(den.items)
       /\ \A i \in 1..Len(den.items) :
            (HasOverride(opts) \/ ~IsTimeItem(den.items[i])) => MatchFixed(out.items[i], den.items[i])
       /\ HasOverride(opts) \/ FreeTimeOK(out.items, den.items, t0, t1)

(* a short classification of a mismatch, for signatures *)
EvalDiff(out, den, opts, t0, t1) ==
  IF out.k \in {"panic", "timeout"} THEN out.k
  ELSE IF den.k = "err" THEN "want-err-got-" \o out.k
  ELSE IF out.k # "ok" THEN "want-ok-got-" \o out.k
  ELSE IF Len(out.items) # Len(den.items) THEN "item-count"
  ELSE IF \E i \in 1..Len(den.items) : ~IsTimeItem(den.items[i]) /\ ~MatchFixed(out.items[i], den.items[i])
         THEN LET i == CHOOSE i \in 1..Len(den.items) : ~IsTimeItem(den.items[i]) /\ ~MatchFixed(out.items[i], den.items[i])
              IN "item-" \o den.items[i].t
  ELSE IF HasOverride(opts) THEN "override-instant"
  ELSE "free-instant"

----------------------------------------------------------------------------
(* short codes of Compile calls, used in case ids and signatures *)
OptCode(o) == CASE o.o = "add" -> (CASE o.name = "vfA" -> "A" [] o.name = "vfB" -> "B" [] o.name = "exists" -> "E" [] o.name = "join" -> "J" [] OTHER -> "?")
                [] o.o = "exp" -> "X" [] o.o = "perm" -> "P" [] o.o = "xform" -> "T"
RECURSIVE OptCodes(_, _)
OptCodes(os, k) == IF k > Len(os) THEN "" ELSE OptCode(os[k]) \o OptCodes(os, k + 1)
CallCode(call) == (IF call.api = "patch" THEN "p" ELSE "f") \o OptCodes(call.opts, 1)
=============================================================================
