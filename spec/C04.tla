-------------------------------- MODULE C04 --------------------------------
(***************************************************************************)
(* Property C04: compiled expressions are immutable, deterministic and     *)
(* goroutine-safe; one instant per evaluation; Compile calls are isolated. *)
(*                                                                         *)
(* This module binds the abstract world of FPRegistryCore to the concrete  *)
(* one: how a model program is written as FHIRPath source, which calendar  *)
(* instant an abstract instant stands for, which abstract item (FPValues)  *)
(* a model item is observed as, and - from these - what the specification  *)
(* permits for an observed Compile-call history, a gated schedule and a    *)
(* time program.  C04_MC emits cases, C04_Judge judges observations,       *)
(* C04_Trace validates stress traces; all three use these definitions.     *)
(***************************************************************************)
EXTENDS FPRegistryCore, FPValues

----------------------------------------------------------------------------
(* Source text.  "bare" is a one-node program written as is (histories);   *)
(* otherwise the nodes are the arguments of the harness function emitN,    *)
(* which returns its N singleton arguments as one collection, evaluated    *)
(* left to right.  gate(%id, k) blocks on a harness channel and yields k.  *)
RenderNode(nd) ==
  CASE nd.n = "gate"  -> "gate(%id, " \o ToString(nd.k) \o ")"
    [] nd.n = "env"   -> "%" \o nd.name
    [] nd.n = "now"   -> "now()"
    [] nd.n = "today" -> "today()"
    [] nd.n = "tod"   -> "timeOfDay()"
    [] nd.n = "fn"    -> nd.name \o "()"
    [] nd.n = "res"   -> "%context.id"
    [] nd.n = "bogus" -> "Patient.name.count().foo"
    [] nd.n = "pause" -> "pause()"
    [] nd.n = "opaque" -> "opaque" \o ToString(nd.k)      \* never rendered: the text of such a program is given

RECURSIVE RenderArgs(_, _)
RenderArgs(prog, i) ==
  IF i > Len(prog) THEN ""
  ELSE RenderNode(prog[i]) \o (IF i < Len(prog) THEN ", " ELSE "") \o RenderArgs(prog, i + 1)
RenderEmit(prog) == "emit" \o ToString(Len(prog)) \o "(" \o RenderArgs(prog, 1) \o ")"
RenderBare(prog) == RenderNode(prog[1])

(* "concat": the nodes, each rendered to a string, are joined by the string  *)
(* concatenation operator: n1.toString() & '/' & n2.toString() & ...  The    *)
(* operator is left-associative, so while evaluation v is parked in the gate *)
(* of a right operand the enclosing nodes hold their left results.  Only     *)
(* Integer-valued nodes (gate, env, custom function, pause) are used.        *)
RECURSIVE RenderConcatFrom(_, _)
RenderConcatFrom(prog, i) ==
  IF i > Len(prog) THEN ""
  ELSE (IF i > 1 THEN " & '/' & " ELSE "") \o RenderNode(prog[i]) \o ".toString()" \o RenderConcatFrom(prog, i + 1)
RenderConcat(prog) == RenderConcatFrom(prog, 1)

(* names the harness registers in every Compile call of a schedule/time/   *)
(* stress program; they are scaffolding, not part of the modelled tables   *)
Scaffold == {"gate", "pause"} \cup {"emit" \o ToString(n) : n \in 1..12}

----------------------------------------------------------------------------
(* Instants.  Abstract instants 7, 8, 9 are OverrideTime values. *)
Cal(inst) ==
  CASE inst = 7 -> [y |-> 2024, mo |-> 2, d |-> 29, h |-> 23, mi |-> 59, sec |-> 58, ms |-> 123]
    [] inst = 8 -> [y |-> 1999, mo |-> 1, d |-> 1, h |-> 0, mi |-> 0, sec |-> 0, ms |-> 0]
    [] inst = 9 -> [y |-> 2025, mo |-> 12, d |-> 31, h |-> 12, mi |-> 30, sec |-> 7, ms |-> 500]
    [] OTHER    -> [y |-> 1, mo |-> 1, d |-> 1, h |-> 0, mi |-> 0, sec |-> 0, ms |-> 0]
OverrideInstants == {7, 8, 9}
Offsets == {0, 330, -210, 765}      \* UTC, +05:30, -03:30, +12:45

DTItem(c, off) == [t |-> "dt", p |-> 7, y |-> c.y, mo |-> c.mo, d |-> c.d, h |-> c.h, mi |-> c.mi,
                   sec |-> c.sec, ms |-> c.ms, fd |-> 3, tz |-> TRUE, off |-> off]
DateItem(c) == [t |-> "date", p |-> 3, y |-> c.y, mo |-> c.mo, d |-> c.d]
TimeItem(c) == [t |-> "time", p |-> 7, h |-> c.h, mi |-> c.mi, sec |-> c.sec, ms |-> c.ms, fd |-> 3]

(* the function registered by option k of Compile call c returns this Integer *)
Marker(c, k) == c * 100 + k

(* the resources of schedules and stress runs: Patient r has id "p<r>" *)
ResIdCp(r) == <<112, 48 + r>>

(* Concrete evaluate option: the model option plus the calendar fields of its instant *)
ConcEOpt(o) == [o |-> o.o, name |-> o.name, val |-> o.val, inst |-> o.inst, off |-> o.off, cal |-> Cal(o.inst)]
ConcECall(v, call) == [v |-> v, eid |-> call.eid, r |-> call.r, opts |-> [k \in 1..Len(call.opts) |-> ConcEOpt(call.opts[k])]]

----------------------------------------------------------------------------
(* Matching an observed item against a model item.  Observed items are the *)
(* abstract items of FPValues; every temporal item additionally carries    *)
(* eday/ems (its instant as epoch day and millisecond of the day, computed  *)
(* by the harness from the item's own fields).                              *)
HasOverride(opts) == \E k \in 1..Len(opts) : opts[k].o = "time"

(* The instant an OverrideTime value denotes, as (epoch day, millisecond of  *)
(* the day) in UTC - the same form the harness gives every observed         *)
(* dateTime.  Days from the civil date by the usual era arithmetic.          *)
DaysFromCivil(y0, m, d) ==
  LET y   == IF m <= 2 THEN y0 - 1 ELSE y0
      era == y \div 400
      yoe == y - era * 400
      mp  == IF m > 2 THEN m - 3 ELSE m + 9
      doy == (153 * mp + 2) \div 5 + d - 1
      doe == yoe * 365 + yoe \div 4 - yoe \div 100 + doy
  IN era * 146097 + doe - 719468
DayMs == 86400000
InstOf(c, off) ==
  LET days == DaysFromCivil(c.y, c.mo, c.d)
      ms   == ((c.h * 60 + c.mi) * 60 + c.sec) * 1000 + c.ms - off * 60000
  IN IF ms < 0 THEN [eday |-> days - 1, ems |-> ms + DayMs]
     ELSE IF ms >= DayMs THEN [eday |-> days + 1, ems |-> ms - DayMs]
     ELSE [eday |-> days, ems |-> ms]

MatchFixed(o, it) ==
  CASE it.t = "int"   -> o.t = "i" /\ o.i = it.a
    [] it.t = "fn"    -> IF it.s = "custom" THEN o.t = "i" /\ o.i = Marker(it.a, it.b)
                         ELSE TRUE      \* a built-in: its behaviour is not C04's business
    [] it.t = "res"   -> o.t = "el" /\ o.v.t = "s" /\ o.v.cp = ResIdCp(it.a)
    [] OTHER -> FALSE

(* the string a "concat" program yields for a model result of Integer items *)
DigitsCp(n) == IF n < 10 THEN <<48 + n>>
               ELSE IF n < 100 THEN <<48 + (n \div 10), 48 + (n % 10)>>
               ELSE IF n < 1000 THEN <<48 + (n \div 100), 48 + ((n \div 10) % 10), 48 + (n % 10)>>
               ELSE <<48 + (n \div 1000), 48 + ((n \div 100) % 10), 48 + ((n \div 10) % 10), 48 + (n % 10)>>
IntOfModelItem(it) == IF it.t = "fn" THEN Marker(it.a, it.b) ELSE it.a
RECURSIVE ConcatCp(_, _)
ConcatCp(items, i) ==
  IF i > Len(items) THEN <<>>
  ELSE (IF i > 1 THEN <<47>> ELSE <<>>) \o DigitsCp(IntOfModelItem(items[i])) \o ConcatCp(items, i + 1)
ConcatMatches(out, den) ==
  IF den.k = "err" THEN out.k = "err"
  ELSE out.k = "ok" /\ Len(out.items) = 1 /\ out.items[1].t = "s" /\ out.items[1].cp = ConcatCp(den.items, 1)

(* positions of time items in a model result *)
TimeIdx(items, f) == {i \in 1..Len(items) : items[i].t = f}

LeInst(a, b) == a.eday < b.eday \/ (a.eday = b.eday /\ a.ems <= b.ems)

(* One instant per evaluation.  Every now() of the evaluation is the same    *)
(* value and its instant lies in [lo, hi]: the bracket of the call, measured *)
(* by the calling goroutine itself, when no OverrideTime is given; the       *)
(* OverrideTime instant itself (lo = hi) when one is.  today() and           *)
(* timeOfDay() are the date and the time of day of that same value.  The     *)
(* offset now() is rendered in is not fixed here (the property speaks of the *)
(* instant); that it does not depend on the process time zone is judged      *)
(* across the four time-zone runs.  An evaluation without now() must, under  *)
(* an override, show the date / time of day of the override value itself.    *)
TimeOK(obsItems, modelItems, lo, hi, over) ==
  LET nows == TimeIdx(modelItems, "now")
  IN /\ \A i \in nows : /\ obsItems[i].t = "dt" /\ obsItems[i].p = 7 /\ obsItems[i].tz
                        /\ LeInst(lo, obsItems[i]) /\ LeInst(obsItems[i], hi)
     /\ \A i, j \in nows : ItemSame(obsItems[i], obsItems[j])
     /\ \A i \in TimeIdx(modelItems, "today") :
          /\ obsItems[i].t = "date" /\ obsItems[i].p = 3
          /\ \A j \in nows : obsItems[i].y = obsItems[j].y /\ obsItems[i].mo = obsItems[j].mo /\ obsItems[i].d = obsItems[j].d
          /\ (nows = {} /\ over) => ItemSame(obsItems[i], DateItem(Cal(modelItems[i].a)))
     /\ \A i \in TimeIdx(modelItems, "tod") :
          /\ obsItems[i].t = "time"
          /\ \A j \in nows : /\ obsItems[i].h = obsItems[j].h /\ obsItems[i].mi = obsItems[j].mi
                             /\ obsItems[i].sec = obsItems[j].sec /\ obsItems[i].ms = obsItems[j].ms
          /\ (nows = {} /\ over) => ItemSame(obsItems[i], TimeItem(Cal(modelItems[i].a)))

(* the instant the model's time items carry (all of them the same one) *)
ModelInstant(modelItems) ==
  LET ts == {i \in 1..Len(modelItems) : IsTimeItem(modelItems[i])}
  IN IF ts = {} THEN [eday |-> 0, ems |-> 0]
     ELSE LET i == CHOOSE i \in ts : TRUE IN InstOf(Cal(modelItems[i].a), modelItems[i].b)

(* Does an observed outcome agree with the denotation `den` (OkRes/ErrRes)  *)
(* of an evaluation whose options are `opts` and whose bracket is [t0, t1]? *)
EvalMatches(out, den, opts, t0, t1) ==
  IF den.k = "err" THEN out.k = "err"
  ELSE /\ out.k = "ok" /\ Len(out.items) = Len(den.items)
       /\ \A i \in 1..Len(den.items) : ~IsTimeItem(den.items[i]) => MatchFixed(out.items[i], den.items[i])
       /\ IF HasOverride(opts)
            THEN TimeOK(out.items, den.items, ModelInstant(den.items), ModelInstant(den.items), TRUE)
            ELSE TimeOK(out.items, den.items, t0, t1, FALSE)

(* a short classification of a mismatch, for signatures *)
EvalDiff(out, den, opts, t0, t1) ==
  IF out.k \in {"panic", "timeout"} THEN out.k
  ELSE IF den.k = "err" THEN "want-err-got-" \o out.k
  ELSE IF out.k # "ok" THEN "want-ok-got-" \o out.k
  ELSE IF Len(out.items) # Len(den.items) THEN "item-count"
  ELSE IF \E i \in 1..Len(den.items) : ~IsTimeItem(den.items[i]) /\ ~MatchFixed(out.items[i], den.items[i])
         THEN LET i == CHOOSE i \in 1..Len(den.items) : ~IsTimeItem(den.items[i]) /\ ~MatchFixed(out.items[i], den.items[i])
              IN "item-" \o den.items[i].t
  ELSE IF HasOverride(opts) THEN "override-instant"
  ELSE "free-instant"

----------------------------------------------------------------------------
(* Function coverage of the stress test.  For EVERY function of the          *)
(* implementation's tables (names and arities are read from the              *)
(* implementation through funcs.Clone(), see C04_Menu) there is one          *)
(* uninterpreted program with a well-typed receiver and well-typed arguments *)
(* that are FRESH per evaluation: they are computed from %x, and every       *)
(* goroutine passes a value of %x no other evaluation of the process has     *)
(* used (strings, patterns, counts, numbers all differ from call to call).   *)
(* These programs are never evaluated before the goroutines start, so state  *)
(* a function keeps per argument value (a cache of compiled patterns, of     *)
(* parsed literals, ...) is first written DURING the concurrent phase.  A    *)
(* name without an entry gets the generic form  receiver.name(%x, ...).      *)
GV == "Patient.name.given"
SX == "('v' & %x.toString())"
FnCover ==
  [empty |-> GV \o ".take(%x mod 3).empty()",
   exists |-> GV \o ".exists($this.length() > (%x mod 5))",
   extension |-> "Patient.extension('http://example.org/' & %x.toString())",
   all |-> GV \o ".all($this.length() > (%x mod 5))",
   allTrue |-> GV \o ".select($this.length() > (%x mod 5)).allTrue()",
   anyTrue |-> GV \o ".select($this.length() > (%x mod 5)).anyTrue()",
   allFalse |-> GV \o ".select($this.length() > (%x mod 5)).allFalse()",
   anyFalse |-> GV \o ".select($this.length() > (%x mod 5)).anyFalse()",
   count |-> GV \o ".take(%x mod 3).count()",
   distinct |-> GV \o ".select($this.substring(0, 1 + (%x mod 2))).distinct()",
   isDistinct |-> GV \o ".select($this.substring(0, 1 + (%x mod 2))).isDistinct()",
   where |-> GV \o ".where($this.length() > (%x mod 5))",
   select |-> GV \o ".select($this & %x.toString())",
   first |-> GV \o ".select($this & %x.toString()).first()",
   last |-> GV \o ".select($this & %x.toString()).last()",
   tail |-> GV \o ".select($this & %x.toString()).tail()",
   skip |-> GV \o ".skip(%x mod 3)",
   take |-> GV \o ".take(%x mod 3)",
   intersect |-> "%x.toString().toChars().intersect((%x mod 10).toString().toChars())",
   exclude |-> "%x.toString().toChars().exclude((%x mod 10).toString().toChars())",
   iif |-> "iif(%x mod 2 = 0, %x, " \o GV \o ".first())",
   toBoolean |-> "(%x mod 2).toString().toBoolean()",
   convertsToBoolean |-> "(%x mod 3).toString().convertsToBoolean()",
   toInteger |-> "%x.toString().toInteger()",
   convertsToInteger |-> SX \o ".convertsToInteger()",
   toDate |-> "((1000 + (%x mod 8000)).toString() & '-01-01').toDate()",
   convertsToDate |-> "((1000 + (%x mod 8000)).toString() & '-01-01').convertsToDate()",
   toDateTime |-> "((1000 + (%x mod 8000)).toString() & '-01-01T10:00:00Z').toDateTime()",
   convertsToDateTime |-> "((1000 + (%x mod 8000)).toString() & '-01-01T10:00:00Z').convertsToDateTime()",
   toDecimal |-> "(%x.toString() & '.5').toDecimal()",
   convertsToDecimal |-> "(%x.toString() & '.5').convertsToDecimal()",
   toQuantity |-> "%x.toString().toQuantity()",
   convertsToQuantity |-> "%x.toString().convertsToQuantity()",
   toString |-> "(%x / 8).toString()",
   convertsToString |-> SX \o ".convertsToString()",
   toTime |-> "('10:' & (10 + (%x mod 50)).toString() & ':' & (10 + ((%x div 50) mod 50)).toString()).toTime()",
   convertsToTime |-> "('10:' & (10 + (%x mod 50)).toString() & ':' & (10 + ((%x div 50) mod 50)).toString()).convertsToTime()",
   indexOf |-> SX \o ".indexOf((%x mod 10).toString())",
   substring |-> SX \o ".substring(1, 1 + (%x mod 3))",
   startsWith |-> SX \o ".startsWith('v' & (%x mod 10).toString())",
   endsWith |-> SX \o ".endsWith((%x mod 10).toString())",
   contains |-> SX \o ".contains((%x mod 10).toString())",
   upper |-> SX \o ".upper()",
   lower |-> SX \o ".lower()",
   replace |-> SX \o ".replace('v', %x.toString())",
   matches |-> "'abc-123'.matches('^abc-' & %x.toString() & '?')",
   replaceMatches |-> SX \o ".replaceMatches('v' & %x.toString() & '?', 'X')",
   length |-> SX \o ".length()",
   toChars |-> SX \o ".toChars()",
   abs |-> "(0 - %x).abs()",
   ceiling |-> "(%x / 7).ceiling()",
   exp |-> "((%x mod 5) / 2).exp()",
   floor |-> "(%x / 7).floor()",
   ln |-> "%x.ln()",
   log |-> "%x.log(2)",
   power |-> "(%x mod 7).power(2)",
   round |-> "(%x / 7).round(2)",
   sqrt |-> "%x.sqrt()",
   truncate |-> "(%x / 7).truncate()",
   children |-> "Patient.name.children().count() + %x",
   descendants |-> "Patient.name.descendants().count() + %x",
   now |-> "now().exists() and %x > 0",
   today |-> "today().exists() and %x > 0",
   timeOfDay |-> "timeOfDay().exists() and %x > 0",
   not |-> "(%x mod 2 = 0).not()",
   join |-> GV \o ".join(%x.toString())"]
RECURSIVE XArgs(_)
XArgs(n) == IF n = 0 THEN "" ELSE "%x" \o (IF n > 1 THEN ", " ELSE "") \o XArgs(n - 1)
FnCoverText(name, min) == IF name \in DOMAIN FnCover THEN FnCover[name] ELSE GV \o "." \o name \o "(" \o XArgs(min) \o ")"

----------------------------------------------------------------------------
(* short codes of Compile calls, used in case ids and signatures *)
OptCode(o) == CASE o.o = "add" -> (CASE o.name = "vfA" -> "A" [] o.name = "vfB" -> "B" [] o.name = "exists" -> "E" [] o.name = "join" -> "J" [] OTHER -> "?")
                [] o.o = "exp" -> "X" [] o.o = "perm" -> "P" [] o.o = "xform" -> "T"
RECURSIVE OptCodes(_, _)
OptCodes(os, k) == IF k > Len(os) THEN "" ELSE OptCode(os[k]) \o OptCodes(os, k + 1)
CallCode(call) == (IF call.api = "patch" THEN "p" ELSE "f") \o OptCodes(call.opts, 1)
=============================================================================
