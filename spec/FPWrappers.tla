----------------------------- MODULE FPWrappers -----------------------------
(***************************************************************************)
(* Reference semantics of the resource / bundle / extension wrappers and   *)
(* of element extraction (property C20), over the generated constant       *)
(* module C20Schema (type -> oneof member of ContainedResource and of      *)
(* Extension.ValueX, read from the google/fhir descriptors).               *)
(*                                                                         *)
(* A wrapper is a record with ONE populated slot: [slot, ref]; ref is the  *)
(* identity of the wrapped object (wrapping never copies).                 *)
(***************************************************************************)
EXTENDS C20Base, C20Schema

ResTypeSet == SeqSet(ResTypes)
ExtTypeSet == SeqSet(ExtTypes)

(* ---------------------------------------------------------------------- *)
(* The naming rule that links a type name to its oneof member: the proto   *)
(* field is the snake_case of the CamelCase name - an underscore before    *)
(* every capital but the first, whatever precedes it (a digit included:    *)
(* Base64Binary -> base64_binary) - and a member whose snake name is the   *)
(* proto keyword `string` is called string_value.                          *)
IsUp(c)  == c \in 65..90
IsDig(c) == c \in 48..57
Lower(c) == IF IsUp(c) THEN c + 32 ELSE c
Boundary(cp, j) == j > 1 /\ IsUp(cp[j]) /\ (Mutant # "snakeIgnoresDigits" \/ ~IsDig(cp[j - 1]))
RECURSIVE SnakeFrom(_, _)
SnakeFrom(cp, j) == IF j > Len(cp) THEN <<>>
                    ELSE (IF Boundary(cp, j) THEN <<95, Lower(cp[j])>> ELSE <<Lower(cp[j])>>) \o SnakeFrom(cp, j + 1)
Snake(cp) == SnakeFrom(cp, 1)
KeywordString == <<115, 116, 114, 105, 110, 103>>            \* "string"
ValueSuffix   == <<95, 118, 97, 108, 117, 101>>              \* "_value"
ResSlotRule(cp) == Snake(cp)
ExtSlotRule(cp) == IF Snake(cp) = KeywordString /\ Mutant # "noKeywordRule" THEN Snake(cp) \o ValueSuffix ELSE Snake(cp)

NamingRuleRes(t) == ResSlotRule(ResNameCp[t]) = ResSlotCp[t]
NamingRuleExt(t) == ExtSlotRule(ExtNameCp[t]) = ExtSlotCp[t]

(* ---------------------------------------------------------------------- *)
SlotOfRes(t) == IF Mutant = "slotCollision" /\ t = ResTypes[2] THEN ResSlot[ResTypes[1]] ELSE ResSlot[t]
SlotOfExt(t) == ExtSlot[t]

Wrap(t, r)   == [slot |-> SlotOfRes(t), ref |-> r]             \* containedresource.Wrap
Unwrap(w)    == IF Mutant = "unwrapCopies" THEN w.ref + 1000 ELSE w.ref   \* containedresource.Unwrap
TypeOfSlot(s) == CHOOSE t \in ResTypeSet : SlotOfRes(t) = s
EntryOf(t, r)   == [resource |-> Wrap(t, r)]                   \* bundle.New*Entry
UnwrapEntry(e)  == Unwrap(e.resource)                          \* bundle.UnwrapEntry
BundleOf(items) == [entry |-> [j \in 1..Len(items) |-> EntryOf(items[j].t, items[j].r)]]
BundleUnwrap(b) == LET rs == [j \in 1..Len(b.entry) |-> UnwrapEntry(b.entry[j])]   \* bundle.Unwrap
                   IN IF Mutant = "bundleReverses" THEN Reverse(rs) ELSE rs
ExtWrap(t, r)   == [slot |-> SlotOfExt(t), ref |-> r]          \* extension.FromElement / New
ExtUnwrap(x)    == x.ref                                       \* extension.Unwrap

(* laws *)
SchemaMatchesQuantifier == Len(ResTypes) = 146 /\ Len(ExtTypes) = 49
SlotsInjective ==
  /\ NoDup(ResTypes) /\ NoDup(ExtTypes)
  /\ Cardinality({SlotOfRes(t) : t \in ResTypeSet}) = Len(ResTypes)
  /\ Cardinality({SlotOfExt(t) : t \in ExtTypeSet}) = Len(ExtTypes)
  /\ Cardinality({ResSlotNum[t] : t \in ResTypeSet}) = Len(ResTypes)
  /\ Cardinality({ExtSlotNum[t] : t \in ExtTypeSet}) = Len(ExtTypes)
RoundTripRes(t) == \A r \in 1..2 : /\ Unwrap(Wrap(t, r)) = r
                                   /\ UnwrapEntry(EntryOf(t, r)) = r
                                   /\ TypeOfSlot(Wrap(t, r).slot) = t
RoundTripExt(t) == \A r \in 1..2 : ExtUnwrap(ExtWrap(t, r)) = r
BundleOrder(ts) == BundleUnwrap(BundleOf([j \in 1..Len(ts) |-> [t |-> ts[j], r |-> j]])) = [j \in 1..Len(ts) |-> j]

(* ---------------------------------------------------------------------- *)
(* Extraction.  A tree node is [n, jn, ty, k, pn, li, cx, hp, h, v, ch]: FHIRPath *)
(* name, JSON name, FHIR type, kind, proto message name, list element,     *)
(* reached through a choice, "a message of its own exists in the resource  *)
(* under test", content hash, primitive value, children in document order. *)
(* An address is                                                           *)
(* the sequence of child positions from the root.                          *)
RECURSIVE ValidAddr(_, _)
ValidAddr(node, addr) == addr = <<>> \/ (Head(addr) \in 1..Len(node.ch) /\ ValidAddr(node.ch[Head(addr)], Tail(addr)))
RECURSIVE NodeAt(_, _)
NodeAt(node, addr) == IF addr = <<>> THEN node ELSE NodeAt(node.ch[Head(addr)], Tail(addr))

(* addresses of all nodes of FHIR type ty below (and including) node *)
RECURSIVE AllOfTypeFrom(_, _, _)
AllOfTypeFrom(node, addr, ty) ==
  (IF node.ty = ty THEN {addr} ELSE {})
  \cup UNION {AllOfTypeFrom(node.ch[j], Append(addr, j), ty) : j \in 1..Len(node.ch)}
AllOfType(tree, ty) == AllOfTypeFrom(tree, <<>>, ty)

(* addresses of the resources nested in the tree (contained resources,     *)
(* bundle entries)                                                         *)
RECURSIVE NestedResourcesFrom(_, _)
NestedResourcesFrom(node, addr) ==
  (IF node.k = "resource" /\ addr # <<>> THEN {addr} ELSE {})
  \cup UNION {NestedResourcesFrom(node.ch[j], Append(addr, j)) : j \in 1..Len(node.ch)}
IsPrefixOf(p, a) == Len(p) <= Len(a) /\ SubSeq(a, 1, Len(p)) = p
InsideNested(tree, a) == \E p \in NestedResourcesFrom(tree, <<>>) : IsPrefixOf(p, a)

(* Navigation of a label.  A label is a sequence of steps [n, i]: a name   *)
(* and a 0-based index (-1 = none).  The first step names the resource;    *)
(* every further step selects, among the children of the current node      *)
(* whose JSON name (or FHIRPath name) is n, the i-th one - or the only one *)
(* when no index is written.                                               *)
Matching(node, name) == IndicesWhere(node.ch, LAMBDA c : c.jn = name \/ c.n = name)
NavFail(at, parent, name) == [ok |-> FALSE, addr |-> <<>>, choice |-> FALSE, at |-> at, parent |-> parent, name |-> name]
RECURSIVE NavFrom(_, _, _, _, _)
NavFrom(node, addr, steps, k, choice) ==
  IF k > Len(steps) THEN [ok |-> TRUE, addr |-> addr, choice |-> choice, at |-> 0, parent |-> "", name |-> ""]
  ELSE LET st == steps[k]
           m  == Matching(node, st.n)
       IN IF st.i < -1 THEN NavFail(k, node.pn, st.n)
          ELSE IF st.i = -1 /\ Len(m) # 1 THEN NavFail(k, node.pn, st.n)
          ELSE IF st.i >= Len(m) THEN NavFail(k, node.pn, st.n)
          ELSE LET j == IF st.i = -1 THEN m[1] ELSE m[st.i + 1]
               IN NavFrom(node.ch[j], Append(addr, j), steps, k + 1, choice \/ node.ch[j].cx)
Nav(tree, steps) ==
  IF Len(steps) = 0 THEN NavFail(0, "", "")
  ELSE IF steps[1].n # tree.n \/ steps[1].i # -1 THEN NavFail(1, "", steps[1].n)
  ELSE NavFrom(tree, <<>>, steps, 2, FALSE)
=============================================================================
