------------------------------- MODULE C13_MC -------------------------------
(***************************************************************************)
(* Exploration of the C13 case space.  One behaviour per case: the initial *)
(* state is a (source, target) pair awaiting evaluation, the single step   *)
(* evaluates it in the specification and emits it (role 2, generator).     *)
(* The conversion laws are invariants over every explored pair (role 1).   *)
(***************************************************************************)
EXTENDS C13, Json

VARIABLES cs, res

Init == cs \in Cases /\ res = [k |-> "pending"]

Evaluate ==
  /\ res.k = "pending"
  /\ res' = [k |-> "done", to |-> To(cs.T, cs.src.x), conv |-> Convertible(cs.T, cs.src.x)]
  /\ cs' = cs
  /\ PrintT(ToJson(Emitted(cs)))

Next == Evaluate
Spec == Init /\ [][Next]_<<cs, res>>

InvConvertsIffTo == res.k = "done" => (res.conv <=> res.to # <<>>)
InvTyped         == LawTyped(cs.T, cs.src.x)
InvIdempotent    == LawIdempotent(cs.T, cs.src.x)
InvRoundTrip     == LawRoundTrip(cs.T, cs.src.x)
InvTable         == LawTable(cs.T, cs.src.x)
(* the canonical string of an item of type T is never one whose reading is left open: the
   round-trip law is checked on strings the specification itself reads strictly *)
InvCanonNotAmb   == cs.src.x.t = TagOf(cs.T) => ~Amb(cs.T, S(ToStr(cs.src.x)))
(* every literal the generator writes denotes a well-formed item of its own type *)
InvPoolTyped     == cs.src.x.t # "cx" => WellTyped(TypeOfTag(cs.src.x.t), cs.src.x)
=============================================================================
