------------------------------ MODULE C18_Judge ------------------------------
(***************************************************************************)
(* Role 3 for property C18: judge recorded executions of the real patch    *)
(* API.  An observation is a behaviour [id, res, steps]; each step carries *)
(* the operation, the value as the harness built it, the outcome, the      *)
(* post-tree (pruned: a subtree whose content hash equals that of a        *)
(* subtree of the previous tree or of the value is a stub with a hint where *)
(* to find it - the judge verifies every hint), proto.Equal / deterministic *)
(* bytes / presence bits of the resource and of the value before vs after.  *)
(*                                                                         *)
(* For every step the judge reconstructs the observed post-tree, computes  *)
(* what the specification permits from the observed pre-tree (Expect) and  *)
(* decides:                                                                 *)
(*   returned nil   => permitted to succeed and post-tree = an expected one *)
(*   returned error => permitted to fail, resource and value untouched      *)
(*   move           => error of class NotImplemented                        *)
(*   panic, timeout, a resource that can no longer be rendered: never       *)
(*   after any call, no element object may be reachable twice inside the    *)
(*   resource (dup = 0): the tree abstraction presupposes it, and a shared  *)
(*   object makes a later patch of one element change another               *)
(* The next step is judged from the OBSERVED tree, so one divergence does   *)
(* not hide later ones.                                                     *)
(***************************************************************************)
EXTENDS C18, Params

Obs == ndJsonDeserialize(ObsFile)
N == Len(Obs)
W == 16

----------------------------------------------------------------------------
(* reconstruction of the observed post-tree *)

StubSrc(p, pre, dn) == IF p.st = 1 THEN pre ELSE dn

RECURSIVE HintsOk(_, _, _)
HintsOk(p, pre, dn) ==
  IF p.st = 0 THEN \A i \in 1..Len(p.ch) : HintsOk(p.ch[i], pre, dn)
  ELSE /\ p.st \in {1, 2}
       /\ ValidAddr(StubSrc(p, pre, dn), p.a)
       /\ LET src == NodeAt(StubSrc(p, pre, dn), p.a) IN src.h = p.h /\ src.pn = p.pn /\ src.h # ""

RECURSIVE Expand(_, _, _)
Expand(p, pre, dn) ==
  IF p.st = 0
  THEN [n |-> p.n, jn |-> p.jn, ty |-> p.ty, k |-> p.k, pn |-> p.pn, li |-> p.li, cx |-> p.cx, v |-> p.v, h |-> p.h,
        ch |-> [i \in 1..Len(p.ch) |-> Expand(p.ch[i], pre, dn)]]
  ELSE [NodeAt(StubSrc(p, pre, dn), p.a) EXCEPT !.n = p.n, !.jn = p.jn, !.li = p.li, !.cx = p.cx]

----------------------------------------------------------------------------
DonorOk(s) == s.val.src = "donor" =>
  /\ HasTree(s.val.res) /\ ValidAddr(TreeOf(s.val.res), s.val.addr)
  /\ LET d == NodeAt(TreeOf(s.val.res), s.val.addr) IN d.h = s.val.h /\ d.pn = s.val.pn

ValueTree(s) ==
  IF s.val.src = "donor" THEN NodeAt(TreeOf(s.val.res), s.val.addr)
  ELSE [n |-> "", jn |-> "", ty |-> s.val.ty, k |-> s.val.k, pn |-> s.val.pn, li |-> FALSE, cx |-> FALSE,
        v |-> s.val.v, h |-> s.val.h, ch |-> <<>>]

(* classification of the target, for signatures *)
TargetKind(t, loc, op) ==
  IF loc.k # "nodes" THEN loc.k
  ELSE IF Len(loc.a) = 0 THEN "absent"
  ELSE IF Len(loc.a) > 1 /\ op # "insert" THEN "multi"
  ELSE LET a == loc.a[1] IN
       IF Len(a) = 0 THEN "root"
       ELSE LET x == NodeAt(t, a)
                p == NodeAt(t, Front(a))
            IN IF UnderContained(t, a) THEN "in-contained"
               ELSE IF x.k = "resource" THEN "res-" \o x.n
               ELSE IF p.k = "prim" THEN "primchild"
               ELSE IF x.n = "reference" /\ p.ty = "Reference" THEN "refstring"
               ELSE IF x.cx THEN "choice"
               ELSE IF x.ty = "code" /\ x.pn # "Code" THEN "boundcode"
               ELSE x.k \o (IF x.li THEN "-list" ELSE "-scalar")

(* for add: the kind of the named field of the target *)
AddFieldKind(t, loc, s) ==
  IF s.op # "add" \/ loc.k # "nodes" \/ Len(loc.a) # 1 THEN ""
  ELSE LET x == NodeAt(t, loc.a[1]) IN
       IF ~FieldOk(Schema, x.pn, s.name) THEN "+nofield"
       ELSE LET f == GetField(Schema, x.pn, s.name) IN
            IF f.anyres THEN "+anyres" ELSE IF f.choice THEN "+choice"
            ELSE IF f.list THEN "+list"
            ELSE IF x.k = "prim" THEN "+primchild"
            ELSE IF Len(f.alts) = 1 /\ Len(f.alts[1].codes) > 0 THEN "+boundcode"
            ELSE "+scalar"

ErrClass(out) == IF Len(out.cls) = 0 THEN "other" ELSE out.cls[1]

Verdict(id, ok, sig, must, why) == [id |-> id, ok |-> ok, sig |-> IF ok THEN "" ELSE sig, want |-> [must |-> must, why |-> why]]

StepVerdict(o, k, cur, s) ==
  LET id == o.id \o "#" \o ToString(k)
      mal(what) == [verdict |-> Verdict(id, FALSE, "malformed|" \o what, "", ""), go |-> FALSE, next |-> cur]
  IN
  IF s.text # Render(s.path) THEN mal("text-is-not-the-rendering-of-path")
  ELSE IF ~DonorOk(s) THEN mal("donor")
  ELSE IF ~SchemaCovers(cur, Schema, s) THEN mal("schema-does-not-cover-target")
  ELSE
  LET dn    == ValueTree(s)
      loc   == Nav(cur, Schema, s.path)
      ex    == Expect(cur, Schema, s, dn)
      tk    == TargetKind(cur, loc, s.op) \o AddFieldKind(cur, loc, s)
      lastk == IF Len(s.path) < 2 THEN s.path[Len(s.path)].k
               ELSE s.path[Len(s.path) - 1].k \o "." \o s.path[Len(s.path)].k
      cls   == IF s.op \in {"delete", "move"} THEN "none" ELSE ex.why
      base(kind) == "patch|" \o kind \o "|" \o s.op \o "|" \o tk \o "|" \o lastk \o "|" \o
                    (IF s.op \in {"delete", "move"} THEN "-" ELSE
                     IF s.val.nil THEN "nil" ELSE s.val.pn) \o "|" \o ex.why
      unchanged == /\ s.post.st = 1 /\ s.post.a = <<>> /\ s.post.h = cur.h
                   /\ s.eq /\ s.det /\ s.has
      valsame   == s.veq /\ s.vdet /\ s.vhas
      bad(sig, nxt)  == [verdict |-> Verdict(id, FALSE, sig, ex.must, ex.why), go |-> TRUE, next |-> nxt]
      good(nxt)      == [verdict |-> Verdict(id, TRUE, "", ex.must, ex.why), go |-> TRUE, next |-> nxt]
  IN
  IF s.dup > 0 \/ s.xdup > 0 THEN
       (* the resource is no longer a tree of its own objects: an element object is stored at two places of it,  *)
       (* or is also part of another resource this process patched; a later patch of one element then changes   *)
       (* another, and the tree abstraction no longer describes the resource: rejected, nothing after it judged  *)
       [verdict |-> Verdict(id, FALSE, base("shared") \o "|" \o s.out.k \o "|" \o
                              (IF s.dup > 0 THEN "element-object-stored-twice" ELSE "element-object-shared-with-another-resource"),
                            ex.must, ex.why),
        go |-> FALSE, next |-> cur]
  ELSE IF s.posterr # "" THEN
       [verdict |-> Verdict(id, FALSE, base(IF s.posterr = "timeout" THEN "timeout" ELSE "unrenderable") \o "|" \o s.out.k, ex.must, ex.why),
        go |-> FALSE, next |-> cur]
  ELSE IF ~HintsOk(s.post, cur, dn) THEN mal("post-tree-hint")
  ELSE
  LET post == IF unchanged THEN cur ELSE Expand(s.post, cur, dn) IN
  CASE s.out.k = "panic" ->
         bad(base("panic") \o "|" \o s.out.site \o (IF unchanged THEN "" ELSE "|resource-changed"), post)
    [] s.out.k = "timeout" -> bad(base("timeout"), post)
    [] s.out.k = "err" ->
         IF ~unchanged THEN bad(base("atomic") \o "|" \o ErrClass(s.out) \o "|resource-changed-on-error", post)
         ELSE IF ~valsame THEN bad(base("atomic") \o "|" \o ErrClass(s.out) \o "|value-changed-on-error", post)
         ELSE IF s.op = "move" /\ "NotImplemented" \notin Range(s.out.cls) THEN bad(base("move") \o "|" \o ErrClass(s.out), post)
         ELSE IF ex.must = "ok" THEN bad(base("refused") \o "|" \o ErrClass(s.out), post)
         ELSE good(post)
    [] s.out.k = "ok" ->
         IF ex.must = "err" THEN bad(base("accepted") \o "|" \o (IF unchanged THEN "unchanged" ELSE "changed"), post)
         ELSE IF \E e \in ex.trees : Match(post, e) THEN good(post)
         ELSE IF unchanged THEN bad(base("noeffect"), post)
         ELSE bad(base("frame"), post)
    [] OTHER -> mal("outcome-kind")

RECURSIVE JudgeFrom(_, _, _)
JudgeFrom(o, k, cur) ==
  IF k > Len(o.steps) THEN <<>>
  ELSE LET r == StepVerdict(o, k, cur, o.steps[k])
       IN <<r.verdict>> \o (IF r.go THEN JudgeFrom(o, k + 1, r.next) ELSE <<>>)

Judge(o) ==
  IF ~HasTree(o.res) THEN <<Verdict(o.id \o "#1", FALSE, "malformed|unknown-resource", "", "")>>
  ELSE JudgeFrom(o, 1, TreeOf(o.res))

VARIABLE i
Init == i \in 1..(IF N < W THEN N ELSE W) /\ PrintT(ToJson(Judge(Obs[i])))
Next == i + W <= N /\ i' = i + W /\ PrintT(ToJson(Judge(Obs[i'])))
Spec == Init /\ [][Next]_i
=============================================================================
