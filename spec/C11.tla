-------------------------------- MODULE C11 --------------------------------
(***************************************************************************)
(* Property C11: parsing respects FHIRPath precedence, associativity and   *)
(* token boundaries.  This module is the case space and the oracle:        *)
(*   - a small evaluator Eval for trees whose operators have a simple      *)
(*     arithmetic / Boolean / comparison meaning over Integer, Boolean and *)
(*     String literals (and a few paths of model resource MR1);            *)
(*   - Expected(t): what the property (with DESIGN.md's named deviation    *)
(*     UnsupportedOps) demands of a tree;                                  *)
(*   - the SHAPES the generator enumerates and the choice of               *)
(*     distinguishing leaves.                                              *)
(* C11_MC explores it and emits cases, C11_Judge judges observations.      *)
(***************************************************************************)
EXTENDS FPSyntax, FPValues

L3 == INSTANCE FPLogic WITH Mutant <- "none"

(* ------------------------------------------------------------- evaluator *)
(* A result is [k |-> "ok", items, fhir] (fhir: the items are elements of  *)
(* the input, not System values), [k |-> "na"] (outside the evaluator:     *)
(* only consistency is demanded) or [k |-> "dz"] (a zero divisor: the      *)
(* generator leaves such trees out, see docs/notes/C11.md).                *)
V(items)     == [k |-> "ok", items |-> items, fhir |-> FALSE]
VF(items, f) == [k |-> "ok", items |-> items, fhir |-> f]
NA == [k |-> "na"]
DZ == [k |-> "dz"]

NumVal(tok) ==
  CASE tok = "0" -> 0 [] tok = "1" -> 1 [] tok = "2" -> 2 [] tok = "3" -> 3 [] tok = "4" -> 4
    [] tok = "5" -> 5 [] tok = "6" -> 6 [] tok = "7" -> 7 [] tok = "8" -> 8 [] tok = "9" -> 9
    [] tok = "10" -> 10 [] tok = "12" -> 12 [] tok = "42" -> 42
StrVal(tok) ==
  CASE tok = "'a'" -> <<97>> [] tok = "'b'" -> <<98>> [] tok = "'c'" -> <<99>>
    [] tok = "'ab'" -> <<97, 98>> [] tok = "'male'" -> <<109, 97, 108, 101>>
    [] tok = "'a  b'" -> <<97, 32, 32, 98>> [] tok = "'x // y'" -> <<120, 32, 47, 47, 32, 121>>
    [] tok = "'/* z */'" -> <<47, 42, 32, 122, 32, 42, 47>> [] tok = "' b '" -> <<32, 98, 32>>
    [] tok = "'a b'" -> <<97, 32, 98>>

Opaque(n) == [t |-> "opaque", n |-> n]

(* Paths of model resource MR1 (spec/data/MR1.json) evaluated at the root. *)
PathKeys == {"Patient.active", "active", "Patient.`active`", "`Patient`.active", "`Patient`.`name`", "`active`", "Patient.gender", "gender", "Patient.name", "name",
             "Patient.telecom.rank", "telecom.rank", "Patient.name.given", "name.given", "Patient.name.`given`"}
PathDen(key) ==
  CASE key \in {"Patient.active", "active", "Patient.`active`", "`Patient`.active", "`active`"} -> VF(<<B(TRUE)>>, TRUE)
    [] key \in {"Patient.gender", "gender"} -> VF(<<S(<<109, 97, 108, 101>>)>>, TRUE)
    [] key \in {"Patient.name", "name", "`Patient`.`name`"} -> VF(<<Opaque(1), Opaque(2), Opaque(3)>>, TRUE)
    [] key \in {"Patient.telecom.rank", "telecom.rank"} -> VF(<<I(1), I(2)>>, TRUE)
    [] key \in {"Patient.name.given", "name.given", "Patient.name.`given`"} ->
         VF(<<S(<<74, 111, 104, 110>>), S(<<74, 97, 99, 111, 98>>), S(<<74, 111, 104, 110, 110, 121>>),
              S(<<74, 111, 104, 110>>), S(<<74, 97, 99, 111, 98>>)>>, TRUE)

(* identifiers that name a resource type: at the start of a path they     *)
(* filter by type (the implementation's rule, FPSyntax/DESIGN.md App. D:   *)
(* the first such identifier seen by one visitor; right operands and index *)
(* expressions get a fresh visitor, function ARGUMENTS share the visitor   *)
(* of the enclosing expression).  In argument position the property's      *)
(* reading is left open (Permitted = filter semantics or InvalidField), so *)
(* the evaluator does not give a value there.                              *)
ResourceTypeNames == {"Patient", "Observation", "`Patient`"}
RECURSIVE MentionsRootType(_), AnyMentions(_, _)
AnyMentions(args, j) == j <= Len(args) /\ (MentionsRootType(args[j]) \/ AnyMentions(args, j + 1))
MentionsRootType(t) ==
  CASE t.k = "id" -> t.name \in ResourceTypeNames
    [] t.k \in {"lit", "dollar", "var"} -> FALSE
    [] t.k = "fn"   -> AnyMentions(t.args, 1)
    [] t.k = "inv"  -> MentionsRootType(t.e) \/ MentionsRootType(t.m)
    [] t.k = "idx"  -> MentionsRootType(t.e) \/ MentionsRootType(t.i)
    [] t.k \in {"pol", "type"} -> MentionsRootType(t.e)
    [] t.k = "bin"  -> MentionsRootType(t.l) \/ MentionsRootType(t.r)

RECURSIVE IsPurePath(_), PathKey(_)
IsPurePath(t) == \/ t.k = "id"
                 \/ (t.k = "inv" /\ t.m.k = "id" /\ IsPurePath(t.e))
PathKey(t) == IF t.k = "id" THEN t.name ELSE PathKey(t.e) \o "." \o t.m.name

Small(x) == x > -30000 /\ x < 30000
Abs(x) == IF x < 0 THEN -x ELSE x
TruncDiv(a, b) == LET q == Abs(a) \div Abs(b) IN IF (a < 0) # (b < 0) THEN -q ELSE q
TruncMod(a, b) == a - b * TruncDiv(a, b)

RECURSIVE DigitsCP(_), StripZeros(_, _), LimbsOf(_)
DigitsCP(n) == IF n < 10 THEN <<48 + n>> ELSE DigitsCP(n \div 10) \o <<48 + (n % 10)>>
IntCP(n) == IF n < 0 THEN <<45>> \o DigitsCP(-n) ELSE DigitsCP(n)
StripZeros(n, e) == IF n % 10 = 0 THEN StripZeros(n \div 10, e + 1) ELSE <<n, e>>
LimbsOf(n) == IF n < 10000 THEN <<n>> ELSE <<n % 10000>> \o LimbsOf(n \div 10000)
DecOfInt(q) == IF q = 0 THEN [t |-> "d", neg |-> FALSE, m |-> <<>>, e |-> 0]
               ELSE LET s == StripZeros(Abs(q), 0)
                    IN [t |-> "d", neg |-> q < 0, m |-> LimbsOf(s[1]), e |-> s[2]]

K3Items(v) == IF v = "E" THEN <<>> ELSE <<B(v = "T")>>
Truth(items) == L3!Singleton3(items)      \* "T", "F", "E" or "ERR" (opaque items count as non-Boolean)

IsSub(u, s) == \E j \in 0..(Len(s) - Len(u)) : SubSeq(s, j + 1, j + Len(u)) = u

Single(a) == Len(a.items) = 1
AtMostOne(a) == Len(a.items) <= 1
Kind1(a) == a.items[1].t

SysTypeName(it) == CASE it.t = "b" -> "Boolean" [] it.t = "i" -> "Integer" [] it.t = "s" -> "String"
                     [] it.t = "di" -> "Decimal" [] OTHER -> "?"
KnownTypeSpecs == {<<"Integer">>, <<"Boolean">>, <<"String">>, <<"Decimal">>,
                   <<"System", "Integer">>, <<"System", "Boolean">>, <<"System", "String">>, <<"System", "Decimal">>}
TypeSpecName(ty) == ty[Len(ty)]

(* numbers: Integer items and Decimal items with an integral value, kept    *)
(* internally as [t |-> "di", i] (the canonical Decimal item is produced    *)
(* when an observation is compared)                                         *)
DI(x) == [t |-> "di", i |-> x]
IsNum(it) == it.t \in {"i", "di"}
Arith(op, a, b) ==
  IF ~AtMostOne(a) \/ ~AtMostOne(b) THEN NA
  ELSE IF Len(a.items) = 0 \/ Len(b.items) = 0
       THEN (IF (Len(a.items) = 0 \/ Kind1(a) \in {"i", "di", "s"}) /\ (Len(b.items) = 0 \/ Kind1(b) \in {"i", "di", "s"})
             THEN (IF op \in {"div", "mod", "/"} /\ Len(b.items) = 1 /\ IsNum(b.items[1]) /\ b.items[1].i = 0 THEN DZ ELSE V(<<>>))
             ELSE NA)
  ELSE IF Kind1(a) = "s" /\ Kind1(b) = "s" /\ op = "+" THEN V(<<S(a.items[1].cp \o b.items[1].cp)>>)
  ELSE IF ~IsNum(a.items[1]) \/ ~IsNum(b.items[1]) THEN NA
  ELSE LET x == a.items[1].i
           y == b.items[1].i
           dec == Kind1(a) = "di" \/ Kind1(b) = "di"
           R(v) == IF ~Small(v) THEN NA ELSE IF dec THEN V(<<DI(v)>>) ELSE V(<<I(v)>>)
       IN IF ~Small(x) \/ ~Small(y) THEN NA
          ELSE CASE op = "+" -> R(x + y)
                 [] op = "-" -> R(x - y)
                 [] op = "*" -> R(x * y)
                 [] op = "div" -> IF y = 0 THEN DZ ELSE V(<<I(TruncDiv(x, y))>>)
                 [] op = "mod" -> IF y = 0 THEN DZ ELSE R(TruncMod(x, y))
                 [] op = "/" -> IF y = 0 THEN DZ
                                ELSE IF TruncMod(x, y) = 0 THEN V(<<DI(TruncDiv(x, y))>>) ELSE NA

StrOrEmpty(a) == Len(a.items) = 0 \/ (Len(a.items) = 1 /\ Kind1(a) = "s")
StrOf(a) == IF Len(a.items) = 0 THEN <<>> ELSE a.items[1].cp
Concat(a, b) == IF StrOrEmpty(a) /\ StrOrEmpty(b) THEN V(<<S(StrOf(a) \o StrOf(b))>>) ELSE NA

RECURSIVE LexLess(_, _)
LexLess(u, v) ==      \* strict lexicographic order on code-point sequences
  IF Len(v) = 0 THEN FALSE
  ELSE IF Len(u) = 0 THEN TRUE
  ELSE IF Head(u) # Head(v) THEN Head(u) < Head(v)
  ELSE LexLess(Tail(u), Tail(v))

Cmp(op, lt, eq) == CASE op = "<" -> lt [] op = "<=" -> lt \/ eq [] op = ">" -> ~lt /\ ~eq [] op = ">=" -> ~lt

Ineq(op, a, b) ==
  LET Ord(x) == Len(x.items) = 0 \/ IsNum(x.items[1]) \/ (x.items[1].t = "s" /\ ~x.fhir)
  IN IF ~AtMostOne(a) \/ ~AtMostOne(b) \/ ~Ord(a) \/ ~Ord(b) THEN NA
     ELSE IF Len(a.items) = 0 \/ Len(b.items) = 0 THEN V(<<>>)
     ELSE IF IsNum(a.items[1]) /\ IsNum(b.items[1])
          THEN V(<<B(Cmp(op, a.items[1].i < b.items[1].i, a.items[1].i = b.items[1].i))>>)
     ELSE IF Kind1(a) = "s" /\ Kind1(b) = "s"
          THEN V(<<B(Cmp(op, LexLess(a.items[1].cp, b.items[1].cp), a.items[1].cp = b.items[1].cp))>>)
     ELSE NA

Scalar(a) == Len(a.items) = 1 /\ Kind1(a) \in {"b", "i", "di", "s"}
SameScalar(x, y) == IF IsNum(x) /\ IsNum(y) THEN x.i = y.i
                    ELSE x.t = y.t /\ (CASE x.t = "b" -> x.b = y.b [] x.t = "s" -> x.cp = y.cp [] OTHER -> FALSE)
Equal(op, a, b) ==
  IF (Len(a.items) = 0 /\ (Len(b.items) = 0 \/ Scalar(b))) \/ (Len(b.items) = 0 /\ Scalar(a)) THEN V(<<>>)
  ELSE IF ~Scalar(a) \/ ~Scalar(b) THEN NA
  ELSE LET e == SameScalar(a.items[1], b.items[1]) IN V(<<B(IF op = "=" THEN e ELSE ~e)>>)

Logic(op, a, b) ==
  LET x == Truth(a.items)
      y == Truth(b.items)
  IN IF x = "ERR" \/ y = "ERR" THEN NA ELSE V(K3Items(L3!BinOp3(op, x, y)))

TypeOp(op, a, ty) ==
  IF ty \notin KnownTypeSpecs \/ a.fhir \/ ~AtMostOne(a) THEN NA
  ELSE IF Len(a.items) = 0 THEN V(<<>>)
  ELSE IF SysTypeName(a.items[1]) = "?" THEN NA
  ELSE LET m == SysTypeName(a.items[1]) = TypeSpecName(ty)
       IN IF op = "is" THEN V(<<B(m)>>) ELSE (IF m THEN V(a.items) ELSE V(<<>>))

Negate(a) ==
  IF Len(a.items) = 0 THEN V(<<>>)
  ELSE IF Single(a) /\ Kind1(a) = "i" /\ Small(a.items[1].i) THEN V(<<I(-(a.items[1].i))>>)
  ELSE IF Single(a) /\ Kind1(a) = "di" /\ Small(a.items[1].i) THEN V(<<DI(-(a.items[1].i))>>)
  ELSE NA

Root == [root |-> TRUE]
Focus(items, f) == [root |-> FALSE, items |-> items, fhir |-> f]

RECURSIVE Eval(_, _), MapSelect(_, _, _, _), MapTruth(_, _, _, _), ApplyFn(_, _, _, _), FilterT(_, _, _)
FilterT(items, tv, j) ==
  IF j > Len(items) THEN <<>>
  ELSE (IF tv[j] = "T" THEN <<items[j]>> ELSE <<>>) \o FilterT(items, tv, j + 1)

(* select: concatenation of the projections; "na"/"dz" if any is *)
MapSelect(arg, a, j, acc) ==
  IF j > Len(a.items) THEN V(acc)
  ELSE LET r == Eval(arg, Focus(<<a.items[j]>>, a.fhir))
       IN IF r.k # "ok" THEN r ELSE MapSelect(arg, a, j + 1, acc \o r.items)
(* truth values of a criterion per item, as a sequence of "T"/"F"/"E"; <<"X">> if not evaluable *)
MapTruth(arg, a, j, acc) ==
  IF j > Len(a.items) THEN acc
  ELSE LET r == Eval(arg, Focus(<<a.items[j]>>, a.fhir))
       IN IF r.k # "ok" \/ Truth(r.items) = "ERR" THEN <<"X">> ELSE MapTruth(arg, a, j + 1, Append(acc, Truth(r.items)))

ApplyFn(name, args, a, this) ==
  LET n == Len(args)
      items == a.items
  IN CASE name = "not" /\ n = 0 ->
            (LET v == Truth(items) IN IF v = "ERR" THEN NA ELSE V(K3Items(L3!Not3(v))))
       [] name = "empty" /\ n = 0  -> V(<<B(Len(items) = 0)>>)
       [] name = "exists" /\ n = 0 -> V(<<B(Len(items) > 0)>>)
       [] name = "count" /\ n = 0  -> V(<<I(Len(items))>>)
       [] name = "first" /\ n = 0  -> VF(IF Len(items) = 0 THEN <<>> ELSE <<items[1]>>, a.fhir)
       [] name = "last" /\ n = 0   -> VF(IF Len(items) = 0 THEN <<>> ELSE <<items[Len(items)]>>, a.fhir)
       [] name = "tail" /\ n = 0   -> VF(IF Len(items) = 0 THEN <<>> ELSE Tail(items), a.fhir)
       [] name = "abs" /\ n = 0 ->
            IF Len(items) = 0 THEN V(<<>>)
            ELSE IF Single(a) /\ ~a.fhir /\ Kind1(a) = "i" /\ Small(items[1].i) THEN V(<<I(Abs(items[1].i))>>)
            ELSE IF Single(a) /\ Kind1(a) = "di" /\ Small(items[1].i) THEN V(<<DI(Abs(items[1].i))>>) ELSE NA
       [] name = "toString" /\ n = 0 ->
            IF Len(items) = 0 THEN V(<<>>)
            ELSE IF ~Single(a) \/ a.fhir THEN NA
            ELSE IF Kind1(a) = "i" /\ Small(items[1].i) THEN V(<<S(IntCP(items[1].i))>>)
            ELSE IF Kind1(a) = "b" THEN V(<<S(IF items[1].b THEN <<116, 114, 117, 101>> ELSE <<102, 97, 108, 115, 101>>)>>)
            ELSE IF Kind1(a) = "s" THEN V(items)
            ELSE NA
       [] name = "select" /\ n = 1 -> MapSelect(args[1], a, 1, <<>>)
       [] name = "where" /\ n = 1 ->
            (LET tv == MapTruth(args[1], a, 1, <<>>)
             IN IF tv = <<"X">> THEN NA
                ELSE VF(FilterT(items, tv, 1), a.fhir))
       [] name = "exists" /\ n = 1 ->
            (LET tv == MapTruth(args[1], a, 1, <<>>)
             IN IF tv = <<"X">> THEN NA ELSE V(<<B(\E j \in 1..Len(tv) : tv[j] = "T")>>))
       [] name = "all" /\ n = 1 ->
            (LET tv == MapTruth(args[1], a, 1, <<>>)
             IN IF tv = <<"X">> THEN NA ELSE V(<<B(\A j \in 1..Len(tv) : tv[j] = "T")>>))
       [] name = "take" /\ n = 1 ->
            (LET r == Eval(args[1], Focus(items, a.fhir))
             IN IF r.k # "ok" \/ ~Single(r) \/ Kind1(r) # "i" THEN NA
                ELSE LET m == r.items[1].i
                     IN VF(IF m <= 0 THEN <<>> ELSE SubSeq(items, 1, IF m < Len(items) THEN m ELSE Len(items)), a.fhir))
       [] name = "contains" /\ n = 1 ->
            (LET r == Eval(args[1], Focus(items, a.fhir))
             IN IF r.k # "ok" \/ ~Single(r) \/ Kind1(r) # "s" \/ ~Single(a) \/ Kind1(a) # "s" \/ a.fhir THEN NA
                ELSE V(<<B(IsSub(r.items[1].cp, items[1].cp))>>))
       [] OTHER -> NA

Eval(t, this) ==
  CASE t.k = "lit" ->
         (IF t.v = "{}" THEN V(<<>>)
          ELSE IF t.v \in {"true", "false"} THEN V(<<B(t.v = "true")>>)
          ELSE IF t.v \in NumberVocab THEN V(<<I(NumVal(t.v))>>)
          ELSE IF t.v \in StringVocab THEN V(<<S(StrVal(t.v))>>)
          ELSE NA)
    [] t.k = "id" -> IF this.root /\ t.name \in PathKeys THEN PathDen(t.name)
                     (* a resource-type name is a type filter; on a focus that holds no resource it leaves nothing *)
                     ELSE IF ~this.root /\ t.name \in ResourceTypeNames THEN VF(<<>>, TRUE)
                     ELSE NA
    [] t.k = "dollar" -> IF t.name = "$this" /\ ~this.root THEN VF(this.items, this.fhir) ELSE NA
    [] t.k = "var" -> (CASE t.name = "vt" -> V(<<B(TRUE)>>) [] t.name = "vi" -> V(<<I(5)>>) [] OTHER -> NA)
    [] t.k = "pol" ->
         (LET a == Eval(t.e, this)
          IN IF a.k # "ok" THEN a ELSE IF t.op = "+" THEN a ELSE Negate(a))
    [] t.k = "bin" ->
         (LET a == Eval(t.l, this)
              b == Eval(t.r, this)
          IN IF a.k = "dz" \/ b.k = "dz" THEN DZ
             ELSE IF a.k # "ok" \/ b.k # "ok" THEN NA
             ELSE CASE t.op \in {"*", "/", "div", "mod", "+", "-"} -> Arith(t.op, a, b)
                    [] t.op = "&" -> Concat(a, b)
                    [] t.op \in IneqOps -> Ineq(t.op, a, b)
                    [] t.op \in {"=", "!="} -> Equal(t.op, a, b)
                    [] t.op \in {"and", "or", "xor", "implies"} -> Logic(t.op, a, b)
                    [] OTHER -> NA)
    [] t.k = "type" ->
         (LET a == Eval(t.e, this) IN IF a.k # "ok" THEN a ELSE TypeOp(t.op, a, t.ty))
    [] t.k = "idx" ->
         (LET a == Eval(t.e, this)
          IN IF a.k # "ok" THEN a
             ELSE LET i == Eval(t.i, Focus(a.items, a.fhir))
                  IN IF i.k # "ok" THEN i
                     ELSE IF Len(i.items) = 0 THEN V(<<>>)
                     ELSE IF ~Single(i) \/ Kind1(i) # "i" THEN NA
                     ELSE LET n == i.items[1].i
                          IN VF(IF n >= 0 /\ n < Len(a.items) THEN <<a.items[n + 1]>> ELSE <<>>, a.fhir))
    [] t.k = "inv" ->
         (IF t.m.k = "id"
          THEN (IF this.root /\ IsPurePath(t) /\ PathKey(t) \in PathKeys THEN PathDen(PathKey(t))
                ELSE LET a == Eval(t.e, this)      \* a member of nothing is nothing
                     IN IF a.k = "ok" /\ Len(a.items) = 0 /\ t.m.name \notin ResourceTypeNames THEN VF(<<>>, TRUE) ELSE NA)
          ELSE IF t.m.k = "dollar" THEN NA
          ELSE IF AnyMentions(t.m.args, 1) THEN NA
          ELSE LET a == Eval(t.e, this)
               IN IF a.k # "ok" THEN a ELSE ApplyFn(t.m.name, t.m.args, a, this))
    [] t.k = "fn" ->
         (IF AnyMentions(t.args, 1) THEN NA
          ELSE IF t.name = "iif" /\ Len(t.args) = 3
          THEN LET c == Eval(t.args[1], this)
               IN IF c.k # "ok" THEN c
                  ELSE LET v == Truth(c.items)
                       IN IF v = "ERR" THEN NA
                          ELSE IF v = "T" THEN Eval(t.args[2], this) ELSE Eval(t.args[3], this)
          ELSE NA)

(***************************************************************************)
(* What the property demands of a tree t:                                  *)
(*   "cerr"  t uses an operator fhirpath-go does not implement: both       *)
(*           renderings must be rejected by Compile;                       *)
(*   "ok"    the evaluator gives the value: every rendering, under every   *)
(*           decoration, must evaluate to it;                              *)
(*   "na"    only consistency: same compile verdict and identical outcome  *)
(*           across renderings and decorations, never a panic/timeout.     *)
(***************************************************************************)
Expected(t) ==
  IF HasUnsupported(t) THEN [k |-> "cerr"]
  ELSE LET r == Eval(t, Root) IN IF r.k = "dz" THEN NA ELSE r

DividesByZero(t) == ~HasUnsupported(t) /\ Eval(t, Root).k = "dz"

(* observed item against an evaluator item: elements are compared through  *)
(* their primitive value when the projection gives one of the same kind    *)
ItemAgrees(o, e, fhir) ==
  IF o.t = "el"
  THEN fhir /\ (e.t = "opaque" \/ o.v.t # e.t \/ ItemSame(o.v, e))
  ELSE e.t # "opaque" /\ ItemSame(o, IF e.t = "di" THEN DecOfInt(e.i) ELSE e)
ValueAgrees(out, exp) ==
  /\ out.k = "ok"
  /\ Len(out.items) = Len(exp.items)
  /\ \A j \in 1..Len(exp.items) : ItemAgrees(out.items[j], exp.items[j], exp.fhir)

(* ------------------------------------------------------------ case space *)
LeafPool == <<Lit("7"), Lit("2"), Lit("1"), Lit("true"), Lit("false"), Lit("'a'"), Lit("'b'")>>
NLeaf == Len(LeafPool)

(* unary-like constructors: prefix polarity; postfix indexer, function     *)
(* invocation, is/as                                                       *)
Unaries == <<
  [c |-> "pol",  a |-> "-",        ty |-> <<>>],
  [c |-> "pol",  a |-> "+",        ty |-> <<>>],
  [c |-> "idx",  a |-> "0",        ty |-> <<>>],
  [c |-> "idx",  a |-> "1",        ty |-> <<>>],
  [c |-> "fn",   a |-> "not",      ty |-> <<>>],
  [c |-> "fn",   a |-> "abs",      ty |-> <<>>],
  [c |-> "fn",   a |-> "toString", ty |-> <<>>],
  [c |-> "fn",   a |-> "count",    ty |-> <<>>],
  [c |-> "fn",   a |-> "first",    ty |-> <<>>],
  [c |-> "fn",   a |-> "empty",    ty |-> <<>>],
  [c |-> "fn",   a |-> "exists",   ty |-> <<>>],
  [c |-> "sel",  a |-> "+",        ty |-> <<>>],
  [c |-> "type", a |-> "is",       ty |-> <<"Integer">>],
  [c |-> "type", a |-> "is",       ty |-> <<"Boolean">>],
  [c |-> "type", a |-> "is",       ty |-> <<"System", "String">>],
  [c |-> "type", a |-> "as",       ty |-> <<"Integer">>],
  [c |-> "type", a |-> "as",       ty |-> <<"System", "Boolean">>] >>
NUn == Len(Unaries)
ApplyU(u, e) ==
  CASE u.c = "pol"  -> Pol(u.a, e)
    [] u.c = "idx"  -> Idx(e, Lit(u.a))
    [] u.c = "fn"   -> Inv(e, Fn(u.a, <<>>))
    [] u.c = "sel"  -> Inv(e, Fn("select", <<Bin(u.a, Dollar("$this"), Lit("1"))>>))
    [] u.c = "type" -> Ty(u.a, e, u.ty)
IsPrefixU(u) == u.c = "pol"

(* binary operators combined with the unary-like constructors and used in  *)
(* argument positions: at least one per level                              *)
UbOps == {"*", "div", "+", "-", "&", "|", "<", ">=", "=", "!=", "~", "in", "and", "or", "xor", "implies"}

(* root-type identifiers: paths of MR1 that start with the resource type   *)
PActive == Inv(Id("Patient"), Id("active"))
PGender == Inv(Id("Patient"), Id("gender"))
PCount  == Inv(Inv(Id("Patient"), Id("name")), Fn("count", <<>>))
PRank   == Inv(Inv(Inv(Id("Patient"), Id("telecom")), Id("rank")), Fn("first", <<>>))
PRanks  == Inv(Inv(Id("Patient"), Id("telecom")), Id("rank"))
PNoName == Inv(Inv(Id("Patient"), Id("name")), Fn("empty", <<>>))
RootPool == <<PActive, PNoName, PCount, PRank, PGender, Lit("true"), Lit("3"), Lit("'male'")>>
NRoot == 5    \* the first NRoot entries of RootPool are root-type paths

(* argument / delimited contexts for an inner expression x *)
NArgCtx == 8
ArgCtx(c, x) ==
  CASE c = 1 -> Idx(Lit("7"), x)
    [] c = 2 -> Fn("iif", <<x, Lit("1"), Lit("2")>>)
    [] c = 3 -> Fn("iif", <<Lit("true"), x, Lit("2")>>)
    [] c = 4 -> Fn("iif", <<Lit("false"), Lit("1"), x>>)
    [] c = 5 -> Inv(Lit("7"), Fn("select", <<x>>))
    [] c = 6 -> Inv(Lit("7"), Fn("where", <<x>>))
    [] c = 7 -> Inv(Lit("'ab'"), Fn("contains", <<x>>))
    [] c = 8 -> Inv(Lit("2"), Fn("all", <<x>>))
ArgLeaves == <<Lit("7"), Lit("2"), Lit("1"), Lit("true"), Lit("false"), Lit("'a'"), Lit("'b'"), Dollar("$this"), Lit("0")>>

(* hand-picked trees: terms, keyword-named functions, two-token literals,  *)
(* environment variables, unsupported $-variables, root types in argument  *)
(* position (the visitor shares its root flag with argument visitors)      *)
PName == Inv(Id("Patient"), Id("name"))
MiscTrees == <<
  Lit("7"), Lit("true"), Lit("'a'"), Lit("{}"), Var("vt"), Var("vi"), Dollar("$this"), Dollar("$index"), Dollar("$total"),
  Id("Patient"), Id("active"), PActive, PGender, PCount, PRank, PName,
  Bin("and", Lit("{}"), Lit("false")), Bin("or", Lit("{}"), Lit("true")), Bin("implies", Lit("{}"), Lit("true")),
  Bin("=", Lit("{}"), Lit("{}")), Bin("&", Lit("{}"), Lit("'a'")), Pol("-", Lit("{}")), Ty("is", Lit("{}"), <<"Integer">>),
  Bin("+", Var("vi"), Lit("1")), Bin("and", Var("vt"), Lit("false")), Pol("-", Var("vi")), Inv(Var("vt"), Fn("not", <<>>)),
  Inv(Lit("'ab'"), Fn("contains", <<Lit("'b'")>>)),
  Bin("and", Inv(Lit("'ab'"), Fn("contains", <<Lit("'b'")>>)), Lit("true")),
  Bin("contains", Lit("'ab'"), Lit("'b'")),
  Inv(PName, Fn("select", <<Dollar("$index")>>)), Inv(PName, Fn("select", <<Dollar("$total")>>)),
  Inv(PName, Fn("select", <<Bin("+", Dollar("$index"), Lit("1"))>>)),
  Inv(PName, Fn("exists", <<PActive>>)), Inv(PName, Fn("select", <<PActive>>)), Inv(PName, Fn("where", <<PActive>>)),
  Inv(PName, Fn("intersect", <<PName>>)), Inv(PName, Fn("all", <<Bin("and", PActive, Lit("true"))>>)),
  Fn("iif", <<PActive, Lit("1"), Lit("2")>>), Fn("iif", <<PActive, PCount, Lit("2")>>),
  Fn("iif", <<Bin("and", PActive, PActive), PCount, PRank>>),
  Inv(Lit("1"), Fn("select", <<PActive>>)), Inv(Lit("1"), Fn("select", <<PCount>>)),
  Idx(PName, PCount), Idx(PName, Bin("-", PCount, Lit("3"))), Idx(Inv(PName, Id("given")), Lit("1")),
  Inv(Idx(PName, Lit("0")), Id("given")), Inv(Inv(PName, Fn("first", <<>>)), Id("given")),
  Inv(Inv(PName, Id("given")), Fn("count", <<>>)), Idx(Inv(Idx(PName, Lit("1")), Id("given")), Lit("0")),
  Bin("=", Inv(Inv(PName, Id("given")), Fn("count", <<>>)), Lit("5")),
  Inv(Inv(PName, Fn("where", <<Bin("=", Inv(Id("given"), Fn("count", <<>>)), Lit("2"))>>)), Fn("count", <<>>)),
  Inv(PName, Fn("exists", <<Bin("and", Bin("=", Inv(Id("given"), Fn("count", <<>>)), Lit("1")), Lit("true"))>>)),
  Bin("and", Id("active"), Id("active")), Bin("=", Id("gender"), Lit("'male'")),
  Inv(Id("name"), Fn("count", <<>>)), Bin("+", Inv(Id("name"), Fn("count", <<>>)), Lit("1")),
  Ty("is", Id("Patient"), <<"Patient">>), Ty("is", PActive, <<"Boolean">>), Ty("is", PActive, <<"FHIR", "boolean">>),
  Bin("and", Ty("is", Id("Patient"), <<"Patient">>), PActive),
  Inv(Id("Patient"), Id("`active`")), Inv(Id("`Patient`"), Id("active")), Id("`active`"),
  Bin("and", Inv(Id("`Patient`"), Id("active")), Inv(Id("Patient"), Id("`active`"))),
  Inv(Inv(Id("`Patient`"), Id("`name`")), Fn("count", <<>>)), Inv(Inv(PName, Id("`given`")), Fn("count", <<>>)),
  Pol("-", Idx(PRanks, Lit("1"))), Pol("-", Inv(PRanks, Fn("first", <<>>))), Pol("-", Inv(PRanks, Fn("count", <<>>))),
  Pol("+", Idx(PRanks, Lit("0"))), Bin("*", Pol("-", Idx(PRanks, Lit("1"))), Lit("2")), Idx(Inv(PRanks, Fn("tail", <<>>)), Lit("0")),
  Ty("is", Idx(Inv(PName, Id("given")), Lit("4")), <<"FHIR", "string">>), Inv(Idx(PRanks, Lit("1")), Fn("toString", <<>>)),
  Bin("+", Idx(PRanks, Lit("0")), Idx(PRanks, Lit("1"))), Bin("<", Idx(PRanks, Lit("0")), Idx(PRanks, Lit("1"))),
  (* string literals that contain what would be white space or a comment between tokens: the renderings and every gap *)
  (* decoration must leave the inside of the quotes alone                                                             *)
  Lit("'a  b'"), Lit("'x // y'"), Lit("'/* z */'"), Lit("' b '"), Lit("'a b'"), Bin("=", Lit("'a  b'"), Lit("'a b'")),
  Inv(Lit("'a b'"), Fn("contains", <<Lit("' b '")>>)), Bin("&", Lit("'a b'"), Lit("'x // y'")),
  Bin("&", Lit("'a  b'"), Lit("'x // y'")), Bin("&", Lit("'/* z */'"), Lit("' b '")), Bin("=", Lit("'a  b'"), Lit("'ab'")),
  Inv(Lit("'a  b'"), Fn("contains", <<Lit("' b '")>>)), Inv(Lit("'x // y'"), Fn("contains", <<Lit("'/* z */'")>>)),
  Inv(Lit("'/* z */'"), Fn("contains", <<Lit("'b'")>>)), Bin("and", Bin("=", Lit("'x // y'"), Lit("'x // y'")), Lit("true")),
  Inv(PName, Fn("select", <<Lit("'a  b'")>>)), Fn("iif", <<PActive, Lit("'x // y'"), Lit("'/* z */'")>>),
  Pol("-", Pol("-", Lit("7"))), Pol("-", Pol("+", Pol("-", Lit("7")))), Bin("-", Lit("7"), Pol("-", Lit("2"))),
  Bin("-", Pol("-", Lit("7")), Pol("-", Pol("-", Lit("2")))),
  Bin("/", Lit("6"), Lit("3")), Bin("/", Bin("/", Lit("12"), Lit("2")), Lit("3")), Bin("/", Lit("12"), Bin("/", Lit("6"), Lit("3"))),
  Bin("*", Bin("/", Lit("6"), Lit("3")), Lit("2")), Bin("/", Lit("6"), Bin("*", Lit("3"), Lit("2"))),
  (* number literals at and beyond the Integer range under a sign: whatever Compile says of one rendering it must say of *)
  (* the other (a sign folded into an adjacent literal must also be folded through parentheses, or not at all)          *)
  Lit("2147483648"), Pol("-", Lit("2147483648")), Pol("+", Lit("2147483648")), Pol("-", Pol("-", Lit("2147483648"))),
  Bin("-", Lit("0"), Lit("2147483648")), Bin("+", Pol("-", Lit("2147483648")), Lit("1")), Pol("-", Lit("2147483647")),
  Pol("-", Lit("99999999999")), Pol("-", Lit("0.5")), Pol("-", Lit("0")), Bin("=", Pol("-", Lit("0")), Lit("0")),
  Inv(Pol("-", Lit("2147483648")), Fn("toString", <<>>)), Idx(Pol("-", Lit("2147483648")), Lit("0")),
  (* path steps spelled like words of the grammar (operators, literals; `as` `contains` `in` `is` are the  *)
  (* four the grammar admits as identifiers): whatever Compile says of the gapless spelling it must say of every other     *)
  Inv(PName, Id("div")), Inv(PName, Id("mod")), Inv(PName, Id("and")), Inv(PName, Id("or")), Inv(PName, Id("xor")),
  Inv(PName, Id("implies")), Inv(PName, Id("true")), Inv(PName, Id("false")), 
  Inv(PName, Id("is")), Inv(PName, Id("as")), Inv(PName, Id("in")), Inv(PName, Id("contains")),
  Inv(Inv(PName, Id("div")), Id("given")), Inv(Id("Patient"), Id("mod")), Bin("=", Inv(PName, Id("div")), Lit("1"))
>>

(* A member step spelled like a word of the grammar.  Such a source is not a sentence of the specification's own grammar *)
(* (the re-parsing laws do not speak of it); what is demanded of it is consistency across spellings only.                 *)
GrammarWords == {"div", "mod", "and", "or", "xor", "implies", "true", "false", "is", "as", "in", "contains"}
RECURSIVE HasKeywordStep(_)
HasKeywordStep(t) ==
  CASE t.k = "inv"  -> (t.m.k = "id" /\ t.m.name \in GrammarWords) \/ HasKeywordStep(t.e)
    [] t.k = "bin"  -> HasKeywordStep(t.l) \/ HasKeywordStep(t.r)
    [] t.k \in {"pol", "type"} -> HasKeywordStep(t.e)
    [] t.k = "idx"  -> HasKeywordStep(t.e) \/ HasKeywordStep(t.i)
    [] OTHER -> FALSE

(* Shapes: the unit the generator explores.  Every shape yields candidate  *)
(* trees over all leaf assignments; the generator keeps the K best under a *)
(* seeded order that prefers DISTINGUISHING assignments (the tree and its  *)
(* twin - the other tree with the same unparenthesised token sequence -    *)
(* evaluate differently, so a mis-association changes the outcome).        *)
Shapes ==
  {[s |-> "bb", x |-> x, y |-> y, u |-> 0, v |-> 0] : x \in BinOps, y \in BinOps}
  \cup {[s |-> "ub", x |-> op, y |-> "", u |-> u, v |-> 0] : op \in UbOps, u \in 1..NUn}
  \cup {[s |-> "uu", x |-> "", y |-> "", u |-> u, v |-> v] : u \in 1..NUn, v \in 1..NUn}
  \cup {[s |-> "arg", x |-> op, y |-> "", u |-> c, v |-> 0] : op \in UbOps, c \in 1..NArgCtx}
  \cup {[s |-> "argu", x |-> "", y |-> "", u |-> c, v |-> v] : c \in 1..NArgCtx, v \in 1..NUn}
  \cup {[s |-> "rb", x |-> op, y |-> "", u |-> 0, v |-> 0] : op \in BinOps}
  \cup {[s |-> "rbb", x |-> x, y |-> y, u |-> 0, v |-> 0] : x \in UbOps, y \in UbOps}
  \cup {[s |-> "ru", x |-> "", y |-> "", u |-> u, v |-> 0] : u \in 1..NUn}
  \cup {[s |-> "misc", x |-> "", y |-> "", u |-> n, v |-> 0] : n \in 1..Len(MiscTrees)}

(* a candidate: trees emitted together, their rank (position of the leaf  *)
(* assignment) and class (0 best): 0 = twins both evaluable and different, *)
(* 1 = one of them evaluable and different, 2 = not distinguishing         *)
DistClass(a, b) ==
  LET ea == Expected(a)
      eb == Expected(b)
  IN IF ea = eb THEN 2 ELSE IF ea.k = "ok" /\ eb.k = "ok" THEN 0 ELSE IF ea.k = "ok" \/ eb.k = "ok" THEN 1 ELSE 2
OkClass(a) == IF Expected(a).k = "ok" THEN 0 ELSE 2

Cand(trees, rank, class) == [trees |-> trees, rank |-> rank, class |-> class]

Candidates(sh) ==
  CASE sh.s = "bb" ->
         {LET a == LeafPool[i]
              b == LeafPool[j]
              c == LeafPool[m]
              l == Bin(sh.y, Bin(sh.x, a, b), c)     \* a x b y c  read as (a x b) y c
              r == Bin(sh.x, a, Bin(sh.y, b, c))     \* a x b y c  read as a x (b y c)
          IN Cand({l, r}, (i - 1) * NLeaf * NLeaf + (j - 1) * NLeaf + (m - 1), DistClass(l, r))
          : i \in 1..NLeaf, j \in 1..NLeaf, m \in 1..NLeaf}
    [] sh.s = "ub" ->
         {LET a == LeafPool[i]
              b == LeafPool[j]
              u == Unaries[sh.u]
              whole == ApplyU(u, Bin(sh.x, a, b))
              onL == Bin(sh.x, ApplyU(u, a), b)
              onR == Bin(sh.x, a, ApplyU(u, b))
              twin == IF IsPrefixU(u) THEN onL ELSE onR
          IN Cand({whole, onL, onR}, (i - 1) * NLeaf + (j - 1), DistClass(whole, twin))
          : i \in 1..NLeaf, j \in 1..NLeaf}
    [] sh.s = "uu" ->
         {LET a == LeafPool[i]
              p == ApplyU(Unaries[sh.u], ApplyU(Unaries[sh.v], a))
              q == ApplyU(Unaries[sh.v], ApplyU(Unaries[sh.u], a))
          IN Cand({p, q}, i - 1, IF IsPrefixU(Unaries[sh.u]) # IsPrefixU(Unaries[sh.v]) THEN DistClass(p, q) ELSE OkClass(p))
          : i \in 1..NLeaf}
    [] sh.s = "arg" ->
         {LET x == Bin(sh.x, ArgLeaves[i], ArgLeaves[j])
              t == ArgCtx(sh.u, x)
          IN Cand({t}, (i - 1) * Len(ArgLeaves) + (j - 1), OkClass(t))
          : i \in 1..Len(ArgLeaves), j \in 1..Len(ArgLeaves)}
    [] sh.s = "argu" ->
         {LET t == ArgCtx(sh.u, ApplyU(Unaries[sh.v], ArgLeaves[i]))
          IN Cand({t}, i - 1, OkClass(t))
          : i \in 1..Len(ArgLeaves)}
    [] sh.s = "rb" ->
         {LET t == Bin(sh.x, RootPool[i], RootPool[j])
          IN Cand({t}, (i - 1) * Len(RootPool) + (j - 1),
                  IF Expected(t).k # "ok" THEN 2 ELSE IF i <= NRoot /\ j <= NRoot THEN 0 ELSE 1)
          : i \in 1..Len(RootPool), j \in 1..Len(RootPool)}
    [] sh.s = "rbb" ->
         {LET a == RootPool[i]
              b == RootPool[j]
              c == RootPool[m]
              l == Bin(sh.y, Bin(sh.x, a, b), c)
              r == Bin(sh.x, a, Bin(sh.y, b, c))
          IN Cand({l, r}, (i - 1) * NRoot * NRoot + (j - 1) * NRoot + (m - 1), DistClass(l, r))
          : i \in 1..NRoot, j \in 1..NRoot, m \in 1..NRoot}
    [] sh.s = "ru" ->
         {Cand({ApplyU(Unaries[sh.u], RootPool[i])}, i - 1, OkClass(ApplyU(Unaries[sh.u], RootPool[i]))) : i \in 1..NRoot}
    [] sh.s = "misc" -> {Cand({MiscTrees[sh.u]}, 0, 0)}

(* "rb" candidates must mention a root-type path *)
RootCandidates(sh) == {c \in Candidates(sh) : sh.s # "rb" \/ (c.rank \div Len(RootPool)) < NRoot \/ (c.rank % Len(RootPool)) < NRoot}

(* seeded order: class first, then a seed-dependent permutation of ranks *)
SortKey(c, seed, modulus) == c.class * 100000 + ((c.rank * 101 + seed * 37) % modulus)

RECURSIVE TakeSmallest(_, _, _, _)
TakeSmallest(Cs, k, seed, modulus) ==
  IF k = 0 \/ Cs = {} THEN {}
  ELSE LET m == CHOOSE c \in Cs : \A d \in Cs : SortKey(c, seed, modulus) <= SortKey(d, seed, modulus)
       IN {m} \cup TakeSmallest(Cs \ {m}, k - 1, seed, modulus)

(* a prime larger than every rank space and coprime with 101 *)
RankModulus == 1009

Chosen(sh, k, seed) ==
  LET all == RootCandidates(sh)
      good == {c \in all : c.class < 2}
  IN IF good = {} THEN TakeSmallest(all, 1, seed, RankModulus) ELSE TakeSmallest(good, k, seed, RankModulus)

ShapeName(sh) == sh.s \o ":" \o sh.x \o ":" \o sh.y \o ":" \o ToString(sh.u) \o ":" \o ToString(sh.v)

CaseOf(t, cls, dist) ==
  [ast |-> t, tokensMin |-> RenderMin(t), tokensFull |-> RenderFull(t),
   gapsMin |-> Gaps(RenderMin(t)), gapsFull |-> Gaps(RenderFull(t)),
   expectKind |-> Expected(t).k, depth |-> Depth(t), cls |-> cls, dist |-> dist]

CasesOfShape(sh, k, seed) ==
  UNION {{CaseOf(t, ShapeName(sh), c.class < 2) : t \in {x \in c.trees : ~DividesByZero(x)}} : c \in Chosen(sh, k, seed)}
=============================================================================
