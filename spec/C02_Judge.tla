------------------------------ MODULE C02_Judge ------------------------------
(***************************************************************************)
(* Judge for C02.  Observation: [id, ti, kind, steps, src, out].           *)
(* The expected collection is recomputed here by Nav on the tree the       *)
(* resource was rendered to; element items are compared by address (input  *)
(* nodes) or content hash (elements of contained resources, synthesised    *)
(* reference strings), primitive values by value.                          *)
(***************************************************************************)
EXTENDS C02

Obs == ndJsonDeserialize(ObsFile)
N == Len(Obs)
W == 16

(* one observed item against one expected item of tree ti *)
ItemMatches(ti, obs, exp) ==
  IF exp.t = "el" THEN
     LET nd == NodeAt(TreeOf(ti), exp.addr) IN
     /\ obs.t = "el"
     /\ ~obs.wrapped
     /\ IF obs.r # 0 THEN obs.r = 1 /\ obs.addr = exp.addr
        ELSE obs.h = nd.h
  ELSE \* a System value from `.value`
     \/ ItemSame(obs, exp)
     \/ (IsTemporalValue(exp) /\ obs.t = "s" /\ \E q \in 1..Len(obs.tvs) : ItemSame(obs.tvs[q], exp))

SeqMatches(ti, obs, exp) == Len(obs) = Len(exp) /\ \A j \in 1..Len(exp) : ItemMatches(ti, obs[j], exp[j])

IsInvalidField(out) == out.k \in {"err", "cerr"} /\ \E j \in 1..Len(out.cls) : out.cls[j] = "InvalidField"

NoValueUrl == "https://g.co/fhir/StructureDefinition/primitiveHasNoValue"
What(ti, out, e) ==
  IF IsFailure(out) THEN out.k
  ELSE IF e.k = "err" THEN "want-InvalidField-got-" \o KindOf(out)
  ELSE IF out.k # "ok" THEN "got-" \o out.k
  ELSE IF \E j \in 1..Len(out.items) : out.items[j].t = "el" /\ out.items[j].xurl = NoValueUrl THEN "leaks-primitiveHasNoValue-extension"
  ELSE IF Len(out.items) # Len(e.items) THEN "count-" \o (IF Len(out.items) > Len(e.items) THEN "more" ELSE "fewer")
  ELSE IF \E j \in 1..Len(e.items) : out.items[j].t = "el" /\ out.items[j].wrapped THEN "choice-still-wrapped"
  ELSE IF \E j \in 1..Len(e.items) : e.items[j].t # "el" THEN "wrong-value"
  ELSE "wrong-node"

(* The last element name written in another letter case (observed by the harness for path cases): unless that spelling is *)
(* itself an element of the type of some focus item, it is not an element of the type and must fail with ErrInvalidField.  *)
VariantOk(o, v) ==
  LET pf == Nav(ForestOf(o.ti), SchOf(o.ti), SubSeq(o.steps, 1, Len(o.steps) - 1)) IN
  IF pf.k # "ok" \/ Len(pf.items) = 0 THEN TRUE
  ELSE IF \E j \in 1..Len(pf.items) : v.name \in ValidNames(SchOf(o.ti), NodeAt(TreeOf(o.ti), pf.items[j].addr)) THEN TRUE
  ELSE IsInvalidField(v.out)
VariantsOk(o) == Has(o, "variants") => \A q \in 1..Len(o.variants) : VariantOk(o, o.variants[q])
BadVariant(o) == LET q == CHOOSE q \in 1..Len(o.variants) : ~VariantOk(o, o.variants[q]) IN o.variants[q]

Verdict(o) ==
  LET e == Expected(o)
      good0 == /\ ~IsFailure(o.out)
               /\ CASE e.k = "any" -> TRUE
                    [] e.k = "err" -> IsInvalidField(o.out)
                    [] e.k = "ok"  -> o.out.k = "ok" /\ SeqMatches(o.ti, o.out.items, e.items)
      good == good0 /\ VariantsOk(o)
  IN [id |-> o.id, ok |-> good,
      sig |-> IF good THEN "" ELSE IF good0 THEN "nav|name-in-other-letter-case-accepted|" \o PathName(o) \o "|" \o BadVariant(o).name \o "|got-" \o BadVariant(o).out.k
              ELSE "nav|" \o o.kind \o "|" \o PathName(o) \o "|" \o What(o.ti, o.out, e),
      want |-> IF e.k = "ok" THEN [k |-> "ok", n |-> Len(e.items)] ELSE [k |-> e.k, n |-> 0]]

VARIABLE i
Init == i \in 1..(IF N < W THEN N ELSE W) /\ PrintT(ToJson(Verdict(Obs[i])))
Next == i + W <= N /\ i' = i + W /\ PrintT(ToJson(Verdict(Obs[i'])))
Spec == Init /\ [][Next]_i
=============================================================================
