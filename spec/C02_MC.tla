------------------------------- MODULE C02_MC -------------------------------
(***************************************************************************)
(* The navigation machine walks every tree: a state is (tree, name path,   *)
(* focus), a step descends by one element name that occurs under the       *)
(* focus.  Role 1: at every state the step-wise navigation agrees with the *)
(* independent characterisation "all nodes, in document order, whose name  *)
(* path is this path", and every focus node is denoted by its fully        *)
(* indexed path.  Role 2: cases are emitted at every state.                *)
(***************************************************************************)
EXTENDS C02

VARIABLES ti, path, foc      \* foc: sequence of addresses in tree ti
vars == <<ti, path, foc>>

Tree == TreeOf(ti)
Nodes(f) == [j \in 1..Len(f) |-> NodeAt(Tree, f[j])]

NamesUnder(f) == UNION {{NodeAt(Tree, f[j]).ch[q].n : q \in 1..Len(NodeAt(Tree, f[j]).ch)} : j \in 1..Len(f)}

Case(t, kind, steps) == [id |-> ToString(t) \o "/" \o kind \o "/" \o PathText(steps), ti |-> t, kind |-> kind, steps |-> steps, text |-> PathText(steps)]
Emit(c) == PrintT(ToJson(c))

Picks(n) == {0, 1, n - 1, n, n + 1} \cap 0..(n + 1)

(* schema names of the focus' type that no focus node populates (expected: empty) *)
AbsentNames(t, f) ==
  IF Len(f) = 0 THEN {}
  ELSE LET nd == NodeAt(TreeOf(t), f[1])
           valid == ValidNames(SchOf(t), nd)
           present == UNION {{NodeAt(TreeOf(t), f[j]).ch[q].n : q \in 1..Len(NodeAt(TreeOf(t), f[j]).ch)} : j \in 1..Len(f)}
           homogeneous == \A j \in 1..Len(f) : NodeAt(TreeOf(t), f[j]).pn = nd.pn
       IN IF homogeneous /\ nd.k # "prim" THEN valid \ present ELSE {}

HeteroNames(t, f) ==
  LET nds == [j \in 1..Len(f) |-> NodeAt(TreeOf(t), f[j])]
      names == UNION {ValidNames(SchOf(t), nds[j]) : j \in 1..Len(f)}
  IN {nm \in names : \E j \in 1..Len(f) : nm \notin ValidNames(SchOf(t), nds[j])}

EmitState(t, p, f) ==
  LET base == PathSteps(t, p)
      n == Len(f)
      allPrim == n > 0 /\ \A j \in 1..n : NodeAt(TreeOf(t), f[j]).k = "prim"
      sample == {1, n} \cap 1..n
  IN /\ Emit(Case(t, "path", base))
     /\ \A i \in Picks(n) : Emit(Case(t, "idx", Append(base, Idx(i))))
     /\ \A j \in sample : Emit(Case(t, "node", NodeSteps(t, f[j])))
     /\ (allPrim => Emit(Case(t, "value", Append(base, Field("value")))))
     /\ (n > 0 => Emit(Case(t, "badname", Append(base, Field("zzNoSuchElement")))))
     \* the names under which google/fhir STORES a date/time primitive are no elements of it - on a time as little as on a date
     /\ (allPrim /\ (\E j \in 1..n : NodeAt(TreeOf(t), f[j]).ty \in {"date", "dateTime", "instant", "time"})
           => \A nm \in {"valueUs", "precision", "timezone"} : Emit(Case(t, "badname", Append(base, Field(nm)))))
     /\ \A nm \in AbsentNames(t, f) : Emit(Case(t, "absent", Append(base, Field(nm))))
     \* a focus of several types (resources in a Bundle, contained resources): a name that only some of the types have is an error
     /\ \A nm \in HeteroNames(t, f) : Emit(Case(t, "hetero", Append(base, Field(nm))))
     /\ (Len(p) = 0 =>
           /\ Emit(Case(t, "mismatch", <<Root(IF TreeOf(t).ty = "Patient" THEN "Observation" ELSE "Patient"), Field("id")>>))
           /\ Emit(Case(t, "mismatch", <<Root(IF TreeOf(t).ty = "Patient" THEN "Observation" ELSE "Patient")>>)))

Init == ti \in 1..NT /\ path = <<>> /\ foc = << <<>> >> /\ EmitState(ti, <<>>, << <<>> >>)

Descend(name) ==
  LET r == FieldStep(ForestOf(ti), SchOf(ti), [j \in 1..Len(foc) |-> Ref(1, foc[j])], name)
      f2 == [j \in 1..Len(r.items) |-> r.items[j].addr]
  IN /\ r.k = "ok"
     /\ path' = Append(path, name) /\ foc' = f2 /\ ti' = ti
     /\ EmitState(ti, Append(path, name), f2)

(* primitives are leaves of the walk (their id/extension children are reached through the badname-free "path" cases of the parent) *)
Next == \E name \in NamesUnder(foc) : Descend(name)
Spec == Init /\ [][Next]_vars

(******************************** laws ************************************)
AddrsOf(r) == [j \in 1..Len(r.items) |-> r.items[j].addr]

LawMatchesDocumentOrder ==
  LET r == Nav(ForestOf(ti), SchOf(ti), PathSteps(ti, path))
      want == SelectSeq(Preorder(Tree, <<>>), LAMBDA a : NamePath(Tree, a) = path)
  IN r.k = "ok" /\ AddrsOf(r) = want /\ foc = want

LawNodePathDenotesNode ==
  \A j \in {1, Len(foc)} \cap 1..Len(foc) :
     LET r == Nav(ForestOf(ti), SchOf(ti), NodeSteps(ti, foc[j]))
     IN r.k = "ok" /\ AddrsOf(r) = <<foc[j]>>

LawIndexIsPositional ==
  \A i \in Picks(Len(foc)) :
     LET r == Nav(ForestOf(ti), SchOf(ti), Append(PathSteps(ti, path), Idx(i)))
     IN r.k = "ok" /\ AddrsOf(r) = (IF i < Len(foc) THEN <<foc[i + 1]>> ELSE <<>>)

LawUnknownNameIsError ==
  Len(foc) > 0 /\ (\A j \in 1..Len(foc) : NodeAt(Tree, foc[j]).k # "prim")
     => Nav(ForestOf(ti), SchOf(ti), Append(PathSteps(ti, path), Field("zzNoSuchElement"))).k = "err"
=============================================================================
