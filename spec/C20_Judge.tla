------------------------------ MODULE C20_Judge ------------------------------
(***************************************************************************)
(* Role 3: judge the observations of the real code for property C20.       *)
(* Params!ObsFile holds one record per observation (kinds beh, res,        *)
(* bundle, extval, xset, xlabel); C20Params!TreeFile holds the annotated FHIR *)
(* JSON trees the extraction records refer to by key.                      *)
(***************************************************************************)
EXTENDS C20, Json, Params, C20Params

Obs   == ndJsonDeserialize(ObsFile)
Trees == JsonDeserialize(TreeFile)
N == Len(Obs)
W == 16

Verdict(o) ==
  CASE o.kind = "beh"    -> VerdictBeh(o)
    [] o.kind = "res"    -> VerdictRes(o)
    [] o.kind = "bundle" -> VerdictBundle(o)
    [] o.kind = "extval" -> VerdictExtVal(o)
    [] o.kind = "xset"   -> IF o.tree \in DOMAIN Trees THEN VerdictXSet(o, Trees[o.tree]) ELSE V(o.id, FALSE, "malformed|no-tree", <<>>)
    [] o.kind = "xlabel" -> IF o.tree \in DOMAIN Trees THEN VerdictXLabel(o, Trees[o.tree]) ELSE V(o.id, FALSE, "malformed|no-tree", <<>>)
    [] OTHER -> V(o.id, FALSE, "malformed|kind", <<>>)

(* One initial state that does not touch the observations: TLC evaluates a  *)
(* constant like Obs afresh for every initial state (the file would be      *)
(* parsed W times) but only once for all the steps.  The first step fans    *)
(* out to W lanes so every worker is used.                                  *)
VARIABLE i
Init == i = 0
Next == \/ /\ i = 0
           /\ i' \in 1..(IF N < W THEN N ELSE W)
           /\ PrintT(ToJson(Verdict(Obs[i'])))
        \/ /\ i > 0 /\ i + W <= N
           /\ i' = i + W
           /\ PrintT(ToJson(Verdict(Obs[i'])))
Spec == Init /\ [][Next]_i
=============================================================================
