-------------------------------- MODULE C05 --------------------------------
(***************************************************************************)
(* Property C05: equality and ordering form one consistent partial order.  *)
(* Case space and oracle.  Two kinds of cases:                             *)
(*   pair : `a op b` for pool entries a, b, each supplied in one of the    *)
(*          source forms lit (literal text), env (environment variable),   *)
(*          elem (FHIR primitive element), or the empty collection;        *)
(*   coll : `%l op %r` for two collections of tokens denoting complex      *)
(*          elements of the model resources and System values, built as    *)
(*          variants of a base collection (same, equal twins, different    *)
(*          at position k, partially comparable at k, shorter, swapped).   *)
(***************************************************************************)
EXTENDS FPCompare, C05Pool

Ops == {"=", "!=", "<", "<=", ">", ">="}
NPool == Len(C05Pool)
PoolV(k) == C05Pool[k].v

(* A short class name of a value, for signatures. *)
Class(v) ==
  CASE v.t \in {"b", "i", "d", "s"} -> v.t
    [] v.t = "date" -> "date.p" \o ToString(v.p)
    [] v.t = "dt"   -> "dt.p" \o ToString(v.p) \o (IF v.tz THEN "z" ELSE "n")
    [] v.t = "time" -> "time.p" \o ToString(v.p)
    [] v.t = "q"    -> "q"
    [] OTHER        -> v.t

(******************************* pair cases *******************************)
Forms == {"lit", "env", "elem"}
(* operand: [k |-> pool index (0 = the empty collection), f |-> form] *)
OperandItems(o) == IF o.k = 0 THEN <<>> ELSE <<PoolV(o.k)>>

PairCase(op, lk, lf, rk, rf) ==
  [kind |-> "pair", op |-> op, l |-> [k |-> lk, f |-> lf], r |-> [k |-> rk, f |-> rf]]

(* which extra form combination accompanies (lit, lit) for a given pair *)
ExtraForms(a, b) == CASE (a + b) % 4 = 0 -> <<"env", "elem">>
                      [] (a + b) % 4 = 1 -> <<"elem", "env">>
                      [] (a + b) % 4 = 2 -> <<"lit", "elem">>
                      [] OTHER           -> <<"env", "lit">>

(****************************** coll cases ********************************)
(* Tokens and the items the specification declares them to denote.  For    *)
(* complex tokens h is a content class: tokens of one class have equal     *)
(* content.  The judge uses the items the harness actually built and       *)
(* checks them against these declarations.                                 *)
Cx(cls) == [t |-> "el", r |-> 0, addr |-> <<>>, h |-> cls, v |-> [t |-> "none"]]
TokItem ==
  [n1  |-> Cx("N1"),  n1c |-> Cx("N1"),  n3 |-> Cx("N1"),
   n2  |-> Cx("N2"),  n2x |-> Cx("N2x"),
   t2  |-> Cx("T2"),  t2x |-> Cx("T2x"),
   i1  |-> I(1), d1 |-> [t |-> "d", neg |-> FALSE, m |-> <<1>>, e |-> 0], i2 |-> I(2),
   s1  |-> S(<<97>>), s2 |-> S(<<98>>),
   dp  |-> [t |-> "date", p |-> 1, y |-> 2020, mo |-> 1, d |-> 1],
   dq  |-> [t |-> "date", p |-> 2, y |-> 2020, mo |-> 3, d |-> 1],
   dr  |-> [t |-> "date", p |-> 1, y |-> 2021, mo |-> 1, d |-> 1]]
Tokens == DOMAIN TokItem
Twin == [n1 |-> "n1c", n1c |-> "n3", n3 |-> "n1", n2 |-> "n2", n2x |-> "n2x", t2 |-> "t2", t2x |-> "t2x",
         i1 |-> "d1", d1 |-> "i1", i2 |-> "i2", s1 |-> "s1", s2 |-> "s2", dp |-> "dp", dq |-> "dq", dr |-> "dr"]
Differ == [n1 |-> "n2", n1c |-> "n2x", n3 |-> "t2", n2 |-> "n2x", n2x |-> "n2", t2 |-> "t2x", t2x |-> "t2",
           i1 |-> "i2", d1 |-> "i2", i2 |-> "i1", s1 |-> "s2", s2 |-> "s1", dp |-> "dr", dq |-> "dr", dr |-> "dp"]
Partial == [n1 |-> "n1", n1c |-> "n1c", n3 |-> "n3", n2 |-> "n2", n2x |-> "n2x", t2 |-> "t2", t2x |-> "t2x",
            i1 |-> "i1", d1 |-> "d1", i2 |-> "i2", s1 |-> "s1", s2 |-> "s2", dp |-> "dq", dq |-> "dp", dr |-> "dq"]

Bases == {<<>>, <<"n1">>, <<"i1">>, <<"dp">>, <<"n1", "n2">>, <<"i1", "n1">>, <<"n2", "t2", "n1">>, <<"dp", "s1", "i1">>,
          <<"n1", "n2", "t2", "i1">>, <<"dp", "n2", "i1", "n1">>, <<"n2", "n2", "n2", "n2">>, <<"s1", "dp", "n3", "t2">>}

MapSeq(f, s) == [j \in DOMAIN s |-> f[s[j]]]
At(f, s, k) == [j \in DOMAIN s |-> IF j = k THEN f[s[j]] ELSE s[j]]
Variants(b) ==
  {b, MapSeq(Twin, b)}
  \cup {At(Differ, b, k) : k \in DOMAIN b}
  \cup {At(Partial, b, k) : k \in DOMAIN b}
  \cup {At(Differ, At(Partial, b, k), j) : k \in DOMAIN b, j \in DOMAIN b}
  \cup (IF Len(b) > 0 THEN {SubSeq(b, 1, Len(b) - 1), b \o <<b[1]>>} ELSE {<<"n1">>})
  \cup (IF Len(b) > 1 THEN {<<b[2], b[1]>> \o SubSeq(b, 3, Len(b))} ELSE {})

CollCase(op, l, r) == [kind |-> "coll", op |-> op, l |-> l, r |-> r]
CollCases ==
  UNION {{CollCase(op, b, v) : op \in {"=", "!=", "<"}, v \in Variants(b)} : b \in Bases}
  \cup UNION {{CollCase(op, v, b) : op \in {"=", "!="}, v \in Variants(b)} : b \in Bases}

TokItems(s) == [j \in DOMAIN s |-> TokItem[s[j]]]

(******************************** oracle **********************************)
Permitted(c) ==
  IF c.kind = "pair" THEN PermittedCmp(c.op, OperandItems(c.l), OperandItems(c.r))
  ELSE PermittedCmp(c.op, TokItems(c.l), TokItems(c.r))

RECURSIVE JoinToks(_)
JoinToks(s) == IF Len(s) = 0 THEN "" ELSE s[1] \o (IF Len(s) > 1 THEN "," ELSE "") \o JoinToks(Tail(s))
CaseId(c) ==
  IF c.kind = "pair"
  THEN "pair/" \o c.op \o "/" \o ToString(c.l.k) \o c.l.f \o "/" \o ToString(c.r.k) \o c.r.f
  ELSE "coll/" \o c.op \o "/" \o JoinToks(c.l) \o "/" \o JoinToks(c.r)
=============================================================================
