---- MODULE C08_T ----
EXTENDS C08
ASSUME PrintT(<<"lefts", Cardinality(Lefts)>>)
ASSUME PrintT(<<"seeds", Cardinality({Un(o, a, 0) : o \in BinOps \cup UnOps, a \in Lefts})>>)
ASSUME PrintT(<<"cases", Cardinality(Cases)>>)
VARIABLE x
Init == x = 0
Next == UNCHANGED x
====
