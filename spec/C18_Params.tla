---------------------------- MODULE C18_Params ----------------------------
(* Per-run inputs of the C18 modules; checks/c18.py overwrites this file in *)
(* the scratch copy of the specification with the files the harness wrote   *)
(* (annotated trees of the model resources, schema facts).                  *)
TreesFile  == "/dev/null"
SchemaFile == "/dev/null"
=============================================================================
