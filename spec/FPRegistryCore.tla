--------------------------- MODULE FPRegistryCore ---------------------------
(***************************************************************************)
(* The PURE layer of FPRegistry: function tables, option folding for       *)
(* Compile and Evaluate, expressions, contexts and the denotation of a     *)
(* Compile call and of an Evaluate call.  It has no variables, so that the *)
(* interleaving machine (FPRegistry), the record judge (C04_Judge) and the *)
(* trace specification (C04_Trace) share one definition of every rule.     *)
(* See FPRegistry.tla for the correspondence with the implementation and   *)
(* for the list of mutants.                                                *)
(***************************************************************************)
EXTENDS Naturals, Integers, Sequences, FiniteSets, TLC

CONSTANT Mutant


BuiltinNames == {"exists", "now"}      \* the model's stand-ins for the 73 built-ins
ExperNames   == {"join"}               \* ... for the experimental table
CustomNames  == {"vfA", "vfB"}
AllNames     == BuiltinNames \cup ExperNames \cup CustomNames

(* an implementation identity: who put this entry into a table *)
Impl(src, c, k, n) == [src |-> src, c |-> c, k |-> k, n |-> n]
BaseTable  == [n \in BuiltinNames |-> Impl("base", 0, 0, n)]
ExperTable == [n \in ExperNames   |-> Impl("exper", 0, 0, n)]
EmptyTable == [n \in {} |-> Impl("", 0, 0, "")]

(* Compile options: [o, name]; o in add | exp | perm | xform *)
OAdd(n) == [o |-> "add", name |-> n]
OExp    == [o |-> "exp", name |-> ""]
OPerm   == [o |-> "perm", name |-> ""]
OXform  == [o |-> "xform", name |-> ""]

(* patch.Compile appends its own transform to the caller's options *)
EffOpts(call) == IF call.api = "patch" THEN Append(call.opts, OXform) ELSE call.opts

Cfg0(t) == [tbl |-> t, perm |-> FALSE, xform |-> FALSE, errs |-> 0]

(* One iteration of opts.ApplyOptions for Compile: option number k of call  *)
(* id c.  Register fails on an existing name and changes nothing;           *)
(* AddExperimentalFuncs never overrides; a second Transform is an error.    *)
FoldCompileOpt(cfg, opt, c, k, ex) ==
  CASE opt.o = "add" ->
         IF opt.name \in DOMAIN cfg.tbl /\ Mutant # "registerOverwrites"
           THEN [cfg EXCEPT !.errs = @ + 1]
           ELSE [cfg EXCEPT !.tbl = (opt.name :> Impl("custom", c, k, opt.name)) @@ cfg.tbl]
    [] opt.o = "exp"   -> [cfg EXCEPT !.tbl = cfg.tbl @@ ex]
    [] opt.o = "perm"  -> [cfg EXCEPT !.perm = TRUE]
    [] opt.o = "xform" -> IF cfg.xform THEN [cfg EXCEPT !.errs = @ + 1] ELSE [cfg EXCEPT !.xform = TRUE]

RECURSIVE FoldCompileOpts(_, _, _, _, _)
FoldCompileOpts(cfg, os, c, k, ex) ==
  IF k > Len(os) THEN cfg ELSE FoldCompileOpts(FoldCompileOpt(cfg, os[k], c, k, ex), os, c, k + 1, ex)

(* Programs: sequences of nodes [n, k, name].                               *)
(*   gate k     a custom function the harness blocks on; yields Integer k   *)
(*   env name   %name                                                       *)
(*   now, today, tod   the three time functions                             *)
(*   fn name    a call of function `name` (resolved at Parse)               *)
(*   res        a read of the input resource                                *)
(*   bogus      navigation that only Permissive mode tolerates              *)
(*   pause      a custom function that sleeps (so that the clock ticks)     *)
(*   opaque k   program number k of a pool the specification does not       *)
(*              interpret: its value is an unknown FUNCTION of the input    *)
(*              resource and of %x, and of nothing else                     *)
NGate(k)  == [n |-> "gate", k |-> k, name |-> ""]
NEnv(x)   == [n |-> "env", k |-> 0, name |-> x]
NNow      == [n |-> "now", k |-> 0, name |-> ""]
NToday    == [n |-> "today", k |-> 0, name |-> ""]
NTod      == [n |-> "tod", k |-> 0, name |-> ""]
NFn(f)    == [n |-> "fn", k |-> 0, name |-> f]
NRes      == [n |-> "res", k |-> 0, name |-> ""]
NBogus    == [n |-> "bogus", k |-> 0, name |-> ""]
NPause    == [n |-> "pause", k |-> 0, name |-> ""]
NOpaque(k) == [n |-> "opaque", k |-> k, name |-> ""]

FnIdx(prog) == {i \in 1..Len(prog) : prog[i].n = "fn"}
Resolvable(prog, tbl) == \A i \in FnIdx(prog) : prog[i].name \in DOMAIN tbl

NoExpr == [ok |-> FALSE, prog |-> <<>>, bind |-> EmptyTable, perm |-> FALSE, wrapped |-> FALSE]
(* What Parse produces from a folded configuration.  fhirpath.Compile drops *)
(* config.Transform; patch.Compile hands it to the visitor.                 *)
ParseWith(call, cfg) ==
  IF cfg.errs > 0 \/ ~Resolvable(call.prog, cfg.tbl) THEN NoExpr
  ELSE [ok |-> TRUE, prog |-> call.prog,
        bind |-> [i \in FnIdx(call.prog) |-> cfg.tbl[call.prog[i].name]],
        perm |-> cfg.perm, wrapped |-> (call.api = "patch" /\ cfg.xform)]

(* The denotation of a Compile call: a function of the call alone. *)
CompileDen(call, c) == ParseWith(call, FoldCompileOpts(Cfg0(BaseTable), EffOpts(call), c, 1, ExperTable))
(* The functions an option list makes visible. *)
VisibleDen(call, c) == DOMAIN FoldCompileOpts(Cfg0(BaseTable), EffOpts(call), c, 1, ExperTable).tbl

(* Evaluate options: [o, name, val, inst, off]; o in time | env *)
OTime(inst, off) == [o |-> "time", name |-> "", val |-> 0, inst |-> inst, off |-> off]
OEnv(x, val)     == [o |-> "env", name |-> x, val |-> val, inst |-> 0, off |-> 0]

Instant(inst, off) == [inst |-> inst, off |-> off]
Env0(r) == ("context" :> r) @@ ("ucum" :> 0)
Ctx0(env, inst, off) == [now |-> Instant(inst, off), env |-> env, errs |-> 0, t0 |-> inst]

FoldEvalOpt(ctx, opt) ==
  CASE opt.o = "time" -> [ctx EXCEPT !.now = Instant(opt.inst, opt.off)]
    [] opt.o = "env"  -> IF opt.name \in DOMAIN ctx.env THEN [ctx EXCEPT !.errs = @ + 1]
                         ELSE [ctx EXCEPT !.env = (opt.name :> opt.val) @@ ctx.env]
RECURSIVE FoldEvalOpts(_, _, _)
FoldEvalOpts(ctx, os, k) == IF k > Len(os) THEN ctx ELSE FoldEvalOpts(FoldEvalOpt(ctx, os[k]), os, k + 1)

(* Result items of the model: [t, s, a, b].                                 *)
ItInt(i)       == [t |-> "int", s |-> "", a |-> i, b |-> 0]
ItTime(f, now) == [t |-> f, s |-> "", a |-> now.inst, b |-> now.off]
ItFn(impl)     == [t |-> "fn", s |-> impl.src, a |-> impl.c, b |-> impl.k]
ItRes(r)       == [t |-> "res", s |-> "", a |-> r, b |-> 0]
ItEmpty        == [t |-> "empty", s |-> "", a |-> 0, b |-> 0]     \* no item (an empty collection)
ItOpaque(p, r, x) == [t |-> "opaque", s |-> "", a |-> p, b |-> r * 100000 + x]    \* x < 100000
ItErr(cls)     == [t |-> "err", s |-> cls, a |-> 0, b |-> 0]
IsTimeItem(x)  == x.t \in {"now", "today", "tod"}

(* One node of expression ex evaluated in context ctx on resource r; `now`  *)
(* is the instant the time functions use.                                   *)
NodeItem(node, idx, ex, ctx, r, now) ==
  CASE node.n = "gate"  -> ItInt(node.k)
    [] node.n = "pause" -> ItInt(0)
    [] node.n = "opaque" -> ItOpaque(node.k, r, IF "x" \in DOMAIN ctx.env THEN ctx.env["x"] ELSE 0)
    [] node.n = "env"   -> IF node.name \in DOMAIN ctx.env THEN ItInt(ctx.env[node.name]) ELSE ItErr("ConstantNotFound")
    [] node.n \in {"now", "today", "tod"} -> ItTime(node.n, now)
    [] node.n = "fn"    -> ItFn(ex.bind[idx])
    [] node.n = "res"   -> ItRes(r)
    [] node.n = "bogus" -> IF ex.perm THEN ItEmpty ELSE ItErr("InvalidField")

AddItem(acc, it) == IF it.t = "empty" THEN acc ELSE Append(acc, it)
OkRes(items) == [k |-> "ok", items |-> items]
ErrRes       == [k |-> "err", items |-> <<>>]
NoRes        == [k |-> "none", items |-> <<>>]

RECURSIVE DenNodes(_, _, _, _, _)
DenNodes(ex, ctx, r, i, acc) ==
  IF i > Len(ex.prog) THEN OkRes(acc)
  ELSE LET it == NodeItem(ex.prog[i], i, ex, ctx, r, ctx.now)
       IN IF it.t = "err" THEN ErrRes ELSE DenNodes(ex, ctx, r, i + 1, AddItem(acc, it))

(* The denotation of an Evaluate call: a function of the expression (itself *)
(* a function of text and compile options), the input, the evaluate options *)
(* and the instant at which the call started - nothing else.                *)
EvalDen(ex, call, t0) ==
  LET ctx == FoldEvalOpts(Ctx0(Env0(call.r), t0, 0), call.opts, 1)
  IN IF ctx.errs > 0 THEN ErrRes ELSE DenNodes(ex, ctx, call.r, 1, <<>>)

(* The instant an evaluation must use: the last OverrideTime, else t0 in UTC *)
RECURSIVE InstantDen(_, _, _)
InstantDen(os, k, cur) == IF k > Len(os) THEN cur
                          ELSE InstantDen(os, k + 1, IF os[k].o = "time" THEN Instant(os[k].inst, os[k].off) ELSE cur)

=============================================================================
