------------------------------ MODULE C01_Judge ------------------------------
(* Judge for C01: observation [id, kind, src, out, what]; a call is accepted exactly when it returned. *)
EXTENDS FPValues, Json, Params
Obs == ndJsonDeserialize(ObsFile)
NObs == Len(Obs)
W == 16
Returned == {"ok", "err", "cerr"}
Verdict(o) ==
  LET good == o.out.k \in Returned IN
  [id |-> o.id, ok |-> good,
   sig |-> IF good THEN "" ELSE "total|" \o o.out.k \o "|" \o o.kind \o "|" \o (IF o.out.k = "panic" THEN o.out.site ELSE o.what),
   want |-> "a value or an error"]
VARIABLE i
Init == i \in 1..(IF NObs < W THEN NObs ELSE W) /\ PrintT(ToJson(Verdict(Obs[i])))
Next == i + W <= NObs /\ i' = i + W /\ PrintT(ToJson(Verdict(Obs[i'])))
Spec == Init /\ [][Next]_i
=============================================================================
