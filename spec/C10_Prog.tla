------------------------------ MODULE C10_Prog ------------------------------
(***************************************************************************)
(* Randomly grown programs of the abstract machine: rendering of           *)
(* expression trees as source text, and the growth steps (each wraps the   *)
(* expression built so far in a function call, an indexer or an operator,  *)
(* with criteria and projections that are small expressions over $this).   *)
(***************************************************************************)
EXTENDS C10

(* rendering of expression trees as source text *)
RECURSIVE Render(_)
RenderArgs(args) ==
  CASE Len(args) = 0 -> ""
    [] Len(args) = 1 -> Render(args[1])
    [] Len(args) = 2 -> Render(args[1]) \o ", " \o Render(args[2])
    [] OTHER -> Render(args[1]) \o ", " \o Render(args[2]) \o ", " \o Render(args[3])
RenderItem(x) ==
  CASE x.t = "b" -> (IF x.b THEN "true" ELSE "false")
    [] x.t = "i" -> (IF x.i < 0 THEN "(" \o ToString(x.i) \o ")" ELSE ToString(x.i))
    [] x.t = "s" -> (IF x.cp = Official THEN "'official'" ELSE IF x.cp = Smith THEN "'Smith'" ELSE IF x.cp = John THEN "'John'"
                     ELSE IF x.cp = <<>> THEN "''" ELSE "'nickname'")
Render(e) ==
  CASE e.k = "this"  -> "$this"
    [] e.k = "root"  -> e.name
    [] e.k = "field" -> (IF e.in.k = "this" THEN e.name ELSE Render(e.in) \o "." \o e.name)
    [] e.k = "idx"   -> Render(e.in) \o "[" \o ToString(e.i) \o "]"
    [] e.k = "lit"   -> (IF Len(e.items) = 0 THEN "{}" ELSE RenderItem(e.items[1]))
    [] e.k = "var"   -> "%" \o e.name
    [] e.k = "call"  -> (IF e.in.k = "this" THEN "" ELSE Render(e.in) \o ".") \o e.f \o "(" \o RenderArgs(e.args) \o ")"
    [] e.k = "bin"   -> "(" \o Render(e.l) \o " " \o e.op \o " " \o Render(e.r) \o ")"

Nickname == <<110, 105, 99, 107, 110, 97, 109, 101>>
Lits == {Lit1(B(TRUE)), Lit1(B(FALSE)), LitE, Lit1(I(0)), Lit1(I(1)), Lit1(I(2)), Lit1(Str(Official)), Lit1(Str(Smith)), Lit1(Str(John)), Lit1(Str(Nickname))}

(* Growth is type directed: the element names offered for a step (and inside criteria and projections) are the  *)
(* names the schema allows on the items of the current focus, plus one unknown name now and then; on a focus of  *)
(* System values no element step is offered.  (The focus is computed by the abstract machine itself.)            *)
FocusOf(x) == Eval(x, Env(BaseVars), Input)
NamesOf(r) ==
  IF r.k = "ok" /\ Len(r.items) > 0 /\ r.items[1].t = "el" /\ r.items[1].r # 0
  THEN ValidNames(Sch, NodeAt(Forest[r.items[1].r], r.items[1].addr)) ELSE {}
Interesting == {"name", "given", "family", "use", "telecom", "rank", "value", "system", "identifier", "extension", "url", "period", "start",
                "active", "contact", "relationship", "text", "gender", "birthDate", "communication", "preferred", "language", "address", "line",
                "city", "generalPractitioner", "reference", "display", "maritalStatus", "coding", "code", "id", "meta", "lastUpdated", "tag"}
ValueOfFld(x, f) == LET r == FocusOf(Fld(x, f)) IN IF r.k = "ok" THEN r.items ELSE <<>>
FieldsFor(x) == LET ns == NamesOf(FocusOf(x)) IN (ns \cap Interesting) \cup (IF ns = {} THEN {} ELSE {"zz"})

(* small expressions over $this for items that have the element names fs *)
Lambda1(fs) ==
  {This} \cup Lits \cup {Fld(This, f) : f \in fs}
  \cup {Call(Fld(This, f), g, <<>>) : f \in fs, g \in {"exists", "empty", "count", "first", "last"}}
  \cup {Bin(op, Fld(This, f), l) : op \in {"=", "!=", "<", ">"}, f \in fs \cap {"use", "family", "given", "rank", "value", "system", "url", "city", "text", "gender", "code", "display", "reference"}, l \in Lits}
  \cup {Bin(op, This, l) : op \in {"=", "!=", "<", ">="}, l \in Lits}

(* one growth step applied to expression x, by category (the machine first draws a category, then a member) *)
NCat == 12
StepCat(x, c) ==
  LET fs == FieldsFor(x)
      sub(f) == NamesOf(FocusOf(Fld(x, f))) \cap Interesting        \* names one level further down, for nested criteria
      f1 == IF fs \ {"zz"} = {} THEN "zz" ELSE CHOOSE f \in fs \ {"zz"} : \A g \in fs \ {"zz"} : Len(ValueOfFld(x, f)) >= Len(ValueOfFld(x, g))   \* the element with most items
  IN CASE c = 1 -> {Fld(x, f) : f \in fs}
       [] c = 2 -> {Call(x, g, <<>>) : g \in {"first", "last", "tail", "count", "empty", "exists", "distinct", "isDistinct", "not", "allTrue", "anyFalse"}}
       [] c = 3 -> {Call(x, g, <<Lit1(I(n))>>) : g \in {"skip", "take"}, n \in -1..3} \cup {Ix(x, n) : n \in 0..2}
       [] c \in {4, 5} -> {Call(x, g, <<p>>) : g \in {"where", "select", "exists", "all"}, p \in Lambda1(fs)}
       [] c = 6 -> {Call(x, "where", <<Bin(op, p, q)>>) : op \in {"and", "or", "implies", "xor"},
                       p \in {Call(Fld(This, f), "exists", <<>>) : f \in fs}, q \in {Call(Fld(This, f), "empty", <<>>) : f \in fs} \cup {LitE, Lit1(B(TRUE))}}
       [] c = 7 -> {Call(x, "select", <<Call(Fld(This, f1), "where", <<q>>)>>) : q \in Lambda1(sub(f1))}
       [] c = 8 -> {Call(x, "where", <<Call(Fld(This, f1), g, <<q>>)>>) : g \in {"exists", "all"}, q \in Lambda1(sub(f1))}
       [] c = 9 -> {Call(x, "iif", <<Call(This, "exists", <<>>), Lit1(I(1)), Lit1(I(2))>>)} \cup {Bin(op, x, l) : op \in {"=", "!="}, l \in Lits}
       [] c = 10 -> {Bin(op, Call(x, "count", <<>>), Lit1(I(n))) : op \in {"=", "<", ">"}, n \in 0..3}
       [] c = 11 -> {Bin(op, Call(x, "exists", <<>>), Call(x, "empty", <<>>)) : op \in {"and", "or", "xor", "implies"}}
       [] OTHER -> {Fld(x, f) : f \in fs} \cup {Call(x, "first", <<>>), Call(x, "tail", <<>>)}

Starts == {Pat, Fld(Pat, "name"), Fld(Pat, "telecom"), Fld(Pat, "identifier"), Fld(Fld(Pat, "name"), "given"), Var("ints"), Var("mixed"), Var("none"), Fld(Pat, "contact"), Fld(Pat, "extension")}

=============================================================================
