------------------------------ MODULE C10_Prog ------------------------------
(***************************************************************************)
(* Randomly grown programs of the abstract machine: rendering of           *)
(* expression trees as source text, and the growth steps (each wraps the   *)
(* expression built so far in a function call, an indexer or an operator,  *)
(* with criteria and projections that are small expressions over $this).   *)
(***************************************************************************)
EXTENDS C10

(* rendering of expression trees as source text *)
RECURSIVE Render(_)
RenderArgs(args) ==
  CASE Len(args) = 0 -> ""
    [] Len(args) = 1 -> Render(args[1])
    [] Len(args) = 2 -> Render(args[1]) \o ", " \o Render(args[2])
    [] OTHER -> Render(args[1]) \o ", " \o Render(args[2]) \o ", " \o Render(args[3])
RenderItem(x) ==
  CASE x.t = "b" -> (IF x.b THEN "true" ELSE "false")
    [] x.t = "i" -> (IF x.i < 0 THEN "(" \o ToString(x.i) \o ")" ELSE ToString(x.i))
    [] x.t = "s" -> (IF x.cp = Official THEN "'official'" ELSE IF x.cp = Smith THEN "'Smith'" ELSE IF x.cp = John THEN "'John'"
                     ELSE IF x.cp = <<>> THEN "''" ELSE "'nickname'")
Render(e) ==
  CASE e.k = "this"  -> "$this"
    [] e.k = "root"  -> e.name
    [] e.k = "field" -> (IF e.in.k = "this" THEN e.name ELSE Render(e.in) \o "." \o e.name)
    [] e.k = "idx"   -> Render(e.in) \o "[" \o ToString(e.i) \o "]"
    [] e.k = "lit"   -> (IF Len(e.items) = 0 THEN "{}" ELSE RenderItem(e.items[1]))
    [] e.k = "var"   -> "%" \o e.name
    [] e.k = "call"  -> (IF e.in.k = "this" THEN "" ELSE Render(e.in) \o ".") \o e.f \o "(" \o RenderArgs(e.args) \o ")"
    [] e.k = "bin"   -> "(" \o Render(e.l) \o " " \o e.op \o " " \o Render(e.r) \o ")"

Nickname == <<110, 105, 99, 107, 110, 97, 109, 101>>
Fields == {"name", "given", "family", "use", "telecom", "rank", "value", "system", "identifier", "extension", "url", "period", "start", "active", "zz"}
Lits == {Lit1(B(TRUE)), Lit1(B(FALSE)), LitE, Lit1(I(0)), Lit1(I(1)), Lit1(I(2)), Lit1(Str(Official)), Lit1(Str(Smith)), Lit1(Str(John)), Lit1(Str(Nickname))}

(* small expressions over $this, used as criteria / projections / operands *)
Atoms == {This} \cup {Fld(This, f) : f \in Fields} \cup Lits
Lambda1 ==
  Atoms
  \cup {Call(Fld(This, f), g, <<>>) : f \in Fields, g \in {"exists", "empty", "count", "first", "last"}}
  \cup {Bin(op, Fld(This, f), l) : op \in {"=", "!=", "<", ">"}, f \in {"use", "family", "given", "rank", "value"}, l \in Lits}
  \cup {Bin(op, This, l) : op \in {"=", "!=", "<", ">="}, l \in Lits}

(* one growth step applied to expression x *)
Steps(x) ==
  {Fld(x, f) : f \in Fields}
  \cup {Call(x, g, <<>>) : g \in {"first", "last", "tail", "count", "empty", "exists", "distinct", "isDistinct", "not", "allTrue", "anyFalse"}}
  \cup {Call(x, g, <<Lit1(I(n))>>) : g \in {"skip", "take"}, n \in -1..3}
  \cup {Ix(x, n) : n \in 0..2}
  \cup {Call(x, g, <<p>>) : g \in {"where", "select", "exists", "all"}, p \in Lambda1}
  \cup {Call(x, "where", <<Bin(op, p, q)>>) : op \in {"and", "or", "implies"}, p \in {Call(Fld(This, "family"), "exists", <<>>), Bin("=", Fld(This, "use"), Lit1(Str(Official)))},
                                              q \in {Call(Fld(This, "given"), "exists", <<>>), Bin(">", Call(Fld(This, "given"), "count", <<>>), Lit1(I(1))), LitE}}
  \cup {Call(x, "select", <<Call(Fld(This, f), "where", <<q>>)>>) : f \in {"given", "telecom", "name"}, q \in {Bin("=", This, Lit1(Str(John))), Call(This, "exists", <<>>), Lit1(B(TRUE))}}
  \cup {Call(x, "iif", <<Call(This, "exists", <<>>), Lit1(I(1)), Lit1(I(2))>>)}
  \cup {Bin(op, x, l) : op \in {"=", "!="}, l \in Lits}
  \cup {Bin(op, Call(x, "count", <<>>), Lit1(I(n))) : op \in {"=", "<", ">"}, n \in 0..3}
  \cup {Bin(op, Call(x, "exists", <<>>), Call(x, "empty", <<>>)) : op \in {"and", "or", "xor", "implies"}}

Starts == {Pat, Fld(Pat, "name"), Fld(Pat, "telecom"), Fld(Pat, "identifier"), Fld(Fld(Pat, "name"), "given"), Var("ints"), Var("mixed"), Var("none"), Fld(Pat, "contact"), Fld(Pat, "extension")}

=============================================================================
