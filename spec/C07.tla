-------------------------------- MODULE C07 --------------------------------
(***************************************************************************)
(* Property C07: empty collections propagate through operators and         *)
(* functions.  The function names, arities and the experimental flag are   *)
(* read from the IMPLEMENTATION's tables (FuncFile, dumped by the harness   *)
(* through funcs.Clone()), so a newly added function is covered without     *)
(* touching this module; what the specification contributes is the          *)
(* classification (aggregates, not-implemented names, which arguments       *)
(* require a single value) and the well-typed fillers.                      *)
(***************************************************************************)
EXTENDS FPValues, Json, Params

Funcs == ndJsonDeserialize(FuncFile)        \* [name, min, max, exp]

(* The "var" form is evaluated in a way that also exposes state kept in the compiled expression: the harness       *)
(* compiles once, evaluates first with %none bound to a NON-empty value and then with %none bound to the empty       *)
(* collection; the second outcome is the one judged.                                                                  *)

(* the documented aggregates: an empty input has a defined, non-empty answer *)
Aggregates == {"exists", "empty", "count", "all", "allTrue", "anyTrue", "allFalse", "anyFalse",
               "isDistinct", "iif", "now", "today", "timeOfDay"}
(* names the implementation registers but does not implement (named deviation) *)
NotImplementedFns == {"subsetOf", "supersetOf", "repeat", "ofType", "single", "union", "combine", "trace"}

(* well-typed argument fillers per function; names absent here are not known to the specification *)
Filler ==
  [where |-> <<"true">>, select |-> <<"$this">>, all |-> <<"true">>, exists |-> <<"true">>,
   skip |-> <<"1">>, take |-> <<"1">>, intersect |-> <<"1">>, exclude |-> <<"1">>,
   iif |-> <<"true", "1", "2">>, extension |-> <<"'http://example.org/ext/a'">>,
   indexOf |-> <<"'a'">>, substring |-> <<"0", "1">>, startsWith |-> <<"'a'">>, endsWith |-> <<"'a'">>,
   contains |-> <<"'a'">>, replace |-> <<"'a'", "'b'">>, matches |-> <<"'a'">>, replaceMatches |-> <<"'a'", "'b'">>,
   log |-> <<"2">>, power |-> <<"2">>, round |-> <<"1">>, join |-> <<"','">>,
   toQuantity |-> <<"'mg'">>, convertsToQuantity |-> <<"'mg'">>,
   subsetOf |-> <<"1">>, supersetOf |-> <<"1">>, repeat |-> <<"$this">>, ofType |-> <<"Integer">>,
   union |-> <<"1">>, combine |-> <<"1">>, trace |-> <<"'t'", "$this">>]
(* receivers for argument-position cases, and which argument positions require a single value *)
Receiver ==
  [skip |-> <<"%ints", "Patient.name">>, take |-> <<"%ints", "Patient.name">>, extension |-> <<"Patient", "Patient.birthDate">>,
   indexOf |-> <<"'abc'", "Patient.gender">>, substring |-> <<"'abc'", "Patient.gender">>, startsWith |-> <<"'abc'", "Patient.id">>,
   endsWith |-> <<"'abc'", "Patient.id">>, contains |-> <<"'abc'", "Patient.gender">>,
   replace |-> <<"'abc'", "Patient.gender">>, matches |-> <<"'abc'", "Patient.gender">>, replaceMatches |-> <<"'abc'", "Patient.gender">>,
   log |-> <<"8", "8.5", "Patient.multipleBirth">>, power |-> <<"2", "2.5", "Patient.multipleBirth">>,
   round |-> <<"1.25", "7", "Patient.multipleBirth">>]
SingleValueArgs ==
  [skip |-> {1}, take |-> {1}, extension |-> {1}, indexOf |-> {1}, substring |-> {1, 2}, startsWith |-> {1}, endsWith |-> {1},
   contains |-> {1}, replace |-> {1, 2}, matches |-> {1}, replaceMatches |-> {1, 2}, log |-> {1}, power |-> {1}, round |-> {1}]

(* the empty collection as a literal, an absent element, an empty environment collection, and COMPUTED in the middle of an   *)
(* expression: distinct() of nothing, a filter that matched nothing, a subset beyond the end, an extension that is not there *)
EmptyForms == [lit |-> "{}", path |-> "Patient.photo", var |-> "%none",
               distinct |-> "%none.distinct()", filtered |-> "%ints.where($this > 9)", beyond |-> "%ints.skip(9)",
               noext |-> "Patient.extension('http://example.org/ext/none')"]
Forms == {"lit", "path", "var", "distinct", "filtered", "beyond", "noext"}

KnownNoArg == {"empty", "allTrue", "anyTrue", "allFalse", "anyFalse", "count", "distinct", "isDistinct", "first", "last", "tail",
               "toBoolean", "convertsToBoolean", "toInteger", "convertsToInteger", "toDate", "convertsToDate", "toDateTime",
               "convertsToDateTime", "convertToDateTime", "toDecimal", "convertsToDecimal", "toString", "convertsToString", "toTime", "convertsToTime",
               "upper", "lower", "length", "toChars", "abs", "ceiling", "exp", "floor", "ln", "sqrt", "truncate", "children",
               "descendants", "now", "timeOfDay", "today", "not", "single"}

FillerFor(name, k) == IF name \in DOMAIN Filler /\ k <= Len(Filler[name]) THEN Filler[name][k] ELSE "1"
Known(name) == name \in DOMAIN Filler \/ name \in Aggregates \/ name \in NotImplementedFns \/ name \in KnownNoArg

RECURSIVE JoinArgs(_, _, _, _, _)
JoinArgs(name, n, k, pos, form) ==   \* arguments k..n, the pos-th one being the empty form
  IF k > n THEN ""
  ELSE (IF k = pos THEN EmptyForms[form] ELSE FillerFor(name, k)) \o (IF k < n THEN ", " ELSE "") \o JoinArgs(name, n, k + 1, pos, form)

(* function cases: [kind "fn", name, n (arity used), pos (0 = the input is empty, k = argument k is empty), form, exp] *)
FnText(c) ==
  (IF c.pos = 0 THEN EmptyForms[c.form] ELSE Receiver[c.name][c.rcv]) \o "." \o c.name \o "(" \o JoinArgs(c.name, c.n, 1, c.pos, c.form) \o ")"

(* operator cases: [kind "op", op, pos in {"l","r","both"}, form] *)
(* the non-empty operand of a binary operator: whatever its type, an empty other operand gives empty *)
OtherOperands == <<"1", "'a'", "1.5", "@2020", "@T10:00", "1 'mg'", "true", "Patient.gender", "Patient.multipleBirth", "Patient.name.given", "%ints">>
BinOps == {"+", "-", "*", "/", "div", "mod", "<", "<=", ">", ">=", "=", "!=", "&"}
OpText(c) ==
  LET e == EmptyForms[c.form]
      one == IF c.op = "&" THEN "'a'" ELSE OtherOperands[c.rcv]
  IN CASE c.op \in BinOps -> (IF c.side = "r" THEN one ELSE e) \o " " \o c.op \o " " \o (IF c.side = "l" THEN one ELSE e)
       [] c.op = "is"   -> e \o " is Integer"
       [] c.op = "as"   -> e \o " as Integer"
       [] c.op = "neg"  -> "-" \o e
       [] c.op = "pos"  -> "+" \o e
       [] c.op = "idx"  -> (IF c.side = "r" THEN "%ints" ELSE e) \o "[" \o (IF c.side = "l" THEN "0" ELSE e) \o "]"

OpCases ==
  {[kind |-> "op", op |-> o, side |-> p, pos |-> 0, rcv |-> q, form |-> f, name |-> "-", n |-> 0, exp |-> FALSE] :
       o \in BinOps, p \in {"l", "r", "both"}, f \in Forms, q \in 1..Len(OtherOperands)}
  \cup {[kind |-> "op", op |-> o, side |-> "l", pos |-> 0, rcv |-> 1, form |-> f, name |-> "-", n |-> 0, exp |-> FALSE] : o \in {"is", "as", "neg", "pos"}, f \in Forms}
  \cup {[kind |-> "op", op |-> "idx", side |-> p, pos |-> 0, rcv |-> 1, form |-> f, name |-> "-", n |-> 0, exp |-> FALSE] : p \in {"l", "r", "both"}, f \in Forms}

Arities(fn) == {n \in 0..4 : fn.min <= n /\ n <= fn.max}
FnCasesOf(fn) ==
  {[kind |-> "fn", op |-> "-", side |-> "-", name |-> fn.name, n |-> n, pos |-> 0, rcv |-> 1, form |-> f, exp |-> fn.exp] : n \in Arities(fn), f \in Forms}
  \cup (IF fn.name \in DOMAIN SingleValueArgs
        THEN {[kind |-> "fn", op |-> "-", side |-> "-", name |-> fn.name, n |-> n, pos |-> k, rcv |-> q, form |-> f, exp |-> fn.exp] :
                 n \in Arities(fn), k \in SingleValueArgs[fn.name], f \in Forms, q \in 1..Len(Receiver[fn.name])}
        ELSE {})
ValidFnCase(c) == c.pos <= c.n

Text(c) == IF c.kind = "op" THEN OpText(c) ELSE FnText(c)
CaseId(c) == c.kind \o "/" \o c.op \o c.name \o "/" \o ToString(c.n) \o "/" \o c.side \o ToString(c.pos) \o "/r" \o ToString(c.rcv) \o "/" \o c.form \o (IF c.exp THEN "/exp" ELSE "")

StrA == S(<<97>>)
(* Permitted outcomes. "AnyOk" = any value or error, never a panic/timeout. *)
Permitted(c) ==
  IF c.kind = "op" THEN
     (IF c.op = "&" THEN {Ok(<<IF c.side = "both" THEN S(<<>>) ELSE StrA>>)} ELSE {Ok(<<>>)})
  ELSE IF c.name \in NotImplementedFns THEN {ErrAny, CErrAny}
  ELSE IF c.name \in Aggregates THEN {[k |-> "anyok"]}
  ELSE IF c.pos = 0 THEN (IF Known(c.name) THEN {Ok(<<>>)} ELSE {Ok(<<>>), ErrAny})
  ELSE {Ok(<<>>), ErrAny}

Accepts(c, obs) ==
  /\ ~IsFailure(obs)
  /\ \E p \in Permitted(c) : p.k = "anyok" \/ OutcomeIs(obs, p)
=============================================================================
