------------------------------ MODULE C04_Trace ------------------------------
(***************************************************************************)
(* Trace specification for the free-running stress test (part iii).        *)
(*                                                                         *)
(* A trace is the log of one stress run: every goroutine g logs CallBegin  *)
(* and CallEnd events of its Compile and Evaluate calls with its own       *)
(* sequence number n; the harness merges the per-goroutine logs in the     *)
(* canonical order (phase, n, g) without ever comparing clocks of          *)
(* different goroutines.  The shared state of the library is lock-free, so *)
(* its changes are not logged: they are the INTERNAL steps of FPRegistry   *)
(* (CloneTable, ApplyCompileOpt, Parse, EvalInit, ApplyEvalOpt,            *)
(* FailOnOptionError, NodeStep), which the specification takes between the *)
(* Begin and the End event of a call.  Because every internal step of the  *)
(* correct design touches only state of its own call, all placements are   *)
(* equivalent and the specification takes them just before the End event   *)
(* (a partial-order reduction that keeps validation linear).               *)
(*                                                                         *)
(* Event kinds: cb/ce (Compile begin/end), eb/ee (Evaluate begin/end) and  *)
(* race - a report of the Go race detector.  There is NO action for race,  *)
(* nor for an End event whose result differs from the model's: validation  *)
(* stops there, the high-water mark (TLCSet/TLCGet, -workers 1) stays      *)
(* below the length of the trace and the POSTCONDITION reports it.         *)
(***************************************************************************)
EXTENDS FPRegistry, C04, Json, Params

NoMenu == [g \in CSlots |-> {}]
Traces == ndJsonDeserialize(ObsFile)
NT == Len(Traces)

VARIABLES tr,      \* the trace being validated
          l,       \* position in the log
          t0s,     \* t0s[g]: start bracket of goroutine g's Evaluate call in flight
          memo     \* values learnt for uninterpreted programs: item key -> result hash

tvars == <<vars, tr, l, t0s, memo>>

Events == Traces[tr].events
IsEvent(k) == l <= Len(Events) /\ Events[l].k = k
Ev == Events[l]
NoInst == [eday |-> 0, ems |-> 0]

ASSUME \A t \in 1..NT : TLCSet(t, 1)

TraceInit ==
  /\ Init
  /\ tr \in 1..NT /\ l = 1
  /\ t0s = [g \in VSlots |-> NoInst]
  /\ memo = EmptyTable

Advance == l' = l + 1 /\ TLCSet(tr, IF TLCGet(tr) < l + 1 THEN l + 1 ELSE TLCGet(tr))

CCallOf(c) == [api |-> c.api, opts |-> c.opts, prog |-> c.prog, eid |-> c.eid]
ECallOf(c) == [eid |-> c.eid, r |-> c.r, opts |-> c.opts]

LogCompileBegin ==
  /\ IsEvent("cb") /\ es[Ev.g].pc = "idle"
  /\ BeginCompileWith(Ev.g, CCallOf(Ev.call))
  /\ Advance /\ UNCHANGED <<tr, t0s, memo>>

IntCompile ==
  /\ IsEvent("ce")
  /\ CloneTable(Ev.g) \/ ApplyCompileOpt(Ev.g) \/ Parse(Ev.g)
  /\ UNCHANGED <<tr, l, t0s, memo>>

LogCompileEnd ==
  /\ IsEvent("ce") /\ cs[Ev.g].pc \in {"done", "failed"}
  /\ Ev.out = cs[Ev.g].out
  /\ ReturnCompile(Ev.g)
  /\ Advance /\ UNCHANGED <<tr, t0s, memo>>

LogEvalBegin ==
  /\ IsEvent("eb") /\ cs[Ev.g].pc = "idle"
  /\ BeginEvalWith(Ev.g, ECallOf(Ev.call))
  /\ t0s' = [t0s EXCEPT ![Ev.g] = Ev.t0]
  /\ Advance /\ UNCHANGED <<tr, memo>>

IntEval ==
  /\ IsEvent("ee")
  /\ EvalInit(Ev.g) \/ ApplyEvalOpt(Ev.g) \/ FailOnOptionError(Ev.g) \/ NodeStep(Ev.g)
  /\ UNCHANGED <<tr, l, t0s, memo>>

IsOpaqueRes(res) == res.k = "ok" /\ Len(res.items) = 1 /\ res.items[1].t = "opaque"
MemoKey(it) == <<it.a, it.b>>

LogEvalEnd ==
  /\ IsEvent("ee") /\ es[Ev.g].pc \in {"done", "failed"}
  /\ LET st == es[Ev.g]
     IN IF IsOpaqueRes(st.res)
          THEN /\ Ev.out.k \in {"ok", "err", "panic"}     \* which value is not C04's business; that it is ONE value is
               /\ IF MemoKey(st.res.items[1]) \in DOMAIN memo
                    THEN memo[MemoKey(st.res.items[1])] = Ev.out.h /\ memo' = memo
                    ELSE memo' = (MemoKey(st.res.items[1]) :> Ev.out.h) @@ memo
          ELSE /\ EvalMatches(Ev.out, st.res, st.call.opts, t0s[Ev.g], Ev.t1)
               /\ memo' = memo
  /\ ReturnEval(Ev.g)
  /\ Advance /\ UNCHANGED <<tr, t0s>>

TraceNext == LogCompileBegin \/ IntCompile \/ LogCompileEnd \/ LogEvalBegin \/ IntEval \/ LogEvalEnd
TraceSpec == TraceInit /\ [][TraceNext]_tvars

----------------------------------------------------------------------------
(* Verdicts (POSTCONDITION).  The event at the high-water mark is the one   *)
(* the specification has no behaviour for; it is classified from the pure   *)
(* denotations (under the correct design every call is independent).        *)
WellFormed(evs) ==
  \A i \in 1..Len(evs) : evs[i].k \in {"cb", "ce", "eb", "ee", "race"}

BeginOf(evs, i) == CHOOSE j \in 1..(i - 1) : evs[j].g = evs[i].g /\ evs[j].n = evs[i].n - 1
HasBegin(evs, i) == \E j \in 1..(i - 1) : evs[j].g = evs[i].g /\ evs[j].n = evs[i].n - 1 /\ evs[j].k = (IF evs[i].k = "ce" THEN "cb" ELSE "eb")
CompileOfEid(evs, i, eid) == CHOOSE j \in 1..(i - 1) : evs[j].k = "cb" /\ evs[j].call.eid = eid
HasCompile(evs, i, eid) == \E j \in 1..(i - 1) : evs[j].k = "cb" /\ evs[j].call.eid = eid

Classify(evs, i) ==
  LET e == evs[i]
  IN CASE e.k = "race" -> "race-report|" \o e.site
       [] e.k = "ce" ->
            IF ~HasBegin(evs, i) THEN "malformed|end-without-begin"
            ELSE LET call == CCallOf(evs[BeginOf(evs, i)].call)
                     want == IF CompileDen(call, call.eid).ok THEN "ok" ELSE "cerr"
                 IN "compile-end|want-" \o want \o "-got-" \o e.out \o "|call=" \o CallCode(call)
       [] e.k = "ee" ->
            IF ~HasBegin(evs, i) THEN "malformed|end-without-begin"
            ELSE LET b == evs[BeginOf(evs, i)]
                     call == ECallOf(b.call)
                 IN IF ~HasCompile(evs, i, call.eid) THEN "malformed|evaluation-of-unknown-expression"
                    ELSE LET cc == CCallOf(evs[CompileOfEid(evs, i, call.eid)].call)
                             den == CompileDen(cc, cc.eid)
                         IN IF ~den.ok THEN "eval-end|expression-should-not-have-compiled|call=" \o CallCode(cc)
                            ELSE LET want == EvalDen(den, call, 0)
                                 IN IF IsOpaqueRes(want)
                                      THEN (IF e.out.k \in {"ok", "err", "panic"} THEN "eval-end|opaque-program-result-changed" ELSE "eval-end|opaque-program-" \o e.out.k)
                                      ELSE "eval-end|" \o EvalDiff(e.out, want, call.opts, b.t0, e.t1)
                                           \o (IF HasOverride(call.opts) THEN "|override" ELSE "|free")
       [] OTHER -> "malformed|begin-event-not-accepted"

TraceVerdict(t) ==
  LET evs == Traces[t].events
      hw == TLCGet(t)
  IN IF ~WellFormed(evs) THEN [id |-> Traces[t].id, ok |-> FALSE, sig |-> "malformed|trace", at |-> 0, len |-> Len(evs)]
     ELSE IF hw = Len(evs) + 1 THEN [id |-> Traces[t].id, ok |-> TRUE, sig |-> "", at |-> hw, len |-> Len(evs)]
     ELSE [id |-> Traces[t].id, ok |-> FALSE, sig |-> "trace|" \o Classify(evs, hw), at |-> hw, len |-> Len(evs)]

Post == \A t \in 1..NT : PrintT(ToJson(TraceVerdict(t)))
=============================================================================
