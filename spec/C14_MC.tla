------------------------------- MODULE C14_MC -------------------------------
(***************************************************************************)
(* Exhaustive exploration of the C14 case space.                           *)
(*                                                                         *)
(* An initial state is a string s over the model alphabet (Len <= MaxLen); *)
(* the laws of FPStrings are checked on it against every pattern, position *)
(* and length the generator uses (role 1).  Each successor is one case for *)
(* that string: it is emitted for replay (role 2) and the per-case         *)
(* consequences are checked on it.                                         *)
(***************************************************************************)
EXTENDS C14, Json

CONSTANTS MaxLen,     \* strings up to this length, literal receivers
          KindLen,    \* ... up to this length with every other receiver kind
          RegexLen    \* ... up to this length for matches / replaceMatches

VARIABLES s, ph, cs

NoCase == Case("-", "-", <<>>, <<>>)

Init == s \in (StringsUpTo(MaxLen) \cup ExtraStrings) /\ ph = "str" /\ cs = NoCase

Emit ==
  /\ ph = "str"
  /\ \E c \in CasesOf(s, KindLen, RegexLen) :
       /\ cs' = c /\ ph' = "case" /\ s' = s
       /\ PrintT(ToJson(Emitted(c)))

Next == Emit
Spec == Init /\ [][Next]_<<s, ph, cs>>

LawsHold == ph = "str" => StringLaws(s)
CasesHold == ph = "case" => CaseLaws(cs)
=============================================================================
