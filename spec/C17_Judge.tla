------------------------------ MODULE C17_Judge ------------------------------
(***************************************************************************)
(* Role 3: judge observations of the real code for property C17.           *)
(* An observation is [id, cs, src, out, calls]: the case (verbatim), the   *)
(* outcome of Compile + Evaluate, and the invocations the instrumented     *)
(* custom functions recorded, in order ([fn, input, args]).                *)
(*                                                                         *)
(* Expected(cs) (module C17) folds the option lists and evaluates the      *)
(* program in the specification.  What the property leaves open is left    *)
(* open here: a variadic function (any outcome that is not a crash; its    *)
(* registration may be refused), an empty argument (error or empty), the   *)
(* class of an evaluation error, ErrExistingConstant for a name repeated   *)
(* after a supply that itself failed.                                      *)
(***************************************************************************)
EXTENDS C17, Params

Obs == ndJsonDeserialize(ObsFile)
N == Len(Obs)
W == 16

Tracked == {"ExistingConstant", "UnsupportedType"}
ClsOf(out) == IF Has(out, "cls") THEN SeqRange(out.cls) ELSE {}

CallSame(a, b) == a.fn = b.fn /\ SeqSame(a.input, b.input) /\ SeqSame(a.args, b.args)
CallsMatch(obs, exp) == Len(obs) = Len(exp) /\ \A j \in 1..Len(obs) : CallSame(obs[j], exp[j])

ClassStr(set) == (IF "ExistingConstant" \in set THEN "+ExistingConstant" ELSE "")
                 \o (IF "UnsupportedType" \in set THEN "+UnsupportedType" ELSE "")
                 \o (IF "Custom" \in set THEN "+Custom" ELSE "")

Verdict(o) ==
  LET c     == o.cs
      x     == Expected(c)
      out   == o.out
      calls == o.calls
      cls   == ClsOf(out)
      callsOk == CallsMatch(calls, x.calls)
      kindOk ==
        CASE IsFailure(out)             -> FALSE
          [] x.k = "any"                -> TRUE
          [] out.k = "cerr" /\ x.mayCerr -> TRUE
          [] x.k = "cerr"               -> out.k = "cerr"
          [] x.k = "opterr"             -> out.k = "err"
          [] x.k = "err"                -> out.k = "err"
          [] x.k = "errE"               -> out.k = "err" \/ (out.k = "ok" /\ Len(out.items) = 0)
          [] x.k = "ok"                 -> out.k = "ok"
          [] OTHER                      -> FALSE
      classOk ==
        CASE ~kindOk \/ x.k = "any"     -> TRUE
          [] out.k = "cerr"             -> TRUE
          [] x.k = "opterr"             -> x.must \subseteq cls /\ (cls \cap Tracked) \subseteq x.may
          [] x.k = "err"                -> x.cls = "Custom" => "Custom" \in cls
          [] OTHER                      -> TRUE
      valueOk ==
        IF kindOk /\ x.k = "ok" /\ out.k = "ok" THEN SeqSame(out.items, x.items) ELSE TRUE
      invokedOk ==
        CASE ~kindOk \/ x.k = "any"     -> TRUE
          [] out.k = "cerr"             -> Len(calls) = 0
          [] x.k = "opterr"             -> Len(calls) = 0
          [] OTHER                      -> callsOk
      good == kindOk /\ classOk /\ valueOk /\ invokedOk
      aspect == IF IsFailure(out) THEN out.k
                ELSE IF ~kindOk THEN "outcome"
                ELSE IF ~classOk THEN "error-class"
                ELSE IF ~valueOk THEN "value"
                ELSE "invocations"
      want == x.k \o (IF x.k = "opterr" THEN ClassStr(x.must) ELSE IF x.k = "err" /\ x.cls = "Custom" THEN "+Custom"
                      ELSE IF x.k = "ok" THEN ToString(Len(x.items)) ELSE "")
              \o (IF aspect = "invocations" THEN "/calls" \o ToString(Len(x.calls)) ELSE "")
      got  == KindOf(out) \o ClassStr(cls)
              \o (IF aspect = "invocations" THEN "/calls" \o ToString(Len(calls)) ELSE "")
              \o (IF out.k = "panic" /\ Has(out, "site") THEN "@" \o out.site ELSE "")
      sig == "opts|" \o c.mode \o "|" \o c.fk \o "|" \o c.focus \o "|" \o x.why \o "|" \o aspect
             \o "|want-" \o want \o "|got-" \o got
  IN [id |-> o.id, ok |-> good, sig |-> IF good THEN "" ELSE sig,
      want |-> [k |-> x.k, items |-> x.items, calls |-> x.calls, must |-> ClassStr(x.must), mayCerr |-> x.mayCerr]]

VARIABLE i
Init == i \in 1..(IF N < W THEN N ELSE W) /\ PrintT(ToJson(Verdict(Obs[i])))
Next == i + W <= N /\ i' = i + W /\ PrintT(ToJson(Verdict(Obs[i'])))
Spec == Init /\ [][Next]_i
=============================================================================
