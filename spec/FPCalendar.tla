----------------------------- MODULE FPCalendar -----------------------------
(***************************************************************************)
(* The proleptic Gregorian calendar on small integers.                     *)
(*                                                                         *)
(*   DayNum(y, m, d)   day number of a civil date; 0001-01-01 is day 0     *)
(*   Civil(n)          the inverse: [y, mo, d]                             *)
(*   instants          pairs [dn |-> day number, ms |-> millisecond of     *)
(*                     day 0..86399999]; nothing here exceeds 32 bits      *)
(*                     (9999-12-31 is day 3652058)                         *)
(*                                                                         *)
(* DayNum and Civil are closed formulas (era / year-of-era decomposition   *)
(* of the 400-year cycle).  They are not trusted: the laws at the end pin  *)
(* them to the leap rule and the month-length table by induction           *)
(* (DayNum(0001-01-01) = 0, the first of the next month is MonthLen days   *)
(* later, January 1st follows December 31st) and are checked by TLC over a *)
(* full 400-year cycle and sampled years of 0001..9999 (C09_Cal).          *)
(***************************************************************************)
EXTENDS Integers

IsLeap(y) == (y % 4 = 0 /\ y % 100 # 0) \/ y % 400 = 0

MonthLen(y, m) ==
  CASE m \in {1, 3, 5, 7, 8, 10, 12} -> 31
    [] m \in {4, 6, 9, 11}           -> 30
    [] m = 2                         -> IF IsLeap(y) THEN 29 ELSE 28

YearLen(y) == IF IsLeap(y) THEN 366 ELSE 365

MinYear == 1
MaxYear == 9999

ValidCivil(y, m, d) == /\ y \in MinYear..MaxYear /\ m \in 1..12 /\ d \in 1..MonthLen(y, m)

(* March-based year: January and February belong to the previous year, so   *)
(* the leap day is the last day of the shifted year.                        *)
DayNum(y, m, d) ==
  LET ys  == IF m <= 2 THEN y - 1 ELSE y
      era == ys \div 400
      yoe == ys - era * 400
      mp  == IF m > 2 THEN m - 3 ELSE m + 9
      doy == (153 * mp + 2) \div 5 + d - 1
      doe == yoe * 365 + yoe \div 4 - yoe \div 100 + doy
  IN era * 146097 + doe - 306

Civil(n) ==
  LET z   == n + 306
      era == z \div 146097
      doe == z - era * 146097
      yoe == (doe - doe \div 1460 + doe \div 36524 - doe \div 146096) \div 365
      doy == doe - (365 * yoe + yoe \div 4 - yoe \div 100)
      mp  == (5 * doy + 2) \div 153
      d   == doy - (153 * mp + 2) \div 5 + 1
      m   == IF mp < 10 THEN mp + 3 ELSE mp - 9
      y   == yoe + era * 400 + (IF m <= 2 THEN 1 ELSE 0)
  IN [y |-> y, mo |-> m, d |-> d]

MinDay == 0                 \* 0001-01-01
MaxDay == 3652058           \* 9999-12-31

(* Months counted from 0001-01 = 0. *)
MonthIndex(y, m) == (y - 1) * 12 + (m - 1)
YearOfIndex(i)   == i \div 12 + 1
MonthOfIndex(i)  == (i % 12) + 1

(* Calendar month addition: the day is clamped to the end of the target     *)
(* month (years are 12 months: only February 29th is ever clamped).         *)
ClampDay(y, m, d) == IF d > MonthLen(y, m) THEN MonthLen(y, m) ELSE d

(***************************** instants *************************************)
DayMs == 86400000

(* dn + ms where ms may lie outside 0..DayMs-1 by less than a few days *)
NormInstant(dn, ms) == [dn |-> dn + ms \div DayMs, ms |-> ms % DayMs]

(* Offset normalisation: the UTC instant of a local instant at `off`        *)
(* minutes east of UTC.                                                     *)
ToUTC(inst, off) == NormInstant(inst.dn, inst.ms - off * 60000)
FromUTC(inst, off) == NormInstant(inst.dn, inst.ms + off * 60000)

(******************************* laws ***************************************)
(* Everything below is checked by TLC (C09_Cal): for a year y               *)
LawEpoch == DayNum(1, 1, 1) = 0 /\ DayNum(9999, 12, 31) = MaxDay
                /\ Civil(0) = [y |-> 1, mo |-> 1, d |-> 1]
                /\ Civil(MaxDay) = [y |-> 9999, mo |-> 12, d |-> 31]

LawLeap == /\ IsLeap(2000) /\ IsLeap(2020) /\ IsLeap(2400) /\ IsLeap(4)
           /\ ~IsLeap(1900) /\ ~IsLeap(2100) /\ ~IsLeap(2019) /\ ~IsLeap(1)

(* the chain of month starts: each first-of-month is MonthLen days after    *)
(* the previous one, and the year has 365 or 366 days                       *)
LawMonthChain(y) ==
  /\ \A m \in 1..11 : DayNum(y, m + 1, 1) - DayNum(y, m, 1) = MonthLen(y, m)
  /\ (y < MaxYear => DayNum(y + 1, 1, 1) - DayNum(y, 12, 1) = 31)
  /\ (y < MaxYear => DayNum(y + 1, 1, 1) - DayNum(y, 1, 1) = YearLen(y))
  /\ \A m \in 1..12 : DayNum(y, m, MonthLen(y, m)) - DayNum(y, m, 1) = MonthLen(y, m) - 1

(* round trips at the month starts and ends, and the day after a month end  *)
LawRoundTrip(y) ==
  \A m \in 1..12 : \A d \in {1, 15, 28, MonthLen(y, m)} :
     LET n == DayNum(y, m, d) IN
       /\ Civil(n) = [y |-> y, mo |-> m, d |-> d]
       /\ DayNum(Civil(n).y, Civil(n).mo, Civil(n).d) = n
       /\ n \in MinDay..MaxDay
       /\ (d = MonthLen(y, m) /\ n < MaxDay =>
              Civil(n + 1) = (IF m = 12 THEN [y |-> y + 1, mo |-> 1, d |-> 1] ELSE [y |-> y, mo |-> m + 1, d |-> 1]))
       /\ (d = 1 /\ n > MinDay =>
              Civil(n - 1) = (IF m = 1 THEN [y |-> y - 1, mo |-> 12, d |-> 31] ELSE [y |-> y, mo |-> m - 1, d |-> MonthLen(y, m - 1)]))

(* every single day of a year (used on the 4-year cycle of the case space)  *)
LawEveryDay(y) ==
  \A k \in 0..(YearLen(y) - 1) :
     LET n == DayNum(y, 1, 1) + k
         c == Civil(n) IN
       /\ c.y = y /\ ValidCivil(c.y, c.mo, c.d) /\ DayNum(c.y, c.mo, c.d) = n

LawMonthIndex(y) ==
  \A m \in 1..12 : YearOfIndex(MonthIndex(y, m)) = y /\ MonthOfIndex(MonthIndex(y, m)) = m

LawInstants ==
  /\ NormInstant(5, -1) = [dn |-> 4, ms |-> DayMs - 1]
  /\ NormInstant(5, DayMs) = [dn |-> 6, ms |-> 0]
  /\ ToUTC([dn |-> 10, ms |-> 0], 330) = [dn |-> 9, ms |-> DayMs - 330 * 60000]
  /\ FromUTC(ToUTC([dn |-> 10, ms |-> 0], 330), 330) = [dn |-> 10, ms |-> 0]
  /\ ToUTC([dn |-> 10, ms |-> DayMs - 1], -660) = [dn |-> 11, ms |-> 660 * 60000 - 1]

CalendarLaws(y) == LawMonthChain(y) /\ LawRoundTrip(y) /\ LawMonthIndex(y)
=============================================================================
