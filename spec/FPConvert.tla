------------------------------ MODULE FPConvert ------------------------------
(***************************************************************************)
(* FHIRPath N1 conversion functions (section 5.5 of the standard) as pure  *)
(* reference semantics over the abstract items of FPValues:                *)
(*                                                                         *)
(*   To(T, x)          the collection x.toT()  (<<v>> or <<>>)             *)
(*   Convertible(T, x) the truth value of x.convertsToT()                  *)
(*   ToStr(x)          the canonical string rendering used by toString()   *)
(*                                                                         *)
(* for T in Targets and x a System item or a complex element [t |-> "cx"]. *)
(* Strings are sequences of code points, so every lexical grammar is a     *)
(* recogniser over sequences:                                              *)
(*   Boolean   the twelve spellings, case-insensitive                      *)
(*   Integer   (\+|-)?\d+            within int32                          *)
(*   Decimal   (\+|-)?\d+(\.\d+)?                                          *)
(*   Date      YYYY | YYYY-MM | YYYY-MM-DD                 calendar-valid  *)
(*   Time      hh | hh:mm | hh:mm:ss | hh:mm:ss.fff                        *)
(*   DateTime  Date | YYYY-MM-DD 'T' Time [ 'Z' | (+|-)hh:mm ]             *)
(*   Quantity  (\+|-)?\d+(\.\d+)? \s* ( '[^']+' | [a-zA-Z]+ )?             *)
(*                                                                         *)
(* Convertible is written as an independent recogniser (it never calls To) *)
(* so that the law Convertible(T,x) <=> To(T,x) # <<>> is a real check of  *)
(* one definition against the other.                                       *)
(*                                                                         *)
(* Readings the property text leaves open are reported by Amb(T, x) (the   *)
(* judge then accepts either reading; generators avoid them):              *)
(*   - a fraction of seconds that is not exactly three digits,             *)
(*   - second 60, year 0000, a zone offset beyond 14:00,                   *)
(*   - for DateTime, a date followed by a bare 'T' ("2020-01-01T": the     *)
(*     literal grammar's marker; the implementation renders day-precision  *)
(*     DateTimes this way).                                                *)
(*                                                                         *)
(* Mutant selects a deliberately wrong definition; the laws in C13_MC must *)
(* FAIL for each.                                                          *)
(***************************************************************************)
EXTENDS FPValues, FPBigNum

CONSTANT Mutant

Targets == {"Boolean", "Integer", "Decimal", "String", "Date", "DateTime", "Time", "Quantity"}

TagOf(T) == CASE T = "Boolean" -> "b" [] T = "Integer" -> "i" [] T = "Decimal" -> "d"
              [] T = "String" -> "s" [] T = "Date" -> "date" [] T = "DateTime" -> "dt"
              [] T = "Time" -> "time" [] T = "Quantity" -> "q"

TypeOfTag(t) == CASE t = "b" -> "Boolean" [] t = "i" -> "Integer" [] t = "d" -> "Decimal"
                  [] t = "s" -> "String" [] t = "date" -> "Date" [] t = "dt" -> "DateTime"
                  [] t = "time" -> "Time" [] t = "q" -> "Quantity" [] OTHER -> "Complex"

SystemTags == {"b", "i", "d", "s", "date", "dt", "time", "q"}

(****************************** constructors ******************************)
Cx(ft) == [t |-> "cx", ft |-> ft]
DateI(p, y, mo, d) == [t |-> "date", p |-> p, y |-> y, mo |-> mo, d |-> d]
TimeI(p, h, mi, sec, ms) ==
  [t |-> "time", p |-> p, h |-> h, mi |-> mi, sec |-> sec, ms |-> ms, fd |-> IF p = 7 THEN 3 ELSE 0]
DtI(p, y, mo, d, h, mi, sec, ms, tz, off) ==
  [t |-> "dt", p |-> p, y |-> y, mo |-> mo, d |-> d, h |-> h, mi |-> mi, sec |-> sec, ms |-> ms,
   fd |-> IF p = 7 THEN 3 ELSE 0, tz |-> tz, off |-> off]
QI(val, unit) == [t |-> "q", val |-> DItem(val), unit |-> unit]
DecI(neg, digitsInt, e) == DItem(DMake(neg, NFromInt(digitsInt), e))   \* small coefficients only

DOne == DMake(FALSE, <<1>>, 0)
UnitOne == <<49>>                                   \* the default unit '1'

(****************************** characters ********************************)
IsDigit(c) == c >= 48 /\ c <= 57
IsAlpha(c) == (c >= 65 /\ c <= 90) \/ (c >= 97 /\ c <= 122)
IsWs(c)    == c \in {32, 9, 10, 12, 13}             \* the regular-expression class \s
LowerC(c)  == IF c >= 65 /\ c <= 90 THEN c + 32 ELSE c
LowerS(s)  == [j \in 1..Len(s) |-> LowerC(s[j])]

AllDigits(s) == Len(s) > 0 /\ \A j \in 1..Len(s) : IsDigit(s[j])
AllAlpha(s)  == Len(s) > 0 /\ \A j \in 1..Len(s) : IsAlpha(s[j])
Sub(s, a, b) == IF a > b THEN <<>> ELSE SubSeq(s, a, b)

(* first position of character c in s, 0 when absent *)
IndexOfC(s, c) ==
  IF \E j \in 1..Len(s) : s[j] = c
  THEN CHOOSE j \in 1..Len(s) : s[j] = c /\ \A k \in 1..(j - 1) : s[k] # c
  ELSE 0

(* value of a sequence of at most four digits *)
RECURSIVE DigValR(_, _)
DigValR(s, k) == IF k = 0 THEN 0 ELSE DigValR(s, k - 1) * 10 + (s[k] - 48)
DigVal(s) == DigValR(s, Len(s))

(* a digit sequence of any length as a Nat value of FPBigNum *)
RECURSIVE DigitsToLimbs(_)
DigitsToLimbs(s) ==
  IF Len(s) = 0 THEN <<>>
  ELSE IF Len(s) <= 4 THEN <<DigVal(s)>>
  ELSE <<DigVal(SubSeq(s, Len(s) - 3, Len(s)))>> \o DigitsToLimbs(SubSeq(s, 1, Len(s) - 4))
DigitsToNat(s) == NTrim(DigitsToLimbs(s))

(* a Nat value as its decimal digits (no leading zeros; zero is "0") *)
Limb4(x) == <<48 + (x \div 1000), 48 + ((x \div 100) % 10), 48 + ((x \div 10) % 10), 48 + (x % 10)>>
RECURSIVE LimbsToDigits(_, _)
LimbsToDigits(a, k) == IF k = 0 THEN <<>> ELSE Limb4(a[k]) \o LimbsToDigits(a, k - 1)
RECURSIVE StripLeadZeros(_)
StripLeadZeros(s) == IF Len(s) > 1 /\ s[1] = 48 THEN StripLeadZeros(Tail(s)) ELSE s
NatDigits(a) == IF NIsZero(a) THEN <<48>> ELSE StripLeadZeros(LimbsToDigits(a, Len(a)))

Pad2(n) == <<48 + (n \div 10), 48 + (n % 10)>>
Pad3(n) == <<48 + (n \div 100), 48 + ((n \div 10) % 10), 48 + (n % 10)>>
Pad4(n) == Limb4(n)
ZeroChars(n) == [j \in 1..n |-> 48]

(***************************** numeric strings ****************************)
HasSign(s)  == Len(s) > 0 /\ s[1] \in {43, 45}
IsNegS(s)   == Len(s) > 0 /\ s[1] = 45
Unsigned(s) == IF HasSign(s) THEN Tail(s) ELSE s

IsIntLex(s) == AllDigits(Unsigned(s))
IntValS(s)  == SMake(IsNegS(s), DigitsToNat(Unsigned(s)))
IsIntStr(s) == IsIntLex(s) /\ SFitsInt32(IntValS(s))

(* unsigned decimal text: digits+ ( '.' digits+ )? *)
IsUDecLex(u) ==
  LET p == IndexOfC(u, 46)
  IN IF p = 0 THEN AllDigits(u)
     ELSE AllDigits(Sub(u, 1, p - 1)) /\ AllDigits(Sub(u, p + 1, Len(u)))
UDecVal(neg, u) ==
  LET p == IndexOfC(u, 46)
  IN IF p = 0 THEN DMake(neg, DigitsToNat(u), 0)
     ELSE DMake(neg, DigitsToNat(Sub(u, 1, p - 1) \o Sub(u, p + 1, Len(u))), 0 - (Len(u) - p))
IsDecLex(s) == IsUDecLex(Unsigned(s))
DecValS(s)  == UDecVal(IsNegS(s), Unsigned(s))

(* mantissa 'e' digits: what a general-purpose decimal library also accepts (mutant only) *)
IsExpLex(s) ==
  LET l == LowerS(s)  p == IndexOfC(l, 101)
  IN p > 1 /\ IsDecLex(Sub(s, 1, p - 1)) /\ AllDigits(Sub(s, p + 1, Len(s))) /\ Len(s) - p <= 2
ExpValS(s) ==
  LET l == LowerS(s)  p == IndexOfC(l, 101)
      mant == DecValS(Sub(s, 1, p - 1))
  IN DMake(mant.neg, mant.m, mant.e + DigVal(Sub(s, p + 1, Len(s))))

(****************************** Boolean strings ***************************)
TrueSpellings  == { <<116, 114, 117, 101>>, <<116>>, <<121, 101, 115>>, <<121>>, <<49>>, <<49, 46, 48>> }
FalseSpellings == { <<102, 97, 108, 115, 101>>, <<102>>, <<110, 111>>, <<110>>, <<48>>, <<48, 46, 48>> }

(******************************* calendar *********************************)
IsLeap(y) == (y % 4 = 0 /\ y % 100 # 0) \/ y % 400 = 0
DaysIn(y, mo) == IF mo \in {1, 3, 5, 7, 8, 10, 12} THEN 31
                 ELSE IF mo = 2 THEN (IF IsLeap(y) THEN 29 ELSE 28) ELSE 30

No == [st |-> "no"]

(* Date text.  Result: [st |-> "ok"|"amb"|"no", p, y, mo, d] *)
DateParse(s) ==
  LET n == Len(s)
      lexOk == /\ n \in {4, 7, 10}
               /\ AllDigits(SubSeq(s, 1, 4))
               /\ (n >= 7 => s[5] = 45 /\ AllDigits(SubSeq(s, 6, 7)))
               /\ (n = 10 => s[8] = 45 /\ AllDigits(SubSeq(s, 9, 10)))
  IN IF ~lexOk THEN No
     ELSE LET y  == DigVal(SubSeq(s, 1, 4))
              mo == IF n >= 7 THEN DigVal(SubSeq(s, 6, 7)) ELSE 1
              d  == IF n = 10 THEN DigVal(SubSeq(s, 9, 10)) ELSE 1
              p  == IF n = 4 THEN 1 ELSE IF n = 7 THEN 2 ELSE 3
          IN IF mo < 1 \/ mo > 12 THEN No
             ELSE IF d < 1 \/ d > DaysIn(IF y = 0 THEN 4 ELSE y, mo) THEN No
             ELSE [st |-> IF y = 0 THEN "amb" ELSE "ok", p |-> p, y |-> y, mo |-> mo, d |-> d]

(* Time text.  Result: [st, p (4..7), h, mi, sec, ms] *)
TimeParse(s) ==
  LET n == Len(s)
      lexOk == /\ n \in {2, 5, 8} \/ n >= 10
               /\ AllDigits(SubSeq(s, 1, 2))
               /\ (n >= 5 => s[3] = 58 /\ AllDigits(SubSeq(s, 4, 5)))
               /\ (n >= 8 => s[6] = 58 /\ AllDigits(SubSeq(s, 7, 8)))
               /\ (n >= 10 => s[9] = 46 /\ AllDigits(SubSeq(s, 10, n)))
  IN IF ~lexOk THEN No
     ELSE LET h   == DigVal(SubSeq(s, 1, 2))
              mi  == IF n >= 5 THEN DigVal(SubSeq(s, 4, 5)) ELSE 0
              sec == IF n >= 8 THEN DigVal(SubSeq(s, 7, 8)) ELSE 0
              fr  == IF n >= 10 THEN SubSeq(s, 10, n) ELSE <<>>
              ms  == IF n >= 10 THEN DigVal(SubSeq(fr \o <<48, 48>>, 1, 3)) ELSE 0
              p   == IF n = 2 THEN 4 ELSE IF n = 5 THEN 5 ELSE IF n = 8 THEN 6 ELSE 7
          IN IF h > 23 \/ mi > 59 \/ sec > 60 THEN No
             ELSE [st |-> IF sec = 60 \/ (n >= 10 /\ Len(fr) # 3) THEN "amb" ELSE "ok",
                   p |-> p, h |-> h, mi |-> mi, sec |-> sec, ms |-> ms]

(* Zone designator at the end of a time text.  Result: [st, len, off] (len = 0: none) *)
ZoneParse(r) ==
  LET n == Len(r)
  IN IF n >= 1 /\ r[n] = 90 THEN [st |-> "ok", len |-> 1, off |-> 0]
     ELSE IF n >= 6 /\ r[n - 5] \in {43, 45} /\ r[n - 2] = 58
             /\ AllDigits(SubSeq(r, n - 4, n - 3)) /\ AllDigits(SubSeq(r, n - 1, n))
     THEN LET hh == DigVal(SubSeq(r, n - 4, n - 3))
              mm == DigVal(SubSeq(r, n - 1, n))
              mag == hh * 60 + mm
          IN IF mm > 59 \/ hh > 23 THEN [st |-> "no", len |-> 6, off |-> 0]
             ELSE [st |-> IF mag > 14 * 60 THEN "amb" ELSE "ok", len |-> 6,
                   off |-> IF r[n - 5] = 45 THEN 0 - mag ELSE mag]
     ELSE [st |-> "ok", len |-> 0, off |-> 0]

Worse(a, b) == IF a = "no" \/ b = "no" THEN "no" ELSE IF a = "amb" \/ b = "amb" THEN "amb" ELSE "ok"

(* DateTime text.  Result: [st, v] with v a "dt" item *)
DateTimeParse(s) ==
  LET k == IndexOfC(s, 84)
  IN IF k = 0
     THEN LET dp == DateParse(s)
          IN IF dp.st = "no" THEN No
             ELSE [st |-> dp.st, v |-> DtI(dp.p, dp.y, dp.mo, dp.d, 0, 0, 0, 0, FALSE, 0)]
     ELSE LET dp == DateParse(Sub(s, 1, k - 1))
              r  == Sub(s, k + 1, Len(s))
          IN IF dp.st = "no" THEN No
             ELSE IF Len(r) = 0
             THEN [st |-> "amb", v |-> DtI(dp.p, dp.y, dp.mo, dp.d, 0, 0, 0, 0, FALSE, 0)]
             ELSE IF dp.p # 3 THEN No
             ELSE LET z  == ZoneParse(r)
                      tp == TimeParse(Sub(r, 1, Len(r) - z.len))
                  IN IF z.st = "no" \/ tp.st = "no" THEN No
                     ELSE [st |-> Worse(dp.st, Worse(z.st, tp.st)),
                           v  |-> DtI(tp.p, dp.y, dp.mo, dp.d, tp.h, tp.mi, tp.sec, tp.ms, z.len > 0, z.off)]

(* Quantity text.  Result: [st, val (decimal record), unit (code points)] *)
RECURSIVE NumEnd(_, _)
NumEnd(s, j) == IF j <= Len(s) /\ IsDigit(s[j]) THEN NumEnd(s, j + 1) ELSE j   \* first non-digit at or after j
RECURSIVE WsEnd(_, _)
WsEnd(s, j) == IF j <= Len(s) /\ IsWs(s[j]) THEN WsEnd(s, j + 1) ELSE j

QuantityParse(s) ==
  LET a  == IF HasSign(s) THEN 2 ELSE 1                 \* start of the digits
      b  == NumEnd(s, a)                                \* after the integer digits
      c  == IF b < Len(s) /\ s[b] = 46 /\ IsDigit(s[b + 1]) THEN NumEnd(s, b + 1) ELSE b
      u  == WsEnd(s, c)                                 \* start of the unit
      ut == Sub(s, u, Len(s))
      val == UDecVal(IsNegS(s), Sub(s, a, c - 1))
  IN IF b = a THEN No                                   \* no digit
     ELSE IF Len(ut) = 0 THEN [st |-> "ok", val |-> val, unit |-> UnitOne]
     ELSE IF ut[1] = 39
     THEN IF Len(ut) >= 3 /\ ut[Len(ut)] = 39 /\ \A j \in 2..(Len(ut) - 1) : ut[j] # 39
          THEN [st |-> "ok", val |-> val, unit |-> SubSeq(ut, 2, Len(ut) - 1)]
          ELSE No
     ELSE IF AllAlpha(ut) THEN [st |-> "ok", val |-> val, unit |-> ut]
     ELSE No

(****************************** toString **********************************)
DecDigits(a) ==      \* unsigned rendering of a canonical decimal record
  LET ds == NatDigits(a.m)
  IN IF a.e >= 0 THEN (IF NIsZero(a.m) THEN ds ELSE ds \o ZeroChars(a.e))
     ELSE LET n == 0 - a.e
          IN IF Len(ds) > n THEN SubSeq(ds, 1, Len(ds) - n) \o <<46>> \o SubSeq(ds, Len(ds) - n + 1, Len(ds))
             ELSE <<48, 46>> \o ZeroChars(n - Len(ds)) \o ds
DecStr(a) == IF a.neg THEN <<45>> \o DecDigits(a) ELSE DecDigits(a)
IntStr(n) == LET sg == SFromInt(n) IN IF sg.neg THEN <<45>> \o NatDigits(sg.m) ELSE NatDigits(sg.m)

DateStr(p, y, mo, d) ==
  Pad4(y) \o (IF p >= 2 THEN <<45>> \o Pad2(mo) ELSE <<>>) \o (IF p >= 3 THEN <<45>> \o Pad2(d) ELSE <<>>)
TimeStr(p, h, mi, sec, ms) ==
  Pad2(h) \o (IF p >= 5 THEN <<58>> \o Pad2(mi) ELSE <<>>) \o (IF p >= 6 THEN <<58>> \o Pad2(sec) ELSE <<>>)
          \o (IF p >= 7 THEN <<46>> \o Pad3(ms) ELSE <<>>)
ZoneStr(off) ==
  IF off = 0 THEN <<90>>
  ELSE LET mag == IF off < 0 THEN 0 - off ELSE off
       IN <<IF off < 0 THEN 45 ELSE 43>> \o Pad2(mag \div 60) \o <<58>> \o Pad2(mag % 60)

(* canonical string of a System item (the spelling is NOT what the judge requires of the
   implementation - round trips are judged by value - but it is what the laws are checked on) *)
ToStr(x) ==
  CASE x.t = "b"    -> IF x.b THEN <<116, 114, 117, 101>> ELSE <<102, 97, 108, 115, 101>>
    [] x.t = "i"    -> IntStr(x.i)
    [] x.t = "d"    -> DecStr(DOfItem(x))
    [] x.t = "s"    -> x.cp
    [] x.t = "date" -> DateStr(x.p, x.y, x.mo, x.d)
    [] x.t = "time" -> TimeStr(x.p, x.h, x.mi, x.sec, x.ms)
    [] x.t = "dt"   -> DateStr(IF x.p > 3 THEN 3 ELSE x.p, x.y, x.mo, x.d)
                       \o (IF x.p > 3 THEN <<84>> \o TimeStr(x.p, x.h, x.mi, x.sec, x.ms)
                                           \o (IF x.tz THEN ZoneStr(x.off) ELSE <<>>)
                           ELSE <<>>)
    [] x.t = "q"    -> DecStr(DOfItem(x.val)) \o <<32, 39>> \o x.unit \o <<39>>

(****************************** the table *********************************)
IsSystem(x) == x.t \in SystemTags

ToBoolean(x) ==
  CASE x.t = "b" -> <<x>>
    [] x.t = "i" -> IF x.i = 1 THEN <<B(TRUE)>> ELSE IF x.i = 0 THEN <<B(FALSE)>> ELSE <<>>
    [] x.t = "d" -> IF DEq(DOfItem(x), DOne) THEN <<B(TRUE)>> ELSE IF DIsZero(DOfItem(x)) THEN <<B(FALSE)>> ELSE <<>>
    [] x.t = "s" -> LET l == LowerS(x.cp)
                    IN IF l \in TrueSpellings THEN <<B(TRUE)>> ELSE IF l \in FalseSpellings THEN <<B(FALSE)>> ELSE <<>>
    [] OTHER -> <<>>

ToInteger(x) ==
  CASE x.t = "i" -> <<x>>
    [] x.t = "b" -> <<I(IF x.b THEN 1 ELSE 0)>>
    [] x.t = "s" -> IF IsIntLex(x.cp) /\ SFitsInt32(IntValS(x.cp)) THEN <<I(SToInt(IntValS(x.cp)))>>
                    ELSE IF Mutant = "toIntegerAcceptsDecimalString" /\ IsDecLex(x.cp)
                            /\ DIsInteger(DecValS(x.cp)) /\ SFitsInt32(DToSigned(DecValS(x.cp)))
                         THEN <<I(SToInt(DToSigned(DecValS(x.cp))))>>
                    ELSE <<>>
    [] OTHER -> <<>>

ToDecimal(x) ==
  CASE x.t = "d" -> <<x>>
    [] x.t = "i" -> <<DItem(DFromInt(x.i))>>
    [] x.t = "b" -> <<DItem(IF x.b THEN DOne ELSE DZero)>>
    [] x.t = "s" -> IF IsDecLex(x.cp) THEN <<DItem(DecValS(x.cp))>>
                    ELSE IF Mutant = "toDecimalAcceptsExponent" /\ IsExpLex(x.cp) THEN <<DItem(ExpValS(x.cp))>>
                    ELSE <<>>
    [] OTHER -> <<>>

ToStringC(x) == IF IsSystem(x) THEN <<S(ToStr(x))>> ELSE <<>>

ToDate(x) ==
  CASE x.t = "date" -> <<x>>
    [] x.t = "dt"   -> <<DateI(IF Mutant = "toDateKeepsTime" THEN x.p ELSE IF x.p > 3 THEN 3 ELSE x.p, x.y, x.mo, x.d)>>
    [] x.t = "s"    -> LET dp == DateParse(x.cp) IN IF dp.st = "no" THEN <<>> ELSE <<DateI(dp.p, dp.y, dp.mo, dp.d)>>
    [] OTHER -> <<>>

ToDateTime(x) ==
  CASE x.t = "dt"   -> <<x>>
    [] x.t = "date" -> <<DtI(x.p, x.y, x.mo, x.d, 0, 0, 0, 0, FALSE, 0)>>
    [] x.t = "s"    -> LET r == DateTimeParse(x.cp) IN IF r.st = "no" THEN <<>> ELSE <<r.v>>
    [] OTHER -> <<>>

ToTime(x) ==
  CASE x.t = "time" -> <<x>>
    [] x.t = "s"    -> LET tp == TimeParse(x.cp) IN IF tp.st = "no" THEN <<>> ELSE <<TimeI(tp.p, tp.h, tp.mi, tp.sec, tp.ms)>>
    [] OTHER -> <<>>

ToQuantity(x) ==
  CASE x.t = "q" -> <<x>>
    [] x.t = "i" -> <<QI(DFromInt(x.i), UnitOne)>>
    [] x.t = "d" -> <<QI(DOfItem(x), UnitOne)>>
    [] x.t = "b" -> <<QI(IF x.b THEN DOne ELSE DZero, UnitOne)>>
    [] x.t = "s" -> LET r == QuantityParse(x.cp) IN IF r.st = "no" THEN <<>> ELSE <<QI(r.val, r.unit)>>
    [] OTHER -> <<>>

To(T, x) ==
  CASE T = "Boolean"  -> ToBoolean(x)
    [] T = "Integer"  -> ToInteger(x)
    [] T = "Decimal"  -> ToDecimal(x)
    [] T = "String"   -> ToStringC(x)
    [] T = "Date"     -> ToDate(x)
    [] T = "DateTime" -> ToDateTime(x)
    [] T = "Time"     -> ToTime(x)
    [] T = "Quantity" -> ToQuantity(x)

(* The reading of the text is open for this (T, x): both "converts to To(T, x)" and
   "does not convert" are accepted. *)
Amb(T, x) ==
  /\ x.t = "s"
  /\ CASE T = "Date"     -> DateParse(x.cp).st = "amb"
       [] T = "DateTime" -> DateTimeParse(x.cp).st = "amb"
       [] T = "Time"     -> TimeParse(x.cp).st = "amb"
       [] OTHER          -> FALSE

(* convertsToT, written from the conversion table without reference to To *)
Convertible(T, x) ==
  IF ~IsSystem(x) THEN FALSE
  ELSE CASE T = "String"   -> TRUE
         [] T = "Boolean"  -> CASE x.t = "b" -> TRUE
                                [] x.t = "i" -> x.i \in {0, 1}
                                [] x.t = "d" -> DIsZero(DOfItem(x)) \/ DCmp(DOfItem(x), DOne) = 0
                                [] x.t = "s" -> LowerS(x.cp) \in (TrueSpellings \cup FalseSpellings)
                                [] OTHER -> FALSE
         [] T = "Integer"  -> CASE x.t \in {"i", "b"} -> TRUE
                                [] x.t = "s" -> IF Mutant = "convertsIgnoresTo" THEN IsIntLex(x.cp) ELSE IsIntStr(x.cp)
                                [] OTHER -> FALSE
         [] T = "Decimal"  -> CASE x.t \in {"d", "i", "b"} -> TRUE
                                [] x.t = "s" -> IsDecLex(x.cp)
                                [] OTHER -> FALSE
         [] T = "Date"     -> CASE x.t \in {"date", "dt"} -> TRUE
                                [] x.t = "s" -> DateParse(x.cp).st # "no"
                                [] OTHER -> FALSE
         [] T = "DateTime" -> CASE x.t \in {"date", "dt"} -> TRUE
                                [] x.t = "s" -> DateTimeParse(x.cp).st # "no"
                                [] OTHER -> FALSE
         [] T = "Time"     -> CASE x.t = "time" -> TRUE
                                [] x.t = "s" -> TimeParse(x.cp).st # "no"
                                [] OTHER -> FALSE
         [] T = "Quantity" -> CASE x.t \in {"q", "i", "d", "b"} -> TRUE
                                [] x.t = "s" -> QuantityParse(x.cp).st # "no"
                                [] OTHER -> FALSE

(************************* typing and value equality **********************)
IsInt32(n) == n >= MinInt32 /\ n <= MaxInt32
CanonDec(a) == /\ \A j \in 1..Len(a.m) : a.m[j] >= 0 /\ a.m[j] < Base
               /\ (Len(a.m) > 0 => a.m[Len(a.m)] # 0 /\ a.m[1] % 10 # 0)
               /\ (Len(a.m) = 0 => ~a.neg /\ a.e = 0)

(* x is a well-formed item of type T *)
WellTyped(T, x) ==
  /\ x.t = TagOf(T)
  /\ CASE T = "Boolean"  -> x.b \in BOOLEAN
       [] T = "Integer"  -> IsInt32(x.i)
       [] T = "Decimal"  -> CanonDec(DOfItem(x))
       [] T = "String"   -> \A j \in 1..Len(x.cp) : x.cp[j] >= 0
       [] T = "Date"     -> x.p \in 1..3 /\ x.mo \in 1..12 /\ x.d \in 1..DaysIn(IF x.y = 0 THEN 4 ELSE x.y, x.mo)
                            /\ (x.p < 2 => x.mo = 1) /\ (x.p < 3 => x.d = 1)
       [] T = "DateTime" -> x.p \in 1..7 /\ x.mo \in 1..12 /\ x.d \in 1..DaysIn(IF x.y = 0 THEN 4 ELSE x.y, x.mo)
                            /\ x.h \in 0..23 /\ x.mi \in 0..59 /\ x.sec \in 0..60 /\ x.ms \in 0..999
                            /\ (x.p < 4 => x.h = 0 /\ ~x.tz) /\ (x.p < 5 => x.mi = 0) /\ (x.p < 6 => x.sec = 0)
                            /\ (x.p < 7 => x.ms = 0) /\ (~x.tz => x.off = 0)
       [] T = "Time"     -> x.p \in 4..7 /\ x.h \in 0..23 /\ x.mi \in 0..59 /\ x.sec \in 0..60 /\ x.ms \in 0..999
                            /\ (x.p < 5 => x.mi = 0) /\ (x.p < 6 => x.sec = 0) /\ (x.p < 7 => x.ms = 0)
       [] T = "Quantity" -> CanonDec(DOfItem(x.val)) /\ Len(x.unit) > 0

(* Equality of values (not of spellings): decimals by value, quantities by value and unit,
   temporal values by precision and components, second and millisecond being one precision,
   DateTimes that carry an offset as instants. *)
SamePrec(p, q) == p = q \/ (p >= 6 /\ q >= 6)
(* day number of a civil date (proleptic Gregorian; only differences matter) *)
DayNumber(y, mo, d) ==
  LET yy  == IF mo <= 2 THEN y - 1 ELSE y
      era == yy \div 400
      yoe == yy - era * 400
      mp  == (mo + 9) % 12
      doy == (153 * mp + 2) \div 5 + d - 1
  IN era * 146097 + yoe * 365 + yoe \div 4 - yoe \div 100 + doy
(* a DateTime that carries an offset, as an instant: <<day, minute of day, second, ms>> in UTC *)
UtcKey(x) ==
  LET mins == x.h * 60 + x.mi - x.off
  IN << DayNumber(x.y, x.mo, x.d) + (IF mins < 0 THEN 0 - 1 ELSE IF mins >= 1440 THEN 1 ELSE 0),
        (mins + 1440) % 1440, x.sec, x.ms >>
ValEq(x, y) ==
  /\ x.t = y.t
  /\ CASE x.t = "b" -> x.b = y.b
       [] x.t = "i" -> x.i = y.i
       [] x.t = "s" -> x.cp = y.cp
       [] x.t = "d" -> DEq(DOfItem(x), DOfItem(y))
       [] x.t = "q" -> DEq(DOfItem(x.val), DOfItem(y.val)) /\ x.unit = y.unit
       [] x.t = "date" -> x.p = y.p /\ x.y = y.y /\ x.mo = y.mo /\ x.d = y.d
       [] x.t = "time" -> SamePrec(x.p, y.p) /\ x.h = y.h /\ x.mi = y.mi /\ x.sec = y.sec /\ x.ms = y.ms
       [] x.t = "dt" -> /\ SamePrec(x.p, y.p) /\ x.tz = y.tz
                        /\ IF x.tz THEN UtcKey(x) = UtcKey(y)          \* the same instant, whatever the offsets
                           ELSE /\ x.y = y.y /\ x.mo = y.mo /\ x.d = y.d /\ x.h = y.h
                                /\ x.mi = y.mi /\ x.sec = y.sec /\ x.ms = y.ms
       [] OTHER -> FALSE
CollValEq(a, b) == Len(a) = Len(b) /\ \A j \in 1..Len(a) : ValEq(a[j], b[j])
=============================================================================
