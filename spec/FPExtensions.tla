---------------------------- MODULE FPExtensions ----------------------------
(***************************************************************************)
(* The extension list of one extendable FHIR object as a state machine:    *)
(* one action per exported function of internal/element/extension.         *)
(*                                                                         *)
(*   exts   the list (sequence of [url, val])                              *)
(*   held   the extension most recently built by New / FromElement         *)
(*   last   the step just taken and what it returned (for action           *)
(*          properties; not part of the VIEW)                              *)
(*   hist   history: every step with its pre- and post-state (not part of  *)
(*          the VIEW, so states are merged on <<exts, held>> and each       *)
(*          explored transition carries ONE representative behaviour)      *)
(*                                                                         *)
(* TLC explores every behaviour of at most MaxLen steps from each list in  *)
(* InitLists (up to VIEW merging), checks the properties below and prints  *)
(* each explored behaviour as one JSON case; the Go harness replays it on  *)
(* real objects and C20_Judge compares step by step.                       *)
(***************************************************************************)
EXTENDS FPExtensionOps, Json

CONSTANTS Urls,        \* URL tokens
          StrVals,     \* value tokens standing for String elements ("s1" is the String "s1")
          IntVals,     \* value tokens standing for Integer elements ("i2" is the Integer 2)
          MaxLen,      \* steps per behaviour
          MaxArgs,     \* extensions per variadic call
          MaxEntries,  \* list length bound
          InitLists    \* initial lists

VARIABLES exts, held, last, hist
vars == <<exts, held, last, hist>>
View == <<exts, held>>

Vals == StrVals \cup IntVals
Exts == {Ent(u, v) : u \in Urls, v \in Vals}
ArgSeqs == SeqsUpTo(Exts, MaxArgs)
(* SetByURL is generic in ONE value type: all values of a call share it *)
SameKindSeqs == SeqsUpTo(StrVals, MaxArgs) \cup SeqsUpTo(IntVals, MaxArgs)

Step(op, u, items, i) == [op |-> op, url |-> u, items |-> items, i |-> i]

Init ==
  /\ exts \in InitLists
  /\ held = NoneHeld
  /\ last = [step |-> Step("Init", "", <<>>, 0), ret |-> NoRet]
  /\ hist = <<>>

Do(st) ==
  LET post == ApplyDet(st, exts)
      ret  == RetDet(st, exts, held)
      h    == HeldDet(st, held)
      rec  == [step |-> st, pre |-> exts, preheld |-> held, post |-> post, postheld |-> h, ret |-> ret]
  IN /\ Len(post) <= MaxEntries
     /\ exts' = post
     /\ held' = h
     /\ last' = [step |-> st, ret |-> ret]
     /\ hist' = Append(hist, rec)
     /\ PrintT(ToJson([kind |-> "beh", steps |-> hist']))

Upsert      == \E e \in Exts : Do(Step("Upsert", e.url, <<e>>, 0))
SetByURL    == \E u \in Urls : \E vs \in SameKindSeqs :
                  Do(Step("SetByURL", u, [j \in 1..Len(vs) |-> Ent(u, vs[j])], 0))
Overwrite   == \E es \in ArgSeqs : Do(Step("Overwrite", "", es, 0))
AppendInto  == \E es \in ArgSeqs : Do(Step("AppendInto", "", es, 0))
Clear       == Do(Step("Clear", "", <<>>, 0))
New         == \E e \in Exts : Do(Step("New", e.url, <<e>>, 0))
FromElement == \E e \in Exts : Do(Step("FromElement", e.url, <<e>>, 0))
Unwrap      == held.k = "ext" /\ Do(Step("Unwrap", "", <<>>, 0))
UnwrapAt    == \E i \in 1..Len(exts) : Do(Step("UnwrapAt", "", <<>>, i))

Next ==
  /\ Len(hist) < MaxLen
  /\ \/ Upsert \/ SetByURL \/ Overwrite \/ AppendInto \/ Clear
     \/ New \/ FromElement \/ Unwrap \/ UnwrapAt

Spec == Init /\ [][Next]_vars

(* ---------------------------------------------------------------- laws *)
TypeOK ==
  /\ exts \in Seq(Exts) /\ Len(exts) <= MaxEntries
  /\ held = NoneHeld \/ \E e \in Exts : held = Held(e)

(* C20: "setting, upserting or appending extensions by URL changes only the *)
(* extensions with that URL" - as an action property over the step taken.   *)
OnlyUrlChanged == Frame(last'.step, exts, exts')
FrameProperty  == [][OnlyUrlChanged]_vars

(* what the machine does is something the judge accepts *)
DetIsPermitted == [][Permitted(last'.step, exts, exts')]_vars
(* Unwrap(New(v)) = v *)
UnwrapNew == [][(last'.step.op = "Unwrap" => last'.ret.val = held.val)
                /\ (last'.step.op = "UnwrapAt" => last'.ret.val = exts[last'.step.i].val)
                /\ (last'.step.op \in {"New", "FromElement"} => UnwrapExt(held') = last'.step.items[1].val)]_vars

(* algebraic consequences at every reachable list *)
UpsertLaws ==
  \A e \in Exts :
    LET r == UpsertDet(exts, e)
    IN /\ UpsertDet(r, e) = r                                           \* idempotent
       /\ \E j \in 1..Len(r) : r[j] = e                                 \* the value is there
       /\ Len(ByUrl(r, e.url)) = (IF HasUrl(exts, e.url) THEN Len(ByUrl(exts, e.url)) ELSE 1)
SetByURLLaws ==
  \A u \in Urls : \A vs \in SameKindSeqs :
    LET es == [j \in 1..Len(vs) |-> Ent(u, vs[j])]
        r  == SetByURLDet(exts, u, es)
    IN /\ ByUrl(r, u) = es
       /\ Len(r) = Len(exts) - Len(ByUrl(exts, u)) + Len(es)
       /\ SetByURLDet(r, u, es) = r
AppendLaws ==
  \A es \in ArgSeqs :
    LET r == AppendDet(exts, es)
    IN /\ Len(r) = Len(exts) + Len(es)
       /\ SubSeq(r, 1, Len(exts)) = exts
       /\ OverwriteDet(exts, es) = AppendDet(ClearDet(exts), es)
=============================================================================
