------------------------------- MODULE C01_MC -------------------------------
(***************************************************************************)
(* The call protocol of the public API and the generator of the boundary   *)
(* alphabet.                                                               *)
(*   idle --Call(api)--> called --Return(o)--> idle,  o in Returned        *)
(* Panics and non-termination are not actions of the specification;        *)
(* Mutant = "mayPanic" adds one and must violate OutcomesAreReturns.       *)
(***************************************************************************)
EXTENDS C01, FPMutant

CONSTANT Tier

VARIABLES st, api, last, part     \* part: which slice of the case space this behaviour emits
vars == <<st, api, last, part>>

APIs == {"Compile", "Evaluate", "EvaluateAsBool", "EvaluateAsString", "EvaluateAsInt32", "patch.Add", "patch.Insert", "patch.Delete", "patch.Replace", "patch.Move"}

Emit(c) == PrintT(ToJson(c))
Thorough == Tier = "thorough"

Args1 == IF Thorough THEN Pool ELSE ArgsA
Args2 == IF Thorough THEN ArgsA ELSE ArgsB

FnCases(fn) ==
  LET nm == fn.name
      ar == {n \in 0..3 : fn.min <= n /\ n <= fn.max}
  IN /\ (0 \in ar => \A r \in 1..Len(Pool) : Emit([id |-> "fn/" \o nm \o "/0/" \o ToString(r), kind |-> "eval", exp |-> fn.exp, text |-> Pool[r] \o "." \o nm \o "()"]))
     /\ (1 \in ar => \A r \in 1..Len(Pool), a \in 1..Len(Args1) :
            Emit([id |-> "fn/" \o nm \o "/1/" \o ToString(r) \o "/" \o ToString(a), kind |-> "eval", exp |-> fn.exp, text |-> Pool[r] \o "." \o nm \o "(" \o Args1[a] \o ")"]))
     /\ (2 \in ar => \A r \in 1..Len(Pool), a \in 1..Len(Args2), b \in 1..Len(Args2) :
            Emit([id |-> "fn/" \o nm \o "/2/" \o ToString(r) \o "/" \o ToString(a) \o "/" \o ToString(b), kind |-> "eval", exp |-> fn.exp,
                  text |-> Pool[r] \o "." \o nm \o "(" \o Args2[a] \o ", " \o Args2[b] \o ")"]))
     /\ (3 \in ar => \A r \in 1..Len(Pool), a \in 1..Len(ArgsC), b \in 1..Len(ArgsC), c \in 1..Len(ArgsC) :
            Emit([id |-> "fn/" \o nm \o "/3/" \o ToString(r) \o "/" \o ToString(a) \o ToString(b) \o ToString(c), kind |-> "eval", exp |-> fn.exp,
                  text |-> Pool[r] \o "." \o nm \o "(" \o ArgsC[a] \o ", " \o ArgsC[b] \o ", " \o ArgsC[c] \o ")"]))

OpCases(o) ==
  LET L == IF Thorough THEN Pool ELSE Pool
      R == IF Thorough THEN Pool ELSE ArgsA
  IN \A l \in 1..Len(L), r \in 1..Len(R) :
       Emit([id |-> "op/" \o ToString(o) \o "/" \o ToString(l) \o "/" \o ToString(r), kind |-> "eval", exp |-> FALSE, text |-> L[l] \o " " \o BinOps[o] \o " " \o R[r]])

UnaryCases ==
  /\ \A l \in 1..Len(Pool) :
       /\ Emit([id |-> "neg/" \o ToString(l), kind |-> "eval", exp |-> FALSE, text |-> "-" \o Pool[l]])
       /\ Emit([id |-> "pos/" \o ToString(l), kind |-> "eval", exp |-> FALSE, text |-> "+" \o Pool[l]])
       /\ Emit([id |-> "asbool/" \o ToString(l), kind |-> "asbool", exp |-> FALSE, text |-> Pool[l]])
       /\ Emit([id |-> "asstring/" \o ToString(l), kind |-> "asstring", exp |-> FALSE, text |-> Pool[l]])
       /\ Emit([id |-> "asint/" \o ToString(l), kind |-> "asint", exp |-> FALSE, text |-> Pool[l]])
       /\ \A a \in 1..Len(ArgsA) : Emit([id |-> "idx/" \o ToString(l) \o "/" \o ToString(a), kind |-> "eval", exp |-> FALSE, text |-> Pool[l] \o "[" \o ArgsA[a] \o "]"])
       /\ \A t \in 1..Len(TypeNames) :
            /\ Emit([id |-> "is/" \o ToString(l) \o "/" \o ToString(t), kind |-> "eval", exp |-> FALSE, text |-> Pool[l] \o " is " \o TypeNames[t]])
            /\ Emit([id |-> "as/" \o ToString(l) \o "/" \o ToString(t), kind |-> "eval", exp |-> FALSE, text |-> Pool[l] \o " as " \o TypeNames[t]])

SrcCases(sep, sepname) ==
  LET T == Tokens  SS == TokensSmall IN
  /\ \A a \in 1..Len(T) : Emit([id |-> "src" \o sepname \o "/1/" \o ToString(a), kind |-> "compile", exp |-> FALSE, text |-> T[a]])
  /\ \A a \in 1..Len(T), b \in 1..Len(T) :
        Emit([id |-> "src" \o sepname \o "/2/" \o ToString(a) \o "/" \o ToString(b), kind |-> "compile", exp |-> FALSE, text |-> T[a] \o sep \o T[b]])
  /\ IF Thorough
     THEN \A a \in 1..Len(T), b \in 1..Len(T), c \in 1..Len(T) :
            Emit([id |-> "src" \o sepname \o "/3/" \o ToString(a) \o "/" \o ToString(b) \o "/" \o ToString(c), kind |-> "compile", exp |-> FALSE, text |-> T[a] \o sep \o T[b] \o sep \o T[c]])
     ELSE \A a \in 1..Len(SS), b \in 1..Len(SS), c \in 1..Len(SS) :
            Emit([id |-> "src" \o sepname \o "/3s/" \o ToString(a) \o "/" \o ToString(b) \o "/" \o ToString(c), kind |-> "compile", exp |-> FALSE, text |-> SS[a] \o sep \o SS[b] \o sep \o SS[c]])
  /\ (Thorough => \A a \in 1..Len(SS), b \in 1..Len(SS), c \in 1..Len(SS), d \in 1..Len(SS) :
            Emit([id |-> "src" \o sepname \o "/4s/" \o ToString(a) \o "/" \o ToString(b) \o "/" \o ToString(c) \o "/" \o ToString(d), kind |-> "compile", exp |-> FALSE,
                  text |-> SS[a] \o sep \o SS[b] \o sep \o SS[c] \o sep \o SS[d]]))

PatchCases ==
  \A o \in 1..Len(PatchOps), p \in 1..Len(PatchPaths), v \in 1..Len(PatchValues), r \in {"MR1", "nil"} :
    LET op == PatchOps[o] IN
    /\ (op \in {"delete"} /\ v = 1 =>
          Emit([id |-> "patch/delete/" \o ToString(p) \o "/" \o r, kind |-> "patch", exp |-> FALSE, text |-> PatchPaths[p], op |-> op, value |-> "nil", res |-> r, index |-> 0, index2 |-> 0, name |-> ""]))
    /\ (op = "replace" =>
          Emit([id |-> "patch/replace/" \o ToString(p) \o "/" \o ToString(v) \o "/" \o r, kind |-> "patch", exp |-> FALSE, text |-> PatchPaths[p], op |-> op, value |-> PatchValues[v], res |-> r, index |-> 0, index2 |-> 0, name |-> ""]))
    /\ (op = "add" => \A n \in 1..Len(PatchNames) :
          Emit([id |-> "patch/add/" \o ToString(p) \o "/" \o ToString(v) \o "/" \o ToString(n) \o "/" \o r, kind |-> "patch", exp |-> FALSE, text |-> PatchPaths[p], op |-> op, value |-> PatchValues[v], res |-> r, index |-> 0, index2 |-> 0, name |-> PatchNames[n]]))
    /\ (op = "insert" => \A i \in 1..Len(PatchIndexes) :
          Emit([id |-> "patch/insert/" \o ToString(p) \o "/" \o ToString(v) \o "/" \o ToString(i) \o "/" \o r, kind |-> "patch", exp |-> FALSE, text |-> PatchPaths[p], op |-> op, value |-> PatchValues[v], res |-> r, index |-> PatchIndexes[i], index2 |-> 0, name |-> ""]))
    /\ (op = "move" /\ v = 1 => \A i \in 1..Len(PatchIndexes), j \in 1..Len(PatchIndexes) :
          Emit([id |-> "patch/move/" \o ToString(p) \o "/" \o ToString(i) \o "/" \o ToString(j) \o "/" \o r, kind |-> "patch", exp |-> FALSE, text |-> PatchPaths[p], op |-> op, value |-> "nil", res |-> r, index |-> PatchIndexes[i], index2 |-> PatchIndexes[j], name |-> ""]))

GenericCases == \A g \in 1..Len(GenericPrograms) :
   Emit([id |-> "generic/" \o ToString(g), kind |-> "generic", exp |-> FALSE, text |-> GenericPrograms[g]])

OptionCases == \A f \in 1..Len(InputForms), o \in 1..Len(OptionSets), g \in 1..Len(OptionPrograms) :
   Emit([id |-> "opt/" \o InputForms[f] \o "/" \o OptionSets[o] \o "/" \o ToString(g), kind |-> "evalopt", exp |-> FALSE, text |-> OptionPrograms[g],
         res |-> InputForms[f], name |-> OptionSets[o]])

NF == Len(Funcs)
NOps == Len(BinOps)
Parts == 1..(NF + NOps + 6)

EmitPart(p) ==
  IF p <= NF THEN FnCases(Funcs[p])
  ELSE IF p <= NF + NOps THEN OpCases(p - NF)
  ELSE IF p = NF + NOps + 1 THEN UnaryCases
  ELSE IF p = NF + NOps + 2 THEN SrcCases(" ", "sp")
  ELSE IF p = NF + NOps + 3 THEN SrcCases("", "glued")
  ELSE IF p = NF + NOps + 4 THEN PatchCases
  ELSE IF p = NF + NOps + 5 THEN OptionCases
  ELSE GenericCases

Init == part \in Parts /\ st = "idle" /\ api = "-" /\ last = "none"

Call(a) == st = "idle" /\ last = "none" /\ st' = "called" /\ api' = a /\ UNCHANGED <<last, part>>
Return(o) == st = "called" /\ st' = "idle" /\ last' = o /\ UNCHANGED <<api, part>>
Panic == Mutant = "mayPanic" /\ st = "called" /\ st' = "idle" /\ last' = "panic" /\ UNCHANGED <<api, part>>
Generate == st = "idle" /\ last = "ok" /\ api = "Compile" /\ last' = "emitted" /\ EmitPart(part) /\ UNCHANGED <<st, api, part>>

Next == (\E a \in APIs : Call(a)) \/ (\E o \in Returned : Return(o)) \/ Panic \/ Generate
Spec == Init /\ [][Next]_vars /\ WF_vars(\E o \in Returned : Return(o))

OutcomesAreReturns == last \in Returned \cup {"none", "emitted"}
EveryCallReturns == (st = "called") ~> (st = "idle")
=============================================================================
