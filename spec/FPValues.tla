------------------------------ MODULE FPValues ------------------------------
(***************************************************************************)
(* The abstract domain shared by every module (DESIGN.md section 3.1) and  *)
(* the comparison of an observed outcome with a permitted one.             *)
(*                                                                         *)
(* Items are records with a tag t:                                         *)
(*   [t |-> "b", b]            Boolean                                     *)
(*   [t |-> "i", i]            Integer (int32)                             *)
(*   [t |-> "d", neg, m, e]    Decimal  (-1)^neg * m * 10^e, m = little-   *)
(*                             endian base-10^4 limbs without trailing     *)
(*                             decimal zeros; zero is (FALSE, <<>>, 0)     *)
(*   [t |-> "s", cp]           String as a sequence of code points         *)
(*   [t |-> "date", p, y, mo, d]                                           *)
(*   [t |-> "time", p, h, mi, sec, ms, fd]                                 *)
(*   [t |-> "dt", p, y, mo, d, h, mi, sec, ms, fd, tz, off]                *)
(*   [t |-> "q", val, unit]    Quantity (unit = code points)               *)
(*   [t |-> "el", r, addr, ft, fk, pn, h, wrapped, v]                      *)
(*                             a FHIR element: resource number r and       *)
(*                             address addr in the input forest (r = 0:    *)
(*                             not an input node), FHIR type ft, content   *)
(*                             hash h, primitive value v                   *)
(*   [t |-> "nil"], [t |-> "unk"]  never permitted                         *)
(* Outcomes: [k |-> "ok", items], [k |-> "err", cls, msg],                 *)
(*   [k |-> "cerr", cls, msg] (Compile failed), [k |-> "panic"],           *)
(*   [k |-> "timeout"].                                                    *)
(***************************************************************************)
EXTENDS Naturals, Integers, Sequences, FiniteSets, TLC

B(x)  == [t |-> "b", b |-> x]
I(x)  == [t |-> "i", i |-> x]
S(cp) == [t |-> "s", cp |-> cp]

Ok(items) == [k |-> "ok", items |-> items]
ErrAny    == [k |-> "err"]
CErrAny   == [k |-> "cerr"]

Range(f) == {f[x] : x \in DOMAIN f}
Has(r, f) == f \in DOMAIN r

MinInt32 == -2147483647 - 1
MaxInt32 == 2147483647

(* Structural equality of two items of the same tag.  Elements are the same  *)
(* when they are the same input node, or - for elements that are not input  *)
(* nodes - when their content hashes agree.                                 *)
SameElement(x, y) ==
  IF x.r # 0 /\ y.r # 0 THEN x.r = y.r /\ x.addr = y.addr
  ELSE x.h = y.h

ItemSame(x, y) ==
  /\ x.t = y.t
  /\ CASE x.t = "el" -> SameElement(x, y)
       [] x.t = "b"  -> x.b = y.b
       [] x.t = "i"  -> x.i = y.i
       [] x.t = "s"  -> x.cp = y.cp
       [] x.t = "d"  -> x.neg = y.neg /\ x.m = y.m /\ x.e = y.e
       [] x.t = "q"  -> x.val.neg = y.val.neg /\ x.val.m = y.val.m /\ x.val.e = y.val.e /\ x.unit = y.unit
       [] x.t = "date" -> x.p = y.p /\ x.y = y.y /\ x.mo = y.mo /\ x.d = y.d
       [] x.t = "time" -> x.p = y.p /\ x.h = y.h /\ x.mi = y.mi /\ x.sec = y.sec /\ x.ms = y.ms
       [] x.t = "dt" -> /\ x.p = y.p /\ x.y = y.y /\ x.mo = y.mo /\ x.d = y.d /\ x.h = y.h
                        /\ x.mi = y.mi /\ x.sec = y.sec /\ x.ms = y.ms /\ x.tz = y.tz /\ x.off = y.off
       [] OTHER -> FALSE

SeqSame(a, b) == Len(a) = Len(b) /\ \A j \in 1..Len(a) : ItemSame(a[j], b[j])

(* Does an observed outcome satisfy an expected one?  An expected error     *)
(* matches an error of any class (the properties never fix error texts).    *)
OutcomeIs(obs, exp) ==
  /\ obs.k = exp.k
  /\ (exp.k = "ok" => SeqSame(obs.items, exp.items))

OutcomeIn(obs, permitted) == \E e \in permitted : OutcomeIs(obs, e)

IsFailure(obs) == obs.k \in {"panic", "timeout"}

(* ASCII rendering helpers for signatures. *)
KindOf(obs) == IF obs.k = "ok" THEN "ok" \o ToString(Len(obs.items)) ELSE obs.k
=============================================================================
