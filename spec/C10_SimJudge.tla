---------------------------- MODULE C10_SimJudge ----------------------------
(* Judge for the simulated programs: observation [id, ast, src, out].  Source text and tree are tied by re-rendering. *)
EXTENDS C10_Prog

Obs == ndJsonDeserialize(ObsFile)
NObs == Len(Obs)
W == 16

Verdict(o) ==
  LET r == Eval(o.ast, Env(BaseVars), Input)
      textOk == Render(o.ast) = o.src
      good == /\ ~IsFailure(o.out)
              /\ CASE r.k = "any" -> TRUE
                   [] r.k = "err" -> o.out.k \in {"err", "cerr"}
                   [] r.k = "ok"  -> o.out.k = "ok" /\ SeqSame(o.out.items, r.items)
  IN [id |-> o.id, ok |-> good /\ textOk, open |-> r.k = "any",
      sig |-> IF good /\ textOk THEN "" ELSE IF ~textOk THEN "malformed|rendering-differs"
              ELSE "machine|" \o (IF o.ast.k = "call" THEN o.ast.f ELSE o.ast.k) \o "|got-" \o KindOf(o.out) \o "|want-" \o (IF r.k = "ok" THEN "ok" \o ToString(Len(r.items)) ELSE r.k),
      want |-> IF r.k = "ok" THEN r.items ELSE <<>>]

VARIABLE i
JInit == i \in 1..(IF NObs < W THEN NObs ELSE W) /\ PrintT(ToJson(Verdict(Obs[i])))
JNext == i + W <= NObs /\ i' = i + W /\ PrintT(ToJson(Verdict(Obs[i'])))
JSpec == JInit /\ [][JNext]_i
=============================================================================
