------------------------------ MODULE C10_Judge ------------------------------
(* Judge for C10: observation [id, cs, src, out]; the verdict is C10!Accepts. *)
EXTENDS C10

Obs == ndJsonDeserialize(ObsFile)
NObs == Len(Obs)
W == 16

(* the one deviation of exclude() that is a listed known finding: the result is the  *)
(* expected collection followed by the argument's items that are not in the input     *)
ExcludeAppendsArgument(c, obs) ==
  /\ c.shape = "setfn" /\ c.fn = "exclude" /\ obs.k = "ok"
  /\ LET r == Outcome(c)
         d == DItems(c.f, DSpecs[c.a])
         ci == FocusItems(c.f).items
         extra == SubsetOrdered(d, [j \in 1..Len(d) |-> ~Member(d[j], ci)])
     IN r.k = "ok" /\ Len(extra) > 0 /\ SeqSame(obs.items, r.items \o extra)

Verdict(o) ==
  LET c == o.cs
      good == Accepts(c, o.out)
      r == IF IsSetShape(c) THEN EAny ELSE Outcome(c)
  IN [id |-> o.id, ok |-> good,
      sig |-> IF good THEN "" ELSE IF ExcludeAppendsArgument(c, o.out) THEN "coll|exclude|appends-argument-items-not-in-input" ELSE "coll|" \o c.shape \o "|" \o c.fn \o "|" \o Foci[c.f].id \o "|" \o ToString(c.a) \o "|" \o ToString(c.b)
                                 \o "|got-" \o KindOf(o.out) \o "|want-" \o (IF r.k = "ok" THEN "ok" \o ToString(Len(r.items)) ELSE r.k),
      open |-> r.k = "any" /\ ~IsSetShape(c),
      want |-> IF r.k = "ok" THEN r.items ELSE <<>>]

VARIABLE i
Init == i \in 1..(IF NObs < W THEN NObs ELSE W) /\ PrintT(ToJson(Verdict(Obs[i])))
Next == i + W <= NObs /\ i' = i + W /\ PrintT(ToJson(Verdict(Obs[i'])))
Spec == Init /\ [][Next]_i
=============================================================================
