-------------------------------- MODULE C10 --------------------------------
(***************************************************************************)
(* Property C10: filtering, projection, subsetting and set functions obey  *)
(* the collection algebra.  Case space and oracle on top of FPEval.        *)
(*                                                                         *)
(* A case applies one function (or a short pipeline) to a focus collection *)
(* c.  Foci are list-valued paths of model resource MR1 (complex,          *)
(* primitive, with duplicate content, with extensions, empty) and          *)
(* collections supplied as environment variables.  Criteria p, projections *)
(* e, integers n and overlap collections d come from the pools below.      *)
(***************************************************************************)
EXTENDS FPEval, Json, Params

MR == JsonDeserialize(ModelFile)          \* annotated trees of MR1..MR4
Sch == JsonDeserialize(ModelSchemaFile)
Forest == <<MR.MR1, MR.MR4>>
Input == <<RefOf(Forest, 1, <<>>)>>       \* only MR1 is evaluated; MR4 supplies equal-content twins
Input4 == <<RefOf(Forest, 2, <<>>)>>

DecOne == [t |-> "d", neg |-> FALSE, m |-> <<1>>, e |-> 0]
DecN(n) == [t |-> "d", neg |-> FALSE, m |-> <<n>>, e |-> 0]
BaseVars == [ints  |-> <<I(1), I(2), I(2), I(3)>>,
             mixed |-> <<I(1), S(<<97>>), DecOne, I(2), S(<<97>>)>>,
             none  |-> <<>>,
             \* a Decimal BEFORE an Integer equal to it (and a second spelling of it behind): 2.0, 2, 'a', 2.00, 3, 3.0
             decint |-> <<DecN(2), I(2), S(<<97>>), DecN(2), I(3), DecN(3)>>,
             \* items of different types that print alike: 1, '1', true, 'true', 1.0 (= 1), '1.0'
             looks |-> <<I(1), S(<<49>>), B(TRUE), S(<<116, 114, 117, 101>>), DecOne, S(<<49, 46, 48>>), I(1)>>]

(****************************** constructors *******************************)
RootE(n) == [k |-> "root", name |-> n]
Fld(in, n) == [k |-> "field", in |-> in, name |-> n]
Ix(in, i) == [k |-> "idx", in |-> in, i |-> i]
Lit1(x) == [k |-> "lit", items |-> <<x>>]
LitE == [k |-> "lit", items |-> <<>>]
Var(n) == [k |-> "var", name |-> n]
Call(in, f, args) == [k |-> "call", in |-> in, f |-> f, args |-> args]
Bin(op, l, r) == [k |-> "bin", op |-> op, l |-> l, r |-> r]
Pat == RootE("Patient")
Str(s) == S(s)                              \* s: code points

(********************************* pools ***********************************)
(* foci: text, expression, whether a twin of item j exists in MR4 under the same text *)
Foci == <<
  [id |-> "name",   txt |-> "Patient.name",                 e |-> Fld(Pat, "name"), twin |-> TRUE],
  [id |-> "given",  txt |-> "Patient.name.given",           e |-> Fld(Fld(Pat, "name"), "given"), twin |-> TRUE],
  [id |-> "tel",    txt |-> "Patient.telecom",              e |-> Fld(Pat, "telecom"), twin |-> TRUE],
  [id |-> "ident",  txt |-> "Patient.identifier",           e |-> Fld(Pat, "identifier"), twin |-> TRUE],
  [id |-> "ext",    txt |-> "Patient.extension",            e |-> Fld(Pat, "extension"), twin |-> TRUE],
  [id |-> "gp",     txt |-> "Patient.generalPractitioner",  e |-> Fld(Pat, "generalPractitioner"), twin |-> TRUE],
  [id |-> "photo",  txt |-> "Patient.photo",                e |-> Fld(Pat, "photo"), twin |-> TRUE],
  [id |-> "pref",   txt |-> "Patient.communication.preferred", e |-> Fld(Fld(Pat, "communication"), "preferred"), twin |-> TRUE],
  [id |-> "rank",   txt |-> "Patient.telecom.rank",         e |-> Fld(Fld(Pat, "telecom"), "rank"), twin |-> TRUE],
  [id |-> "pat",    txt |-> "Patient",                      e |-> Pat, twin |-> TRUE],
  [id |-> "ints",   txt |-> "%ints",                        e |-> Var("ints"), twin |-> TRUE],
  [id |-> "mixed",  txt |-> "%mixed",                       e |-> Var("mixed"), twin |-> TRUE],
  [id |-> "none",   txt |-> "%none",                        e |-> Var("none"), twin |-> TRUE],
  [id |-> "bdate",  txt |-> "Patient.birthDate",            e |-> Fld(Pat, "birthDate"), twin |-> TRUE],
  [id |-> "family", txt |-> "Patient.name.family",          e |-> Fld(Fld(Pat, "name"), "family"), twin |-> TRUE],
  [id |-> "looks",  txt |-> "%looks",                       e |-> Var("looks"), twin |-> TRUE],
  [id |-> "decint", txt |-> "%decint",                      e |-> Var("decint"), twin |-> TRUE],
  \* a focus whose FIRST item lacks an element the later ones have (family): projections of it start with nothing
  [id |-> "nameTail", txt |-> "Patient.name.tail()",        e |-> Call(Fld(Pat, "name"), "tail", <<>>), twin |-> TRUE] >>

A(s) == s   \* ASCII source fragments are TLA+ strings

Official == <<111, 102, 102, 105, 99, 105, 97, 108>>
Smith == <<83, 109, 105, 116, 104>>
John == <<74, 111, 104, 110>>
UrlBirth == <<104, 116, 116, 112, 58, 47, 47, 104, 108, 55, 46, 111, 114, 103, 47, 102, 104, 105, 114, 47, 83, 116, 114, 117, 99, 116, 117, 114, 101, 68, 101, 102, 105, 110, 105, 116, 105, 111, 110, 47, 112, 97, 116, 105, 101, 110, 116, 45, 98, 105, 114, 116, 104, 84, 105, 109, 101>>
UrlA == <<104, 116, 116, 112, 58, 47, 47, 101, 120, 97, 109, 112, 108, 101, 46, 111, 114, 103, 47, 101, 120, 116, 47, 97>>

Criteria == <<
  [txt |-> "true",  e |-> Lit1(B(TRUE))],
  [txt |-> "false", e |-> Lit1(B(FALSE))],
  [txt |-> "{}",    e |-> LitE],
  [txt |-> "use = 'official'", e |-> Bin("=", Fld(This, "use"), Lit1(Str(Official)))],
  [txt |-> "given.count() > 1", e |-> Bin(">", Call(Fld(This, "given"), "count", <<>>), Lit1(I(1)))],
  [txt |-> "family.exists()", e |-> Call(Fld(This, "family"), "exists", <<>>)],
  [txt |-> "given", e |-> Fld(This, "given")],
  [txt |-> "use", e |-> Fld(This, "use")],
  [txt |-> "zzNoSuchElement", e |-> Fld(This, "zzNoSuchElement")],
  [txt |-> "family.empty()", e |-> Call(Fld(This, "family"), "empty", <<>>)],
  [txt |-> "$this.family = 'Smith'", e |-> Bin("=", Fld(This, "family"), Lit1(Str(Smith)))],
  [txt |-> "given.first() = 'John' and family.exists()",
     e |-> Bin("and", Bin("=", Call(Fld(This, "given"), "first", <<>>), Lit1(Str(John))), Call(Fld(This, "family"), "exists", <<>>))],
  [txt |-> "$this > 1", e |-> Bin(">", This, Lit1(I(1)))],
  [txt |-> "$this = 2", e |-> Bin("=", This, Lit1(I(2)))],
  [txt |-> "$this", e |-> This],
  [txt |-> "url = 'http://example.org/ext/a'", e |-> Bin("=", Fld(This, "url"), Lit1(Str(UrlA)))],
  [txt |-> "url = 'http://hl7.org/fhir/StructureDefinition/patient-birthTime'", e |-> Bin("=", Fld(This, "url"), Lit1(Str(UrlBirth)))],
  \* an iteration NESTED in the criterion, and the outer item read again after it: the inner items must not take its place
  [txt |-> "given.exists($this = 'John') and use = 'official'",
     e |-> Bin("and", Call(Fld(This, "given"), "exists", <<Bin("=", This, Lit1(Str(John)))>>), Bin("=", Fld(This, "use"), Lit1(Str(Official))))],
  [txt |-> "given.where($this = 'John').exists() and family.exists()",
     e |-> Bin("and", Call(Call(Fld(This, "given"), "where", <<Bin("=", This, Lit1(Str(John)))>>), "exists", <<>>), Call(Fld(This, "family"), "exists", <<>>))],
  [txt |-> "given.all($this != 'Smith') and use.exists()",
     e |-> Bin("and", Call(Fld(This, "given"), "all", <<Bin("!=", This, Lit1(Str(Smith)))>>), Call(Fld(This, "use"), "exists", <<>>))],
  [txt |-> "given.select($this).count() > 1 and family = 'Smith'",
     e |-> Bin("and", Bin(">", Call(Call(Fld(This, "given"), "select", <<This>>), "count", <<>>), Lit1(I(1))), Bin("=", Fld(This, "family"), Lit1(Str(Smith))))] >>

Projections == <<
  [txt |-> "given", e |-> Fld(This, "given")],
  [txt |-> "family", e |-> Fld(This, "family")],
  [txt |-> "$this", e |-> This],
  [txt |-> "use", e |-> Fld(This, "use")],
  [txt |-> "given.first()", e |-> Call(Fld(This, "given"), "first", <<>>)],
  [txt |-> "value", e |-> Fld(This, "value")],
  [txt |-> "{}", e |-> LitE],
  [txt |-> "extension", e |-> Fld(This, "extension")],
  [txt |-> "display", e |-> Fld(This, "display")],
  [txt |-> "iif(given.exists($this = 'John'), family, use)",
     e |-> Call(This, "iif", <<Call(Fld(This, "given"), "exists", <<Bin("=", This, Lit1(Str(John)))>>), Fld(This, "family"), Fld(This, "use")>>)] >>

(* overlap collections for the set functions, described by tokens:          *)
(*   [src |-> "focus", j]   the j-th item of c (1-based; skipped if absent)   *)
(*   [src |-> "mr4", j]     the j-th item of the same path evaluated on MR4   *)
(*   [src |-> "val", item]  a System value                                    *)
Tok(src, j, item) == [src |-> src, j |-> j, item |-> item]
NoItem == [t |-> "none"]
DSpecs == <<
  <<>>,
  <<Tok("focus", 1, NoItem)>>,
  <<Tok("focus", 3, NoItem), Tok("focus", 1, NoItem)>>,
  <<Tok("focus", 1, NoItem), Tok("focus", 2, NoItem), Tok("focus", 3, NoItem), Tok("focus", 4, NoItem), Tok("focus", 5, NoItem)>>,
  <<Tok("mr4", 1, NoItem)>>,
  <<Tok("mr4", 2, NoItem), Tok("focus", 2, NoItem)>>,
  <<Tok("val", 0, I(2))>>,
  <<Tok("val", 0, DecOne), Tok("val", 0, S(<<122, 122>>))>>,
  <<Tok("focus", 1, NoItem), Tok("focus", 1, NoItem)>> >>

(****************************** evaluation *********************************)
Env(vars) == [forest |-> Forest, sch |-> Sch, vars |-> vars]
FocusItems(f) == Eval(Foci[f].e, Env(BaseVars), Input)
TwinItems(f)  == Eval(Foci[f].e, Env(BaseVars), Input4)

DItems(f, ds) ==
  LET c == FocusItems(f).items
      t == TwinItems(f).items
      one(tk) == CASE tk.src = "focus" -> (IF tk.j <= Len(c) THEN <<c[tk.j]>> ELSE <<>>)
                   [] tk.src = "mr4"   -> (IF tk.j <= Len(t) THEN <<t[tk.j]>> ELSE <<>>)
                   [] OTHER            -> <<tk.item>>
  IN FlattenSeq([q \in 1..Len(ds) |-> one(ds[q])])

(* A case: [f, shape, a, b] with shape-specific small integer parameters.   *)
(* Prog gives the expression and its source text.                           *)
IntText(n) == IF n < 0 THEN "(" \o ToString(n) \o ")" ELSE ToString(n)
Prog(c) ==
  LET F == Foci[c.f]  ce == F.e  ct == F.txt
      P == Criteria[IF c.a \in 1..Len(Criteria) THEN c.a ELSE 1]
      E == Projections[IF c.a \in 1..Len(Projections) THEN c.a ELSE 1]
      P2 == Criteria[IF c.b \in 1..Len(Criteria) THEN c.b ELSE 1]
      nLit == Lit1(I(c.a))
  IN CASE c.shape = "where"  -> [e |-> Call(ce, "where", <<P.e>>), txt |-> ct \o ".where(" \o P.txt \o ")"]
       [] c.shape = "exists" -> [e |-> Call(ce, "exists", <<P.e>>), txt |-> ct \o ".exists(" \o P.txt \o ")"]
       [] c.shape = "whereExists" -> [e |-> Call(Call(ce, "where", <<P.e>>), "exists", <<>>), txt |-> ct \o ".where(" \o P.txt \o ").exists()"]
       [] c.shape = "all"    -> [e |-> Call(ce, "all", <<P.e>>), txt |-> ct \o ".all(" \o P.txt \o ")"]
       [] c.shape = "select" -> [e |-> Call(ce, "select", <<E.e>>), txt |-> ct \o ".select(" \o E.txt \o ")"]
       [] c.shape = "whereSelect" -> [e |-> Call(Call(ce, "where", <<P2.e>>), "select", <<E.e>>), txt |-> ct \o ".where(" \o P2.txt \o ").select(" \o E.txt \o ")"]
       [] c.shape = "selectDistinct" -> [e |-> Call(Call(ce, "select", <<E.e>>), "distinct", <<>>), txt |-> ct \o ".select(" \o E.txt \o ").distinct()"]
       [] c.shape = "selectSub" -> [e |-> Call(Call(ce, "select", <<E.e>>), c.fn, <<>>), txt |-> ct \o ".select(" \o E.txt \o ")." \o c.fn \o "()"]
       [] c.shape = "selectIdx" -> [e |-> Ix(Call(ce, "select", <<E.e>>), c.b), txt |-> ct \o ".select(" \o E.txt \o ")[" \o ToString(c.b) \o "]"]
       [] c.shape = "whereSub" -> [e |-> Call(Call(ce, "where", <<P.e>>), c.fn, <<>>), txt |-> ct \o ".where(" \o P.txt \o ")." \o c.fn \o "()"]
       [] c.shape = "fn0"    -> [e |-> Call(ce, c.fn, <<>>), txt |-> ct \o "." \o c.fn \o "()"]
       [] c.shape = "countEq0" -> [e |-> Bin("=", Call(ce, "count", <<>>), Lit1(I(0))), txt |-> ct \o ".count() = 0"]
       [] c.shape = "idx"    -> [e |-> Ix(ce, c.a), txt |-> ct \o "[" \o ToString(c.a) \o "]"]
       [] c.shape = "fnN"    -> [e |-> Call(ce, c.fn, <<nLit>>), txt |-> ct \o "." \o c.fn \o "(" \o IntText(c.a) \o ")"]
       [] c.shape = "fnVarN" -> [e |-> Call(ce, c.fn, <<Var("n")>>), txt |-> ct \o "." \o c.fn \o "(%n)"]
       [] c.shape = "takeSkip" -> [e |-> Call(Call(ce, "take", <<nLit>>), "skip", <<Lit1(I(c.b))>>), txt |-> ct \o ".take(" \o IntText(c.a) \o ").skip(" \o IntText(c.b) \o ")"]
       [] c.shape = "tailTake" -> [e |-> Call(Call(ce, "tail", <<>>), "take", <<nLit>>), txt |-> ct \o ".tail().take(" \o IntText(c.a) \o ")"]
       [] c.shape = "distinctCount" -> [e |-> Call(Call(ce, "distinct", <<>>), "count", <<>>), txt |-> ct \o ".distinct().count()"]
       [] c.shape = "setfn"  -> [e |-> Call(ce, c.fn, <<Var("d")>>), txt |-> ct \o "." \o c.fn \o "(%d)"]
       [] c.shape = "ext"    -> (IF c.a = 0 THEN [e |-> Call(ce, "extension", <<Lit1(Str(UrlA))>>), txt |-> ct \o ".extension('http://example.org/ext/a')"]
                                 ELSE [e |-> Call(ce, "extension", <<Lit1(Str(UrlBirth))>>), txt |-> ct \o ".extension('http://hl7.org/fhir/StructureDefinition/patient-birthTime')"])
       [] c.shape = "extWhere" -> (IF c.a = 0 THEN [e |-> Call(Fld(ce, "extension"), "where", <<Criteria[16].e>>), txt |-> ct \o ".extension.where(url = 'http://example.org/ext/a')"]
                                 ELSE [e |-> Call(Fld(ce, "extension"), "where", <<Criteria[17].e>>), txt |-> ct \o ".extension.where(url = 'http://hl7.org/fhir/StructureDefinition/patient-birthTime')"])

VarsOf(c) ==
  CASE c.shape = "setfn"  -> [ints |-> BaseVars.ints, mixed |-> BaseVars.mixed, none |-> BaseVars.none, decint |-> BaseVars.decint, looks |-> BaseVars.looks, d |-> DItems(c.f, DSpecs[c.a])]
    [] c.shape = "fnVarN" -> [ints |-> BaseVars.ints, mixed |-> BaseVars.mixed, none |-> BaseVars.none, decint |-> BaseVars.decint, looks |-> BaseVars.looks, n |-> <<I(c.a)>>]
    [] OTHER -> BaseVars

Outcome(c) == Eval(Prog(c).e, Env(VarsOf(c)), Input)

Case(f, shape, fn, a, b) == [f |-> f, shape |-> shape, fn |-> fn, a |-> a, b |-> b]

NFoci == Len(Foci)
CountOf(f) == Len(FocusItems(f).items)
NRange(f) == (-3)..(CountOf(f) + 3)

CasesOf(f) ==
  {Case(f, sh, "-", p, 0) : sh \in {"where", "exists", "whereExists", "all"}, p \in 1..Len(Criteria)}
  \cup {Case(f, "select", "-", e, 0) : e \in 1..Len(Projections)}
  \cup {Case(f, "whereSelect", "-", e, p) : e \in {1, 3, 5}, p \in {1, 4, 5, 13}}
  \cup {Case(f, "selectDistinct", "-", e, 0) : e \in {1, 2, 3, 4}}
  \* a projection / a filter feeding a positional function directly: first() = [0], on results that start later than the focus
  \cup {Case(f, "selectSub", fn, e, 0) : fn \in {"first", "last", "tail", "count"}, e \in 1..Len(Projections)}
  \cup {Case(f, "selectIdx", "-", e, 0) : e \in 1..Len(Projections)}
  \cup {Case(f, "whereSub", fn, p, 0) : fn \in {"first", "last", "tail"}, p \in {4, 5, 6, 10, 13, 14}}
  \cup {Case(f, "fn0", fn, 0, 0) : fn \in {"empty", "count", "exists", "first", "last", "tail", "distinct", "isDistinct", "not", "allTrue", "anyTrue", "allFalse", "anyFalse"}}
  \cup {Case(f, "countEq0", "-", 0, 0), Case(f, "distinctCount", "-", 0, 0), Case(f, "ext", "-", 0, 0), Case(f, "extWhere", "-", 0, 0),
        Case(f, "ext", "-", 1, 0), Case(f, "extWhere", "-", 1, 0)}
  \cup {Case(f, "idx", "-", n, 0) : n \in 0..(CountOf(f) + 2)}
  \cup {Case(f, "fnN", fn, n, 0) : fn \in {"take", "skip"}, n \in NRange(f)}
  \cup {Case(f, "fnVarN", fn, n, 0) : fn \in {"take", "skip"}, n \in {MinInt32, MaxInt32, 0, 1}}
  \cup {Case(f, "takeSkip", "-", n, n) : n \in NRange(f)}
  \cup {Case(f, "tailTake", "-", n, 0) : n \in 0..2}
  \cup {Case(f, "setfn", fn, d, 0) : fn \in {"exclude", "intersect"}, d \in 1..Len(DSpecs)}

CaseId(c) == Foci[c.f].id \o "/" \o c.shape \o "/" \o c.fn \o "/" \o ToString(c.a) \o "/" \o ToString(c.b)

(* Acceptance of an observed outcome (obs: ok/err/cerr/panic/timeout). *)
IsSetShape(c) == (c.shape = "setfn" /\ c.fn = "intersect") \/ (c.shape = "fn0" /\ c.fn = "distinct") \/ c.shape = "selectDistinct"

Accepts(c, obs) ==
  IF IsFailure(obs) THEN FALSE
  ELSE IF c.shape = "fn0" /\ c.fn = "distinct" THEN
       obs.k = "ok" /\ DistinctOk(FocusItems(c.f).items, obs.items)
  ELSE IF c.shape = "selectDistinct" THEN
       (LET sel == Eval(Call(Foci[c.f].e, "select", <<Projections[c.a].e>>), Env(BaseVars), Input)
        IN IF sel.k = "ok" THEN obs.k = "ok" /\ DistinctOk(sel.items, obs.items) ELSE TRUE)
  ELSE IF c.shape = "setfn" /\ c.fn = "intersect" THEN
       (IF CountOf(c.f) = 0 THEN obs.k = "ok" /\ Len(obs.items) = 0
        ELSE obs.k = "ok" /\ IntersectOk(FocusItems(c.f).items, DItems(c.f, DSpecs[c.a]), obs.items))
  ELSE LET r == Outcome(c) IN
       CASE r.k = "any" -> TRUE
         [] r.k = "err" -> obs.k \in {"err", "cerr"}
         [] r.k = "ok"  -> obs.k = "ok" /\ SeqSame(obs.items, r.items)
=============================================================================
