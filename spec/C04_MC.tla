------------------------------- MODULE C04_MC -------------------------------
(***************************************************************************)
(* Role 1 (model checker) and role 2 (generator) for property C04.         *)
(* The FPRegistry machine is explored under four families of constants:    *)
(*   Model*   exhaustive interleaving model: invariants and mutant twins   *)
(*   Hist*    sequential Compile-call histories; each prefix is emitted    *)
(*            when its last call completes                                 *)
(*   Sched*   gated evaluations of ONE expression on ONE resource; every   *)
(*            interleaving of their critical sections is emitted as a      *)
(*            schedule when it is complete                                 *)
(*   Time*    single evaluations of time programs with and without         *)
(*            OverrideTime (replayed under four process time zones)        *)
(***************************************************************************)
EXTENDS FPRegistry, C04, Json

CC(api, os, prog, c) == [api |-> api, opts |-> os, prog |-> prog, eid |-> c]
EC(e, r, os) == [eid |-> e, r |-> r, opts |-> os]

----------------------------------------------------------------------------
(* Model configurations *)
MP1 == <<NNow, NEnv("x"), NFn("vfA"), NToday>>
MP2 == <<NEnv("x"), NFn("exists"), NRes, NTod>>
MP3 == <<NFn("join"), NBogus, NNow>>

(* two goroutines, rich Compile menus (option lists of length <= 2) *)
ModelCompileMenu ==
  [c \in CSlots |->
     IF c = 1 THEN {CC("fhirpath", <<OAdd("vfA")>>, MP1, 1),
                    CC("patch", <<OAdd("vfA"), OAdd("vfA")>>, MP1, 1),
                    CC("fhirpath", <<OAdd("join"), OExp>>, MP3, 1),
                    CC("fhirpath", <<OExp, OAdd("join")>>, MP3, 1),
                    CC("patch", <<OExp, OPerm>>, MP3, 1)}
     ELSE {CC("fhirpath", <<>>, MP1, c),
           CC("fhirpath", <<OAdd("vfA")>>, MP1, c),
           CC("patch", <<OAdd("exists")>>, MP2, c),
           CC("fhirpath", <<OXform, OPerm>>, MP2, c),
           CC("patch", <<OXform>>, MP2, c),
           CC("fhirpath", <<>>, MP3, c)}]
ModelEvalMenu ==
  [v \in VSlots |->
     IF v = 1 THEN {EC(1, 1, <<OTime(7, 330), OEnv("x", 1)>>)}
     ELSE IF v = 2 THEN {EC(e, r, <<OEnv("x", 2)>>) : e \in {1, 2}, r \in {1, 2}} \cup {EC(2, 1, <<OEnv("x", 3), OEnv("x", 3)>>)}
     ELSE {EC(1, 2, <<OEnv("y", 3)>>), EC(1, 1, <<OEnv("x", 3), OTime(9, 0)>>)}]

(* three goroutines sharing expression 1 (and 2), leaner menus *)
MQ1 == <<NNow, NEnv("x"), NFn("vfA"), NTod>>
Model3CompileMenu ==
  [c \in CSlots |->
     IF c = 1 THEN {CC("fhirpath", <<OAdd("vfA")>>, MQ1, 1)}
     ELSE {CC("fhirpath", <<>>, MQ1, c), CC("patch", <<OExp, OAdd("vfA")>>, MQ1, c),
           CC("fhirpath", <<OAdd("now"), OAdd("vfA")>>, MQ1, c)}]
Model3EvalMenu ==
  [v \in VSlots |->
     IF v = 1 THEN {EC(1, 1, <<OTime(7, 330), OEnv("x", 1)>>)}
     ELSE IF v = 2 THEN {EC(1, 2, <<OEnv("x", 2)>>), EC(2, 1, <<OEnv("x", 2)>>)}
     ELSE {EC(1, 1, <<OEnv("x", 3), OEnv("x", 3)>>), EC(1, 1, <<OEnv("x", 3)>>)}]

----------------------------------------------------------------------------
(* Histories of Compile calls *)
HistAlphabet == {OAdd("vfA"), OAdd("vfB"), OAdd("exists"), OAdd("join"), OExp, OPerm, OXform}
OptLists(A, n) == UNION {[1..m -> A] : m \in 0..n}
HasOpt(os, o) == \E k \in 1..Len(os) : os[k].o = o
FirstAdd(os) == os[CHOOSE k \in 1..Len(os) : os[k].o = "add" /\ \A j \in 1..(k - 1) : os[j].o # "add"].name
(* the program a history call compiles is determined by its options: it calls *)
(* the first function it registers, else join() when experimental functions   *)
(* are requested, else the navigation only Permissive tolerates, else vfA()   *)
(* - which resolves only if a registration has leaked from another call.      *)
ProgOf(os) == IF HasOpt(os, "add") THEN <<NFn(FirstAdd(os))>>
              ELSE IF HasOpt(os, "exp") THEN <<NFn("join")>>
              ELSE IF HasOpt(os, "perm") THEN <<NBogus>>
              ELSE <<NFn("vfA")>>
HistMenuN(n) == [c \in CSlots |-> {CC(api, os, ProgOf(os), c) : api \in {"fhirpath", "patch"}, os \in OptLists(HistAlphabet, n)}]
HistMenu2 == HistMenuN(2)
HistMenu1 == HistMenuN(1)
NoEvalMenu == [v \in VSlots |-> {}]

RECURSIVE HistId(_, _, _)
HistId(st, j, n) == IF j > n THEN "" ELSE (IF j > 1 THEN "." ELSE "") \o CallCode(st[j].call) \o HistId(st, j + 1, n)

ConcCCall(call, text) == [api |-> call.api, opts |-> call.opts, prog |-> call.prog, eid |-> call.eid, text |-> text,
                          style |-> IF text = RenderConcat(call.prog) THEN "concat" ELSE "emit"]
HistCase(st, n) == [id |-> "h:" \o HistId(st, 1, n), kind |-> "hist",
                    calls |-> [j \in 1..n |-> ConcCCall(st[j].call, RenderBare(st[j].call.prog))]]

HistNext == /\ Next
            /\ last'.act = "Parse" => PrintT(ToJson(HistCase(cs', last'.id)))
HistSpec == Init /\ [][HistNext]_vars

----------------------------------------------------------------------------
(* Schedules *)
SchedProgA == <<NEnv("x"), NNow, NGate(1), NFn("vfA"), NEnv("x"), NToday, NTod, NRes>>
SchedProgB == <<NNow, NEnv("x"), NGate(1), NFn("vfA"), NToday, NGate(2), NEnv("x"), NNow, NTod, NRes>>
SchedProgC == <<NEnv("x"), NGate(1), NNow, NFn("vfA"), NGate(2), NEnv("x"), NTod>>
SchedProgD == <<NGate(1), NEnv("x"), NFn("vfA"), NGate(2), NEnv("x")>>       \* written in "concat" style
SchedCompileD == [c \in CSlots |-> {CC("fhirpath", <<OAdd("vfA")>>, SchedProgD, 1)}]
ConcatProgs == {SchedProgD}
RenderSched(prog) == IF prog \in ConcatProgs THEN RenderConcat(prog) ELSE RenderEmit(prog)
SchedCompileA == [c \in CSlots |-> {CC("fhirpath", <<OAdd("vfA")>>, SchedProgA, 1)}]
SchedCompileB == [c \in CSlots |-> {CC("fhirpath", <<OAdd("vfA")>>, SchedProgB, 1)}]
SchedCompileC == [c \in CSlots |-> {CC("fhirpath", <<OAdd("vfA")>>, SchedProgC, 1)}]
SchedEvalMenu ==
  [v \in VSlots |->
     IF v = 1 THEN {EC(1, 1, <<OEnv("id", 1), OEnv("x", 11), OTime(7, 330)>>)}
     ELSE IF v = 2 THEN {EC(1, 1, <<OEnv("id", 2), OEnv("x", 12)>>)}
     ELSE {EC(1, 1, <<OEnv("id", 3), OTime(9, -210), OEnv("x", 13)>>)}]
(* coarse variant: fewer critical sections per evaluation *)
SchedEvalMenuShort ==
  [v \in VSlots |->
     IF v = 1 THEN {EC(1, 1, <<OEnv("id", 1), OEnv("x", 11)>>)}
     ELSE IF v = 2 THEN {EC(1, 1, <<OEnv("id", 2), OEnv("x", 12)>>)}
     ELSE {EC(1, 1, <<OEnv("id", 3), OEnv("x", 13)>>)}]

EvalActs == {"EvalInit", "ApplyEvalOpt", "FailOnOptionError", "NodeStep"}
EvalSteps(h) == SelectSeq(h, LAMBDA s : s.act \in EvalActs)
RECURSIVE StepDigits(_, _)
StepDigits(h, i) == IF i > Len(h) THEN "" ELSE ToString(h[i].id) \o StepDigits(h, i + 1)
SchedCase(h, st, compile) ==
  LET steps == EvalSteps(h)
  IN [id |-> "s:" \o (IF compile.prog \in ConcatProgs THEN "c" ELSE "") \o ToString(Len(compile.prog)) \o "g" \o ToString(Cardinality(VSlots)) \o ":" \o StepDigits(steps, 1), kind |-> "sched",
      compile |-> ConcCCall(compile, RenderSched(compile.prog)),
      evals |-> [v \in 1..Cardinality(VSlots) |-> ConcECall(v, st[v].call)],
      steps |-> [i \in 1..Len(steps) |-> [v |-> steps[i].id, act |-> steps[i].act, k |-> steps[i].k]]]

AllEvalsOver(st) == \A v \in VSlots : st[v].pc \in {"done", "failed"}
SchedNext == /\ Next
             /\ (last'.act \in EvalActs /\ AllEvalsOver(es')) => PrintT(ToJson(SchedCase(hist', es', cs[1].call)))
SchedSpec == InitChosen /\ [][SchedNext]_vars

----------------------------------------------------------------------------
(* Time programs *)
TimeProgs == {<<NNow, NPause, NNow, NToday, NTod>>,
              <<NToday, NPause, NNow, NTod, NPause, NNow>>,
              <<NTod, NNow, NToday>>}
TimeOptLists == {<<>>} \cup {<<OTime(i, off)>> : i \in OverrideInstants, off \in Offsets}
                \cup {<<OTime(7, 0), OTime(9, 330)>>, <<OTime(8, 765), OEnv("x", 1), OTime(8, -210)>>}
TimeCompileMenu == [c \in CSlots |-> {CC("fhirpath", <<>>, p, 1) : p \in TimeProgs}]
TimeEvalMenu == [v \in VSlots |-> {EC(1, 1, os) : os \in TimeOptLists}]
RECURSIVE NodeCodes(_, _)
NodeCodes(p, i) == IF i > Len(p) THEN "" ELSE (CASE p[i].n = "now" -> "N" [] p[i].n = "today" -> "D" [] p[i].n = "tod" -> "T" [] p[i].n = "pause" -> "_" [] OTHER -> "?") \o NodeCodes(p, i + 1)
RECURSIVE EOptCodes(_, _)
EOptCodes(os, k) == IF k > Len(os) THEN "" ELSE (IF os[k].o = "time" THEN "t" \o ToString(os[k].inst) \o (IF os[k].off < 0 THEN "m" \o ToString(-os[k].off) ELSE "p" \o ToString(os[k].off)) ELSE "e") \o EOptCodes(os, k + 1)
TimeCase(st, compile) ==
  [id |-> "t:" \o NodeCodes(compile.prog, 1) \o ":" \o EOptCodes(st[1].call.opts, 1), kind |-> "time",
   compile |-> ConcCCall(compile, RenderEmit(compile.prog)),
   eval |-> ConcECall(1, st[1].call)]
TimeNext == /\ Next
            /\ (last'.act \in EvalActs /\ AllEvalsOver(es')) => PrintT(ToJson(TimeCase(es', cs[1].call)))
TimeSpec == InitChosen /\ [][TimeNext]_vars

----------------------------------------------------------------------------
(* The menu of the free-running stress test: shared model programs with    *)
(* their Compile calls and source text, the evaluate option lists a        *)
(* goroutine may use (with the calendar fields of every instant), and the  *)
(* Compile calls goroutines make on the side.  Emitted once (by C04_Menu,  *)
(* which adds the function-coverage programs); the harness draws from it   *)
(* with its seeded generator.                                              *)
RECURSIVE SetToSeq(_)
SetToSeq(ss) == IF ss = {} THEN <<>> ELSE LET x == CHOOSE x \in ss : TRUE IN <<x>> \o SetToSeq(ss \ {x})

StressShared ==
  <<CC("fhirpath", <<OAdd("vfA")>>, <<NEnv("x"), NNow, NFn("vfA"), NEnv("x"), NToday, NTod, NRes>>, 1),
    CC("fhirpath", <<OAdd("vfB"), OExp>>, <<NRes, NFn("vfB"), NNow, NEnv("x")>>, 2),
    CC("fhirpath", <<>>, <<NNow, NEnv("x"), NNow, NTod>>, 3)>>
StressEvalOpts ==
  {<<OEnv("x", x)>> : x \in 1..3}
  \cup {<<OEnv("x", x), OTime(i, off)>> : x \in 1..3, i \in OverrideInstants, off \in Offsets}
  \cup {<<OTime(i, off), OEnv("x", x)>> : x \in {2}, i \in {7}, off \in Offsets}
  \cup {<<OEnv("x", 1), OEnv("x", 2)>>}
StressBareProgs == {<<NFn("vfA")>>, <<NFn("vfB")>>, <<NBogus>>}
StressCompileCalls == {CC(api, os, p, 0) : api \in {"fhirpath", "patch"}, os \in OptLists(HistAlphabet, 2), p \in StressBareProgs}
StressMenu ==
  [kind |-> "stressmenu",
   shared |-> [j \in 1..Len(StressShared) |-> ConcCCall(StressShared[j], RenderEmit(StressShared[j].prog))],
   eopts |-> SetToSeq({[k \in 1..Len(os) |-> ConcEOpt(os[k])] : os \in StressEvalOpts}),
   ccalls |-> SetToSeq({ConcCCall(c, RenderBare(c.prog)) : c \in StressCompileCalls}),
   cover |-> <<>>]
=============================================================================
