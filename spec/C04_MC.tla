------------------------------- MODULE C04_MC -------------------------------
(***************************************************************************)
(* Role 1 (model checker) and role 2 (generator) for property C04.         *)
(* The FPRegistry machine is explored under three families of constants:   *)
(*   Model*    exhaustive interleaving model (invariants, mutant twins)    *)
(*   Hist*     sequential Compile-call histories, emitted when complete    *)
(*   Sched*    gated evaluations of ONE expression on ONE resource; every  *)
(*             interleaving is emitted as a schedule when it is complete   *)
(***************************************************************************)
EXTENDS FPRegistry, C04, Json

----------------------------------------------------------------------------
(* Model configuration *)
MP1 == <<NNow, NEnv("x"), NFn("vfA"), NToday>>
MP2 == <<NEnv("x"), NFn("exists"), NRes, NTod>>
MP3 == <<NFn("join"), NBogus, NNow>>
CC(api, os, prog, c) == [api |-> api, opts |-> os, prog |-> prog, eid |-> c]

ModelCompileMenu ==
  [c \in CSlots |->
     IF c = 1 THEN {CC("fhirpath", <<OAdd("vfA")>>, MP1, 1),
                    CC("patch", <<OAdd("vfA"), OAdd("vfA")>>, MP1, 1),
                    CC("fhirpath", <<OAdd("join"), OExp>>, MP3, 1),
                    CC("fhirpath", <<OExp, OAdd("join")>>, MP3, 1),
                    CC("patch", <<OExp, OPerm>>, MP3, 1)}
     ELSE {CC("fhirpath", <<>>, MP1, c),
           CC("fhirpath", <<OAdd("vfA")>>, MP1, c),
           CC("patch", <<OAdd("exists")>>, MP2, c),
           CC("fhirpath", <<OXform, OPerm>>, MP2, c),
           CC("patch", <<OXform>>, MP2, c),
           CC("fhirpath", <<>>, MP3, c)}]

EC(e, r, os) == [eid |-> e, r |-> r, opts |-> os]
ModelEvalMenu ==
  [v \in VSlots |->
     IF v = 1 THEN {EC(1, 1, <<OTime(7, 330), OEnv("x", 1)>>)}
     ELSE IF v = 2 THEN {EC(e, r, <<OEnv("x", 2)>>) : e \in {1, 2}, r \in {1, 2}} \cup {EC(2, 1, <<OEnv("x", 3), OEnv("x", 3)>>)}
     ELSE {EC(1, 2, <<OEnv("y", 3)>>), EC(1, 1, <<OEnv("x", 3), OTime(9, 0)>>)}]

AllInvariants ==
  /\ TypeOK /\ CompileIsolation /\ BuiltinsProtected /\ OneInstantPerEval
  /\ Determinism /\ ExprIsFunctionOfCall /\ OptionErrorBlocksEval
=============================================================================
