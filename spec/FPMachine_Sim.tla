---------------------------- MODULE FPMachine_Sim ----------------------------
(***************************************************************************)
(* Programs of the whole abstract machine.  A behaviour grows one          *)
(* expression, one tagged step per state (FPMachine!StepCat); there is one *)
(* behaviour per lane.  Choices are a function of (Seed, lane, depth), so  *)
(* a run is reproducible whatever the number of TLC workers.  Half of the  *)
(* steps are drawn from the categories of property Prop (the check that    *)
(* runs the machine), the others from all categories.                      *)
(***************************************************************************)
EXTENDS FPMachine, FiniteSetsExt

CONSTANTS MaxDepth, Lanes, Seed, Prop

VARIABLES ex, depth, lane, parent, prop
vars == <<ex, depth, lane, parent, prop>>

Key(l, d, salt) == (l * 7919 + d * 104729 + Seed * 15485 + salt * 611953) % 1000003
PickDet(set, key) == LET q == SetToSeq(set) IN q[(key % Len(q)) + 1]

CatsOf(p) == CASE p = "C02" -> {1} [] p = "C10" -> {1, 2, 3, 14} [] p = "C06" -> {4} [] p = "C05" -> {5, 14}
               [] p \in {"C08", "C09"} -> {6, 7}
               [] p = "C07" -> {2, 3, 5, 6, 7, 9, 10, 12} [] p = "C14" -> {8, 9} [] p = "C13" -> {10, 11} [] p = "C12" -> {12, 13}
               [] OTHER -> 1..NCat         \* C07 and anything else: all categories
Cats == 1..NCat

(* start expressions: every other lane starts inside the domain of the operations of Prop *)
ObsNum == {Fld(Fld(Fld(Obn, "referenceRange"), "low"), "value"), Fld(Fld(Fld(Obn, "referenceRange"), "high"), "value"), Fld(Fld(Obn, "value"), "value"),
           Ix(Fld(Fld(Obn, "component"), "value"), 1)}
ObsStr == {Fld(Fld(Fld(Obn, "component"), "code"), "text"), Fld(Fld(Obn, "value"), "unit"), Ix(Fld(Fld(Obn, "component"), "value"), 0), Fld(Fld(Obn, "subject"), "reference")}
ObsTemporal == {Fld(Obn, "effective"), Fld(Obn, "issued"), Ix(Fld(Fld(Obn, "component"), "value"), 3), Ix(Fld(Fld(Obn, "component"), "value"), 4),
                Ix(Fld(Fld(Obn, "component"), "value"), 5)}
NumStarts == ObsNum \cup {Var("ints"), Var("decs"), Var("seven"), Var("big"), Var("neg"), Var("min"), Var("half"), Fld(Fld(Pat, "telecom"), "rank"), Fld(Pat, "multipleBirth")} \cup NumLits
StrStarts == ObsStr \cup {Var("strs"), Var("uni"), Var("uni1"), Var("digits"), Fld(Fld(Pat, "name"), "given"), Fld(Fld(Pat, "name"), "family"), Fld(Pat, "id"), Fld(Fld(Pat, "address"), "line"),
              Fld(Fld(Pat, "identifier"), "value")} \cup StrLits
StartsFor(p) == CASE p = "C08" -> NumStarts [] p = "C14" -> StrStarts
                  [] p = "C13" -> ObsTemporal \cup {Fld(Fld(Obn, "component"), "value")} \cup NumStarts \cup StrStarts \cup BoolLits \cup DateLits \cup DtLits \cup TimeLits
                                  \cup {Fld(Pat, "birthDate"), Fld(Pat, "active"), Var("mixed"), Fld(Fld(Pat, "meta"), "lastUpdated")}
                  [] p = "C09" -> ObsTemporal \cup DateLits \cup DtLits \cup TimeLits \cup {Fld(Pat, "birthDate"), Fld(Fld(Pat, "meta"), "lastUpdated"),
                                                                      Fld(Fld(Fld(Pat, "birthDate"), "extension"), "value"), Fld(Fld(Fld(Pat, "address"), "period"), "start")}
                  [] p = "C12" -> Starts \cup {Fld(Fld(Obn, "component"), "value"), Fld(Obn, "value"), Fld(Obn, "component"), Fld(Obn, "effective")}
                  [] p = "C05" -> NumPeers \cup StrPeers \cup DtPeers \cup ObsTemporal \cup NumStarts \cup StrStarts \cup DateLits \cup DtLits \cup TimeLits \cup {Fld(Pat, "birthDate"), Fld(Fld(Pat, "meta"), "lastUpdated")}
                  [] OTHER -> Starts
StartSeq(l) == SetToSeq(IF Key(l, 0, 5) % 2 = 0 THEN StartsFor(Prop) ELSE Starts)
Init == /\ lane \in 1..Lanes
        /\ ex = (LET q == StartSeq(lane) IN q[(Key(lane, 0, 1) % Len(q)) + 1])
        /\ depth = 0 /\ parent = "" /\ prop = StartProp(ex)

(* the step taken from state (ex, depth, lane): a category (own property's every other step), then a member;    *)
(* of six members drawn, the first whose value is a non-empty collection is taken three times out of four, so    *)
(* that programs do not all collapse to the empty collection                                                     *)
NonEmptyOk(e) == LET v == ValueOf(e) IN v.k = "ok" /\ Len(v.items) > 0
NextStep(x, l, d) ==
  LET r == ValueOf(x)
      c == Items(r)
      own == Key(l, d, 2) % 2 = 0
      pool == IF own THEN CatsOf(Prop) ELSE Cats
      cat0 == PickDet(pool, Key(l, d, 3))
      cands0 == StepCat(x, c, cat0)
      \* a category that offers nothing for this focus falls back to the collection functions
      cands1 == IF cands0 = {} THEN StepCat(x, c, 2) ELSE cands0
      \* an "own" step is one charged to Prop whenever the category offers such steps
      mine == {s \in cands1 : s.p = Prop}
      cands == IF own /\ mine # {} THEN mine ELSE cands1
      q == SetToSeq(cands)
      draw(j) == q[(Key(l, d, 4 + j) % Len(q)) + 1]
      lively == {j \in 0..5 : NonEmptyOk(draw(j).e)}
  IN IF lively # {} /\ Key(l, d, 11) % 4 # 0 THEN draw(CHOOSE j \in lively : \A k \in lively : j <= k) ELSE draw(0)

Grow == /\ depth < MaxDepth
        /\ ValueOf(ex).k = "ok"            \* nothing is grown on top of an error or an open outcome
        /\ LET s == NextStep(ex, lane, depth) IN ex' = s.e /\ prop' = s.p
        /\ parent' = Render(ex)
        /\ depth' = depth + 1 /\ lane' = lane
Next == Grow
Spec == Init /\ [][Next]_vars

(* emitted as an always-true invariant: one program per state *)
Emitting ==
  PrintT(ToJson([id |-> "m/" \o Render(ex), ast |-> ex, text |-> Render(ex), depth |-> depth, lane |-> lane,
                 parent |-> parent, prop |-> prop]))

(* role 1 on every program: the machine is total and its own rendering is stable *)
MachineTotal == ValueOf(ex).k \in {"ok", "err", "any", "eoe"}

(* the environment collections, for the harness *)
ASSUME PrintT(ToJson([id |-> "vars", vars |-> Vars]))
=============================================================================
