------------------------------ MODULE C14_Render ------------------------------
(***************************************************************************)
(* Re-renders the cases of recorded observations (Params!ObsFile) to       *)
(* emitted form [id, cs, toks], so that `bin/check C14 --replay <file>`    *)
(* can re-execute a recorded case: the source text always comes from the   *)
(* specification's rendering, never from the record.                       *)
(***************************************************************************)
EXTENDS C14, Json, Params

Obs == ndJsonDeserialize(ObsFile)

VARIABLE i
Init == i \in 1..Len(Obs) /\ (IF WellFormed(Obs[i].cs) THEN PrintT(ToJson(Emitted(Obs[i].cs))) ELSE TRUE)
Next == FALSE /\ i' = i
Spec == Init /\ [][Next]_i
=============================================================================
