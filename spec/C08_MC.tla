------------------------------- MODULE C08_MC -------------------------------
(***************************************************************************)
(* Exploration of the C08 case space.  One behaviour per case: the initial *)
(* state is a case awaiting evaluation, the single step evaluates it in    *)
(* the specification (the constructive witness of FPArith) and emits it    *)
(* (role 2, generator).  The laws of FPArith are state invariants (role 1) *)
(* evaluated at every case of the boundary pools:                          *)
(*   - the witness is permitted by the relational definitions,             *)
(*   - the relations are functional (neighbours of the witness refused),   *)
(*   - Integer results are in range,                                       *)
(*   - ring laws, a = (a div b)*b + a mod b, rounding laws.                *)
(* Every Mutant of FPArith must violate at least one of them.              *)
(***************************************************************************)
EXTENDS C08, Json

VARIABLES cs, res

(* Initial states are the (operator, left operand) seeds; each seed expands *)
(* into its cases (so the expansion runs on all workers).                   *)
Init == cs \in Seeds /\ res = [k |-> "seed"]

Evaluate ==
  /\ res.k = "seed"
  /\ \E c \in Expansions(cs.op, cs.l) :
       /\ CaseOk(c)
       /\ cs' = c
       /\ res' = Witness(c)
       /\ PrintT(ToJson([id |-> CaseId(c), cs |-> c, text |-> Text(c),
                         ltext |-> OperandText(c.l, 1), rtext |-> OperandText(c.r, 2),
                         exp |-> WitnessOutcome(res')]))

Next == Evaluate
Spec == Init /\ [][Next]_<<cs, res>>

Done == res.k # "seed"
A == NumOf(cs.l)
Bn == NumOf(cs.r)
IsBin == cs.op \in BinOps

WitnessPermitted == Done => WitnessOkW(cs, res)
RelationsFunctional == Done => FunctionalW(cs, res)
ResultsInRange == Done => InRange(res)
WitnessIsOutcome == Done => Permitted(cs, WitnessOutcome(res)) \/ (res.k = "none" /\ res.orEmpty)

RingLaws ==
  (Done /\ IsBin) =>
     CASE cs.op \in {"+", "*"} -> LawCommutesW(cs.op, A, Bn, res)
       [] cs.op = "-" -> LawAntiCommutes(A, Bn)
       [] cs.op \in {"div", "mod"} -> LawDivMod(A, Bn)
       [] cs.op = "/" -> LawQuotientOdd(A, Bn)
UnaryLaws ==
  (Done /\ ~IsBin) =>
     CASE cs.op = "neg" -> LawNeg(A)
       [] cs.op = "abs" -> LawAbs(A)
       [] OTHER -> LawRounding(A)
(* distributivity: the third operand ranges over a fixed small set *)
Thirds == {NumI(0), NumI(-7), NumI(2147483647), NumD(DMake(TRUE, <<5>>, -1)), NumD(DMake(FALSE, <<1>>, -30))}
Distributes == (Done /\ cs.op = "*") => \A c \in Thirds : LawDistributes(A, Bn, c)

=============================================================================
