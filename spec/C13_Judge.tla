------------------------------ MODULE C13_Judge ------------------------------
(***************************************************************************)
(* Role 3: judge observations of the real code for property C13.           *)
(*                                                                         *)
(* An observation is                                                       *)
(*   [id, T, prog, sfx, alias, sk, fk, x, ra, rc, src, out, xout, sout]    *)
(* the case (target T, program, source kind sk / FHIR kind fk, the         *)
(* abstract item x the source denotes, the receiver text ra ++ rc), the    *)
(* outcome `out` of receiver ++ sfx, the outcome `xout` of the receiver    *)
(* alone and the outcome `sout` of receiver.toString().                    *)
(*                                                                         *)
(* The verdict requires, from the TLA+ text of FPConvert only:             *)
(*  (w) the record is well formed: sfx and the literal text are what C13   *)
(*      derives from (prog, T, x) (otherwise "malformed|...": the driver   *)
(*      turns that into exit 2, never into a violation);                   *)
(*  (d) the receiver alone denotes x;                                      *)
(*  (a) to, toto : out = ok(To(T, x)) by value; for T = String any single  *)
(*        String that converts back to x by value (spelling is free);      *)
(*      conv     : out = ok(<<Convertible(T, x)>>);                        *)
(*      strto    : with s the String the implementation's own toString()   *)
(*        produced, out = ok(To(T, s)) (so x.toString().toT() = x for x of *)
(*        type T whenever toString() itself is acceptable, which is judged *)
(*        on its own record); for x ALREADY of type T the clause is hard:  *)
(*        out = ok(<<x>>) by value, also where FPConvert!Amb would leave   *)
(*        the intermediate string open as an arbitrary input, and          *)
(*      strconv (x of type T): x.toString().convertsToT() = true;          *)
(*      an unconvertible item gives ok(<<>>), never an error, never a      *)
(*      value of another type; panics and timeouts are never accepted.     *)
(* Where FPConvert!Amb holds both readings are accepted.                   *)
(***************************************************************************)
EXTENDS C13, Json, Params

Obs == ndJsonDeserialize(ObsFile)
N == Len(Obs)
W == 16

FnName(p, T) == IF p \in {"conv", "strconv"} THEN "convertsTo" \o T ELSE "to" \o T

(******************************* well-formedness ***************************)
WellFormed(o) ==
  /\ o.T \in Targets
  /\ o.prog \in {"to", "conv", "toto", "strto", "strconv", "rteq"}
  /\ (o.prog = "strconv" => o.x.t = TagOf(o.T))
  /\ (~o.alias => o.sfx = Suffix(o.prog, o.T))
  /\ o.sk \in {"lit", "env", "el"}
  /\ (o.sk = "lit" => o.ra = "" /\ o.x.t # "cx" /\ HasLit(o.x) /\ o.rc = LitOf(o.x))
  /\ (o.sk = "env" => o.ra = "%x" /\ o.rc = <<>> /\ o.x.t # "cx")
  /\ (o.sk = "el" /\ o.x.t # "cx" => o.ra = ElemPath /\ o.rc = <<>> /\ o.fk \in FhirKinds(o.x, TRUE, TRUE))
  /\ (o.x.t # "cx" => o.x.t \in SystemTags)

(******************************** denotation *******************************)
ItemDenotes(it, o) ==
  LET x == o.x
  IN IF o.sk \in {"lit", "env"} THEN ItemSame(it, x)
     ELSE /\ it.t = "el"
          /\ IF x.t = "cx" THEN it.fk # "prim" /\ it.ft = x.ft
             ELSE IF x.t = "q" THEN it.ft = "Quantity"
             ELSE it.fk = "prim" /\ it.ft = o.fk /\ it.v.t = x.t /\ ItemSame(it.v, x)
DenOk(o) == o.xout.k = "ok" /\ Len(o.xout.items) = 1 /\ ItemDenotes(o.xout.items[1], o)

(******************************** acceptance *******************************)
(* items r (observed) are an acceptable result of converting y to T *)
AcceptTo(T, y, r) ==
  IF T = "String" /\ y.t \in SystemTags /\ y.t # "s"
  THEN /\ Len(r) = 1 /\ r[1].t = "s" /\ WellTyped("String", r[1])
       /\ LET Ty == TypeOfTag(y.t)  back == To(Ty, r[1])
          IN Len(back) = 1 /\ ValEq(back[1], y)
  ELSE IF Amb(T, y) THEN Len(r) = 0 \/ (Len(r) = 1 /\ r[1].t = TagOf(T))
  ELSE LET w == To(T, y)
       IN Len(r) = Len(w) /\ \A j \in 1..Len(r) : r[j].t = TagOf(T) /\ WellTyped(T, r[j]) /\ ValEq(r[j], w[j])

AcceptConv(T, y, r) ==
  /\ Len(r) = 1 /\ r[1].t = "b"
  /\ (Amb(T, y) \/ r[1].b = Convertible(T, y))

(* is sout usable as the input of the second half of x.toString().toT() ? *)
SoutUsable(o) == o.sout.k = "ok" /\ Len(o.sout.items) <= 1 /\ \A j \in 1..Len(o.sout.items) : o.sout.items[j].t = "s" /\ WellTyped("String", o.sout.items[j])

(* x is already of type T and its own toString() produced one String: the round trip is owed *)
SelfTrip(o) == o.x.t = TagOf(o.T) /\ SoutUsable(o) /\ Len(o.sout.items) = 1

(* the item the last conversion of the program is applied to *)
Effective(o) == IF o.prog \in {"strto", "strconv"} /\ SoutUsable(o) /\ Len(o.sout.items) = 1 THEN o.sout.items[1] ELSE o.x

(* rteq is left open where the conversion itself is: Quantity (recorded findings on the unit's spelling), ambiguous date   *)
(* texts, toInteger of a string that is no Integer (a recorded finding: an error), complex elements                     *)
RteqOpen(o) == o.T = "Quantity" \/ o.x.t \in {"cx", "q"} \/ Amb(o.T, o.x) \/ (o.T = "Integer" /\ o.x.t = "s" /\ To(o.T, o.x) = <<>>)

Accept(o) ==
  IF o.prog = "rteq" /\ RteqOpen(o) THEN ~IsFailure(o.out) ELSE
  /\ o.out.k = "ok"
  /\ CASE o.prog = "rteq"  -> IF To(o.T, o.x) = <<>> THEN Len(o.out.items) = 0
                               ELSE Len(o.out.items) = 1 /\ o.out.items[1].t = "b" /\ o.out.items[1].b
       [] o.prog = "conv"  -> AcceptConv(o.T, o.x, o.out.items)
       [] o.prog = "to"    -> AcceptTo(o.T, o.x, o.out.items)
       [] o.prog = "toto"  -> AcceptTo(o.T, o.x, o.out.items)
       [] o.prog = "strto" -> IF ~SoutUsable(o) THEN TRUE          \* toString() itself is wrong: judged on its own record
                              ELSE IF Len(o.sout.items) = 0 THEN Len(o.out.items) = 0
                              ELSE IF SelfTrip(o)
                              THEN \* the hard clause: for x of type T, x.toString().toT() = x - whatever string
                                   \* the implementation chose, and whether or not FPConvert!Amb leaves that
                                   \* string open when it is given as an arbitrary input
                                   /\ Len(o.out.items) = 1 /\ o.out.items[1].t = TagOf(o.T)
                                   /\ WellTyped(o.T, o.out.items[1]) /\ ValEq(o.out.items[1], o.x)
                              ELSE AcceptTo(o.T, o.sout.items[1], o.out.items)
       [] o.prog = "strconv" -> IF ~SoutUsable(o) THEN TRUE
                                ELSE IF Len(o.sout.items) = 0 THEN Len(o.out.items) = 0
                                ELSE Len(o.out.items) = 1 /\ o.out.items[1].t = "b" /\ o.out.items[1].b

(***************************** classification ******************************)
TagName(it) == IF it.t = "el" THEN "el" ELSE it.t

WantKind(o) ==
  LET y == Effective(o)
  IN IF o.prog = "conv" THEN "bool:" \o (IF Convertible(o.T, o.x) THEN "true" ELSE "false")
     ELSE IF o.prog = "rteq" THEN (IF RteqOpen(o) THEN "open" ELSE IF To(o.T, o.x) = <<>> THEN "ok0" ELSE "bool:true")
     ELSE IF o.prog \in {"strto", "strconv"} /\ SoutUsable(o) /\ Len(o.sout.items) = 0 THEN "ok0"
     ELSE IF o.prog \in {"strto", "strconv"} /\ SelfTrip(o) THEN "self"
     ELSE IF o.T = "String" /\ y.t \in SystemTags /\ y.t # "s" THEN "roundtrip"
     ELSE IF Amb(o.T, y) THEN "amb"
     ELSE IF To(o.T, y) = <<>> THEN "ok0" ELSE "ok1:" \o TagOf(o.T)

GotKind(o) ==
  IF o.out.k = "panic" THEN "panic@" \o o.out.site
  ELSE IF o.out.k # "ok" THEN o.out.k
  ELSE IF Len(o.out.items) = 0 THEN "ok0"
  ELSE IF Len(o.out.items) > 1 THEN "okN"
  ELSE LET it == o.out.items[1]
       IN IF o.prog \in {"conv", "strconv", "rteq"} /\ it.t = "b" THEN "bool:" \o (IF it.b THEN "true" ELSE "false")
          ELSE IF it.t = TagOf(o.T) /\ o.prog \notin {"conv", "strconv"} THEN "ok1:" \o it.t \o ":wrong-value"
          ELSE "ok1:" \o TagName(it)

SrcClass(o) == IF o.sk = "el" THEN "el:" \o o.fk ELSE o.sk

(* toQuantity is bound to the Integer conversion in the function table of the unchanged
   tree: the observed outcome is exactly what toInteger gives on the same input (including
   toInteger's own error on unconvertible strings and complex elements). *)
BehavesAsToInteger(o) ==
  LET y == Effective(o)
  IN /\ o.T = "Quantity" /\ o.prog \in {"to", "toto", "strto"}
     /\ ~(o.out.k = "ok" /\ Len(o.out.items) = 0 /\ To("Quantity", y) = <<>>)   \* empty where Quantity's own table says empty: no evidence
     /\ \/ o.out.k = "ok" /\ CollValEq(o.out.items, ToInteger(y))
        \/ o.out.k = "err" /\ ToInteger(y) = <<>> /\ y.t \in {"s", "cx"}

Sig(o) ==
  IF ~DenOk(o) THEN "conv|operand-denotation|" \o SrcClass(o) \o "|" \o XClass(o.x) \o "|got-" \o KindOf(o.xout)
  ELSE IF o.out.k = "cerr" THEN "uncallable|" \o FnName(o.prog, o.T)     \* the receiver alone compiles, the call does not
  ELSE IF BehavesAsToInteger(o) THEN "misbound|toQuantity|behaves-as-toInteger"
  ELSE "conv|" \o o.prog \o (IF o.alias THEN "#alias" ELSE "") \o "|" \o o.T \o "|" \o SrcClass(o) \o "|"
       \o (IF o.prog \in {"strto", "strconv"} THEN XClass(o.x) \o ">" ELSE "") \o XClass(Effective(o))
       \o "|want-" \o WantKind(o) \o "|got-" \o GotKind(o)

Want(o) ==
  IF o.prog = "conv" THEN Ok(<<B(Convertible(o.T, o.x))>>)
  ELSE IF o.prog = "rteq" THEN (IF To(o.T, o.x) = <<>> THEN Ok(<<>>) ELSE Ok(<<B(TRUE)>>))
  ELSE IF o.prog = "strconv" THEN Ok(<<B(TRUE)>>)
  ELSE IF o.prog = "strto" /\ SelfTrip(o) THEN Ok(<<o.x>>)
  ELSE Ok(To(o.T, Effective(o)))

Verdict(o) ==
  IF ~WellFormed(o) THEN [id |-> o.id, ok |-> FALSE, sig |-> "malformed|" \o o.id, want |-> ErrAny]
  ELSE LET good == DenOk(o) /\ Accept(o)
       IN [id |-> o.id, ok |-> good, sig |-> IF good THEN "" ELSE Sig(o), want |-> Want(o)]

VARIABLE i
Init == i \in 1..(IF N < W THEN N ELSE W) /\ PrintT(ToJson(Verdict(Obs[i])))
Next == i + W <= N /\ i' = i + W /\ PrintT(ToJson(Verdict(Obs[i'])))
Spec == Init /\ [][Next]_i
=============================================================================
