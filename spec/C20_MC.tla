------------------------------- MODULE C20_MC -------------------------------
(***************************************************************************)
(* Exploration of the wrapper and extraction case space of C20.  One       *)
(* behaviour per case: the initial state is a case, the single step emits  *)
(* it (role 2) - the laws of the wrapper semantics over the generated      *)
(* schema are invariants (role 1).  The extension-list machine has its own *)
(* model (C20_ExtMC).                                                      *)
(***************************************************************************)
EXTENDS C20, Json

VARIABLES cs, done

Init == cs \in Cases /\ done = FALSE

Emit ==
  /\ ~done
  /\ done' = TRUE
  /\ cs' = cs
  /\ PrintT(ToJson([id |-> CaseId(cs), kind |-> cs.kind, t |-> cs.t, ts |-> cs.ts, res |-> cs.res, form |-> cs.form, T |-> cs.t]))

Next == Emit
Spec == Init /\ [][Next]_<<cs, done>>

(* the schema is the one the property's quantifier names, the type -> slot  *)
(* maps are total and injective                                             *)
SchemaLaws == SchemaMatchesQuantifier /\ SlotsInjective
(* per case: the law instance of that case *)
CaseLaws ==
  /\ cs.kind = "res"    => RoundTripRes(cs.t) /\ NamingRuleRes(cs.t)
  /\ cs.kind = "extval" => RoundTripExt(cs.t) /\ NamingRuleExt(cs.t)
  /\ cs.kind = "bundle" => BundleOrder(cs.ts) /\ \A j \in 1..Len(cs.ts) : cs.ts[j] \in ResTypeSet
(* the verdict functions accept the observation the specification itself    *)
(* predicts for the case (so a judge that rejects everything is noticed)    *)
OkCall(ty, slot, nslot) == [k |-> "ok", ty |-> ty, slot |-> slot, nslot |-> nslot, same |-> TRUE, fresh |-> TRUE, msg |-> ""]
PredictedRes(t) ==
  LET w == Wrap(t, 1)
      c == OkCall(t, w.slot, 1)
  IN [id |-> "p", kind |-> "res", t |-> t, newFromString |-> c, newType |-> c, new |-> c, typeNew |-> c, typeOf |-> c,
      typeOfNew |-> c, wrap |-> c, unwrap |-> [c EXCEPT !.same = (Unwrap(w) = 1)], crTypeOf |-> [c EXCEPT !.ty = TypeOfSlot(w.slot)],
      unwrapIndep |-> c, collectionEntry |-> c, postEntry |-> c, putEntry |-> c, unwrapEntryIndep |-> c]
PredictedBundle(ts) ==
  LET u == [k |-> "ok", got |-> BundleWant(ts), msg |-> ""]
  IN [id |-> "p", kind |-> "bundle", ts |-> ts, viaConstructors |-> u, viaTransaction |-> u, byHand |-> u]
JudgeAcceptsPrediction ==
  /\ cs.kind = "res"    => VerdictRes(PredictedRes(cs.t)).ok
  /\ cs.kind = "bundle" => VerdictBundle(PredictedBundle(cs.ts)).ok /\ (Len(cs.ts) > 1 =>
        ~VerdictBundle([PredictedBundle(cs.ts) EXCEPT !.byHand.got = Reverse(BundleWant(cs.ts))]).ok)
=============================================================================
