-------------------------------- MODULE C08 --------------------------------
(***************************************************************************)
(* Property C08: Integer/Decimal arithmetic is exact; overflow and         *)
(* division by zero give empty.  This module is the case space (operand    *)
(* pools, operand sources, source text) and the oracle interface;          *)
(* C08_MC explores it, checks the laws of FPArith on it and emits cases;   *)
(* C08_Judge judges observations of the real code.                         *)
(*                                                                         *)
(* An OPERAND is a record                                                  *)
(*   [t, i, neg, ds, sc, src, ft]                                          *)
(* t = "i": the Integer i (native int32).  t = "d": the Decimal spelled    *)
(* by the big-endian decimal digits ds with sc fractional digits and sign  *)
(* neg (the spelling matters for literals: 1.50 and 1.5 are two operands   *)
(* with one value).  t = "none": the absent right operand of a unary case. *)
(* src says where the real code gets the value from:                       *)
(*   "lit"  a literal in the expression text                               *)
(*   "env"  an environment variable holding a System value                 *)
(*   "pb"   an environment variable holding a FHIR primitive (ft =         *)
(*          integer | positiveInt | unsignedInt | decimal)                 *)
(*   "res"  an element of the input Patient: extension[k].value (integer,  *)
(*          decimal), telecom[k].rank (positiveInt), photo[k].size         *)
(*          (unsignedInt); k = 0 for the left operand, 1 for the right     *)
(***************************************************************************)
EXTENDS FPValues, FPArith

CONSTANT Tier      \* "quick" | "thorough": size of the decimal pool (unused by the judge)

(******************************* operands *********************************)
Rep(d, n) == [j \in 1..n |-> d]

OpI(n, src, ft) == [t |-> "i", i |-> n, neg |-> FALSE, ds |-> <<>>, sc |-> 0, src |-> src, ft |-> ft]
OpD(neg, ds, sc, src, ft) == [t |-> "d", i |-> 0, neg |-> neg, ds |-> ds, sc |-> sc, src |-> src, ft |-> ft]
NoOperand == [t |-> "none", i |-> 0, neg |-> FALSE, ds |-> <<>>, sc |-> 0, src |-> "", ft |-> ""]

DigAt(ds, k) == IF k >= 1 THEN ds[k] ELSE 0
LimbOf(ds, j) ==
  LET hi == Len(ds) - 4 * (j - 1)
  IN DigAt(ds, hi) + 10 * DigAt(ds, hi - 1) + 100 * DigAt(ds, hi - 2) + 1000 * DigAt(ds, hi - 3)
NFromDigits(ds) == NTrim([j \in 1..((Len(ds) + 3) \div 4) |-> LimbOf(ds, j)])

DecOf(o) == DMake(o.neg, NFromDigits(o.ds), 0 - o.sc)
NumOf(o) == IF o.t = "i" THEN NumI(o.i) ELSE NumD(DecOf(o))

(* well-formedness of an operand for its source *)
OperandOk(o) ==
  /\ o.t \in {"i", "d"}
  /\ o.t = "d" => Len(o.ds) >= 1 /\ o.sc >= 0 /\ Len(o.ds) > o.sc /\ \A k \in 1..Len(o.ds) : o.ds[k] \in 0..9
  /\ CASE o.src = "lit" -> o.ft = "" /\ (o.t = "i" => o.i # MinInt32) /\ (o.t = "d" => o.sc >= 1)
       [] o.src = "env" -> o.ft = ""
       [] o.src \in {"pb", "res"} ->
            (CASE o.ft = "integer" -> o.t = "i"
               [] o.ft = "positiveInt" -> o.t = "i" /\ o.i >= 1
               [] o.ft = "unsignedInt" -> o.t = "i" /\ o.i >= 0
               [] o.ft = "decimal" -> o.t = "d"
               [] OTHER -> FALSE)
       [] OTHER -> FALSE

(****************************** source text *******************************)
RECURSIVE DigitsText(_, _, _)
DigitsText(ds, from, to) == IF from > to THEN "" ELSE ToString(ds[from]) \o DigitsText(ds, from + 1, to)

(* the unsigned spelling of the value *)
MagText(o) ==
  IF o.t = "i" THEN (IF o.i = MinInt32 THEN "2147483648" ELSE ToString(IF o.i < 0 THEN 0 - o.i ELSE o.i))
  ELSE LET n == Len(o.ds)
       IN IF o.sc = 0 THEN DigitsText(o.ds, 1, n)
          ELSE DigitsText(o.ds, 1, n - o.sc) \o "." \o DigitsText(o.ds, n - o.sc + 1, n)
IsNegSpelled(o) == IF o.t = "i" THEN o.i < 0 ELSE o.neg
ValText(o) == (IF IsNegSpelled(o) THEN "-" ELSE "") \o MagText(o)

(* literal: negative numbers are written as a parenthesised negation *)
LitText(o) == IF IsNegSpelled(o) THEN "(-" \o MagText(o) \o ")" ELSE MagText(o)

ResPath(ft, slot) ==
  LET k == ToString(slot - 1)
  IN CASE ft \in {"integer", "decimal"} -> "Patient.extension[" \o k \o "].value"
       [] ft = "positiveInt" -> "Patient.telecom[" \o k \o "].rank"
       [] ft = "unsignedInt" -> "Patient.photo[" \o k \o "].size"

(* slot 1 = left operand (variable %a), slot 2 = right operand (%b) *)
OperandText(o, slot) ==
  CASE o.src = "lit" -> LitText(o)
    [] o.src \in {"env", "pb"} -> IF slot = 1 THEN "%a" ELSE "%b"
    [] o.src = "res" -> ResPath(o.ft, slot)
    [] OTHER -> "{}"

FnName(op) == IF op = "roundp" THEN "round" ELSE op

(* a case: [op, l, r, p]; r = NoOperand and for unary operators; p only for roundp *)
Text(c) ==
  LET L == OperandText(c.l, 1)
      needParen == c.l.src = "lit" /\ ~IsNegSpelled(c.l)
      Lp == IF needParen THEN "(" \o L \o ")" ELSE L
  IN CASE c.op \in BinOps -> L \o " " \o c.op \o " " \o OperandText(c.r, 2)
       [] c.op = "neg" -> "-" \o L
       [] c.op = "roundp" -> Lp \o ".round(" \o (IF c.p < 0 THEN "-" \o ToString(0 - c.p) ELSE ToString(c.p)) \o ")"
       [] OTHER -> Lp \o "." \o FnName(c.op) \o "()"

OpKey(o) == IF o.t = "none" THEN "_" ELSE o.src \o (IF o.ft = "" THEN "" ELSE "/" \o o.ft) \o "=" \o o.t \o ValText(o)
CaseId(c) == c.op \o ":" \o OpKey(c.l) \o ":" \o OpKey(c.r) \o ":" \o ToString(c.p)

CaseOk(c) ==
  /\ c.op \in BinOps \cup UnOps
  /\ OperandOk(c.l)
  /\ IF c.op \in BinOps THEN OperandOk(c.r) ELSE c.r = NoOperand
  /\ c.op # "roundp" => c.p = 0

(******************************** oracle **********************************)
Witness(c) == IF c.op \in BinOps THEN WBin(c.op, NumOf(c.l), NumOf(c.r)) ELSE WUn(c.op, NumOf(c.l), c.p)
(* w = Witness(c) *)
WitnessOkW(c, w) == IF c.op \in BinOps THEN WitnessOkBinW(c.op, NumOf(c.l), NumOf(c.r), w) ELSE WitnessOkUnW(c.op, NumOf(c.l), c.p, w)
FunctionalW(c, w) == IF c.op \in BinOps THEN FunctionalBinW(c.op, NumOf(c.l), NumOf(c.r), w) ELSE FunctionalUnW(c.op, NumOf(c.l), c.p, w)
WitnessOk(c) == WitnessOkW(c, Witness(c))
Functional(c) == FunctionalW(c, Witness(c))

AcceptsVal(c, v) ==
  IF c.op \in BinOps THEN AcceptsValBin(c.op, NumOf(c.l), NumOf(c.r), v) ELSE AcceptsValUn(c.op, NumOf(c.l), c.p, v)
MayBeEmpty(c) == IF c.op \in BinOps THEN MayBeEmptyBin(c.op, NumOf(c.l), NumOf(c.r)) ELSE MayBeEmptyUn(c.op, NumOf(c.l), c.p)
MayBeErr(c)   == IF c.op \in BinOps THEN MayBeErrBin(c.op, NumOf(c.l), NumOf(c.r)) ELSE MayBeErrUn(c.op, NumOf(c.l), c.p)

IsNumberItem(x) == x.t \in {"i", "d"}

(* the set of outcomes the property permits, as a predicate on an observed outcome *)
Permitted(c, out) ==
  CASE out.k = "ok" /\ Len(out.items) = 0 -> MayBeEmpty(c)
    [] out.k = "ok" /\ Len(out.items) = 1 -> IsNumberItem(out.items[1]) /\ AcceptsVal(c, NumOfItem(out.items[1]))
    [] out.k = "err" -> MayBeErr(c)
    [] OTHER -> FALSE

(* the witness as an outcome (for `want` and for the math/big cross-check) *)
ItemOfW(w) == IF w.int /\ DFitsInt32(w.d) THEN I(SToInt(DToSigned(w.d))) ELSE DItem(w.d)
WitnessOutcome(w) ==
  [k |-> "ok",
   items |-> IF w.k = "val" THEN <<ItemOfW(w)>> ELSE <<>>,
   typ |-> IF w.k = "val" THEN (IF w.int THEN "Integer" ELSE "Decimal") ELSE "none",
   orEmpty |-> w.orEmpty, orErr |-> w.orErr]

(******************************** pools ***********************************)
IntPool ==
  {0, 1, -1, 2, -2, 3, -3, 7, -7, 46340, -46340, 46341, -46341, 65536, -65536, 32768,
   1073741824, -1073741824, 2147483646, 2147483647, -2147483647, MinInt32}
(* the property's own boundary set is a subset of IntPool *)
IntBoundary ==
  {0, 1, -1, 2, -2, 46340, -46340, 46341, -46341, 65536, -65536, 2147483646, 2147483647, -2147483647, MinInt32}
IntSmall == {0, 1, 7, -7, 2147483647, MinInt32}

(* decimal magnitudes as <<integer digits, fractional digits>> *)
P(id, fd) == [ds |-> id \o fd, sc |-> Len(fd)]
DecMagCore ==                          \* binary operators, quick tier
  { P(<<0>>, <<0>>), P(<<1>>, <<0>>), P(<<0>>, <<5>>), P(<<2>>, <<5>>), P(<<1>>, <<5, 0>>), P(<<0>>, <<7>>), P(<<5>>, <<5>>),
    P(<<0>>, Rep(9, 20)),                                              \* 0.99999999999999999999
    P(<<2>>, Rep(9, 17)),                                              \* 2.99999999999999999
    P(<<0>>, Rep(0, 29) \o <<1>>),                                     \* 10^-30
    P(<<0>>, Rep(0, 16) \o <<5>>),                                     \* 0.5 * 10^-16
    P(<<1,2,3,4,5,6,7,8,9,0,1,2,3,4,5,6,7,8,9>>, <<0,1,2,3,4,5,6,7,8,9,0,1,2,3,4,5,6,7,8,9,1>>),  \* 40 significant
    P(<<2,1,4,7,4,8,3,6,4,7>>, <<5>>),                                 \* MaxInt32 + 0.5
    P(<<2,1,4,7,4,8,3,6,4,8>>, <<5>>),                                 \* 2^31 + 0.5
    P(<<1,8,4,4,6,7,4,4,0,7,3,7,0,9,5,5,1,6,1,6>>, <<0>>),             \* 2^64
    P(<<1>> \o Rep(0, 39), <<>>) }                                     \* 10^39, no fractional digit
DecMagMore ==                          \* binary operators in the thorough tier; unary operators always
  { P(<<0>>, <<0, 0>>), P(<<1>>, <<5>>), P(<<3>>, <<0>>),
    P(<<1>>, Rep(0, 29) \o <<1>>),                                     \* 1 + 10^-30
    P(<<1,2,3,4,5,6,7,8,9>>, <<1,2,3,4,5,6,7,8,9>>),
    P(<<2,1,4,7,4,8,3,6,4,8>>, <<0>>),                                 \* 2^31
    P(<<9,9,9,9,9,9,9,9,9,9,9>>, <<9>>),                               \* 99999999999.9
    P(<<9,0,0,7,1,9,9,2,5,4,7,4,0,9,9,3>>, <<0>>),                     \* 2^53 + 1
    P(<<0>>, <<1>>), P(<<0>>, <<2, 5>>), P(<<0>>, <<7, 5>>), P(<<0>>, <<0, 5>>), P(<<3>>, <<5>>), P(<<0>>, <<3>>),
    P(<<7>>, <<0>>), P(<<1,0,0>>, <<0>>), P(<<4,6,3,4,1>>, <<0>>),
    P(<<0>>, <<4>> \o Rep(9, 19)),                                     \* 0.49999999999999999999
    P(<<0>>, <<5>> \o Rep(0, 18) \o <<1>>),                            \* 0.50000000000000000001
    P(<<0>>, Rep(0, 15) \o <<1>>),                                     \* 10^-16
    P(<<0>>, Rep(0, 29) \o <<5>>),                                     \* 5 * 10^-30
    P(<<0>>, <<1,2,3,4,5,6,7,8,9,0,1,2,3,4,5,6,7>>),                   \* 17 digits
    P(<<1>>, Rep(0, 15) \o <<2>>),                                     \* 1.0000000000000002
    P(<<9,9,9,9,9,9,9,9,9,9>>, Rep(9, 30)),                            \* 40 nines, 30 fractional
    P(<<2,1,4,7,4,8,3,6,4,7>>, <<0>>),                                 \* MaxInt32
    P(<<2,1,4,7,4,8,3,6,4,6>>, <<5>>),
    P(<<2,1,4,7,4,8,3,6,4,7>>, <<4>> \o Rep(9, 9)),
    P(<<2,1,4,7,4,8,3,6,4,9>>, <<0>>),                                 \* 2^31 + 1
    P(<<4,2,9,4,9,6,7,2,9,6>>, <<0>>),                                 \* 2^32
    P(<<4,2,9,4,9,6,7,2,9,5>>, <<5>>),
    P(<<9,2,2,3,3,7,2,0,3,6,8,5,4,7,7,5,8,0,7>>, <<0>>),               \* 2^63 - 1
    P(<<9,2,2,3,3,7,2,0,3,6,8,5,4,7,7,5,8,0,8>>, <<0>>),               \* 2^63
    P(<<1,8,4,4,6,7,4,4,0,7,3,7,0,9,5,5,1,6,1,7>>, <<5>>),             \* 2^64 + 1.5
    P(<<1,8,4,4,6,7,4,4,0,7,3,7,0,9,5,5,1,6,2,3>>, <<0>>),             \* 2^64 + 7
    P(<<9,0,0,7,1,9,9,2,5,4,7,4,0,9,9,2>>, <<5>>),                     \* 2^53 + 0.5
    P(Rep(9, 40), <<>>),                                               \* 40 nines, no fractional digit
    P(<<1,0,0,0,0,0,0>>, <<0>>) }

Signed(mags) == {[neg |-> s, ds |-> p.ds, sc |-> p.sc] : s \in BOOLEAN, p \in mags}
(* Tier = "tiny" is the small space the mutant twins are run on *)
DecMagTiny == {P(<<0>>, <<0>>), P(<<0>>, <<5>>), P(<<2>>, <<5>>), P(<<0>>, <<7>>), P(<<2,1,4,7,4,8,3,6,4,8>>, <<5>>), P(<<0>>, Rep(9, 20))}
DecValuesAll == IF Tier = "tiny" THEN Signed(DecMagTiny) ELSE Signed(DecMagCore \cup DecMagMore)
DecValues == IF Tier = "thorough" THEN DecValuesAll ELSE IF Tier = "tiny" THEN Signed(DecMagTiny) ELSE Signed(DecMagCore)
(* a small set of decimals used where the other operand varies *)
DecFew == Signed({P(<<0>>, <<0>>), P(<<0>>, <<5>>), P(<<2>>, <<5>>), P(<<2,1,4,7,4,8,3,6,4,7>>, <<5>>)})
DecFhir == Signed({P(<<0>>, <<0>>), P(<<1>>, <<5, 0>>), P(<<2,1,4,7,4,8,3,6,4,8>>, <<5>>), P(<<0>>, Rep(0, 16) \o <<5>>)})

DOp(v, src, ft) == OpD(v.neg, v.ds, v.sc, src, ft)

(* operand sets *)
IntEnv == {OpI(n, "env", "") : n \in (IF Tier = "tiny" THEN {0, 1, -1, 2, 7, -7, 46341, 2147483647, MinInt32} ELSE IntPool)}
IntLit == {OpI(n, "lit", "") : n \in (IF Tier = "thorough" THEN IntPool ELSE IF Tier = "tiny" THEN {} ELSE IntBoundary) \ {MinInt32}}
DecEnv == {DOp(v, "env", "") : v \in DecValues}
DecLit == IF Tier = "tiny" THEN {} ELSE {DOp(v, "lit", "") : v \in {x \in DecValues : x.sc >= 1}}
DecEnvAll == {DOp(v, "env", "") : v \in DecValuesAll}
DecLitAll == IF Tier = "tiny" THEN {} ELSE {DOp(v, "lit", "") : v \in {x \in DecValuesAll : x.sc >= 1}}
DecFewEnv == {DOp(v, "env", "") : v \in DecFew}
DecFewLit == {DOp(v, "lit", "") : v \in DecFew}
FhirOps ==
  IF Tier = "tiny" THEN {} ELSE
  {o \in {OpI(n, s, ft) : n \in IntSmall, s \in {"pb", "res"}, ft \in {"integer", "positiveInt", "unsignedInt"}}
          \cup {DOp(v, s, "decimal") : v \in DecFhir, s \in {"pb", "res"}} : OperandOk(o)}
Partners == {OpI(n, "env", "") : n \in {0, 7, 2147483647}}
            \cup {DOp([neg |-> FALSE, ds |-> p.ds, sc |-> p.sc], "env", "") : p \in {P(<<0>>, <<0>>), P(<<2>>, <<5>>)}}

Bin(o, a, b) == [op |-> o, l |-> a, r |-> b, p |-> 0]
Un(o, a, p)  == [op |-> o, l |-> a, r |-> NoOperand, p |-> p]
RoundPs == {0, 1, 2, 16, -1}

(* Every operand that occurs on the left of a binary operator / as the operand of a unary one. *)
BinLefts == IntEnv \cup IntLit \cup DecEnv \cup DecLit \cup FhirOps
UnOperands == IntEnv \cup IntLit \cup DecEnvAll \cup DecLitAll \cup FhirOps
(* the (operator, left operand) seeds of the case space *)
Seeds == {Un(o, a, 0) : o \in BinOps, a \in BinLefts} \cup {Un(o, a, 0) : o \in UnOps, a \in UnOperands}

(* The right operands paired with left operand l under operator op:             *)
(*   Integer x Integer  every pair of the pool, from variables and from literals *)
(*   Decimal x Decimal  every pair of the pool from variables; literals against  *)
(*                      the small set, both orders                               *)
(*   mixed              every Integer against the small decimal set, both orders *)
(*   FHIR elements      against five partners on either side, and integer-kind   *)
(*                      against decimal elements of the same source for + and mod *)
Rights(op, l) ==
  (IF l \in IntEnv THEN IntEnv \cup DecFewEnv ELSE {})
  \cup (IF l \in IntLit THEN IntLit \cup DecFewLit ELSE {})
  \cup (IF l \in DecEnv THEN DecEnv ELSE {})
  \cup (IF l \in DecFewEnv THEN IntEnv ELSE {})
  \cup (IF l \in DecLit THEN DecFewLit ELSE {})
  \cup (IF l \in DecFewLit THEN DecLit \cup IntLit ELSE {})
  \cup (IF l \in Partners THEN FhirOps ELSE {})
  \cup (IF l \in FhirOps
          THEN Partners \cup (IF op \in {"+", "mod"} THEN {r \in FhirOps : r.src = l.src /\ r.t # l.t} ELSE {})
          ELSE {})

(* the cases that start with (op, l) *)
Expansions(op, l) ==
  IF op \in BinOps THEN {Bin(op, l, b) : b \in Rights(op, l)}
  ELSE IF op = "roundp" THEN {Un(op, l, p) : p \in RoundPs}
  ELSE {Un(op, l, 0)}

(* the whole case space (a parameter keeps TLC from evaluating it eagerly at start-up) *)
CasesOf(seeds) == UNION {Expansions(s.op, s.l) : s \in seeds}
=============================================================================
