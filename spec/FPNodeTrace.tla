------------------------------ MODULE FPNodeTrace ------------------------------
(***************************************************************************)
(* Trace specification of the interpreter at the grain of ONE NODE         *)
(* EVALUATION.  The implementation (built with the verif tag, hook         *)
(* fhirpath/verif_on.go) logs a begin and an end event for every node of   *)
(* every compiled expression it evaluates; the events of one evaluation    *)
(* form a contiguous, well-nested block.                                   *)
(*                                                                         *)
(* State: the stack of node evaluations in progress (the implementation's  *)
(* call stack of Expression.Evaluate), each frame with its input           *)
(* collection (items named by identity for FHIR elements and by type and   *)
(* value for System values), the content hash of that input, and the       *)
(* outcomes of the child evaluations finished so far; `now` is the instant *)
(* of the evaluation in progress.                                          *)
(*                                                                         *)
(* Transitions: NodeBegin pushes a frame, NodeEnd pops it and hands its    *)
(* outcome to the parent frame.  An event that does not fit the stack      *)
(* discipline is not a behaviour of this specification (the trace is then  *)
(* not consumed to its end: machinery error).  The SEMANTIC laws of a      *)
(* step never block it - every law a step breaks is reported as a verdict  *)
(* and the rest of the trace is still examined.                            *)
(*                                                                         *)
(* Laws (the property each is a clause of):                                *)
(*   frozen      C03  a node leaves its input collection and the content   *)
(*                    of its items as they were                            *)
(*   oneinstant  C04  every node of one evaluation sees the same Now       *)
(*   k3          C06  a Boolean node's outcome is the K3 table applied to  *)
(*                    the singleton reading of its operands' outcomes      *)
(*   not         C06  not() likewise on its input                          *)
(*   criteria    C06  where/all/exists/select... a criterion result with   *)
(*                    several items fails the node                         *)
(*   iif         C06  iif(): a criterion result of several items fails the *)
(*                    node; one that reads true (a single non-Boolean item  *)
(*                    included) gives the outcome of an evaluated branch,   *)
(*                    false or empty that of a branch or nothing            *)
(*   emptyin     C07  empty input to a propagating node gives empty        *)
(*   emptyop     C07  an empty operand of is/as/polarity/=/</arithmetic    *)
(*   threading   C02  in a sequence a.b.c each node's input is its         *)
(*                    predecessor's output, the result is the last output  *)
(*   subset      C10  first/last/tail/skip/take/count/empty/exists/where/  *)
(*                    select/all/indexer computed from the node's own      *)
(*                    input and the children's logged outcomes             *)
(*   nonull      C10  no null item in any result                           *)
(*   eqval       C05  = / != of two operand outcomes whose items are all   *)
(*                    logged System values is what FPCompare permits       *)
(*   cmpval      C05  < <= > >= of two logged singleton values likewise    *)
(*   arith       C08  + - * / div mod of two logged Integer/Decimal        *)
(*                    singletons, and unary minus, satisfy FPArith's       *)
(*                    relations (value, emptiness on overflow and zero     *)
(*                    divisors, never an error)                            *)
(*   strfn       C14  length upper lower startsWith endsWith contains      *)
(*                    indexOf substring toChars replace on a logged String *)
(*                    input with logged arguments is what FPStrings says   *)
(*   temporal    C09  a Date/DateTime/Time plus or minus a logged quantity *)
(*                    with a calendar-keyword unit is one of FPTemporal's  *)
(*                    reference results; a unit that is no unit of time is *)
(*                    an error (UCUM codes, calendar units on a Time, sub-  *)
(*                    day units on a Date and results outside 0001..9999   *)
(*                    are left to the dedicated check)                     *)
(*   mathfn      C08  abs ceiling floor truncate round on a logged Integer /  *)
(*                    Decimal input satisfy FPArith's relations (value,     *)
(*                    emptiness or an error only where the result does not  *)
(*                    fit)                                                  *)
(*   setfn       C10  distinct isDistinct exclude intersect on logged       *)
(*                    System values whose equalities FPCompare fixes: one   *)
(*                    representative per class; the kept items in order     *)
(*                    (what follows them in exclude()'s result is left to   *)
(*                    the dedicated check: a recorded finding); the         *)
(*                    duplicate-free common items                           *)
(*   concat      C07  `&` of two operands that are empty or one logged      *)
(*                    String is the concatenation, empty read as ''         *)
(*   typeop      C12  `x is T` / `x as T` of a single logged item: its type   *)
(*                    (a System value's type; a FHIR element's type name    *)
(*                    and kind read from the google/fhir descriptors) is a  *)
(*                    subtype of T in FPTypes' hierarchy or not             *)
(*   convfn      C13  toT() / convertsToT() of a logged System value is    *)
(*                    what FPConvert's conversion table says (Quantity,    *)
(*                    ambiguous date texts and the recorded toInteger      *)
(*                    finding are left to the dedicated check)             *)
(***************************************************************************)
EXTENDS Integers, Sequences, FiniteSets, FPLogic, Json, TLC, Params

Trace == ndJsonDeserialize(ObsFile)
N == Len(Trace)

VARIABLES l, stack, now
vars == <<l, stack, now>>

Aggregate == {"Exists", "Empty", "Count", "All", "AllTrue", "AnyTrue", "AllFalse", "AnyFalse", "IsDistinct", "Iif",
              "Now", "Today", "TimeOfDay"}
(* implemented built-ins through which an empty input must propagate (the implementation's Go names) *)
Propagating == {"Abs", "Ceiling", "Children", "Contains", "ConvertsToBoolean", "ConvertsToDate", "ConvertsToDateTime",
                "ConvertsToDecimal", "ConvertsToInteger", "ConvertsToQuantity", "ConvertsToString", "ConvertsToTime",
                "Descendants", "Distinct", "EndsWith", "Exclude", "Exp", "Extension", "First", "Floor", "IndexOf",
                "Intersect", "Last", "Length", "Ln", "Log", "Lower", "Matches", "Not", "Power", "Replace", "ReplaceMatches",
                "Round", "Select", "Skip", "Sqrt", "StartsWith", "Substring", "Tail", "Take", "ToBoolean", "ToChars", "ToDate",
                "ToDateTime", "ToDecimal", "ToInteger", "ToQuantity", "ToString", "ToTime", "Truncate", "Upper", "Where"}
OperandNodes == {"Is", "As", "Negation", "Equality", "Comparison", "Arithmetic"}
StrictNodes == OperandNodes \cup {"Boolean", "Sequence", "Index", "Concat"}   \* a failing child fails the node

Cmp == INSTANCE FPCompare
Ar  == INSTANCE FPArith
St  == INSTANCE FPStrings
Cv  == INSTANCE FPConvert
Tm  == INSTANCE FPTemporal
Ty  == INSTANCE FPTypes
Kinds == JsonDeserialize(TypesFile)         \* FHIR type name -> "resource" | "complex" | "prim" (harness c02 types)

Frame(e) == [k |-> e.k, p |-> e.p, in |-> e.in, inh |-> e.inh, ic |-> e.ic, inv |-> e.inv, kids |-> <<>>, tns |-> e.tns, tname |-> e.tname]
Kid(f, e) == [k |-> f.k, in |-> f.in, ok |-> e.ok, out |-> e.out, cls |-> e.cls, hi |-> e.hi, iv |-> e.iv, ov |-> e.outv, ot |-> e.otk]

RECURSIVE SubseqFrom(_, _, _, _)
SubseqFrom(a, i, b, j) ==           \* a[i..] embeds in b[j..] in order
  IF i > Len(a) THEN TRUE
  ELSE IF j > Len(b) THEN FALSE
  ELSE IF a[i] = b[j] THEN SubseqFrom(a, i + 1, b, j + 1) ELSE SubseqFrom(a, i, b, j + 1)
IsSubseq(a, b) == SubseqFrom(a, 1, b, 1)

RECURSIVE Flat(_, _)
Flat(kids, i) == IF i > Len(kids) THEN <<>> ELSE kids[i].out \o Flat(kids, i + 1)

Truthy(c) == c \in {"T", "S"}        \* the singleton rule: one non-Boolean item counts as true
Read3(c) == CASE c = "S" -> "T" [] c = "M" -> "ERR" [] OTHER -> c
Kept(f) == LET idx == {i \in 1..Len(f.in) : Truthy(f.kids[i].cls)}
               RECURSIVE Pick(_)
               Pick(i) == IF i > Len(f.in) THEN <<>> ELSE (IF i \in idx THEN <<f.in[i]>> ELSE <<>>) \o Pick(i + 1)
           IN Pick(1)
Slice(s, a, b) == IF a > b THEN <<>> ELSE SubSeq(s, a, b)

AllKidsOk(f) == \A i \in 1..Len(f.kids) : f.kids[i].ok
PerItem(f) == Len(f.kids) = Len(f.in) /\ AllKidsOk(f) /\ \A i \in 1..Len(f.in) : f.kids[i].in = <<f.in[i]>>

(* ---- laws of a begin step ---- *)
Focus(f) == IF f.kids = <<>> THEN f.in ELSE f.kids[Len(f.kids)].out
BeginLaws(e) ==
  LET top == stack[Len(stack)] IN
  (IF stack # <<>> /\ e.now # now THEN {<<"oneinstant", "C04">>} ELSE {})
  \cup (IF stack # <<>> /\ top.k = "Sequence" /\ (e.in # Focus(top) \/ ~AllKidsOk(top)) THEN {<<"threading", "C02">>} ELSE {})

(* ---- laws of an end step: f is the frame being popped, e the end event ---- *)
FnLaws(f, e) ==
  LET n == Len(f.in)
      fn == f.p
      k1 == f.kids[1]
      bad(c) == IF c THEN {} ELSE {<<"subset", "C10">>}
  IN CASE fn = "First" -> bad(e.ok /\ e.out = Slice(f.in, 1, IF n = 0 THEN 0 ELSE 1))
       [] fn = "Last"  -> bad(e.ok /\ e.out = (IF n = 0 THEN <<>> ELSE <<f.in[n]>>))
       [] fn = "Tail"  -> bad(e.ok /\ e.out = Slice(f.in, 2, n))
       [] fn = "Count" -> bad(e.ok /\ e.hi /\ e.iv = n)
       [] fn = "Empty" -> bad(e.ok /\ e.cls = (IF n = 0 THEN "T" ELSE "F"))
       [] fn = "Exists" /\ f.kids = <<>> -> bad(e.ok /\ e.cls = (IF n = 0 THEN "F" ELSE "T"))
       [] fn = "Exists" /\ f.kids # <<>> /\ AllKidsOk(f) /\ e.ok ->
            bad(e.cls = (IF \E i \in 1..Len(f.kids) : Truthy(f.kids[i].cls) THEN "T" ELSE "F"))
       [] fn = "All" /\ AllKidsOk(f) /\ e.ok ->
            bad(IF e.cls = "T" THEN Len(f.kids) = n /\ \A i \in 1..n : Truthy(f.kids[i].cls) /\ f.kids[i].in = <<f.in[i]>>
                ELSE e.cls = "F" /\ \E i \in 1..Len(f.kids) : ~Truthy(f.kids[i].cls))
       [] fn = "Skip" /\ Len(f.kids) = 1 /\ k1.ok /\ k1.hi ->
            bad(e.ok /\ e.out = (IF k1.iv <= 0 THEN f.in ELSE IF k1.iv >= n THEN <<>> ELSE Slice(f.in, k1.iv + 1, n)))
       [] fn = "Take" /\ Len(f.kids) = 1 /\ k1.ok /\ k1.hi ->
            bad(e.ok /\ e.out = (IF k1.iv <= 0 THEN <<>> ELSE Slice(f.in, 1, IF k1.iv < n THEN k1.iv ELSE n)))
       [] fn = "Where" /\ e.ok -> bad(IsSubseq(e.out, f.in) /\ (PerItem(f) => e.out = Kept(f)))
       [] fn = "Select" /\ e.ok /\ PerItem(f) -> bad(e.out = Flat(f.kids, 1))
       [] fn \in {"Distinct", "Intersect"} /\ e.ok -> bad(Len(e.out) <= n)
       [] OTHER -> {}

(* ---- value laws: the node's operands are the logged System values of its children's outcomes ---- *)
Valued(vs, items) == Len(vs) = Len(items) /\ \A i \in 1..Len(vs) : vs[i].t # "none"
OneVal(kid, types) == kid.ok /\ Len(kid.out) = 1 /\ Valued(kid.ov, kid.out) /\ kid.ov[1].t \in types
NumT == {"i", "d"}
(* quantities of different units are left to the dedicated check (calendar keywords against their plurals are open) *)
UnitsAgree(x, y) == ~(x.t = "q" /\ y.t = "q") \/ x.unit = y.unit
PairsAgree(a, b) == Len(a) # Len(b) \/ \A i \in 1..Len(a) : UnitsAgree(a[i], b[i])

(* the hook does not spell collections of more than eight items or values longer than 256 bytes: such an outcome is not judged *)
Unspelled(e) == e.ok /\ e.out # <<>> /\ e.outv = <<>>

EqLaw(f, e) ==
  LET kl == f.kids[1]  kr == f.kids[2] IN
  IF Len(f.kids) = 2 /\ AllKidsOk(f) /\ Valued(kl.ov, kl.out) /\ Valued(kr.ov, kr.out) /\ PairsAgree(kl.ov, kr.ov)
  THEN LET eq == Cmp!CollEqSet(kl.ov, kr.ov)
           want == IF f.p = "=" THEN eq ELSE {Cmp!Neg3(v) : v \in eq}
       IN IF e.ok /\ e.cls \in want THEN {} ELSE {<<"eqval", "C05">>}
  ELSE {}

CmpLaw(f, e) ==
  LET kl == f.kids[1]  kr == f.kids[2]  all == {"b", "i", "d", "s", "date", "dt", "time", "q"} IN
  IF Len(f.kids) = 2 /\ OneVal(kl, all) /\ OneVal(kr, all) /\ UnitsAgree(kl.ov[1], kr.ov[1]) /\ f.p \in {"<", "<=", ">", ">="}
  THEN LET want == Cmp!OpSet(f.p, kl.ov[1], kr.ov[1]) IN
       IF (e.ok /\ e.cls \in want) \/ ("X" \in want /\ (~e.ok \/ e.cls = "E")) THEN {} ELSE {<<"cmpval", "C05">>}
  ELSE {}

ArithOp(p) == CASE p = "EvaluateAdd" -> (IF Mutant \in {"addIsSub", "c08twins"} THEN "-" ELSE "+") [] p = "EvaluateSub" -> "-" [] p = "EvaluateMul" -> "*" [] p = "EvaluateDiv" -> "/"
                [] p = "EvaluateFloorDiv" -> "div" [] p = "EvaluateMod" -> "mod" [] OTHER -> ""
NumOutcomeOk(e, accepts, mayBeEmpty) ==
  IF ~e.ok THEN FALSE
  ELSE IF e.out = <<>> THEN mayBeEmpty
  ELSE IF Len(e.out) = 1 /\ Valued(e.outv, e.out)
       THEN (IF e.outv[1].t \in NumT THEN accepts[Ar!NumOfItem(e.outv[1])] ELSE FALSE)
       ELSE Len(e.out) = 1      \* a number the trace does not spell (more than 60 digits): not judged here
ArithLaw(f, e) ==
  LET kl == f.kids[1]  kr == f.kids[2]  op == ArithOp(f.p) IN
  IF Len(f.kids) = 2 /\ op # "" /\ OneVal(kl, NumT) /\ OneVal(kr, NumT)
  THEN LET a == Ar!NumOfItem(kl.ov[1])  b == Ar!NumOfItem(kr.ov[1]) IN
       IF NumOutcomeOk(e, [v \in {Ar!NumOfItem(e.outv[1])} |-> Ar!AcceptsValBin(op, a, b, v)], Ar!MayBeEmptyBin(op, a, b))
       THEN {} ELSE {<<"arith", "C08">>}
  ELSE {}
NegLaw(f, e) ==
  IF Len(f.kids) = 1 /\ OneVal(f.kids[1], NumT)
  THEN LET a == Ar!NumOfItem(f.kids[1].ov[1]) IN
       IF NumOutcomeOk(e, [v \in {Ar!NumOfItem(e.outv[1])} |-> Ar!AcceptsValUn("neg", a, 0, v)], Ar!MayBeEmptyUn("neg", a, 0))
       THEN {} ELSE {<<"arith", "C08">>}
  ELSE {}

TemporalLaw(f, e) ==
  LET kl == f.kids[1]  kr == f.kids[2]  op == ArithOp(f.p)
      bad(c) == IF c THEN {} ELSE {<<"temporal", "C09">>}
  IN IF ~(Len(f.kids) = 2 /\ op \in {"+", "-"} /\ OneVal(kl, {"date", "dt", "time"}) /\ OneVal(kr, {"q"})) THEN {}
     ELSE LET a == kl.ov[1]  b == kr.ov[1] IN
          IF b.u = "" THEN {}
          ELSE IF ~Tm!IsTemporalUnit(b.u) THEN bad(~e.ok)
          ELSE LET rank == Tm!RankOf(b.u) IN
               IF Tm!ClsOf(b.u) = "ucum" \/ Tm!TimeHasNoUnit(a, rank) \/ (a.t = "date" /\ rank \in {"hour", "minute", "second", "ms"}) THEN {}
               ELSE LET R == Tm!Results(a, op, rank, b.th) IN
                    IF \E r \in R : r.oob THEN {}
                    ELSE IF Unspelled(e) THEN {}
                    ELSE bad(e.ok /\ Len(e.out) = 1 /\ Valued(e.outv, e.out) /\ \E r \in R : Cmp!ItemSame(e.outv[1], r.v))

StrOut(e) == e.ok /\ Len(e.out) = 1 /\ Valued(e.outv, e.out) /\ e.outv[1].t = "s"
StrsOut(e) == e.ok /\ Valued(e.outv, e.out) /\ \A j \in 1..Len(e.outv) : e.outv[j].t = "s"
Cps(vs) == [j \in 1..Len(vs) |-> vs[j].cp]
StrLaw(f, e) ==
  LET fn == f.p
      nk == Len(f.kids)
      bad(c) == IF c THEN {} ELSE {<<"strfn", "C14">>}
      boolIs(b) == e.ok /\ e.cls = (IF b THEN "T" ELSE "F")
      intIs(n) == e.ok /\ e.hi /\ e.iv = n
  IN IF ~(Len(f.in) = 1 /\ Valued(f.inv, f.in) /\ f.inv[1].t = "s") \/ (Unspelled(e) /\ f.p # "ToChars") THEN {}
     ELSE LET s == f.inv[1].cp
              sArg(i) == OneVal(f.kids[i], {"s"})
              iArg(i) == f.kids[i].ok /\ f.kids[i].hi
          IN CASE fn = "Length" /\ nk = 0 -> bad(intIs(St!StrLength(s)))
               [] fn = "Upper" /\ nk = 0 /\ (\A j \in 1..Len(s) : St!CaseKnown(s[j])) -> bad(StrOut(e) /\ e.outv[1].cp = St!StrUpper(s))
               [] fn = "Lower" /\ nk = 0 /\ (\A j \in 1..Len(s) : St!CaseKnown(s[j])) -> bad(StrOut(e) /\ e.outv[1].cp = St!StrLower(s))
               [] fn = "StartsWith" /\ nk = 1 /\ sArg(1) -> bad(boolIs(St!StrStartsWith(s, f.kids[1].ov[1].cp)))
               [] fn = "EndsWith" /\ nk = 1 /\ sArg(1) -> bad(boolIs(St!StrEndsWith(s, f.kids[1].ov[1].cp)))
               [] fn = "Contains" /\ nk = 1 /\ sArg(1) -> bad(boolIs(St!StrContains(s, f.kids[1].ov[1].cp)))
               [] fn = "IndexOf" /\ nk = 1 /\ sArg(1) -> bad(intIs(St!StrIndexOf(s, f.kids[1].ov[1].cp)))
               [] fn = "Substring" /\ nk = 1 /\ iArg(1) -> bad(StrsOut(e) /\ Cps(e.outv) = St!StrSubstring1(s, f.kids[1].iv))
               [] fn = "Substring" /\ nk = 2 /\ iArg(1) /\ iArg(2) ->
                    bad(StrsOut(e) /\ Cps(e.outv) \in {St!StrSubstring2(s, f.kids[1].iv, f.kids[2].iv),
                                                     St!StrSubstring2Alt(s, f.kids[1].iv, f.kids[2].iv)})
               [] fn = "ToChars" /\ nk = 0 ->
                    bad(e.ok /\ Len(e.out) = Len(s) /\ (Len(s) <= 8 => StrsOut(e) /\ Cps(e.outv) = St!StrToChars(s)))
               [] fn = "Replace" /\ nk = 2 /\ sArg(1) /\ sArg(2) ->
                    bad(StrOut(e) /\ e.outv[1].cp = St!StrReplace(s, f.kids[1].ov[1].cp, f.kids[2].ov[1].cp))
               [] OTHER -> {}

(* ---- abs / ceiling / floor / truncate / round of a logged number (C08) ---- *)
MathOp(p, nk) ==
  CASE p = "Abs" /\ nk = 0 -> "abs"  [] p = "Ceiling" /\ nk = 0 -> "ceiling"  [] p = "Floor" /\ nk = 0 -> "floor"
    [] p = "Truncate" /\ nk = 0 -> "truncate"  [] p = "Round" /\ nk = 0 -> "round"  [] p = "Round" /\ nk = 1 -> "roundp"
    [] OTHER -> ""
MathLaw(f, e) ==
  LET nk == Len(f.kids)
      op0 == MathOp(f.p, nk)
      op == IF Mutant \in {"floorIsCeiling", "c08twins"} /\ op0 = "floor" THEN "ceiling" ELSE op0
  IN IF op = "" \/ ~(Len(f.in) = 1 /\ Valued(f.inv, f.in) /\ f.inv[1].t \in NumT) THEN {}
     ELSE IF op = "roundp" /\ ~(f.kids[1].ok /\ f.kids[1].hi /\ f.kids[1].iv >= 0 /\ f.kids[1].iv <= 40) THEN {}
     ELSE LET a == Ar!NumOfItem(f.inv[1])
              p == IF op = "roundp" THEN f.kids[1].iv ELSE 0
          IN IF (e.ok /\ NumOutcomeOk(e, [v \in {Ar!NumOfItem(e.outv[1])} |-> Ar!AcceptsValUn(op, a, p, v)], Ar!MayBeEmptyUn(op, a, p)))
                \/ (~e.ok /\ Ar!MayBeErrUn(op, a, p))
             THEN {} ELSE {<<"mathfn", "C08">>}

(* ---- distinct / isDistinct / exclude / intersect over logged System values (C10) ---- *)
SysT == {"b", "i", "d", "s", "date", "dt", "time", "q"}
AllSys(vs, items) == Valued(vs, items) /\ \A i \in 1..Len(vs) : vs[i].t \in SysT
EqKnown(a, b) == \A i \in 1..Len(a), j \in 1..Len(b) : Cmp!EqSet(a[i], b[j]) \in {{"T"}, {"F"}}
IsEq(x, y) == Cmp!EqSet(x, y) = {"T"}
MemberV(x, d) == \E j \in 1..Len(d) : IsEq(x, d[j])
RECURSIVE KeepNotIn(_, _, _)
KeepNotIn(c, d, i) == IF i > Len(c) THEN <<>> ELSE (IF MemberV(c[i], d) THEN <<>> ELSE <<c[i]>>) \o KeepNotIn(c, d, i + 1)
DupFree(R) == \A i, j \in 1..Len(R) : i # j => ~IsEq(R[i], R[j])
SetLaw(f, e) ==
  LET c == f.inv
      nk == Len(f.kids)
      bad(cond) == IF cond THEN {} ELSE {<<"setfn", "C10">>}
      outOk == e.ok /\ AllSys(e.outv, e.out)
      R == e.outv
  IN IF f.p \notin {"Distinct", "IsDistinct", "Exclude", "Intersect"} \/ f.in = <<>> \/ ~AllSys(c, f.in) \/ Unspelled(e) THEN {}
     ELSE IF f.p \in {"Distinct", "IsDistinct"} THEN
        (IF nk # 0 \/ ~EqKnown(c, c) THEN {}
         ELSE IF f.p = "IsDistinct" THEN bad(e.ok /\ e.cls = (IF DupFree(c) THEN "T" ELSE "F"))
         ELSE IF Mutant \in {"distinctKeepsDuplicates", "c10twins"} THEN bad(outOk /\ Len(R) = Len(c))
         ELSE bad(outOk /\ EqKnown(R, c) /\ EqKnown(R, R) /\ DupFree(R)
                  /\ (\A j \in 1..Len(R) : MemberV(R[j], c)) /\ (\A q \in 1..Len(c) : MemberV(c[q], R))))
     ELSE IF ~(nk = 1 /\ f.kids[1].ok /\ AllSys(f.kids[1].ov, f.kids[1].out) /\ f.kids[1].in = f.in) THEN {}
     ELSE LET d == f.kids[1].ov IN
          IF ~EqKnown(c, d) \/ ~EqKnown(c, c) THEN {}
          ELSE IF f.p = "Exclude" THEN
             (LET want == KeepNotIn(c, d, 1) IN
              bad(outOk /\ Len(R) >= Len(want) /\ \A i \in 1..Len(want) : Cmp!ItemSame(R[i], want[i])))
          ELSE bad(outOk /\ EqKnown(R, c) /\ EqKnown(R, d) /\ EqKnown(R, R) /\ DupFree(R)
                   /\ (\A j \in 1..Len(R) : MemberV(R[j], c) /\ MemberV(R[j], d))
                   /\ (\A q \in 1..Len(c) : MemberV(c[q], d) => MemberV(c[q], R)))

(* ---- `&`: empty counts as the empty string (C07) ---- *)
ConcatLaw(f, e) ==
  LET strOrEmpty(k) == k.ok /\ (k.out = <<>> \/ OneVal(k, {"s"}))
      cpOf(k) == IF k.out = <<>> THEN (IF Mutant = "concatEmptyIsEmpty" THEN <<0>> ELSE <<>>) ELSE k.ov[1].cp
  IN IF Len(f.kids) = 2 /\ strOrEmpty(f.kids[1]) /\ strOrEmpty(f.kids[2]) /\ ~Unspelled(e)
     THEN (IF StrOut(e) /\ e.outv[1].cp = cpOf(f.kids[1]) \o cpOf(f.kids[2]) THEN {} ELSE {<<"concat", "C07">>})
     ELSE {}

(* ---- iif(criterion, then [, else]) (C06): arguments are evaluated on the node's own input, the criterion first.  The trace does ---- *)
(* not say WHICH argument a later child is (an implementation may evaluate only the branch it needs), so the law speaks of the        *)
(* criterion: one that fails or has several items fails the node; one that reads true has a branch evaluated, whose outcome is the     *)
(* node's; otherwise the outcome is that of an evaluated branch, or nothing.                                                           *)
IifLaw(f, e) ==
  LET nk == Len(f.kids)
      c == f.kids[1]
      bad(cond) == IF cond THEN {} ELSE {<<"iif", "C06">>}
      ofBranch == \E j \in 2..nk : e.out = f.kids[j].out
  IN IF f.p # "Iif" \/ nk = 0 \/ c.in # f.in THEN {}
     ELSE IF ~c.ok THEN bad(~e.ok)
     ELSE IF c.cls = "M" THEN (IF Mutant = "iifManyIsTrue" THEN bad(e.ok) ELSE bad(~e.ok))
     ELSE IF ~e.ok THEN {}                                   \* a failing branch fails the node
     ELSE IF Truthy(c.cls) THEN bad(ofBranch)
     ELSE bad(e.out = <<>> \/ ofBranch)

(* ---- is / as on one logged item (C12) ---- *)
(* The operand's type: a proto message is a FHIR element of the type its descriptor declares (a FHIR boolean is FHIR.boolean *)
(* although it has a System value), anything else with a logged value is a System value.  Left open as in FPEval!IsA: xhtml, *)
(* BackboneElement asked of a complex datatype; and names the kinds table does not hold.                                     *)
TypeLaw(f, e) ==
  LET kid == f.kids[1]
      bad(c) == IF c THEN {} ELSE {<<"typeop", "C12">>}
  IN IF Len(f.kids) # 1 \/ ~kid.ok \/ Len(kid.out) # 1 \/ Len(kid.ot) # 1 \/ f.tns \notin {"FHIR", "System"} \/ f.tname \in {"Any", "any"} THEN {}
     ELSE LET isMsg == kid.ot[1].ty \notin {"", "?"}
              sys == Valued(kid.ov, kid.out) /\ kid.ov[1].t \in SysT /\ kid.out[1] # "nil"
              ty == IF isMsg THEN [ns |-> "FHIR", name |-> kid.ot[1].ty, kind |-> kid.ot[1].kind]
                    ELSE [ns |-> "System", name |-> Ty!SystemNameOf(kid.ov[1]), kind |-> "system"]
          IN IF kid.ot[1].ty = "?" \/ (~isMsg /\ ~sys) THEN {}          \* a message the registry does not name, a wrapper; no logged value
             ELSE IF ty.name = "xhtml" \/ (f.tname = "BackboneElement" /\ ty.kind = "complex") THEN {}
             ELSE IF ty.ns = "FHIR" /\ ty.name \notin DOMAIN Kinds /\ ty.name \notin Ty!AbstractFHIR THEN {}
             ELSE LET sub0 == Ty!IsSubtype(ty.ns, ty.name, f.tns, f.tname, Kinds)
                      sub == IF Mutant = "isNeverSubtype" THEN ty.name = f.tname ELSE sub0
                  IN IF f.k = "Is" THEN bad(e.ok /\ e.cls = (IF sub THEN "T" ELSE "F"))
                     ELSE bad(e.ok /\ e.out = (IF sub THEN kid.out ELSE <<>>))

ConvTargetOf(p) ==
  CASE p \in {"ToBoolean", "ConvertsToBoolean"} -> "Boolean"   [] p \in {"ToInteger", "ConvertsToInteger"} -> "Integer"
    [] p \in {"ToDecimal", "ConvertsToDecimal"} -> "Decimal"   [] p \in {"ToString", "ConvertsToString"} -> "String"
    [] p \in {"ToDate", "ConvertsToDate"} -> "Date"            [] p \in {"ToDateTime", "ConvertsToDateTime"} -> "DateTime"
    [] p \in {"ToTime", "ConvertsToTime"} -> "Time"            [] OTHER -> ""
IsConverts(p) == p \in {"ConvertsToBoolean", "ConvertsToInteger", "ConvertsToDecimal", "ConvertsToString", "ConvertsToDate",
                        "ConvertsToDateTime", "ConvertsToTime"}
SameVal(got, want) ==
  got.t = want.t /\ CASE want.t = "b" -> got.b = want.b
                       [] want.t = "i" -> got.i = want.i
                       [] want.t = "s" -> got.cp = want.cp
                       [] want.t = "d" -> Cmp!DEq(Cmp!DOfItem(got), Cmp!DOfItem(want))
                       [] OTHER -> TRUE          \* date/time results: the type (their components are judged by C13's own check)
ConvLaw(f, e) ==
  LET T == ConvTargetOf(f.p)
      bad(c) == IF c THEN {} ELSE {<<"convfn", "C13">>}
  IN IF T = "" \/ Len(f.kids) # 0 \/ ~(Len(f.in) = 1 /\ Valued(f.inv, f.in)) \/ Unspelled(e) THEN {}
     ELSE LET v == f.inv[1] IN
          IF v.t \notin (Cv!SystemTags \ {"q"}) \/ Cv!Amb(T, v) THEN {}
          ELSE IF IsConverts(f.p) THEN bad(e.ok /\ e.cls = (IF Cv!Convertible(T, v) THEN "T" ELSE "F"))
          ELSE IF T = "String" THEN (IF v.t \in {"s", "i", "b"} THEN bad(StrOut(e) /\ e.outv[1].cp = Cv!ToStr(v)) ELSE {})
          ELSE LET want == Cv!To(T, v) IN
               IF want = <<>> THEN (IF T = "Integer" /\ v.t = "s" THEN {} ELSE bad(e.ok /\ e.out = <<>>))
               ELSE bad(e.ok /\ Len(e.out) = 1 /\ Valued(e.outv, e.out) /\ SameVal(e.outv[1], want[1]))

CriteriaFns == {"Where", "All", "Exists", "Select"}
EndLaws(f, e) ==
  LET n == Len(f.in)
      kidsOk == AllKidsOk(f)
      nk == Len(f.kids)
  IN
  (IF e.ina # f.in \/ e.inha # f.inh THEN {<<"frozen", "C03">>} ELSE {})
  \cup (IF e.ok /\ (\E i \in 1..Len(e.out) : e.out[i] = "nil") /\ ~(\E i \in 1..n : f.in[i] = "nil") /\ f.k # "Constant"
        THEN {<<"nonull", "C10">>} ELSE {})
  \cup (IF n = 0 /\ kidsOk /\ (f.k \in {"Field", "Type", "Index"} \/ (f.k = "Function" /\ f.p \in Propagating))
           /\ ~(e.ok /\ e.out = <<>>)
        THEN {<<"emptyin", "C07">>} ELSE {})
  \cup (IF f.k \in OperandNodes /\ nk >= 1 /\ kidsOk /\ (\E i \in 1..nk : f.kids[i].out = <<>>)
           /\ (\A i \in 1..nk : Len(f.kids[i].out) <= 1) /\ ~(e.ok /\ e.out = <<>>)
        THEN {<<"emptyop", "C07">>} ELSE {})
  \cup (IF f.k = "Boolean" /\ nk = 2 /\ kidsOk
        THEN LET want == BinOp3E(f.p, Read3(f.kids[1].cls), Read3(f.kids[2].cls)) IN
             IF (want = "ERR" /\ e.ok) \/ (want # "ERR" /\ ~(e.ok /\ e.cls = want)) THEN {<<"k3", "C06">>} ELSE {}
        ELSE {})
  \cup (IF f.k = "Function" /\ f.p = "Not" /\ kidsOk
        THEN LET want == Not3E(Read3(f.ic)) IN
             IF (want = "ERR" /\ e.ok) \/ (want # "ERR" /\ ~(e.ok /\ e.cls = want)) THEN {<<"not", "C06">>} ELSE {}
        ELSE {})
  \cup (IF f.k = "Function" /\ f.p \in (CriteriaFns \ {"Select"}) /\ e.ok /\ nk > 0 /\ f.kids[nk].ok /\ f.kids[nk].cls = "M"
           /\ f.kids[nk].in # f.in
        THEN {<<"criteria", "C06">>} ELSE {})
  \cup (IF f.k \in StrictNodes /\ ~kidsOk /\ e.ok THEN {<<"childfailed", "C06">>} ELSE {})
  \cup (IF f.k = "Sequence" /\ kidsOk /\ ~(e.ok /\ nk > 0 /\ e.out = f.kids[nk].out) THEN {<<"threading", "C02">>} ELSE {})
  \cup (IF f.k = "Identity" /\ ~(e.ok /\ e.out = f.in) THEN {<<"threading", "C02">>} ELSE {})
  \cup (IF f.k = "Wrap" /\ ~(nk = 1 /\ f.kids[1].in = f.in /\ e.ok = f.kids[1].ok /\ (e.ok => e.out = f.kids[1].out))
        THEN {<<"threading", "C02">>} ELSE {})
  \cup (IF f.k = "Type" /\ ~(e.ok /\ IsSubseq(e.out, f.in)) THEN {<<"subset", "C10">>} ELSE {})
  \cup (IF f.k = "Literal" /\ ~(e.ok /\ Len(e.out) <= 1) THEN {<<"subset", "C10">>} ELSE {})
  \cup (IF f.k = "Index" /\ nk = 1 /\ f.kids[1].ok /\ f.kids[1].hi
           /\ ~(e.ok /\ e.out = (IF f.kids[1].iv >= 0 /\ f.kids[1].iv < n THEN <<f.in[f.kids[1].iv + 1]>> ELSE <<>>))
        THEN {<<"subset", "C10">>} ELSE {})
  \cup (IF f.k = "Function" THEN FnLaws(f, e) \cup StrLaw(f, e) \cup ConvLaw(f, e) \cup MathLaw(f, e) \cup SetLaw(f, e) \cup IifLaw(f, e) ELSE {})
  \cup (IF f.k = "Concat" THEN ConcatLaw(f, e) ELSE {})
  \cup (IF f.k = "Equality" THEN EqLaw(f, e) ELSE {})
  \cup (IF f.k = "Comparison" THEN CmpLaw(f, e) ELSE {})
  \cup (IF f.k = "Arithmetic" THEN ArithLaw(f, e) \cup TemporalLaw(f, e) ELSE {})
  \cup (IF f.k = "Negation" THEN NegLaw(f, e) ELSE {})
  \cup (IF f.k \in {"Is", "As"} THEN TypeLaw(f, e) ELSE {})

Report(e, laws) ==
  laws = {} \/ \A w \in laws : PrintT(ToJson([line |-> l, ev |-> e.ev, k |-> e.k, d |-> e.d, law |-> w[1], prop |-> w[2]]))

Init == l = 1 /\ stack = <<>> /\ now = ""

NodeBegin ==
  /\ l <= N /\ Trace[l].e = "B" /\ Trace[l].d = Len(stack) + 1
  /\ LET e == Trace[l] IN
       /\ Report(e, BeginLaws(e))
       /\ stack' = Append(stack, Frame(e))
       /\ now' = IF stack = <<>> THEN e.now ELSE now
  /\ l' = l + 1

NodeEnd ==
  /\ l <= N /\ Trace[l].e = "E" /\ stack # <<>> /\ Trace[l].d = Len(stack) /\ Trace[l].k = stack[Len(stack)].k
  /\ LET e == Trace[l]
         f == stack[Len(stack)]
         rest == SubSeq(stack, 1, Len(stack) - 1)
     IN /\ Report([e EXCEPT !.k = f.k \o (IF f.p = "" THEN "" ELSE ":" \o f.p)], EndLaws(f, e))
        /\ stack' = IF rest = <<>> THEN rest
                    ELSE [rest EXCEPT ![Len(rest)].kids = Append(@, Kid(f, e))]
  /\ l' = l + 1 /\ UNCHANGED now

Next == NodeBegin \/ NodeEnd
Spec == Init /\ [][Next]_vars

(* Every evaluation block is well nested and the whole trace is consumed. *)
TraceConsumed == TLCGet("stats").diameter - 1 = N
StackBounded == Len(stack) <= 64
=============================================================================
