------------------------------- MODULE C16_MC -------------------------------
(***************************************************************************)
(* The Compile-acceptance rule as a tiny machine over the specification's  *)
(* own table, explored for every (configuration, name, argument count):    *)
(*   Lookup   resolve the name in the table visible under the config       *)
(*   Check    compare the argument count with the entry's bounds           *)
(*   Run      an accepted call of a not-implemented name fails             *)
(* and the well-formedness of the table (role 1).  Check emits the case    *)
(* (role 2).  "nosuchfn" stands for every name outside the table.          *)
(* Before the call, up to two earlier compilations under either            *)
(* configuration may have happened in the same process (Earlier): the      *)
(* base table is frozen, so what a configuration resolves does not depend  *)
(* on that history (mutant experimentalLeaks: a compilation with           *)
(* WithExperimentalFuncs writes the experimental names into the base;      *)
(* customLeaks: AddFunction after WithExperimentalFuncs registers into a   *)
(* merged table that later compilations share, so the custom name is       *)
(* resolved without being registered and registering it again fails).      *)
(***************************************************************************)
EXTENDS C16

VARIABLES cfg, name, count, phase, found, accepted, result, hist, base, merged
vars == <<cfg, name, count, phase, found, accepted, result, hist, base, merged>>

BaseNames   == Visible("default")
ExpNames    == Visible("experimental") \ BaseNames
CustomNames == Visible("custom") \ Visible("experimental")
(* `base` is the process-wide base table, `merged` what a compilation gets on top of it when it asks for the        *)
(* experimental functions; both are constants of a correct implementation.  What a compilation under configuration *)
(* c resolves, given them as they are now:                                                                          *)
VisibleNow(c) == base \cup (IF c \in {"experimental", "custom"} THEN merged ELSE {})
                      \cup (IF c = "custom" THEN CustomNames ELSE {})
(* AddFunction fails when its name is already there *)
OptionsFail(c) == c = "custom" /\ CustomNames \cap (base \cup merged) # {}

AllNames == Names \cup {"nosuchfn"}

Init ==
  /\ cfg \in Configs /\ name \in AllNames /\ count \in Counts
  /\ phase = "start" /\ found = FALSE /\ accepted = FALSE /\ result = "none"
  /\ hist = <<>> /\ base = BaseNames /\ merged = ExpNames

Earlier(c) ==
  /\ phase = "start" /\ Len(hist) < 2
  /\ hist' = Append(hist, c)
  /\ base' = IF Mutant = "experimentalLeaks" /\ c \in {"experimental", "custom"} THEN base \cup ExpNames ELSE base
  /\ merged' = IF Mutant = "customLeaks" /\ c = "custom" /\ ~OptionsFail(c) THEN merged \cup CustomNames ELSE merged
  /\ UNCHANGED <<cfg, name, count, phase, found, accepted, result>>

Lookup ==
  /\ phase = "start"
  /\ found' = Found(VisibleNow(cfg), name)
  /\ phase' = "resolved"
  /\ UNCHANGED <<cfg, name, count, accepted, result, hist, base, merged>>

Bounds(n) == IF Known(n) THEN <<MinCount(Entry(n)), MaxCount(Entry(n))>> ELSE <<0, 0>>

Check ==
  /\ phase = "resolved"
  /\ accepted' = (~OptionsFail(cfg) /\ found /\ InBounds(Bounds(name)[1], Bounds(name)[2], count))
  /\ phase' = "compiled"
  /\ UNCHANGED <<cfg, name, count, found, result, hist, base, merged>>
  /\ Known(name) /\ hist = <<>> => PrintT(ToJson(CaseOf(Entry(name), count, cfg)))

Run ==
  /\ phase = "compiled"
  /\ result' = IF ~accepted THEN "compile-error"
               ELSE IF Known(name) /\ Entry(name).status = "notImplemented" /\ Mutant # "notImplementedYieldsValue"
                    THEN "not-implemented-error"
               ELSE "value"
  /\ phase' = "done"
  /\ UNCHANGED <<cfg, name, count, found, accepted, hist, base, merged>>

Next == (\E c \in Configs : Earlier(c)) \/ Lookup \/ Check \/ Run
Spec == Init /\ [][Next]_vars

(* ------------------------------------------------------------------------ *)
TableWellFormed == WellFormed

(* No compilation changes the base table. *)
BaseTableFrozen == /\ base = BaseNames /\ merged = ExpNames
                   /\ \A c \in Configs : VisibleNow(c) = Visible(c) /\ ~OptionsFail(c)

(* Compile accepts exactly the calls the table allows - whatever was compiled before. *)
AcceptIffAllowed ==
  phase \in {"compiled", "done"} =>
     accepted = (name \in Visible(cfg) /\ count \in Entry(name).counts)

(* Every callable (name, count) is accepted and has a probe; nothing else   *)
(* yields a value; a not-implemented name never yields a value.             *)
OnlyCallableYieldsValue ==
  phase = "done" =>
     /\ (result = "value") = (Known(name) /\ Callable(Entry(name), cfg) /\ count \in Entry(name).counts)
     /\ (result = "value" => Len(ProbesAt(Entry(name), count)) > 0)
     /\ (Known(name) /\ Entry(name).status = "notImplemented" => result # "value")
=============================================================================
