------------------------------- MODULE C16_MC -------------------------------
(***************************************************************************)
(* The Compile-acceptance rule as a tiny machine over the specification's  *)
(* own table, explored for every (configuration, name, argument count):    *)
(*   Lookup   resolve the name in the table visible under the config       *)
(*   Check    compare the argument count with the entry's bounds           *)
(*   Run      an accepted call of a not-implemented name fails             *)
(* and the well-formedness of the table (role 1).  Check emits the case    *)
(* (role 2).  "nosuchfn" stands for every name outside the table.          *)
(* Before the call, up to two earlier compilations under either            *)
(* configuration may have happened in the same process (Earlier): the      *)
(* base table is frozen, so what a configuration resolves does not depend  *)
(* on that history (mutant experimentalLeaks: a compilation with           *)
(* WithExperimentalFuncs writes the experimental names into the base).     *)
(***************************************************************************)
EXTENDS C16

VARIABLES cfg, name, count, phase, found, accepted, result, hist, base
vars == <<cfg, name, count, phase, found, accepted, result, hist, base>>

BaseNames == {Table[j].name : j \in {h \in 1..Len(Table) : Table[h].status # "experimental"}}
ExpNames  == Names \ BaseNames
(* what a compilation under configuration c resolves, given the base table as it is now *)
VisibleNow(c) == base \cup (IF c = "experimental" THEN ExpNames ELSE {})

AllNames == Names \cup {"nosuchfn"}

Init ==
  /\ cfg \in Configs /\ name \in AllNames /\ count \in Counts
  /\ phase = "start" /\ found = FALSE /\ accepted = FALSE /\ result = "none"
  /\ hist = <<>> /\ base = BaseNames

Earlier(c) ==
  /\ phase = "start" /\ Len(hist) < 2
  /\ hist' = Append(hist, c)
  /\ base' = IF Mutant = "experimentalLeaks" /\ c = "experimental" THEN base \cup ExpNames ELSE base
  /\ UNCHANGED <<cfg, name, count, phase, found, accepted, result>>

Lookup ==
  /\ phase = "start"
  /\ found' = Found(VisibleNow(cfg), name)
  /\ phase' = "resolved"
  /\ UNCHANGED <<cfg, name, count, accepted, result, hist, base>>

Bounds(n) == IF Known(n) THEN <<MinCount(Entry(n)), MaxCount(Entry(n))>> ELSE <<0, 0>>

Check ==
  /\ phase = "resolved"
  /\ accepted' = (found /\ InBounds(Bounds(name)[1], Bounds(name)[2], count))
  /\ phase' = "compiled"
  /\ UNCHANGED <<cfg, name, count, found, result, hist, base>>
  /\ Known(name) /\ hist = <<>> => PrintT(ToJson(CaseOf(Entry(name), count, cfg)))

Run ==
  /\ phase = "compiled"
  /\ result' = IF ~accepted THEN "compile-error"
               ELSE IF Known(name) /\ Entry(name).status = "notImplemented" /\ Mutant # "notImplementedYieldsValue"
                    THEN "not-implemented-error"
               ELSE "value"
  /\ phase' = "done"
  /\ UNCHANGED <<cfg, name, count, found, accepted, hist, base>>

Next == (\E c \in Configs : Earlier(c)) \/ Lookup \/ Check \/ Run
Spec == Init /\ [][Next]_vars

(* ------------------------------------------------------------------------ *)
TableWellFormed == WellFormed

(* No compilation changes the base table. *)
BaseTableFrozen == base = BaseNames /\ (\A c \in Configs : VisibleNow(c) = Visible(c))

(* Compile accepts exactly the calls the table allows - whatever was compiled before. *)
AcceptIffAllowed ==
  phase \in {"compiled", "done"} =>
     accepted = (name \in Visible(cfg) /\ count \in Entry(name).counts)

(* Every callable (name, count) is accepted and has a probe; nothing else   *)
(* yields a value; a not-implemented name never yields a value.             *)
OnlyCallableYieldsValue ==
  phase = "done" =>
     /\ (result = "value") = (Known(name) /\ Callable(Entry(name), cfg) /\ count \in Entry(name).counts)
     /\ (result = "value" => Len(ProbesAt(Entry(name), count)) > 0)
     /\ (Known(name) /\ Entry(name).status = "notImplemented" => result # "value")
=============================================================================
