------------------------------- MODULE C16_MC -------------------------------
(***************************************************************************)
(* The Compile-acceptance rule as a tiny machine over the specification's  *)
(* own table, explored for every (configuration, name, argument count):    *)
(*   Lookup   resolve the name in the table visible under the config       *)
(*   Check    compare the argument count with the entry's bounds           *)
(*   Run      an accepted call of a not-implemented name fails             *)
(* and the well-formedness of the table (role 1).  Check emits the case    *)
(* (role 2).  "nosuchfn" stands for every name outside the table.          *)
(***************************************************************************)
EXTENDS C16

VARIABLES cfg, name, count, phase, found, accepted, result
vars == <<cfg, name, count, phase, found, accepted, result>>

AllNames == Names \cup {"nosuchfn"}

Init ==
  /\ cfg \in Configs /\ name \in AllNames /\ count \in Counts
  /\ phase = "start" /\ found = FALSE /\ accepted = FALSE /\ result = "none"

Lookup ==
  /\ phase = "start"
  /\ found' = Found(Visible(cfg), name)
  /\ phase' = "resolved"
  /\ UNCHANGED <<cfg, name, count, accepted, result>>

Bounds(n) == IF Known(n) THEN <<MinCount(Entry(n)), MaxCount(Entry(n))>> ELSE <<0, 0>>

Check ==
  /\ phase = "resolved"
  /\ accepted' = (found /\ InBounds(Bounds(name)[1], Bounds(name)[2], count))
  /\ phase' = "compiled"
  /\ UNCHANGED <<cfg, name, count, found, result>>
  /\ Known(name) => PrintT(ToJson(CaseOf(Entry(name), count, cfg)))

Run ==
  /\ phase = "compiled"
  /\ result' = IF ~accepted THEN "compile-error"
               ELSE IF Known(name) /\ Entry(name).status = "notImplemented" /\ Mutant # "notImplementedYieldsValue"
                    THEN "not-implemented-error"
               ELSE "value"
  /\ phase' = "done"
  /\ UNCHANGED <<cfg, name, count, found, accepted>>

Next == Lookup \/ Check \/ Run
Spec == Init /\ [][Next]_vars

(* ------------------------------------------------------------------------ *)
TableWellFormed == WellFormed

(* Compile accepts exactly the calls the table allows. *)
AcceptIffAllowed ==
  phase \in {"compiled", "done"} =>
     accepted = (name \in Visible(cfg) /\ count \in Entry(name).counts)

(* Every callable (name, count) is accepted and has a probe; nothing else   *)
(* yields a value; a not-implemented name never yields a value.             *)
OnlyCallableYieldsValue ==
  phase = "done" =>
     /\ (result = "value") = (Known(name) /\ Callable(Entry(name), cfg) /\ count \in Entry(name).counts)
     /\ (result = "value" => Len(ProbesAt(Entry(name), count)) > 0)
     /\ (Known(name) /\ Entry(name).status = "notImplemented" => result # "value")
=============================================================================
