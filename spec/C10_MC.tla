------------------------------- MODULE C10_MC -------------------------------
(***************************************************************************)
(* The collection algebra of property C10, checked on the abstract machine *)
(* at every focus of the pool (role 1), and the case generator (role 2).   *)
(***************************************************************************)
EXTENDS C10

VARIABLES f, done
vars == <<f, done>>

EmitAll(ff) == \A c \in CasesOf(ff) : PrintT(ToJson([id |-> CaseId(c), cs |-> c, text |-> Prog(c).txt, ftxt |-> Foci[c.f].txt,
                                                      dspec |-> IF c.shape = "setfn" THEN DSpecs[c.a] ELSE <<>>,
                                                      n |-> IF c.shape = "fnVarN" THEN c.a ELSE 0]))

Init == f \in 1..NFoci /\ done = FALSE
Step == ~done /\ done' = TRUE /\ f' = f /\ EmitAll(f)
Next == Step
Spec == Init /\ [][Next]_vars

(******************************** laws ************************************)
C == FocusItems(f).items
Ce == Foci[f].e
Ev(e) == Eval(e, Env(BaseVars), Input)
EvD(e, d) == Eval(e, Env([ints |-> BaseVars.ints, mixed |-> BaseVars.mixed, none |-> BaseVars.none, decint |-> BaseVars.decint, looks |-> BaseVars.looks, d |-> d]), Input)
N(n) == Lit1(I(n))
Fn0(fn) == Ev(Call(Ce, fn, <<>>))
FnN(fn, n) == Ev(Call(Ce, fn, <<N(n)>>))
SameOutcome(a, b) == a.k = b.k /\ (a.k = "ok" => SeqSame(a.items, b.items))

IsSubsequence(s, c) ==   \* s keeps the order and identity of c's items
  \E idx \in [1..Len(s) -> 1..Len(c)] :
     /\ \A j \in 1..Len(s) : ItemSame(s[j], c[idx[j]])
     /\ \A j \in 1..(Len(s) - 1) : idx[j] < idx[j + 1]

LawFocusDefined == FocusItems(f).k = "ok"
LawFirst == SameOutcome(Fn0("first"), Ev(Ix(Ce, 0))) /\ SameOutcome(Fn0("first"), FnN("take", 1))
(* first() of a projection is its item 0 and its take(1) *)
LawFirstOfSelect ==
  \A e \in 1..Len(Projections) :
     LET sel == Call(Ce, "select", <<Projections[e].e>>) IN
     /\ SameOutcome(Ev(Call(sel, "first", <<>>)), Ev(Ix(sel, 0)))
     /\ SameOutcome(Ev(Call(sel, "first", <<>>)), Ev(Call(sel, "take", <<N(1)>>)))
LawTail  == SameOutcome(Fn0("tail"), FnN("skip", 1))
LawLast  == SameOutcome(Fn0("last"), FnN("skip", Len(C) - 1)) \/ Len(C) = 0
LawTakeSkipPartition == \A n \in NRange(f) : FnN("take", n).items \o FnN("skip", n).items = C
LawEmptyCount == Fn0("empty").items = <<B(Len(C) = 0)>> /\ Fn0("count").items = <<I(Len(C))>>
LawExistsIsWhereExists ==
  \A p \in 1..Len(Criteria) :
     SameOutcome(Ev(Call(Ce, "exists", <<Criteria[p].e>>)), Ev(Call(Call(Ce, "where", <<Criteria[p].e>>), "exists", <<>>)))
LawAll ==
  \A p \in 1..Len(Criteria) :
     LET a == Ev(Call(Ce, "all", <<Criteria[p].e>>))
         w == Ev(Call(Ce, "where", <<Criteria[p].e>>))
     IN a.k = "ok" /\ w.k = "ok" => (a.items = <<B(TRUE)>> <=> Len(w.items) = Len(C))
LawWhereTrivial ==
  /\ SameOutcome(Ev(Call(Ce, "where", <<Criteria[1].e>>)), EOk(C))
  /\ Ev(Call(Ce, "where", <<Criteria[2].e>>)).items = <<>>
  /\ Ev(Call(Ce, "where", <<Criteria[3].e>>)).items = <<>>
  /\ SameOutcome(Ev(Call(Ce, "select", <<This>>)), EOk(C))
LawWhereSubsequence ==
  \A p \in 1..Len(Criteria) :
     LET w == Ev(Call(Ce, "where", <<Criteria[p].e>>)) IN w.k = "ok" /\ Len(C) <= 6 => IsSubsequence(w.items, C)
LawDistinct ==
  LET d == Fn0("distinct") IN
  d.k = "ok" => /\ DistinctOk(C, d.items)
                /\ Fn0("isDistinct").items = <<B(Len(d.items) = Len(C))>>
                /\ IsSubsequence(d.items, C)
LawExclude ==
  \A ds \in 1..Len(DSpecs) :
     LET d == DItems(f, DSpecs[ds])
         x == EvD(Call(Ce, "exclude", <<Var("d")>>), d)
     IN x.k = "ok" => /\ IsSubsequence(x.items, C) \/ Len(C) > 6
                      /\ \A j \in 1..Len(x.items) : ~Member(x.items[j], d)
                      /\ Len(x.items) = Cardinality({j \in 1..Len(C) : ~Member(C[j], d)})
LawExtension ==
  /\ LET a == Ev(Call(Ce, "extension", <<Lit1(Str(UrlA))>>))
         b == Ev(Call(Fld(Ce, "extension"), "where", <<Criteria[16].e>>))
     IN a.k = "ok" /\ b.k = "ok" => SeqSame(a.items, b.items)
  /\ LET a == Ev(Call(Ce, "extension", <<Lit1(Str(UrlBirth))>>))
         b == Ev(Call(Fld(Ce, "extension"), "where", <<Criteria[17].e>>))
     IN a.k = "ok" /\ b.k = "ok" => SeqSame(a.items, b.items)
=============================================================================
