------------------------------- MODULE C17_MC -------------------------------
(***************************************************************************)
(* The option-folding machine of C17 explored over every option list.      *)
(* One behaviour per list: options are applied one by one (one action per  *)
(* option, as in opts.ApplyOptions), then Finish decides whether anything  *)
(* is evaluated and emits the list's cases (role 2).  The invariants are   *)
(* the property's statements about folding (role 1).                       *)
(***************************************************************************)
EXTENDS C17, Params

VARIABLES mode, scheme, ks, k, st, phase, evaluated
vars == <<mode, scheme, ks, k, st, phase, evaluated>>

Lists(kinds) == UNION {[1..L -> kinds] : L \in 0..MaxLen}

(* the concrete options of this behaviour: [name, val] or [name, sig] *)
Opts == IF mode = "E" THEN EConcAll(EOpts(ks)) ELSE CConcAll(COpts(ks, scheme))

Start == IF mode = "E" THEN EvalInit ELSE CompInit(Builtins)
Apply(s, o) == IF mode = "E" THEN ApplyEnvVar(s, o) ELSE ApplyAddFn(s, o)

Init ==
  /\ \/ mode = "E" /\ scheme = "kind" /\ ks \in Lists(EKinds)
     \/ mode = "C" /\ scheme \in Schemes /\ ks \in Lists(CKinds) /\ (scheme = "builtinLast" => Len(ks) > 0)
  /\ k = 0 /\ phase = "fold" /\ evaluated = FALSE
  /\ st = Start

Step ==
  /\ phase = "fold" /\ k < Len(ks)
  /\ st' = Apply(st, Opts[k + 1])
  /\ k' = k + 1
  /\ UNCHANGED <<mode, scheme, ks, phase, evaluated>>

Cases == IF mode = "E" THEN ECases(ks) ELSE CCases(ks, scheme)

Finish ==
  /\ phase = "fold" /\ k = Len(ks)
  /\ phase' = "done"
  /\ evaluated' = (Len(st.errs) = 0 \/ Mutant = "evalDespiteError")
  /\ UNCHANGED <<mode, scheme, ks, k, st>>
  /\ \A j \in 1..Len(Cases) : PrintT(ToJson(Cases[j]))

Next == Step \/ Finish
Spec == Init /\ [][Next]_vars

(* ------------------------------------------------------------------------ *)
(* Invariants                                                               *)
(* ------------------------------------------------------------------------ *)
Good(j)  == IF mode = "E" THEN ~HasBadLeaf(Opts[j].val) ELSE ValidSig(Opts[j].sig)
Taken(j) == IF mode = "E" THEN Opts[j].name \in Predefined ELSE Opts[j].name \in Builtins
(* option j fails, said without the machine *)
FailsAt(j) == \/ ~Good(j)
              \/ Taken(j)
              \/ \E h \in 1..(j - 1) : Opts[h].name = Opts[j].name /\ Good(h)

(* If any option fails nothing is evaluated, and every case of the list     *)
(* expects an error that stems from the options.                            *)
OptionErrorBlocksEval ==
  phase = "done" /\ Len(st.errs) > 0
     => /\ ~evaluated
        /\ \A j \in 1..Len(Cases) :
              LET x == Expected(Cases[j]) IN x.k \in {"cerr", "opterr"} /\ Len(x.calls) = 0

(* Errors accumulate: one per failing option, none for the others. *)
ErrorsAccumulate ==
  Len(st.errs) = Cardinality({j \in 1..k : FailsAt(j)})

(* The classes of the joined error (Evaluate side). *)
ErrorClasses ==
  phase = "done" /\ mode = "E"
     => /\ ("UnsupportedType" \in SeqRange(st.errs)) = MustUnsupported(Opts)
        /\ ("ExistingConstant" \in SeqRange(st.errs)) = MustExisting(Opts)
        /\ (Len(st.errs) > 0) = EvalFailsStatic(Opts)

(* A later duplicate never overwrites; predefined names keep their values;  *)
(* built-ins are never replaced and nothing with a bad signature is stored. *)
FirstGood(n) == CHOOSE j \in 1..k : Opts[j].name = n /\ Good(j)
                                    /\ \A h \in 1..(j - 1) : ~(Opts[h].name = n /\ Good(h))
FirstWins ==
  IF mode = "E"
  THEN /\ st.env["context"] = VInput /\ st.env["ucum"] = VLeaf(S(UcumCp))
       /\ \A n \in DOMAIN st.env \ Predefined : st.env[n] = Opts[FirstGood(n)].val
       /\ \A j \in 1..k : Good(j) => Opts[j].name \in DOMAIN st.env
  ELSE /\ \A n \in Builtins : n \in DOMAIN st.tbl /\ st.tbl[n].builtin
       /\ \A n \in DOMAIN st.tbl \ Builtins :
             /\ ValidSig(st.tbl[n].sig)
             /\ \E j \in 1..k : Opts[j].name = n /\ Opts[j].sig = st.tbl[n].sig
                                /\ \A h \in 1..(j - 1) : Opts[h].name # n

(* Whether the list fails does not depend on the order of its options. *)
FoldAll(os) == IF mode = "E" THEN FoldE(os, Len(os)) ELSE FoldC(os, Len(os), Builtins)
FailsOrderIndependent ==
  k = 0 =>
    LET n == Len(ks)
        f == Len(FoldAll(Opts).errs) > 0
    IN /\ \A p \in Permutations(1..n) : (Len(FoldAll([j \in 1..n |-> Opts[p[j]]]).errs) > 0) = f
       /\ f = (\E j \in 1..n : FailsAt(j))

(* k = 0 makes FailsAt look at no option; evaluate it on the whole list *)
FailsStatic ==
  phase = "done" => (Len(st.errs) > 0) = (\E j \in 1..k : FailsAt(j))
=============================================================================
