------------------------------ MODULE C11_Judge ------------------------------
(***************************************************************************)
(* Role 3: judge observations of the real code for property C11.           *)
(*                                                                         *)
(* An observation is the case (ast, tokensMin, tokensFull, gapsMin,        *)
(* gapsFull) plus                                                          *)
(*   variants  one entry per source text compiled and evaluated:           *)
(*             [r, d, oh, str]: rendering ("min"/"full"), decoration,      *)
(*             digest of the outcome (kind and items; never the message),  *)
(*             and whether Expression.String() returned the source         *)
(*             ("same"/"diff"/"none" when it did not compile);             *)
(*   outs      digest -> one outcome with that digest;                     *)
(*   junkTried, junkAccepted   how many junk-extended sources (rendering   *)
(*             + one trailing token from JunkTokens) were compiled, and    *)
(*             those [r, j, k] that were NOT rejected (k = "compiled" ...) *)
(* The verdict demands, in this order of reporting:                        *)
(*   0 the record is well formed: the token sequences and gap flags are    *)
(*     the specification's renderings of the tree (else "malformed|...",   *)
(*     which the driver treats as a machinery failure);                    *)
(*   1 a tree using an unsupported operator is rejected by Compile in      *)
(*     every variant;                                                      *)
(*   2 no panic, no timeout;                                               *)
(*   3 one compile verdict for all variants (both renderings, every        *)
(*     decoration);                                                        *)
(*   4 one outcome for all variants;                                       *)
(*   5 where the evaluator gives a value, that value;                      *)
(*   6 every junk-extended source is rejected;                             *)
(*   7 String() is the source for every variant that compiled.             *)
(***************************************************************************)
EXTENDS C11, Json, Params

Obs == ndJsonDeserialize(ObsFile)
N == Len(Obs)
W == 16

(* trailing text that can never continue an expression: closing brackets,  *)
(* a comma, a second literal, a character that starts no token            *)
JunkTokens == {")", "]", "}", ",", "1", "true", "#"}

OpName(t) ==
  CASE t.k = "bin"  -> t.op
    [] t.k = "pol"  -> "pol" \o t.op
    [] t.k = "type" -> t.op
    [] t.k = "idx"  -> "[]"
    [] t.k = "inv"  -> IF t.m.k = "fn" THEN "." \o t.m.name \o "()" ELSE "."
    [] t.k = "fn"   -> t.name \o "()"
    [] t.k = "lit"  -> "lit"
    [] OTHER        -> t.k
(* the operator at the top and the operators directly below it *)
ShapeSig(t) ==
  CASE t.k = "bin"  -> OpName(t) \o "(" \o OpName(t.l) \o "," \o OpName(t.r) \o ")"
    [] t.k \in {"pol", "type", "inv"} -> OpName(t) \o "(" \o OpName(t.e) \o ")"
    [] t.k = "idx"  -> OpName(t) \o "(" \o OpName(t.e) \o "," \o OpName(t.i) \o ")"
    [] OTHER        -> OpName(t)

WellFormed(o) ==
  /\ RenderMin(o.ast) = o.tokensMin
  /\ RenderFull(o.ast) = o.tokensFull
  /\ Gaps(o.tokensMin) = o.gapsMin
  /\ Gaps(o.tokensFull) = o.gapsFull
  /\ Len(o.variants) >= 2
  /\ o.junkTried = 2 * Cardinality(JunkTokens)
  /\ \A j \in 1..Len(o.variants) : o.variants[j].oh \in DOMAIN o.outs

Verdict(o) ==
  LET t == o.ast
      vs == o.variants
      nv == Len(vs)
      Out(j) == o.outs[vs[j].oh]
      exp == Expected(t)
      Compiles(j) == Out(j).k # "cerr"
      fails == {j \in 1..nv : IsFailure(Out(j))}
      unsup == HasUnsupported(t)
      accepted == {j \in 1..nv : Compiles(j)}
      verdictDiff == {j \in 1..nv : Compiles(j) # Compiles(1)}
      outDiff == {j \in 1..nv : vs[j].oh # vs[1].oh}
      junkBad == 1..Len(o.junkAccepted)
      strBad == {j \in 1..nv : Compiles(j) /\ vs[j].str # "same"}
      First(Js) == CHOOSE j \in Js : \A m \in Js : j <= m
      (* F is constant on the variants of each rendering (so a difference is one between the renderings) *)
      PerRendering(F(_)) == \A j, m \in 1..nv : vs[j].r = vs[m].r => F(j) = F(m)
      sig ==
        IF unsup /\ accepted # {}
          THEN "syntax|unsupported-operator-compiles|" \o FirstUnsupported(t) \o "|" \o Out(First(accepted)).k
        ELSE IF fails # {}
          THEN "syntax|" \o Out(First(fails)).k \o (IF outDiff = {} THEN "-in-all-variants|" ELSE "-in-some-variants|")
                 \o (IF Out(First(fails)).k = "panic" THEN Out(First(fails)).site ELSE "") \o "|" \o ShapeSig(t)
        ELSE IF verdictDiff # {}
          THEN (IF PerRendering(LAMBDA j : Compiles(j)) THEN "syntax|compile-verdict-differs-between-renderings|"
                ELSE "syntax|decoration-changes-compile-verdict|" \o vs[First(verdictDiff)].r \o "/" \o vs[First(verdictDiff)].d \o "|")
                 \o ShapeSig(t)
        ELSE IF outDiff # {}
          THEN (IF PerRendering(LAMBDA j : vs[j].oh) THEN "syntax|renderings-evaluate-differently|"
                ELSE "syntax|decoration-changes-outcome|" \o vs[First(outDiff)].r \o "/" \o vs[First(outDiff)].d \o "|")
                 \o ShapeSig(t) \o "|min-" \o KindOf(Out(1)) \o "|other-" \o KindOf(Out(First(outDiff)))
        ELSE IF exp.k = "ok" /\ ~ValueAgrees(Out(1), exp)
          THEN "syntax|value-differs-from-specification|" \o ShapeSig(t) \o "|got-" \o KindOf(Out(1))
        ELSE IF junkBad # {}
          THEN "syntax|trailing-junk-accepted|" \o o.junkAccepted[First(junkBad)].j \o "|" \o o.junkAccepted[First(junkBad)].k
        ELSE IF strBad # {}
          THEN "syntax|String-is-not-the-source|" \o vs[First(strBad)].d
        ELSE ""
  IN IF ~WellFormed(o)
     THEN [id |-> o.id, ok |-> FALSE, sig |-> "malformed|renderings-or-gaps-do-not-match-the-specification", want |-> [k |-> "wellformed"]]
     ELSE [id |-> o.id, ok |-> sig = "", sig |-> sig, want |-> exp]

VARIABLE i
Init == i \in 1..(IF N < W THEN N ELSE W) /\ PrintT(ToJson(Verdict(Obs[i])))
Next == i + W <= N /\ i' = i + W /\ PrintT(ToJson(Verdict(Obs[i'])))
Spec == Init /\ [][Next]_i
=============================================================================
