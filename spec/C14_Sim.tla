------------------------------- MODULE C14_Sim -------------------------------
(***************************************************************************)
(* Sampling of the C14 case space beyond the exhaustive bound (strings of  *)
(* 5..12 symbols), meant for `tlc -simulate`.                              *)
(*                                                                         *)
(* A behaviour picks a target length, grows a string symbol by symbol (the *)
(* simulator chooses each symbol), then emits PerString cases for it; each *)
(* case is drawn from the same case space as C14_MC (CasesOf): a function, *)
(* a receiver kind, and positions / a pattern (a substring s[i..j], left   *)
(* as it is, or turned into a one-symbol near-miss) chosen at random.      *)
(* The laws of FPStrings are checked on every string reached, against the  *)
(* patterns that were drawn.                                               *)
(***************************************************************************)
EXTENDS C14, Json

CONSTANTS MinTarget, MaxTarget, PerString

VARIABLES s, target, k, cs

NoCase == Case("-", "-", <<>>, <<>>)

Init == s = <<>> /\ target \in MinTarget..MaxTarget /\ k = 0 /\ cs = NoCase

Grow ==
  /\ Len(s) < target
  /\ \E x \in Alphabet : s' = Append(s, x)
  /\ UNCHANGED <<target, k, cs>>

(* the pattern drawn: the substring s[i..j], as it is (m = 0), with one     *)
(* symbol changed (m = 1) or with one symbol appended (m = 2)               *)
DrawnPattern(i, j, m, q) ==
  LET t == SubSeq(s, i, j) IN
    IF m = 0 \/ (m = 1 /\ t = <<>>) THEN t
    ELSE IF m = 1 THEN [t EXCEPT ![1 + (q % Len(t))] = NextSym(t[1 + (q % Len(t))])]
    ELSE t \o <<97>>

DrawnCase(f, rk, t, t0, r, st, n, two) ==
  LET src == ArgSrc(rk) IN
    CASE f \in NullaryFns \cup {"law1"} -> Case(f, rk, s, <<>>)
      [] f = "substring" -> Case(f, rk, s, IF two THEN <<IArg(src, st), IArg(src, n)>> ELSE <<IArg(src, st)>>)
      [] f = "replace"   -> Case(f, rk, s, <<SArg(src, t), SArg(src, r)>>)
      [] f = "law2"      -> Case(f, rk, s, <<IArg(src, IF st < 0 \/ st > Len(s) THEN Len(s) ELSE st)>>)
      [] f = "law3"      -> Case(f, rk, s, <<SArg(src, IF Find(s, t) >= 0 THEN t ELSE t0)>>)
      [] OTHER           -> Case(f, rk, s, <<SArg(src, t)>>)

Emit ==
  /\ Len(s) = target /\ k < PerString
  /\ \E f \in {RandomElement(NullaryFns \cup PatternFns \cup LawFns \cup {"substring", "replace"})} :
     \E f2 \in {IF RandomElement(1..4) = 1 THEN "substring" ELSE f} :       \* substring is drawn more often
     \E rk0 \in {RandomElement(StrKinds \ {"elGender"})} :
     \E rk \in {IF f2 \in LawFns /\ rk0 \notin {"lit", "env"} THEN "lit" ELSE IF RandomElement(1..3) = 1 THEN rk0 ELSE "lit"} :
     \E i \in {RandomElement(1..(Len(s) + 1))} :
     \E j \in {RandomElement(0..Len(s))} :
     \E m \in {RandomElement(0..2)} :
     \E q \in {RandomElement(0..11)} :
     \E st \in {RandomElement(Starts(s))} :
     \E n \in {RandomElement(Lens(s))} :
     \E two \in {RandomElement(BOOLEAN)} :
       LET t == DrawnPattern(i, j, m, q)
           r == RandomElement(Replacements(<<>>, t))
           c == DrawnCase(f2, rk, t, SubSeq(s, i, j), r, st, n, two)
       IN /\ cs' = c
          /\ PrintT(ToJson(Emitted(c)))
  /\ k' = k + 1
  /\ UNCHANGED <<s, target>>

Next == Grow \/ Emit
Spec == Init /\ [][Next]_<<s, target, k, cs>>

(* law3 is generated for present patterns only: an absent near-miss is      *)
(* replaced by the substring it was made from.                              *)
InSpace == cs.fn # "-" =>
  /\ WellFormed(cs) /\ CaseLaws(cs) /\ cs.s = s
  /\ cs.fn = "law3" => Find(cs.s, cs.a[1].cp) >= 0

LawsOnDrawn == cs.fn # "-" =>
  /\ LawCharsCount(s) /\ LawCharsJoin(s) /\ LawSplit(s) /\ LawSubLength(s) /\ LawOutOfRange(s)
  /\ LawValid(s) /\ LawCase(s) /\ LawUtf8(s)
  /\ (Len(cs.a) >= 1 /\ cs.a[1].k = "s") =>
        LET t == cs.a[1].cp IN
          /\ LawIndexOf(s, t) /\ LawContains(s, t) /\ LawAffix(s, t)
          /\ \A r \in Replacements(<<>>, t) : LawReplace(s, t, r)
=============================================================================
