------------------------------ MODULE C16_Judge ------------------------------
(***************************************************************************)
(* Role 3: judge observations of the real code for property C16.           *)
(* Observation kinds (module C16): accept, eval, probe.                    *)
(*                                                                         *)
(*  accept  (A) Compile accepted the default call  <=>  the name is in the *)
(*              implementation's table and min <= count <= max             *)
(*          (B) for a name the specification says is callable under this   *)
(*              configuration: it is in the table, and the table's bounds  *)
(*              admit the count <=> the specification allows the count     *)
(*          (H) the table entry read through funcs.Clone() /               *)
(*              AddExperimentalFuncs is the one read at process start,     *)
(*              whatever was compiled in earlier epochs of the process     *)
(*              (the harness runs the histories D,E,D and E,D,E); together *)
(*              with (A) this makes acceptance independent of history      *)
(*  eval    an accepted call never fails with an arity complaint; a        *)
(*          not-implemented name never yields a value                      *)
(*  probe   the probe gives the value the specification states for THAT    *)
(*          function (bound to the implementation of the same name)        *)
(* Names only the implementation knows are judged by (A) and by eval.      *)
(***************************************************************************)
EXTENDS C16, Params

Obs == ndJsonDeserialize(ObsFile)
N == Len(Obs)
W == 16

ClsOf(out) == IF Has(out, "cls") THEN Range(out.cls) ELSE {}
Site(out) == IF Has(out, "site") THEN out.site ELSE "?"

Where(c) == c.name \o "|c" \o ToString(c.count) \o "|" \o c.cfg
Pos(o) == IF o.pos = "nested" THEN "|nested" ELSE ""
RECURSIVE HistStr(_, _)
HistStr(h, j) == IF j > Len(h) THEN "" ELSE (IF j > 1 THEN "+" ELSE "") \o h[j] \o HistStr(h, j + 1)
TableStr(t) == IF t.present THEN "table-" \o ToString(t.min) \o ".." \o ToString(t.max) ELSE "table-absent"
GotStr(out) == CASE out.k = "ok"  -> "ok" \o ToString(Len(out.items)) \o ":" \o TypeStr(out.items, 1)
                 [] out.k \in {"err", "cerr"} -> out.k \o (IF "WrongArity" \in ClsOf(out) THEN "+WrongArity" ELSE "")
                 [] out.k = "panic" -> "panic@" \o Site(out)
                 [] OTHER -> out.k

VAccept(o) ==
  LET c == o.cs
      t == o.tbl
      accepted == o.out.k = "ok"
      inB == t.present /\ InBounds(t.min, t.max, c.count)
      aOk == accepted = inB
      spec == Known(c.name) /\ Callable(Entry(c.name), c.cfg)
      allowed == spec /\ c.count \in Entry(c.name).counts
      bOk == spec => (t.present /\ (InBounds(t.min, t.max, c.count) = allowed))
      hOk == o.tbl = o.tbl0
      good == ~IsFailure(o.out) /\ hOk /\ aOk /\ bOk
      sig == (IF IsFailure(o.out) THEN "fn|compile|" \o Where(c) \o "|" \o GotStr(o.out)
              ELSE IF ~hOk THEN "fn|table-changed-by-earlier-compilations|" \o Where(c) \o "|was-" \o TableStr(o.tbl0)
                                \o "|now-" \o TableStr(t) \o "|after-" \o HistStr(o.hist, 1)
              ELSE IF ~aOk THEN "fn|compile-vs-table|" \o Where(c) \o "|" \o TableStr(t) \o "|compile-" \o (IF accepted THEN "accepted" ELSE "rejected")
              ELSE IF ~t.present THEN "fn|missing-from-table|" \o Where(c)
              ELSE "fn|table-vs-spec|" \o Where(c) \o "|" \o TableStr(t) \o "|spec-" \o (IF allowed THEN "allows" ELSE "forbids"))
             \o Pos(o)
  IN [id |-> o.id, ok |-> good, sig |-> IF good THEN "" ELSE sig,
      want |-> [accept |-> IF spec THEN (IF allowed THEN "yes" ELSE "no") ELSE "as the table says"]]

VEval(o) ==
  LET c == o.cs
      ni == Known(c.name) /\ Entry(c.name).status = "notImplemented"
      arity == o.out.k \in {"err", "cerr"} /\ "WrongArity" \in ClsOf(o.out)
      value == ni /\ o.out.k = "ok"
      good == ~IsFailure(o.out) /\ ~arity /\ ~value
      sig == IF IsFailure(o.out) THEN "fn|eval|" \o Where(c) \o "|" \o GotStr(o.out)
             ELSE IF arity THEN "fn|arity-complaint-at-evaluation|" \o Where(c)
             ELSE "fn|not-implemented-returned-value|" \o Where(c) \o "|" \o GotStr(o.out)
  IN [id |-> o.id, ok |-> good, sig |-> IF good THEN "" ELSE sig,
      want |-> [accept |-> IF ni THEN "an error" ELSE "no arity complaint"]]

VProbe(o) ==
  LET c == o.cs
      f == Entry(c.name)
      ps == ProbesAt(f, c.count)
      p == ps[o.j]
      compiled == o.comp.k = "ok"
      \* the default call was rejected: the accept record carries that finding
      skipped == ~compiled /\ o.out.k = "cerr"
      good == \/ skipped
              \/ (o.out.k = "ok" /\ Matches(o.out.items, p))
      sig == "fn|probe|" \o Where(c) \o "|p" \o ToString(o.j) \o "|want-" \o p.mode \o ToString(Len(p.exp))
             \o ":" \o TypeStr(p.exp, 1) \o "|got-" \o GotStr(o.out) \o "|bound-to-" \o o.tbl.sym
  IN [id |-> o.id, ok |-> good, sig |-> IF good THEN "" ELSE sig,
      want |-> [accept |-> ProbeText(f, p), mode |-> p.mode, exp |-> p.exp]]

Malformed(o) == [id |-> o.id, ok |-> FALSE, sig |-> "malformed|" \o o.kind, want |-> [accept |-> "?"]]

Verdict(o) ==
  CASE o.kind = "accept" -> VAccept(o)
    [] o.kind = "eval"   -> VEval(o)
    [] o.kind = "probe" /\ Known(o.cs.name) /\ o.j >= 1 /\ o.j <= Len(ProbesAt(Entry(o.cs.name), o.cs.count)) -> VProbe(o)
    [] OTHER -> Malformed(o)

VARIABLE i
Init == i \in 1..(IF N < W THEN N ELSE W) /\ PrintT(ToJson(Verdict(Obs[i])))
Next == i + W <= N /\ i' = i + W /\ PrintT(ToJson(Verdict(Obs[i'])))
Spec == Init /\ [][Next]_i
=============================================================================
