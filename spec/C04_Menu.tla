------------------------------ MODULE C04_Menu ------------------------------
(***************************************************************************)
(* Emits the menu of the stress test (role 2).  The function names and     *)
(* arities are the IMPLEMENTATION's: Params!FuncFile is the dump of        *)
(* funcs.Clone() and of the experimental table written by `c04 funcs`, so  *)
(* a function added to the library is covered without touching the         *)
(* specification (it gets the generic form of C04!FnCoverText until a      *)
(* well-typed entry is written for it).                                    *)
(***************************************************************************)
EXTENDS C04_MC, Params

Funcs == ndJsonDeserialize(FuncFile)        \* [name, min, max, exp], sorted by name

CoverPid(j) == 500 + j
Cover == [j \in 1..Len(Funcs) |->
            [name |-> Funcs[j].name, pid |-> CoverPid(j),
             call |-> ConcCCall(CC("fhirpath", <<OExp>>, <<NOpaque(CoverPid(j))>>, 1000 + CoverPid(j)),
                                FnCoverText(Funcs[j].name, Funcs[j].min))]]

MenuNext == last.act = "init" /\ PrintT(ToJson([StressMenu EXCEPT !.cover = Cover])) /\ last' = Step("menu", 0, 0)
            /\ UNCHANGED <<base, exper, sharedEnv, tz, clock, ticks, cs, exprs, es, cache, hist>>
MenuSpec == Init /\ [][MenuNext]_vars
=============================================================================
