------------------------------ MODULE C08_Laws ------------------------------
(***************************************************************************)
(* Constant-level laws of FPArith on small exhaustive ranges (role 1).     *)
(* They complement the per-case invariants of C08_MC: there the witness is *)
(* compared with its neighbours, here EVERY candidate in a range is tried. *)
(* A Mutant of the witnesses makes an assumption false.                    *)
(***************************************************************************)
EXTENDS C08, TLC

(***************************************************************************)
(* Laws checked once on small exhaustive ranges (constant level).          *)
(*  - the div relation is FUNCTIONAL: exactly one integer satisfies it,    *)
(*    and it is the witness; likewise floor / ceiling / truncate;          *)
(*  - the long division agrees with TLC's native \div and % where both     *)
(*    apply (non-negative operands), and + - * with the native operators.  *)
(***************************************************************************)
SmallInts == -12..12
Quarter(k) == DMake(k < 0, NFromInt(25 * (IF k < 0 THEN 0 - k ELSE k)), -2)      \* k / 4
ASSUME DivRelationIsFunctional ==
  \A a \in SmallInts, b \in SmallInts \ {0}, q \in -15..15 :
     DivRel(DFromInt(a), DFromInt(b), DFromInt(q)) <=> DEq(DFromInt(q), WDivQ(DFromInt(a), DFromInt(b)))
ASSUME RoundingRelationsAreFunctional ==
  \A k \in -18..18, n \in -6..6 :
     /\ FloorRel(Quarter(k), DFromInt(n)) <=> DEq(DFromInt(n), WFloorD(Quarter(k)))
     /\ CeilRel(Quarter(k), DFromInt(n))  <=> DEq(DFromInt(n), WCeilD(Quarter(k)))
     /\ TruncRel(Quarter(k), DFromInt(n)) <=> DEq(DFromInt(n), WTruncD(Quarter(k)))
ASSUME AgreesWithNativeIntegers ==
  /\ \A a \in 0..60, b \in 1..13 :
        /\ DEq(WDivQ(DFromInt(a), DFromInt(b)), DFromInt(a \div b))
        /\ DEq(WModR(DFromInt(a), DFromInt(b)), DFromInt(a % b))
  /\ \A a \in {0, 7, 9999, 10000, 12345678, 99999999}, b \in {1, 3, 9999, 10000, 10001} :
        /\ NDivMod(NFromInt(a), NFromInt(b)).q = NFromInt(a \div b)
        /\ NDivMod(NFromInt(a), NFromInt(b)).r = NFromInt(a % b)
  /\ \A a \in SmallInts, b \in SmallInts :
        /\ WBin("+", NumI(a), NumI(b)) = Val(TRUE, DFromInt(a + b))
        /\ WBin("-", NumI(a), NumI(b)) = Val(TRUE, DFromInt(a - b))
        /\ WBin("*", NumI(a), NumI(b)) = Val(TRUE, DFromInt(a * b))

ASSUME PrintT("C08 laws hold")
VARIABLE x
Init == x = 0
Next == UNCHANGED x
=============================================================================
