------------------------------ MODULE C12_Judge ------------------------------
EXTENDS C12
ObsC == ndJsonDeserialize(ObsFile)
NObs == Len(ObsC)
WW == 16

ItemOk(c, obs, exp) ==
  IF exp.t = "el" THEN obs.t = "el" /\ ~obs.wrapped /\ (IF obs.r # 0 THEN obs.r = 1 /\ obs.addr = exp.addr ELSE obs.h = exp.h)
  ELSE ItemSame(obs, exp)

KindOf2(out) == IF out.k = "ok" THEN (IF Len(out.items) = 1 /\ out.items[1].t = "b" THEN (IF out.items[1].b THEN "true" ELSE "false") ELSE "ok" \o ToString(Len(out.items))) ELSE out.k

Verdict(o) ==
  LET c == o.cs
      e == Exp(c)
      good == /\ ~IsFailure(o.out)
              /\ CASE e.k = "any" -> TRUE
                   [] e.k = "cerr" -> o.out.k = "cerr"
                   [] OTHER -> o.out.k = "ok" /\ Len(o.out.items) = Len(e.items) /\ \A j \in 1..Len(e.items) : ItemOk(c, o.out.items[j], e.items[j])
      \* the same test on the element handed in as %x (the choice wrapper itself where there is one)
      envGood == Has(o, "envout") =>
                   (/\ ~IsFailure(o.envout)
                    /\ CASE e.k = "any" -> TRUE
                         [] e.k = "cerr" -> o.envout.k = "cerr"
                         [] OTHER -> o.envout.k = "ok" /\ Len(o.envout.items) = Len(e.items) /\ \A j \in 1..Len(e.items) : ItemOk(c, o.envout.items[j], e.items[j]))
      subj == IF c.kind = "el" THEN NodeOf(c).pn \o ":" \o NodeOf(c).ty ELSE "System." \o SystemNameOf(ValuePool[c.lit].v)
  IN [id |-> o.id, ok |-> good /\ envGood,
      sig |-> IF good /\ envGood THEN "" ELSE IF good THEN "type|" \o c.op \o "|env|" \o subj \o "|" \o TypeText(c.ns, c.name) \o "|got-" \o KindOf2(o.envout) ELSE "type|" \o c.op \o "|" \o subj \o "|" \o TypeText(c.ns, c.name) \o "|got-" \o KindOf2(o.out)
                                  \o "|want-" \o (IF e.k = "ok" THEN (IF Len(e.items) = 0 THEN "empty" ELSE IF e.items[1].t = "b" THEN (IF e.items[1].b THEN "true" ELSE "false") ELSE "item") ELSE e.k),
      want |-> e]

VARIABLE i
Init == i \in 1..(IF NObs < WW THEN NObs ELSE WW) /\ PrintT(ToJson(Verdict(ObsC[i])))
Next == i + WW <= NObs /\ i' = i + WW /\ PrintT(ToJson(Verdict(ObsC[i'])))
Spec == Init /\ [][Next]_i
=============================================================================
