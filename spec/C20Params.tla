---- MODULE C20Params ----
(* Per-run constants of the C20 judge; checks/c20.py overwrites this module *)
(* in the scratch specification directory (driver.write_params).            *)
TreeFile == "/dev/null"
====
