------------------------------ MODULE FPOptions ------------------------------
(***************************************************************************)
(* Option folding for Evaluate and Compile, environment variables and      *)
(* custom functions (DESIGN.md Appendix D "Compile / options / contexts"). *)
(*                                                                         *)
(*  Evaluate: the context is pre-seeded with `context` (the input          *)
(*  collection) and `ucum`; each evalopts.EnvVariable(name, value) is one  *)
(*  action ApplyEnvVar; errors accumulate; ANY error means Evaluate        *)
(*  returns it without evaluating anything.                                *)
(*  Compile: the table starts as the built-in table; each                  *)
(*  compopts.AddFunction(name, fn) is one action ApplyAddFn (rejected for  *)
(*  an existing name or a bad signature, table unchanged); any error means *)
(*  Compile fails.                                                         *)
(*  Ev is the reference evaluator of the small expression language the     *)
(*  C17 programs are written in; it records every invocation of a custom   *)
(*  function (name, input collection, single-item arguments) in order.     *)
(*                                                                         *)
(* Mutant selects a deliberately wrong machine:                            *)
(*   firstErrorOnly, duplicateOverwrites, shallowTypeCheck,                *)
(*   lastElementOnly (Evaluate options), registerBadSignature, overrideExisting (Compile options);   *)
(*   evalDespiteError lives in the machine of C17_MC.                      *)
(***************************************************************************)
EXTENDS FPValues

CONSTANT Mutant

RECURSIVE ConcatAll(_)
ConcatAll(ss) == IF Len(ss) = 0 THEN <<>> ELSE Head(ss) \o ConcatAll(Tail(ss))

SeqRange(s) == {s[j] : j \in 1..Len(s)}

UcumCp == <<104, 116, 116, 112, 58, 47, 47, 117, 110, 105, 116, 115, 111, 102, 109, 101, 97, 115, 117, 114, 101, 46, 111, 114, 103>>

(* ------------------------------------------------------------------------ *)
(* Supplied values: what a caller hands to EnvVariable.                     *)
(*   leaf   a System value or a FHIR element / resource (abstract item)     *)
(*   coll   a system.Collection of supplied values                          *)
(*   bad    a Go value of any other type                                    *)
(*   nil    the untyped nil                                                 *)
(*   tnil   a nil pointer of an element / resource type                     *)
(*   input  the evaluation's own input collection (bound to %context)       *)
(* ------------------------------------------------------------------------ *)
VLeaf(it) == [vk |-> "leaf", item |-> it]
VColl(es) == [vk |-> "coll", elems |-> es]
VBad      == [vk |-> "bad"]
VNil      == [vk |-> "nil"]
VTNil     == [vk |-> "tnil"]       \* a typed nil pointer of a FHIR proto type: not an element
VInput    == [vk |-> "input"]

(* The statement of the property, used by the invariants; never mutated.    *)
RECURSIVE HasBadLeaf(_)
HasBadLeaf(v) ==
  CASE v.vk = "leaf"  -> FALSE
    [] v.vk = "input" -> FALSE
    [] v.vk = "coll"  -> \E j \in 1..Len(v.elems) : HasBadLeaf(v.elems[j])
    [] OTHER          -> TRUE

(* The machine's type validation (recursive; nil is not a supported value). *)
RECURSIVE Supported(_)
Supported(v) ==
  CASE v.vk = "leaf"  -> TRUE
    [] v.vk = "input" -> TRUE
    [] v.vk = "coll"  -> IF Mutant = "shallowTypeCheck" THEN TRUE
                         ELSE IF Mutant = "lastElementOnly"
                              THEN Len(v.elems) = 0 \/ Supported(v.elems[Len(v.elems)])
                         ELSE \A j \in 1..Len(v.elems) : Supported(v.elems[j])
    [] OTHER          -> FALSE

(* What a variable holding v evaluates to: a collection is spliced in.      *)
RECURSIVE Splice(_, _)
Splice(v, input) ==
  CASE v.vk = "leaf"  -> <<v.item>>
    [] v.vk = "input" -> input
    [] v.vk = "coll"  -> ConcatAll([j \in 1..Len(v.elems) |-> Splice(v.elems[j], input)])
    [] OTHER          -> <<>>

(* ------------------------------------------------------------------------ *)
(* Evaluate options.  State [env, errs]; an option is [name, val].          *)
(* ------------------------------------------------------------------------ *)
Predefined == {"context", "ucum"}

EvalInit == [env  |-> ("context" :> VInput) @@ ("ucum" :> VLeaf(S(UcumCp))),
             errs |-> <<>>]

AddErr(st, c) == IF Mutant = "firstErrorOnly" /\ Len(st.errs) > 0 THEN st
                 ELSE [st EXCEPT !.errs = Append(@, c)]

ApplyEnvVar(st, o) ==
  IF ~Supported(o.val) THEN AddErr(st, "UnsupportedType")
  ELSE IF o.name \in DOMAIN st.env
       THEN IF Mutant = "duplicateOverwrites"
            THEN [st EXCEPT !.env = [n \in DOMAIN st.env |-> IF n = o.name THEN o.val ELSE st.env[n]]]
            ELSE AddErr(st, "ExistingConstant")
  ELSE [st EXCEPT !.env = (o.name :> o.val) @@ st.env]

RECURSIVE FoldE(_, _)
FoldE(opts, k) == IF k = 0 THEN EvalInit ELSE ApplyEnvVar(FoldE(opts, k - 1), opts[k])

(* Static characterisation of the error classes (independent of the fold).  *)
MustUnsupported(opts) == \E j \in 1..Len(opts) : HasBadLeaf(opts[j].val)
MustExisting(opts) ==
  \E j \in 1..Len(opts) :
     /\ ~HasBadLeaf(opts[j].val)
     /\ \/ opts[j].name \in Predefined
        \/ \E h \in 1..(j - 1) : opts[h].name = opts[j].name /\ ~HasBadLeaf(opts[h].val)
(* A name repeated after a supply that itself failed: the property text     *)
(* ("a name supplied twice") and the machine ("already present") can be     *)
(* read either way, so ErrExistingConstant is permitted but not required.   *)
MayExisting(opts) ==
  \E j \in 1..Len(opts) :
     \/ opts[j].name \in Predefined
     \/ \E h \in 1..(j - 1) : opts[h].name = opts[j].name
EvalFailsStatic(opts) == MustUnsupported(opts) \/ MustExisting(opts)

(* ------------------------------------------------------------------------ *)
(* Compile options.  State [tbl, errs]; an option is [name, sig] with       *)
(* sig = [first, params, variadic, results]:                                *)
(*   first    "coll" (system.Collection) | "other" | "none" | "notfunc"     *)
(*   params   parameter types after the first ("any","String","Integer",    *)
(*            "HumanName")                                                  *)
(*   results  "ok" ((system.Collection, error)) | "bad"                     *)
(* ------------------------------------------------------------------------ *)
NoSig == [first |-> "coll", params |-> <<>>, variadic |-> FALSE, results |-> "ok"]

ValidSig(sig) == sig.first = "coll" /\ sig.results = "ok"

CompInit(builtins) == [tbl  |-> [n \in builtins |-> [builtin |-> TRUE, sig |-> NoSig]],
                       errs |-> <<>>]

ApplyAddFn(st, o) ==
  IF o.name \in DOMAIN st.tbl /\ Mutant # "overrideExisting"
       THEN AddErr(st, "ExistingFunction")
  ELSE IF ~ValidSig(o.sig) /\ Mutant # "registerBadSignature"
       THEN AddErr(st, "BadSignature")
  ELSE [st EXCEPT !.tbl = (o.name :> [builtin |-> FALSE, sig |-> o.sig]) @@ st.tbl]

RECURSIVE FoldC(_, _, _)
FoldC(opts, k, builtins) ==
  IF k = 0 THEN CompInit(builtins) ELSE ApplyAddFn(FoldC(opts, k - 1, builtins), opts[k])

CompFailsStatic(opts, builtins) ==
  \E j \in 1..Len(opts) :
     \/ ~ValidSig(opts[j].sig)
     \/ opts[j].name \in builtins
     \/ \E h \in 1..(j - 1) : opts[h].name = opts[j].name

(* A registered variadic function is outside the fixed-parameter contract   *)
(* (DESIGN.md 7.1): its registration may be refused and its calls may do    *)
(* anything that is not a crash.                                            *)
HasVariadic(opts) == \E j \in 1..Len(opts) : ValidSig(opts[j].sig) /\ opts[j].sig.variadic

(* ------------------------------------------------------------------------ *)
(* The expression language of the C17 programs and its reference evaluator. *)
(*   [n:"lit", items, text]   a literal (text is its source form)           *)
(*   [n:"var", name]          %name                                         *)
(*   [n:"this"]               $this                                         *)
(*   [n:"root", ty]           a resource type name at the root              *)
(*   [n:"field", recv, f]     recv.f                                        *)
(*   [n:"first"|"exists", recv]                                             *)
(*   [n:"where"|"select", recv, arg]                                        *)
(*   [n:"iifT", arg]          iif(true, arg)                                *)
(*   [n:"call", fn, recv, args]   custom function; recv may be [n:"none"]   *)
(* cx = [env (name -> items), tbl, ret, forest]                             *)
(* Results: [k, items, calls, cls] with k in ok | err | errE | any          *)
(*   errE = an error, or the empty collection (an empty argument)           *)
(*   any  = unconstrained, except that it must not crash                    *)
(* ------------------------------------------------------------------------ *)
None == [n |-> "none"]

OkR(items, calls) == [k |-> "ok",   items |-> items, calls |-> calls, cls |-> ""]
ErrR(cls, calls)  == [k |-> "err",  items |-> <<>>,  calls |-> calls, cls |-> cls]
ErrER(calls)      == [k |-> "errE", items |-> <<>>,  calls |-> calls, cls |-> ""]
AnyR              == [k |-> "any",  items |-> <<>>,  calls |-> <<>>,  cls |-> ""]
WithCalls(r, calls) == IF r.k = "any" THEN r ELSE [r EXCEPT !.calls = calls \o r.calls]

RECURSIVE NodeAt(_, _)
NodeAt(node, addr) == IF Len(addr) = 0 THEN node ELSE NodeAt(node.ch[Head(addr)], Tail(addr))

(* The abstract item of the input node at (r, addr).                        *)
ElemItem(forest, r, addr) ==
  LET nd == NodeAt(forest[r], addr)
  IN [t |-> "el", r |-> r, addr |-> addr, ft |-> nd.ty, h |-> nd.h]

ChildrenNamed(forest, it, f) ==
  LET nd  == NodeAt(forest[it.r], it.addr)
      idx == SelectSeq([j \in 1..Len(nd.ch) |-> j], LAMBDA j : nd.ch[j].n = f)
  IN [j \in 1..Len(idx) |-> ElemItem(forest, it.r, Append(it.addr, idx[j]))]

FieldOf(forest, items, f) ==
  ConcatAll([j \in 1..Len(items) |-> ChildrenNamed(forest, items[j], f)])

Assignable(it, pt) ==
  CASE pt = "any"       -> TRUE
    [] pt = "String"    -> it.t = "s"
    [] pt = "Integer"   -> it.t = "i"
    [] pt = "HumanName" -> it.t = "el" /\ it.ft = "HumanName"
    [] OTHER            -> FALSE

(* What the instrumented custom function was configured to return.          *)
RetItems == <<S(<<114, 101, 116>>), I(42)>>     \* 'ret', 42
Ret(mode, input, args, calls) ==
  CASE mode = "items" -> OkR(RetItems, calls)
    [] mode = "first" -> OkR(IF Len(args) > 0 THEN <<args[1]>> ELSE <<I(Len(input))>>, calls)
    [] mode = "last"  -> OkR(IF Len(args) > 0 THEN <<args[Len(args)]>> ELSE <<I(Len(input))>>, calls)
    [] mode = "echo"  -> OkR(input, calls)
    [] mode = "empty" -> OkR(<<>>, calls)
    [] mode = "err"   -> ErrR("Custom", calls)
    [] mode = "both"  -> ErrR("Custom", calls)

RECURSIVE Ev(_, _, _), Recv(_, _, _), EvWhere(_, _, _, _, _, _), EvSelect(_, _, _, _, _, _), EvArgs(_, _, _, _, _, _, _)

(* The receiver of a step: absent means the current focus.                  *)
Recv(e, focus, cx) == IF e.recv.n = "none" THEN OkR(focus, <<>>) ELSE Ev(e.recv, focus, cx)

Ev(e, focus, cx) ==
  CASE e.n = "lit"  -> OkR(e.items, <<>>)
    [] e.n = "var"  -> IF e.name \in DOMAIN cx.env THEN OkR(cx.env[e.name], <<>>)
                       ELSE ErrR("ConstantNotFound", <<>>)
    [] e.n = "this" -> OkR(focus, <<>>)
    [] e.n = "root" -> OkR(SelectSeq(focus, LAMBDA it : it.t = "el" /\ it.ft = e.ty), <<>>)
    [] e.n = "field" ->
         LET r == Recv(e, focus, cx)
         IN IF r.k # "ok" THEN r ELSE OkR(FieldOf(cx.forest, r.items, e.f), r.calls)
    [] e.n = "first" ->
         LET r == Recv(e, focus, cx)
         IN IF r.k # "ok" THEN r
            ELSE OkR(IF Len(r.items) = 0 THEN <<>> ELSE <<r.items[1]>>, r.calls)
    [] e.n = "exists" ->
         LET r == Recv(e, focus, cx)
         IN IF r.k # "ok" THEN r ELSE OkR(<<B(Len(r.items) > 0)>>, r.calls)
    [] e.n = "iifT" -> Ev(e.arg, focus, cx)
    [] e.n = "where" ->
         LET r == Recv(e, focus, cx)
         IN IF r.k # "ok" THEN r ELSE EvWhere(e.arg, r.items, 1, <<>>, r.calls, cx)
    [] e.n = "select" ->
         LET r == Recv(e, focus, cx)
         IN IF r.k # "ok" THEN r ELSE EvSelect(e.arg, r.items, 1, <<>>, r.calls, cx)
    [] e.n = "call" ->
         LET r == Recv(e, focus, cx)
         IN IF r.k # "ok" THEN r
            ELSE IF e.fn \notin DOMAIN cx.tbl THEN AnyR
            ELSE LET sig == cx.tbl[e.fn].sig
                 IN IF sig.variadic \/ cx.tbl[e.fn].builtin \/ Len(e.args) # Len(sig.params) THEN AnyR
                    ELSE LET a == EvArgs(e.args, sig.params, 1, r.items, <<>>, r.calls, cx)
                         IN IF a.k # "ok" THEN a
                            ELSE Ret(cx.ret, r.items, a.items,
                                     Append(a.calls, [fn |-> e.fn, input |-> r.items, args |-> a.items]))

(* Arguments are evaluated one after the other on the function's input      *)
(* collection; each must be a single item assignable to its parameter.      *)
EvArgs(args, params, j, input, acc, calls, cx) ==
  IF j > Len(args) THEN OkR(acc, calls)
  ELSE LET r  == Ev(args[j], input, cx)
           r2 == WithCalls(r, calls)
       IN IF r.k # "ok" THEN r2
          ELSE IF Len(r.items) = 0 THEN ErrER(r2.calls)
          ELSE IF Len(r.items) > 1 THEN ErrR("ArgNotSingleton", r2.calls)
          ELSE IF ~Assignable(r.items[1], params[j]) THEN ErrR("ArgType", r2.calls)
          ELSE EvArgs(args, params, j + 1, input, Append(acc, r.items[1]), r2.calls, cx)

EvWhere(crit, items, j, acc, calls, cx) ==
  IF j > Len(items) THEN OkR(acc, calls)
  ELSE LET r  == Ev(crit, <<items[j]>>, cx)
           r2 == WithCalls(r, calls)
       IN IF r.k # "ok" THEN r2
          ELSE IF Len(r.items) = 0 THEN EvWhere(crit, items, j + 1, acc, r2.calls, cx)
          ELSE IF Len(r.items) = 1 /\ r.items[1].t = "b"
               THEN EvWhere(crit, items, j + 1, IF r.items[1].b THEN Append(acc, items[j]) ELSE acc, r2.calls, cx)
          ELSE AnyR     \* criteria that are not Boolean are C06's business

EvSelect(proj, items, j, acc, calls, cx) ==
  IF j > Len(items) THEN OkR(acc, calls)
  ELSE LET r  == Ev(proj, <<items[j]>>, cx)
           r2 == WithCalls(r, calls)
       IN IF r.k # "ok" THEN r2
          ELSE EvSelect(proj, items, j + 1, acc \o r.items, r2.calls, cx)

(* What Compile says about a program given the folded table:                *)
(* "ok", "cerr" (unknown function or wrong argument count) or "any" (a      *)
(* variadic custom function is called).                                     *)
Worst(a, b) == IF a = "cerr" \/ b = "cerr" THEN "cerr" ELSE IF a = "any" \/ b = "any" THEN "any" ELSE "ok"
RECURSIVE WorstAll(_)
WorstAll(s) == IF Len(s) = 0 THEN "ok" ELSE Worst(Head(s), WorstAll(Tail(s)))

RECURSIVE CompK(_, _)
CompK(e, tbl) ==
  CASE e.n \in {"lit", "var", "this", "root", "none"} -> "ok"
    [] e.n \in {"field", "first", "exists"} -> CompK(e.recv, tbl)
    [] e.n = "iifT" -> CompK(e.arg, tbl)
    [] e.n \in {"where", "select"} -> Worst(CompK(e.recv, tbl), CompK(e.arg, tbl))
    [] e.n = "call" ->
         LET kids == Worst(CompK(e.recv, tbl), WorstAll([j \in 1..Len(e.args) |-> CompK(e.args[j], tbl)]))
         IN IF e.fn \notin DOMAIN tbl THEN "cerr"
            ELSE IF tbl[e.fn].builtin THEN Worst("any", kids)
            ELSE IF tbl[e.fn].sig.variadic THEN Worst("any", kids)
            ELSE IF Len(e.args) # Len(tbl[e.fn].sig.params) THEN "cerr"
            ELSE kids

(* Source text of a program (ASCII).                                        *)
RECURSIVE Text(_), JoinArgs(_, _)
JoinArgs(args, j) ==
  IF j > Len(args) THEN ""
  ELSE (IF j > 1 THEN ", " ELSE "") \o Text(args[j]) \o JoinArgs(args, j + 1)
Text(e) ==
  CASE e.n = "lit"    -> e.text
    [] e.n = "var"    -> "%" \o e.name
    [] e.n = "this"   -> "$this"
    [] e.n = "root"   -> e.ty
    [] e.n = "field"  -> IF e.recv.n = "none" THEN e.f ELSE Text(e.recv) \o "." \o e.f
    [] e.n = "first"  -> Text(e.recv) \o ".first()"
    [] e.n = "exists" -> Text(e.recv) \o ".exists()"
    [] e.n = "iifT"   -> "iif(true, " \o Text(e.arg) \o ")"
    [] e.n = "where"  -> Text(e.recv) \o ".where(" \o Text(e.arg) \o ")"
    [] e.n = "select" -> Text(e.recv) \o ".select(" \o Text(e.arg) \o ")"
    [] e.n = "call"   -> (IF e.recv.n = "none" THEN "" ELSE Text(e.recv) \o ".") \o e.fn \o "(" \o JoinArgs(e.args, 1) \o ")"
=============================================================================
