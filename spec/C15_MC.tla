------------------------------- MODULE C15_MC -------------------------------
(***************************************************************************)
(* Exploration of the C15 case space.  One behaviour per case: the initial *)
(* state is a case, the single step emits it (role 2, generator).  The     *)
(* laws of FPLiterals are checked as invariants on every case (role 1):    *)
(* each law is stated for the case at hand, so the pools of the case space *)
(* are the pools the laws are checked on.                                  *)
(***************************************************************************)
EXTENDS C15, Json, Params

VARIABLES cs, done

Init == done = FALSE /\ \E f \in Families : cs \in CasesOf(f, Seed)
Next == /\ ~done
        /\ done' = TRUE /\ cs' = cs
        /\ PrintT(ToJson(cs))
Spec == Init /\ [][Next]_<<cs, done>>

(* ---- strings: Decode inverts Encode; ordinary characters stay intact ---- *)
LawDecodeEncode ==
  cs.kind = "lit-string" /\ cs.sub \in {"enc", "encmax"}
    => BodyClass(cs.body) = "valid" /\ Decode(cs.body) = cs.val
LawOrdinaryIntact ==
  cs.kind = "lit-string" /\ (\A j \in 1..Len(cs.body) : cs.body[j] \notin {cBS, cSQ})
    => BodyClass(cs.body) = "valid" /\ Decode(cs.body) = cs.body
LawEncodeOfDecode ==   \* re-encoding the denotation of a valid body denotes the same string
  cs.kind = "lit-string" /\ BodyClass(cs.body) = "valid"
    => /\ Decode(Encode(Decode(cs.body))) = Decode(cs.body)
       /\ Decode(EncodeMax(Decode(cs.body))) = Decode(cs.body)
       /\ ParseLit(StrLit(Decode(cs.body))).v = S(Decode(cs.body))
LawTokenCount ==       \* a valid body denotes one character per token
  cs.kind = "lit-string" /\ BodyClass(cs.body) = "valid" => Len(Decode(cs.body)) = Len(Tokens(cs.body))

(* ---- numbers: Parse(Canon(v)) = v ---- *)
LawNumberCanon ==
  cs.kind = "lit-decimal" =>
    LET p == ParseLit(cs.text)
    IN p.ok => LET q == ParseLit(CanonLit(p.v)) IN q.ok /\ ValueSame(q.v, p.v) /\ CanonLit(q.v) = CanonLit(p.v)
LawDecimalExact ==     \* leading and trailing zeros do not change the value
  cs.kind = "lit-decimal" /\ cs.sub = "decimal" =>
    LET p == ParseLit(cs.text)
        q == ParseLit(<<48>> \o cs.text \o <<48>>)
    IN p.ok /\ q.ok /\ ValueSame(p.v, q.v)

(* ---- temporal: Parse(Canon(v)) = v (no hidden fraction); parser inverts renderer ---- *)
LawTemporalCanon ==
  cs.kind = "lit-temporal" =>
    LET p == ParseTemporalLit(cs.text)
    IN p.ok => LET q == ParseTemporalLit(TemporalLit(p.v))
               IN q.ok /\ q.v = p.v /\ ~q.inexact
LawTemporalDesc ==     \* the value computed from the components equals the value parsed from the text
  cs.kind = "lit-temporal" /\ cs.sub \in {"pool", "rand"} =>
     LET p == ParseTemporalLit(cs.text) IN p.ok /\ p.v = cs.den
LawInvalidRejected ==
  cs.kind = "lit-temporal" /\ cs.sub = "invalid" => ~ParseTemporalLit(cs.text).ok

Laws == /\ LawDecodeEncode /\ LawOrdinaryIntact /\ LawEncodeOfDecode /\ LawTokenCount
        /\ LawNumberCanon /\ LawDecimalExact
        /\ LawTemporalCanon /\ LawTemporalDesc /\ LawInvalidRejected
=============================================================================
