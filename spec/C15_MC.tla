------------------------------- MODULE C15_MC -------------------------------
(***************************************************************************)
(* Exploration of the C15 case space.  One behaviour per case: the initial *)
(* state is a case, the single step emits it (role 2, generator).  The     *)
(* laws of FPLiterals are checked as invariants on every case (role 1):    *)
(* each law is stated for the case at hand, so the pools of the case space *)
(* are the pools the laws are checked on.                                  *)
(***************************************************************************)
EXTENDS C15, Json, Params

VARIABLES cs, done

Init == done = FALSE /\ \E f \in Families : cs \in CasesOf(f, Seed)
Next == /\ ~done
        /\ done' = TRUE /\ cs' = cs
        /\ PrintT(ToJson(cs))
Spec == Init /\ [][Next]_<<cs, done>>

(* ---- strings: Decode inverts Encode; ordinary characters stay intact ---- *)
LawDecodeEncode ==
  cs.kind = "lit-string" /\ cs.sub \in {"enc", "encmax"}
    => BodyClass(cs.body) = "valid" /\ Decode(cs.body) = cs.val
LawOrdinaryIntact ==
  cs.kind = "lit-string" /\ (\A j \in 1..Len(cs.body) : cs.body[j] \notin {cBS, cSQ})
    => BodyClass(cs.body) = "valid" /\ Decode(cs.body) = cs.body
LawEncodeOfDecode ==   \* re-encoding the denotation of a valid body denotes the same string
  cs.kind = "lit-string" /\ BodyClass(cs.body) = "valid"
    => /\ Decode(Encode(Decode(cs.body))) = Decode(cs.body)
       /\ Decode(EncodeMax(Decode(cs.body))) = Decode(cs.body)
       /\ ParseLit(StrLit(Decode(cs.body))).v = S(Decode(cs.body))
LawTokenCount ==       \* a valid body denotes one character per token
  cs.kind = "lit-string" /\ BodyClass(cs.body) = "valid" => Len(Decode(cs.body)) = Len(Tokens(cs.body))

(* ---- numbers: Parse(Canon(v)) = v ---- *)
LawNumberCanon ==
  cs.kind = "lit-decimal" =>
    LET p == ParseLit(cs.text)
    IN p.ok => LET q == ParseLit(CanonLit(p.v)) IN q.ok /\ ValueSame(q.v, p.v) /\ CanonLit(q.v) = CanonLit(p.v)
LawDecimalExact ==     \* leading and trailing zeros do not change the value
  cs.kind = "lit-decimal" /\ cs.sub = "decimal" =>
    LET p == ParseLit(cs.text)
        q == ParseLit(<<48>> \o cs.text \o <<48>>)
    IN p.ok /\ q.ok /\ ValueSame(p.v, q.v)

(* ---- temporal: Parse(Canon(v)) = v (no hidden fraction); parser inverts renderer ---- *)
LawTemporalCanon ==
  cs.kind = "lit-temporal" =>
    LET p == ParseTemporalLit(cs.text)
    IN p.ok => LET q == ParseTemporalLit(TemporalLit(p.v))
               IN q.ok /\ q.v = p.v /\ ~q.inexact
LawTemporalDesc ==     \* the value computed from the components equals the value parsed from the text
  cs.kind = "lit-temporal" /\ cs.sub \in {"pool", "rand"} =>
     LET p == ParseTemporalLit(cs.text) IN p.ok /\ p.v = cs.den
LawInvalidRejected ==
  cs.kind = "lit-temporal" /\ cs.sub = "invalid" => ~ParseTemporalLit(cs.text).ok

(* ---- precision maps: bijective where the target can represent the value ---- *)
KindOfEk(ek) == CASE ek = "Date" -> "date" [] ek = "Time" -> "time" [] OTHER -> "dt"
PrecsOfEk(ek) == CASE ek = "Date" -> DateProtoPrecs [] ek = "Time" -> TimeProtoPrecs [] ek = "Instant" -> {"SECOND", "MILLISECOND", "MICROSECOND"} [] OTHER -> DateTimeProtoPrecs
LawPrecisionBijective ==
  /\ \A ek \in {"Date", "DateTime", "Time"} : \A pp \in PrecsOfEk(ek) :
        ProtoPrecOfSys(KindOfEk(ek), SysPrecOfProto(pp)) = (IF pp = "MICROSECOND" THEN "MILLISECOND" ELSE pp)
  /\ \A k \in {"date", "dt", "time"} : \A p \in 1..7 :
        LET pp == ProtoPrecOfSys(k, p) IN pp # "none" => SysPrecOfProto(pp) = p
  /\ \A k \in {"date", "dt", "time"} : {p \in 1..7 : ProtoPrecOfSys(k, p) = "none"} =
        (CASE k = "date" -> 4..7 [] k = "dt" -> {4, 5} [] k = "time" -> 1..5)
LawElementValue ==     \* the value an element converts to is a System value whose canonical literal denotes it, and it matches the element
  cs.kind = "proto-precision" /\ cs.sub = "from" =>
    LET v == SysOfEl(cs.el)
        q == ParseTemporalLit(cs.canon)
    IN q.ok /\ q.v = v /\ (cs.el.us % 1000 = 0 => ElMatches(cs.el, v))
       /\ (ProtoPrecOfSys(v.t, v.p) = (IF cs.el.prec = "MICROSECOND" THEN "MILLISECOND" ELSE cs.el.prec))
LawScalar ==           \* every scalar element has a System value, and its canonical literal (where one exists) denotes it
  cs.kind = "proto-precision" /\ cs.sub = "fromscalar" =>
    LET v == SysOfScalar(cs.el)
    IN v.t \in {"b", "i", "s", "d", "q"} /\ (v.t \in {"b", "s"} => ParseLit(CanonLit(v)).v = v)
LawProtoToExpr ==      \* every expression of the "to" direction has a value of the announced kind
  cs.kind = "proto-precision" /\ cs.sub = "to" =>
    LET p == ValueOfExpr(cs.expr)
    IN p.ok /\ p.v.t = (CASE cs.ek = "Date" -> "date" [] cs.ek = "DateTime" -> "dt" [] cs.ek = "Time" -> "time"
                           [] cs.ek = "Decimal" -> "d" [] cs.ek = "Integer" -> "i" [] cs.ek = "Quantity" -> "q")
(* ---- FHIR texts: the specification's parser inverts its renderer ---- *)
LawFhirText ==
  cs.kind = "fhir-helpers" /\ cs.sub = "fmt" =>
    \A zulu \in BOOLEAN :
      LET r == ParseFhir(cs.el.ek, ElText(cs.el, zulu))
      IN r.ok /\ SameAsEl(r, cs.el) /\ PrecOfParsed(r) = cs.el.prec
LawFhirParseTexts ==
  cs.kind = "fhir-helpers" /\ cs.sub = "parse" => ParseFhir(cs.ek, cs.text).ok
(* ---- narrowing table ---- *)
LawNarrowTable ==
  \A T \in IntTypes :
    /\ HiOf(T) = SMake(FALSE, NSub(NPow2(IF SignedType(T) THEN BitsOf(T) - 1 ELSE BitsOf(T)), <<1>>))
    /\ LoOf(T) = (IF SignedType(T) THEN SMake(TRUE, NPow2(BitsOf(T) - 1)) ELSE SMake(FALSE, <<>>))
    /\ Representable(HiOf(T), T) /\ Representable(LoOf(T), T)
    /\ ~Representable(SAdd(HiOf(T), SFromInt(1)), T) /\ ~Representable(SSub(LoOf(T), SFromInt(1)), T)
LawNarrowSmall ==      \* the native-integer form of the table agrees with the BigNum form
  cs.kind = "narrow" /\ cs.sub = "range" =>
    \A x \in {cs.lo, cs.hi, (cs.lo + cs.hi) \div 2, -129, -128, 127, 128, 255, 256} :
      RepresentableSmall(x, cs.to) = Representable(SFromInt(x), cs.to)
LawNarrowDomain ==     \* every generated value is a value of the source type
  cs.kind = "narrow" =>
    IF cs.sub = "range" THEN cs.lo <= cs.hi /\ RepresentableSmall(cs.lo, BaseOf(cs.from)) /\ RepresentableSmall(cs.hi, BaseOf(cs.from))
    ELSE Representable(cs.v, BaseOf(cs.from))

(* the two laws about fixed tables do not depend on the case: checked once *)
ASSUME LawPrecisionBijective
ASSUME LawNarrowTable

Laws == /\ LawElementValue /\ LawScalar /\ LawProtoToExpr /\ LawFhirText /\ LawFhirParseTexts
        /\ LawNarrowSmall /\ LawNarrowDomain
        /\ LawDecodeEncode /\ LawOrdinaryIntact /\ LawEncodeOfDecode /\ LawTokenCount
        /\ LawNumberCanon /\ LawDecimalExact
        /\ LawTemporalCanon /\ LawTemporalDesc /\ LawInvalidRejected
=============================================================================
