------------------------------ MODULE C09_Cal ------------------------------
(***************************************************************************)
(* Role 1 for FPCalendar: the calendar laws over a full 400-year leap      *)
(* pattern (1800..2199), years sampled over 0001..9999 (every 97th, the    *)
(* centuries, both edges) and every single day of 2019..2023, 0001, 9999.  *)
(* One initial state per year so that all workers are used.                *)
(***************************************************************************)
EXTENDS FPCalendar, TLC

VARIABLE yr

CycleYears   == 1800..2199
SampledYears == {y \in 1..9999 : y % 97 = 0 \/ y % 100 = 0 \/ y % 100 = 99} \cup {1, 2, 3, 4, 5, 9996, 9997, 9998, 9999}
DayYears     == (2019..2023) \cup {1, 4, 100, 400, 2000, 2100, 9999}

Init == yr \in CycleYears \cup SampledYears
Next == FALSE /\ yr' = yr
Spec == Init /\ [][Next]_yr

Laws == CalendarLaws(yr) /\ (yr \in DayYears => LawEveryDay(yr))
Fixed == LawEpoch /\ LawLeap /\ LawInstants
=============================================================================
