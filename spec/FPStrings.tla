------------------------------ MODULE FPStrings ------------------------------
(***************************************************************************)
(* Reference semantics of the FHIRPath string functions (property C14).    *)
(*                                                                         *)
(* A string is a sequence of Unicode code points (scalar values).          *)
(* Positions and lengths count code points; a combining mark is a          *)
(* character of its own (DESIGN.md Appendix F, "Strings").  Functions that *)
(* may yield "nothing" return a COLLECTION of strings/integers in the      *)
(* plain form used here:                                                   *)
(*     <<>>          the empty collection                                  *)
(*     <<x>>         one value (a code-point sequence, an integer, a       *)
(*                   Boolean)                                              *)
(* C14.tla wraps these into abstract items.                                *)
(*                                                                         *)
(* The module also carries the UTF-8 byte view of a string (Utf8Enc /      *)
(* Utf8Dec).  It has two uses: the mutant twins below ("what if lengths    *)
(* and offsets counted bytes"), and the judge's classification of an       *)
(* observed wrong answer ("this is exactly the byte-offset answer").       *)
(* Utf8Dec follows Go's utf8.DecodeRune: a byte that does not start a      *)
(* well-formed sequence decodes to the marker  -1-byte  and is skipped     *)
(* alone - the same encoding harness/lib.CodePoints uses, so a string that *)
(* is not valid UTF-8 can never equal a reference string.                  *)
(*                                                                         *)
(* Mutant (a CONSTANT, "none" in every real configuration) selects a       *)
(* deliberately wrong definition; the laws at the end must FAIL for it.    *)
(***************************************************************************)
EXTENDS Naturals, Integers, Sequences, FiniteSets

CONSTANT Mutant

(* ------------------------------------------------------------------ UTF-8 *)
Utf8EncCp(c) ==
  IF c < 128 THEN <<c>>
  ELSE IF c < 2048 THEN <<192 + (c \div 64), 128 + (c % 64)>>
  ELSE IF c < 65536 THEN <<224 + (c \div 4096), 128 + ((c \div 64) % 64), 128 + (c % 64)>>
  ELSE <<240 + (c \div 262144), 128 + ((c \div 4096) % 64), 128 + ((c \div 64) % 64), 128 + (c % 64)>>

RECURSIVE Utf8Enc(_)
Utf8Enc(s) == IF s = <<>> THEN <<>> ELSE Utf8EncCp(Head(s)) \o Utf8Enc(Tail(s))

IsCont(b) == b >= 128 /\ b <= 191

(* One decoding step at byte position i (1-based): [cp, n]. *)
Utf8DecAt(bs, i) ==
  LET b0 == bs[i]
      n  == Len(bs)
      bad == [cp |-> -1 - b0, n |-> 1]
  IN IF b0 < 128 THEN [cp |-> b0, n |-> 1]
     ELSE IF b0 >= 194 /\ b0 <= 223 THEN
       (IF i + 1 <= n /\ IsCont(bs[i+1])
          THEN [cp |-> (b0 - 192) * 64 + (bs[i+1] - 128), n |-> 2] ELSE bad)
     ELSE IF b0 >= 224 /\ b0 <= 239 THEN
       (IF /\ i + 2 <= n
           /\ bs[i+1] >= (IF b0 = 224 THEN 160 ELSE 128)
           /\ bs[i+1] <= (IF b0 = 237 THEN 159 ELSE 191)
           /\ IsCont(bs[i+2])
          THEN [cp |-> (b0 - 224) * 4096 + (bs[i+1] - 128) * 64 + (bs[i+2] - 128), n |-> 3] ELSE bad)
     ELSE IF b0 >= 240 /\ b0 <= 244 THEN
       (IF /\ i + 3 <= n
           /\ bs[i+1] >= (IF b0 = 240 THEN 144 ELSE 128)
           /\ bs[i+1] <= (IF b0 = 244 THEN 143 ELSE 191)
           /\ IsCont(bs[i+2]) /\ IsCont(bs[i+3])
          THEN [cp |-> (b0 - 240) * 262144 + (bs[i+1] - 128) * 4096 + (bs[i+2] - 128) * 64 + (bs[i+3] - 128), n |-> 4]
          ELSE bad)
     ELSE bad

RECURSIVE Utf8DecFrom(_, _)
Utf8DecFrom(bs, i) ==
  IF i > Len(bs) THEN <<>>
  ELSE LET d == Utf8DecAt(bs, i) IN <<d.cp>> \o Utf8DecFrom(bs, i + d.n)
Utf8Dec(bs) == Utf8DecFrom(bs, 1)

(* A code point a well-formed string may contain. *)
IsScalar(c) == c >= 0 /\ c <= 1114111 /\ ~(c >= 55296 /\ c <= 57343)
ValidString(s) == \A j \in 1..Len(s) : IsScalar(s[j])

ByteLen(s) == Len(Utf8Enc(s))

(* -------------------------------------------------------------- searching *)
(* Does t occur in s at 0-based position i?  (i + Len(t) <= Len(s)) *)
OccursAt(s, t, i) == i >= 0 /\ i + Len(t) <= Len(s) /\ SubSeq(s, i + 1, i + Len(t)) = t

(* Least 0-based position at which t occurs in s, or -1. *)
RECURSIVE FindFrom(_, _, _)
FindFrom(s, t, i) ==
  IF i + Len(t) > Len(s) THEN -1
  ELSE IF SubSeq(s, i + 1, i + Len(t)) = t THEN i
  ELSE FindFrom(s, t, i + 1)
Find(s, t) == FindFrom(s, t, 0)

(* --------------------------------------------------- the ten functions *)
(* length() *)
StrLength(s) == IF Mutant = "byteLength" THEN ByteLen(s) ELSE Len(s)

(* toChars(): one string per code point; the empty string has no characters *)
StrToChars(s) == [j \in 1..Len(s) |-> <<s[j]>>]

(* substring(start) and substring(start, n) as collections.               *)
(*   start < 0 or start >= length        -> empty collection               *)
(*   n <= 0                              -> empty collection here; the     *)
(*        empty STRING is equally permitted (SubstringAlt, Appendix F)     *)
(*   n larger than what is left          -> the rest                       *)
(* Positions are mathematical integers: nothing wraps around.             *)
ByteSlice(s, start, n, hasN) ==   \* the byte-offset reading, decoded leniently
  LET bs == Utf8Enc(s) IN
    IF start < 0 \/ start >= Len(bs) THEN <<>>
    ELSE IF hasN /\ n <= 0 THEN <<>>
    ELSE IF hasN /\ n < Len(bs) - start THEN <<Utf8Dec(SubSeq(bs, start + 1, start + n))>>
    ELSE <<Utf8Dec(SubSeq(bs, start + 1, Len(bs)))>>

CpSlice(s, start, n, hasN) ==
  IF start < 0 \/ start >= Len(s) THEN <<>>
  ELSE IF hasN /\ n <= 0 THEN <<>>
  ELSE IF hasN /\ n < Len(s) - start THEN <<SubSeq(s, start + 1, start + n)>>
  ELSE <<SubSeq(s, start + 1, Len(s))>>

SubstringGen(s, start, n, hasN) ==
  CASE Mutant = "substringBytes" -> ByteSlice(s, start, n, hasN)
    [] Mutant = "noBoundsCheck"  ->      \* clamps instead of answering empty
         (LET st == IF start < 0 THEN 0 ELSE IF start > Len(s) THEN Len(s) ELSE start
              m  == IF ~hasN THEN Len(s) - st ELSE IF n < 0 THEN 0 ELSE IF n > Len(s) - st THEN Len(s) - st ELSE n
          IN <<SubSeq(s, st + 1, st + m)>>)
    [] Mutant = "negLengthIsRest" ->     \* a negative length is taken for "no length"
         CpSlice(s, start, n, hasN /\ n >= 0)
    [] OTHER -> CpSlice(s, start, n, hasN)

StrSubstring1(s, start)    == SubstringGen(s, start, 0, FALSE)
StrSubstring2(s, start, n) == SubstringGen(s, start, n, TRUE)

(* The other permitted reading of n <= 0 with an in-range start: ''. *)
StrSubstring2Alt(s, start, n) ==
  IF start >= 0 /\ start < Len(s) /\ n <= 0 THEN <<<<>>>> ELSE StrSubstring2(s, start, n)

(* indexOf(t): 0-based position of the first occurrence, -1 when absent;   *)
(* indexOf('') = 0.                                                        *)
StrIndexOf(s, t) ==
  LET i == Find(s, t) IN
    IF Mutant = "indexOfBytes" /\ i > 0 THEN ByteLen(SubSeq(s, 1, i)) ELSE i

StrStartsWith(s, t) == OccursAt(s, t, 0)
StrEndsWith(s, t)   == OccursAt(s, t, Len(s) - Len(t))
StrContains(s, t)   ==
  IF Mutant = "containsPrefixOnly" THEN OccursAt(s, t, 0) ELSE Find(s, t) >= 0

(* replace(p, r): every non-overlapping occurrence of p, scanning from the  *)
(* left, is replaced by r.  With p = '' the substitution surrounds every    *)
(* character ('abc'.replace('', 'x') = 'xaxbxcx').                          *)
RECURSIVE ReplaceFrom(_, _, _, _)
ReplaceFrom(s, p, r, i) ==     \* i: 0-based scan position
  IF i >= Len(s) THEN <<>>
  ELSE IF OccursAt(s, p, i)
    THEN r \o (IF Mutant = "replaceFirstOnly" THEN SubSeq(s, i + Len(p) + 1, Len(s))
                                              ELSE ReplaceFrom(s, p, r, i + Len(p)))
    ELSE <<s[i + 1]>> \o ReplaceFrom(s, p, r, i + 1)

RECURSIVE Surround(_, _)
Surround(s, r) == IF s = <<>> THEN r ELSE r \o <<Head(s)>> \o Surround(Tail(s), r)

StrReplace(s, p, r) == IF p = <<>> THEN Surround(s, r) ELSE ReplaceFrom(s, p, r, 0)

(* upper() / lower(): Unicode simple case mapping, carried for ASCII and    *)
(* for the one cased non-ASCII letter of the model alphabet (U+00E9 /       *)
(* U+00C9).  Every other symbol of the alphabet (U+20AC, U+1F600, U+0301)   *)
(* is caseless.  CaseKnown says whether the table covers a code point;      *)
(* generators stay inside it.                                               *)
CaseKnown(c) == c < 128 \/ c \in {233, 201, 8364, 128512, 769}
UpperCp(c) == IF c >= 97 /\ c <= 122 THEN c - 32 ELSE IF c = 233 THEN 201 ELSE c
LowerCp(c) == IF c >= 65 /\ c <= 90 THEN c + 32 ELSE IF c = 201 THEN 233 ELSE c
StrUpper(s) == [j \in 1..Len(s) |-> UpperCp(s[j])]
StrLower(s) == [j \in 1..Len(s) |-> LowerCp(s[j])]

(* s & t with an empty collection standing for '' *)
AsStr(coll) == IF coll = <<>> THEN <<>> ELSE coll[1]
Amp(a, b) == AsStr(a) \o AsStr(b)

(* ------------------------------------------------------------------ laws *)
(* Stated for one string s and one pattern t so that a model can check      *)
(* them over whatever finite sets it explores.                              *)

(* `s.toChars().count() = s.length()` *)
LawCharsCount(s) == Len(StrToChars(s)) = StrLength(s)

(* toChars are the characters, in order *)
LawCharsJoin(s) == /\ \A j \in 1..Len(s) : StrSubstring2(s, j - 1, 1) = <<StrToChars(s)[j]>>
                   /\ \A j \in 1..Len(s) : Len(StrToChars(s)[j]) = 1

(* `s.substring(0,k) & s.substring(k) = s` for every k in 0..length *)
LawSplit(s) == \A k \in 0..Len(s) :
  /\ Amp(StrSubstring2(s, 0, k), StrSubstring1(s, k)) = s
  /\ Amp(StrSubstring2Alt(s, 0, k), StrSubstring1(s, k)) = s

(* lengths of the pieces: substring(k) has length() - k characters *)
LawSubLength(s) == \A k \in 0..Len(s) :
  /\ Len(AsStr(StrSubstring1(s, k))) = Len(s) - k
  /\ \A n \in 0..(Len(s) + 1) :
        Len(AsStr(StrSubstring2(s, k, n))) = (IF n < Len(s) - k THEN n ELSE Len(s) - k)

(* out-of-range positions yield empty; a length <= 0 yields nothing *)
LawOutOfRange(s) ==
  /\ \A st \in {-2147483647 - 1, -2, -1, Len(s), Len(s) + 1, Len(s) + 2, 2147483647} :
        /\ StrSubstring1(s, st) = <<>>
        /\ \A n \in {-1, 0, 1, Len(s) + 2, 2147483647} : StrSubstring2(s, st, n) = <<>>
  /\ \A st \in 0..(Len(s) - 1) : \A n \in {-2147483647 - 1, -1, 0} :
        AsStr(StrSubstring2(s, st, n)) = <<>> /\ StrSubstring2Alt(s, st, n) = <<<<>>>>
  /\ \A st \in 0..(Len(s) - 1) : StrSubstring2(s, st, 2147483647) = StrSubstring1(s, st)

(* every returned string is a well-formed string *)
LawValid(s) ==
  /\ \A st \in -1..(Len(s) + 1) :
        /\ ValidString(AsStr(StrSubstring1(s, st)))
        /\ \A n \in -1..(Len(s) + 1) : ValidString(AsStr(StrSubstring2(s, st, n)))
  /\ \A j \in 1..Len(s) : ValidString(StrToChars(s)[j])
  /\ ValidString(StrUpper(s)) /\ ValidString(StrLower(s))

(* `s.indexOf(t) = i >= 0` implies `s.substring(i).startsWith(t)`.  For     *)
(* s = t = '' the position 0 is not inside the string, substring(0) is      *)
(* empty and the consequent is empty (unknown), not false.                  *)
LawIndexOf(s, t) ==
  LET i == StrIndexOf(s, t) IN
    /\ i >= -1
    /\ i >= 0 => LET sub == StrSubstring1(s, i) IN
                   IF sub = <<>> THEN s = <<>> /\ t = <<>> ELSE StrStartsWith(sub[1], t)
    /\ i >= 0 => \A j \in 0..(i - 1) : ~OccursAt(s, t, j)       \* it is the first
    /\ i = -1 => \A j \in 0..Len(s) : ~OccursAt(s, t, j)

(* `s.contains(t)` iff `s.indexOf(t) >= 0` *)
LawContains(s, t) == StrContains(s, t) <=> (StrIndexOf(s, t) >= 0)

(* startsWith / endsWith against substring *)
LawAffix(s, t) ==
  /\ StrStartsWith(s, t) <=> (Len(t) <= Len(s) /\ AsStr(StrSubstring2(s, 0, Len(t))) = t)
  /\ StrEndsWith(s, t)   <=> (Len(t) <= Len(s) /\ AsStr(StrSubstring1(s, Len(s) - Len(t))) = t)
  /\ StrStartsWith(s, t) => StrContains(s, t) /\ StrIndexOf(s, t) = 0
  /\ StrEndsWith(s, t)   => StrContains(s, t)
  /\ t = <<>> => StrStartsWith(s, t) /\ StrEndsWith(s, t) /\ StrContains(s, t) /\ StrIndexOf(s, t) = 0

(* replace: an absent pattern changes nothing; replacing t by itself        *)
(* changes nothing; replacing by '' removes every occurrence when no new    *)
(* one can form; the length is accounted for occurrence by occurrence.      *)
RECURSIVE CountFrom(_, _, _)
CountFrom(s, t, i) ==   \* non-overlapping occurrences of a non-empty t from position i
  IF i + Len(t) > Len(s) THEN 0
  ELSE IF OccursAt(s, t, i) THEN 1 + CountFrom(s, t, i + Len(t)) ELSE CountFrom(s, t, i + 1)

LawReplace(s, t, r) ==
  /\ ~StrContains(s, t) => StrReplace(s, t, r) = s
  /\ StrReplace(s, t, t) = s
  /\ t # <<>> => Len(StrReplace(s, t, r)) = Len(s) + CountFrom(s, t, 0) * (Len(r) - Len(t))
  /\ t = <<>> => Len(StrReplace(s, t, r)) = Len(s) + (Len(s) + 1) * Len(r)
  /\ ValidString(StrReplace(s, t, r))

(* case mapping keeps the number of characters, is idempotent, and lower    *)
(* undoes upper on the cased letters                                        *)
LawCase(s) ==
  /\ Len(StrUpper(s)) = Len(s) /\ Len(StrLower(s)) = Len(s)
  /\ StrUpper(StrUpper(s)) = StrUpper(s) /\ StrLower(StrLower(s)) = StrLower(s)
  /\ StrLower(StrUpper(s)) = StrLower(s) /\ StrUpper(StrLower(s)) = StrUpper(s)

(* the byte view is a faithful encoding (decode after encode is identity), *)
(* and counts at least one byte per character                              *)
LawUtf8(s) == Utf8Dec(Utf8Enc(s)) = s /\ ByteLen(s) >= Len(s)
=============================================================================
