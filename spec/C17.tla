-------------------------------- MODULE C17 --------------------------------
(***************************************************************************)
(* Property C17: environment variables and custom functions behave as      *)
(* declared.  This module is the case space (option lists x programs) and  *)
(* the oracle (Expected); C17_MC explores the option-folding machine and   *)
(* emits the cases, C17_Judge judges the observations.                     *)
(*                                                                         *)
(* Every evaluation runs on the input collection <<MR1 Patient, MR2        *)
(* Observation>>.  An Evaluate list is a sequence of kinds over            *)
(*   valid | dup (the name of the previous option) | predef | unsup | nil  *)
(* and a Compile list a sequence of kinds over                             *)
(*   well | badIn | badOut | variadic | zero | typed ;                     *)
(* the concrete names, values (shape ids) and Go fixtures (fx ids) are     *)
(* functions of the kind, the position and the length, so that every shape *)
(* and fixture occurs.  The harness owns one Go value per shape id and one *)
(* Go function per fx id; what they ARE is stated here (ShapeValOf, FxSig).*)
(***************************************************************************)
EXTENDS FPOptions, Json

MR     == JsonDeserialize("ModelResources.json")
Forest == <<MR.MR1, MR.MR2>>
Input  == <<ElemItem(Forest, 1, <<>>), ElemItem(Forest, 2, <<>>)>>

NameIdx == SelectSeq([j \in 1..Len(MR.MR1.ch) |-> j], LAMBDA j : MR.MR1.ch[j].n = "name")
NameEl(j) == ElemItem(Forest, 1, <<NameIdx[j]>>)
Family1   == ChildrenNamed(Forest, NameEl(1), "family")[1]
(* a resource that is NOT part of the input: compared by content hash *)
Detached  == [t |-> "el", r |-> 0, addr |-> <<>>, ft |-> "Patient", h |-> MR.MR4.h]

Pick(seq, x) == seq[(x % Len(seq)) + 1]

(* ------------------------------------------------------------------------ *)
(* Evaluate lists                                                           *)
(* ------------------------------------------------------------------------ *)
(* Unsupported and nil values are generated systematically: the offending    *)
(* leaf sits First, in the Middle or Last among two valid siblings, at        *)
(* nesting depth 1..3 (the path names the position at every level, outermost  *)
(* first), so the recursive validation is exercised at every position and not *)
(* only at the end of a collection.  Ids: "bad-FML", "nil-M", ...             *)
Letters == <<"F", "M", "L">>
NPaths  == 39
PathOf(n) ==      \* n in 1..39
  IF n <= 3 THEN <<Letters[n]>>
  ELSE IF n <= 12 THEN <<Letters[((n - 4) \div 3) + 1], Letters[((n - 4) % 3) + 1]>>
  ELSE <<Letters[((n - 13) \div 9) + 1], Letters[(((n - 13) \div 3) % 3) + 1], Letters[((n - 13) % 3) + 1]>>
RECURSIVE PathStr(_)
PathStr(p) == IF Len(p) = 0 THEN "" ELSE Head(p) \o PathStr(Tail(p))
Good1 == VLeaf(I(1))
Good2 == VLeaf(S(<<103>>))
Wrap(inner, pos) ==
  CASE pos = "F" -> VColl(<<inner, Good1, Good2>>)
    [] pos = "M" -> VColl(<<Good1, inner, Good2>>)
    [] pos = "L" -> VColl(<<Good1, Good2, inner>>)
RECURSIVE Build(_, _)
Build(leaf, p) == IF Len(p) = 0 THEN leaf ELSE Wrap(Build(leaf, Tail(p)), Head(p))
(* a shape is [shape (id), leaf ("" | "bad" | "nil" | "tnil"), path]; x selects one of the 40 shapes of a leaf kind *)
Shape(id) == [shape |-> id, leaf |-> "", path |-> <<>>]
GenShape(leaf, top, x) ==
  LET n == x % (NPaths + 1)
  IN IF n = 0 THEN Shape(top) ELSE [shape |-> leaf \o "-" \o PathStr(PathOf(n)), leaf |-> leaf, path |-> PathOf(n)]

FixedShapes ==
  [int      |-> VLeaf(I(7)),
   str      |-> VLeaf(S(<<97, 98>>)),
   bool     |-> VLeaf(B(TRUE)),
   strs     |-> VColl(<<VLeaf(S(<<97>>)), VLeaf(I(1)), VLeaf(S(<<97>>))>>),
   empty    |-> VColl(<<>>),
   one      |-> VColl(<<VLeaf(I(9))>>),
   elem     |-> VLeaf(NameEl(1)),
   detached |-> VLeaf(Detached),
   mixed    |-> VColl(<<VLeaf(NameEl(2)), VLeaf(I(3)), VLeaf(Family1)>>),
   badTop   |-> VBad,
   nilTop   |-> VNil,
   tnilTop  |-> VTNil]
ShapeValOf(o) ==
  IF o.leaf = "bad" THEN Build(VBad, o.path)
  ELSE IF o.leaf = "nil" THEN Build(VNil, o.path)
  ELSE IF o.leaf = "tnil" THEN Build(VTNil, o.path)
  ELSE FixedShapes[o.shape]

(* the valid value supplied at position j of a list of length L: every shape occurs in a list whose options all succeed *)
ValidAt == << <<"int">>,
              <<"strs", "elem">>,
              <<"empty", "str", "mixed">>,
              <<"detached", "bool", "one", "elem">>,
              <<"one", "empty", "strs", "bool", "mixed">> >>

EKinds == {"valid", "dup", "predef", "unsup", "nil"}
EAbbrev == [valid |-> "v", dup |-> "d", predef |-> "p", unsup |-> "u", nil |-> "n"]

RECURSIVE EName(_, _)
EName(ks, j) ==
  CASE ks[j] = "valid"  -> "v" \o ToString(j)
    [] ks[j] = "dup"    -> IF j = 1 THEN "d1" ELSE EName(ks, j - 1)
    [] ks[j] = "predef" -> IF j % 2 = 1 THEN "context" ELSE "ucum"
    [] ks[j] = "unsup"  -> "u" \o ToString(j)
    [] ks[j] = "nil"    -> "n" \o ToString(j)

(* A number that identifies (list, position j): the lists in which option j is the only unsupported one - the others *)
(* being valid, dup or predef - are numbered consecutively (by length, position, then the others as base-3 digits),  *)
(* so that rotating through the shapes by this number puts every shape into such a list.                            *)
D3   == [valid |-> 0, dup |-> 1, predef |-> 2, unsup |-> 0, nil |-> 1]
Pow3 == <<1, 3, 9, 27, 81, 243>>
Off  == <<0, 1, 7, 34, 142, 547>>       \* Off[L] = sum over l < L of l * 3^(l-1)
RECURSIVE Others(_, _, _, _)
Others(ks, j, h, mul) ==
  IF h > Len(ks) THEN 0
  ELSE IF h = j THEN Others(ks, j, h + 1, mul)
  ELSE D3[ks[h]] * mul + Others(ks, j, h + 1, mul * 3)
ListIdx(ks, j) == Off[Len(ks)] + (j - 1) * Pow3[Len(ks)] + Others(ks, j, 1, 1)

EShape(ks, j) ==
  LET L == Len(ks)
  IN CASE ks[j] = "valid"  -> Shape(ValidAt[L][j])
       [] ks[j] = "dup"    -> Shape(ValidAt[L][(j % L) + 1])      \* another position's value, so an overwrite would show
       [] ks[j] = "predef" -> Shape(ValidAt[L][j])
       [] ks[j] = "unsup"  -> GenShape("bad", "badTop", ListIdx(ks, j))
       [] ks[j] = "nil"    -> IF ListIdx(ks, j) % 2 = 0 THEN GenShape("nil", "nilTop", ListIdx(ks, j) \div 2)
                                                         ELSE GenShape("tnil", "tnilTop", ListIdx(ks, j) \div 2)

EOpts(ks) == [j \in 1..Len(ks) |->
                LET sh == EShape(ks, j) IN [name |-> EName(ks, j), shape |-> sh.shape, leaf |-> sh.leaf, path |-> sh.path]]
EConc(o)  == [name |-> o.name, val |-> ShapeValOf(o)]
EConcAll(os) == [j \in 1..Len(os) |-> EConc(os[j])]

(* ------------------------------------------------------------------------ *)
(* Compile lists                                                            *)
(* ------------------------------------------------------------------------ *)
Sig(first, params, variadic, results) ==
  [first |-> first, params |-> params, variadic |-> variadic, results |-> results]

FxSig ==
  [well1      |-> Sig("coll", <<"any">>, FALSE, "ok"),
   well2      |-> Sig("coll", <<"any", "any">>, FALSE, "ok"),
   zero       |-> Sig("coll", <<>>, FALSE, "ok"),
   typedSI    |-> Sig("coll", <<"String", "Integer">>, FALSE, "ok"),
   typedH     |-> Sig("coll", <<"HumanName">>, FALSE, "ok"),
   var1       |-> Sig("coll", <<"slice">>, TRUE, "ok"),
   var2       |-> Sig("coll", <<"String", "slice">>, TRUE, "ok"),
   inInt      |-> Sig("other", <<>>, FALSE, "ok"),
   inNone     |-> Sig("none", <<>>, FALSE, "ok"),
   inSlice    |-> Sig("other", <<>>, FALSE, "ok"),
   notFunc    |-> Sig("notfunc", <<>>, FALSE, "bad"),
   nilFn      |-> Sig("notfunc", <<>>, FALSE, "bad"),
   outOne     |-> Sig("coll", <<>>, FALSE, "bad"),
   outStr     |-> Sig("coll", <<>>, FALSE, "bad"),
   outSlice   |-> Sig("coll", <<>>, FALSE, "bad"),
   outThree   |-> Sig("coll", <<>>, FALSE, "bad"),
   outFakeErr |-> Sig("coll", <<>>, FALSE, "bad"),
   outErrPtr  |-> Sig("coll", <<>>, FALSE, "bad"),      \* second result a concrete type that implements error
   outErrWide |-> Sig("coll", <<>>, FALSE, "bad")]      \* second result a wider interface that embeds error

CKinds  == {"well", "badIn", "badOut", "variadic", "zero", "typed"}
CAbbrev == [well |-> "w", badIn |-> "i", badOut |-> "o", variadic |-> "r", zero |-> "z", typed |-> "t"]
KindFx ==
  [well     |-> <<"well1", "well2">>,
   zero     |-> <<"zero">>,
   typed    |-> <<"typedSI", "typedH">>,
   variadic |-> <<"var1", "var2">>,
   badIn    |-> <<"inInt", "inNone", "notFunc", "inSlice", "nilFn">>,
   badOut   |-> <<"outOne", "outStr", "outSlice", "outThree", "outFakeErr", "outErrPtr", "outErrWide">>]
KindName ==
  [well |-> "cfWell", zero |-> "cfZero", typed |-> "cfTyped", variadic |-> "cfVar",
   badIn |-> "cfBadIn", badOut |-> "cfBadOut"]

(* built-in names known to this specification (a sample of the real table;  *)
(* the whole table is C16's subject)                                        *)
Builtins    == {"where", "select", "exists", "first", "iif", "count", "toString"}
BuiltinPick == <<"where", "exists", "count">>
Schemes     == {"kind", "builtinLast"}

CName(ks, j, scheme) ==
  IF scheme = "builtinLast" /\ j = Len(ks) THEN Pick(BuiltinPick, Len(ks)) ELSE KindName[ks[j]]
CFx(ks, j) == Pick(KindFx[ks[j]], j + Len(ks))
COpts(ks, scheme) == [j \in 1..Len(ks) |-> [name |-> CName(ks, j, scheme), fx |-> CFx(ks, j)]]
CConc(o) == [name |-> o.name, sig |-> FxSig[o.fx]]
CConcAll(os) == [j \in 1..Len(os) |-> CConc(os[j])]

(* ------------------------------------------------------------------------ *)
(* Programs                                                                 *)
(* ------------------------------------------------------------------------ *)
Lit(items, text) == [n |-> "lit", items |-> items, text |-> text]
Var(x)           == [n |-> "var", name |-> x]
This             == [n |-> "this"]
Root(ty)         == [n |-> "root", ty |-> ty]
Field(r, f)      == [n |-> "field", recv |-> r, f |-> f]
First(r)         == [n |-> "first", recv |-> r]
Exists(r)        == [n |-> "exists", recv |-> r]
Where(r, a)      == [n |-> "where", recv |-> r, arg |-> a]
Select(r, a)     == [n |-> "select", recv |-> r, arg |-> a]
IifT(a)          == [n |-> "iifT", arg |-> a]
Call(fn, r, as)  == [n |-> "call", fn |-> fn, recv |-> r, args |-> as]

PNames == Field(Root("Patient"), "name")
PFirst == First(PNames)
LitX   == Lit(<<S(<<120>>)>>, "'x'")
LitS   == Lit(<<S(<<115>>)>>, "'s'")
Lit3   == Lit(<<I(3)>>, "3")
Lit1   == Lit(<<I(1)>>, "1")
LitE   == Lit(<<>>, "{}")

(* a program: form kind fk, what it is aimed at (variable / function name), the
   shape or fixture in focus, the mocks' return mode, the expression *)
P(fk, target, focus, ret, prog) ==
  [form |-> IF target = "" THEN fk ELSE fk \o "-" \o target, fk |-> fk, focus |-> focus, ret |-> ret, prog |-> prog]

(* The fixed options of the other side. *)
ProbeOpts == <<[name |-> "pr", fx |-> "well1"]>>
FixedVars == <<[name |-> "s", shape |-> "str", leaf |-> "", path |-> <<>>],
               [name |-> "k", shape |-> "int", leaf |-> "", path |-> <<>>],
               [name |-> "c3", shape |-> "strs", leaf |-> "", path |-> <<>>]>>

(* --- programs of an Evaluate list ---------------------------------------- *)
FirstShape(os, x) ==
  LET idx == SelectSeq([j \in 1..Len(os) |-> j], LAMBDA j : os[j].name = x)
  IN IF x \in Predefined THEN x ELSE IF Len(idx) = 0 THEN "unknown" ELSE os[idx[1]].shape

(* names supplied by the list, each once, in order of first occurrence *)
OwnNames(os) ==
  LET idx == SelectSeq([j \in 1..Len(os) |-> j],
                       LAMBDA j : os[j].name \notin Predefined /\ \A h \in 1..(j - 1) : os[h].name # os[j].name)
  IN [j \in 1..Len(idx) |-> os[idx[j]].name]

Targets(os) == <<"context", "ucum">> \o OwnNames(os) \o <<"nope">>

EFormsFull(x, fs) ==
  <<P("root", x, fs, "items", Var(x)),
    P("arg", x, fs, "items", Call("pr", None, <<Var(x)>>)),
    P("argnames", x, fs, "echo", Call("pr", PNames, <<Var(x)>>)),
    P("iif", x, fs, "items", IifT(Var(x))),
    P("where", x, fs, "items", Where(PNames, Exists(Var(x)))),
    P("select", x, fs, "items", Select(PNames, Var(x)))>>

(* which options of a failing list fail, and why (goes into the signature) *)
RECURSIVE EFailTag(_, _)
EFailTag(os, j) ==
  IF j > Len(os) THEN ""
  ELSE LET o == os[j]
           t == IF HasBadLeaf(ShapeValOf(o)) THEN o.shape
                ELSE IF o.name \in Predefined THEN "predefined"
                ELSE IF \E h \in 1..(j - 1) : os[h].name = o.name /\ ~HasBadLeaf(ShapeValOf(os[h])) THEN "duplicate"
                ELSE ""
       IN (IF t = "" THEN "" ELSE "+" \o t) \o EFailTag(os, j + 1)

EFormsFailing(os) ==
  LET ts == Targets(os)
      ft == "fail" \o EFailTag(os, 1)
  IN [j \in 1..Len(ts) |-> P("root", ts[j], ft, "items", Var(ts[j]))]
     \o <<P("arg", "ucum", ft, "items", Call("pr", None, <<Var("ucum")>>)),
          P("where", "context", ft, "items", Where(PNames, Exists(Var("context")))),
          P("select", "context", ft, "items", Select(PNames, Var("context")))>>

EPrograms(os) ==
  LET st == FoldE(EConcAll(os), Len(os))
      ts == Targets(os)
  IN IF Len(st.errs) > 0 THEN EFormsFailing(os)
     ELSE ConcatAll([j \in 1..Len(ts) |-> EFormsFull(ts[j], FirstShape(os, ts[j]))])

(* --- programs of a Compile list ------------------------------------------ *)
RightArg(pt) ==
  CASE pt = "String"    -> LitS
    [] pt = "Integer"   -> Lit3
    [] pt = "HumanName" -> This
    [] OTHER            -> LitX
WrongArg(pt) ==
  CASE pt = "String"  -> Lit3
    [] pt = "Integer" -> LitS
    [] OTHER          -> LitS
Right(sig) == [j \in 1..Len(sig.params) |-> RightArg(sig.params[j])]
(* a second set of right arguments, so that an outer and an inner call of the same function can be told apart *)
LitT == Lit(<<S(<<116>>)>>, "'t'")
Lit4 == Lit(<<I(4)>>, "4")
LitY == Lit(<<S(<<121>>)>>, "'y'")
RightArg2(pt) ==
  CASE pt = "String"    -> LitT
    [] pt = "Integer"   -> Lit4
    [] pt = "HumanName" -> This
    [] OTHER            -> LitY
Right2(sig) == [j \in 1..Len(sig.params) |-> RightArg2(sig.params[j])]

CFormsFor(g, fx) ==
  LET sig == FxSig[fx]
      R   == Right(sig)
      np  == Len(R)
  IN <<P("callroot", g, fx, "items", Call(g, None, R)),
       P("callnames", g, fx, "items", Call(g, PNames, R)),
       P("callfirst", g, fx, "items", Call(g, PFirst, R)),
       P("callfirst", g, fx, "echo", Call(g, PFirst, R)),
       P("callfirst", g, fx, "empty", Call(g, PFirst, R)),
       P("callfirst", g, fx, "err", Call(g, PFirst, R)),
       P("callfirst", g, fx, "both", Call(g, PFirst, R)),
       P("where", g, fx, "items", Where(PNames, Exists(Call(g, None, R)))),
       P("where", g, fx, "empty", Where(PNames, Exists(Call(g, None, R)))),
       P("where", g, fx, "err", Where(PNames, Exists(Call(g, None, R)))),
       P("select", g, fx, "items", Select(PNames, Call(g, None, R))),
       P("select", g, fx, "echo", Select(PNames, Call(g, None, R))),
       P("extra", g, fx, "items", Call(g, PFirst, Append(R, Lit1)))>>
     \o (IF np = 0 THEN <<>>
         ELSE <<P("missing", g, fx, "items", Call(g, PFirst, SubSeq(R, 1, np - 1))),
                P("multi", g, fx, "items", Call(g, None, [R EXCEPT ![1] = PNames])),
                P("emptyarg", g, fx, "items", Call(g, PFirst, [R EXCEPT ![1] = LitE]))>>)
     \o ConcatAll([j \in 1..np |->
           IF sig.params[j] = "any" THEN <<>>
           ELSE <<P("wrongtype" \o ToString(j), g, fx, "items", Call(g, PFirst, [R EXCEPT ![j] = WrongArg(sig.params[j])]))>>])
     \o (IF np > 0 /\ sig.params[1] \in {"any", "String"}
         THEN <<P("vararg", g, fx, "items", Call(g, PFirst, [R EXCEPT ![1] = Var("s")]))>> ELSE <<>>)
     \o (IF np > 0 /\ sig.params[1] = "any"
         THEN <<P("elemarg", g, fx, "items", Call(g, PFirst, [R EXCEPT ![1] = Field(None, "family")]))>> ELSE <<>>)
     \o (IF np > 0 /\ sig.params[1] = "String"
         THEN <<P("fhirstring", g, fx, "items", Call(g, PFirst, [R EXCEPT ![1] = Field(None, "family")]))>> ELSE <<>>)
     \* the same function twice in one expression: as the receiver of itself, and re-entrantly inside one of its
     \* own arguments (on another focus, with other arguments); every invocation's input and arguments are judged
     \o <<P("chain", g, fx, "echo", Call(g, Call(g, Var("c3"), R), Right2(sig)))>>
     \o (IF np = 0 THEN <<>>
         ELSE <<P("selfnest1", g, fx, "first", Call(g, Var("c3"), [Right2(sig) EXCEPT ![1] = Call(g, Var("k"), R)]))>>)
     \o (IF np < 2 THEN <<>>
         ELSE <<P("selfnestN", g, fx, "last", Call(g, Var("c3"), [Right2(sig) EXCEPT ![np] = Call(g, Var("k"), R)])),
                P("selfnestN", g, fx, "items", Call(g, Var("c3"), [Right2(sig) EXCEPT ![np] = Call(g, Var("k"), R)]))>>)

(* custom names of a list, each once, with the fx of the first option using it *)
OwnFns(os) ==
  LET idx == SelectSeq([j \in 1..Len(os) |-> j],
                       LAMBDA j : os[j].name \notin Builtins /\ \A h \in 1..(j - 1) : os[h].name # os[j].name)
  IN [j \in 1..Len(idx) |-> os[idx[j]]]

RECURSIVE CFailTag(_, _)
CFailTag(os, j) ==
  IF j > Len(os) THEN ""
  ELSE LET o == os[j]
           t == IF o.name \in Builtins THEN "builtin"
                ELSE IF \E h \in 1..(j - 1) : os[h].name = o.name /\ ValidSig(FxSig[os[h].fx]) THEN "duplicate"
                ELSE IF ~ValidSig(FxSig[o.fx]) THEN o.fx
                ELSE ""
       IN (IF t = "" THEN "" ELSE "+" \o t) \o CFailTag(os, j + 1)

CFormsFailing(os) ==
  LET fs == OwnFns(os)
      ft == "fail" \o CFailTag(os, 1)
  IN <<P("plain", "", ft, "items", Var("context"))>>
     \o [j \in 1..Len(fs) |->
           P("callroot", fs[j].name, ft, "items",
             Call(fs[j].name, None, IF ValidSig(FxSig[fs[j].fx]) THEN Right(FxSig[fs[j].fx]) ELSE <<>>))]

CFormsNested(os) ==
  LET fs == OwnFns(os)
      has(nm, fx) == \E j \in 1..Len(fs) : fs[j].name = nm /\ fs[j].fx = fx
  IN IF has("cfWell", "well1") /\ has("cfZero", "zero")
     THEN <<P("nested", "", "well1", "items", Call("cfWell", PFirst, <<First(Call("cfZero", None, <<>>))>>)),
            P("nested", "", "well1", "echo", Call("cfWell", PFirst, <<First(Call("cfZero", None, <<>>))>>))>>
     ELSE <<>>

CPrograms(os) ==
  LET st == FoldC(CConcAll(os), Len(os), Builtins)
      fs == OwnFns(os)
  IN IF Len(st.errs) > 0 THEN CFormsFailing(os)
     ELSE <<P("plain", "", "none", "items", Var("context")),
            P("unknownfn", "", "none", "items", Call("cfNope", None, <<>>))>>
          \o ConcatAll([j \in 1..Len(fs) |-> CFormsFor(fs[j].name, fs[j].fx)])
          \o CFormsNested(os)

(* ------------------------------------------------------------------------ *)
(* Cases                                                                    *)
(* ------------------------------------------------------------------------ *)
RECURSIVE KindStr(_, _, _)
KindStr(ks, ab, j) == IF j > Len(ks) THEN "" ELSE ab[ks[j]] \o KindStr(ks, ab, j + 1)

MkCase(mode, tag, copts, eopts, p) ==
  [id    |-> mode \o "/" \o tag \o "/" \o p.form \o "/" \o p.ret,
   mode  |-> mode, list |-> tag,
   copts |-> copts, eopts |-> eopts,
   ret   |-> p.ret, form |-> p.form, fk |-> p.fk, focus |-> p.focus,
   prog  |-> p.prog, text |-> Text(p.prog)]

ECases(ks) ==
  LET os == EOpts(ks)
      ps == EPrograms(os)
      tag == "L" \o ToString(Len(ks)) \o "-" \o KindStr(ks, EAbbrev, 1)
  IN [j \in 1..Len(ps) |-> MkCase("E", tag, ProbeOpts, os, ps[j])]

CCases(ks, scheme) ==
  LET os == COpts(ks, scheme)
      ps == CPrograms(os)
      tag == scheme \o "-L" \o ToString(Len(ks)) \o "-" \o KindStr(ks, CAbbrev, 1)
  IN [j \in 1..Len(ps) |-> MkCase("C", tag, os, FixedVars, ps[j])]

(* ------------------------------------------------------------------------ *)
(* The oracle                                                               *)
(* ------------------------------------------------------------------------ *)
Exp(k, why, items, calls, cls, must, may, mayCerr) ==
  [k |-> k, why |-> why, items |-> items, calls |-> calls, cls |-> cls,
   must |-> must, may |-> may, mayCerr |-> mayCerr]

Expected(c) ==
  LET copts == CConcAll(c.copts)
      eopts == EConcAll(c.eopts)
      cst   == FoldC(copts, Len(copts), Builtins)
      est   == FoldE(eopts, Len(eopts))
      ck    == CompK(c.prog, cst.tbl)
      mc    == HasVariadic(copts)
      must  == SeqRange(est.errs)
      may   == must \cup (IF MayExisting(eopts) THEN {"ExistingConstant"} ELSE {})
      cx    == [env    |-> [x \in DOMAIN est.env |-> Splice(est.env[x], Input)],
                tbl    |-> cst.tbl, ret |-> c.ret, forest |-> Forest]
  IN IF Len(cst.errs) > 0 THEN Exp("cerr", "compile-option", <<>>, <<>>, "", {}, {}, mc)
     ELSE IF ck = "cerr" THEN Exp("cerr", "program", <<>>, <<>>, "", {}, {}, mc)
     ELSE IF ck = "any" THEN Exp("any", "variadic", <<>>, <<>>, "", {}, {}, mc)
     ELSE IF Len(est.errs) > 0 THEN Exp("opterr", "evaluate-option", <<>>, <<>>, "", must, may, mc)
     ELSE LET r == Ev(c.prog, Input, cx)
          IN Exp(r.k, "evaluation", r.items, r.calls, r.cls, {}, {}, mc)
=============================================================================
