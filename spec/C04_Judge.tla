------------------------------ MODULE C04_Judge ------------------------------
(***************************************************************************)
(* Role 3: judge the observations of the real code for property C04.       *)
(* Records (one per line of Params!ObsFile), by kind:                      *)
(*   base   the built-in and experimental tables at process start          *)
(*   hist   a Compile-call history: per call the outcome, the              *)
(*          configuration observed after every option, the evaluation of   *)
(*          the compiled expression (at once, and again after the last     *)
(*          call of the history), and what a fresh Compile and             *)
(*          funcs.Clone() see after the call                               *)
(*   sched  a gated schedule: per evaluation the result, the result of     *)
(*          the isolated sequential run and the call's time bracket        *)
(*   time   a time program evaluated under four process time zones         *)
(*   crash  a replay process died of a fatal error of the Go runtime       *)
(*          raised inside the library (e.g. "concurrent map writes")       *)
(* Every verdict is computed from FPRegistryCore's denotations.            *)
(***************************************************************************)
EXTENDS C04, Json, Params

Obs == ndJsonDeserialize(ObsFile)
N == Len(Obs)
W == 16

ModelCall(c) == [api |-> c.api, opts |-> c.opts, prog |-> c.prog, eid |-> c.eid]
Bad(id, sig, want) == [id |-> id, ok |-> FALSE, sig |-> sig, want |-> want, followed |-> TRUE]
Good(id) == [id |-> id, ok |-> TRUE, sig |-> "", want |-> "", followed |-> TRUE]

----------------------------------------------------------------------------
(* base: the assumptions the model makes about the real tables *)
BaseVerdict(o) ==
  IF /\ BuiltinNames \subseteq Range(o.base0)
     /\ (ExperNames \cup CustomNames) \cap Range(o.base0) = {}
     /\ Range(o.exper0) = ExperNames
  THEN Good(o.id) ELSE Bad(o.id, "malformed|model-names-do-not-match-the-real-tables", "")

----------------------------------------------------------------------------
(* hist *)
CfgAfter(call, k) == FoldCompileOpts(Cfg0(BaseTable), SubSeq(EffOpts(call), 1, k), call.eid, 1, ExperTable)

StepOK(call, d, k) ==
  LET c == CfgAfter(call, k)
  IN /\ Range(d.extra) = DOMAIN c.tbl \ BuiltinNames
     /\ d.missing = <<>> /\ d.altered = <<>>
     /\ d.perm = c.perm /\ d.xform = c.xform

HistEvalOK(den, out) ==
  LET nd == den.prog[1]
  IN IF out.k \in {"panic", "timeout"} THEN FALSE
     ELSE IF nd.n = "fn" /\ den.bind[1].src # "custom" THEN TRUE
     ELSE EvalMatches(out, EvalDen(den, [eid |-> 0, r |-> 1, opts |-> <<>>], 0), <<>>, out, out)

AfterProblem(a) ==
  IF a.probe # "ok" THEN "probe-compile-failed"
  ELSE IF Range(a.vis) # BuiltinNames THEN "function-visible-in-a-fresh-compile"
  ELSE IF a.extra # <<>> \/ a.missing # <<>> THEN "base-table-changed"
  ELSE IF a.altered # <<>> THEN "builtin-altered"
  ELSE IF a.perm # "err" THEN "permissive-leaked"
  ELSE ""

(* A call that fails may stop applying options early (the property does not *)
(* say that every option of a failing call is applied): only the observed   *)
(* prefix is compared then.                                                  *)
CallProblem(call, ob) ==
  LET den == CompileDen(call, call.eid)
      want == IF den.ok THEN "ok" ELSE "cerr"
  IN IF ob.out \in {"panic", "timeout"} THEN "compile|" \o ob.out
     ELSE IF Len(ob.steps) > Len(call.opts) \/ (den.ok /\ Len(ob.steps) # Len(call.opts)) THEN "options-applied|count"
     ELSE IF \E k \in 1..Len(ob.steps) : ~StepOK(call, ob.steps[k], k)
            THEN "config-after-option|" \o OptCode(call.opts[CHOOSE k \in 1..Len(ob.steps) : ~StepOK(call, ob.steps[k], k)])
     ELSE IF ob.out # want THEN "compile|want-" \o want \o "-got-" \o ob.out
     ELSE IF call.api = "fhirpath" /\ den.ok /\ ~HistEvalOK(den, ob.eval) THEN "bound-function|eval-" \o ob.eval.k
     ELSE IF call.api = "fhirpath" /\ den.ok /\ ~HistEvalOK(den, ob.late) THEN "bound-function|changed-after-later-calls|eval-" \o ob.late.k
     ELSE IF AfterProblem(ob.after) # "" THEN "after|" \o AfterProblem(ob.after)
     ELSE ""

HistVerdict(o) ==
  LET n == Len(o.calls)
      prob(j) == CallProblem(ModelCall(o.calls[j]), o.obs[j])
  IN IF Len(o.obs) # n THEN Bad(o.id, "malformed|hist-obs-count", "")
     ELSE IF \E j \in 1..n : prob(j) # ""
       THEN LET j == CHOOSE j \in 1..n : prob(j) # "" /\ \A i \in 1..(j - 1) : prob(i) = ""
            IN Bad(o.id, "hist|" \o prob(j) \o "|call=" \o CallCode(o.calls[j]),
                   [call |-> j, compiles |-> CompileDen(ModelCall(o.calls[j]), o.calls[j].eid).ok,
                    visible |-> VisibleDen(ModelCall(o.calls[j]), o.calls[j].eid)])
       ELSE Good(o.id)

----------------------------------------------------------------------------
(* sched *)
SameOutcome(a, b) == a.k = b.k /\ (a.k = "ok" => SeqSame(a.items, b.items))

EvalProblem(den, call, ob, style) ==
  LET want == EvalDen(den, call, 0)
  IN IF style = "concat"
       THEN (IF ~ConcatMatches(ob.out, want) THEN "result|concat-" \o KindOf(ob.out)
             ELSE IF ~ConcatMatches(ob.iso, want) THEN "isolated-result|concat-" \o KindOf(ob.iso)
             ELSE "")
     ELSE IF ~EvalMatches(ob.out, want, call.opts, ob.t0, ob.t1)
       THEN "result|" \o EvalDiff(ob.out, want, call.opts, ob.t0, ob.t1)
     ELSE IF ~EvalMatches(ob.iso, want, call.opts, ob.i0, ob.i1)
       THEN "isolated-result|" \o EvalDiff(ob.iso, want, call.opts, ob.i0, ob.i1)
     ELSE IF HasOverride(call.opts) /\ ~SameOutcome(ob.out, ob.iso) THEN "differs-from-isolated"
     ELSE ""

LastStepOf(steps, v) == CHOOSE i \in 1..Len(steps) : steps[i].v = v /\ \A j \in (i + 1)..Len(steps) : steps[j].v # v
Followed(o) ==
  /\ ~o.degraded /\ Len(o.arr) = Len(o.steps)
  /\ \A i \in 1..Len(o.steps) :
        /\ o.arr[i].kind # "stuck"
        /\ (o.arr[i].kind = "done") = (i = LastStepOf(o.steps, o.steps[i].v))

SchedVerdict(o) ==
  LET call == ModelCall(o.compile)
      den == CompileDen(call, call.eid)
      n == Len(o.evals)
      prob(j) == EvalProblem(den, o.evals[j], o.obs[j], o.compile.style)
  IN IF ~den.ok THEN Bad(o.id, "malformed|schedule-program-does-not-compile-in-the-model", "")
     ELSE IF o.cerr # "" THEN Bad(o.id, "sched|compile-failed", "")
     ELSE IF Len(o.obs) # n THEN Bad(o.id, "malformed|sched-obs-count", "")
     ELSE IF \E j \in 1..n : prob(j) # ""
       THEN LET j == CHOOSE j \in 1..n : prob(j) # ""
            IN [Bad(o.id, "sched|" \o prob(j) \o "|evals=" \o ToString(n) \o (IF HasOverride(o.evals[j].opts) THEN "|override" ELSE "|free"),
                    EvalDen(den, o.evals[j], 0)) EXCEPT !.followed = Followed(o)]
       ELSE [Good(o.id) EXCEPT !.followed = Followed(o)]

----------------------------------------------------------------------------
(* time *)
ExpectedLocal == <<{0}, {330}, {-150, -210}, {765, 825}>>    \* the four zones, standard or daylight time

TimeProblem(den, call, tzs) ==
  LET want == EvalDen(den, call, 0)
      nows == IF want.k = "ok" THEN TimeIdx(want.items, "now") ELSE {}
      bad(a) == ~EvalMatches(tzs[a].out, want, call.opts, tzs[a].t0, tzs[a].t1)
  IN IF \E a \in 1..Len(tzs) : bad(a)
       THEN LET a == CHOOSE a \in 1..Len(tzs) : bad(a)
            IN EvalDiff(tzs[a].out, want, call.opts, tzs[a].t0, tzs[a].t1) \o "|tz=" \o tzs[a].tz
     ELSE IF \E a, b \in 1..Len(tzs) : \E i \in nows :
               tzs[a].out.items[i].off # tzs[b].out.items[i].off
       THEN "offset-depends-on-process-tz"
     ELSE IF HasOverride(call.opts) /\ \E a, b \in 1..Len(tzs) : ~SameOutcome(tzs[a].out, tzs[b].out)
       THEN "result-depends-on-process-tz"
     ELSE ""

TimeVerdict(o) ==
  LET call == ModelCall(o.compile)
      den == CompileDen(call, call.eid)
  IN IF ~den.ok \/ Len(o.tzs) # 4 \/ \E a \in 1..4 : o.tzs[a].local \notin ExpectedLocal[a]
       THEN Bad(o.id, "malformed|time-record", "")
     ELSE LET p == TimeProblem(den, o.eval, o.tzs)
          IN IF p = "" THEN Good(o.id)
             ELSE Bad(o.id, "time|" \o p \o (IF HasOverride(o.eval.opts) THEN "|override" ELSE "|free"), EvalDen(den, o.eval, 0))

Verdict(o) ==
  CASE o.kind = "base"  -> BaseVerdict(o)
    [] o.kind = "hist"  -> HistVerdict(o)
    [] o.kind = "sched" -> SchedVerdict(o)
    [] o.kind = "time"  -> TimeVerdict(o)
    [] o.kind = "crash" -> Bad(o.id, "crash|runtime-fatal|" \o o.fatal \o "|" \o o.site, "every call returns")
    [] OTHER -> Bad(o.id, "malformed|kind", "")

VARIABLE i
Init == i \in 1..(IF N < W THEN N ELSE W) /\ PrintT(ToJson(Verdict(Obs[i])))
Next == i + W <= N /\ i' = i + W /\ PrintT(ToJson(Verdict(Obs[i'])))
Spec == Init /\ [][Next]_i
=============================================================================
