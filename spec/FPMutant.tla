------------------------------ MODULE FPMutant ------------------------------
(* The one place where the mutation switch is declared.  Every reference   *)
(* module that has deliberately wrong variants tests this constant; the    *)
(* model-checking configurations set it ("none" = the real specification). *)
CONSTANT Mutant
=============================================================================
