----------------------------- MODULE FPLiterals -----------------------------
(***************************************************************************)
(* Lexical grammar and denotation of every FHIRPath literal, the canonical *)
(* string form of every System value, the precision maps between System    *)
(* values and FHIR primitive elements, and the integer narrowing table.    *)
(*                                                                         *)
(* All texts are sequences of Unicode code points (TLC cannot index a      *)
(* string, and its JSON writer mangles non-ASCII).                         *)
(*                                                                         *)
(* Values are the abstract items of FPValues (t = "b","i","d","s","date",  *)
(* "time","dt","q").  Temporal precision p: 1 year, 2 month, 3 day, 4 hour,*)
(* 5 minute, 6 second, 7 millisecond.  Components finer than p do not      *)
(* exist in a value: they hold their minimum (month/day 1, others 0), so a *)
(* "hidden" finer component cannot even be written down here.              *)
(*                                                                         *)
(* Mutant selects a deliberately wrong variant; the laws of C15_MC must    *)
(* FAIL for each of them:                                                  *)
(*   "dropLoneBackslash"       the escape table has no entry for \\ and a  *)
(*                             backslash that starts no escape is dropped  *)
(*   "noUnicodeEscape"         \uXXXX is not an escape                     *)
(*   "timeKeepsHiddenFraction" a fraction of 1, 2, 4.. digits is kept in   *)
(*                             the value but its precision says "second",  *)
(*                             so the canonical form drops it              *)
(*   "narrowOffByOne"          the upper bound of int8 is 128              *)
(***************************************************************************)
EXTENDS FPValues, FPBigNum

CONSTANT Mutant

(***************************************************************************)
(* 1. String literals                                                      *)
(***************************************************************************)
cSQ == 39   \* '
cDQ == 34   \* "
cBT == 96   \* `
cBS == 92   \* \
cSL == 47   \* /
cDot == 46
cAt == 64
cT == 84
cZ == 90
cPlus == 43
cMinus == 45
cColon == 58
cSpace == 32

(* escape letter -> the character it denotes: \' \" \` \\ \/ \f \n \r \t *)
EscTable ==
  [x \in {39, 34, 96, 92, 47, 102, 110, 114, 116} |->
     CASE x = 102 -> 12 [] x = 110 -> 10 [] x = 114 -> 13 [] x = 116 -> 9 [] OTHER -> x]
EscLetters == IF Mutant = "dropLoneBackslash" THEN DOMAIN EscTable \ {92} ELSE DOMAIN EscTable

IsDigit(c) == c >= 48 /\ c <= 57
IsHex(c) == IsDigit(c) \/ (c >= 65 /\ c <= 70) \/ (c >= 97 /\ c <= 102)
HexVal(c) == IF c <= 57 THEN c - 48 ELSE IF c <= 70 THEN c - 55 ELSE c - 87
HexDigit(n) == IF n < 10 THEN 48 + n ELSE 87 + n

UniAt(b, i) == /\ Mutant # "noUnicodeEscape"
               /\ i + 5 <= Len(b) /\ b[i + 1] = 117
               /\ \A k \in 2..5 : IsHex(b[i + k])
UniVal(b, i) == HexVal(b[i + 2]) * 4096 + HexVal(b[i + 3]) * 256 + HexVal(b[i + 4]) * 16 + HexVal(b[i + 5])

(* The body of a string literal (the text between the quotes) as tokens:    *)
(*   ch    an ordinary character, denoting itself                           *)
(*   esc   one of the nine two-character escapes                            *)
(*   uni   \uXXXX                                                           *)
(*   lone  a backslash that starts no escape (the grammar's ESC does not    *)
(*         match; ANTLR's `.` alternative swallows it)                      *)
(*   quote an unescaped quote: the token ends here, the text is not one     *)
(*         string literal                                                   *)
RECURSIVE TokFrom(_, _)
TokFrom(b, i) ==
  IF i > Len(b) THEN <<>>
  ELSE IF b[i] = cBS THEN
         IF i < Len(b) /\ b[i + 1] \in EscLetters
           THEN <<[k |-> "esc", c |-> EscTable[b[i + 1]]]>> \o TokFrom(b, i + 2)
         ELSE IF UniAt(b, i)
           THEN <<[k |-> "uni", c |-> UniVal(b, i)]>> \o TokFrom(b, i + 6)
         ELSE <<[k |-> "lone", c |-> cBS]>> \o TokFrom(b, i + 1)
  ELSE IF b[i] = cSQ THEN <<[k |-> "quote", c |-> cSQ]>> \o TokFrom(b, i + 1)
  ELSE <<[k |-> "ch", c |-> b[i]]>> \o TokFrom(b, i + 1)
Tokens(b) == TokFrom(b, 1)

TokKinds(b) == {Tokens(b)[j].k : j \in 1..Len(Tokens(b))}

(* "valid": a string literal of the grammar with escapes only from the list *)
(* "lone" : lexes as one STRING token, but contains a backslash that starts *)
(*          no escape                                                       *)
(* "quote": not a single string literal                                     *)
BodyClass(b) ==
  LET ks == TokKinds(b)
  IN IF "quote" \in ks THEN "quote" ELSE IF "lone" \in ks THEN "lone" ELSE "valid"

RECURSIVE DecodeToks(_, _)
DecodeToks(ts, keepLone) ==
  IF ts = <<>> THEN <<>>
  ELSE (IF ts[1].k = "lone" /\ ~keepLone THEN <<>> ELSE <<ts[1].c>>) \o DecodeToks(Tail(ts), keepLone)

(* The denotation of a valid body. *)
Decode(b) == DecodeToks(Tokens(b), TRUE)
(* The two readings of a body with lone backslashes: N1 says such a         *)
(* backslash "is ignored and will not appear", the property says every      *)
(* character outside an escape stays intact.                                *)
DecodeKeep(b) == DecodeToks(Tokens(b), TRUE)
DecodeDrop(b) == DecodeToks(Tokens(b), FALSE)

(* What ParseString computes today when \uXXXX is not an escape and lone    *)
(* backslashes are dropped - used only to NAME that defect in a signature.  *)
RECURSIVE NoUniDropFrom(_, _)
NoUniDropFrom(b, i) ==
  IF i > Len(b) THEN <<>>
  ELSE IF b[i] = cBS THEN
         IF i < Len(b) /\ b[i + 1] \in DOMAIN EscTable
           THEN <<EscTable[b[i + 1]]>> \o NoUniDropFrom(b, i + 2)
           ELSE NoUniDropFrom(b, i + 1)
  ELSE <<b[i]>> \o NoUniDropFrom(b, i + 1)
NoUniDrop(b) == NoUniDropFrom(b, 1)

(* Minimal rendering of a string value as a literal body: only what must be *)
(* escaped is escaped.                                                      *)
EncChar(c) ==
  CASE c = cSQ -> <<cBS, cSQ>> [] c = cBS -> <<cBS, cBS>>
    [] c = 12 -> <<cBS, 102>> [] c = 10 -> <<cBS, 110>> [] c = 13 -> <<cBS, 114>> [] c = 9 -> <<cBS, 116>>
    [] OTHER -> <<c>>
(* Maximal rendering: every escape that exists is used; characters outside  *)
(* printable ASCII become \uXXXX (basic multilingual plane only).           *)
Hex4(c) == <<HexDigit(c \div 4096), HexDigit((c \div 256) % 16), HexDigit((c \div 16) % 16), HexDigit(c % 16)>>
EncCharMax(c) ==
  CASE c = cDQ -> <<cBS, cDQ>> [] c = cBT -> <<cBS, cBT>> [] c = cSL -> <<cBS, cSL>>
    [] c \in {cSQ, cBS, 12, 10, 13, 9} -> EncChar(c)
    [] (c < 32 \/ c > 126) /\ c < 65536 -> <<cBS, 117>> \o Hex4(c)
    [] OTHER -> <<c>>
RECURSIVE EncodeWith(_, _)
EncodeWith(s, max) ==
  IF s = <<>> THEN <<>> ELSE (IF max THEN EncCharMax(s[1]) ELSE EncChar(s[1])) \o EncodeWith(Tail(s), max)
Encode(s) == EncodeWith(s, FALSE)
EncodeMax(s) == EncodeWith(s, TRUE)
StrLit(s) == <<cSQ>> \o Encode(s) \o <<cSQ>>

(***************************************************************************)
(* 2. Numbers                                                              *)
(***************************************************************************)
AllDigits(s) == \A j \in 1..Len(s) : IsDigit(s[j])
RECURSIVE NFromDigitsAcc(_, _, _)
NFromDigitsAcc(s, j, acc) ==
  IF j > Len(s) THEN acc
  ELSE NFromDigitsAcc(s, j + 1, NAdd(NMulLimb(acc, 10), NFromInt(s[j] - 48)))
NFromDigits(s) == NFromDigitsAcc(s, 1, <<>>)

(* decimal digits of a Nat value, most significant first ("0" for zero) *)
Limb4(x) == <<48 + x \div 1000, 48 + ((x \div 100) % 10), 48 + ((x \div 10) % 10), 48 + (x % 10)>>
RECURSIVE StripZeros(_)
StripZeros(s) == IF Len(s) > 1 /\ s[1] = 48 THEN StripZeros(Tail(s)) ELSE s
RECURSIVE LimbDigits(_, _)
LimbDigits(a, k) == IF k = 0 THEN <<>> ELSE Limb4(a[k]) \o LimbDigits(a, k - 1)
NDigitsOf(a) == IF NIsZero(a) THEN <<48>> ELSE StripZeros(LimbDigits(a, Len(a)))

PosOf(s, c) == IF \E j \in 1..Len(s) : s[j] = c THEN CHOOSE j \in 1..Len(s) : s[j] = c /\ \A k \in 1..(j - 1) : s[k] # c ELSE 0

(* NUMBER : [0-9]+ ('.' [0-9]+)?   An Integer literal must fit 32 bits.     *)
ParseNumber(s) ==
  LET d == PosOf(s, cDot)
  IN IF d = 0 THEN
       IF Len(s) > 0 /\ AllDigits(s)
         THEN LET n == NFromDigits(s)
              IN IF SFitsInt32(SMake(FALSE, n)) THEN [ok |-> TRUE, v |-> I(NToInt(n))]
                 ELSE [ok |-> FALSE, v |-> [t |-> "range"]]
         ELSE [ok |-> FALSE, v |-> [t |-> "syntax"]]
     ELSE LET ip == SubSeq(s, 1, d - 1)
              fp == SubSeq(s, d + 1, Len(s))
          IN IF Len(ip) > 0 /\ Len(fp) > 0 /\ AllDigits(ip) /\ AllDigits(fp)
               THEN [ok |-> TRUE, v |-> DItem(DMake(FALSE, NFromDigits(ip \o fp), 0 - Len(fp)))]
               ELSE [ok |-> FALSE, v |-> [t |-> "syntax"]]

(* canonical text of a non-negative decimal: no exponent, no superfluous zeros *)
Rep(c, n) == [j \in 1..n |-> c]
DecText(d) ==
  LET ds == NDigitsOf(d.m)
      sgn == IF d.neg THEN <<cMinus>> ELSE <<>>
  IN IF NIsZero(d.m) THEN <<48>>
     ELSE IF d.e >= 0 THEN sgn \o ds \o Rep(48, d.e)
     ELSE LET f == 0 - d.e
          IN IF Len(ds) > f THEN sgn \o SubSeq(ds, 1, Len(ds) - f) \o <<cDot>> \o SubSeq(ds, Len(ds) - f + 1, Len(ds))
             ELSE sgn \o <<48, cDot>> \o Rep(48, f - Len(ds)) \o ds
IntText(n) == LET s == SFromInt(n) IN (IF s.neg THEN <<cMinus>> ELSE <<>>) \o NDigitsOf(s.m)

(***************************************************************************)
(* 3. Date, DateTime and Time literals                                     *)
(***************************************************************************)
IsLeap(y) == (y % 4 = 0 /\ y % 100 # 0) \/ y % 400 = 0
DaysIn(y, m) == CASE m \in {1, 3, 5, 7, 8, 10, 12} -> 31 [] m \in {4, 6, 9, 11} -> 30
                  [] m = 2 -> (IF IsLeap(y) THEN 29 ELSE 28) [] OTHER -> 0

Num(s, i, n) ==  \* value of the n digits starting at i, or -1
  IF i + n - 1 > Len(s) \/ ~(\A k \in i..(i + n - 1) : IsDigit(s[k])) THEN -1
  ELSE IF n = 2 THEN (s[i] - 48) * 10 + (s[i + 1] - 48)
  ELSE (s[i] - 48) * 1000 + (s[i + 1] - 48) * 100 + (s[i + 2] - 48) * 10 + (s[i + 3] - 48)

MkDate(p, y, mo, d) == [t |-> "date", p |-> p, y |-> y, mo |-> mo, d |-> d]
MkTime(p, h, mi, sec, ms) == [t |-> "time", p |-> p, h |-> h, mi |-> mi, sec |-> sec, ms |-> ms]
MkDT(p, y, mo, d, h, mi, sec, ms, tz, off) ==
  [t |-> "dt", p |-> p, y |-> y, mo |-> mo, d |-> d, h |-> h, mi |-> mi, sec |-> sec, ms |-> ms, tz |-> tz, off |-> off]

Bad(why) == [ok |-> FALSE, why |-> why]

(* YYYY[-MM[-DD]] at the start of s: [ok, p, y, mo, d, next] *)
ScanDate(s) ==
  LET y == Num(s, 1, 4)
  IN IF y < 0 THEN Bad("syntax")
     ELSE IF Len(s) >= 5 /\ s[5] = cMinus THEN
       LET mo == Num(s, 6, 2)
       IN IF mo < 0 THEN Bad("syntax")
          ELSE IF Len(s) >= 8 /\ s[8] = cMinus THEN
            LET d == Num(s, 9, 2)
            IN IF d < 0 THEN Bad("syntax")
               ELSE IF y < 1 \/ mo < 1 \/ mo > 12 \/ d < 1 \/ d > DaysIn(y, mo) THEN Bad("range")
               ELSE [ok |-> TRUE, p |-> 3, y |-> y, mo |-> mo, d |-> d, next |-> 11]
          ELSE IF y < 1 \/ mo < 1 \/ mo > 12 THEN Bad("range")
          ELSE [ok |-> TRUE, p |-> 2, y |-> y, mo |-> mo, d |-> 1, next |-> 8]
     ELSE IF y < 1 THEN Bad("range")
     ELSE [ok |-> TRUE, p |-> 1, y |-> y, mo |-> 1, d |-> 1, next |-> 5]

(* The fraction of a second.  fd = number of digits written.  The value     *)
(* keeps milliseconds; `rest` says whether digits beyond the third are      *)
(* non-zero (then rounding and truncation are both acceptable readings).    *)
RECURSIVE DigitRun(_, _)
DigitRun(s, i) == IF i <= Len(s) /\ IsDigit(s[i]) THEN 1 + DigitRun(s, i + 1) ELSE 0
FracMs(s, i, fd) ==
  LET d(k) == IF k <= fd THEN s[i + k - 1] - 48 ELSE 0
  IN d(1) * 100 + d(2) * 10 + d(3)
FracRoundUp(s, i, fd) == fd > 3 /\ s[i + 3] - 48 >= 5
FracInexact(s, i, fd) == fd > 3 /\ \E k \in 4..fd : s[i + k - 1] # 48

(* hh[:mm[:ss[.f+]]] starting at i: [ok, p, h, mi, sec, ms, fd, up, inexact, next] *)
ScanTime(s, i) ==
  LET h == Num(s, i, 2)
      T(p, mi, sec, ms, fd, up, ix, nx) ==
        IF h > 23 \/ mi > 59 \/ sec > 59 THEN Bad("range")
        ELSE [ok |-> TRUE, p |-> p, h |-> h, mi |-> mi, sec |-> sec, ms |-> ms, fd |-> fd, up |-> up, inexact |-> ix, next |-> nx]
  IN IF h < 0 THEN Bad("syntax")
     ELSE IF i + 2 <= Len(s) /\ s[i + 2] = cColon /\ Num(s, i + 3, 2) >= 0 THEN
       LET mi == Num(s, i + 3, 2)
       IN IF i + 5 <= Len(s) /\ s[i + 5] = cColon /\ Num(s, i + 6, 2) >= 0 THEN
            LET sec == Num(s, i + 6, 2)
            IN IF i + 8 <= Len(s) /\ s[i + 8] = cDot /\ DigitRun(s, i + 9) > 0 THEN
                 LET fd == DigitRun(s, i + 9)
                 IN T(7, mi, sec, FracMs(s, i + 9, fd), fd, FracRoundUp(s, i + 9, fd), FracInexact(s, i + 9, fd), i + 9 + fd)
               ELSE T(6, mi, sec, 0, 0, FALSE, FALSE, i + 8)
          ELSE T(5, mi, 0, 0, 0, FALSE, FALSE, i + 5)
     ELSE T(4, 0, 0, 0, 0, FALSE, FALSE, i + 2)

(* Z | (+|-)hh:mm starting at i and ending the text: [ok, tz, off] *)
ScanZone(s, i) ==
  IF i > Len(s) THEN [ok |-> TRUE, tz |-> FALSE, off |-> 0]
  ELSE IF s[i] = cZ /\ i = Len(s) THEN [ok |-> TRUE, tz |-> TRUE, off |-> 0]
  ELSE IF s[i] \in {cPlus, cMinus} /\ i + 5 = Len(s) /\ s[i + 3] = cColon /\ Num(s, i + 1, 2) >= 0 /\ Num(s, i + 4, 2) >= 0 THEN
    LET hh == Num(s, i + 1, 2)
        mm == Num(s, i + 4, 2)
    IN IF hh > 14 \/ mm > 59 \/ (hh = 14 /\ mm > 0) THEN Bad("range")
       ELSE [ok |-> TRUE, tz |-> TRUE, off |-> IF s[i] = cMinus THEN 0 - (hh * 60 + mm) ELSE hh * 60 + mm]
  ELSE Bad("syntax")

(* The "timeKeepsHiddenFraction" mutant: a fraction that is not written     *)
(* with exactly three digits stays in the value although the value claims   *)
(* second precision (this is what layout-list parsing does).                *)
TimePrec(t) == IF Mutant = "timeKeepsHiddenFraction" /\ t.p = 7 /\ t.fd # 3 THEN 6 ELSE t.p

(* A temporal text WITHOUT its literal prefix.  kind: "date", "dt", "time". *)
(* For "dt" the date part is followed by T and an optional time and zone.   *)
(* Result [ok, v, inexact, up] ; v uses truncation of the fraction.         *)
ParseTemporal(kind, s) ==
  IF kind = "time" THEN
    LET t == ScanTime(s, 1)
    IN IF ~t.ok THEN t
       ELSE IF t.next # Len(s) + 1 THEN Bad("syntax")
       ELSE [ok |-> TRUE, v |-> MkTime(TimePrec(t), t.h, t.mi, t.sec, t.ms), inexact |-> t.inexact, up |-> t.up]
  ELSE
    LET d == ScanDate(s)
    IN IF ~d.ok THEN d
       ELSE IF kind = "date" THEN
         IF d.next # Len(s) + 1 THEN Bad("syntax")
         ELSE [ok |-> TRUE, v |-> MkDate(d.p, d.y, d.mo, d.d), inexact |-> FALSE, up |-> FALSE]
       ELSE IF d.next > Len(s) \/ s[d.next] # cT THEN Bad("syntax")
       ELSE IF d.next = Len(s) THEN
         [ok |-> TRUE, v |-> MkDT(d.p, d.y, d.mo, d.d, 0, 0, 0, 0, FALSE, 0), inexact |-> FALSE, up |-> FALSE]
       ELSE IF d.p # 3 THEN Bad("time-needs-full-date")
       ELSE
         LET t == ScanTime(s, d.next + 1)
         IN IF ~t.ok THEN t
            ELSE LET z == ScanZone(s, t.next)
                 IN IF ~z.ok THEN z
                    ELSE [ok |-> TRUE,
                          v |-> MkDT(TimePrec(t), d.y, d.mo, d.d, t.h, t.mi, t.sec, t.ms, z.tz, z.off),
                          inexact |-> t.inexact, up |-> t.up]

(* The literal forms: @date, @dateT..., @Ttime *)
ParseTemporalLit(s) ==
  IF Len(s) < 2 \/ s[1] # cAt THEN Bad("syntax")
  ELSE IF s[2] = cT THEN ParseTemporal("time", SubSeq(s, 3, Len(s)))
  ELSE IF \E j \in 1..Len(s) : s[j] = cT THEN ParseTemporal("dt", Tail(s))
  ELSE ParseTemporal("date", Tail(s))

(* the value with the fraction rounded half-up instead of truncated, when   *)
(* that does not carry into the seconds (otherwise: the truncated value)    *)
RoundedUp(v) == IF v.ms < 999 THEN [v EXCEPT !.ms = v.ms + 1] ELSE v

(* rendering *)
D2(n) == <<48 + n \div 10, 48 + (n % 10)>>
D3(n) == <<48 + n \div 100, 48 + ((n \div 10) % 10), 48 + (n % 10)>>
D4(n) == <<48 + n \div 1000, 48 + ((n \div 100) % 10), 48 + ((n \div 10) % 10), 48 + (n % 10)>>
DateText(p, y, mo, d) ==
  D4(y) \o (IF p >= 2 THEN <<cMinus>> \o D2(mo) ELSE <<>>) \o (IF p >= 3 THEN <<cMinus>> \o D2(d) ELSE <<>>)
TimeText(p, h, mi, sec, ms) ==
  D2(h) \o (IF p >= 5 THEN <<cColon>> \o D2(mi) ELSE <<>>) \o (IF p >= 6 THEN <<cColon>> \o D2(sec) ELSE <<>>)
        \o (IF p >= 7 THEN <<cDot>> \o D3(ms) ELSE <<>>)
ZoneText(tz, off) ==
  IF ~tz THEN <<>>
  ELSE IF off = 0 THEN <<cZ>>
  ELSE LET a == IF off < 0 THEN 0 - off ELSE off
       IN <<IF off < 0 THEN cMinus ELSE cPlus>> \o D2(a \div 60) \o <<cColon>> \o D2(a % 60)

(* Canonical string form of a temporal value (what toString() should give,  *)
(* up to spelling) and canonical literal.                                   *)
TemporalText(v) ==
  CASE v.t = "date" -> DateText(v.p, v.y, v.mo, v.d)
    [] v.t = "time" -> TimeText(v.p, v.h, v.mi, v.sec, v.ms)
    [] v.t = "dt"   -> DateText(IF v.p > 3 THEN 3 ELSE v.p, v.y, v.mo, v.d) \o <<cT>>
                        \o (IF v.p >= 4 THEN TimeText(v.p, v.h, v.mi, v.sec, v.ms) \o ZoneText(v.tz, v.off) ELSE <<>>)
TemporalLit(v) == IF v.t = "time" THEN <<cAt, cT>> \o TemporalText(v) ELSE <<cAt>> \o TemporalText(v)

(* Equality of temporal values "by value": second and millisecond are one   *)
(* precision (the fraction .000 is no information), everything else exact.  *)
PClass(p) == IF p = 7 THEN 6 ELSE p
TemporalSame(x, y) ==
  /\ x.t = y.t
  /\ PClass(x.p) = PClass(y.p)
  /\ CASE x.t = "date" -> x.y = y.y /\ x.mo = y.mo /\ x.d = y.d
       [] x.t = "time" -> x.h = y.h /\ x.mi = y.mi /\ x.sec = y.sec /\ x.ms = y.ms
       [] x.t = "dt"   -> /\ x.y = y.y /\ x.mo = y.mo /\ x.d = y.d /\ x.h = y.h /\ x.mi = y.mi
                          /\ x.sec = y.sec /\ x.ms = y.ms /\ x.tz = y.tz /\ x.off = y.off
       [] OTHER -> FALSE

(***************************************************************************)
(* 4. Quantity literals:  NUMBER ( 'unit' | calendar keyword )?            *)
(***************************************************************************)
(* calendar keywords as code points *)
KwYear == <<121, 101, 97, 114>>
KwMonth == <<109, 111, 110, 116, 104>>
KwWeek == <<119, 101, 101, 107>>
KwDay == <<100, 97, 121>>
KwHour == <<104, 111, 117, 114>>
KwMinute == <<109, 105, 110, 117, 116, 101>>
KwSecond == <<115, 101, 99, 111, 110, 100>>
KwMillisecond == <<109, 105, 108, 108, 105>> \o KwSecond
Singular == {KwYear, KwMonth, KwWeek, KwDay, KwHour, KwMinute, KwSecond, KwMillisecond}
Keywords == Singular \cup {k \o <<115>> : k \in Singular}

MkQty(d, unit) == [t |-> "q", val |-> DItem(d), unit |-> unit]
NumAsDec(v) == IF v.t = "i" THEN DFromInt(v.i) ELSE DOfItem(v)

(* number, one or more spaces (or none before a quoted unit), unit *)
RECURSIVE SkipSpaces(_, _)
SkipSpaces(s, i) == IF i <= Len(s) /\ s[i] = cSpace THEN SkipSpaces(s, i + 1) ELSE i
ParseQuantityLit(s) ==
  LET numEnd == CHOOSE j \in 0..Len(s) : (\A k \in 1..j : IsDigit(s[k]) \/ s[k] = cDot) /\ (j = Len(s) \/ ~(IsDigit(s[j + 1]) \/ s[j + 1] = cDot))
      n == ParseNumber(SubSeq(s, 1, numEnd))
      u == SkipSpaces(s, numEnd + 1)
      rest == SubSeq(s, u, Len(s))
  IN IF ~n.ok THEN Bad("number")
     ELSE IF rest = <<>> THEN Bad("no-unit")
     ELSE IF rest[1] = cSQ THEN
       IF Len(rest) >= 2 /\ rest[Len(rest)] = cSQ /\ BodyClass(SubSeq(rest, 2, Len(rest) - 1)) = "valid"
         THEN [ok |-> TRUE, v |-> MkQty(NumAsDec(n.v), Decode(SubSeq(rest, 2, Len(rest) - 1)))]
         ELSE Bad("unit")
     ELSE IF rest \in Keywords /\ u > numEnd + 1 THEN [ok |-> TRUE, v |-> MkQty(NumAsDec(n.v), rest)]
     ELSE Bad("unit")

QtyLit(q) == DecText(DOfItem(q.val)) \o <<cSpace>> \o
             (IF q.unit \in Keywords THEN q.unit ELSE StrLit(q.unit))
QtySame(x, y) == x.t = "q" /\ y.t = "q" /\ DEq(DOfItem(x.val), DOfItem(y.val)) /\ x.unit = y.unit

(***************************************************************************)
(* 5. Canonical literal of every System value and its parser               *)
(***************************************************************************)
cTrue == <<116, 114, 117, 101>>
cFalse == <<102, 97, 108, 115, 101>>

(* canonical literal (non-negative numbers only: the grammar has no sign) *)
CanonLit(v) ==
  CASE v.t = "b" -> (IF v.b THEN cTrue ELSE cFalse)
    [] v.t = "i" -> IntText(v.i)
    [] v.t = "d" -> (LET x == DecText(DOfItem(v)) IN IF PosOf(x, cDot) = 0 THEN x \o <<cDot, 48>> ELSE x)
    [] v.t = "s" -> StrLit(v.cp)
    [] v.t \in {"date", "time", "dt"} -> TemporalLit(v)
    [] v.t = "q" -> QtyLit(v)

ParseLit(s) ==
  IF s = cTrue THEN [ok |-> TRUE, v |-> B(TRUE)]
  ELSE IF s = cFalse THEN [ok |-> TRUE, v |-> B(FALSE)]
  ELSE IF Len(s) = 0 THEN Bad("syntax")
  ELSE IF s[1] = cSQ THEN
    IF Len(s) >= 2 /\ s[Len(s)] = cSQ /\ BodyClass(SubSeq(s, 2, Len(s) - 1)) = "valid"
      THEN [ok |-> TRUE, v |-> S(Decode(SubSeq(s, 2, Len(s) - 1)))]
      ELSE Bad("string")
  ELSE IF s[1] = cAt THEN ParseTemporalLit(s)
  ELSE IF \A j \in 1..Len(s) : IsDigit(s[j]) \/ s[j] = cDot THEN ParseNumber(s)
  ELSE ParseQuantityLit(s)

(* equality by value of two System values of the abstract domain *)
ValueSame(x, y) ==
  /\ x.t = y.t
  /\ CASE x.t = "b" -> x.b = y.b
       [] x.t = "i" -> x.i = y.i
       [] x.t = "s" -> x.cp = y.cp
       [] x.t = "d" -> DEq(DOfItem(x), DOfItem(y))
       [] x.t = "q" -> QtySame(x, y)
       [] x.t \in {"date", "time", "dt"} -> TemporalSame(x, y)
       [] OTHER -> FALSE

(***************************************************************************)
(* 6. Precision maps System value <-> FHIR primitive element               *)
(***************************************************************************)
(* proto precision enums *)
DateProtoPrecs == {"YEAR", "MONTH", "DAY"}
DateTimeProtoPrecs == {"YEAR", "MONTH", "DAY", "SECOND", "MILLISECOND", "MICROSECOND"}
TimeProtoPrecs == {"SECOND", "MILLISECOND", "MICROSECOND"}

(* proto precision -> System precision (always representable; microseconds  *)
(* are finer than anything a System value has, they become milliseconds)    *)
SysPrecOfProto(pp) ==
  CASE pp = "YEAR" -> 1 [] pp = "MONTH" -> 2 [] pp = "DAY" -> 3
    [] pp = "SECOND" -> 6 [] pp = "MILLISECOND" -> 7 [] pp = "MICROSECOND" -> 7

(* System precision -> proto precision, "none" where the element has no     *)
(* such precision (hour and minute) *)
ProtoPrecOfSys(kind, p) ==
  CASE p = 1 /\ kind # "time" -> "YEAR" [] p = 2 /\ kind # "time" -> "MONTH" [] p = 3 /\ kind # "time" -> "DAY"
    [] p = 6 /\ kind # "date" -> "SECOND" [] p = 7 /\ kind # "date" -> "MILLISECOND"
    [] OTHER -> "none"

(***************************************************************************)
(* 7. Integer narrowing                                                    *)
(***************************************************************************)
(* Go's integer types on a 64-bit platform; "named32" stands for a defined  *)
(* type whose underlying type is int32 (a proto enum, for instance).        *)
IntTypes == {"int8", "int16", "int32", "int64", "int", "uint8", "uint16", "uint32", "uint64", "uint", "uintptr", "named32"}
BitsOf(T) == CASE T \in {"int8", "uint8"} -> 8 [] T \in {"int16", "uint16"} -> 16
               [] T \in {"int32", "uint32", "named32"} -> 32 [] OTHER -> 64
SignedType(T) == T \in {"int8", "int16", "int32", "int64", "int", "named32"}

(* 2^k as a Nat value *)
RECURSIVE NPow2(_)
NPow2(k) == IF k = 0 THEN <<1>> ELSE NMulLimb(NPow2(k - 1), 2)

(* the table (written out; LawNarrowTable checks it against NPow2) *)
HiOf(T) ==
  CASE T = "int8"   -> SMake(FALSE, NFromInt(IF Mutant = "narrowOffByOne" THEN 128 ELSE 127))
    [] T = "int16"  -> SMake(FALSE, NFromInt(32767))
    [] T \in {"int32", "named32"} -> SMake(FALSE, NFromInt(2147483647))
    [] T \in {"int64", "int"} -> SMake(FALSE, <<5807, 5477, 368, 3372, 922>>)       \* 9223372036854775807
    [] T = "uint8"  -> SMake(FALSE, NFromInt(255))
    [] T = "uint16" -> SMake(FALSE, NFromInt(65535))
    [] T = "uint32" -> SMake(FALSE, <<7295, 9496, 42>>)                               \* 4294967295
    [] T \in {"uint64", "uint", "uintptr"} -> SMake(FALSE, <<1615, 955, 737, 6744, 1844>>)  \* 18446744073709551615
LoOf(T) ==
  CASE T = "int8"   -> SMake(TRUE, NFromInt(128))
    [] T = "int16"  -> SMake(TRUE, NFromInt(32768))
    [] T \in {"int32", "named32"} -> SMake(TRUE, <<3648, 4748, 21>>)
    [] T \in {"int64", "int"} -> SMake(TRUE, <<5808, 5477, 368, 3372, 922>>)
    [] OTHER -> SMake(FALSE, <<>>)

(* v : signed BigNum [neg, m] *)
Representable(v, T) == SCmp(v, LoOf(T)) >= 0 /\ SCmp(v, HiOf(T)) <= 0
(* a value of the source type converts to the target exactly when the      *)
(* target can represent it *)
NarrowOk(v, from, to) == Representable(v, to)
=============================================================================
