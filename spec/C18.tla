-------------------------------- MODULE C18 --------------------------------
(***************************************************************************)
(* Property C18: FHIRPatch operations change exactly the targeted element, *)
(* or nothing.  This module binds FPPatch to the data of one run (the      *)
(* annotated trees and the schema the harness derived from the google/fhir *)
(* descriptors) and defines the case space of the small model: every       *)
(* element path of the model resource M0, in several path forms, x every   *)
(* operation x value classes x indexes in [-1, len+1].                     *)
(***************************************************************************)
EXTENDS FPPatch, Json, C18_Params

TreeRecs == ndJsonDeserialize(TreesFile)
Schema   == JsonDeserialize(SchemaFile)

HasTree(name) == \E i \in 1..Len(TreeRecs) : TreeRecs[i].name = name
TreeOf(name)  == TreeRecs[CHOOSE i \in 1..Len(TreeRecs) : TreeRecs[i].name = name].tree

----------------------------------------------------------------------------
(* Values.  A value specification is [src, res, addr, mk, s, i, b]:        *)
(*   donor: a clone of the element at addr of pristine resource res         *)
(*   mk:    a fresh primitive of proto type mk                              *)
(*   nil                                                                    *)

VSpec(src, res, addr, mk, s, i, b) == [src |-> src, res |-> res, addr |-> addr, mk |-> mk, s |-> s, i |-> i, b |-> b]
NilSpec          == VSpec("nil", "", <<>>, "", "", 0, FALSE)
DonorSpec(r, a)  == VSpec("donor", r, a, "", "", 0, FALSE)
MkStr(pn, s)     == VSpec("mk", "", <<>>, pn, s, 0, FALSE)
MkInt(pn, i)     == VSpec("mk", "", <<>>, pn, "", i, FALSE)
MkBool(b)        == VSpec("mk", "", <<>>, "Boolean", "", 0, b)

MkTy == [String |-> "string", Code |-> "code", Id |-> "id", Uri |-> "uri", Markdown |-> "markdown",
         Decimal |-> "decimal", Integer |-> "integer", PositiveInt |-> "positiveInt",
         UnsignedInt |-> "unsignedInt", Boolean |-> "boolean"]

NoValue == [t |-> "none"]

(* what the model knows about a value it specified (the judge uses what    *)
(* the harness reports instead)                                             *)
ModelVal(spec) ==
  IF spec.src = "nil" THEN [nil |-> TRUE, pn |-> "", ty |-> "", k |-> "", h |-> "", v |-> NoValue]
  ELSE IF spec.src = "donor" THEN
       LET d == NodeAt(TreeOf(spec.res), spec.addr)
       IN [nil |-> FALSE, pn |-> d.pn, ty |-> d.ty, k |-> d.k, h |-> d.h, v |-> d.v]
  ELSE [nil |-> FALSE, pn |-> spec.mk, ty |-> MkTy[spec.mk], k |-> "prim", h |-> "",
        v |-> IF MkTy[spec.mk] \in IntLike THEN [t |-> "i", i |-> spec.i]
              ELSE IF spec.mk = "Boolean" THEN [t |-> "b", b |-> spec.b]
              ELSE [t |-> "sym", s |-> spec.s]]

(* the value's own subtree: the donor node, or a childless primitive *)
ValTree(spec, val) ==
  IF spec.src = "donor" THEN NodeAt(TreeOf(spec.res), spec.addr)
  ELSE [n |-> "", jn |-> "", ty |-> val.ty, k |-> val.k, pn |-> val.pn, li |-> FALSE, cx |-> FALSE,
        v |-> val.v, h |-> val.h, ch |-> <<>>]

----------------------------------------------------------------------------
(* The case space of the model: paths to every address of the current tree *)

IndexedSteps(t, a) ==
  LET RECURSIVE go(_, _)
      go(node, rest) ==
        IF Len(rest) = 0 THEN <<>>
        ELSE LET c == node.ch[rest[1]]
             IN <<FieldS(c.n)>> \o (IF c.li THEN <<IndexS(GroupPos(node.ch, rest[1]))>> ELSE <<>>) \o go(c, Tail(rest))
  IN go(t, a)
PlainSteps(t, a) ==
  LET RECURSIVE go(_, _)
      go(node, rest) == IF Len(rest) = 0 THEN <<>> ELSE <<FieldS(node.ch[rest[1]].n)>> \o go(node.ch[rest[1]], Tail(rest))
  IN go(t, a)
Indexed(t, a) == <<RootS(t.ty)>> \o IndexedSteps(t, a)
Plain(t, a)   == <<RootS(t.ty)>> \o PlainSteps(t, a)

(* a criterion `child = 'literal'` on a scalar string-valued child *)
WhereSteps(node) ==
  {PS("where", node.ch[i].n, ValStr(node.ch[i].v), 0) :
     i \in {j \in 1..Len(node.ch) : /\ ~node.ch[j].li /\ ~node.ch[j].cx /\ node.ch[j].k = "prim"
                                    /\ node.ch[j].ty \in {"string", "code", "id", "uri"}
                                    /\ node.ch[j].v.t \in {"s", "sym"}}}

PosIn(seq, x) == CHOOSE j \in 1..Len(seq) : seq[j] = x

(* [form, path] pairs addressing address a *)
FormsOf(t, a) ==
  LET ix == Indexed(t, a) IN
  IF Len(a) = 0 THEN {[form |-> "indexed", path |-> ix]}
  ELSE
   LET x    == NodeAt(t, a)
       pa   == Front(a)
       pch  == NodeAt(t, pa).ch
       pl   == Plain(t, a)
       base == Indexed(t, pa) \o <<FieldS(x.n)>>
       pos  == GroupPos(pch, LastOf(a))
       glen == Len(Positions(pch, x.n))
       flat == Nav(t, Schema, pl).a
   IN {[form |-> "indexed", path |-> ix]}
      \cup (IF pl # ix THEN {[form |-> "plain", path |-> pl],
                             [form |-> "lastidx", path |-> pl \o <<IndexS(PosIn(flat, a) - 1)>>]} ELSE {})
      \cup (IF x.li /\ pos = 0 /\ base # pl THEN {[form |-> "list", path |-> base]} ELSE {})
      \cup (IF x.li /\ pos = 0 THEN {[form |-> "first", path |-> base \o <<PS("first", "", "", 0)>>]} ELSE {})
      \cup (IF x.li /\ pos = glen - 1 THEN {[form |-> "last", path |-> base \o <<PS("last", "", "", 0)>>]} ELSE {})
      \cup (IF x.li THEN {[form |-> "where", path |-> base \o <<w>>] : w \in WhereSteps(x)} ELSE {})

(* addresses that can serve as donors: the harness cannot clone elements   *)
(* inside a contained resource (they live in a packed Any)                  *)
UnderContained(t, a) == \E j \in 1..(Len(a) - 1) : NodeAt(t, SubSeq(a, 1, j)).n = "contained"
DonorAddrs(res) == SelectSeq(AddrSeq(TreeOf(res)), LAMBDA a : Len(a) > 0 /\ ~UnderContained(TreeOf(res), a))

DonorsOfType(res, pn) == SelectSeq(DonorAddrs(res), LAMBDA a : NodeAt(TreeOf(res), a).pn = pn)
ResourceDonors(res)   == SelectSeq(DonorAddrs(res), LAMBDA a : NodeAt(TreeOf(res), a).k = "resource")
ComplexDonors(res, fld) ==
  SelectSeq(DonorAddrs(res), LAMBDA a : LET d == NodeAt(TreeOf(res), a) IN
     d.k = "complex" /\ \A i \in 1..Len(fld.alts) : fld.alts[i].pn # d.pn)

FirstOr(seq, mk(_)) == IF Len(seq) = 0 THEN {} ELSE {mk(seq[1])}

(* [label, spec] pairs tried at a field *)
ValuesFor(fld, donorRes, wide) ==
  LET right == IF fld.anyres THEN FirstOr(ResourceDonors(donorRes), LAMBDA a : [label |-> "right", spec |-> DonorSpec(donorRes, a)])
               ELSE UNION {FirstOr(DonorsOfType(donorRes, fld.alts[i].pn), LAMBDA a : [label |-> "right", spec |-> DonorSpec(donorRes, a)])
                           : i \in 1..Len(fld.alts)}
      hasTy(tys) == \E i \in 1..Len(fld.alts) : fld.alts[i].ty \in tys
      sib == UNION {
               IF Len(fld.alts[i].codes) > 0
               THEN {[label |-> "sib", spec |-> MkStr("String", fld.alts[i].codes[Len(fld.alts[i].codes)])],
                     [label |-> "sib", spec |-> MkStr("Code", fld.alts[i].codes[1])],
                     [label |-> "sibbad", spec |-> MkStr("String", "not-a-code")]}
               ELSE IF fld.alts[i].ty \in StrLike /\ ~fld.choice
               THEN {[label |-> "sib", spec |-> MkStr(IF fld.alts[i].pn = "Code" THEN "String" ELSE "Code", "sv")]}
               ELSE {} : i \in 1..Len(fld.alts)}
      wrong == (IF hasTy({"boolean"}) THEN {[label |-> "wrong", spec |-> MkStr("String", "w")]}
                                      ELSE {[label |-> "wrong", spec |-> MkBool(TRUE)]})
               \cup (IF hasTy(IntLike) THEN {} ELSE {[label |-> "wrong", spec |-> MkInt("Integer", 3)]})
               \cup FirstOr(ComplexDonors(donorRes, fld), LAMBDA a : [label |-> "wrong", spec |-> DonorSpec(donorRes, a)])
      nil == {[label |-> "nil", spec |-> NilSpec]}
  IN IF wide THEN right \cup sib \cup wrong \cup nil
     ELSE (IF right = {} THEN {} ELSE {CHOOSE r \in right : TRUE})
          \cup {[label |-> "wrong", spec |-> IF hasTy({"boolean"}) THEN MkStr("String", "w") ELSE MkBool(TRUE)]}

NoFieldValues == {[label |-> "wrong", spec |-> MkBool(TRUE)], [label |-> "nil", spec |-> NilSpec]}

(* an operation of the model: what the harness needs to replay it *)
Op(op, fp, name, index, lv) ==
  [op |-> op, path |-> fp.path, text |-> Render(fp.path), name |-> name, index |-> index, nilres |-> FALSE,
   val |-> lv.spec, form |-> fp.form, vlabel |-> lv.label]

NoneLV == [label |-> "none", spec |-> NilSpec]

(* Names used with add on element x: every child name present, valid absent *)
(* names for which a donor exists (at most one scalar and one list), and a  *)
(* name that is no element.                                                 *)
AddNames(x, donorRes, wide) ==
  LET present == {x.ch[i].n : i \in 1..Len(x.ch)}
      fs      == IF x.pn \in DOMAIN Schema THEN Schema[x.pn] ELSE <<>>
      cand(list) == {i \in 1..Len(fs) : /\ fs[i].n \notin present /\ fs[i].list = list /\ ~fs[i].choice /\ ~fs[i].anyres
                                        /\ fs[i].n \notin {"id", "extension", "modifierExtension"}
                                        /\ \E j \in 1..Len(fs[i].alts) : Len(DonorsOfType(donorRes, fs[i].alts[j].pn)) > 0}
      pick(cs) == IF cs = {} THEN {} ELSE {fs[CHOOSE i \in cs : \A j \in cs : i <= j].n}
  IN IF x.k = "prim" THEN {}
     ELSE present \cup pick(cand(FALSE)) \cup pick(cand(TRUE)) \cup (IF wide THEN {"zzz"} ELSE {})

(* every operation of the model on tree t.  wide = the full cross (every    *)
(* address, all forms, all value classes); otherwise the core used beyond   *)
(* depth WideDepth: the repeated, nested-repeated, code and choice elements *)
(* in their indexed / filtered / whole-list forms, a value of the declared  *)
(* type and a wrong one.                                                    *)
CoreNames == {"name", "given", "gender", "deceased"}
Targets(t, wide) == IF wide THEN Range(AddrSeq(t))
                    ELSE {a \in Range(AddrSeq(t)) : Len(a) = 0 \/ NodeAt(t, a).n \in CoreNames}

OpsAt(t, a, donorRes, wide) ==
  LET x    == NodeAt(t, a)
      fld  == IF Len(a) = 0 THEN [ok |-> FALSE]
              ELSE [ok |-> TRUE, f |-> GetField(Schema, NodeAt(t, Front(a)).pn, x.n)]
      glen == IF Len(a) = 0 THEN 1 ELSE Len(Positions(NodeAt(t, Front(a)).ch, x.n))
      vals == IF fld.ok THEN ValuesFor(fld.f, donorRes, wide) ELSE NoFieldValues
      forms == IF wide THEN FormsOf(t, a)
               ELSE {fp \in FormsOf(t, a) : fp.form \in {"indexed", "where", "list"}}
      listy(fp) == fp.form \in {"list", "plain"}
      idxs(fp, lv) == IF listy(fp) /\ lv.label \in {"right", "wrong"} THEN -1..(glen + 1)
                      ELSE IF wide THEN {0, glen} ELSE {}
  IN UNION {
       (IF Len(a) = 0 /\ ~wide THEN {}
        ELSE {Op("delete", fp, "", 0, NoneLV)} \cup {Op("replace", fp, "", 0, lv) : lv \in vals})
       \cup (IF wide /\ fp.form = "indexed" THEN {Op("move", fp, "", 1, NoneLV)} ELSE {})
       \cup UNION {{Op("insert", fp, "", i, lv) : i \in idxs(fp, lv)} : lv \in vals}
       \cup (IF fp.form = "indexed" \/ (wide /\ fp.form \in {"where", "first"})
             THEN UNION {{Op("add", fp, nm, 0, lv) :
                             lv \in (IF FieldOk(Schema, x.pn, nm) THEN ValuesFor(GetField(Schema, x.pn, nm), donorRes, wide)
                                     ELSE NoFieldValues)}
                         : nm \in AddNames(x, donorRes, wide)}
             ELSE {})
       : fp \in forms}

OpsOn(t, donorRes, wide) == UNION {OpsAt(t, a, donorRes, wide) : a \in Targets(t, wide)}
=============================================================================
