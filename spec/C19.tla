-------------------------------- MODULE C19 --------------------------------
(***************************************************************************)
(* Property C19: reference and identity parsing and formatting are mutual  *)
(* inverses.  This module is the case space (pools of the quantifier) and  *)
(* the oracle: what the property permits for every observed probe.         *)
(* C19_MC explores the case space, checks the laws and emits the cases;     *)
(* C19_Judge judges observations of the real code.                          *)
(*                                                                         *)
(* A case is one record shape for every kind (unused fields are ""/0):      *)
(*   kind "rest"  : type, rid, ver, base          REST reference            *)
(*   kind "frag"  : type, rid                     "#rid" (rid "" is "#")    *)
(*   kind "urn"   : type, rid = the URN                                     *)
(*   kind "canon" : base = url, ver, rid = fragment   url|ver#fragment      *)
(*   kind "empty" :                               the empty string          *)
(*   kind "pool"  : type, x = second type         12 references for Is      *)
(*   kind "raw"   : rid = the text (produced by the harness: byte-mutated   *)
(*                  neighbours), x = mutation operator                      *)
(*   kinds "str", "triple": law instances used only by the model check      *)
(* ridc / verc / basec are the class labels of the pool entries (they make  *)
(* the case id and the signature class).                                    *)
(***************************************************************************)
EXTENDS FPReference

Case(kind, type, rid, ver, base, ridc, verc, basec, x) ==
  [kind |-> kind, type |-> type, rid |-> rid, ver |-> ver, base |-> base,
   ridc |-> ridc, verc |-> verc, basec |-> basec, x |-> x]

RECURSIVE Rep(_, _)
Rep(s, n) == IF n = 0 THEN "" ELSE s \o Rep(s, n - 1)

(* ----------------------------------------------------------------- pools *)
Id60 == Rep("a1B2-c3.D4", 6)
IdPool == <<
  [c |-> "len1",   s |-> "7"],
  [c |-> "len2",   s |-> "a1"],
  [c |-> "len63",  s |-> Id60 \o "x.8"],
  [c |-> "len64",  s |-> Id60 \o "x.8Z"],
  [c |-> "len65",  s |-> Id60 \o "x.8Zq"],           \* invalid length
  [c |-> "len0",   s |-> ""],                        \* invalid length
  [c |-> "upper",  s |-> "ABCXYZ"],
  [c |-> "lower",  s |-> "abcxyz"],
  [c |-> "digits", s |-> "0123456789"],
  [c |-> "hyphen", s |-> "a-b"],
  [c |-> "onlyhyphen", s |-> "-"],
  [c |-> "dot",    s |-> "a.b"],
  [c |-> "onlydot", s |-> "."],
  [c |-> "dotdot", s |-> ".."],
  [c |-> "mixed",  s |-> "A1-b.2"],
  [c |-> "uuid",   s |-> "5a17b7c2-e01c-4bc7-b973-31d4156b11d7"],
  [c |-> "word",   s |-> "history"],
  [c |-> "typename", s |-> "Patient"],
  [c |-> "badunderscore", s |-> "a_b"],              \* one invalid character each
  [c |-> "badspace", s |-> "a b"],
  [c |-> "badslash", s |-> "a/b"],
  [c |-> "badhash",  s |-> "a#b"],
  [c |-> "badpipe",  s |-> "a|b"],
  [c |-> "badquery", s |-> "a?b"],
  [c |-> "badcolon", s |-> "a:b"]
>>
VerPool == <<
  [c |-> "none",  s |-> ""],
  [c |-> "v1",    s |-> "1"],
  [c |-> "vmixed", s |-> "v2.0-rc"],
  [c |-> "vlen64", s |-> Id60 \o "v.64"],
  [c |-> "vlen65", s |-> Id60 \o "v.65x"],           \* invalid
  [c |-> "vbad",   s |-> "a_b"]                      \* invalid
>>
BasePool == <<
  [c |-> "none",     s |-> ""],
  [c |-> "http",     s |-> "http://example.org"],
  [c |-> "https",    s |-> "https://example.org/fhir"],
  [c |-> "port",     s |-> "http://localhost:8080/fhir"],
  [c |-> "nested",   s |-> "https://healthcare.googleapis.com/v1/projects/p1/locations/us-central1/datasets/d1/fhirStores/s1/fhir"],
  [c |-> "trailing", s |-> "http://example.org/fhir/"],
  [c |-> "typeinpath", s |-> "http://example.org/Patient"],
  [c |-> "restinpath", s |-> "https://10.0.0.1:8443/Patient/1"]
>>
UrnPool == <<
  [c |-> "uuid", s |-> "urn:uuid:5a17b7c2-e01c-4bc7-b973-31d4156b11d7"],
  [c |-> "uuidupper", s |-> "urn:uuid:5A17B7C2-E01C-4BC7-B973-31D4156B11D7"],
  [c |-> "oid",  s |-> "urn:oid:2.16.840.1.113883.4.642.3.1"],
  [c |-> "oidshort", s |-> "urn:oid:1.2"]
>>
CanonUrlPool == <<
  [c |-> "plain",  s |-> "http://example.org/fhir/Questionnaire/q1"],
  [c |-> "hl7",    s |-> "http://hl7.org/fhir/ValueSet/my-valueset"],
  [c |-> "notype", s |-> "https://example.org/profiles/thing"],
  [c |-> "urn",    s |-> "urn:oid:1.2.3"]
>>
CanonVerPool == <<
  [c |-> "none", s |-> ""], [c |-> "semver", s |-> "1.0.0"], [c |-> "date", s |-> "2024-01"], [c |-> "vlen64", s |-> Id60 \o "v.64"]
>>
CanonFragPool == <<
  [c |-> "none", s |-> ""], [c |-> "len1", s |-> "f"], [c |-> "mixed", s |-> "A1-b.2"], [c |-> "len64", s |-> Id60 \o "x.8Z"]
>>
RangeOf(seq) == {seq[i] : i \in 1..Len(seq)}
IdsOf(labels)   == {e \in RangeOf(IdPool) : e.c \in labels}
VersOf(labels)  == {e \in RangeOf(VerPool) : e.c \in labels}
BasesOf(labels) == {e \in RangeOf(BasePool) : e.c \in labels}

RestCase(t, i, v, b) == Case("rest", t, i.s, v.s, b.s, i.c, v.c, b.c, "")
RestCases(types, ids, vers, bases) == {RestCase(t, i, v, b) : t \in types, i \in ids, v \in vers, b \in bases}

(* the type after t in the generated list (cyclic) *)
NextType(t) == LET i == CHOOSE j \in 1..Len(R4TypeSeq) : R4TypeSeq[j] = t
               IN R4TypeSeq[(i % Len(R4TypeSeq)) + 1]

AllIdLabels  == {e.c : e \in RangeOf(IdPool)}
AllVerLabels == {e.c : e \in RangeOf(VerPool)}
AllBaseLabels == {e.c : e \in RangeOf(BasePool)}
DeepTypes == {"Patient", "MedicinalProductUndesirableEffect", "List", "Parameters", "Bundle", "CoverageEligibilityResponse"}

(* ------------------------------------------------------- case denotation *)
CompsOf(cs) ==
  CASE cs.kind = "rest"  -> Rest(cs.type, cs.base, cs.rid, cs.ver)
    [] cs.kind = "frag"  -> Frag(cs.rid)
    [] cs.kind = "urn"   -> NonRest(cs.rid)
    [] OTHER -> NonRest("")
TextOf(cs) ==
  CASE cs.kind \in {"rest", "frag", "urn"} -> Format(CompsOf(cs))
    [] cs.kind = "canon" -> CanonFormat(cs.base, cs.ver, cs.rid)
    [] cs.kind \in {"raw", "str"} -> cs.rid
    [] OTHER -> ""
RelOf(cs) == IF cs.kind = "rest" THEN RelText(CompsOf(cs)) ELSE TextOf(cs)
(* validity of type, id and version alone (the base does not matter for an  *)
(* identity or a typed reference)                                           *)
ValidIdentity(cs) == cs.type \in R4Types /\ IsId(cs.rid) /\ (cs.ver = "" \/ IsId(cs.ver))
ValidCase(cs) ==
  CASE cs.kind \in {"rest", "frag", "urn"} -> ValidComps(CompsOf(cs))
    [] cs.kind = "canon" -> WellFormedCanon(cs.base, cs.ver, cs.rid)
    [] OTHER -> FALSE

(* the references of a pool case: twelve with a literal part, eight around   *)
(* references WITHOUT one (logical, display-only, type-only, empty) and the   *)
(* combinations identifier + literal                                          *)
PoolRefX(shape, type, rid, ver, text, ident, display) ==
  [shape |-> shape, type |-> type, rid |-> rid, ver |-> ver, text |-> text, ident |-> ident, display |-> display]
PoolRef(shape, type, rid, ver, text) == PoolRefX(shape, type, rid, ver, text, "", "")
PoolRefs(cs) ==
  LET t == cs.type  t2 == cs.x  i == cs.rid  v == cs.ver
      rel == t \o "/" \o i
  IN << PoolRef("strong", t, i, "", ""),                                      \*  1
        PoolRef("weak",   t, "", "", rel),                                    \*  2
        PoolRef("weaknt", "", "", "", rel),                                   \*  3
        PoolRef("weak",   t, "", "", cs.base \o "/" \o rel),                  \*  4 absolute
        PoolRef("strong", t, i, v, ""),                                       \*  5
        PoolRef("weak",   t, "", "", rel \o "/_history/" \o v),               \*  6
        PoolRef("weak",   t, "", "", rel \o "/_history/" \o v \o "2"),        \*  7 another version
        PoolRef("strong", t, i \o "x", "", ""),                               \*  8 another id
        PoolRef("weak",   t2, "", "", t2 \o "/" \o i),                        \*  9 another type
        PoolRef("frag",   t, i, "", ""),                                      \* 10 contained
        PoolRef("weaknt", "", "", "", "#" \o i),                              \* 11 contained, as URI
        PoolRef("weak",   t, "", "", "urn:uuid:5a17b7c2-e01c-4bc7-b973-31d4156b11d7"),     \* 12
        PoolRefX("none",   t, "", "", "", "v1", ""),                           \* 13 logical: type + identifier
        PoolRefX("none",   t, "", "", "", "v1", "Jane Doe"),                   \* 14 logical, with a display
        PoolRefX("none",   t, "", "", "", "v2", ""),                           \* 15 another identifier
        PoolRefX("strong", t, i, "", "", "v1", ""),                            \* 16 identifier + typed literal
        PoolRefX("weak",   t, "", "", rel, "v1", ""),                          \* 17 identifier + URI literal
        PoolRefX("none",   "", "", "", "", "", "Jane Doe"),                    \* 18 display only
        PoolRefX("none",   t, "", "", "", "", ""),                             \* 19 type only
        PoolRefX("none",   "", "", "", "", "", "") >>                          \* 20 empty Reference

(* What the property fixes about a comparison: "T" the two references name  *)
(* the same resource with the same information; "F" they name different     *)
(* REST identities; "-" not fixed by the property (base URL ignored or not, *)
(* fragment vs REST, versioned vs unversioned, different logical            *)
(* identifiers, references without a literal part).  The equivalence laws   *)
(* are demanded of EVERY pair and triple regardless.                        *)
RequiredSameI(x, y) ==
  LET plain(r) == r.shape \in {"strong", "weak", "weaknt"}
  IN IF x.ref = y.ref THEN "T"
     ELSE IF ~(plain(x.ref) /\ plain(y.ref) /\ x.id.has /\ y.id.has) THEN "-"
     ELSE IF x.id.type # y.id.type \/ x.id.rid # y.id.rid THEN "F"
     ELSE IF x.id.ver # "" /\ y.id.ver # "" /\ x.id.ver # y.id.ver THEN "F"
     ELSE IF x.ref.ident # y.ref.ident THEN "-"
     ELSE IF x.id.ver = y.id.ver /\ x.base = y.base THEN "T"
     ELSE "-"
(* TLC does not memoise [i \in S |-> e]; `f \o <<>>` turns it into a tuple   *)
(* of values, so each entry is computed once.                                *)
Tup(f) == f \o <<>>
InfoSeq(refs) == Tup([i \in 1..Len(refs) |-> RefInfo(refs[i])])
RequiredMatrix(refs) ==
  LET D == 1..Len(refs)
      info == InfoSeq(refs)
  IN Tup([i \in D |-> Tup([j \in D |-> RequiredSameI(info[i], info[j])])])

(* The DENOTATION of a case: everything the oracle derives from the case by  *)
(* character-level work, computed once (by C19_MC when the case is           *)
(* generated; by the judge itself for the harness-made "raw" cases).         *)
(*   text, rel     the reference string and its relative part                *)
(*   want, relwant Parse(text), Parse(rel)                                   *)
(*   red           text has redundant slashes                                *)
(*   valid         components inside the property's domain of valid values   *)
(*   idvalid       type, id, version valid (base aside)                      *)
(*   baseStrict    base is "" or a strict base URL; baseSlashed: strict      *)
(*                 after trimming trailing slashes                           *)
(*   cwant         CanonParse(text)                                          *)
(*   refs, req     the references of a pool case and RequiredMatrix          *)
Denote(cs) ==
  LET text == TextOf(cs)
      rel  == RelOf(cs)
      want == Parse(text)
      canonKinds == {"canon", "empty", "raw", "str"}
  IN [text |-> text, rel |-> rel,
      want |-> want,
      relwant |-> IF rel = text THEN want ELSE Parse(rel),
      red |-> HasRedundantSlash(text),
      valid |-> ValidCase(cs),
      idvalid |-> IF cs.kind = "rest" THEN ValidIdentity(cs) ELSE FALSE,
      baseStrict |-> cs.kind = "rest" /\ (cs.base = "" \/ IsStrictBase(cs.base)),
      baseSlashed |-> cs.kind = "rest" /\ cs.base # "" /\ ~IsStrictBase(cs.base) /\ IsStrictBase(CanonBase(cs.base)),
      cwant |-> IF cs.kind \in canonKinds THEN CanonParse(text) ELSE CanonErr,
      refs |-> IF cs.kind = "pool" THEN PoolRefs(cs) ELSE <<>>,
      req  |-> IF cs.kind = "pool" THEN RequiredMatrix(PoolRefs(cs)) ELSE <<>>]

(* ------------------------------------------------------------- judgement *)
(* Observed probes (all fields always present):                            *)
(*  PLit [k, nforms, form, hasType, type, itype, base, rid, ver, frag, uri, str, uriv, prefer] *)
(*  PId  [k, type, rid, ver, str]     PStr [k, s]     PBool [k, b]          *)
(*  PCan [k, url, ver, frag, str]                                          *)
(*  k: "ok" | "err" | "panic" | "timeout" | "skip" (prerequisite missing)   *)
(* Every Checks* operator takes the observation o, the case cs and its      *)
(* denotation d, and returns a sequence of [name, problem] ("" = passed).   *)
Crashed(p) == p.k \in {"panic", "timeout"}
(* how a crashed probe appears in a signature: kind and innermost repository frame *)
CrashOf(p) == p.k \o "@" \o p.site
LitComps(p) ==
  CASE p.form = "rest" -> Rest(p.itype, p.base, p.rid, p.ver)      \* itype: the type inside the Identity
    [] p.form = "frag" -> Frag(p.frag)
    [] OTHER -> NonRest(p.uri)
(* the other accessors of a LiteralInfo agree with URIString and the identity *)
LitAccessorsOk(p) ==
  /\ p.uriv = p.str
  /\ p.prefer = (IF p.form = "rest" THEN RelText(LitComps(p)) ELSE "")
LitEq(p, c) ==
  /\ p.k = "ok" /\ p.nforms = 1 /\ p.form = c.form
  /\ LitComps(p) = c /\ LitAccessorsOk(p)
  /\ (c.form = "rest" => p.hasType /\ p.type = c.type)           \* type: LiteralInfo.Type()
SameLit(p, q) ==
  /\ p.k = "ok" /\ q.k = "ok" /\ p.form = q.form /\ LitComps(p) = LitComps(q)
  /\ p.hasType = q.hasType /\ p.type = q.type /\ p.str = q.str
IdEq(p, type, rid, ver) == p.k = "ok" /\ p.type = type /\ p.rid = rid /\ p.ver = ver
SameId(p, q) == p.k = "ok" /\ q.k = "ok" /\ p.type = q.type /\ p.rid = q.rid /\ p.ver = q.ver

(* an accepted string whose returned information re-formats to the input    *)
(* (canonical form) and re-parses to the same information                   *)
TextAgrees(str, text, red) == str = text \/ (red /\ Squeeze(str) = Squeeze(text))
LitConsistent(text, red, p1, p2) ==
  /\ p1.k = "ok" /\ p1.nforms = 1 /\ LitAccessorsOk(p1)
  /\ p1.str = Format(LitComps(p1))
  /\ TextAgrees(p1.str, text, red)
  /\ SameLit(p2, p1)

(* Judgement of parse(text) -> p1, parse(format(p1)) -> p2, where sp is the  *)
(* specification's Parse(text).  "" when permitted, else what is wrong.      *)
LitParseVerdict(text, sp, red, p1, p2) ==
  IF Crashed(p1) THEN CrashOf(p1)
  ELSE IF Crashed(p2) THEN "reparse-" \o CrashOf(p2)
  ELSE IF sp.k = "ok" /\ ~red THEN
     (IF p1.k # "ok" THEN "rejected-valid"
      ELSE IF ~LitEq(p1, sp.c) THEN "wrong-components"
      ELSE IF p1.str # text THEN "format-differs"
      ELSE IF ~SameLit(p2, p1) THEN "reparse-differs"
      ELSE "")
  ELSE IF sp.k = "ok" THEN      \* valid, with redundant slashes: canonical form
     (IF p1.k # "ok" THEN "rejected-valid"
      ELSE IF ~(p1.form = "rest" /\ p1.type = sp.c.type /\ p1.rid = sp.c.rid /\ p1.ver = sp.c.ver) THEN "wrong-components"
      ELSE IF ~LitConsistent(text, red, p1, p2) THEN "not-canonical"
      ELSE "")
  ELSE IF p1.k = "ok" THEN (IF LitConsistent(text, red, p1, p2) THEN "" ELSE "accepted-inconsistent")
  ELSE ""

(* an identity parser: parse(text) -> p, parse(format(p)) -> p2 *)
(* (p2.k = "skip": the parser's input form cannot be produced from an       *)
(* Identity - an absolute URL from an identity without a base - so only the *)
(* first parse is judged)                                                   *)
IdParseVerdict(p, p2, mustAccept, want) ==
  IF Crashed(p) THEN CrashOf(p)
  ELSE IF Crashed(p2) THEN "reparse-" \o CrashOf(p2)
  ELSE IF mustAccept THEN
     (IF p.k # "ok" THEN "rejected-valid"
      ELSE IF ~IdEq(p, want.type, want.rid, want.ver) THEN "wrong-components"
      ELSE IF p2.k # "skip" /\ ~SameId(p2, p) THEN "reparse-differs"
      ELSE "")
  ELSE IF p.k = "ok" THEN (IF p2.k = "skip" \/ SameId(p2, p) THEN "" ELSE "accepted-inconsistent")
  ELSE ""

CanEq(p, u, v, f) == p.k = "ok" /\ p.url = u /\ p.ver = v /\ p.frag = f
SameCan(p, q) == p.k = "ok" /\ q.k = "ok" /\ p.url = q.url /\ p.ver = q.ver /\ p.frag = q.frag /\ p.str = q.str
CanonParseVerdict(text, sp, p, p2) ==
  IF Crashed(p) THEN CrashOf(p)
  ELSE IF Crashed(p2) THEN "reparse-" \o CrashOf(p2)
  ELSE IF sp.k = "ok" THEN
     (IF p.k # "ok" THEN "rejected-valid"
      ELSE IF ~CanEq(p, sp.url, sp.ver, sp.frag) THEN "wrong-components"
      ELSE IF p.str # text THEN "reassembled-differs"
      ELSE IF ~SameCan(p2, p) THEN "reparse-differs"
      ELSE "")
  ELSE IF p.k = "ok" THEN
     (IF p.str # CanonFormat(p.url, p.ver, p.frag) THEN "accepted-inconsistent"
      ELSE IF p.str # text THEN "accepted-reassembles-differently"
      ELSE IF ~SameCan(p2, p) THEN "accepted-inconsistent"
      ELSE "")
  ELSE ""

(* FHIRPath read-back of a stored reference string *)
ReadBackVerdict(p, text) ==
  IF Crashed(p) THEN CrashOf(p)
  ELSE IF p.k = "skip" THEN ""
  ELSE IF p.k = "ok" /\ p.s = text THEN ""
  ELSE IF p.k = "empty" /\ text = "" THEN ""
  ELSE IF p.k = "ok" THEN "different-string"
  ELSE "no-string-" \o p.k

(* The class of a case in a signature.  Resource types are abstracted to "T" *)
(* except the types named in OutsideFhirRestRegex: the REST URL regular      *)
(* expression published in the FHIR specification (references.html#literal)  *)
(* omits them, implementations that copy it treat them differently, and a    *)
(* finding about them must not be confused with a finding about every type.  *)
OutsideFhirRestRegex == {"Parameters"}
TypeClass(t) == IF t \in OutsideFhirRestRegex THEN t ELSE "T"
(* version and base-URL labels are coarsened (a broken tree would otherwise   *)
(* print a thousand signatures per failed check); the replay file has it all *)
VerClass(l)  == IF l = "none" THEN "none" ELSE IF l \in {"vlen65", "vbad"} THEN "vbad" ELSE "v"
BaseClass(l) == IF l = "none" THEN "rel" ELSE IF l = "trailing" THEN "slashed" ELSE "abs"
CaseClass(cs, d) ==
  CASE cs.kind = "rest"  -> "rest:" \o TypeClass(cs.type) \o ":" \o cs.ridc \o "," \o VerClass(cs.verc) \o "," \o BaseClass(cs.basec)
    [] cs.kind = "frag"  -> "frag:" \o cs.ridc
    [] cs.kind = "urn"   -> "urn:" \o cs.ridc
    [] cs.kind = "canon" -> "canon:" \o (IF cs.type = "" THEN "" ELSE TypeClass(cs.type) \o ":") \o cs.basec \o "," \o cs.verc \o "," \o cs.ridc
    [] cs.kind = "raw"   -> "raw:" \o cs.x
                            \o (IF d.want.k = "ok" /\ d.want.c.form = "rest" THEN ":" \o TypeClass(d.want.c.type) ELSE "")
                            \o (IF d.text = "" THEN ":empty" ELSE IF Ch(d.text, 1) \in {"#", "|"} THEN ":nourl"
                                ELSE IF StartsWith(d.text, "http:///") \/ StartsWith(d.text, "https:///") THEN ":noauthority"
                                ELSE IF EndsWith(d.text, "/_history/") THEN ":emptyversion" ELSE "")
    [] cs.kind = "pool"  -> "pool:" \o TypeClass(cs.type) \o "," \o TypeClass(cs.x)
    [] OTHER -> cs.kind

Chk(name, problem) == [name |-> name, problem |-> problem]

(* ---- "litparse": LiteralInfoFromURI(text), URIString, re-parse ----------- *)
ChecksLitParse(o, cs, d) == << Chk("p1", LitParseVerdict(d.text, d.want, d.red, o.p1, o.p2)) >>

(* ---- "identity": resource.NewIdentity and the Identity formatters,         *)
(*      resource.NewIdentityFromURL / NewIdentityFromHistoryURL of the text   *)
ChecksIdentity(o, cs, d) ==
  LET valid == d.idvalid
      rel == d.rel
      unv == cs.type \o "/" \o cs.rid
      n == o.new
      fmtOk == /\ n.str = rel /\ n.relstr = unv /\ n.prefer = rel
               /\ n.relverok = (cs.ver # "") /\ (cs.ver # "" => n.relver = rel)
               /\ n.veridok = (cs.ver # "")
               /\ n.unvers = unv /\ n.withver = unv \o "/_history/9"
               /\ n.equalSelf /\ ~n.equalOther
      absValid == d.valid
  IN << Chk("new", IF Crashed(n) THEN CrashOf(n)
                   ELSE IF valid /\ n.k # "ok" THEN "rejected-valid"
                   ELSE IF n.k = "ok" /\ ~IdEq(n, cs.type, cs.rid, cs.ver) THEN "wrong-components"
                   ELSE ""),
        Chk("format", IF n.k = "ok" /\ ~fmtOk THEN "format-differs" ELSE ""),
        Chk("fromURL",
            LET p == o.fromURL IN
            IF Crashed(p) THEN CrashOf(p)
            ELSE IF absValid /\ cs.ver = "" /\ p.k # "ok" THEN "rejected-valid"
            ELSE IF p.k = "ok" /\ ~(IdEq(p, cs.type, cs.rid, "") \/ IdEq(p, cs.type, cs.rid, cs.ver)) THEN "wrong-components"
            ELSE ""),
        Chk("fromHist",
            LET p == o.fromHist IN
            IF Crashed(p) THEN CrashOf(p)
            ELSE IF absValid /\ cs.ver # "" /\ cs.base # "" /\ p.k # "ok" THEN "rejected-valid"
            ELSE IF p.k = "ok" /\ ~IdEq(p, cs.type, cs.rid, cs.ver) THEN "wrong-components"
            ELSE "") >>

(* ---- "litfmt": typed reference -> LiteralInfoOf ->                         *)
(*      WithServiceBaseURL(base) -> URIString                                 *)
ChecksLitFmt(o, cs, d) ==
  LET c == CompsOf(cs)
      valid == d.idvalid
      c0 == Rest(cs.type, "", cs.rid, cs.ver)
      rel == d.rel
      s == o.sref
      l == o.lit
      w == o.withBase
  IN << Chk("strong", IF Crashed(s) THEN CrashOf(s)
                      ELSE IF valid /\ s.k # "ok" THEN "rejected-valid"
                      ELSE IF s.k = "ok" /\ ~(s.type = cs.type /\ s.rid = cs.rid /\ s.hist = cs.ver) THEN "wrong-components"
                      ELSE ""),
        Chk("lit", IF Crashed(l) THEN CrashOf(l)
                   ELSE IF valid /\ s.k = "ok" /\ l.k # "ok" THEN "rejected-valid"
                   ELSE IF l.k = "ok" /\ ~(LitEq(l, c0) /\ l.str = rel) THEN "wrong-components"
                   ELSE ""),
        Chk("withBase", IF Crashed(w) THEN CrashOf(w)
                   ELSE IF valid /\ l.k = "ok" /\ d.baseStrict /\ w.k # "ok" THEN "rejected-valid"
                   ELSE IF w.k = "ok" /\ d.baseStrict /\ ~(LitEq(w, c) /\ w.str = d.text) THEN "wrong-components"
                   ELSE IF w.k = "ok" /\ d.baseSlashed
                           /\ ~(/\ w.form = "rest" /\ w.type = cs.type /\ w.rid = cs.rid /\ w.ver = cs.ver
                                /\ w.base \in {cs.base, CanonBase(cs.base)}                  \* canonical form or as given
                                /\ w.str \in {cs.base \o "/" \o rel, CanonBase(cs.base) \o "/" \o rel}) THEN "wrong-components"
                   ELSE "") >>

(* ---- "identurl": reference.IdentityFromURL / FromAbsoluteURL /             *)
(*      FromRelativeURI                                                       *)
ChecksIdentURL(o, cs, d) ==
  LET sp == d.want
      isRest == sp.k = "ok" /\ sp.c.form = "rest"
      rp == d.relwant
      relRest == rp.k = "ok" /\ rp.c.form = "rest" /\ rp.c.base = ""
      relv == IdParseVerdict(o.rel, o.rel2, relRest, rp.c)
  IN << Chk("url", IdParseVerdict(o.url, o.url2, isRest, sp.c)),
        Chk("abs", IdParseVerdict(o.abs, o.abs2, isRest /\ sp.c.base # "", sp.c)),
        (* a relative URI carries every component of the identity, so what is accepted formats back to the input *)
        Chk("rel", IF relv # "" THEN relv
                   ELSE IF o.rel.k = "ok" /\ ~TextAgrees(o.rel.str, d.rel, HasRedundantSlash(d.rel)) THEN "accepted-formats-differently"
                   ELSE ""),
        (* resource.NewIdentityFromURL reads the last Type/id of any URL (unversioned); an absolute history URL is *)
        (* read by resource.NewIdentityFromHistoryURL                                                                *)
        Chk("rurl", IF isRest /\ sp.c.ver = "" THEN IdParseVerdict(o.rurl, o.rurl2, TRUE, sp.c)
                    ELSE IF Crashed(o.rurl) THEN CrashOf(o.rurl) ELSE IF Crashed(o.rurl2) THEN "reparse-" \o CrashOf(o.rurl2)
                    ELSE IF o.rurl.k = "ok" /\ ~SameId(o.rurl2, o.rurl) THEN "accepted-inconsistent" ELSE ""),
        Chk("rhist", IF Crashed(o.rhist) THEN CrashOf(o.rhist)
                     ELSE IF isRest /\ sp.c.ver # "" /\ sp.c.base # "" /\ ~d.red /\ o.rhist.k # "ok" THEN "rejected-valid"
                     ELSE IF isRest /\ o.rhist.k = "ok" /\ ~IdEq(o.rhist, sp.c.type, sp.c.rid, sp.c.ver) THEN "wrong-components"
                     ELSE "") >>

(* ---- "strongweak": Typed / TypedFromIdentity vs Weak ---------------------- *)
ChecksStrongWeak(o, cs, d) ==
  LET valid == d.idvalid
      c0 == Rest(cs.type, "", cs.rid, cs.ver)
      rel == d.rel
      weakValid == d.relwant.k = "ok"
      probes == <<o.slit, o.wlit, o.nlit, o.sid, o.wid, o.isSW, o.isWS, o.isSS, o.isWW, o.isSN, o.isNS>>
      crashed == {CrashOf(probes[i]) : i \in {j \in 1..Len(probes) : Crashed(probes[j])}}
      built == o.slit.k # "skip"       \* a typed reference exists (litfmt judges whether it must)
  IN << Chk("crash", IF crashed = {} THEN "" ELSE CHOOSE k \in crashed : TRUE),
        Chk("strong-info", IF valid /\ built /\ ~(LitEq(o.slit, c0) /\ o.slit.str = rel)
                           THEN (IF o.slit.k # "ok" THEN "rejected-valid" ELSE "wrong-components") ELSE ""),
        Chk("weak-info", IF valid /\ weakValid /\ ~(LitEq(o.wlit, c0) /\ o.wlit.str = rel /\ LitEq(o.nlit, c0) /\ o.nlit.str = rel)
                         THEN (IF o.wlit.k # "ok" \/ o.nlit.k # "ok" THEN "rejected-valid" ELSE "wrong-components") ELSE ""),
        Chk("equal-info", IF valid /\ o.slit.k = "ok" /\ o.wlit.k = "ok" /\ ~SameLit(o.slit, o.wlit) THEN "strong-weak-differ" ELSE ""),
        Chk("identity", IF valid /\ built /\ weakValid /\ ~(IdEq(o.sid, cs.type, cs.rid, cs.ver) /\ IdEq(o.wid, cs.type, cs.rid, cs.ver))
                        THEN (IF o.sid.k # "ok" \/ o.wid.k # "ok" THEN "rejected-valid" ELSE "wrong-components") ELSE ""),
        Chk("is", IF valid /\ built /\ weakValid /\ ~(o.isSW.b /\ o.isWS.b /\ o.isSN.b /\ o.isNS.b) THEN "not-same" ELSE ""),
        Chk("is-reflexive", IF (o.isSS.k = "ok" /\ ~o.isSS.b) \/ (o.isWW.k = "ok" /\ ~o.isWW.b) THEN "not-reflexive" ELSE ""),
        Chk("is-symmetric", IF o.isSW.k = "ok" /\ o.isWS.k = "ok" /\ o.isSW.b # o.isWS.b THEN "not-symmetric"
                            ELSE IF o.isSD.k = "ok" /\ o.isDS.k = "ok" /\ o.isSD.b # o.isDS.b THEN "not-symmetric-vs-literal-less"
                            ELSE IF Crashed(o.isSD) THEN CrashOf(o.isSD) ELSE IF Crashed(o.isDS) THEN CrashOf(o.isDS) ELSE "") >>

(* ---- "readback": FHIRPath `reference` of the typed reference, of the URI   *)
(*      reference and of the JSON-parsed reference                            *)
ChecksReadBack(o, cs, d) ==
  << Chk("strong", ReadBackVerdict(o.fs, d.rel)),       \* "skip" when no typed reference could be built (judged by litfmt)
     Chk("weak", ReadBackVerdict(o.fw, d.text)),
     Chk("weak-rel", ReadBackVerdict(o.fr, d.rel)),
     Chk("json", ReadBackVerdict(o.fj, d.text)),
     Chk("json-present", IF d.valid /\ o.fj.k = "skip" /\ d.text # "" THEN "json-not-parsed" ELSE "") >>

(* ---- "fragref": Reference.fragment vs Reference.uri "#id" ---------------- *)
ChecksFragRef(o, cs, d) ==
  LET valid == d.valid
      c == Frag(cs.rid)
      text == d.text
      typed(p) == LitEq(p, c) /\ p.hasType /\ p.type = cs.type /\ p.str = text
      untyped(p) == LitEq(p, c) /\ ~p.hasType /\ p.str = text
      lits == <<o.flit, o.ulit, o.nlit>>
      crashed == {CrashOf(lits[i]) : i \in {j \in 1..3 : Crashed(lits[j])}}
      one(p, good) == IF valid /\ ~good THEN (IF p.k # "ok" THEN "rejected-valid" ELSE "wrong-components")
                      ELSE IF ~valid /\ p.k = "ok" /\ ~good THEN "accepted-inconsistent" ELSE ""
  IN << Chk("crash", IF crashed = {} THEN "" ELSE CHOOSE k \in crashed : TRUE),
        Chk("fragment", one(o.flit, typed(o.flit))),
        Chk("uri", one(o.ulit, typed(o.ulit))),
        Chk("uri-notype", one(o.nlit, untyped(o.nlit))),
        Chk("equal-info", IF o.flit.k = "ok" /\ o.ulit.k = "ok" /\ ~SameLit(o.flit, o.ulit) THEN "fragment-uri-differ" ELSE ""),
        (* IdentityOf of a typed fragment reference: an error, or the fragment's own components *)
        Chk("identity", IF Crashed(o.fid) THEN CrashOf(o.fid) ELSE IF Crashed(o.uid) THEN CrashOf(o.uid)
                        ELSE IF o.fid.k = "ok" /\ ~IdEq(o.fid, cs.type, cs.rid, "") THEN "wrong-components"
                        ELSE IF o.uid.k = "ok" /\ ~IdEq(o.uid, cs.type, cs.rid, "") THEN "wrong-components" ELSE ""),
        Chk("is-reflexive", IF Crashed(o.isFF) \/ Crashed(o.isUU) \/ ~o.isFF.b \/ ~o.isUU.b THEN "not-reflexive" ELSE ""),
        Chk("is-symmetric", IF Crashed(o.isFU) \/ Crashed(o.isUF) \/ o.isFU.b # o.isUF.b THEN "not-symmetric" ELSE "") >>

(* ---- "weakref": a URN (or any text) in a URI reference -------------------- *)
ChecksWeakRef(o, cs, d) ==
  LET text == d.text
      sp == d.want
      w == o.wlit
  IN << Chk("weak-info", IF Crashed(w) THEN CrashOf(w)
                         ELSE IF sp.k = "ok" /\ ~d.red /\ w.k # "ok" THEN "rejected-valid"
                         ELSE IF sp.k = "ok" /\ ~d.red /\ ~(LitEq(w, sp.c) /\ w.str = text) THEN "wrong-components"
                         ELSE IF w.k = "ok" /\ ~(w.str = Format(LitComps(w)) /\ TextAgrees(w.str, text, d.red)) THEN "accepted-inconsistent"
                         ELSE ""),
        Chk("identity", IF Crashed(o.wid) THEN CrashOf(o.wid) ELSE ""),
        Chk("is-reflexive", IF Crashed(o.isWW) THEN CrashOf(o.isWW) ELSE IF ~o.isWW.b THEN "not-reflexive" ELSE ""),
        (* against a reference without a literal part (display only), in both argument orders *)
        Chk("is-symmetric", IF Crashed(o.isWD) THEN CrashOf(o.isWD) ELSE IF Crashed(o.isDW) THEN CrashOf(o.isDW)
                            ELSE IF o.isWD.b # o.isDW.b THEN "not-symmetric" ELSE "") >>

(* ---- "canon": canonical.New, IdentityFromReference,                        *)
(*      CanonicalIdentity.String, resource.NewCanonicalIdentity               *)
ChecksCanon(o, cs, d) ==
  LET text == d.text
      built == cs.kind = "canon"
  IN << Chk("parse", CanonParseVerdict(text, d.cwant, o.parsed, o.reparsed)),
        Chk("new", IF ~built THEN "" ELSE IF Crashed(o.made) THEN CrashOf(o.made)
                   ELSE IF o.made.k # "ok" THEN "no-string" ELSE IF o.made.s # text THEN "format-differs" ELSE ""),
        Chk("ctor", IF ~built THEN "" ELSE IF Crashed(o.ctor) THEN CrashOf(o.ctor)
                    ELSE IF cs.base # "" /\ o.ctor.k # "ok" THEN "rejected-valid"
                    ELSE IF o.ctor.k = "ok" /\ ~(CanEq(o.ctor, cs.base, cs.ver, cs.rid) /\ o.ctor.str = text) THEN "wrong-components"
                    ELSE ""),
        (* a canonical resource with this url, version and id: FromResource, VersionedFromResource, *)
        (* FragmentFromResource, canonical.IdentityOf                                                *)
        Chk("resource", IF ~built THEN ""
                    ELSE IF Crashed(o.fromRes) THEN CrashOf(o.fromRes) ELSE IF Crashed(o.verRes) THEN CrashOf(o.verRes)
                    ELSE IF Crashed(o.fragRes) THEN CrashOf(o.fragRes) ELSE IF Crashed(o.idRes) THEN CrashOf(o.idRes)
                    ELSE IF o.fromRes.k # "ok" \/ o.verRes.k # "ok" \/ o.fragRes.k # "ok" THEN "no-string"
                    ELSE IF o.fromRes.s # cs.base \/ o.verRes.s # CanonFormat(cs.base, cs.ver, "")
                            \/ o.fragRes.s # CanonFormat(cs.base, "", cs.rid) THEN "format-differs"
                    ELSE IF cs.base # "" /\ ~(CanEq(o.idRes, cs.base, cs.ver, "") /\ o.idRes.str = CanonFormat(cs.base, cs.ver, "")) THEN "wrong-components"
                    ELSE "") >>

(* ---- "fromres": a resource of the type with this id and meta.versionId:    *)
(*      resource.IdentityOf / URIString / VersionedURIString,                  *)
(*      reference.TypedFromResource / WeakRelativeVersioned                    *)
ChecksFromRes(o, cs, d) ==
  LET unv == cs.type \o "/" \o cs.rid
      t == o.typed
      w == o.weakv
  IN << Chk("identity", IF Crashed(o.ident) THEN CrashOf(o.ident)
                        ELSE IF ~IdEq(o.ident, cs.type, cs.rid, cs.ver) THEN (IF o.ident.k # "ok" THEN "rejected-valid" ELSE "wrong-components")
                        ELSE IF o.ident.str # d.rel THEN "format-differs" ELSE ""),
        Chk("uri", IF Crashed(o.strs) THEN CrashOf(o.strs)
                   ELSE IF o.strs.uri # unv \/ o.strs.vok # (cs.ver # "") \/ (cs.ver # "" /\ o.strs.vuri # d.rel) THEN "format-differs" ELSE ""),
        Chk("typed", IF Crashed(t) THEN CrashOf(t)
                     ELSE IF d.idvalid /\ t.k # "ok" THEN "rejected-valid"
                     ELSE IF t.k = "ok" /\ ~(t.shape = "typed" /\ t.type = cs.type /\ t.rid = cs.rid /\ t.hist = "" /\ t.tfield = cs.type) THEN "wrong-components"
                     ELSE ""),
        Chk("weak-versioned", IF Crashed(w) THEN CrashOf(w)
                     ELSE IF d.idvalid /\ cs.ver # "" /\ w.k # "ok" THEN "rejected-valid"
                     ELSE IF w.k = "ok" /\ ~(cs.ver # "" /\ w.shape = "uri" /\ w.uri = d.rel /\ w.tfield = cs.type) THEN "wrong-components"
                     ELSE "") >>

(* ---- "isrel": reference.Is on all pairs of the twelve references ---------- *)
(* m[i][j] is "T", "F" or "P" (panic / timeout)                               *)
ChecksIsRel(o, cs, d) ==
  LET n == Len(d.refs)
      m == o.m
      D == 1..n
      wellFormed == Len(m) = n /\ \A i \in D : Len(m[i]) = n
      T(i, j) == m[i][j] = "T"
      req == d.req
  IN IF ~wellFormed THEN << Chk("matrix", "malformed") >>
     ELSE
     << Chk("crash", IF \E i, j \in D : m[i][j] \notin {"T", "F"} THEN "panic" ELSE ""),
        Chk("reflexive", IF \E i \in D : ~T(i, i) THEN "not-reflexive" ELSE ""),
        Chk("symmetric", IF \E i, j \in D : T(i, j) # T(j, i) THEN "not-symmetric" ELSE ""),
        Chk("transitive", IF \E i, j, l \in D : T(i, j) /\ T(j, l) /\ ~T(i, l) THEN "not-transitive" ELSE ""),
        Chk("same", IF \E i, j \in D : req[i][j] = "T" /\ ~T(i, j) THEN "same-resource-not-same" ELSE ""),
        Chk("different", IF \E i, j \in D : req[i][j] = "F" /\ T(i, j) THEN "different-resources-same" ELSE "") >>

(* ---- "raw": every parser on one byte-mutated neighbour (one record, one    *)
(*      Parse); the canonical check comes last                                *)
ChecksRaw(o, cs, d) ==
  ChecksLitParse(o, cs, d) \o ChecksIdentURL(o, cs, d) \o ChecksWeakRef(o, cs, d)
  \o << Chk("weak", ReadBackVerdict(o.fw, d.text)), Chk("json", ReadBackVerdict(o.fj, d.text)) >>
  \o ChecksCanon(o, cs, d)

AspectsOf(kind) ==
  CASE kind = "rest"  -> {"identity", "litfmt", "litparse", "identurl", "strongweak", "readback", "fromres"}
    [] kind = "frag"  -> {"litparse", "identurl", "fragref", "readback"}
    [] kind = "urn"   -> {"litparse", "identurl", "weakref", "readback"}
    [] kind = "canon" -> {"canon", "litparse"}
    [] kind = "empty" -> {"litparse", "identurl", "canon", "weakref", "readback"}
    [] kind = "raw"   -> {"raw"}
    [] kind = "pool"  -> {"isrel"}
    [] OTHER -> {}

ChecksOf(o, cs, d) ==
  CASE o.aspect = "litparse"   -> ChecksLitParse(o, cs, d)
    [] o.aspect = "identity"   -> ChecksIdentity(o, cs, d)
    [] o.aspect = "litfmt"     -> ChecksLitFmt(o, cs, d)
    [] o.aspect = "identurl"   -> ChecksIdentURL(o, cs, d)
    [] o.aspect = "strongweak" -> ChecksStrongWeak(o, cs, d)
    [] o.aspect = "readback"   -> ChecksReadBack(o, cs, d)
    [] o.aspect = "fragref"    -> ChecksFragRef(o, cs, d)
    [] o.aspect = "weakref"    -> ChecksWeakRef(o, cs, d)
    [] o.aspect = "canon"      -> ChecksCanon(o, cs, d)
    [] o.aspect = "isrel"      -> ChecksIsRel(o, cs, d)
    [] o.aspect = "fromres"    -> ChecksFromRes(o, cs, d)
    [] o.aspect = "raw"        -> ChecksRaw(o, cs, d)
    [] OTHER -> << Chk("aspect", "malformed") >>

CaseId(cs) ==
  cs.kind \o "/" \o cs.type \o "/" \o cs.ridc \o "/" \o cs.verc \o "/" \o cs.basec

(* the case as C19_MC emits it: the harness reads the components, the judge  *)
(* reads the denotation den                                                   *)
CaseJson(cs, d) ==
  [id |-> CaseId(cs), kind |-> cs.kind, type |-> cs.type, rid |-> cs.rid, ver |-> cs.ver, base |-> cs.base,
   ridc |-> cs.ridc, verc |-> cs.verc, basec |-> cs.basec, x |-> cs.x,
   den |-> d]
=============================================================================
