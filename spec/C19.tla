-------------------------------- MODULE C19 --------------------------------
(***************************************************************************)
(* Property C19: reference and identity parsing and formatting are mutual  *)
(* inverses.  This module is the case space (pools of the quantifier) and  *)
(* the oracle: what the property permits for every observed probe.         *)
(* C19_MC explores the case space, checks the laws and emits the cases;     *)
(* C19_Judge judges observations of the real code.                          *)
(*                                                                         *)
(* A case is one record shape for every kind (unused fields are ""/0):      *)
(*   kind "rest"  : type, rid, ver, base          REST reference            *)
(*   kind "frag"  : type, rid                     "#rid" (rid "" is "#")    *)
(*   kind "urn"   : type, rid = the URN                                     *)
(*   kind "canon" : base = url, ver, rid = fragment   url|ver#fragment      *)
(*   kind "empty" :                               the empty string          *)
(*   kind "pool"  : type, x = second type         12 references for Is      *)
(*   kind "raw"   : rid = the text (produced by the harness: byte-mutated   *)
(*                  neighbours), x = mutation operator                      *)
(*   kinds "str", "triple": law instances used only by the model check      *)
(* ridc / verc / basec are the class labels of the pool entries (they make  *)
(* the case id and the signature class).                                    *)
(***************************************************************************)
EXTENDS FPReference

Case(kind, type, rid, ver, base, ridc, verc, basec, x) ==
  [kind |-> kind, type |-> type, rid |-> rid, ver |-> ver, base |-> base,
   ridc |-> ridc, verc |-> verc, basec |-> basec, x |-> x]

RECURSIVE Rep(_, _)
Rep(s, n) == IF n = 0 THEN "" ELSE s \o Rep(s, n - 1)

(* ----------------------------------------------------------------- pools *)
Id60 == Rep("a1B2-c3.D4", 6)
IdPool == <<
  [c |-> "len1",   s |-> "7"],
  [c |-> "len2",   s |-> "a1"],
  [c |-> "len63",  s |-> Id60 \o "x.8"],
  [c |-> "len64",  s |-> Id60 \o "x.8Z"],
  [c |-> "len65",  s |-> Id60 \o "x.8Zq"],           \* invalid length
  [c |-> "len0",   s |-> ""],                        \* invalid length
  [c |-> "upper",  s |-> "ABCXYZ"],
  [c |-> "lower",  s |-> "abcxyz"],
  [c |-> "digits", s |-> "0123456789"],
  [c |-> "hyphen", s |-> "a-b"],
  [c |-> "onlyhyphen", s |-> "-"],
  [c |-> "dot",    s |-> "a.b"],
  [c |-> "onlydot", s |-> "."],
  [c |-> "dotdot", s |-> ".."],
  [c |-> "mixed",  s |-> "A1-b.2"],
  [c |-> "uuid",   s |-> "5a17b7c2-e01c-4bc7-b973-31d4156b11d7"],
  [c |-> "word",   s |-> "history"],
  [c |-> "typename", s |-> "Patient"],
  [c |-> "badunderscore", s |-> "a_b"],              \* one invalid character each
  [c |-> "badspace", s |-> "a b"],
  [c |-> "badslash", s |-> "a/b"],
  [c |-> "badhash",  s |-> "a#b"],
  [c |-> "badpipe",  s |-> "a|b"],
  [c |-> "badquery", s |-> "a?b"],
  [c |-> "badcolon", s |-> "a:b"]
>>
VerPool == <<
  [c |-> "none",  s |-> ""],
  [c |-> "v1",    s |-> "1"],
  [c |-> "vmixed", s |-> "v2.0-rc"],
  [c |-> "vlen64", s |-> Id60 \o "v.64"],
  [c |-> "vlen65", s |-> Id60 \o "v.65x"],           \* invalid
  [c |-> "vbad",   s |-> "a_b"]                      \* invalid
>>
BasePool == <<
  [c |-> "none",     s |-> ""],
  [c |-> "http",     s |-> "http://example.org"],
  [c |-> "https",    s |-> "https://example.org/fhir"],
  [c |-> "port",     s |-> "http://localhost:8080/fhir"],
  [c |-> "nested",   s |-> "https://healthcare.googleapis.com/v1/projects/p1/locations/us-central1/datasets/d1/fhirStores/s1/fhir"],
  [c |-> "trailing", s |-> "http://example.org/fhir/"],
  [c |-> "typeinpath", s |-> "http://example.org/Patient"],
  [c |-> "restinpath", s |-> "https://10.0.0.1:8443/Patient/1"]
>>
UrnPool == <<
  [c |-> "uuid", s |-> "urn:uuid:5a17b7c2-e01c-4bc7-b973-31d4156b11d7"],
  [c |-> "uuidupper", s |-> "urn:uuid:5A17B7C2-E01C-4BC7-B973-31D4156B11D7"],
  [c |-> "oid",  s |-> "urn:oid:2.16.840.1.113883.4.642.3.1"],
  [c |-> "oidshort", s |-> "urn:oid:1.2"]
>>
CanonUrlPool == <<
  [c |-> "plain",  s |-> "http://example.org/fhir/Questionnaire/q1"],
  [c |-> "hl7",    s |-> "http://hl7.org/fhir/ValueSet/my-valueset"],
  [c |-> "notype", s |-> "https://example.org/profiles/thing"],
  [c |-> "urn",    s |-> "urn:oid:1.2.3"]
>>
CanonVerPool == <<
  [c |-> "none", s |-> ""], [c |-> "semver", s |-> "1.0.0"], [c |-> "date", s |-> "2024-01"], [c |-> "vlen64", s |-> Id60 \o "v.64"]
>>
CanonFragPool == <<
  [c |-> "none", s |-> ""], [c |-> "len1", s |-> "f"], [c |-> "mixed", s |-> "A1-b.2"], [c |-> "len64", s |-> Id60 \o "x.8Z"]
>>
RangeOf(seq) == {seq[i] : i \in 1..Len(seq)}
IdsOf(labels)   == {e \in RangeOf(IdPool) : e.c \in labels}
VersOf(labels)  == {e \in RangeOf(VerPool) : e.c \in labels}
BasesOf(labels) == {e \in RangeOf(BasePool) : e.c \in labels}

RestCase(t, i, v, b) == Case("rest", t, i.s, v.s, b.s, i.c, v.c, b.c, "")
RestCases(types, ids, vers, bases) == {RestCase(t, i, v, b) : t \in types, i \in ids, v \in vers, b \in bases}

(* the type after t in the generated list (cyclic) *)
NextType(t) == LET i == CHOOSE j \in 1..Len(R4TypeSeq) : R4TypeSeq[j] = t
               IN R4TypeSeq[(i % Len(R4TypeSeq)) + 1]

AllIdLabels  == {e.c : e \in RangeOf(IdPool)}
AllVerLabels == {e.c : e \in RangeOf(VerPool)}
AllBaseLabels == {e.c : e \in RangeOf(BasePool)}
DeepTypes == {"Patient", "MedicinalProductUndesirableEffect", "List", "Parameters", "Bundle", "CoverageEligibilityResponse"}

(* quick: per type a covering selection (every id class; every base; every  *)
(* version class), the full product for Patient only                        *)
QuickRest ==
  RestCases(R4Types, IdsOf(AllIdLabels), VersOf({"none"}), BasesOf({"none"}))
  \cup RestCases(R4Types, IdsOf({"len1", "len64", "mixed"}), VersOf(AllVerLabels \ {"none"}), BasesOf({"none"}))
  \cup RestCases(R4Types, IdsOf({"mixed"}), VersOf({"none", "v1"}), BasesOf(AllBaseLabels \ {"none"}))
  \cup RestCases(R4Types, IdsOf({"len64", "len65", "onlydot"}), VersOf({"vmixed"}), BasesOf({"nested", "trailing"}))
  \cup RestCases({"Patient"}, IdsOf(AllIdLabels), VersOf(AllVerLabels), BasesOf(AllBaseLabels))
ThoroughRest ==
  RestCases(R4Types, IdsOf(AllIdLabels), VersOf({"none", "v1", "vlen64"}), BasesOf({"none", "https", "nested", "trailing"}))
  \cup RestCases(R4Types, IdsOf({"len1", "len64", "mixed", "onlydot"}), VersOf(AllVerLabels), BasesOf(AllBaseLabels))
  \cup RestCases(DeepTypes, IdsOf(AllIdLabels), VersOf(AllVerLabels), BasesOf(AllBaseLabels))

FragCases(types, ids) == {Case("frag", t, i.s, "", "", i.c, "", "", "") : t \in types, i \in ids}
                         \cup {Case("frag", t, "", "", "", "bare", "", "", "") : t \in types}
UrnCases(types) == {Case("urn", t, u.s, "", "", u.c, "", "", "") : t \in types, u \in RangeOf(UrnPool)}
CanonCases(urls, vers, frags) == {Case("canon", "", f.s, v.s, u.s, f.c, v.c, u.c, "") : u \in urls, v \in vers, f \in frags}
(* canonical URLs that embed each resource type *)
TypeCanonCases(types) ==
  {Case("canon", t, f.s, v.s, "http://example.org/fhir/" \o t \o "/c1", f.c, v.c, "typed", "")
     : t \in types, v \in {e \in RangeOf(CanonVerPool) : e.c \in {"none", "semver"}}, f \in {e \in RangeOf(CanonFragPool) : e.c \in {"none", "mixed"}}}
(* not well-formed canonicals: rejected with an error, or accepted consistently *)
BadCanonCases ==
  {Case("canon", "", f.s, v.s, u.s, f.c, v.c, u.c, "") :
     u \in {[c |-> "emptyurl", s |-> ""]} \cup {e \in RangeOf(CanonUrlPool) : e.c = "plain"},
     v \in {[c |-> "none", s |-> ""], [c |-> "semver", s |-> "1.0.0"], [c |-> "vspace", s |-> "1.0 beta"], [c |-> "vplus", s |-> "1.0.0+b7"]},
     f \in {[c |-> "none", s |-> ""], [c |-> "mixed", s |-> "A1-b.2"], [c |-> "len65", s |-> Id60 \o "x.8Zq"], [c |-> "badspace", s |-> "a b"]}}
EmptyCase == Case("empty", "Patient", "", "", "", "", "", "", "")
PoolCases(types) == {Case("pool", t, "A1-b.2", "1", "http://example.org/fhir", "mixed", "v1", "https", NextType(t)) : t \in types}

QuickCases ==
  QuickRest
  \cup FragCases(R4Types, IdsOf({"len1", "len64", "mixed", "len65", "badunderscore"}))
  \cup FragCases({"Patient"}, IdsOf(AllIdLabels))
  \cup UrnCases({"Patient", "Parameters"}) \cup UrnCases(R4Types)
  \cup CanonCases(RangeOf(CanonUrlPool), RangeOf(CanonVerPool), RangeOf(CanonFragPool))
  \cup TypeCanonCases(R4Types) \cup BadCanonCases
  \cup {EmptyCase} \cup PoolCases(R4Types)
ThoroughCases ==
  ThoroughRest
  \cup FragCases(R4Types, IdsOf(AllIdLabels))
  \cup UrnCases(R4Types)
  \cup CanonCases(RangeOf(CanonUrlPool), RangeOf(CanonVerPool), RangeOf(CanonFragPool))
  \cup TypeCanonCases(R4Types) \cup BadCanonCases
  \cup {EmptyCase} \cup PoolCases(R4Types)

(* ------------------------------------------------------- case denotation *)
CompsOf(cs) ==
  CASE cs.kind = "rest"  -> Rest(cs.type, cs.base, cs.rid, cs.ver)
    [] cs.kind = "frag"  -> Frag(cs.rid)
    [] cs.kind = "urn"   -> NonRest(cs.rid)
    [] OTHER -> NonRest("")
TextOf(cs) ==
  CASE cs.kind \in {"rest", "frag", "urn"} -> Format(CompsOf(cs))
    [] cs.kind = "canon" -> CanonFormat(cs.base, cs.ver, cs.rid)
    [] cs.kind \in {"raw", "str"} -> cs.rid
    [] OTHER -> ""
RelOf(cs) == IF cs.kind = "rest" THEN RelText(CompsOf(cs)) ELSE TextOf(cs)
(* validity of type, id and version alone (the base does not matter for an  *)
(* identity or a typed reference)                                           *)
ValidIdentity(cs) == cs.type \in R4Types /\ IsId(cs.rid) /\ (cs.ver = "" \/ IsId(cs.ver))
ValidCase(cs) ==
  CASE cs.kind \in {"rest", "frag", "urn"} -> ValidComps(CompsOf(cs))
    [] cs.kind = "canon" -> WellFormedCanon(cs.base, cs.ver, cs.rid)
    [] OTHER -> FALSE

(* the twelve references of a pool case *)
PoolRef(shape, type, rid, ver, text) == [shape |-> shape, type |-> type, rid |-> rid, ver |-> ver, text |-> text]
PoolRefs(cs) ==
  LET t == cs.type  t2 == cs.x  i == cs.rid  v == cs.ver
      rel == t \o "/" \o i
  IN << PoolRef("strong", t, i, "", ""),                                      \*  1
        PoolRef("weak",   t, "", "", rel),                                    \*  2
        PoolRef("weaknt", "", "", "", rel),                                   \*  3
        PoolRef("weak",   t, "", "", cs.base \o "/" \o rel),                  \*  4 absolute
        PoolRef("strong", t, i, v, ""),                                       \*  5
        PoolRef("weak",   t, "", "", rel \o "/_history/" \o v),               \*  6
        PoolRef("weak",   t, "", "", rel \o "/_history/" \o v \o "2"),        \*  7 another version
        PoolRef("strong", t, i \o "x", "", ""),                               \*  8 another id
        PoolRef("weak",   t2, "", "", t2 \o "/" \o i),                        \*  9 another type
        PoolRef("frag",   t, i, "", ""),                                      \* 10 contained
        PoolRef("weaknt", "", "", "", "#" \o i),                              \* 11 contained, as URI
        PoolRef("weak",   t, "", "", "urn:uuid:5a17b7c2-e01c-4bc7-b973-31d4156b11d7") >>  \* 12

(* What the property fixes about a comparison: "T" the two references name  *)
(* the same resource with the same information; "F" they name different     *)
(* REST identities; "-" not fixed by the property (base URL ignored or not, *)
(* fragment vs REST, versioned vs unversioned).                             *)
RequiredSame(a, b) ==
  LET ia == IdentityOfRef(a)
      ib == IdentityOfRef(b)
      bothPlainRest == a.shape \in {"strong", "weak", "weaknt"} /\ b.shape \in {"strong", "weak", "weaknt"} /\ ia.has /\ ib.has
      baseOf(r) == IF r.shape = "strong" THEN "" ELSE Parse(r.text).c.base
  IN IF a = b THEN "T"
     ELSE IF ~bothPlainRest THEN "-"
     ELSE IF ia.type # ib.type \/ ia.rid # ib.rid THEN "F"
     ELSE IF ia.ver # "" /\ ib.ver # "" /\ ia.ver # ib.ver THEN "F"
     ELSE IF ia.ver = ib.ver /\ baseOf(a) = baseOf(b) THEN "T"
     ELSE "-"

(* ------------------------------------------------------------- judgement *)
(* Observed probes (all fields always present):                            *)
(*  PLit [k, nforms, form, hasType, type, base, rid, ver, frag, uri, str]   *)
(*  PId  [k, type, rid, ver, str]     PStr [k, s]     PBool [k, b]          *)
(*  PCan [k, url, ver, frag, str]                                          *)
(*  k: "ok" | "err" | "panic" | "timeout" | "skip" (prerequisite missing)   *)
Crashed(p) == p.k \in {"panic", "timeout"}
NoCrash(p) == ~Crashed(p)
LitComps(p) ==
  CASE p.form = "rest" -> Rest(p.type, p.base, p.rid, p.ver)
    [] p.form = "frag" -> Frag(p.frag)
    [] OTHER -> NonRest(p.uri)
LitEq(p, c) ==
  /\ p.k = "ok" /\ p.nforms = 1 /\ p.form = c.form
  /\ LitComps(p) = c
  /\ (c.form = "rest" => p.hasType)
SameLit(p, q) ==
  /\ p.k = "ok" /\ q.k = "ok" /\ p.form = q.form /\ LitComps(p) = LitComps(q)
  /\ p.hasType = q.hasType /\ p.type = q.type /\ p.str = q.str
IdEq(p, type, rid, ver) == p.k = "ok" /\ p.type = type /\ p.rid = rid /\ p.ver = ver
SameId(p, q) == p.k = "ok" /\ q.k = "ok" /\ p.type = q.type /\ p.rid = q.rid /\ p.ver = q.ver

(* an accepted string whose returned information re-formats to the input    *)
(* (canonical form) and re-parses to the same information                   *)
TextAgrees(str, text) == str = text \/ (HasRedundantSlash(text) /\ Squeeze(str) = Squeeze(text))
LitConsistent(text, p1, p2) ==
  /\ p1.k = "ok" /\ p1.nforms = 1
  /\ p1.str = Format(LitComps(p1))
  /\ TextAgrees(p1.str, text)
  /\ SameLit(p2, p1)

(* Judgement of parse(text) -> p1, parse(format(p1)) -> p2.  Returns "" when *)
(* permitted, otherwise what is wrong.                                      *)
LitParseVerdict(text, p1, p2) ==
  LET sp == Parse(text) IN
  IF Crashed(p1) THEN p1.k
  ELSE IF Crashed(p2) THEN "reparse-" \o p2.k
  ELSE IF sp.k = "ok" /\ ~HasRedundantSlash(text) THEN
     (IF p1.k # "ok" THEN "rejected-valid"
      ELSE IF ~LitEq(p1, sp.c) THEN "wrong-components"
      ELSE IF p1.str # text THEN "format-differs"
      ELSE IF ~SameLit(p2, p1) THEN "reparse-differs"
      ELSE "")
  ELSE IF sp.k = "ok" THEN      \* valid, with redundant slashes: canonical form
     (IF p1.k # "ok" THEN "rejected-valid"
      ELSE IF ~(p1.form = "rest" /\ p1.type = sp.c.type /\ p1.rid = sp.c.rid /\ p1.ver = sp.c.ver) THEN "wrong-components"
      ELSE IF ~LitConsistent(text, p1, p2) THEN "not-canonical"
      ELSE "")
  ELSE IF p1.k = "ok" THEN (IF LitConsistent(text, p1, p2) THEN "" ELSE "accepted-inconsistent")
  ELSE ""

(* an identity parser: parse(text) -> p, parse(format(p)) -> p2 *)
IdParseVerdict(text, p, p2, mustAccept, want) ==
  IF Crashed(p) THEN p.k
  ELSE IF Crashed(p2) THEN "reparse-" \o p2.k
  ELSE IF mustAccept THEN
     (IF p.k # "ok" THEN "rejected-valid"
      ELSE IF ~IdEq(p, want.type, want.rid, want.ver) THEN "wrong-components"
      ELSE IF ~SameId(p2, p) THEN "reparse-differs"
      ELSE "")
  ELSE IF p.k = "ok" THEN (IF SameId(p2, p) THEN "" ELSE "accepted-inconsistent")
  ELSE ""

CanEq(p, u, v, f) == p.k = "ok" /\ p.url = u /\ p.ver = v /\ p.frag = f
SameCan(p, q) == p.k = "ok" /\ q.k = "ok" /\ p.url = q.url /\ p.ver = q.ver /\ p.frag = q.frag /\ p.str = q.str
CanonParseVerdict(text, p, p2) ==
  LET sp == CanonParse(text) IN
  IF Crashed(p) THEN p.k
  ELSE IF Crashed(p2) THEN "reparse-" \o p2.k
  ELSE IF sp.k = "ok" THEN
     (IF p.k # "ok" THEN "rejected-valid"
      ELSE IF ~CanEq(p, sp.url, sp.ver, sp.frag) THEN "wrong-components"
      ELSE IF p.str # text THEN "reassembled-differs"
      ELSE IF ~SameCan(p2, p) THEN "reparse-differs"
      ELSE "")
  ELSE IF p.k = "ok" THEN
     (IF p.str # CanonFormat(p.url, p.ver, p.frag) THEN "accepted-inconsistent"
      ELSE IF p.str # text THEN "accepted-reassembles-differently"
      ELSE IF ~SameCan(p2, p) THEN "accepted-inconsistent"
      ELSE "")
  ELSE ""

(* FHIRPath read-back of a stored reference string *)
ReadBackVerdict(p, text) ==
  IF Crashed(p) THEN p.k
  ELSE IF p.k = "skip" THEN ""
  ELSE IF p.k = "ok" /\ p.s = text THEN ""
  ELSE IF p.k = "empty" /\ text = "" THEN ""
  ELSE IF p.k = "ok" THEN "different-string"
  ELSE "no-string-" \o p.k

CaseClass(cs) ==
  CASE cs.kind = "rest"  -> "rest:" \o cs.ridc \o "," \o cs.verc \o "," \o cs.basec
    [] cs.kind = "frag"  -> "frag:" \o cs.ridc
    [] cs.kind = "urn"   -> "urn:" \o cs.ridc
    [] cs.kind = "canon" -> "canon:" \o cs.basec \o "," \o cs.verc \o "," \o cs.ridc
    [] cs.kind = "raw"   -> "raw:" \o cs.x
    [] OTHER -> cs.kind

Chk(name, problem) == [name |-> name, problem |-> problem]

(* ---- aspect "litparse": LiteralInfoFromURI(text), URIString, re-parse ---- *)
ChecksLitParse(o, cs) == << Chk("p1", LitParseVerdict(TextOf(cs), o.p1, o.p2)) >>

(* ---- aspect "identity": resource.NewIdentity and the Identity formatters, *)
(*      resource.NewIdentityFromURL / NewIdentityFromHistoryURL of the text  *)
ChecksIdentity(o, cs) ==
  LET c == CompsOf(cs)
      valid == ValidIdentity(cs)
      rel == RelText(c)
      unv == cs.type \o "/" \o cs.rid
      n == o.new
      fmtOk == /\ n.str = rel /\ n.relstr = unv /\ n.prefer = rel
               /\ n.relverok = (cs.ver # "") /\ (cs.ver # "" => n.relver = rel)
               /\ n.veridok = (cs.ver # "")
               /\ n.unvers = unv /\ n.withver = unv \o "/_history/9"
               /\ n.equalSelf /\ ~n.equalOther
      text == TextOf(cs)
      absValid == valid /\ (cs.base = "" \/ IsStrictBase(CanonBase(cs.base)))
  IN << Chk("new", IF Crashed(n) THEN n.k
                   ELSE IF valid /\ n.k # "ok" THEN "rejected-valid"
                   ELSE IF n.k = "ok" /\ ~IdEq(n, cs.type, cs.rid, cs.ver) THEN "wrong-components"
                   ELSE ""),
        Chk("format", IF n.k = "ok" /\ ~fmtOk THEN "format-differs" ELSE ""),
        Chk("fromURL",
            LET p == o.fromURL IN
            IF Crashed(p) THEN p.k
            ELSE IF absValid /\ cs.ver = "" /\ p.k # "ok" THEN "rejected-valid"
            ELSE IF p.k = "ok" /\ ~(IdEq(p, cs.type, cs.rid, "") \/ IdEq(p, cs.type, cs.rid, cs.ver)) THEN "wrong-components"
            ELSE ""),
        Chk("fromHist",
            LET p == o.fromHist IN
            IF Crashed(p) THEN p.k
            ELSE IF absValid /\ cs.ver # "" /\ cs.base # "" /\ p.k # "ok" THEN "rejected-valid"
            ELSE IF p.k = "ok" /\ ~IdEq(p, cs.type, cs.rid, cs.ver) THEN "wrong-components"
            ELSE "") >>

(* ---- aspect "litfmt": typed reference -> LiteralInfoOf ->                 *)
(*      WithServiceBaseURL(base) -> URIString                                *)
ChecksLitFmt(o, cs) ==
  LET c == CompsOf(cs)
      valid == ValidIdentity(cs)
      c0 == Rest(cs.type, "", cs.rid, cs.ver)
      rel == RelText(c)
      s == o.sref
      l == o.lit
      w == o.withBase
      baseStrict == cs.base = "" \/ IsStrictBase(cs.base)
      baseSlashed == cs.base # "" /\ ~IsStrictBase(cs.base) /\ IsStrictBase(CanonBase(cs.base))
  IN << Chk("strong", IF Crashed(s) THEN s.k
                      ELSE IF valid /\ s.k # "ok" THEN "rejected-valid"
                      ELSE IF s.k = "ok" /\ ~(s.type = cs.type /\ s.rid = cs.rid /\ s.hist = cs.ver) THEN "wrong-components"
                      ELSE ""),
        Chk("lit", IF Crashed(l) THEN l.k
                   ELSE IF valid /\ s.k = "ok" /\ l.k # "ok" THEN "rejected-valid"
                   ELSE IF l.k = "ok" /\ ~(LitEq(l, c0) /\ l.str = rel) THEN "wrong-components"
                   ELSE ""),
        Chk("withBase", IF Crashed(w) THEN w.k
                   ELSE IF valid /\ l.k = "ok" /\ baseStrict /\ w.k # "ok" THEN "rejected-valid"
                   ELSE IF w.k = "ok" /\ baseStrict /\ ~(LitEq(w, c) /\ w.str = Format(c)) THEN "wrong-components"
                   ELSE IF w.k = "ok" /\ baseSlashed
                           /\ ~(/\ w.form = "rest" /\ w.type = cs.type /\ w.rid = cs.rid /\ w.ver = cs.ver
                                /\ w.base \in {cs.base, CanonBase(cs.base)}
                                /\ w.str = w.base \o "/" \o rel) THEN "wrong-components"
                   ELSE "") >>

(* ---- aspect "identurl": reference.IdentityFromURL / FromAbsoluteURL /     *)
(*      FromRelativeURI                                                      *)
ChecksIdentURL(o, cs) ==
  LET text == TextOf(cs)
      sp == Parse(text)
      isRest == sp.k = "ok" /\ sp.c.form = "rest"
      want == IF isRest THEN sp.c ELSE Rest("", "", "", "")
      rtext == RelOf(cs)
      rp == Parse(rtext)
      relRest == rp.k = "ok" /\ rp.c.form = "rest" /\ rp.c.base = ""
  IN << Chk("url", IdParseVerdict(text, o.url, o.url2, isRest, want)),
        Chk("abs", IdParseVerdict(text, o.abs, o.abs2, isRest /\ want.base # "", want)),
        Chk("rel", IdParseVerdict(rtext, o.rel, o.rel2, relRest, IF relRest THEN rp.c ELSE want)) >>

(* ---- aspect "strongweak": Typed / TypedFromIdentity vs Weak               *)
ChecksStrongWeak(o, cs) ==
  LET valid == ValidIdentity(cs)
      c0 == Rest(cs.type, "", cs.rid, cs.ver)
      rel == RelText(c0)
      weakValid == Parse(rel).k = "ok"        \* the list of types is the R4 list
      ks == {o.slit.k, o.wlit.k, o.nlit.k, o.sid.k, o.wid.k, o.isSW.k, o.isWS.k, o.isSS.k, o.isWW.k, o.isSN.k, o.isNS.k}
      crashed == ks \cap {"panic", "timeout"}
  IN << Chk("crash", IF crashed = {} THEN "" ELSE CHOOSE k \in crashed : TRUE),
        Chk("strong-info", IF valid /\ o.slit.k # "skip" /\ ~(LitEq(o.slit, c0) /\ o.slit.str = rel) THEN (IF o.slit.k # "ok" THEN "rejected-valid" ELSE "wrong-components") ELSE ""),
        Chk("weak-info", IF valid /\ weakValid /\ ~(LitEq(o.wlit, c0) /\ o.wlit.str = rel /\ LitEq(o.nlit, c0) /\ o.nlit.str = rel)
                         THEN (IF o.wlit.k # "ok" \/ o.nlit.k # "ok" THEN "rejected-valid" ELSE "wrong-components") ELSE ""),
        Chk("equal-info", IF valid /\ o.slit.k = "ok" /\ o.wlit.k = "ok" /\ ~SameLit(o.slit, o.wlit) THEN "strong-weak-differ" ELSE ""),
        Chk("identity", IF valid /\ o.slit.k # "skip" /\ ~(IdEq(o.sid, cs.type, cs.rid, cs.ver) /\ IdEq(o.wid, cs.type, cs.rid, cs.ver))
                        THEN (IF o.sid.k # "ok" \/ o.wid.k # "ok" THEN "rejected-valid" ELSE "wrong-components") ELSE ""),
        Chk("is", IF valid /\ o.slit.k # "skip" /\ ~(o.isSW.b /\ o.isWS.b /\ o.isSN.b /\ o.isNS.b) THEN "not-same" ELSE ""),
        Chk("is-reflexive", IF (o.isSS.k = "ok" /\ ~o.isSS.b) \/ (o.isWW.k = "ok" /\ ~o.isWW.b) THEN "not-reflexive" ELSE ""),
        Chk("is-symmetric", IF o.isSW.k = "ok" /\ o.isWS.k = "ok" /\ o.isSW.b # o.isWS.b THEN "not-symmetric" ELSE "") >>

(* ---- aspect "readback": FHIRPath `reference` of the typed reference, of   *)
(*      the URI reference and of the JSON-parsed reference                   *)
ChecksReadBack(o, cs) ==
  LET text == TextOf(cs)
      rel == RelOf(cs)
      valid == ValidCase(cs)
  IN << Chk("strong", ReadBackVerdict(o.fs, rel)),        \* "skip" when no typed reference could be built (judged by litfmt)
        Chk("weak", ReadBackVerdict(o.fw, text)),
        Chk("weak-rel", ReadBackVerdict(o.fr, rel)),
        Chk("json", ReadBackVerdict(o.fj, text)),
        Chk("json-present", IF valid /\ o.fj.k = "skip" /\ text # "" THEN "json-not-parsed" ELSE "") >>

(* ---- aspect "fragref": Reference.fragment vs Reference.uri "#id"          *)
ChecksFragRef(o, cs) ==
  LET valid == cs.rid = "" \/ IsId(cs.rid)
      c == Frag(cs.rid)
      text == "#" \o cs.rid
      typed(p) == LitEq(p, c) /\ p.hasType /\ p.type = cs.type /\ p.str = text
      untyped(p) == LitEq(p, c) /\ ~p.hasType /\ p.str = text
      crashed == {o.flit.k, o.ulit.k, o.nlit.k} \cap {"panic", "timeout"}
  IN << Chk("crash", IF crashed = {} THEN "" ELSE CHOOSE k \in crashed : TRUE),
        Chk("fragment", IF valid /\ ~typed(o.flit) THEN (IF o.flit.k # "ok" THEN "rejected-valid" ELSE "wrong-components")
                        ELSE IF ~valid /\ o.flit.k = "ok" /\ ~typed(o.flit) THEN "accepted-inconsistent" ELSE ""),
        Chk("uri", IF valid /\ ~typed(o.ulit) THEN (IF o.ulit.k # "ok" THEN "rejected-valid" ELSE "wrong-components")
                   ELSE IF ~valid /\ o.ulit.k = "ok" /\ ~typed(o.ulit) THEN "accepted-inconsistent" ELSE ""),
        Chk("uri-notype", IF valid /\ ~untyped(o.nlit) THEN (IF o.nlit.k # "ok" THEN "rejected-valid" ELSE "wrong-components")
                   ELSE IF ~valid /\ o.nlit.k = "ok" /\ ~untyped(o.nlit) THEN "accepted-inconsistent" ELSE ""),
        Chk("equal-info", IF o.flit.k = "ok" /\ o.ulit.k = "ok" /\ ~SameLit(o.flit, o.ulit) THEN "fragment-uri-differ" ELSE ""),
        Chk("is-reflexive", IF (o.isFF.k = "ok" /\ ~o.isFF.b) \/ (o.isUU.k = "ok" /\ ~o.isUU.b) \/ Crashed(o.isFF) \/ Crashed(o.isUU) THEN "not-reflexive" ELSE ""),
        Chk("is-symmetric", IF Crashed(o.isFU) \/ Crashed(o.isUF) \/ o.isFU.b # o.isUF.b THEN "not-symmetric" ELSE "") >>

(* ---- aspect "weakref": a URN in a URI reference                          *)
ChecksWeakRef(o, cs) ==
  LET text == TextOf(cs)
      sp == Parse(text)
      w == o.wlit
  IN << Chk("weak-info", IF Crashed(w) THEN w.k
                         ELSE IF sp.k = "ok" /\ w.k # "ok" THEN "rejected-valid"
                         ELSE IF sp.k = "ok" /\ ~(LitEq(w, sp.c) /\ w.hasType /\ w.type = cs.type /\ w.str = text) THEN "wrong-components"
                         ELSE IF sp.k # "ok" /\ w.k = "ok" /\ ~(w.str = Format(LitComps(w)) /\ TextAgrees(w.str, text)) THEN "accepted-inconsistent"
                         ELSE ""),
        Chk("identity", IF Crashed(o.wid) THEN o.wid.k ELSE ""),
        Chk("is-reflexive", IF Crashed(o.isWW) THEN o.isWW.k ELSE IF ~o.isWW.b THEN "not-reflexive" ELSE "") >>

(* ---- aspect "canon": canonical.New, IdentityFromReference,                *)
(*      CanonicalIdentity.String, resource.NewCanonicalIdentity              *)
ChecksCanon(o, cs) ==
  LET text == TextOf(cs)
      built == cs.kind = "canon"
  IN << Chk("parse", CanonParseVerdict(text, o.parsed, o.reparsed)),
        Chk("new", IF ~built THEN "" ELSE IF Crashed(o.made) THEN o.made.k
                   ELSE IF o.made.k # "ok" THEN "no-string" ELSE IF o.made.s # text THEN "format-differs" ELSE ""),
        Chk("ctor", IF ~built THEN "" ELSE IF Crashed(o.ctor) THEN o.ctor.k
                    ELSE IF cs.base # "" /\ o.ctor.k # "ok" THEN "rejected-valid"
                    ELSE IF o.ctor.k = "ok" /\ ~(CanEq(o.ctor, cs.base, cs.ver, cs.rid) /\ o.ctor.str = text) THEN "wrong-components"
                    ELSE "") >>

(* ---- aspect "isrel": reference.Is on all pairs of the twelve references   *)
(* m[i][j] is "T", "F" or "P" (panic / timeout)                              *)
ChecksIsRel(o, cs) ==
  LET refs == PoolRefs(cs)
      n == Len(refs)
      m == o.m
      D == 1..n
      wellFormed == Len(m) = n /\ \A i \in D : Len(m[i]) = n
      T(i, j) == m[i][j] = "T"
      req == [i \in D |-> [j \in D |-> RequiredSame(refs[i], refs[j])]]
  IN IF ~wellFormed THEN << Chk("matrix", "malformed") >>
     ELSE
     << Chk("crash", IF \E i, j \in D : m[i][j] \notin {"T", "F"} THEN "panic" ELSE ""),
        Chk("reflexive", IF \E i \in D : ~T(i, i) THEN "not-reflexive" ELSE ""),
        Chk("symmetric", IF \E i, j \in D : T(i, j) # T(j, i) THEN "not-symmetric" ELSE ""),
        Chk("transitive", IF \E i, j, l \in D : T(i, j) /\ T(j, l) /\ ~T(i, l) THEN "not-transitive" ELSE ""),
        Chk("same", IF \E i, j \in D : req[i][j] = "T" /\ ~T(i, j) THEN "same-resource-not-same" ELSE ""),
        Chk("different", IF \E i, j \in D : req[i][j] = "F" /\ T(i, j) THEN "different-resources-same" ELSE "") >>

AspectsOf(kind) ==
  CASE kind = "rest"  -> {"identity", "litfmt", "litparse", "identurl", "strongweak", "readback"}
    [] kind = "frag"  -> {"litparse", "identurl", "fragref", "readback"}
    [] kind = "urn"   -> {"litparse", "identurl", "weakref", "readback"}
    [] kind = "canon" -> {"canon", "litparse"}
    [] kind = "empty" -> {"litparse", "identurl", "canon", "weakref", "readback"}
    [] kind = "raw"   -> {"litparse", "identurl", "canon", "weakref", "readback"}
    [] kind = "pool"  -> {"isrel"}
    [] OTHER -> {}

ChecksOf(o, cs) ==
  CASE o.aspect = "litparse"   -> ChecksLitParse(o, cs)
    [] o.aspect = "identity"   -> ChecksIdentity(o, cs)
    [] o.aspect = "litfmt"     -> ChecksLitFmt(o, cs)
    [] o.aspect = "identurl"   -> ChecksIdentURL(o, cs)
    [] o.aspect = "strongweak" -> ChecksStrongWeak(o, cs)
    [] o.aspect = "readback"   -> ChecksReadBack(o, cs)
    [] o.aspect = "fragref"    -> ChecksFragRef(o, cs)
    [] o.aspect = "weakref"    -> ChecksWeakRef(o, cs)
    [] o.aspect = "canon"      -> ChecksCanon(o, cs)
    [] o.aspect = "isrel"      -> ChecksIsRel(o, cs)
    [] OTHER -> << Chk("aspect", "malformed") >>

CaseId(cs) ==
  cs.kind \o "/" \o cs.type \o "/" \o cs.ridc \o "/" \o cs.verc \o "/" \o cs.basec

(* the case as the harness receives it *)
CaseJson(cs) ==
  [id |-> CaseId(cs), kind |-> cs.kind, type |-> cs.type, rid |-> cs.rid, ver |-> cs.ver, base |-> cs.base,
   ridc |-> cs.ridc, verc |-> cs.verc, basec |-> cs.basec, x |-> cs.x,
   text |-> TextOf(cs), rel |-> RelOf(cs), valid |-> ValidCase(cs),
   refs |-> IF cs.kind = "pool" THEN PoolRefs(cs) ELSE <<>>]
=============================================================================
