-------------------------------- MODULE C01 --------------------------------
(***************************************************************************)
(* Property C01: Compile, Evaluate and Patch are total - every call        *)
(* returns a value or an error; none panics or fails to terminate.         *)
(*                                                                         *)
(* The specification side is the call protocol (C01_MC) and the boundary   *)
(* alphabet: the pools below are the operand classes the property's        *)
(* quantifier names; function names and arities come from the              *)
(* implementation's own table (FuncFile).                                  *)
(***************************************************************************)
EXTENDS FPValues, Json, Params

Funcs == ndJsonDeserialize(FuncFile)        \* [name, min, max, exp]

(* (%nonascii has 8 characters in 15 bytes, %euro 1 character in 3 bytes: the positions 9, 12 and 2 lie between the   *)
(* character count and the byte count)                                                                              *)
(* boundary pool: source fragments usable as receivers and arguments.  %nonascii, %multi, %cx, %node are environment *)
(* variables the harness binds to a non-ASCII string, a two-item collection, a complex element and a resource.       *)
Pool == <<"0", "1", "(-1)", "2", "2147483647", "(-2147483647 - 1)", "46341", "309", "2001", "0.0", "1.5", "(-0.5)", "(-10.0)", "(-1.5)", "0.5",
          "1000000000000000000000000000000.0", "0.000000000000000000000000000001", "12345678901234567890.123456789",
          "9999999999999999999999999999999999999999999999999999999999999999999999999999999999999999999999999999999999999999999999999999999999999999999999999999999999999999999999999999999999999999999999999999999999999999999999999999999999999999999999999999999999999999999999999999999999999999999999999999999999999999999999999999999999999999999999999999999999999999999999999999999999999999999999999999999999999999.0", "0.0000000000000000000000000000000000000000000000000000000000000000000000000000000000000000000000000000000000000000000000000000000000000000000000000000000000000000000000000000000000000000000000000000000000000000000000000000000000000000000000000000000000000000000000000000000000000000000000000000000000000000000000000000000000000000000000000000000000000000000000000000000000000000000000000000000000000001",         \* beyond float64 in both directions (400 digits)
          "true", "false", "''", "'abc'", "%nonascii", "%euro", "'1'", "'2020-01-01'", "'1 mg'",
          "@2020", "@2020-02", "@2020-02-29", "@9999-12-31", "@0001-01-01", "@2020T", "@2020-02-29T23:59:59.999+14:00",
          "@2020-02-29T00:00:00-12:00", "@2020-02-29T10", "@T00", "@T23:59:59.999", "@T12:30",
          "1 'mg'", "1 year", "(-5 days)", "0 'mg'", "1000000 years", "(5 '')", "(-5 ' ')", "(-1.5 'a b')",
          "{}", "%multi", "%cx", "%node", "Patient.name", "Patient.birthDate", "Patient.active", "Patient.telecom.rank", "Patient.photo">>
(* '(' and '[a-' are not regular expressions *)
ArgsA == <<"0", "1", "(-1)", "9", "12", "%euro", "309", "2001", "2147483647", "(-2147483647 - 1)", "1.5", "0.0", "true", "''", "'abc'", "%nonascii", "@2020", "@T12:30", "1 'mg'", "{}", "%multi", "%cx", "'('", "'[a-'">>
ArgsB == <<"0", "1", "2", "(-1)", "12", "2147483647", "(-2147483647 - 1)", "''", "'abc'", "{}", "%multi", "1.5", "'('">>
ArgsC == <<"true", "{}", "1", "%multi">>

BinOps == <<"+", "-", "*", "/", "div", "mod", "&", "=", "!=", "<", "<=", ">", ">=", "and", "or", "xor", "implies", "~", "!~", "|", "in", "contains">>
TypeNames == <<"Integer", "string", "System.Quantity", "FHIR.Patient", "BackboneElement", "Foo", "Foo.Bar", "A.B.C">>

(* lexical fragments for source strings *)
Tokens == <<"1", "'a'", "x", "Patient", ".", "(", ")", "[", "]", "+", "-", "*", "/", "and", "is", "=", "~", "|", ",", "{", "}",
            "@2020", "@T10", "%v", "$this", "1 'mg'", "where", "`", "'", "\\", "/*", "//", "..", "1.", "@", "%",
            \* escapes, complete and cut short
            "'\\u12a'", "'\\u0041'", "'\\u'", "'\\u1'", "'\\x'", "'abc\\", "1 '\\u12a'", "'\\ud800'", "`\\u12`">>
TokensSmall == <<"1", "'a'", "x", ".", "(", ")", "[", "]", "-", "and", "=", "|", "{", "}", "@T", "'">>

(* patch matrix *)
PatchOps == <<"add", "insert", "delete", "replace", "move">>
PatchPaths == <<"Patient.name", "Patient.name[0]", "Patient.name[0].given", "Patient.name[0].given[1]", "Patient.active", "Patient.deceased",
                "Patient.photo", "Patient.zz", "Patient.name.where(use = 'official')", "Patient.name.first()", "1 +", "Patient.gender",
                "Patient.generalPractitioner[0]", "Patient.contained[0]", "", "Patient", "Patient.name.given.count()", "Patient.telecom[1].rank",
                "Patient.extension('http://example.org/ext/a')", "Patient.birthDate.extension",
                \* children of date-like primitives (their value lives in value_us/timezone/precision), of a false Boolean
                "Patient.birthDate", "Patient.birthDate.id", "Patient.meta.lastUpdated", "Patient.meta.lastUpdated.extension",
                "Patient.birthDate.extension.value", "Patient.address.period.start", "Patient.name[0].family", "Patient.communication[0].preferred">>
PatchValues == <<"HumanName", "String", "Boolean", "Patient", "nil", "Code", "Integer", "PositiveInt", "Reference", "Extension", "Date", "DateTime">>
PatchNames == <<"given", "zz", "Given", "", "name", "family", "extension", "value", "id", "valueUs", "timezone", "precision">>
PatchIndexes == <<-1, 0, 1, 99>>

GenericPrograms == <<"children()", "descendants()", "descendants().count()", "children().count()", "descendants().exists()",
   "descendants().distinct().count()", "children().first()", "children().last()", "children().tail().take(3)",
   "descendants().select($this.toString())", "descendants().where($this is string)", "descendants().where($this is Quantity).value",
   "children().children().children()", "descendants().isDistinct()", "descendants().toInteger()", "descendants().toDecimal()",
   "descendants().toDate()", "descendants().toDateTime()", "descendants().toTime()", "descendants().toBoolean()", "descendants().toQuantity()",
   "descendants().convertsToInteger()", "descendants().convertsToQuantity()", "descendants().length()", "descendants().upper()",
   "descendants().substring(1)", "descendants().toChars()", "descendants().abs()", "descendants().sqrt()", "descendants().ln()",
   "descendants().exp()", "descendants().round()", "descendants().not()", "descendants().select($this + 1)", "descendants().select($this & 'x')",
   "descendants().select($this = $this)", "descendants().select($this < $this)", "descendants().as(string)", "descendants().extension('http://example.org/ext/a')",
   "id", "meta.lastUpdated", "contained", "text.`div`">>

(* "every collection of R4 resources and every supported set of evaluate options": the programs below are evaluated on   *)
(* every input form with every option set (the harness builds both from these names)                                      *)
InputForms == <<"one", "none", "nilslice", "two", "same-twice", "nil-element", "typed-nil-element", "nil-then-one", "bundle",
                \* resources built directly from the protos: a Bundle whose entries hold no resource, a Patient whose contained slots are empty
                "bundle-empty-entries", "patient-empty-contained",
                \* an Observation built from the protos: a valueQuantity that has a unit but no value, component quantities and
                \* reference-range decimals whose value text has an extreme exponent (a valid FHIR decimal: 1e-999999999, 1E+999999999)
                "observation-odd-quantities",
                \* a Patient and an Organization (model resource MR5) in one collection, in both orders, and inside their Bundle:
                \* backbone elements of one short message name (Patient.Contact / Organization.Contact) meet in one field node
                "mr5-entries", "mr5-entries-reversed", "bundle-mr5">>
OptionSets == <<"none", "time-year-10000", "time-year-0", "time-year-minus-1", "time-9999-end", "time-zone+14", "time-zone-seconds",
                "time-zero-value", "var-nil-collection", "var-empty-name", "var-twice", "var-nil-value", "var-typed-nil-element", "var-nested-collection">>
OptionPrograms == <<"now()", "today()", "timeOfDay()", "now() + 1 year", "today() - 1 day", "now().toString()", "today().toString().toDate()",
                    "now() > today()", "timeOfDay() + 1 hour", "Patient.birthDate < today()", "Patient.name.given", "%x", "%x.count()",
                    "Patient.name.where(given.count() > %x.count())", "descendants().count()", "%context", "%context.name", "Bundle.entry.resource.id",
                    "Bundle.entry.resource", "Bundle.entry", "Patient.contained", "Patient.contained.id", "children()", "Patient.name.family", "Bundle.entry.resource.descendants().count()",
                    "contact.name.family", "contact.telecom.value", "contact.address.city", "Bundle.entry.resource.contact.name.family", "contact.where(name.exists()).name.given",
                    \* a variable that holds a NESTED collection (option set var-nested-collection) through the operators and set functions
                    "%x = %x", "%x != %x", "%x.distinct()", "%x.isDistinct()", "%x.exclude(%x)", "%x.intersect(%x)", "%x & 'a'", "%x.first() = 1", "%x.where($this = 1)",
                    "%x.toString()", "%x.select($this + 1)", "%x ~ %x", "%x < %x", "%x.not()", "%x.exists($this = 1)", "%x.all($this = 1)",
                    \* quantities without a value, decimals with extreme exponents (input form observation-odd-quantities)
                    "Observation.value > 5", "Observation.value = Observation.value", "Observation.value and true", "Observation.value.toQuantity()",
                    "Observation.value.toString()", "Observation.value.value", "Observation.value + Observation.value", "Observation.value.exists()",
                    "Observation.component.value.value + 1", "Observation.component.value.value * 2", "Observation.component.value.value = 0",
                    "Observation.component.value.value.toString()", "Observation.component.value > 1 'mg'", "Observation.component.value.value.round(2)",
                    "Observation.component.value.value.first().floor()", "Observation.component.value.first() + Observation.component.value.last()",
                    "Observation.referenceRange.low.value < Observation.referenceRange.high.value", "Observation.component.value.distinct()",
                    "Observation.descendants().toDecimal()", "Observation.descendants().toQuantity()", "Observation.descendants().select($this = $this)",
                    "-Observation.component.value.value.first()", "Observation.component.value.value.first().sqrt()", "Observation.component.value.value.first() div 3">>

(* The only outcomes a call may have. *)
Returned == {"ok", "err", "cerr"}
Accepts(obs) == obs.k \in Returned
=============================================================================
