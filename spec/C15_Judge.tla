------------------------------ MODULE C15_Judge ------------------------------
(***************************************************************************)
(* Role 3: judge observations of the real code for property C15.  Every    *)
(* observation carries its case (o.cs) and the outcomes of the probes the  *)
(* harness ran; the verdict is computed by C15!Judge.                      *)
(***************************************************************************)
EXTENDS C15, Json, Params

Obs == ndJsonDeserialize(ObsFile)
N == Len(Obs)
W == 16

Verdict(o) ==
  LET j == Judge(o)
  IN [id |-> o.id, ok |-> j.ok, sig |-> IF j.ok THEN "" ELSE j.sig, want |-> j.want]

VARIABLE i
Init == i \in 1..(IF N < W THEN N ELSE W) /\ PrintT(ToJson(Verdict(Obs[i])))
Next == i + W <= N /\ i' = i + W /\ PrintT(ToJson(Verdict(Obs[i'])))
Spec == Init /\ [][Next]_i
=============================================================================
