------------------------------ MODULE C10_Sim ------------------------------
(***************************************************************************)
(* Random programs of the abstract machine (direction B): a behaviour of   *)
(* this machine grows one expression step by step (C10_Prog!Steps), one    *)
(* random step per state; every lane yields one program per depth.  The    *)
(* harness evaluates the rendering on MR1 and the judge compares with      *)
(* FPEval!Eval of the very same tree.                                      *)
(***************************************************************************)
EXTENDS C10_Prog, FiniteSetsExt

CONSTANTS MaxDepth, Lanes, Seed

VARIABLES ex, depth, lane
vars == <<ex, depth, lane>>

(* every choice is a function of (Seed, lane, depth): a run is reproducible whatever the number of TLC workers *)
Key(l, d, salt) == (l * 7919 + d * 104729 + Seed * 15485 + salt * 611953) % 1000003
PickDet(set, key) == LET q == SetToSeq(set) IN q[(key % Len(q)) + 1]

StartSeq == SetToSeq(Starts)
Init == lane \in 1..Lanes /\ ex = StartSeq[(Key(lane, 0, 1) % Len(StartSeq)) + 1] /\ depth = 0
PickOrFirst(cands, x, key) == IF cands = {} THEN Call(x, "first", <<>>) ELSE PickDet(cands, key)
Grow == /\ depth < MaxDepth
        /\ ex' = PickOrFirst(StepCat(ex, (Key(lane, depth, 2) % NCat) + 1), ex, Key(lane, depth, 3))
        /\ depth' = depth + 1 /\ lane' = lane
Next == Grow
Spec == Init /\ [][Next]_vars

(* emitted as an always-true invariant: one program per state of the behaviour *)
Emitting ==
  depth > 0 => PrintT(ToJson([id |-> "sim/" \o ToString(lane) \o "/" \o Render(ex), ast |-> ex, text |-> Render(ex), depth |-> depth]))

(* role 1 on every simulated program: the abstract machine is total on it *)
MachineTotal == Eval(ex, Env(BaseVars), Input).k \in {"ok", "err", "any", "eoe"}
=============================================================================
