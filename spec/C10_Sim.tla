------------------------------ MODULE C10_Sim ------------------------------
(***************************************************************************)
(* Random programs of the abstract machine (direction B): a behaviour of   *)
(* this machine grows one expression step by step (C10_Prog!Steps), one    *)
(* random step per state; every lane yields one program per depth.  The    *)
(* harness evaluates the rendering on MR1 and the judge compares with      *)
(* FPEval!Eval of the very same tree.                                      *)
(***************************************************************************)
EXTENDS C10_Prog

CONSTANTS MaxDepth, Lanes

VARIABLES ex, depth, lane
vars == <<ex, depth, lane>>

Init == ex \in Starts /\ depth = 0 /\ lane \in 1..Lanes
(* one random growth step per state (TLC!RandomElement): every lane is one random program per depth *)
PickOrFirst(cands, x) == IF cands = {} THEN Call(x, "first", <<>>) ELSE RandomElement(cands)
Grow == /\ depth < MaxDepth
        /\ \E c \in {RandomElement(1..NCat)} : \E s \in {PickOrFirst(StepCat(ex, c), ex)} : ex' = s
        /\ depth' = depth + 1 /\ lane' = lane
Next == Grow
Spec == Init /\ [][Next]_vars

(* emitted as an always-true invariant: one program per state of the behaviour *)
Emitting ==
  depth > 0 => PrintT(ToJson([id |-> "sim/" \o ToString(lane) \o "/" \o Render(ex), ast |-> ex, text |-> Render(ex), depth |-> depth]))

(* role 1 on every simulated program: the abstract machine is total on it *)
MachineTotal == Eval(ex, Env(BaseVars), Input).k \in {"ok", "err", "any", "eoe"}
=============================================================================
