------------------------------- MODULE C12_MC -------------------------------
(***************************************************************************)
(* Role 1: lattice sanity of FPTypes over the descriptor-derived type       *)
(* table: subtyping is reflexive and transitive, every type reaches its     *)
(* root (Element or Resource), chains are acyclic, FHIR-first resolution.   *)
(* Role 2: the case generator (one state per tree, one for the values).     *)
(***************************************************************************)
EXTENDS C12

VARIABLES ti, done
vars == <<ti, done>>

Emit(c) == PrintT(ToJson([id |-> CaseId(c), cs |-> c, text |-> Text(c), ti |-> IF c.ti = 0 THEN 1 ELSE c.ti]))
Ops == {"is", "as"}

ElCases(t) ==
  UNION {{[kind |-> "el", ti |-> t, addr |-> Trees[t].sel[q], lit |-> 0, op |-> op, ns |-> ns, name |-> nm] :
             op \in Ops, nm \in NamesFor(NodeAt(TreeOf(t), Trees[t].sel[q]).ty), ns \in {"", "FHIR", "System", "Foo"}}
         : q \in 1..Len(Trees[t].sel)}
ValidNs(c) == c.ns \in NsFor(c.name)

AllNames == FHIRNames \cup AbstractFHIR \cup SystemNames \cup {"String1", "integer64", "boolean", "Boolean", "string", "any", "Any"}
ValCases ==
  {[kind |-> "val", ti |-> 0, addr |-> <<>>, lit |-> l, op |-> op, ns |-> ns, name |-> nm] :
      l \in 1..Len(ValuePool), op \in Ops, nm \in AllNames, ns \in {"", "System", "FHIR"}}

Init == ti \in 0..NT /\ done = FALSE
Step == /\ ~done /\ done' = TRUE /\ ti' = ti
        /\ IF ti = 0 THEN \A c \in {x \in ValCases : ValidNs(x) \/ x.ns = "FHIR"} : Emit(c)
           ELSE \A c \in {x \in ElCases(ti) : ValidNs(x)} : Emit(c)
Next == Step
Spec == Init /\ [][Next]_vars

FH(n) == IF n \in FHIRNames THEN TyKind[n] ELSE "abstract"
Universe == FHIRNames \cup AbstractFHIR
LawReflexive == \A n \in Universe : IsSubtype("FHIR", n, "FHIR", n, TyKind)
LawTransitive == \A a \in Universe : \A b \in Ancestors(a, TyKind) : Ancestors(b, TyKind) \subseteq Ancestors(a, TyKind)
LawRooted == \A n \in Universe :
   LET ch == ChainFrom(n, TyKind, 8) IN ch[Len(ch)] \in {"Element", "Resource"} /\ Len(ch) <= 5
LawKindsRoot == \A n \in FHIRNames :
   /\ (TyKind[n] = "resource" => "Resource" \in Ancestors(n, TyKind) /\ "Element" \notin Ancestors(n, TyKind))
   /\ (TyKind[n] # "resource" => "Element" \in Ancestors(n, TyKind) /\ "Resource" \notin Ancestors(n, TyKind))
LawPrimitiveSpecialise ==
   /\ \A n \in StringLike : "string" \in Ancestors(n, TyKind)
   /\ \A n \in IntegerLike : "integer" \in Ancestors(n, TyKind)
   /\ \A n \in UriLike : "uri" \in Ancestors(n, TyKind)
LawNamespaces == /\ \A s \in SystemNames : ~IsSubtype("System", s, "FHIR", "Element", TyKind) /\ ~IsSubtype("FHIR", "string", "System", s, TyKind)
                 /\ ~IsSubtype("System", "Quantity", "FHIR", "Quantity", TyKind) /\ ~IsSubtype("FHIR", "Quantity", "System", "Quantity", TyKind)
LawResolution ==
   /\ Resolve("", "string", TyKind) = T("FHIR", "string") /\ Resolve("", "String", TyKind) = T("System", "String")
   /\ Resolve("", "Quantity", TyKind) = T("FHIR", "Quantity") /\ Resolve("", "Integer", TyKind) = T("System", "Integer")
   /\ Resolve("", "integer64", TyKind).ns = "invalid" /\ Resolve("Foo", "string", TyKind).ns = "invalid"
   /\ Resolve("System", "string", TyKind).ns = "invalid" /\ Resolve("FHIR", "String", TyKind).ns = "invalid"
=============================================================================
