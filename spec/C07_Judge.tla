------------------------------ MODULE C07_Judge ------------------------------
EXTENDS C07
Obs == ndJsonDeserialize(ObsFile)
NObs == Len(Obs)
W == 16
Verdict(o) ==
  LET c == o.cs
      good == Accepts(c, o.out)
  IN [id |-> o.id, ok |-> good,
      sig |-> IF good THEN "" ELSE "empty|" \o c.kind \o "|" \o c.op \o c.name \o "|n" \o ToString(c.n) \o "|pos-" \o c.side \o ToString(c.pos) \o "|" \o c.form
                                 \o (IF Known(c.name) \/ c.kind = "op" THEN "" ELSE "|unmodelled-function") \o "|got-" \o KindOf(o.out),
      want |-> Permitted(c)]
VARIABLE i
Init == i \in 1..(IF NObs < W THEN NObs ELSE W) /\ PrintT(ToJson(Verdict(Obs[i])))
Next == i + W <= NObs /\ i' = i + W /\ PrintT(ToJson(Verdict(Obs[i'])))
Spec == Init /\ [][Next]_i
=============================================================================
