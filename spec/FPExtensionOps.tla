--------------------------- MODULE FPExtensionOps ---------------------------
(***************************************************************************)
(* Reference semantics of internal/element/extension: an extension list is *)
(* a sequence of entries [url, val]; one operator per exported function.   *)
(*                                                                         *)
(* Two levels are kept apart:                                              *)
(*  * XDet(...)  what the implementation is written to do (deterministic), *)
(*    used by the state machine FPExtensions to explore behaviours;        *)
(*  * Permitted(step, pre, post)  what the property text and the doc       *)
(*    comments demand of ANY implementation, used by the judge.  TLC       *)
(*    checks XDet \in Permitted and Permitted => Frame on every explored   *)
(*    transition.                                                          *)
(*                                                                         *)
(* A step is [op, url, items, i]:                                          *)
(*   Upsert      items = <<e>>, url = e.url                                *)
(*   SetByURL    url, items = the new entries (all with that url)          *)
(*   Overwrite   items                                                     *)
(*   AppendInto  items                                                     *)
(*   Clear                                                                 *)
(*   New / FromElement  items = <<e>>  (build an extension, hold it)       *)
(*   Unwrap      the held extension                                        *)
(*   UnwrapAt    i = position in the list                                  *)
(***************************************************************************)
EXTENDS C20Base

Ent(u, v) == [url |-> u, val |-> v]

ByUrl(L, u)  == SelectSeq(L, LAMBDA e : e.url = u)
Others(L, U) == SelectSeq(L, LAMBDA e : e.url \notin U)
UrlsOf(L)    == {L[j].url : j \in 1..Len(L)}
HasUrl(L, u) == \E j \in 1..Len(L) : L[j].url = u
FirstWith(L, u) == CHOOSE j \in 1..Len(L) : L[j].url = u /\ \A k \in 1..(j - 1) : L[k].url # u

(* ---- what the implementation is written to do ------------------------- *)
UpsertDet(L, e) ==
  IF Mutant = "upsertReplacesAll" THEN <<e>>
  ELSE IF HasUrl(L, e.url) THEN [L EXCEPT ![FirstWith(L, e.url)] = e]
  ELSE Append(L, e)

SetByURLDet(L, u, es) ==
  IF Mutant = "setByUrlDropsOthers" THEN es
  ELSE Others(L, {u}) \o es

AppendDet(L, es) ==
  IF Mutant = "appendDedups" THEN L \o SelectSeq(es, LAMBDA e : ~HasUrl(L, e.url))
  ELSE L \o es

OverwriteDet(L, es) == es
ClearDet(L) == <<>>

Mutators == {"Upsert", "SetByURL", "Overwrite", "AppendInto", "Clear"}
Readers  == {"New", "FromElement", "Unwrap", "UnwrapAt"}

ApplyDet(st, L) ==
  CASE st.op = "Upsert"     -> UpsertDet(L, st.items[1])
    [] st.op = "SetByURL"   -> SetByURLDet(L, st.url, st.items)
    [] st.op = "Overwrite"  -> OverwriteDet(L, st.items)
    [] st.op = "AppendInto" -> AppendDet(L, st.items)
    [] st.op = "Clear"      -> ClearDet(L)
    [] OTHER                -> L

(* ---- what the property demands ---------------------------------------- *)
(* The URLs an operation is keyed on; Overwrite and Clear are not URL-keyed *)
(* (they replace the whole list by contract).                               *)
Keyed(st) == st.op \in {"Upsert", "SetByURL", "AppendInto"}
KeyUrls(st) == IF st.op = "AppendInto" THEN UrlsOf(st.items) ELSE {st.url}

(* "setting, upserting or appending extensions by URL changes only the      *)
(*  extensions with that URL": the entries with other URLs are the same, in *)
(*  the same order; operations that only build or read change nothing.      *)
Frame(st, pre, post) ==
  /\ Keyed(st) => Others(post, KeyUrls(st)) = Others(pre, KeyUrls(st))
  /\ st.op \in Readers => post = pre

(* Upsert "always replaces or inserts the extension by the URL".  With no   *)
(* entry of that URL the new one is inserted (where is not said); with      *)
(* entries of that URL at least one of them now carries the new value and   *)
(* the others of that URL keep theirs (which one is replaced when the URL   *)
(* repeats is not said); nothing is added or removed.                       *)
UpsertOk(pre, e, post) ==
  IF ~HasUrl(pre, e.url)
  THEN Others(post, {e.url}) = pre /\ ByUrl(post, e.url) = <<e>>
  ELSE /\ Len(post) = Len(pre)
       /\ \A j \in 1..Len(pre) :
            IF pre[j].url # e.url THEN (Mutant = "upsertOkIgnoresOthers" \/ post[j] = pre[j])
            ELSE post[j].url = e.url /\ post[j].val \in {pre[j].val, e.val}
       /\ \E j \in 1..Len(pre) : pre[j].url = e.url /\ post[j] = e

(* SetByURL "always remove all extensions with url, and creates N           *)
(* extensions with url and values".                                         *)
SetByURLOk(pre, u, es, post) ==
  /\ Others(post, {u}) = Others(pre, {u})
  /\ ByUrl(post, u) = es

Permitted(st, pre, post) ==
  CASE st.op = "Upsert"     -> UpsertOk(pre, st.items[1], post)
    [] st.op = "SetByURL"   -> SetByURLOk(pre, st.url, st.items, post)
    [] st.op = "Overwrite"  -> post = st.items
    [] st.op = "AppendInto" -> post = pre \o st.items
    [] st.op = "Clear"      -> post = <<>>
    [] OTHER                -> post = pre

(* ---- building and unwrapping ------------------------------------------ *)
NoneHeld == [k |-> "none", url |-> "", val |-> ""]
Held(e)  == [k |-> "ext", url |-> e.url, val |-> e.val]
NewExt(u, v)   == Ent(u, v)          \* extension.New / FromElement
UnwrapExt(x)   == x.val              \* extension.Unwrap
NoRet  == [k |-> "none", url |-> "", val |-> "", same |-> FALSE]
ExtRet(e) == [k |-> "ext", url |-> e.url, val |-> e.val, same |-> TRUE]
ValRet(v) == [k |-> "val", url |-> "", val |-> IF Mutant = "unwrapLosesValue" THEN "" ELSE v, same |-> TRUE]

(* the value the step returns and the extension held afterwards *)
RetDet(st, L, held) ==
  CASE st.op \in {"New", "FromElement"} -> ExtRet(NewExt(st.items[1].url, st.items[1].val))
    [] st.op = "Unwrap"   -> ValRet(UnwrapExt(held))
    [] st.op = "UnwrapAt" -> ValRet(UnwrapExt(L[st.i]))
    [] OTHER -> NoRet
HeldDet(st, held) == IF st.op \in {"New", "FromElement"} THEN Held(st.items[1]) ELSE held

(* what the judge demands of the returned value: the element handed to New *)
(* is what Unwrap gives back, the very same object (same = TRUE).          *)
RetOk(st, pre, preheld, ret) ==
  CASE st.op \in {"New", "FromElement"} ->
         ret.k = "ext" /\ ret.url = st.items[1].url /\ ret.val = st.items[1].val /\ ret.same
    [] st.op = "Unwrap" ->
         IF preheld.k = "ext" THEN ret.k = "val" /\ ret.val = preheld.val /\ ret.same ELSE ret.k = "nil"
    [] st.op = "UnwrapAt" ->
         IF st.i \in 1..Len(pre) THEN ret.k = "val" /\ ret.val = pre[st.i].val /\ ret.same ELSE TRUE
    [] OTHER -> ret.k = "none"
HeldOk(st, preheld, postheld) ==
  IF st.op \in {"New", "FromElement"} THEN postheld = Held(st.items[1]) ELSE postheld = preheld
=============================================================================
