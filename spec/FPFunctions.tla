---------------------------- MODULE FPFunctions ----------------------------
(***************************************************************************)
(* The FHIRPath N1 function list as a table: name -> allowed argument      *)
(* counts, status, and canonical probes.  This table is the STATEMENT of   *)
(* what should be callable; it is written from the FHIRPath N1             *)
(* specification (plus the FHIR-specific extension(url) and the            *)
(* experimental join([separator])), not from fhirpath-go's table.go.       *)
(*                                                                         *)
(*   status  implemented     callable with every count in `counts`         *)
(*           notImplemented  a named deviation of fhirpath-go: every call  *)
(*                           fails with an error at Compile or Evaluate    *)
(*           experimental    callable only under WithExperimentalFuncs     *)
(*           custom          zzCustom(x): the function the configuration   *)
(*                           "custom" = WithExperimentalFuncs followed by  *)
(*                           AddFunction("zzCustom", f) registers; f       *)
(*                           returns (x, count of its input); callable     *)
(*                           under that configuration only                 *)
(*   recv, args   the well-typed receiver and arguments (source text) of   *)
(*                the default call; positions beyond `args` are filled     *)
(*                with the literal 1                                       *)
(*   probes  per allowed count at least one call with well-typed operands  *)
(*           and the value the N1 semantics of THAT function gives; the    *)
(*           probes of a function tell it apart from every other function  *)
(*           probed on the same operands (PairwiseDistinguished)           *)
(*           mode: exact | unordered (same items, any order) | num (one    *)
(*           number within 10^-8, Integer or Decimal) | type (one item of  *)
(*           the given type: clock functions)                              *)
(*                                                                         *)
(* Probes run on the input <<MR1 Patient>> with the environment            *)
(*   %ints = (1, 2, 2, 3)  %two = (2)  %strs = ('a', 'b')                  *)
(*   %tt = (true, true)  %tf = (true, false)  %ff = (false, false).        *)
(*                                                                         *)
(* Mutant selects a deliberately wrong acceptance rule (arityOffByOne,     *)
(* acceptUnknown), a machine in which a not-implemented name yields a      *)
(* value (notImplementedYieldsValue, in C16_MC) or a table that lacks the  *)
(* probes of the one-argument calls (probeMissing).                        *)
(***************************************************************************)
EXTENDS FPValues

CONSTANT Mutant

Dec(neg, m, e) == [t |-> "d", neg |-> neg, m |-> m, e |-> e]
El(r, addr)    == [t |-> "el", r |-> r, addr |-> addr, h |-> ""]

Table == <<
  [name |-> "empty", status |-> "implemented", counts |-> {0},
   recv |-> "%ints", args |-> <<>>,
   probes |-> <<
      [count |-> 0, recv |-> "%ints", args |-> <<>>, mode |-> "exact",
       exp |-> <<B(FALSE)>>],
      [count |-> 0, recv |-> "%two", args |-> <<>>, mode |-> "exact",
       exp |-> <<B(FALSE)>>],
      [count |-> 0, recv |-> "{}", args |-> <<>>, mode |-> "exact",
       exp |-> <<B(TRUE)>>]>>],
  [name |-> "exists", status |-> "implemented", counts |-> {0, 1},
   recv |-> "%ints", args |-> <<"$this > 2">>,
   probes |-> <<
      [count |-> 0, recv |-> "%ints", args |-> <<>>, mode |-> "exact",
       exp |-> <<B(TRUE)>>],
      [count |-> 0, recv |-> "{}", args |-> <<>>, mode |-> "exact",
       exp |-> <<B(FALSE)>>],
      [count |-> 1, recv |-> "%ints", args |-> <<"$this > 2">>, mode |-> "exact",
       exp |-> <<B(TRUE)>>],
      [count |-> 1, recv |-> "%ints", args |-> <<"$this > 3">>, mode |-> "exact",
       exp |-> <<B(FALSE)>>]>>],
  [name |-> "all", status |-> "implemented", counts |-> {1},
   recv |-> "%ints", args |-> <<"$this > 2">>,
   probes |-> <<
      [count |-> 1, recv |-> "%ints", args |-> <<"$this > 2">>, mode |-> "exact",
       exp |-> <<B(FALSE)>>],
      [count |-> 1, recv |-> "%ints", args |-> <<"$this > 0">>, mode |-> "exact",
       exp |-> <<B(TRUE)>>]>>],
  [name |-> "allTrue", status |-> "implemented", counts |-> {0},
   recv |-> "%tt", args |-> <<>>,
   probes |-> <<
      [count |-> 0, recv |-> "%tt", args |-> <<>>, mode |-> "exact",
       exp |-> <<B(TRUE)>>],
      [count |-> 0, recv |-> "%tf", args |-> <<>>, mode |-> "exact",
       exp |-> <<B(FALSE)>>],
      [count |-> 0, recv |-> "%ff", args |-> <<>>, mode |-> "exact",
       exp |-> <<B(FALSE)>>]>>],
  [name |-> "anyTrue", status |-> "implemented", counts |-> {0},
   recv |-> "%tf", args |-> <<>>,
   probes |-> <<
      [count |-> 0, recv |-> "%tt", args |-> <<>>, mode |-> "exact",
       exp |-> <<B(TRUE)>>],
      [count |-> 0, recv |-> "%tf", args |-> <<>>, mode |-> "exact",
       exp |-> <<B(TRUE)>>],
      [count |-> 0, recv |-> "%ff", args |-> <<>>, mode |-> "exact",
       exp |-> <<B(FALSE)>>]>>],
  [name |-> "allFalse", status |-> "implemented", counts |-> {0},
   recv |-> "%ff", args |-> <<>>,
   probes |-> <<
      [count |-> 0, recv |-> "%tt", args |-> <<>>, mode |-> "exact",
       exp |-> <<B(FALSE)>>],
      [count |-> 0, recv |-> "%tf", args |-> <<>>, mode |-> "exact",
       exp |-> <<B(FALSE)>>],
      [count |-> 0, recv |-> "%ff", args |-> <<>>, mode |-> "exact",
       exp |-> <<B(TRUE)>>]>>],
  [name |-> "anyFalse", status |-> "implemented", counts |-> {0},
   recv |-> "%tf", args |-> <<>>,
   probes |-> <<
      [count |-> 0, recv |-> "%tt", args |-> <<>>, mode |-> "exact",
       exp |-> <<B(FALSE)>>],
      [count |-> 0, recv |-> "%tf", args |-> <<>>, mode |-> "exact",
       exp |-> <<B(TRUE)>>],
      [count |-> 0, recv |-> "%ff", args |-> <<>>, mode |-> "exact",
       exp |-> <<B(TRUE)>>]>>],
  [name |-> "subsetOf", status |-> "notImplemented", counts |-> {1},
   recv |-> "%ints", args |-> <<"%ints">>,
   probes |-> <<>>],
  [name |-> "supersetOf", status |-> "notImplemented", counts |-> {1},
   recv |-> "%ints", args |-> <<"%ints">>,
   probes |-> <<>>],
  [name |-> "count", status |-> "implemented", counts |-> {0},
   recv |-> "%ints", args |-> <<>>,
   probes |-> <<
      [count |-> 0, recv |-> "%ints", args |-> <<>>, mode |-> "exact",
       exp |-> <<I(4)>>]>>],
  [name |-> "distinct", status |-> "implemented", counts |-> {0},
   recv |-> "%ints", args |-> <<>>,
   probes |-> <<
      [count |-> 0, recv |-> "%ints", args |-> <<>>, mode |-> "unordered",
       exp |-> <<I(1), I(2), I(3)>>]>>],
  [name |-> "isDistinct", status |-> "implemented", counts |-> {0},
   recv |-> "%ints", args |-> <<>>,
   probes |-> <<
      [count |-> 0, recv |-> "%ints", args |-> <<>>, mode |-> "exact",
       exp |-> <<B(FALSE)>>],
      [count |-> 0, recv |-> "%two", args |-> <<>>, mode |-> "exact",
       exp |-> <<B(TRUE)>>]>>],
  [name |-> "where", status |-> "implemented", counts |-> {1},
   recv |-> "%ints", args |-> <<"$this > 2">>,
   probes |-> <<
      [count |-> 1, recv |-> "%ints", args |-> <<"$this > 2">>, mode |-> "exact",
       exp |-> <<I(3)>>]>>],
  [name |-> "select", status |-> "implemented", counts |-> {1},
   recv |-> "%ints", args |-> <<"$this > 2">>,
   probes |-> <<
      [count |-> 1, recv |-> "%ints", args |-> <<"$this > 2">>, mode |-> "exact",
       exp |-> <<B(FALSE), B(FALSE), B(FALSE), B(TRUE)>>]>>],
  [name |-> "repeat", status |-> "notImplemented", counts |-> {1},
   recv |-> "%ints", args |-> <<"$this">>,
   probes |-> <<>>],
  [name |-> "ofType", status |-> "notImplemented", counts |-> {1},
   recv |-> "%ints", args |-> <<"Integer">>,
   probes |-> <<>>],
  [name |-> "single", status |-> "notImplemented", counts |-> {0},
   recv |-> "%two", args |-> <<>>,
   probes |-> <<>>],
  [name |-> "first", status |-> "implemented", counts |-> {0},
   recv |-> "%ints", args |-> <<>>,
   probes |-> <<
      [count |-> 0, recv |-> "%ints", args |-> <<>>, mode |-> "exact",
       exp |-> <<I(1)>>]>>],
  [name |-> "last", status |-> "implemented", counts |-> {0},
   recv |-> "%ints", args |-> <<>>,
   probes |-> <<
      [count |-> 0, recv |-> "%ints", args |-> <<>>, mode |-> "exact",
       exp |-> <<I(3)>>]>>],
  [name |-> "tail", status |-> "implemented", counts |-> {0},
   recv |-> "%ints", args |-> <<>>,
   probes |-> <<
      [count |-> 0, recv |-> "%ints", args |-> <<>>, mode |-> "exact",
       exp |-> <<I(2), I(2), I(3)>>]>>],
  [name |-> "skip", status |-> "implemented", counts |-> {1},
   recv |-> "%ints", args |-> <<"2">>,
   probes |-> <<
      [count |-> 1, recv |-> "%ints", args |-> <<"2">>, mode |-> "exact",
       exp |-> <<I(2), I(3)>>]>>],
  [name |-> "take", status |-> "implemented", counts |-> {1},
   recv |-> "%ints", args |-> <<"2">>,
   probes |-> <<
      [count |-> 1, recv |-> "%ints", args |-> <<"2">>, mode |-> "exact",
       exp |-> <<I(1), I(2)>>]>>],
  [name |-> "intersect", status |-> "implemented", counts |-> {1},
   recv |-> "%ints", args |-> <<"%two">>,
   probes |-> <<
      [count |-> 1, recv |-> "%ints", args |-> <<"%two">>, mode |-> "unordered",
       exp |-> <<I(2)>>]>>],
  [name |-> "exclude", status |-> "implemented", counts |-> {1},
   recv |-> "%ints", args |-> <<"%two">>,
   probes |-> <<
      [count |-> 1, recv |-> "%ints", args |-> <<"%two">>, mode |-> "exact",
       exp |-> <<I(1), I(3)>>]>>],
  [name |-> "union", status |-> "notImplemented", counts |-> {1},
   recv |-> "%ints", args |-> <<"%two">>,
   probes |-> <<>>],
  [name |-> "combine", status |-> "notImplemented", counts |-> {1},
   recv |-> "%ints", args |-> <<"%two">>,
   probes |-> <<>>],
  [name |-> "iif", status |-> "implemented", counts |-> {2, 3},
   recv |-> "", args |-> <<"false", "1", "2">>,
   probes |-> <<
      [count |-> 2, recv |-> "", args |-> <<"true", "1">>, mode |-> "exact",
       exp |-> <<I(1)>>],
      [count |-> 2, recv |-> "", args |-> <<"false", "1">>, mode |-> "exact",
       exp |-> <<>>],
      [count |-> 3, recv |-> "", args |-> <<"false", "1", "2">>, mode |-> "exact",
       exp |-> <<I(2)>>],
      [count |-> 3, recv |-> "", args |-> <<"true", "1", "2">>, mode |-> "exact",
       exp |-> <<I(1)>>]>>],
  [name |-> "toBoolean", status |-> "implemented", counts |-> {0},
   recv |-> "'false'", args |-> <<>>,
   probes |-> <<
      [count |-> 0, recv |-> "'false'", args |-> <<>>, mode |-> "exact",
       exp |-> <<B(FALSE)>>],
      [count |-> 0, recv |-> "1", args |-> <<>>, mode |-> "exact",
       exp |-> <<B(TRUE)>>]>>],
  [name |-> "convertsToBoolean", status |-> "implemented", counts |-> {0},
   recv |-> "'true'", args |-> <<>>,
   probes |-> <<
      [count |-> 0, recv |-> "'true'", args |-> <<>>, mode |-> "exact",
       exp |-> <<B(TRUE)>>],
      [count |-> 0, recv |-> "'42'", args |-> <<>>, mode |-> "exact",
       exp |-> <<B(FALSE)>>],
      [count |-> 0, recv |-> "'1.5'", args |-> <<>>, mode |-> "exact",
       exp |-> <<B(FALSE)>>],
      [count |-> 0, recv |-> "'2020-02-03'", args |-> <<>>, mode |-> "exact",
       exp |-> <<B(FALSE)>>],
      [count |-> 0, recv |-> "'04:05:06'", args |-> <<>>, mode |-> "exact",
       exp |-> <<B(FALSE)>>]>>],
  [name |-> "toInteger", status |-> "implemented", counts |-> {0},
   recv |-> "'42'", args |-> <<>>,
   probes |-> <<
      [count |-> 0, recv |-> "'42'", args |-> <<>>, mode |-> "exact",
       exp |-> <<I(42)>>],
      [count |-> 0, recv |-> "true", args |-> <<>>, mode |-> "exact",
       exp |-> <<I(1)>>]>>],
  [name |-> "convertsToInteger", status |-> "implemented", counts |-> {0},
   recv |-> "'42'", args |-> <<>>,
   probes |-> <<
      [count |-> 0, recv |-> "'true'", args |-> <<>>, mode |-> "exact",
       exp |-> <<B(FALSE)>>],
      [count |-> 0, recv |-> "'42'", args |-> <<>>, mode |-> "exact",
       exp |-> <<B(TRUE)>>],
      [count |-> 0, recv |-> "'1.5'", args |-> <<>>, mode |-> "exact",
       exp |-> <<B(FALSE)>>],
      [count |-> 0, recv |-> "'2020-02-03'", args |-> <<>>, mode |-> "exact",
       exp |-> <<B(FALSE)>>],
      [count |-> 0, recv |-> "'04:05:06'", args |-> <<>>, mode |-> "exact",
       exp |-> <<B(FALSE)>>]>>],
  [name |-> "toDate", status |-> "implemented", counts |-> {0},
   recv |-> "'2020-02-03'", args |-> <<>>,
   probes |-> <<
      [count |-> 0, recv |-> "'2020-02-03'", args |-> <<>>, mode |-> "exact",
       exp |-> <<[t |-> "date", p |-> 3, y |-> 2020, mo |-> 2, d |-> 3]>>]>>],
  [name |-> "convertsToDate", status |-> "implemented", counts |-> {0},
   recv |-> "'2020-02-03'", args |-> <<>>,
   probes |-> <<
      [count |-> 0, recv |-> "'true'", args |-> <<>>, mode |-> "exact",
       exp |-> <<B(FALSE)>>],
      [count |-> 0, recv |-> "'42'", args |-> <<>>, mode |-> "exact",
       exp |-> <<B(FALSE)>>],
      [count |-> 0, recv |-> "'1.5'", args |-> <<>>, mode |-> "exact",
       exp |-> <<B(FALSE)>>],
      [count |-> 0, recv |-> "'2020-02-03'", args |-> <<>>, mode |-> "exact",
       exp |-> <<B(TRUE)>>],
      [count |-> 0, recv |-> "'04:05:06'", args |-> <<>>, mode |-> "exact",
       exp |-> <<B(FALSE)>>],
      [count |-> 0, recv |-> "'2020-02-03T04:05:06'", args |-> <<>>, mode |-> "exact",
       exp |-> <<B(FALSE)>>]>>],
  [name |-> "toDateTime", status |-> "implemented", counts |-> {0},
   recv |-> "@2020-02-03", args |-> <<>>,
   probes |-> <<
      [count |-> 0, recv |-> "@2020-02-03", args |-> <<>>, mode |-> "exact",
       exp |-> <<[t |-> "dt", p |-> 3, y |-> 2020, mo |-> 2, d |-> 3, h |-> 0, mi |-> 0, sec |-> 0, ms |-> 0, tz |-> FALSE, off |-> 0]>>]>>],
  [name |-> "convertsToDateTime", status |-> "implemented", counts |-> {0},
   recv |-> "'2020-02-03T04:05:06'", args |-> <<>>,
   probes |-> <<
      [count |-> 0, recv |-> "'2020-02-03T04:05:06'", args |-> <<>>, mode |-> "exact",
       exp |-> <<B(TRUE)>>],
      [count |-> 0, recv |-> "'true'", args |-> <<>>, mode |-> "exact",
       exp |-> <<B(FALSE)>>],
      [count |-> 0, recv |-> "'42'", args |-> <<>>, mode |-> "exact",
       exp |-> <<B(FALSE)>>],
      [count |-> 0, recv |-> "'1.5'", args |-> <<>>, mode |-> "exact",
       exp |-> <<B(FALSE)>>],
      [count |-> 0, recv |-> "'04:05:06'", args |-> <<>>, mode |-> "exact",
       exp |-> <<B(FALSE)>>]>>],
  [name |-> "toDecimal", status |-> "implemented", counts |-> {0},
   recv |-> "'1.5'", args |-> <<>>,
   probes |-> <<
      [count |-> 0, recv |-> "'1.5'", args |-> <<>>, mode |-> "exact",
       exp |-> <<Dec(FALSE, <<15>>, -1)>>],
      [count |-> 0, recv |-> "'42'", args |-> <<>>, mode |-> "exact",
       exp |-> <<Dec(FALSE, <<42>>, 0)>>]>>],
  [name |-> "convertsToDecimal", status |-> "implemented", counts |-> {0},
   recv |-> "'1.5'", args |-> <<>>,
   probes |-> <<
      [count |-> 0, recv |-> "'true'", args |-> <<>>, mode |-> "exact",
       exp |-> <<B(FALSE)>>],
      [count |-> 0, recv |-> "'42'", args |-> <<>>, mode |-> "exact",
       exp |-> <<B(TRUE)>>],
      [count |-> 0, recv |-> "'1.5'", args |-> <<>>, mode |-> "exact",
       exp |-> <<B(TRUE)>>],
      [count |-> 0, recv |-> "'2020-02-03'", args |-> <<>>, mode |-> "exact",
       exp |-> <<B(FALSE)>>],
      [count |-> 0, recv |-> "'04:05:06'", args |-> <<>>, mode |-> "exact",
       exp |-> <<B(FALSE)>>]>>],
  [name |-> "toQuantity", status |-> "implemented", counts |-> {0, 1},
   recv |-> "1.5", args |-> <<"'1'">>,
   probes |-> <<
      [count |-> 0, recv |-> "5", args |-> <<>>, mode |-> "exact",
       exp |-> <<[t |-> "q", val |-> Dec(FALSE, <<5>>, 0), unit |-> <<49>>]>>],
      [count |-> 0, recv |-> "1.5", args |-> <<>>, mode |-> "exact",
       exp |-> <<[t |-> "q", val |-> Dec(FALSE, <<15>>, -1), unit |-> <<49>>]>>],
      [count |-> 1, recv |-> "1.5", args |-> <<"'1'">>, mode |-> "exact",
       exp |-> <<[t |-> "q", val |-> Dec(FALSE, <<15>>, -1), unit |-> <<49>>]>>]>>],
  [name |-> "convertsToQuantity", status |-> "implemented", counts |-> {0, 1},
   recv |-> "1.5", args |-> <<"'1'">>,
   probes |-> <<
      [count |-> 0, recv |-> "5", args |-> <<>>, mode |-> "exact",
       exp |-> <<B(TRUE)>>],
      [count |-> 0, recv |-> "1.5", args |-> <<>>, mode |-> "exact",
       exp |-> <<B(TRUE)>>],
      [count |-> 0, recv |-> "@2020-02-03", args |-> <<>>, mode |-> "exact",
       exp |-> <<B(FALSE)>>],
      [count |-> 1, recv |-> "1.5", args |-> <<"'1'">>, mode |-> "exact",
       exp |-> <<B(TRUE)>>]>>],
  [name |-> "toString", status |-> "implemented", counts |-> {0},
   recv |-> "42", args |-> <<>>,
   probes |-> <<
      [count |-> 0, recv |-> "42", args |-> <<>>, mode |-> "exact",
       exp |-> <<S(<<52, 50>>) (* 42 *)>>],
      [count |-> 0, recv |-> "true", args |-> <<>>, mode |-> "exact",
       exp |-> <<S(<<116, 114, 117, 101>>) (* true *)>>]>>],
  [name |-> "convertsToString", status |-> "implemented", counts |-> {0},
   recv |-> "42", args |-> <<>>,
   probes |-> <<
      [count |-> 0, recv |-> "42", args |-> <<>>, mode |-> "exact",
       exp |-> <<B(TRUE)>>],
      [count |-> 0, recv |-> "'true'", args |-> <<>>, mode |-> "exact",
       exp |-> <<B(TRUE)>>],
      [count |-> 0, recv |-> "'42'", args |-> <<>>, mode |-> "exact",
       exp |-> <<B(TRUE)>>],
      [count |-> 0, recv |-> "'1.5'", args |-> <<>>, mode |-> "exact",
       exp |-> <<B(TRUE)>>],
      [count |-> 0, recv |-> "'2020-02-03'", args |-> <<>>, mode |-> "exact",
       exp |-> <<B(TRUE)>>],
      [count |-> 0, recv |-> "'04:05:06'", args |-> <<>>, mode |-> "exact",
       exp |-> <<B(TRUE)>>]>>],
  [name |-> "toTime", status |-> "implemented", counts |-> {0},
   recv |-> "'04:05:06'", args |-> <<>>,
   probes |-> <<
      [count |-> 0, recv |-> "'04:05:06'", args |-> <<>>, mode |-> "exact",
       exp |-> <<[t |-> "time", p |-> 6, h |-> 4, mi |-> 5, sec |-> 6, ms |-> 0]>>]>>],
  [name |-> "convertsToTime", status |-> "implemented", counts |-> {0},
   recv |-> "'04:05:06'", args |-> <<>>,
   probes |-> <<
      [count |-> 0, recv |-> "'true'", args |-> <<>>, mode |-> "exact",
       exp |-> <<B(FALSE)>>],
      [count |-> 0, recv |-> "'42'", args |-> <<>>, mode |-> "exact",
       exp |-> <<B(FALSE)>>],
      [count |-> 0, recv |-> "'1.5'", args |-> <<>>, mode |-> "exact",
       exp |-> <<B(FALSE)>>],
      [count |-> 0, recv |-> "'2020-02-03'", args |-> <<>>, mode |-> "exact",
       exp |-> <<B(FALSE)>>],
      [count |-> 0, recv |-> "'04:05:06'", args |-> <<>>, mode |-> "exact",
       exp |-> <<B(TRUE)>>]>>],
  [name |-> "indexOf", status |-> "implemented", counts |-> {1},
   recv |-> "'abcabc'", args |-> <<"'c'">>,
   probes |-> <<
      [count |-> 1, recv |-> "'abcabc'", args |-> <<"'c'">>, mode |-> "exact",
       exp |-> <<I(2)>>],
      [count |-> 1, recv |-> "'abcdef'", args |-> <<"'abc'">>, mode |-> "exact",
       exp |-> <<I(0)>>]>>],
  [name |-> "substring", status |-> "implemented", counts |-> {1, 2},
   recv |-> "'abcdef'", args |-> <<"2", "3">>,
   probes |-> <<
      [count |-> 1, recv |-> "'abcdef'", args |-> <<"2">>, mode |-> "exact",
       exp |-> <<S(<<99, 100, 101, 102>>) (* cdef *)>>],
      [count |-> 2, recv |-> "'abcdef'", args |-> <<"2", "3">>, mode |-> "exact",
       exp |-> <<S(<<99, 100, 101>>) (* cde *)>>]>>],
  [name |-> "startsWith", status |-> "implemented", counts |-> {1},
   recv |-> "'abcdef'", args |-> <<"'abc'">>,
   probes |-> <<
      [count |-> 1, recv |-> "'abcdef'", args |-> <<"'abc'">>, mode |-> "exact",
       exp |-> <<B(TRUE)>>],
      [count |-> 1, recv |-> "'abcdef'", args |-> <<"'def'">>, mode |-> "exact",
       exp |-> <<B(FALSE)>>]>>],
  [name |-> "endsWith", status |-> "implemented", counts |-> {1},
   recv |-> "'abcdef'", args |-> <<"'def'">>,
   probes |-> <<
      [count |-> 1, recv |-> "'abcdef'", args |-> <<"'abc'">>, mode |-> "exact",
       exp |-> <<B(FALSE)>>],
      [count |-> 1, recv |-> "'abcdef'", args |-> <<"'def'">>, mode |-> "exact",
       exp |-> <<B(TRUE)>>]>>],
  [name |-> "contains", status |-> "implemented", counts |-> {1},
   recv |-> "'abcdef'", args |-> <<"'cd'">>,
   probes |-> <<
      [count |-> 1, recv |-> "'abcdef'", args |-> <<"'abc'">>, mode |-> "exact",
       exp |-> <<B(TRUE)>>],
      [count |-> 1, recv |-> "'abcdef'", args |-> <<"'def'">>, mode |-> "exact",
       exp |-> <<B(TRUE)>>],
      [count |-> 1, recv |-> "'abcdef'", args |-> <<"'cd'">>, mode |-> "exact",
       exp |-> <<B(TRUE)>>],
      [count |-> 1, recv |-> "'abcdef'", args |-> <<"'x'">>, mode |-> "exact",
       exp |-> <<B(FALSE)>>],
      [count |-> 1, recv |-> "'abcdef'", args |-> <<"'^a.c.*f$'">>, mode |-> "exact",
       exp |-> <<B(FALSE)>>]>>],
  [name |-> "upper", status |-> "implemented", counts |-> {0},
   recv |-> "'aBc'", args |-> <<>>,
   probes |-> <<
      [count |-> 0, recv |-> "'aBc'", args |-> <<>>, mode |-> "exact",
       exp |-> <<S(<<65, 66, 67>>) (* ABC *)>>]>>],
  [name |-> "lower", status |-> "implemented", counts |-> {0},
   recv |-> "'aBc'", args |-> <<>>,
   probes |-> <<
      [count |-> 0, recv |-> "'aBc'", args |-> <<>>, mode |-> "exact",
       exp |-> <<S(<<97, 98, 99>>) (* abc *)>>]>>],
  [name |-> "replace", status |-> "implemented", counts |-> {2},
   recv |-> "'abcabc'", args |-> <<"'b'", "'X'">>,
   probes |-> <<
      [count |-> 2, recv |-> "'abcabc'", args |-> <<"'b'", "'X'">>, mode |-> "exact",
       exp |-> <<S(<<97, 88, 99, 97, 88, 99>>) (* aXcaXc *)>>],
      [count |-> 2, recv |-> "'abcabc'", args |-> <<"'b.'", "'X'">>, mode |-> "exact",
       exp |-> <<S(<<97, 98, 99, 97, 98, 99>>) (* abcabc *)>>]>>],
  [name |-> "matches", status |-> "implemented", counts |-> {1},
   recv |-> "'abcdef'", args |-> <<"'^a.c.*f$'">>,
   probes |-> <<
      [count |-> 1, recv |-> "'abcdef'", args |-> <<"'^a.c.*f$'">>, mode |-> "exact",
       exp |-> <<B(TRUE)>>],
      [count |-> 1, recv |-> "'abcdef'", args |-> <<"'^x'">>, mode |-> "exact",
       exp |-> <<B(FALSE)>>]>>],
  [name |-> "replaceMatches", status |-> "implemented", counts |-> {2},
   recv |-> "'abcabc'", args |-> <<"'b.'", "'X'">>,
   probes |-> <<
      [count |-> 2, recv |-> "'abcabc'", args |-> <<"'b.'", "'X'">>, mode |-> "exact",
       exp |-> <<S(<<97, 88, 97, 88>>) (* aXaX *)>>],
      [count |-> 2, recv |-> "'abcabc'", args |-> <<"'b'", "'X'">>, mode |-> "exact",
       exp |-> <<S(<<97, 88, 99, 97, 88, 99>>) (* aXcaXc *)>>]>>],
  [name |-> "length", status |-> "implemented", counts |-> {0},
   recv |-> "'aBc'", args |-> <<>>,
   probes |-> <<
      [count |-> 0, recv |-> "'aBc'", args |-> <<>>, mode |-> "exact",
       exp |-> <<I(3)>>]>>],
  [name |-> "toChars", status |-> "implemented", counts |-> {0},
   recv |-> "'aBc'", args |-> <<>>,
   probes |-> <<
      [count |-> 0, recv |-> "'aBc'", args |-> <<>>, mode |-> "exact",
       exp |-> <<S(<<97>>) (* a *), S(<<66>>) (* B *), S(<<99>>) (* c *)>>]>>],
  [name |-> "abs", status |-> "implemented", counts |-> {0},
   recv |-> "(-1.4)", args |-> <<>>,
   probes |-> <<
      [count |-> 0, recv |-> "1.4", args |-> <<>>, mode |-> "num",
       exp |-> <<Dec(FALSE, <<14>>, -1)>>],
      [count |-> 0, recv |-> "1.6", args |-> <<>>, mode |-> "num",
       exp |-> <<Dec(FALSE, <<16>>, -1)>>],
      [count |-> 0, recv |-> "(-1.4)", args |-> <<>>, mode |-> "num",
       exp |-> <<Dec(FALSE, <<14>>, -1)>>]>>],
  [name |-> "ceiling", status |-> "implemented", counts |-> {0},
   recv |-> "1.4", args |-> <<>>,
   probes |-> <<
      [count |-> 0, recv |-> "1.4", args |-> <<>>, mode |-> "num",
       exp |-> <<Dec(FALSE, <<2>>, 0)>>],
      [count |-> 0, recv |-> "1.6", args |-> <<>>, mode |-> "num",
       exp |-> <<Dec(FALSE, <<2>>, 0)>>],
      [count |-> 0, recv |-> "(-1.4)", args |-> <<>>, mode |-> "num",
       exp |-> <<Dec(TRUE, <<1>>, 0)>>]>>],
  [name |-> "exp", status |-> "implemented", counts |-> {0},
   recv |-> "0", args |-> <<>>,
   probes |-> <<
      [count |-> 0, recv |-> "0", args |-> <<>>, mode |-> "num",
       exp |-> <<Dec(FALSE, <<1>>, 0)>>],
      [count |-> 0, recv |-> "1", args |-> <<>>, mode |-> "num",
       exp |-> <<Dec(FALSE, <<8183, 7182, 2>>, -8)>>]>>],
  [name |-> "floor", status |-> "implemented", counts |-> {0},
   recv |-> "1.4", args |-> <<>>,
   probes |-> <<
      [count |-> 0, recv |-> "1.4", args |-> <<>>, mode |-> "num",
       exp |-> <<Dec(FALSE, <<1>>, 0)>>],
      [count |-> 0, recv |-> "1.6", args |-> <<>>, mode |-> "num",
       exp |-> <<Dec(FALSE, <<1>>, 0)>>],
      [count |-> 0, recv |-> "(-1.4)", args |-> <<>>, mode |-> "num",
       exp |-> <<Dec(TRUE, <<2>>, 0)>>]>>],
  [name |-> "ln", status |-> "implemented", counts |-> {0},
   recv |-> "1", args |-> <<>>,
   probes |-> <<
      [count |-> 0, recv |-> "1", args |-> <<>>, mode |-> "num",
       exp |-> <<Dec(FALSE, <<>>, 0)>>],
      [count |-> 0, recv |-> "2", args |-> <<>>, mode |-> "num",
       exp |-> <<Dec(FALSE, <<4718, 6931>>, -8)>>]>>],
  [name |-> "log", status |-> "implemented", counts |-> {1},
   recv |-> "8", args |-> <<"2">>,
   probes |-> <<
      [count |-> 1, recv |-> "8", args |-> <<"2">>, mode |-> "num",
       exp |-> <<Dec(FALSE, <<3>>, 0)>>],
      [count |-> 1, recv |-> "100", args |-> <<"10">>, mode |-> "num",
       exp |-> <<Dec(FALSE, <<2>>, 0)>>]>>],
  [name |-> "power", status |-> "implemented", counts |-> {1},
   recv |-> "2", args |-> <<"3">>,
   probes |-> <<
      [count |-> 1, recv |-> "2", args |-> <<"3">>, mode |-> "num",
       exp |-> <<Dec(FALSE, <<8>>, 0)>>],
      [count |-> 1, recv |-> "2.5", args |-> <<"2">>, mode |-> "num",
       exp |-> <<Dec(FALSE, <<625>>, -2)>>]>>],
  [name |-> "round", status |-> "implemented", counts |-> {0, 1},
   recv |-> "1.4", args |-> <<"2">>,
   probes |-> <<
      [count |-> 0, recv |-> "1.4", args |-> <<>>, mode |-> "num",
       exp |-> <<Dec(FALSE, <<1>>, 0)>>],
      [count |-> 0, recv |-> "1.6", args |-> <<>>, mode |-> "num",
       exp |-> <<Dec(FALSE, <<2>>, 0)>>],
      [count |-> 0, recv |-> "(-1.4)", args |-> <<>>, mode |-> "num",
       exp |-> <<Dec(TRUE, <<1>>, 0)>>],
      [count |-> 1, recv |-> "3.14159", args |-> <<"2">>, mode |-> "num",
       exp |-> <<Dec(FALSE, <<314>>, -2)>>]>>],
  [name |-> "sqrt", status |-> "implemented", counts |-> {0},
   recv |-> "16", args |-> <<>>,
   probes |-> <<
      [count |-> 0, recv |-> "16", args |-> <<>>, mode |-> "num",
       exp |-> <<Dec(FALSE, <<4>>, 0)>>],
      [count |-> 0, recv |-> "2.25", args |-> <<>>, mode |-> "num",
       exp |-> <<Dec(FALSE, <<15>>, -1)>>]>>],
  [name |-> "truncate", status |-> "implemented", counts |-> {0},
   recv |-> "1.4", args |-> <<>>,
   probes |-> <<
      [count |-> 0, recv |-> "1.4", args |-> <<>>, mode |-> "num",
       exp |-> <<Dec(FALSE, <<1>>, 0)>>],
      [count |-> 0, recv |-> "1.6", args |-> <<>>, mode |-> "num",
       exp |-> <<Dec(FALSE, <<1>>, 0)>>],
      [count |-> 0, recv |-> "(-1.4)", args |-> <<>>, mode |-> "num",
       exp |-> <<Dec(TRUE, <<1>>, 0)>>]>>],
  [name |-> "children", status |-> "implemented", counts |-> {0},
   recv |-> "Patient.maritalStatus", args |-> <<>>,
   probes |-> <<
      [count |-> 0, recv |-> "Patient.maritalStatus", args |-> <<>>, mode |-> "unordered",
       exp |-> <<El(1, <<19, 1>>), El(1, <<19, 2>>)>>]>>],
  [name |-> "descendants", status |-> "implemented", counts |-> {0},
   recv |-> "Patient.maritalStatus", args |-> <<>>,
   probes |-> <<
      [count |-> 0, recv |-> "Patient.maritalStatus", args |-> <<>>, mode |-> "unordered",
       exp |-> <<El(1, <<19, 1>>), El(1, <<19, 2>>), El(1, <<19, 1, 1>>), El(1, <<19, 1, 2>>)>>]>>],
  [name |-> "trace", status |-> "notImplemented", counts |-> {1, 2},
   recv |-> "%ints", args |-> <<"'t'", "$this">>,
   probes |-> <<>>],
  [name |-> "now", status |-> "implemented", counts |-> {0},
   recv |-> "", args |-> <<>>,
   probes |-> <<
      [count |-> 0, recv |-> "", args |-> <<>>, mode |-> "type",
       exp |-> <<[t |-> "dt"]>>]>>],
  [name |-> "timeOfDay", status |-> "implemented", counts |-> {0},
   recv |-> "", args |-> <<>>,
   probes |-> <<
      [count |-> 0, recv |-> "", args |-> <<>>, mode |-> "type",
       exp |-> <<[t |-> "time"]>>]>>],
  [name |-> "today", status |-> "implemented", counts |-> {0},
   recv |-> "", args |-> <<>>,
   probes |-> <<
      [count |-> 0, recv |-> "", args |-> <<>>, mode |-> "type",
       exp |-> <<[t |-> "date"]>>]>>],
  [name |-> "not", status |-> "implemented", counts |-> {0},
   recv |-> "true", args |-> <<>>,
   probes |-> <<
      [count |-> 0, recv |-> "true", args |-> <<>>, mode |-> "exact",
       exp |-> <<B(FALSE)>>],
      [count |-> 0, recv |-> "false", args |-> <<>>, mode |-> "exact",
       exp |-> <<B(TRUE)>>]>>],
  [name |-> "extension", status |-> "implemented", counts |-> {1},
   recv |-> "Patient", args |-> <<"'http://example.org/ext/b'">>,
   probes |-> <<
      [count |-> 1, recv |-> "Patient", args |-> <<"'http://example.org/ext/b'">>, mode |-> "exact",
       exp |-> <<El(1, <<5>>)>>]>>],
  [name |-> "join", status |-> "experimental", counts |-> {0, 1},
   recv |-> "%strs", args |-> <<"','">>,
   probes |-> <<
      [count |-> 0, recv |-> "%strs", args |-> <<>>, mode |-> "exact",
       exp |-> <<S(<<97, 98>>) (* ab *)>>],
      [count |-> 1, recv |-> "%strs", args |-> <<"','">>, mode |-> "exact",
       exp |-> <<S(<<97, 44, 98>>) (* a,b *)>>]>>],
  [name |-> "zzCustom", status |-> "custom", counts |-> {1},
   recv |-> "%ints", args |-> <<"7">>,
   probes |-> <<
      [count |-> 1, recv |-> "%ints", args |-> <<"7">>, mode |-> "exact",
       exp |-> <<I(7), I(4)>>]>>]
>>

Statuses == {"implemented", "notImplemented", "experimental", "custom"}
Modes    == {"exact", "unordered", "num", "type"}
Configs  == {"default", "experimental", "custom"}
MaxProbeCount == 4

Names      == {Table[j].name : j \in 1..Len(Table)}
Known(n)   == n \in Names
Entry(n)   == Table[CHOOSE j \in 1..Len(Table) : Table[j].name = n]
MinCount(f) == CHOOSE c \in f.counts : \A d \in f.counts : c <= d
MaxCount(f) == CHOOSE c \in f.counts : \A d \in f.counts : c >= d

(* names a Compile under configuration cfg can resolve (not-implemented     *)
(* names are resolvable: they are bound to a placeholder that fails)        *)
VisibleIn(f, cfg) ==
  CASE f.status = "experimental" -> cfg \in {"experimental", "custom"}
    [] f.status = "custom"       -> cfg = "custom"
    [] OTHER                     -> TRUE
Visible(cfg) == {Table[j].name : j \in {h \in 1..Len(Table) : VisibleIn(Table[h], cfg)}}
(* must be callable with every count of `counts` *)
Callable(f, cfg) == f.status # "notImplemented" /\ VisibleIn(f, cfg)

(* ------------------------------------------------------------------------ *)
(* The Compile-acceptance rule: a call name(a1..ac) is accepted exactly     *)
(* when the name is in the table and min <= c <= max.                       *)
(* ------------------------------------------------------------------------ *)
InBounds(min, max, c) == min <= c /\ c <= (IF Mutant = "arityOffByOne" THEN max + 1 ELSE max)
Found(tableNames, n)  == Mutant = "acceptUnknown" \/ n \in tableNames
Accepts(tableNames, n, min, max, c) == Found(tableNames, n) /\ InBounds(min, max, c)

(* ------------------------------------------------------------------------ *)
(* Source text of calls                                                     *)
(* ------------------------------------------------------------------------ *)
RECURSIVE JoinTexts(_, _)
JoinTexts(args, j) ==
  IF j > Len(args) THEN "" ELSE (IF j > 1 THEN ", " ELSE "") \o args[j] \o JoinTexts(args, j + 1)
CallText(recv, name, args) ==
  (IF recv = "" THEN "" ELSE recv \o ".") \o name \o "(" \o JoinTexts(args, 1) \o ")"
ArgsFor(f, c)   == [j \in 1..c |-> IF j <= Len(f.args) THEN f.args[j] ELSE "1"]
DefaultText(f, c) == CallText(f.recv, f.name, ArgsFor(f, c))
ProbeText(f, p) == CallText(p.recv, f.name, p.args)
ProbesAt(f, c)  == IF Mutant = "probeMissing" /\ c = 1 THEN <<>> ELSE SelectSeq(f.probes, LAMBDA p : p.count = c)

(* ------------------------------------------------------------------------ *)
(* Well-formedness of the table                                             *)
(* ------------------------------------------------------------------------ *)
UniqueNames == \A j, h \in 1..Len(Table) : Table[j].name = Table[h].name => j = h

EntryOK(f) ==
  /\ f.status \in Statuses
  /\ f.counts # {} /\ f.counts \subseteq 0..MaxProbeCount
  /\ f.counts = MinCount(f)..MaxCount(f)                 \* a table of [min, max] bounds can state it
  /\ Len(f.args) = MaxCount(f)
  /\ \A j \in 1..Len(f.probes) :
        LET p == f.probes[j]
        IN /\ p.count \in f.counts /\ Len(p.args) = p.count
           /\ p.mode \in Modes
           /\ (p.mode \in {"num", "type"} => Len(p.exp) = 1)
  /\ IF f.status = "notImplemented" THEN Len(f.probes) = 0
     ELSE \A c \in f.counts : Len(ProbesAt(f, c)) > 0     \* every callable (name, count) has a probe

(* Two functions probed on the same operands must be told apart there.      *)
SameOperands(p, q) == p.count = q.count /\ p.recv = q.recv /\ p.args = q.args
Shared(f, g) == {pq \in (1..Len(f.probes)) \X (1..Len(g.probes)) : SameOperands(f.probes[pq[1]], g.probes[pq[2]])}
Conflict(f, g) ==
  /\ Shared(f, g) # {}
  /\ \A pq \in Shared(f, g) : f.probes[pq[1]].exp = g.probes[pq[2]].exp
PairwiseDistinguished ==
  \A j, h \in 1..Len(Table) : j # h => ~Conflict(Table[j], Table[h])

WellFormed == UniqueNames /\ (\A j \in 1..Len(Table) : EntryOK(Table[j])) /\ PairwiseDistinguished
=============================================================================
