------------------------------- MODULE C09_Sim -------------------------------
(***************************************************************************)
(* Seeded sampling of the full product of the property's quantifier        *)
(* (tlc -simulate): every day of the 4-year cycle and the 0001/9999 edges  *)
(* x every type and precision x the four offsets x any time of day x every *)
(* unit spelling x the listed amounts and random ones (up to 2000, with up *)
(* to three decimals) x {ar, inv, cmp}.  Every step draws one case and     *)
(* emits it; the draws are bound variables so that one case uses one draw. *)
(***************************************************************************)
EXTENDS C09, Json

VARIABLE cs

Ar(x, op, q)       == [kind |-> "ar",  x |-> x, op |-> op, q |-> q, q2 |-> q]
Start == Ar(MkDate(3, 2020, 1, 31), "+", Qty(1000, "month"))

Days == {c \in {<<ym[1], ym[2], d>> : ym \in CycleMonths, d \in 1..31} : c[3] <= MonthLen(c[1], c[2])}
Window == {c \in Days : DayNum(c[1], c[2], c[3]) \in DayNum(2020, 1, 15)..(DayNum(2020, 1, 15) + 59)}

Build(kx, kp, c, e, w, tod, rtod, o, ku, uo, uu, uk, ka, a1, a2, a3, f3, op, kk, b2) ==
  LET day == IF kx % 7 = 0 THEN e ELSE IF kx <= 30 THEN c ELSE IF kx % 4 = 0 THEN c ELSE w
      ms  == IF kp % 3 = 0 THEN rtod ELSE tod
      x   == IF kx <= 30 THEN MkDate(1 + (kp % 3), day[1], day[2], day[3])
             ELSE IF kx <= 80 THEN MkDT(1 + (kp % 7), day[1], day[2], day[3], ms, o)
             ELSE MkTime(4 + (kp % 4), ms)
      u   == IF ku = 1 THEN uo ELSE IF ku <= 5 THEN uu ELSE uk
      th  == IF ka <= 6 THEN a1 ELSE IF ka <= 8 THEN a2 * 500 ELSE a3 * 1000 + f3
      th2 == IF ka <= 6 THEN b2 ELSE th + (b2 \div 1000) * 500
      kind == IF kk <= 14 THEN "ar" ELSE IF kk <= 17 THEN "inv" ELSE "cmp"
  IN [kind |-> kind, x |-> x, op |-> op, q |-> Qty(th, u), q2 |-> IF kind = "cmp" THEN Qty(th2, u) ELSE Qty(th, u)]

(* state-level on purpose: TLC evaluates constant-level expressions once *)
Rnd(Pool) == RandomElement(IF cs.kind = "none" THEN {} ELSE Pool)

Init == cs = Start
Next ==
  \E kx \in {Rnd(1..100)}, kp \in {Rnd(0..83)}, c \in {Rnd(Days)}, e \in {Rnd(EdgeDays)},
     w \in {Rnd(Window)}, tod \in {Rnd(DayTimes)}, rtod \in {Rnd(0..86399999)},
     o \in {Rnd(Offsets)}, ku \in {Rnd(1..20)}, uo \in {Rnd(OtherUnits)},
     uu \in {Rnd(UcumUnits)}, uk \in {Rnd(KeywordUnits)}, ka \in {Rnd(1..10)},
     a1 \in {Rnd(Amounts)}, a2 \in {Rnd(-3000..3000)}, a3 \in {Rnd(1..2000)},
     f3 \in {Rnd({0, 1, 250, 500, 999})}, op \in {Rnd({"+", "-"})}, kk \in {Rnd(1..20)},
     b2 \in {Rnd(Amounts)} :
       /\ cs' = Build(kx, kp, c, e, w, tod, rtod, o, ku, uo, uu, uk, ka, a1, a2, a3, f3, op, kk, b2)
       /\ PrintT(ToJson(Emit(cs')))
Spec == Init /\ [][Next]_cs
=============================================================================
