------------------------------ MODULE C20Base ------------------------------
(***************************************************************************)
(* Shared by the modules of property C20 (FPExtensionOps, FPExtensions,    *)
(* FPWrappers, C20_MC, C20_Judge): the mutant selector and helpers.         *)
(* Mutant = "none" is the specification; every other value switches ONE    *)
(* definition to a deliberately wrong variant that the laws must reject.   *)
(***************************************************************************)
EXTENDS Naturals, Integers, Sequences, FiniteSets, TLC

CONSTANT Mutant

SeqSet(s) == {s[j] : j \in 1..Len(s)}

(* indices of s (in order) whose element satisfies P *)
IndicesWhere(s, P(_)) == SelectSeq([j \in 1..Len(s) |-> j], LAMBDA j : P(s[j]))

NoDup(s) == \A j, k \in 1..Len(s) : j # k => s[j] # s[k]

Reverse(s) == [j \in 1..Len(s) |-> s[Len(s) + 1 - j]]

(* all sequences over S of length 0..n *)
RECURSIVE SeqsUpTo(_, _)
SeqsUpTo(S, n) == IF n = 0 THEN {<<>>}
                  ELSE LET shorter == SeqsUpTo(S, n - 1)
                       IN shorter \cup {Append(q, x) : q \in {r \in shorter : Len(r) = n - 1}, x \in S}
=============================================================================
