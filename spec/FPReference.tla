---------------------------- MODULE FPReference ----------------------------
(***************************************************************************)
(* Reference semantics of FHIR literal references, resource identities and *)
(* canonical URLs: abstract components <-> string.                          *)
(*                                                                         *)
(* Strings are TLA+ strings.  Everything this module handles is ASCII (the  *)
(* FHIR id alphabet, URL characters, the fixed tokens "/", "#", "|",        *)
(* "_history", "urn:uuid:", ...); TLC's Len, SubSeq, Tail and \o work on    *)
(* strings, so the grammar below is STRUCTURAL (split on "/", recognise the *)
(* resource type from the R4 list, recognise "_history") and uses no        *)
(* regular expression.                                                      *)
(*                                                                         *)
(* Components (one record shape for every form, unused fields are ""):      *)
(*   [form |-> "rest", type, base, rid, ver]    REST identity: service base *)
(*        URL or "" (relative), resource type, id, version id or ""         *)
(*   [form |-> "frag", frag]                    "#id", frag = "" is "#"     *)
(*   [form |-> "nonrest", uri]                  URN (uuid / oid) or another *)
(*        absolute URI that is not a REST resource URL                      *)
(*                                                                         *)
(* Mutant selects a deliberately wrong variant; the laws of C19_MC must     *)
(* FAIL for every mutant.                                                   *)
(***************************************************************************)
EXTENDS Naturals, Sequences, FiniteSets, TLC, C19Types

CONSTANT Mutant

R4Types == {R4TypeSeq[i] : i \in 1..Len(R4TypeSeq)}

(* ------------------------------------------------------------ characters *)
Ch(s, i) == SubSeq(s, i, i)
Upper == {"A","B","C","D","E","F","G","H","I","J","K","L","M","N","O","P","Q","R","S","T","U","V","W","X","Y","Z"}
Lower == {"a","b","c","d","e","f","g","h","i","j","k","l","m","n","o","p","q","r","s","t","u","v","w","x","y","z"}
Digit == {"0","1","2","3","4","5","6","7","8","9"}
HexCh == Digit \cup {"a","b","c","d","e","f","A","B","C","D","E","F"}
IdChar == Upper \cup Lower \cup Digit \cup {"-", "."}
(* characters of a service base URL segment that every reading of the FHIR *)
(* REST URL grammar allows (the strict zone; see IsStrictBase)             *)
BaseChar == Upper \cup Lower \cup Digit \cup {"-", ".", ":"}

LowerMap == [A |-> "a", B |-> "b", C |-> "c", D |-> "d", E |-> "e", F |-> "f", G |-> "g", H |-> "h",
             I |-> "i", J |-> "j", K |-> "k", L |-> "l", M |-> "m", N |-> "n", O |-> "o", P |-> "p",
             Q |-> "q", R |-> "r", S |-> "s", T |-> "t", U |-> "u", V |-> "v", W |-> "w", X |-> "x",
             Y |-> "y", Z |-> "z"]
UpperMap == [a |-> "A", b |-> "B", c |-> "C", d |-> "D", e |-> "E", f |-> "F", g |-> "G", h |-> "H",
             i |-> "I", j |-> "J", k |-> "K", l |-> "L", m |-> "M", n |-> "N", o |-> "O", p |-> "P",
             q |-> "Q", r |-> "R", s |-> "S", t |-> "T", u |-> "U", v |-> "V", w |-> "W", x |-> "X",
             y |-> "Y", z |-> "Z"]
LowerFirst(s) == IF s # "" /\ Ch(s, 1) \in Upper THEN LowerMap[Ch(s, 1)] \o Tail(s) ELSE s
UpperFirst(s) == IF s # "" /\ Ch(s, 1) \in Lower THEN UpperMap[Ch(s, 1)] \o Tail(s) ELSE s

AllIn(s, set) == \A i \in 1..Len(s) : Ch(s, i) \in set
HasCh(s, c)   == \E i \in 1..Len(s) : Ch(s, i) = c
StartsWith(s, p) == Len(s) >= Len(p) /\ SubSeq(s, 1, Len(p)) = p
EndsWith(s, p) == Len(s) >= Len(p) /\ SubSeq(s, Len(s) - Len(p) + 1, Len(s)) = p
Drop(s, n)    == SubSeq(s, n + 1, Len(s))

(* The FHIR id datatype: [A-Za-z0-9\-\.]{1,64} *)
IsId(s) == Len(s) \in 1..64 /\ AllIn(s, IdChar)

(* ------------------------------------------------------------ split/join *)
(* Character loops are written as set comprehensions over positions, not as *)
(* recursions: TLC evaluates a 250-level recursion some 50 times slower.    *)
Positions(s, c, from) == {i \in from..Len(s) : Ch(s, i) = c}
MinOf(P) == CHOOSE i \in P : \A j \in P : i <= j
(* index of the first occurrence of c in s at or after position from, or 0 *)
IndexFrom(s, c, from) == LET P == Positions(s, c, from) IN IF P = {} THEN 0 ELSE MinOf(P)

Split(s, c) ==                                   \* Split("", c) = <<"">>
  LET P == Positions(s, c, 1)
      n == Cardinality(P)
      pos == [k \in 1..n |-> CHOOSE i \in P : Cardinality({j \in P : j < i}) = k - 1]
      lo(k) == IF k = 1 THEN 1 ELSE pos[k - 1] + 1
      hi(k) == IF k = n + 1 THEN Len(s) ELSE pos[k] - 1
  IN [k \in 1..(n + 1) |-> SubSeq(s, lo(k), hi(k))]

RECURSIVE Join(_, _)
Join(parts, sep) ==
  IF Len(parts) = 0 THEN ""
  ELSE IF Len(parts) = 1 THEN parts[1]
  ELSE parts[1] \o sep \o Join(Tail(parts), sep)

(* "Redundant slashes": an empty path segment other than the one in "://"  *)
(* (a doubled, leading or trailing "/").  Both are defined on the segments  *)
(* of a string, Split(s, "/"), so that a string is split once.              *)
EndsWithColon(p) == p # "" /\ Ch(p, Len(p)) = ":"
RedundantP(parts) ==
  \E j \in 1..Len(parts) : parts[j] = "" /\ Len(parts) > 1 /\ ~(j = 2 /\ EndsWithColon(parts[1]))
HasRedundantSlash(s) == RedundantP(Split(s, "/"))
(* a comparison device for inputs with redundant slashes: the non-empty     *)
(* segments, joined (both sides are squeezed the same way)                  *)
SqueezeP(parts) == Join(SelectSeq(parts, LAMBDA p : p # ""), "/")
Squeeze(s) == SqueezeP(Split(s, "/"))

RECURSIVE TrimRightSlash(_)
TrimRightSlash(s) == IF s # "" /\ Ch(s, Len(s)) = "/" THEN TrimRightSlash(SubSeq(s, 1, Len(s) - 1)) ELSE s

(* ------------------------------------------------------------ components *)
Rest(type, base, rid, ver) == [form |-> "rest", type |-> type, base |-> base, rid |-> rid, ver |-> ver, frag |-> "", uri |-> ""]
Frag(f)    == [form |-> "frag", type |-> "", base |-> "", rid |-> "", ver |-> "", frag |-> f, uri |-> ""]
NonRest(u) == [form |-> "nonrest", type |-> "", base |-> "", rid |-> "", ver |-> "", frag |-> "", uri |-> u]

OkC(c)   == [k |-> "ok", c |-> c, why |-> ""]
Err(why) == [k |-> "err", c |-> NonRest(""), why |-> why]
(* "open": the property does not say whether such a string is accepted; an  *)
(* implementation may reject it or accept it as an opaque non-REST URI      *)
Open(why) == [k |-> "open", c |-> NonRest(""), why |-> why]

(* A service base URL in the strict zone: http(s)://seg(/seg)* with non-    *)
(* empty segments over BaseChar, no trailing slash.                        *)
IsStrictBaseParts(p) ==
  /\ Len(p) >= 3
  /\ p[1] \in {"http:", "https:"}
  /\ p[2] = ""
  /\ \A j \in 3..Len(p) : p[j] # "" /\ AllIn(p[j], BaseChar)
IsStrictBase(b) == IsStrictBaseParts(Split(b, "/"))
(* the canonical form of a base URL: trailing slashes are redundant *)
CanonBase(b) == TrimRightSlash(b)
ValidComps(c) ==
  CASE c.form = "rest" -> /\ c.type \in R4Types /\ IsId(c.rid) /\ (c.ver = "" \/ IsId(c.ver))
                          /\ (c.base = "" \/ IsStrictBase(CanonBase(c.base)))
    [] c.form = "frag" -> c.frag = "" \/ IsId(c.frag)
    [] c.form = "nonrest" -> c.uri # ""
Canon(c) == IF c.form = "rest" THEN [c EXCEPT !.base = CanonBase(c.base)] ELSE c

(* ---------------------------------------------------------------- Format *)
RelText(c) ==
  c.type \o "/" \o c.rid \o
  (IF c.ver = "" \/ Mutant = "dropVersion" THEN "" ELSE "/_history/" \o c.ver)

Format(c) ==
  CASE c.form = "rest"    -> (IF c.base = "" THEN RelText(c) ELSE c.base \o "/" \o RelText(c))
    [] c.form = "frag"    -> "#" \o c.frag
    [] c.form = "nonrest" -> c.uri

(* ----------------------------------------------------------------- Parse *)
TypeOfName(n) ==      \* the R4 type a path segment names, or ""
  IF n \in R4Types THEN n
  ELSE IF Mutant = "typeCaseInsensitive" /\ UpperFirst(n) \in R4Types THEN UpperFirst(n)
  ELSE ""

IsUuid(s) ==
  /\ Len(s) = 36
  /\ \A i \in 1..36 : IF i \in {9, 14, 19, 24} THEN Ch(s, i) = "-" ELSE Ch(s, i) \in HexCh
IsOid(s) ==
  /\ Len(s) >= 3 /\ AllIn(s, Digit \cup {"."})
  /\ Ch(s, 1) \in {"0", "1", "2"} /\ Ch(s, Len(s)) # "."
  /\ \A i \in 1..(Len(s) - 1) : ~(Ch(s, i) = "." /\ Ch(s, i + 1) = ".")

HasScheme(s) ==
  LET i == IndexFrom(s, ":", 1)
  IN i > 1 /\ Ch(s, 1) \in (Upper \cup Lower)
     /\ AllIn(SubSeq(s, 1, i - 1), Upper \cup Lower \cup Digit \cup {"+", "-", "."})

RECURSIVE TrimRightEmpty(_)
TrimRightEmpty(parts) ==
  IF Len(parts) > 0 /\ parts[Len(parts)] = "" THEN TrimRightEmpty(SubSeq(parts, 1, Len(parts) - 1)) ELSE parts

ParseURI(s) ==
  LET parts == Split(s, "/")
      n == Len(parts)
      versioned == n >= 4 /\ parts[n - 1] = "_history"
      tpos == IF versioned THEN n - 3 ELSE n - 1
      ty  == IF tpos >= 1 THEN TypeOfName(parts[tpos]) ELSE ""
      rid == IF tpos >= 1 THEN parts[tpos + 1] ELSE ""
      ver == IF versioned THEN parts[n] ELSE ""
      pre == IF tpos >= 1 THEN SubSeq(parts, 1, tpos - 1) ELSE <<>>
      preT == TrimRightEmpty(pre)                      \* trailing slashes of the base are redundant
      base == IF Mutant = "keepTrailingSlash" /\ Len(pre) > 0 THEN Join(pre, "/") \o "/" ELSE Join(preT, "/")
      shapeOk == tpos >= 1 /\ ty # "" /\ IsId(rid) /\ (~versioned \/ IsId(ver))
  IN IF shapeOk /\ Len(pre) = 0 THEN OkC(Rest(ty, "", rid, ver))
     ELSE IF shapeOk /\ IsStrictBaseParts(preT) THEN OkC(Rest(ty, base, rid, ver))
     ELSE IF StartsWith(s, "urn:uuid:") /\ IsUuid(Drop(s, 9)) THEN OkC(NonRest(s))
     ELSE IF StartsWith(s, "urn:oid:") /\ IsOid(Drop(s, 8)) THEN OkC(NonRest(s))
     ELSE IF HasScheme(s) THEN Open("absolute-uri-not-rest")
     ELSE Err("not-a-reference")

Parse(s) ==
  IF s = "" THEN Err("empty")
  ELSE IF Ch(s, 1) = "#" THEN
    (LET f == Tail(s)
     IN IF f = "" \/ IsId(f) THEN OkC(Frag(IF Mutant = "fragmentKeepsHash" THEN s ELSE f))
        ELSE Err("fragment-id"))
  ELSE IF HasCh(s, "#") THEN Err("fragment-not-leading")
  ELSE IF HasCh(s, "|") THEN Err("canonical-version")
  ELSE ParseURI(s)

(* ------------------------------------------------- strong / weak, identity *)
(* A typed (strong) reference carries the type in its oneof field and the   *)
(* id and optional history in a ReferenceId; it has no base URL.            *)
Strong(type, rid, ver) == [type |-> type, rid |-> rid, hist |-> ver]
StrongInfo(r) == Rest(r.type, "", r.rid, r.hist)
WeakInfo(text) == Parse(text)

(* A reference element as the comparison sees it:                            *)
(*   shape "strong": typed reference (type, rid, ver)                       *)
(*   shape "weak" / "weaknt": URI reference `text` with / without a         *)
(*       Reference.type element                                             *)
(*   shape "frag": fragment reference to contained resource rid             *)
(*   shape "none": NO literal part at all (logical / display-only /         *)
(*       type-only / empty Reference)                                       *)
(*   ident: the logical identifier ("" = none), display: the display text;  *)
(*   both may accompany any shape.                                          *)
NoIdentity == [has |-> FALSE, type |-> "", rid |-> "", ver |-> ""]
IdentityOfInfo(c) == [has |-> TRUE, type |-> c.type, rid |-> c.rid, ver |-> c.ver]
IdentityOfRef(r) ==
  CASE r.shape = "strong" -> [has |-> TRUE, type |-> r.type, rid |-> r.rid, ver |-> r.ver]
    [] r.shape \in {"weak", "weaknt"} ->
         (LET p == Parse(r.text) IN IF p.k = "ok" /\ p.c.form = "rest" THEN IdentityOfInfo(p.c) ELSE NoIdentity)
    [] OTHER -> NoIdentity
HasLiteral(r) == r.shape # "none"

VersionsAgree(a, b) ==
  IF Mutant = "versionWildcard" THEN a.ver = "" \/ b.ver = "" \/ a.ver = b.ver ELSE a.ver = b.ver

(* Two references are the same reference when they are the same element, or *)
(* their logical identifiers agree and                                      *)
(*   - neither has a literal part, or                                       *)
(*   - both name a REST identity and the identities are equal.              *)
(* A literal part on ONE side only is never "the same": the guard looks at  *)
(* BOTH operands (mutant "leftOnlyLiteralGuard" looks at the first only and *)
(* loses symmetry).  RefInfo is the parse of a reference, computed once.    *)
RefInfo(r) ==
  [ref |-> r, id |-> IdentityOfRef(r), lit |-> HasLiteral(r),
   base |-> IF r.shape \in {"weak", "weaknt"} THEN Parse(r.text).c.base ELSE ""]
SameRefI(x, y) ==
  \/ x.ref = y.ref
  \/ /\ x.ref.ident = y.ref.ident
     /\ IF x.lit \/ (y.lit /\ Mutant # "leftOnlyLiteralGuard")
        THEN x.id.has /\ y.id.has /\ x.id.type = y.id.type /\ x.id.rid = y.id.rid /\ VersionsAgree(x.id, y.id)
        ELSE TRUE
SameRef(a, b) == SameRefI(RefInfo(a), RefInfo(b))

(* --------------------------------------------------------------- canonical *)
(* url|version#fragment.  Well-formed: url non-empty without "|" and "#";   *)
(* version "" or a token over the id alphabet; fragment "" or an id.        *)
CanonFormat(u, v, f) ==
  IF Mutant = "canonSwapOrder"
  THEN u \o (IF f = "" THEN "" ELSE "#" \o f) \o (IF v = "" THEN "" ELSE "|" \o v)
  ELSE u \o (IF v = "" THEN "" ELSE "|" \o v) \o (IF f = "" THEN "" ELSE "#" \o f)

CanonOk(u, v, f) == [k |-> "ok", url |-> u, ver |-> v, frag |-> f]
CanonErr == [k |-> "err", url |-> "", ver |-> "", frag |-> ""]
IsCanonVersion(v) == v # "" /\ AllIn(v, IdChar)
WellFormedCanon(u, v, f) ==
  /\ u # "" /\ ~HasCh(u, "|") /\ ~HasCh(u, "#")
  /\ (v = "" \/ IsCanonVersion(v))
  /\ (f = "" \/ IsId(f))

CanonParse(s) ==
  LET ib == IndexFrom(s, "|", 1)
      ih == IndexFrom(s, "#", 1)
      cut == IF ib = 0 THEN ih ELSE IF ih = 0 THEN ib ELSE IF ib < ih THEN ib ELSE ih
      u == IF cut = 0 THEN s ELSE SubSeq(s, 1, cut - 1)
      hasV == ib # 0 /\ (ih = 0 \/ ib < ih)
      v == IF ~hasV THEN "" ELSE IF ih = 0 THEN Drop(s, ib) ELSE SubSeq(s, ib + 1, ih - 1)
      f == IF ih = 0 THEN "" ELSE Drop(s, ih)
  IN IF u = "" THEN CanonErr
     ELSE IF hasV /\ ~IsCanonVersion(v) THEN CanonErr
     ELSE IF ih # 0 /\ ~IsId(f) THEN CanonErr       \* covers a "|" after the "#" as well
     ELSE CanonOk(u, v, f)
=============================================================================
