-------------------------------- MODULE C20 --------------------------------
(***************************************************************************)
(* Property C20: resource, bundle and extension wrappers are inverses for  *)
(* every R4 type; URL-keyed extension mutators change only that URL;       *)
(* extraction finds every element of a type once, with a path that locates *)
(* it.  This module is the case space (wrapper and extraction cases; the   *)
(* behaviours of the extension list come from FPExtensions) and the        *)
(* verdict for each kind of observation.  C20_MC explores and emits the    *)
(* cases, C20_Judge applies the verdicts to what the real code did.        *)
(***************************************************************************)
EXTENDS FPWrappers, FPExtensionOps

(* ------------------------------------------------------------ case space *)
NRes == Len(ResTypes)
Window(i, k) == [j \in 1..k |-> ResTypes[((i + j - 2) % NRes) + 1]]

Case(kind, t, ts, tag, res, form) == [kind |-> kind, t |-> t, ts |-> ts, tag |-> tag, res |-> res, form |-> form]
ResCases    == {Case("res", t, <<>>, "x", "", "") : t \in ResTypeSet}
ExtValCases == {Case("extval", t, <<>>, "x", "", "") : t \in ExtTypeSet}
(* bundles of 0..3 entries: every type leads a window of 1, 2 and 3        *)
(* consecutive types, and a bundle holding two resources of that type      *)
BundleCases ==
  {Case("bundle", "none", <<>>, "w0", "", "")}
  \cup {Case("bundle", ResTypes[i], Window(i, k), "w" \o ToString(k), "", "") : i \in 1..NRes, k \in 1..3}
  \cup {Case("bundle", ResTypes[i], <<ResTypes[i], ResTypes[i]>>, "twice", "", "") : i \in 1..NRes}

(* the shared model resources, and six more documents of other shapes     *)
(* (spec/data/C20_X*.json: Encounter, MedicationRequest with Dosage/Timing, *)
(* nested Questionnaire items, Parameters with many value[x], Condition,    *)
(* and X6: an Observation with 17 identifiers and 13 components - list      *)
(* positions of two digits in the labels)                                   *)
ModelRes     == {"MR1", "MR2", "MR3", "MR4", "C20_X1", "C20_X2", "C20_X3", "C20_X4", "C20_X5", "C20_X6"}
ExtractTypes == {"Reference", "Identifier", "Coding", "Extension", "string", "dateTime"}
ExtractCases == {Case("extract", T, <<>>, r \o "~" \o f, r, f) : r \in ModelRes, f \in {"asis", "nocontained"}, T \in ExtractTypes}

Cases == ResCases \cup ExtValCases \cup BundleCases \cup ExtractCases
CaseId(c) == c.kind \o "/" \o c.t \o "/" \o c.tag

(* ----------------------------------------------------------- verdict aid *)
(* an aspect is [a, ok, why]; the verdict reports the first that fails *)
Asp(a, ok, why) == [a |-> a, ok |-> ok, why |-> why]
FirstBad(asps) == LET bad == IndicesWhere(asps, LAMBDA x : ~x.ok) IN IF Len(bad) = 0 THEN 0 ELSE bad[1]

V(id, ok, sig, want) == [id |-> id, ok |-> ok, sig |-> IF ok THEN "" ELSE sig, want |-> want]

(* a creation call: succeeds, reports the type, two calls give two fresh   *)
(* empty instances                                                         *)
CreatedOk(c, t) == c.k = "ok" /\ c.ty = t /\ c.fresh
CreatedWhy(c, t) == IF c.k # "ok" THEN c.k ELSE IF c.ty # t THEN "reports-" \o c.ty ELSE "not-fresh"
(* a wrapping call: the populated member is the schema's, it is the only   *)
(* one, and it holds the very object                                       *)
WrappedOk(c, s) == c.k = "ok" /\ c.slot = s /\ c.nslot = 1 /\ c.same
WrappedWhy(c, s) == IF c.k # "ok" THEN c.k ELSE IF c.slot # s THEN "slot-" \o c.slot
                    ELSE IF c.nslot # 1 THEN "members-" \o ToString(c.nslot) ELSE "not-the-same-object"
SameOk(c) == c.k = "ok" /\ c.same
SameWhy(c) == IF c.k # "ok" THEN c.k ELSE "not-the-same-object"
TypeOk(c, t) == c.k = "ok" /\ c.ty = t
TypeWhy(c, t) == IF c.k # "ok" THEN c.k ELSE "reports-" \o c.ty

(* ------------------------------------------------------------- resources *)
VerdictRes(o) ==
  IF o.t \notin ResTypeSet THEN V(o.id, FALSE, "malformed|res|unknown-type", "")
  ELSE
  LET t == o.t
      s == SlotOfRes(t)
      asps == <<
        Asp("NewFromString", CreatedOk(o.newFromString, t), CreatedWhy(o.newFromString, t)),
        Asp("NewType", o.newType.k = "ok" /\ o.newType.ty = t /\ o.newType.same, TypeWhy(o.newType, t)),
        Asp("New", CreatedOk(o.new, t), CreatedWhy(o.new, t)),
        Asp("Type.New", CreatedOk(o.typeNew, t), CreatedWhy(o.typeNew, t)),
        Asp("TypeOf", TypeOk(o.typeOf, t), TypeWhy(o.typeOf, t)),
        Asp("TypeOf(New)", TypeOk(o.typeOfNew, t), TypeWhy(o.typeOfNew, t)),
        Asp("Wrap", WrappedOk(o.wrap, s), WrappedWhy(o.wrap, s)),
        Asp("Unwrap(Wrap)", SameOk(o.unwrap), SameWhy(o.unwrap)),
        Asp("containedresource.TypeOf", TypeOk(o.crTypeOf, t), TypeWhy(o.crTypeOf, t)),
        Asp("Unwrap", SameOk(o.unwrapIndep), SameWhy(o.unwrapIndep)),
        Asp("NewCollectionEntry", WrappedOk(o.collectionEntry, s), WrappedWhy(o.collectionEntry, s)),
        Asp("NewPostEntry", WrappedOk(o.postEntry, s), WrappedWhy(o.postEntry, s)),
        Asp("NewPutEntry", WrappedOk(o.putEntry, s), WrappedWhy(o.putEntry, s)),
        Asp("UnwrapEntry", SameOk(o.unwrapEntryIndep), SameWhy(o.unwrapEntryIndep)) >>
      b == FirstBad(asps)
  IN V(o.id, b = 0, IF b = 0 THEN "" ELSE "wrap|res|" \o asps[b].a \o "|" \o asps[b].why \o "|" \o t, s)

(* --------------------------------------------------------------- bundles *)
BundleWant(ts) == BundleUnwrap(BundleOf([j \in 1..Len(ts) |-> [t |-> ts[j], r |-> j]]))
BundleWhy(u, want) ==
  IF u.k # "ok" THEN u.k
  ELSE IF Len(u.got) # Len(want) THEN "length-" \o ToString(Len(u.got))
  ELSE IF \E j \in 1..Len(u.got) : u.got[j] = 0 THEN "not-the-same-object"
  ELSE IF u.got = Reverse(want) THEN "reversed" ELSE "wrong-order"
VerdictBundle(o) ==
  IF \E j \in 1..Len(o.ts) : o.ts[j] \notin ResTypeSet THEN V(o.id, FALSE, "malformed|bundle|unknown-type", <<>>)
  ELSE
  LET want == BundleWant(o.ts)
      good(u) == u.k = "ok" /\ u.got = want
      asps == << Asp("NewCollection", good(o.viaConstructors), BundleWhy(o.viaConstructors, want)),
                 Asp("NewTransaction", good(o.viaTransaction), BundleWhy(o.viaTransaction, want)),
                 Asp("Unwrap", good(o.byHand), BundleWhy(o.byHand, want)) >>
      b == FirstBad(asps)
  IN V(o.id, b = 0, IF b = 0 THEN "" ELSE "wrap|bundle|" \o asps[b].a \o "|" \o asps[b].why \o "|entries-" \o ToString(Len(o.ts)), want)

(* ------------------------------------------------------ extension values *)
VerdictExtVal(o) ==
  IF o.t \notin ExtTypeSet THEN V(o.id, FALSE, "malformed|extval|unknown-type", "")
  ELSE
  LET t == o.t
      s == SlotOfExt(t)
      asps == << Asp("FromElement", WrappedOk(o.fromElement, s), WrappedWhy(o.fromElement, s)),
                 Asp("Unwrap(FromElement)", SameOk(o.unwrap), SameWhy(o.unwrap)),
                 Asp("New", WrappedOk(o.new, s), WrappedWhy(o.new, s)),
                 Asp("Unwrap(New)", SameOk(o.unwrapNew), SameWhy(o.unwrapNew)),
                 Asp("Unwrap", SameOk(o.unwrapIndep), SameWhy(o.unwrapIndep)) >>
      b == FirstBad(asps)
  IN V(o.id, b = 0, IF b = 0 THEN "" ELSE "wrap|extval|" \o asps[b].a \o "|" \o asps[b].why \o "|" \o t, s)

(* ------------------------------------------------- extension behaviours *)
(* shape of the pre-state with respect to the URL(s) the step is keyed on *)
UrlShape(st, pre) ==
  IF ~Keyed(st) THEN "any"
  ELSE LET n == Len(SelectSeq(pre, LAMBDA e : e.url \in KeyUrls(st)))
       IN IF n = 0 THEN "urlAbsent" ELSE IF n = 1 THEN "urlOnce" ELSE "urlRepeated"
StepWhy(s) ==
  IF s.out # "ok" THEN s.out
  ELSE IF ~Frame(s.step, s.pre, s.post) THEN "other-urls-changed"
  ELSE IF ~Permitted(s.step, s.pre, s.post) THEN "result-not-permitted"
  ELSE IF ~RetOk(s.step, s.pre, s.preheld, s.ret) THEN "returned-" \o s.ret.k \o (IF s.ret.k \in {"val", "ext"} /\ ~s.ret.same THEN "-not-the-same-object" ELSE "")
  ELSE IF ~HeldOk(s.step, s.preheld, s.postheld) THEN "built-extension-differs"
  ELSE IF ~s.frozen THEN "rest-of-owner-changed"
  ELSE ""
KnownOps == Mutators \cup Readers
VerdictBeh(o) ==
  LET n == Len(o.steps)
      linked == \A j \in 2..n : o.steps[j].pre = o.steps[j - 1].post /\ o.steps[j].preheld = o.steps[j - 1].postheld
      wellFormed == n > 0 /\ linked /\ \A j \in 1..n : o.steps[j].step.op \in KnownOps
  IN IF ~wellFormed THEN V(o.id, FALSE, "malformed|beh", <<>>)
     ELSE LET bad == IndicesWhere(o.steps, LAMBDA s : StepWhy(s) # "")
          IN IF Len(bad) = 0 THEN V(o.id, TRUE, "", <<>>)
             ELSE LET s == o.steps[bad[1]]
                  IN V(o.id, FALSE, "ext|" \o s.step.op \o "|" \o UrlShape(s.step, s.pre) \o "|" \o StepWhy(s),
                       ApplyDet(s.step, s.pre))

(* ------------------------------------------------------------ extraction *)
(* Required: every node of the type that has a message of its own in the   *)
(* resource.  Not required (google/fhir has no message for them): the      *)
(* `reference` string of a typed reference, and nodes inside a contained   *)
(* resource (packed in an Any).                                            *)
FoundNodes(o)   == SelectSeq(o.found, LAMBDA f : f.k = "node")
FoundAddrs(o)   == {FoundNodes(o)[j].addr : j \in 1..Len(FoundNodes(o))}
NodeName(tree, a) == IF a = <<>> THEN tree.n
                     ELSE NodeAt(tree, SubSeq(a, 1, Len(a) - 1)).pn \o "." \o NodeAt(tree, a).jn
VerdictXSet(o, tree) ==
  LET all      == AllOfType(tree, o.T)
      required == {a \in all : NodeAt(tree, a).hp}
      optional == all \ required
      nested   == NestedResourcesFrom(tree, <<>>)
      inNested(a) == \E p \in nested : IsPrefixOf(p, a)
      found    == FoundAddrs(o)
      unknown  == Len(SelectSeq(o.found, LAMBDA f : f.k # "node"))
      badAddr  == \E j \in 1..Len(o.found) : o.found[j].k = "node" /\ ~ValidAddr(tree, o.found[j].addr)
      pre      == "extract|" \o o.api \o "|" \o o.T \o "|"
      anyOf(S) == CHOOSE a \in S : TRUE
  IN IF o.T \notin ExtractTypes \/ badAddr THEN V(o.id, FALSE, "malformed|xset", <<>>)
     ELSE IF o.out \in {"panic", "timeout"} THEN V(o.id, FALSE, pre \o o.out, <<>>)
     ELSE IF o.out = "err" THEN
            V(o.id, FALSE, pre \o (IF \E a \in all : inNested(a) THEN "error|element-inside-nested-resource" ELSE "error|unexpected"), <<>>)
     ELSE IF unknown > Cardinality({a \in optional : inNested(a)}) THEN
            V(o.id, FALSE, pre \o "found-element-that-is-not-in-the-tree|" \o (SelectSeq(o.found, LAMBDA f : f.k # "node")[1]).pn, <<>>)
     ELSE IF found \ all # {} THEN V(o.id, FALSE, pre \o "found-element-of-another-type|" \o NodeName(tree, anyOf(found \ all)), <<>>)
     ELSE IF Len(FoundNodes(o)) # Cardinality(found) THEN V(o.id, FALSE, pre \o "found-twice", <<>>)
     ELSE IF required \ found # {} THEN V(o.id, FALSE, pre \o "missed|" \o NodeName(tree, anyOf(required \ found)), <<>>)
     ELSE V(o.id, TRUE, "", <<>>)

(* a label must navigate to the element it labels; when no step is reached  *)
(* through a choice type, evaluating the label as FHIRPath must return that *)
(* element (for a primitive a detached element of equal content or equal    *)
(* value is also "that element": FHIRPath is value-oriented there).         *)
SameValue(x, y) == x.t = y.t /\ (x.t = "s" => x.cp = y.cp) /\ (x.t = "b" => x.b = y.b) /\ (x.t = "i" => x.i = y.i)
FpLocates(fp, tree, a) ==
  /\ fp.k = "ok" /\ fp.n = 1
  /\ LET it == fp.items[1]
         nd == NodeAt(tree, a)
     IN /\ it.t = "el" /\ ~it.wrapped
        /\ \/ it.r = 1 /\ it.addr = a
           \/ it.r = 0 /\ nd.k = "prim"
              /\ (it.h = nd.h \/ (nd.v.t \in {"s", "b", "i"} /\ SameValue(it.v, nd.v)))
(* does the way to address a pass through the string of a Reference? (the   *)
(* interpreter synthesises that string; part of the signature only)         *)
ViaReferenceString(tree, a) ==
  \E j \in 1..(Len(a) - 1) : LET p == SubSeq(a, 1, j)
                            IN NodeAt(tree, p).jn = "reference" /\ NodeAt(tree, SubSeq(a, 1, j - 1)).pn = "Reference"
VerdictXLabel(o, tree) ==
  LET nav == Nav(tree, o.steps)
      pre == "extract|label|" \o o.T \o "|"
  IN IF o.el.k # "node" THEN V(o.id, TRUE, "", <<>>)      \* judged by the xset record of the same call
     ELSE IF ~ValidAddr(tree, o.el.addr) THEN V(o.id, FALSE, "malformed|xlabel", <<>>)
     ELSE IF ~nav.ok THEN V(o.id, FALSE, pre \o "does-not-navigate|" \o nav.parent \o "." \o nav.name, o.el.addr)
     ELSE IF nav.addr # o.el.addr THEN V(o.id, FALSE, pre \o "navigates-elsewhere|" \o NodeName(tree, o.el.addr), o.el.addr)
     ELSE IF ~nav.choice /\ ~FpLocates(o.fp, tree, o.el.addr) THEN
            V(o.id, FALSE, pre \o "fhirpath-" \o o.fp.k \o (IF o.fp.k = "ok" THEN ToString(o.fp.n) ELSE "") \o "|"
                           \o (IF ViaReferenceString(tree, o.el.addr) THEN "below-Reference.reference|" ELSE "") \o NodeName(tree, o.el.addr), o.el.addr)
     ELSE V(o.id, TRUE, "", <<>>)
=============================================================================
