-------------------------------- MODULE C13 --------------------------------
(***************************************************************************)
(* Property C13: conversion functions are mutually consistent and round-   *)
(* trip through strings.  This module is the case space and the oracle:    *)
(* C13_MC explores it (laws as invariants, one emitted case per state),    *)
(* C13_Judge judges observations of the real code.                         *)
(*                                                                         *)
(* A case is (source, T): a source is a pool item together with the way it *)
(* is handed to the implementation - as a literal in the expression text,  *)
(* as an environment variable, as a FHIR primitive element of a given kind *)
(* (the harness puts the value into Parameters.parameter.value[x]) or as a *)
(* complex element of model resource MR1.  For every case the programs     *)
(*   to     x.toT()              conv   x.convertsToT()                    *)
(*   toto   x.toT().toT()        strto  x.toString().toT()                 *)
(* are evaluated, and for x already of type T also                         *)
(*   strconv  x.toString().convertsToT().                                  *)
(***************************************************************************)
EXTENDS FPConvert, C13_Pool

CONSTANT Level          \* 1 = quick pool, 2 = thorough pool

(***************************** the value pool *****************************)
Dec(neg, digits, e) == DItem(DMake(neg, DigitsToNat(digits), e))    \* digits = code points of the coefficient
D1(n, e) == DecI(FALSE, n, e)

ValuePool1 == <<
  B(TRUE), B(FALSE),
  I(0), I(1), I(2), I(5), I(-1), I(-5), I(MaxInt32), I(MinInt32 + 1), I(MinInt32),
  D1(0, 0), D1(1, 0), D1(15, -1), DecI(TRUE, 15, -1), D1(1, -1), D1(5, -1), D1(2, 0), D1(314159, -5),
  DItem(DMake(FALSE, <<3648, 4748, 21>>, 0)),                                   \* 2147483648.0
  Dec(FALSE, <<49,50,51,52,53,54,55,56,57,48,49,50,51,52,53,54,55,56,57,48,49,50,51,52,53,54,55,56,57>>, -9),  \* 12345678901234567890.123456789
  D1(1, -18),
  S(<<97, 98, 99>>), S(<<>>), S(<<109, 97, 108, 101>>), S(<<104, 233, 108, 108, 111>>),
  DateI(1, 2020, 1, 1), DateI(2, 2020, 2, 1), DateI(3, 2020, 2, 29), DateI(3, 1, 1, 1), DateI(3, 9999, 12, 31), DateI(2, 1999, 12, 1),
  DtI(1, 2020, 1, 1, 0, 0, 0, 0, FALSE, 0), DtI(2, 2020, 2, 1, 0, 0, 0, 0, FALSE, 0), DtI(3, 2020, 2, 29, 0, 0, 0, 0, FALSE, 0),
  DtI(4, 2020, 2, 29, 10, 0, 0, 0, FALSE, 0), DtI(5, 2020, 2, 29, 10, 30, 0, 0, FALSE, 0),
  DtI(6, 2020, 2, 29, 10, 30, 15, 0, FALSE, 0), DtI(7, 2020, 2, 29, 10, 30, 15, 250, FALSE, 0),
  DtI(6, 2020, 2, 29, 10, 30, 15, 0, TRUE, 0), DtI(7, 2020, 2, 29, 10, 30, 15, 250, TRUE, 330),
  DtI(6, 2019, 12, 31, 23, 59, 59, 0, TRUE, -660), DtI(4, 2020, 2, 29, 10, 0, 0, 0, TRUE, 0),
  DtI(5, 2020, 2, 29, 10, 30, 0, 0, TRUE, 60), DtI(7, 2021, 2, 3, 4, 5, 6, 789, TRUE, 0),
  TimeI(4, 10, 0, 0, 0), TimeI(5, 10, 30, 0, 0), TimeI(6, 10, 30, 15, 0), TimeI(7, 10, 30, 15, 250),
  TimeI(5, 0, 0, 0, 0), TimeI(7, 23, 59, 59, 999),
  QI(DFromInt(5), <<109, 103>>),                      \* 5 'mg'
  QI(DFromInt(5), <<100, 97, 121, 115>>),             \* 5 days
  QI(DFromInt(1), <<121, 101, 97, 114>>),             \* 1 year
  QI(DMake(FALSE, <<15>>, -1), <<107, 103>>),         \* 1.5 'kg'
  QI(DFromInt(100), <<107, 109, 47, 104>>),           \* 100 'km/h'
  QI(DFromInt(4), <<49>>),                            \* 4 '1'
  QI(DMake(TRUE, <<25>>, -1), <<109, 103>>),          \* -2.5 'mg'
  QI(DMake(FALSE, <<725>>, -1), <<107, 103>>)         \* 72.5 'kg'
>>

(* thorough: more boundaries *)
ValuePool2 == <<
  I(10), I(-10), I(100), I(1000000), I(MaxInt32 - 1), I(MinInt32 + 2), I(46341), I(65536),
  D1(10, 0), D1(25, -2), D1(1, -3), D1(999, -3), DecI(TRUE, 1, 0), DecI(TRUE, 1, -1), D1(12345, -2), D1(2147483647, 0),
  Dec(TRUE, <<57,57,57,57,57,57,57,57,57,57,57,57,57,57,57,57,57,57,57,57>>, -10),
  Dec(FALSE, <<49,48,48,48,48,48,48,48,48,48,48,48,48,48,48,48,48,48,48,48,48,48,48,48,48,48,48,49>>, -27),
  DateI(3, 2019, 2, 28), DateI(3, 2000, 2, 29), DateI(3, 1900, 2, 28), DateI(3, 2020, 12, 31), DateI(3, 2020, 1, 1),
  DateI(2, 2020, 12, 1), DateI(1, 1, 1, 1), DateI(1, 9999, 1, 1), DateI(3, 2021, 4, 30), DateI(3, 2021, 10, 9),
  DtI(6, 2020, 12, 31, 23, 59, 59, 0, TRUE, 840), DtI(6, 2020, 1, 1, 0, 0, 0, 0, TRUE, -720),
  DtI(7, 2020, 1, 1, 0, 0, 0, 0, FALSE, 0), DtI(7, 2020, 1, 1, 0, 0, 0, 1, TRUE, 0), DtI(7, 9999, 12, 31, 23, 59, 59, 999, FALSE, 0),
  DtI(6, 1, 1, 1, 0, 0, 0, 0, FALSE, 0), DtI(5, 2020, 6, 15, 12, 0, 0, 0, TRUE, -330), DtI(4, 2020, 6, 15, 23, 0, 0, 0, FALSE, 0),
  DtI(6, 2020, 2, 29, 10, 30, 15, 0, TRUE, 345), DtI(3, 9999, 12, 31, 0, 0, 0, 0, FALSE, 0), DtI(1, 1, 1, 1, 0, 0, 0, 0, FALSE, 0),
  TimeI(4, 0, 0, 0, 0), TimeI(4, 23, 0, 0, 0), TimeI(5, 23, 59, 0, 0), TimeI(6, 0, 0, 0, 0), TimeI(6, 23, 59, 59, 0),
  TimeI(7, 0, 0, 0, 0), TimeI(7, 0, 0, 0, 1), TimeI(7, 12, 0, 0, 500),
  QI(DFromInt(0), <<109, 103>>), QI(DFromInt(1), <<119, 101, 101, 107>>), QI(DFromInt(2), <<119, 101, 101, 107, 115>>),
  QI(DFromInt(3), <<109, 111, 110, 116, 104, 115>>), QI(DFromInt(1), <<100>>), QI(DMake(FALSE, <<1>>, -3), <<103>>),
  QI(DFromInt(7), <<109, 109, 91, 72, 103, 93>>),     \* 7 'mm[Hg]'
  QI(DFromInt(10), <<107, 109, 32, 112, 101, 114, 32, 104, 111, 117, 114>>),   \* 10 'km per hour'
  QI(DMake(FALSE, <<3648, 4748, 21>>, 0), <<109, 103>>)
>>

ValuePool == IF Level >= 2 THEN ValuePool1 \o ValuePool2 ELSE ValuePool1
StrPool == [j \in 1..Len(StrPoolAll) |-> S(StrPoolAll[j])]

(************************** rendering as literals *************************)
Apos == 39
RECURSIVE EscapeStr(_)
EscapeStr(s) ==
  IF Len(s) = 0 THEN <<>>
  ELSE (IF s[1] = Apos THEN <<92, Apos>> ELSE IF s[1] = 92 THEN <<92, 92>> ELSE <<s[1]>>) \o EscapeStr(Tail(s))

Paren(s) == <<40>> \o s \o <<41>>
CalendarUnits ==
  { <<121,101,97,114>>, <<109,111,110,116,104>>, <<119,101,101,107>>, <<100,97,121>>, <<104,111,117,114>>,
    <<109,105,110,117,116,101>>, <<115,101,99,111,110,100>>, <<109,105,108,108,105,115,101,99,111,110,100>>,
    <<121,101,97,114,115>>, <<109,111,110,116,104,115>>, <<119,101,101,107,115>>, <<100,97,121,115>>, <<104,111,117,114,115>>,
    <<109,105,110,117,116,101,115>>, <<115,101,99,111,110,100,115>>, <<109,105,108,108,105,115,101,99,111,110,100,115>> }

DecLitDigits(a) == IF a.e >= 0 THEN DecDigits(a) \o <<46, 48>> ELSE DecDigits(a)     \* always with a decimal point

(* can the item be written as a literal (or a literal expression) of the grammar? *)
HasLit(x) ==
  CASE x.t = "s" -> \A j \in 1..Len(x.cp) : x.cp[j] \notin {10, 13}
    [] x.t = "q" -> ~x.val.neg
    [] x.t = "date" -> TRUE
    [] OTHER -> TRUE

LitOf(x) ==
  CASE x.t = "b"    -> ToStr(x)
    [] x.t = "i"    -> IF x.i = MinInt32 THEN <<40, 45, 50,49,52,55,52,56,51,54,52,55, 32, 45, 32, 49, 41>>    \* (-2147483647 - 1)
                       ELSE IF x.i < 0 THEN Paren(IntStr(x.i)) ELSE IntStr(x.i)
    [] x.t = "d"    -> IF x.neg THEN Paren(<<45>> \o DecLitDigits(DOfItem(x))) ELSE DecLitDigits(DOfItem(x))
    [] x.t = "s"    -> <<Apos>> \o EscapeStr(x.cp) \o <<Apos>>
    [] x.t = "date" -> <<64>> \o ToStr(x)
    [] x.t = "time" -> <<64, 84>> \o ToStr(x)
    [] x.t = "dt"   -> <<64>> \o ToStr(x) \o (IF x.p <= 3 THEN <<84>> ELSE <<>>)
    [] x.t = "q"    -> Paren(DecDigits(DOfItem(x.val)) \o <<32>> \o
                             (IF x.unit \in CalendarUnits THEN x.unit ELSE <<Apos>> \o x.unit \o <<Apos>>))

(***************************** FHIR element kinds *************************)
IdChar(c) == IsDigit(c) \/ IsAlpha(c) \/ c \in {45, 46}
IsIdLike(s) == Len(s) >= 1 /\ Len(s) <= 64 /\ \A j \in 1..Len(s) : IdChar(s[j])
IsCodeLike(s) == /\ Len(s) >= 1 /\ s[1] # 32 /\ s[Len(s)] # 32
                 /\ \A j \in 1..Len(s) : s[j] >= 32 /\ (s[j] = 32 => j < Len(s) /\ s[j + 1] # 32)
NoWsEdge(s) == Len(s) >= 1 /\ ~IsWs(s[1]) /\ ~IsWs(s[Len(s)]) /\ \A j \in 1..Len(s) : s[j] >= 32

(* The FHIR primitive kinds whose System value is exactly x (system.From's reading of FHIR
   primitives: code, id, uri, url, canonical, markdown are Strings; positiveInt, unsignedInt are Integers;
   instant is a DateTime; a Quantity element is a Quantity whose unit is its code). *)
FhirKinds(x, full, ext) ==
  CASE x.t = "b" -> {"boolean"}
    [] x.t = "i" -> {"integer"} \cup (IF x.i > 0 THEN {"positiveInt"} ELSE {}) \cup (IF x.i >= 0 THEN {"unsignedInt"} ELSE {})
    [] x.t = "d" -> {"decimal"}
    [] x.t = "s" -> IF Len(x.cp) = 0 \/ \E j \in 1..Len(x.cp) : x.cp[j] < 32 /\ x.cp[j] \notin {9, 10, 13} THEN {}
                    ELSE {"string"} \cup (IF full THEN {"markdown"} ELSE {})
                                    \cup (IF full /\ IsCodeLike(x.cp) THEN {"code"} ELSE {})
                                    \cup (IF full /\ IsIdLike(x.cp) THEN {"id", "uri"} ELSE {})
                                    \cup (IF full /\ ext /\ IsIdLike(x.cp) THEN {"url", "canonical"} ELSE {})
    [] x.t = "date" -> {"date"}
    [] x.t = "dt" -> IF x.p <= 3 THEN {"dateTime"}
                     ELSE IF x.p >= 6 /\ x.tz THEN {"dateTime"} \cup (IF x.p = 7 THEN {"instant"} ELSE {})
                     ELSE {}
    [] x.t = "time" -> IF x.p >= 6 THEN {"time"} ELSE {}
    [] x.t = "q" -> {"Quantity"}
    [] OTHER -> {}

(******************************* sources **********************************)
(* sk: "lit" | "env" | "el"; fk: FHIR kind ("" unless sk = "el"); ra/rc: the receiver text
   (ASCII part, then code points) *)
Src(pool, j, x, sk, fk, ra, rc) ==
  [pool |-> pool, j |-> j, x |-> x, sk |-> sk, fk |-> fk, ra |-> ra, rc |-> rc]

ElemPath == "Parameters.parameter.value"

SourcesOf(pool, j, x, full) ==
  (IF HasLit(x) THEN {Src(pool, j, x, "lit", "", "", LitOf(x))} ELSE {})
  \cup {Src(pool, j, x, "env", "", "%x", <<>>)}
  \cup {Src(pool, j, x, "el", k, ElemPath, <<>>) : k \in FhirKinds(x, full, Level >= 2)}

ComplexSources ==
  { Src("c", 1, Cx("HumanName"), "el", "HumanName", "Patient.name.first()", <<>>),
    Src("c", 2, Cx("CodeableConcept"), "el", "CodeableConcept", "Patient.maritalStatus", <<>>),
    Src("c", 3, Cx("Patient"), "el", "Patient", "Patient", <<>>),
    Src("c", 4, Cx("BackboneElement"), "el", "BackboneElement", "Patient.contact.first()", <<>>) }

Sources ==
  UNION {SourcesOf("v", j, ValuePool[j], TRUE) : j \in 1..Len(ValuePool)}
  \cup UNION {SourcesOf("s", j, StrPool[j], Level >= 2) : j \in 1..Len(StrPool)}
  \cup ComplexSources

Cases == {[src |-> s, T |-> T] : s \in Sources, T \in Targets}

(******************************* programs *********************************)
(* rteq: the round trip stated INSIDE the language, x.toT() = x.toT().toString().toT() - a component the result hides from   *)
(* its own rendering (a Date that still carries a time of day) shows in the comparison                                   *)
ProgNames == <<"to", "conv", "toto", "strto", "rteq">>
(* for x already of type T additionally  strconv  x.toString().convertsToT()  (must be true:
   the round-trip clause x.toString().toT() = x is hard for every type and precision) *)
ProgNamesFor(T, x) == IF x.t = TagOf(T) THEN ProgNames \o <<"strconv">> ELSE ProgNames
Suffix(p, T) ==
  CASE p = "to"    -> ".to" \o T \o "()"
    [] p = "conv"  -> ".convertsTo" \o T \o "()"
    [] p = "toto"  -> ".to" \o T \o "().to" \o T \o "()"
    [] p = "strto" -> ".toString().to" \o T \o "()"
    [] p = "strconv" -> ".toString().convertsTo" \o T \o "()"
    [] p = "rteq"  -> ".select($this.to" \o T \o "() = $this.to" \o T \o "().toString().to" \o T \o "())"
    [] p = "str"   -> ".toString()"
Progs(T, x) == LET ns == ProgNamesFor(T, x) IN [k \in 1..Len(ns) |-> [p |-> ns[k], sfx |-> Suffix(ns[k], T)]]

CaseId(c) == c.src.pool \o ToString(c.src.j) \o "." \o c.src.sk \o (IF c.src.fk = "" THEN "" ELSE "-" \o c.src.fk) \o "." \o c.T

Emitted(c) ==
  [id |-> CaseId(c), T |-> c.T, sk |-> c.src.sk, fk |-> c.src.fk, x |-> c.src.x,
   ra |-> c.src.ra, rc |-> c.src.rc, progs |-> Progs(c.T, c.src.x)]

(******************************** the laws ********************************)
(* L1  convertsToT(x) is true exactly when toT(x) is non-empty *)
LawConvertsIffTo(T, x) == Convertible(T, x) <=> (To(T, x) # <<>>)
(* L2  the result of toT is at most one item, of type T *)
LawTyped(T, x) == LET r == To(T, x) IN Len(r) <= 1 /\ \A j \in 1..Len(r) : WellTyped(T, r[j])
(* L3  converting twice equals converting once *)
LawIdempotent(T, x) == LET r == To(T, x) IN Len(r) = 1 => To(T, r[1]) = r
(* L4  for x of type T, x.toString().toT() = x (by value) *)
LawRoundTrip(T, x) ==
  x.t = TagOf(T) => LET r == To(T, S(ToStr(x))) IN Len(r) = 1 /\ ValEq(r[1], x)
(* L5  a complex element converts to nothing; an item of type T converts to itself *)
LawTable(T, x) == /\ (x.t = "cx" => To(T, x) = <<>> /\ ~Convertible(T, x))
                  /\ (x.t = TagOf(T) => To(T, x) = <<x>>)
                  /\ (x.t = "dt" /\ T = "Date" => LET r == To(T, x) IN Len(r) = 1 /\ r[1].p <= 3 /\ r[1].y = x.y)

(***************************** classification *****************************)
CharClass(c) ==
  IF IsDigit(c) THEN "9" ELSE IF c = 84 THEN "T" ELSE IF c = 90 THEN "Z" ELSE IF c \in {69, 101} THEN "e"
  ELSE IF IsAlpha(c) THEN "a" ELSE IF c = 43 THEN "+" ELSE IF c = 45 THEN "-" ELSE IF c = 46 THEN "."
  ELSE IF c = 58 THEN ":" ELSE IF c = 32 THEN "_" ELSE IF c \in {9, 10, 12, 13} THEN "w" ELSE IF c = 39 THEN "q"
  ELSE IF c = 64 THEN "@" ELSE IF c = 47 THEN "/" ELSE IF c > 126 THEN "U" ELSE "x"
(* the character classes of s; a run of more than four characters of one class is written
   as four of them and a "+"; at most 40 characters *)
RECURSIVE ShapeR(_, _, _, _, _)
ShapeR(s, j, prev, run, n) ==
  IF j > Len(s) THEN ""
  ELSE IF n >= 40 THEN "~"
  ELSE LET c == CharClass(s[j])
       IN IF c = prev
          THEN (IF run < 4 THEN c \o ShapeR(s, j + 1, c, run + 1, n + 1)
                ELSE IF run = 4 THEN "+" \o ShapeR(s, j + 1, c, 5, n + 1)
                ELSE ShapeR(s, j + 1, c, 5, n))
          ELSE c \o ShapeR(s, j + 1, c, 1, n + 1)
Shape(s) == ShapeR(s, 1, "", 0, 0)

ConvVector(x) ==
  (IF Convertible("Boolean", x) THEN "B" ELSE "") \o (IF Convertible("Integer", x) THEN "I" ELSE "") \o
  (IF Convertible("Decimal", x) THEN "D" ELSE "") \o (IF Convertible("Date", x) THEN "d" ELSE "") \o
  (IF Convertible("DateTime", x) THEN "t" ELSE "") \o (IF Convertible("Time", x) THEN "T" ELSE "") \o
  (IF Convertible("Quantity", x) THEN "Q" ELSE "")

XClass(x) ==
  CASE x.t = "b" -> "b"
    [] x.t = "i" -> IF x.i = 0 THEN "i:0" ELSE IF x.i = 1 THEN "i:1" ELSE IF x.i > 0 THEN "i:pos" ELSE "i:neg"
    [] x.t = "d" -> IF DIsZero(DOfItem(x)) THEN "d:0" ELSE IF DEq(DOfItem(x), DOne) THEN "d:1"
                    ELSE IF x.e >= 0 THEN "d:int" ELSE "d:frac"
    [] x.t = "s" -> "s[" \o Shape(x.cp) \o "]" \o ConvVector(x)
    [] x.t = "date" -> "date:p" \o ToString(x.p)
    [] x.t = "time" -> "time:p" \o ToString(x.p)
    [] x.t = "dt" -> "dt:p" \o ToString(x.p) \o (IF x.tz THEN "z" ELSE "")
    [] x.t = "q" -> "q:" \o (IF x.unit = UnitOne THEN "one" ELSE IF x.unit \in CalendarUnits THEN "cal"
                             ELSE IF AllAlpha(x.unit) THEN "alpha" ELSE "sym")
    [] x.t = "cx" -> "cx:" \o x.ft
    [] OTHER -> "other:" \o x.t
=============================================================================
