------------------------------ MODULE C03_Judge ------------------------------
(***************************************************************************)
(* Judge for C03.  Observation: [id, kind, src, out, mut] where mut is the  *)
(* mutation report computed by the harness from before/after snapshots of   *)
(* every caller-owned object (resources: deterministic bytes, proto.Equal,  *)
(* presence bits; environment collections: slice header, every cell up to   *)
(* capacity, content of aliased elements).  InputsFrozen demands that no    *)
(* flag is set, whether the evaluation succeeded or failed (reeval_differs:  *)
(* a second evaluation of the same compiled expression gave another result, *)
(* i.e. the compiled expression was changed); NodesAreInput-                 *)
(* Nodes demands that every FHIR element in a result is one of the input's   *)
(* own nodes (r # 0), never a copy.                                          *)
(***************************************************************************)
EXTENDS FPValues, Json, Params

Obs == ndJsonDeserialize(ObsFile)
NObs == Len(Obs)
W == 16

Flags == <<"res_bytes", "res_equal", "res_presence", "env_header", "env_cells", "env_spare", "env_content", "reeval_differs", "crosseval_differs", "kept_result_changed">>
(* kept_result_changed (machine programs): the collection the first evaluation returned, kept by the caller, projects     *)
(* differently after later evaluations of other inputs - the result was not the caller's own                             *)
(* crosseval_differs (machine programs only): the compiled expression, reused on OTHER resources and OTHER variable   *)
(* values, disagrees with a freshly compiled one - it kept something of its first evaluation                          *)
Changed(m) == SelectSeq(Flags, LAMBDA f : Has(m, f) /\ m[f])
InputsFrozen(m) == Len(Changed(m)) = 0

(* refstep: the program reads `.reference`.  For a typed reference (`Patient/p1`) the proto stores type and id apart, so  *)
(* the String element the path yields is built by the interpreter: a string primitive that is not a node of the input  *)
(* is accepted there, and only there.                                                                                   *)
NodesAreInputNodes(out, refstep) ==
  out.k = "ok" => \A j \in 1..Len(out.items) :
     out.items[j].t = "el" => (out.items[j].r # 0 \/ (refstep /\ out.items[j].fk = "prim" /\ out.items[j].ft = "string"))
NoNullItems(out) ==
  out.k = "ok" => \A j \in 1..Len(out.items) : out.items[j].t \notin {"nil", "unk"}

RECURSIVE JoinF(_)
JoinF(s) == IF Len(s) = 0 THEN "" ELSE s[1] \o (IF Len(s) > 1 THEN "+" ELSE "") \o JoinF(Tail(s))

Verdict(o) ==
  LET frozen == InputsFrozen(o.mut)
      own == o.checkown => NodesAreInputNodes(o.out, Has(o, "refstep") /\ o.refstep)    \* path programs may legitimately yield elements of contained resources (unpacked copies)
      good == frozen /\ own /\ ~IsFailure(o.out)
  IN [id |-> o.id, ok |-> good,
      sig |-> IF good THEN ""
              ELSE IF IsFailure(o.out) THEN "immut|" \o o.out.k \o "|" \o o.kind
              ELSE IF ~frozen THEN "immut|changed-" \o JoinF(Changed(o.mut)) \o "|" \o o.kind \o "|outcome-" \o o.out.k
              ELSE "immut|result-element-is-not-an-input-node|" \o o.kind,
      want |-> "inputs unchanged; result elements are input nodes"]

VARIABLE i
Init == i \in 1..(IF NObs < W THEN NObs ELSE W) /\ PrintT(ToJson(Verdict(Obs[i])))
Next == i + W <= NObs /\ i' = i + W /\ PrintT(ToJson(Verdict(Obs[i'])))
Spec == Init /\ [][Next]_i
=============================================================================
